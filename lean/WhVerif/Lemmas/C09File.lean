import WhVerif.Model.C09File
import WhVerif.Lemmas.C09
/-!
# Lemmas for the file-level part of C09

1. `readChromP` (reader with ploidy bookkeeping) refines `readChrom`; what a successful read guarantees about the rows
   (strictly increasing positions, phase alleles = the genotype's alleles in one of the two orders for diploid calls).
2. `writeRecordX true` is the repaired `writeRecord` of `Model/C04.lean`; what `writeRecordX false` keeps.
3. reader ∘ writer on one chromosome with duplicate positions and `--only-snvs` (the two skip cascades agree).
-/
set_option linter.unusedSimpArgs false
set_option linter.unusedVariables false
namespace WhVerif.C09
open WhVerif.C04

/-! ## 1. reader -/

theorem ploidyPhase_stable {pl pl' : Option Nat} {p : Option Phase} (h : ploidyPhase pl p = .ok pl') {q : Nat}
    (hq : pl = some q) : pl' = some q := by
  subst hq
  unfold ploidyPhase at h
  split at h
  · cases h; rfl
  · split at h
    · cases h
    · split at h
      · cases h; rfl
      · simp only at h
        split at h
        · cases h; rfl
        · cases h

theorem ploidyGeno_stable {pl pl' : Option Nat} {g : Option Gt} (h : ploidyGeno pl g = .ok pl') {q : Nat}
    (hq : pl = some q) : pl' = some q := by
  subst hq
  unfold ploidyGeno at h
  split at h
  · cases h; rfl
  · split at h
    · cases h; rfl
    · split at h
      · cases h
      · simp only at h
        split at h
        · cases h; rfl
        · cases h

/-- a phase with a block id that passed the ploidy check has the reader's ploidy -/
theorem ploidyPhase_len {pl pl' : Option Nat} {ph : Phase} (h : ploidyPhase pl (some ph) = .ok pl')
    (hb : ph.block.isSome) : pl' = some ph.alleles.length := by
  unfold ploidyPhase at h
  simp only at h
  split at h
  · cases h
  · have hb' : ph.block.isNone = false := by cases hx : ph.block <;> simp_all
    simp only [hb', Bool.false_eq_true, if_false] at h
    split at h
    · cases h; rfl
    · split at h
      · rename_i q _ heq; cases h; rw [heq]
      · cases h

theorem ploidyGeno_len {pl pl' : Option Nat} {g : Gt} (h : ploidyGeno pl (some g) = .ok pl')
    (hall : g.all Option.isSome = true) : pl' = some g.length := by
  unfold ploidyGeno at h
  simp only [hall, Bool.not_true, Bool.false_eq_true, if_false] at h
  split at h
  · cases h
  · split at h
    · cases h; rfl
    · split at h
      · rename_i q _ heq; cases h; rw [heq]
      · cases h

theorem ploidyGenos_stable : ∀ (calls : List (String × Call)) {pl pl' : Option Nat}, ploidyGenos pl calls = .ok pl' →
    ∀ {q : Nat}, pl = some q → pl' = some q
  | [], pl, pl', h, q, hq => by simp [ploidyGenos] at h; rw [← h]; exact hq
  | (_, c) :: r, pl, pl', h, q, hq => by
    simp only [ploidyGenos, bind, Except.bind] at h
    split at h
    · cases h
    · rename_i pl1 h1
      exact ploidyGenos_stable r h (ploidyGeno_stable h1 hq)

/-- after the genotype loop of a record, every fully called genotype of the record has the reader's ploidy -/
theorem ploidyGenos_len : ∀ (calls : List (String × Call)) {pl pl' : Option Nat}, ploidyGenos pl calls = .ok pl' →
    ∀ nc ∈ calls, ∀ g, nc.2.gt = some g → g.all Option.isSome = true → pl' = some g.length
  | [], _, _, _, nc, hnc, _, _, _ => by cases hnc
  | (n, c) :: r, pl, pl', h, nc, hnc, g, hg, hall => by
    simp only [ploidyGenos, bind, Except.bind] at h
    split at h
    · cases h
    · rename_i pl1 h1
      rcases List.mem_cons.mp hnc with rfl | hmem
      · simp only at hg
        rw [hg] at h1
        exact ploidyGenos_stable r h (ploidyGeno_len h1 hall)
      · exact ploidyGenos_len r h nc hmem g hg hall

/-- what one successful call of the ploidy-aware reader says -/
theorem readCallP_ok {st st' : Option Enc} {pl pl' : Option Nat} {fmt : List String} {c : Call} {ph : Option Phase}
    (h : readCallP st pl fmt c = .ok (st', pl', ph)) :
    readCall st fmt c = .ok (st', ph) ∧ (∀ q, pl = some q → pl' = some q) ∧
    (∀ p, ph = some p → p.block.isSome → pl' = some p.alleles.length) ∧
    (∀ p, ph = some p → extractGTPS fmt c = some p ∨ extractHP c = .ok (some p)) := by
  simp only [readCallP, bind, Except.bind, pure, Except.pure] at h
  split at h
  · cases h
  · rename_i hp hhp
    split at h
    · cases h
    · rename_i st1 hst1
      split at h
      · cases h
      · rename_i pl1 hpl1
        split at h
        · cases h
        · rename_i st2 hst2
          split at h
          · cases h
          · rename_i pl2 hpl2
            simp only [Except.ok.injEq, Prod.mk.injEq] at h
            obtain ⟨rfl, rfl, rfl⟩ := h
            refine ⟨?_, ?_, ?_, ?_⟩
            · simp only [readCall, callPhases, hhp, bind, Except.bind, pure, Except.pure, hst1, hst2]
              rfl
            · intro q hq
              exact ploidyPhase_stable hpl2 (ploidyPhase_stable hpl1 hq)
            · intro p hp' hb
              cases hg : extractGTPS fmt c with
              | some g =>
                rw [hg] at hpl2 hp'
                simp only [Option.some.injEq] at hp'
                subst hp'
                exact ploidyPhase_len hpl2 hb
              | none =>
                rw [hg] at hp'
                simp only at hp'
                subst hp'
                rw [hg] at hpl2
                exact ploidyPhase_stable hpl2 (ploidyPhase_len hpl1 hb)
            · intro p hp'
              cases hg : extractGTPS fmt c with
              | some g => rw [hg] at hp'; simp only [Option.some.injEq] at hp'; subst hp'; exact Or.inl rfl
              | none => rw [hg] at hp'; simp only at hp'; subst hp'; exact Or.inr hhp

theorem readCallsP_ok : ∀ (calls : List (String × Call)) {st st' : Option Enc} {pl pl' : Option Nat} {fmt : List String}
    {ps : List (Option Phase)}, readCallsP st pl fmt calls = .ok (st', pl', ps) →
    readCalls st fmt calls = .ok (st', ps) ∧ (∀ q, pl = some q → pl' = some q) ∧ ps.length = calls.length ∧
    ∀ x ∈ calls.zip ps, ∀ p, x.2 = some p →
      (p.block.isSome → pl' = some p.alleles.length) ∧
      (extractGTPS fmt x.1.2 = some p ∨ extractHP x.1.2 = .ok (some p))
  | [], st, st', pl, pl', fmt, ps, h => by
    simp only [readCallsP, Except.ok.injEq, Prod.mk.injEq] at h
    obtain ⟨rfl, rfl, rfl⟩ := h
    exact ⟨rfl, fun q hq => hq, rfl, fun x hx => by simp at hx⟩
  | (n, c) :: r, st, st', pl, pl', fmt, ps, h => by
    simp only [readCallsP, bind, Except.bind, pure, Except.pure] at h
    split at h
    · cases h
    · rename_i v1 h1
      obtain ⟨st1, pl1, p1⟩ := v1
      simp only at h
      split at h
      · cases h
      · rename_i v2 h2
        obtain ⟨st2, pl2, ps2⟩ := v2
        simp only [Except.ok.injEq, Prod.mk.injEq] at h
        obtain ⟨rfl, rfl, rfl⟩ := h
        obtain ⟨a1, a2, a3, a4⟩ := readCallP_ok h1
        obtain ⟨b1, b2, b3, b4⟩ := readCallsP_ok r h2
        refine ⟨?_, fun q hq => b2 q (a2 q hq), by simp [b3], ?_⟩
        · simp only [readCalls, a1, b1, bind, Except.bind, pure, Except.pure]
        · intro x hx p hp
          simp only [List.zip_cons_cons, List.mem_cons] at hx
          rcases hx with rfl | hx
          · simp only at hp ⊢
            refine ⟨fun hb => ?_, a4 p hp⟩
            have := a3 p hp hb
            exact b2 _ this
          · exact b4 x hx p hp

/-! ### codec level: the alleles of a stored phase are the alleles of the genotype -/

theorem extractGTPS_alleles {fmt : List String} {c : Call} {p : Phase} (h : extractGTPS fmt c = some p) :
    c.gt = some p.alleles := by
  unfold extractGTPS at h
  split at h
  · cases h
  · split at h
    · rename_i a r hgt
      split at h
      · cases h
      · simp only [Option.some.injEq] at h
        subst h
        exact hgt
    · cases h

theorem mapM_option_length {α β} (f : α → Option β) : ∀ (l : List α) (r : List β), l.mapM f = some r → r.length = l.length
  | [], r, h => by simp at h; subst h; rfl
  | a :: l, r, h => by
    cases hfa : f a with
    | none => simp [List.mapM_cons, hfa] at h
    | some b =>
      cases hl : List.mapM f l with
      | none => simp [List.mapM_cons, hfa, hl] at h
      | some r' =>
        simp [List.mapM_cons, hfa, hl] at h
        subst h
        simp [mapM_option_length f l r' hl]

theorem idxOf1_pair (a b k : Nat) :
    idxOf1 [a, b] k = if a = k then some 0 else if b = k then some 1 else none := by
  unfold idxOf1
  by_cases h1 : a = k
  · simp [List.findIdx_cons, h1]
  · have h1' : (a == k) = false := by simpa using h1
    by_cases h2 : b = k
    · simp [List.findIdx_cons, h1, h1', h2]
    · have h2' : (b == k) = false := by simpa using h2
      simp [List.findIdx_cons, h1, h1', h2, h2']

theorem hp_order2 (hh h' : Nat) (x y : Option Nat) (ph : List (Option Nat))
    (hph : [0, 1].mapM (fun i => (idxOf1 [hh, h'] (i + 1)).bind fun j => [x, y][j]?) = some ph) :
    ph = [x, y] ∨ ph = [y, x] := by
  simp only [List.mapM_cons, List.mapM_nil, idxOf1_pair, bind, Option.bind, pure] at hph
  by_cases e1 : hh = 1
  · subst e1
    by_cases e4 : h' = 2
    · subst e4; simp at hph; exact Or.inl hph.symm
    · simp [e4] at hph
  · by_cases e2 : h' = 1
    · subst e2
      by_cases e3 : hh = 2
      · subst e3; simp at hph; exact Or.inr hph.symm
      · simp [e1, e3] at hph
    · simp [e1, e2] at hph
/-- `_extract_HP_phase` on a diploid genotype with two HP fields returns the genotype's alleles in one of the two
    orders, and always a block id -/
theorem extractHP_diploid {c : Call} {p : Phase} (h : extractHP c = .ok (some p)) {x y : Option Nat}
    (hgt : c.gt = some [x, y]) (hlen : p.alleles.length = 2) :
    p.block.isSome ∧ (p.alleles = [x, y] ∨ p.alleles = [y, x]) := by
  unfold extractHP at h
  cases hget : c.get "HP" with
  | missing => rw [hget] at h; cases h
  | int n => rw [hget] at h; cases h
  | raw s => rw [hget] at h; cases h
  | hp l =>
    rw [hget] at h
    match l, h with
    | [], h => cases h
    | (b, hh) :: rest, h =>
      simp only [hgt] at h
      split at h
      · cases h
      · split at h
        · rename_i ph hph
          simp only [Except.ok.injEq, Option.some.injEq] at h
          subst h
          simp only at hlen ⊢
          have hl := mapM_option_length _ _ _ hph
          rw [hlen] at hl
          simp only [List.length_range, List.length_cons] at hl
          match rest, hl with
          | [(b', h')], _ =>
            refine ⟨rfl, ?_⟩
            simp only [List.length_cons, List.length_nil, range_two, List.map_cons, List.map_nil] at hph
            simp only [List.mapM_cons, List.mapM_nil, bind, Option.bind, pure] at hph
            exact hp_order2 hh h' x y ph hph
        · cases h

theorem extractHP_block {c : Call} {p : Phase} (h : extractHP c = .ok (some p)) : p.block.isSome := by
  unfold extractHP at h
  cases hget : c.get "HP" with
  | missing => rw [hget] at h; cases h
  | int n => rw [hget] at h; cases h
  | raw s => rw [hget] at h; cases h
  | hp l =>
    rw [hget] at h
    match l, h with
    | [], h => cases h
    | (b, hh) :: rest, h =>
      simp only at h
      split at h
      · cases h
      · split at h
        · cases h
        · split at h
          · simp only [Except.ok.injEq, Option.some.injEq] at h
            subst h; rfl
          · cases h

theorem gcode_pair {gt : Option Gt} {a b : Nat} (h : gcode gt = [a, b]) :
    ∃ u v, gt = some [some u, some v] ∧ ((u = a ∧ v = b) ∨ (u = b ∧ v = a)) := by
  cases gt with
  | none => simp [gcode] at h
  | some g =>
    unfold gcode at h
    simp only at h
    split at h
    · rename_i hall
      have hg := map_some_filterMap_id hall
      have hlen : (g.filterMap id).length = 2 := by
        have := (sortNat_perm (g.filterMap id)).length_eq
        rw [h] at this; simpa using this.symm
      obtain ⟨u, v, huv⟩ := pair_of_length_two hlen
      rw [huv, sortNat_pair] at h
      refine ⟨u, v, ?_, ?_⟩
      · rw [← hg, huv]; rfl
      · split at h
        · simp only [List.cons.injEq, and_true] at h; exact Or.inl h
        · simp only [List.cons.injEq, and_true] at h; exact Or.inr ⟨h.2, h.1⟩
    · cases h

/-- a stored phase of a heterozygous diploid call consists of the two alleles of the genotype, in either order -/
def RowOk (row : Row) : Prop :=
  ∀ x ∈ row.calls, ∀ p, x.2 = some p → ∀ a b, x.1 = [a, b] → a ≠ b →
    p.alleles = [some a, some b] ∨ p.alleles = [some b, some a]

theorem record_rowOk {r : Record} {st st1 : Option Enc} {pl pl1 pl2 : Option Nat} {ps : List (Option Phase)}
    (h1 : readCallsP st pl r.format r.calls = .ok (st1, pl1, ps)) (h2 : ploidyGenos pl1 r.calls = .ok pl2) :
    RowOk ⟨r.pos, r.ref, r.alts.headD "", (r.calls.map (fun nc => gcode nc.2.gt)).zip ps⟩ := by
  intro x hx p hp a b hab hne
  simp only [List.zip_map_left, List.mem_map] at hx
  obtain ⟨y, hy, rfl⟩ := hx
  simp only [Prod.map, id] at hp hab
  obtain ⟨_, _, _, hfacts⟩ := readCallsP_ok r.calls h1
  obtain ⟨hlenp, hsrc⟩ := hfacts y hy p hp
  obtain ⟨u, v, hgt, huv⟩ := gcode_pair hab
  have hymem : y.1 ∈ r.calls := (List.of_mem_zip hy).1
  have hpl2 : pl2 = some 2 := by
    have := ploidyGenos_len r.calls h2 y.1 hymem [some u, some v] hgt (by simp)
    simpa using this
  have hres : p.alleles = [some u, some v] ∨ p.alleles = [some v, some u] := by
    rcases hsrc with hg | hh
    · have := extractGTPS_alleles hg
      rw [hgt] at this
      simp only [Option.some.injEq] at this
      exact Or.inl this.symm
    · have hb := extractHP_block hh
      have h3 := ploidyGenos_stable r.calls h2 (hlenp hb)
      rw [hpl2] at h3
      simp only [Option.some.injEq] at h3
      exact (extractHP_diploid hh hgt h3.symm).2
  rcases huv with ⟨rfl, rfl⟩ | ⟨rfl, rfl⟩
  · exact hres
  · exact hres.symm

/-- `prev_position > pos` -/
def unsortedB (prev : Option Nat) (pos : Nat) : Bool := match prev with | some p => decide (p > pos) | none => false

theorem unsortedB_false {prev : Option Nat} {pos : Nat} (h : ¬ unsortedB prev pos = true) (h2 : ¬ (prev == some pos) = true) :
    ∀ p, prev = some p → p < pos := by
  intro p hp; subst hp
  simp only [unsortedB, decide_eq_true_eq, gt_iff_lt] at h
  simp only [beq_iff_eq, Option.some.injEq] at h2
  omega

theorem readChromP_cons (os : Bool) (st : Option Enc) (pl prev : Option Nat) (r : Record) (rs : List Record) :
    readChromP os st pl prev (r :: rs) =
    (if r.alts.isEmpty || decide (r.alts.length > 1) then readChromP os st pl prev rs
    else if os && !(r.ref.length == 1 && r.alts.all (·.length == 1)) then readChromP os st pl prev rs
    else if unsortedB prev r.pos then .error .notSorted
    else if prev == some r.pos then readChromP os st pl prev rs
    else do
      let (st1, pl1, ps) ← readCallsP st pl r.format r.calls
      let pl2 ← ploidyGenos pl1 r.calls
      let (st2, pl3, rows) ← readChromP os st1 pl2 (some r.pos) rs
      pure (st2, pl3, ⟨r.pos, r.ref, r.alts.headD "", (r.calls.map (fun nc => gcode nc.2.gt)).zip ps⟩ :: rows)) := by
  conv => lhs; unfold readChromP
  cases prev <;> rfl

theorem readChrom_cons (os : Bool) (st : Option Enc) (prev : Option Nat) (r : Record) (rs : List Record) :
    readChrom os st prev (r :: rs) =
    (if r.alts.isEmpty || decide (r.alts.length > 1) then readChrom os st prev rs
    else if os && !(r.ref.length == 1 && r.alts.all (·.length == 1)) then readChrom os st prev rs
    else if unsortedB prev r.pos then .error .notSorted
    else if prev == some r.pos then readChrom os st prev rs
    else do
      let (st1, ps) ← readCalls st r.format r.calls
      let (st2, rows) ← readChrom os st1 (some r.pos) rs
      pure (st2, ⟨r.pos, r.ref, r.alts.headD "", (r.calls.map (fun nc => gcode nc.2.gt)).zip ps⟩ :: rows)) := by
  conv => lhs; unfold readChrom
  cases prev <;> rfl

theorem readChromP_ok (os : Bool) : ∀ (rs : List Record) {st st' : Option Enc} {pl pl' prev : Option Nat} {rows : List Row},
    readChromP os st pl prev rs = .ok (st', pl', rows) →
    readChrom os st prev rs = .ok (st', rows) ∧ (∀ q, pl = some q → pl' = some q) ∧ (∀ row ∈ rows, RowOk row)
  | [], st, st', pl, pl', prev, rows, h => by
    simp only [readChromP, Except.ok.injEq, Prod.mk.injEq] at h
    obtain ⟨rfl, rfl, rfl⟩ := h
    exact ⟨rfl, fun q hq => hq, fun row hr => by cases hr⟩
  | r :: rs, st, st', pl, pl', prev, rows, h => by
    rw [readChromP_cons] at h
    rw [readChrom_cons]
    by_cases c1 : (r.alts.isEmpty || decide (r.alts.length > 1)) = true
    · rw [if_pos c1] at h ⊢; exact readChromP_ok os rs h
    · rw [if_neg c1] at h ⊢
      by_cases c2 : (os && !(r.ref.length == 1 && r.alts.all (·.length == 1))) = true
      · rw [if_pos c2] at h ⊢; exact readChromP_ok os rs h
      · rw [if_neg c2] at h ⊢
        by_cases c3 : unsortedB prev r.pos = true
        · rw [if_pos c3] at h; cases h
        · rw [if_neg c3] at h ⊢
          by_cases c4 : (prev == some r.pos) = true
          · rw [if_pos c4] at h ⊢; exact readChromP_ok os rs h
          · rw [if_neg c4] at h ⊢
            simp only [bind, Except.bind, pure, Except.pure] at h ⊢
            split at h
            · cases h
            · rename_i v1 h1
              obtain ⟨st1, pl1, ps⟩ := v1
              simp only at h
              split at h
              · cases h
              · rename_i pl2 h2
                split at h
                · cases h
                · rename_i v3 h3
                  obtain ⟨st2, pl3, rows'⟩ := v3
                  simp only [Except.ok.injEq, Prod.mk.injEq] at h
                  obtain ⟨rfl, rfl, rfl⟩ := h
                  obtain ⟨a1, a2, _, _⟩ := readCallsP_ok r.calls h1
                  obtain ⟨b1, b2, b3⟩ := readChromP_ok os rs h3
                  refine ⟨?_, ?_, ?_⟩
                  · simp only [a1, b1]
                  · intro q hq
                    exact b2 q (ploidyGenos_stable r.calls h2 (a2 q hq))
                  · intro row hrow
                    rcases List.mem_cons.mp hrow with rfl | hmem
                    · exact record_rowOk h1 h2
                    · exact b3 row hmem

theorem readChrom_sorted (os : Bool) : ∀ (rs : List Record) {st st' : Option Enc} {prev : Option Nat} {rows : List Row},
    readChrom os st prev rs = .ok (st', rows) →
    rows.Pairwise (fun a b => a.pos < b.pos) ∧ (∀ row ∈ rows, ∀ p, prev = some p → p < row.pos) ∧
    rows.map (·.pos) = (accepted os prev rs).map (·.pos)
  | [], st, st', prev, rows, h => by
    simp only [readChrom, Except.ok.injEq, Prod.mk.injEq] at h
    obtain ⟨rfl, rfl⟩ := h
    exact ⟨List.Pairwise.nil, fun row hr => (by cases hr), rfl⟩
  | r :: rs, st, st', prev, rows, h => by
    rw [readChrom_cons] at h
    unfold accepted
    by_cases c1 : (r.alts.isEmpty || decide (r.alts.length > 1)) = true
    · rw [if_pos c1] at h ⊢; exact readChrom_sorted os rs h
    · rw [if_neg c1] at h ⊢
      by_cases c2 : (os && !(r.ref.length == 1 && r.alts.all (·.length == 1))) = true
      · rw [if_pos c2] at h ⊢; exact readChrom_sorted os rs h
      · rw [if_neg c2] at h ⊢
        by_cases c3 : unsortedB prev r.pos = true
        · rw [if_pos c3] at h; cases h
        · rw [if_neg c3] at h
          by_cases c4 : (prev == some r.pos) = true
          · rw [if_pos c4] at h ⊢; exact readChrom_sorted os rs h
          · rw [if_neg c4] at h ⊢
            simp only [bind, Except.bind, pure, Except.pure] at h
            split at h
            · cases h
            · rename_i v1 h1
              obtain ⟨st1, ps⟩ := v1
              simp only at h
              split at h
              · cases h
              · rename_i v3 h3
                obtain ⟨st2, rows'⟩ := v3
                simp only [Except.ok.injEq, Prod.mk.injEq] at h
                obtain ⟨rfl, rfl⟩ := h
                obtain ⟨b1, b2, b3⟩ := readChrom_sorted os rs h3
                refine ⟨?_, ?_, ?_⟩
                · rw [List.pairwise_cons]
                  exact ⟨fun row hrow => b2 row hrow r.pos rfl, b1⟩
                · intro row hrow p hp
                  subst hp
                  have hlt : p < r.pos := unsortedB_false c3 c4 p rfl
                  rcases List.mem_cons.mp hrow with rfl | hmem
                  · exact hlt
                  · exact Nat.lt_trans hlt (b2 row hmem r.pos rfl)
                · simp only [List.map_cons, b3]

/-! ## 2. the writer with the `remove_existing_phasing` switch -/

theorem updateCallX_true (cfg : Cfg) (t : Target) (r : Record) (c : Call) :
    updateCallX true cfg t r c = updateCall { cfg with repaired := true } t r c := by
  unfold updateCallX updateCall
  simp only [Bool.true_or, if_true]
  rfl

theorem writeRecordX_true (cfg : Cfg) (prev : Option Nat) (r : Record) :
    writeRecordX true cfg prev r = writeRecord { cfg with repaired := true } prev r := by
  unfold writeRecordX writeRecord
  simp only [if_true, updateCallX_true, Bool.true_or, Bool.not_true, Bool.and_false, Bool.false_and, Bool.or_false]
  rfl

theorem writeChromX_true (cfg : Cfg) : ∀ (rs : List Record) (prev : Option Nat),
    writeChromX true cfg prev rs = writeChrom { cfg with repaired := true } prev rs
  | [], _ => rfl
  | r :: rs, prev => by
    simp only [writeChromX, writeChrom, writeRecordX_true, writeChromX_true cfg rs]

/-- without removal a record the writer does not tag is written back as it was read -/
theorem writeRecordX_false_unreached (cfg : Cfg) (prev : Option Nat) (r : Record) (h : reaches cfg prev r = false) :
    writeRecordX false cfg prev r = ⟨r, prev, [], false⟩ := by
  simp [writeRecordX, h]

/-- without removal, the call of a target sample that is GT-phased in the input and has no phase in this run keeps
    everything (`elif self._remove_existing or not call.phased` is not taken) -/
theorem updateCallX_false_keeps (cfg : Cfg) (t : Target) (r : Record) (c : Call) (hph : c.phased = true)
    (hno : lookupPhase cfg.mav t r.pos = none) : updateCallX false cfg t r c = (c, none) := by
  have hcs : changeStep { cfg with repaired := true } t r c = (c, none, !isHom (gcode c.gt)) := by
    simp only [changeStep]
    have : lookupPhase ({ cfg with repaired := true } : Cfg).mav t r.pos = none := hno
    rw [this]
  unfold updateCallX
  rw [hcs]
  simp only [hno, hph, Bool.false_or, Bool.not_true, Bool.false_eq_true, if_false]
  cases alookup t.comps r.pos <;> rfl

/-! ## 3. reader ∘ writer on one chromosome, duplicate positions and `--only-snvs` included -/

def encOfTag : Tag → Enc
  | .PS => .GTPS
  | .HP => .HP

/-- the reader's `phase_detected` state is empty or the encoding of this run's tag -/
def StOkF (tag : Tag) (st : Option Enc) : Prop := st = none ∨ st = some (encOfTag tag)

/-- the phase statement expected in the written file for the call of sample `n` at position `pos` -/
def expPhaseF (cfg : Cfg) (pos : Nat) (n : String) : Option Phase :=
  match findTarget cfg n with
  | some t => written false t pos
  | none => none

def gatedPhaseF (cfg : Cfg) (prev : Option Nat) (r : Record) (n : String) : Option Phase :=
  match findTarget cfg n with
  | some t => if reaches cfg prev r then written false t r.pos else none
  | none => none

/-- a multi-sample input record: calls as pysam presents them, samples from the header, non-target samples without
    phase information (otherwise the reader may legitimately raise `MixedPhasingError`) -/
structure CallsOkF (cfg : Cfg) (r : Record) : Prop where
  wf : ∀ nc ∈ r.calls, WfCall r.format nc.2
  hdr : ∀ nc ∈ r.calls, nc.1 ∈ cfg.samples
  other : ∀ nc ∈ r.calls, findTarget cfg nc.1 = none → nc.2.phased = false ∧ nc.2.get "HP" = .missing

def rowPhasesF (row : Row) : Nat × List (Option Phase) := (row.pos, row.calls.map (·.2))

theorem readCall_otherF (st : Option Enc) (fmt : List String) (c : Call) (h1 : c.phased = false)
    (h2 : c.get "HP" = .missing) : readCall st fmt c = .ok (st, none) := by
  simp [readCall, callPhases, extractHP, extractGTPS, h1, h2, detect, bind, Except.bind, pure, Except.pure]

theorem readCall_writtenF (cfg : Cfg) (hr : cfg.repaired = true) (hm : cfg.mav = false) (prev : Option Nat) (r : Record)
    (n : String) (t : Target) (hft : findTarget cfg n = some t) (c : Call) (hwf : WfCall r.format c)
    (st : Option Enc) (hst : StOkF cfg.tag st) :
    ∃ st', StOkF cfg.tag st' ∧
      readCall st (writeRecord cfg prev r).record.format (finalCall cfg prev r n c) =
        .ok (st', if reaches cfg prev r then written false t r.pos else none) := by
  have hd := decode_written_lemma cfg hr hm prev r n t hft c hwf
  unfold readCall
  rw [hd]
  rcases hst with rfl | rfl <;> cases htag : cfg.tag <;> cases hre : reaches cfg prev r <;>
    cases hw : written false t r.pos <;>
    simp [detect, encOfTag, StOkF, bind, Except.bind, pure, Except.pure]

theorem readCalls_writtenF (cfg : Cfg) (hr : cfg.repaired = true) (hm : cfg.mav = false) (prev : Option Nat)
    (r : Record) : ∀ (calls : List (String × Call)) (st : Option Enc), StOkF cfg.tag st →
    (∀ nc ∈ calls, WfCall r.format nc.2) →
    (∀ nc ∈ calls, findTarget cfg nc.1 = none → nc.2.phased = false ∧ nc.2.get "HP" = .missing) →
    ∃ st', StOkF cfg.tag st' ∧
      readCalls st (writeRecord cfg prev r).record.format
          (calls.map fun nc => (nc.1, finalCall cfg prev r nc.1 nc.2)) =
        .ok (st', calls.map fun nc => gatedPhaseF cfg prev r nc.1)
  | [], st, hst, _, _ => ⟨st, hst, rfl⟩
  | (n, c) :: rest, st, hst, hwf, hoth => by
    have hwf' : ∀ nc ∈ rest, WfCall r.format nc.2 := fun nc h => hwf nc (List.mem_cons_of_mem _ h)
    have hoth' : ∀ nc ∈ rest, findTarget cfg nc.1 = none → nc.2.phased = false ∧ nc.2.get "HP" = .missing :=
      fun nc h => hoth nc (List.mem_cons_of_mem _ h)
    cases hft : findTarget cfg n with
    | none =>
      obtain ⟨h1, h2⟩ := hoth (n, c) List.mem_cons_self hft
      obtain ⟨st', hst', ih⟩ := readCalls_writtenF cfg hr hm prev r rest st hst hwf' hoth'
      refine ⟨st', hst', ?_⟩
      have hfin : finalCall cfg prev r n c = c := by simp only [finalCall, hft]
      simp only [List.map_cons, readCalls, hfin, readCall_otherF st _ c h1 h2, ih, gatedPhaseF, hft, bind,
        Except.bind, pure, Except.pure]
    | some t =>
      obtain ⟨st1, hst1, hrc⟩ :=
        readCall_writtenF cfg hr hm prev r n t hft c (hwf (n, c) List.mem_cons_self) st hst
      obtain ⟨st', hst', ih⟩ := readCalls_writtenF cfg hr hm prev r rest st1 hst1 hwf' hoth'
      refine ⟨st', hst', ?_⟩
      simp only [List.map_cons, readCalls, hrc, ih, gatedPhaseF, hft, bind, Except.bind, pure, Except.pure]

/-- the reader's first test: no ALT or several -/
def notBiallelic (r : Record) : Bool := r.alts.isEmpty || decide (r.alts.length > 1)
/-- the reader's `--only-snvs` test -/
def skipNonSnv (os : Bool) (r : Record) : Bool := os && !(r.ref.length == 1 && r.alts.all (·.length == 1))

theorem isSnv_eq {r : Record} (h : notBiallelic r = false) :
    isSnv r = (r.ref.length == 1 && r.alts.all (·.length == 1)) := by
  unfold notBiallelic at h
  unfold isSnv
  match hr : r.alts with
  | [] => simp [hr] at h
  | [a] => simp
  | a :: b :: l => simp [hr] at h

/-- with `mav` off the writer's skip cascade is the reader's, except that the writer also skips positions that no
    target has a phase for, and remembers only the positions it tagged -/
theorem reaches_eq (cfg : Cfg) (hm : cfg.mav = false) (prev : Option Nat) (r : Record) :
    reaches cfg prev r =
      (!notBiallelic r && !(prev == some r.pos) && !(cfg.onlySnvs && !isSnv r) && anyPhased cfg r.pos) := by
  unfold reaches notBiallelic
  rw [hm]
  cases r.alts.isEmpty <;> cases decide (r.alts.length > 1) <;> simp

theorem writeRecord_prev_eq (cfg : Cfg) (prev : Option Nat) (r : Record) :
    (writeRecord cfg prev r).prev = if reaches cfg prev r then some r.pos else prev := by
  unfold writeRecord; split <;> rfl

/-- a header sample that is a target and has something to write makes `anyPhased` true -/
theorem anyPhased_of_written (cfg : Cfg) (hm : cfg.mav = false) (pos : Nat) (n : String) (hn : n ∈ cfg.samples) (t : Target)
    (hft : findTarget cfg n = some t) (ph : Phase) (hw : written false t pos = some ph) : anyPhased cfg pos = true := by
  unfold anyPhased
  rw [List.any_eq_true]
  refine ⟨n, hn, ?_⟩
  rw [hft, hm]
  unfold written at hw
  cases h1 : alookup t.comps pos <;> cases h2 : lookupPhase false t pos <;> simp [h1, h2] at hw ⊢

theorem accepted_cons (os : Bool) (prev : Option Nat) (r : Record) (rs : List Record) :
    accepted os prev (r :: rs) =
      if notBiallelic r then accepted os prev rs
      else if skipNonSnv os r then accepted os prev rs
      else if prev == some r.pos then accepted os prev rs
      else r :: accepted os (some r.pos) rs := by
  conv => lhs; unfold accepted
  rfl

section chrom
variable (cfg : Cfg) (hr : cfg.repaired = true) (hm : cfg.mav = false)
include hr hm

theorem readChrom_writeChrom_general : ∀ (rs : List Record) (prevW prevR : Option Nat) (st : Option Enc),
    StOkF cfg.tag st → (∀ r ∈ rs, CallsOkF cfg r) → rs.Pairwise (fun a b => a.pos ≤ b.pos) →
    (∀ p, prevR = some p → ∀ r ∈ rs, p ≤ r.pos) →
    (∀ p, prevW = some p → ∃ p', prevR = some p' ∧ p ≤ p') →
    (∀ p, prevR = some p → prevW ≠ some p → anyPhased cfg p = false) →
    ∃ st' rows, StOkF cfg.tag st' ∧
      readChrom cfg.onlySnvs st prevR (outRecords (writeChrom cfg prevW rs)) = .ok (st', rows) ∧
      rows.map rowPhasesF =
        (accepted cfg.onlySnvs prevR rs).map (fun r => (r.pos, r.calls.map (fun nc => expPhaseF cfg r.pos nc.1)))
  | [], _, _, st, hst, _, _, _, _, _ => ⟨st, [], hst, rfl, rfl⟩
  | r :: rs, prevW, prevR, st, hst, hok, hpw, hR, hI1, hI2 => by
    obtain ⟨hwf, hhdr, hoth⟩ := hok r List.mem_cons_self
    rw [List.pairwise_cons] at hpw
    have hok' : ∀ r' ∈ rs, CallsOkF cfg r' := fun r' h' => hok r' (List.mem_cons_of_mem _ h')
    have hR' : ∀ p, prevR = some p → ∀ r' ∈ rs, p ≤ r'.pos := fun p hp r' h' => hR p hp r' (List.mem_cons_of_mem _ h')
    obtain ⟨_, hpos, href, halts⟩ := writeRecord_site cfg prevW r
    simp only [writeChrom, outRecords, List.map_cons]
    rw [readChrom_cons, accepted_cons, halts, hpos, href, writeRecord_calls, writeRecord_prev_eq]
    change ∃ st' rows, StOkF cfg.tag st' ∧ (if notBiallelic r then _ else if skipNonSnv cfg.onlySnvs r then _ else _) = _ ∧ _
    have hreq := reaches_eq cfg hm prevW r
    -- the unsorted test never fires
    have hns : unsortedB prevR r.pos = false := by
      cases hp : prevR with
      | none => rfl
      | some p => have := hR p hp r List.mem_cons_self; simp [unsortedB]; omega
    by_cases c1 : notBiallelic r = true
    · have hre : reaches cfg prevW r = false := by rw [hreq, c1]; rfl
      rw [if_pos c1, if_pos c1, hre]
      exact readChrom_writeChrom_general rs prevW prevR st hst hok' hpw.2 hR' hI1 hI2
    · rw [if_neg c1, if_neg c1]
      have c1' : notBiallelic r = false := by simpa using c1
      by_cases c2 : skipNonSnv cfg.onlySnvs r = true
      · have hre : reaches cfg prevW r = false := by
          rw [hreq, isSnv_eq c1']
          unfold skipNonSnv at c2
          rw [c2]; simp
        rw [if_pos c2, if_pos c2, hre]
        exact readChrom_writeChrom_general rs prevW prevR st hst hok' hpw.2 hR' hI1 hI2
      · rw [if_neg c2, if_neg c2, hns]
        simp only [Bool.false_eq_true, if_false]
        have c2' : (cfg.onlySnvs && !isSnv r) = false := by
          rw [isSnv_eq c1']; unfold skipNonSnv at c2; simpa using c2
        by_cases c4 : (prevR == some r.pos) = true
        · -- a further record of a position that already has a row: the writer does not tag it either
          have hre : reaches cfg prevW r = false := by
            rw [hreq]
            by_cases hw : prevW = some r.pos
            · simp [hw]
            · have hpr : prevR = some r.pos := by simpa using c4
              rw [hI2 r.pos hpr hw]; simp
          rw [if_pos c4, if_pos c4, hre]
          exact readChrom_writeChrom_general rs prevW prevR st hst hok' hpw.2 hR' hI1 hI2
        · rw [if_neg c4, if_neg c4]
          have hltR : ∀ p, prevR = some p → p < r.pos := by
            intro p hp
            have h1 := hR p hp r List.mem_cons_self
            have h2 : p ≠ r.pos := by intro e; apply c4; simp [hp, e]
            omega
          have hneW : (prevW == some r.pos) = false := by
            cases hw : prevW with
            | none => rfl
            | some p =>
              obtain ⟨p', hp', hle⟩ := hI1 p hw
              have := hltR p' hp'
              simp; omega
          have hre : reaches cfg prevW r = anyPhased cfg r.pos := by
            rw [hreq, c1', hneW, c2']; simp
          obtain ⟨st1, hst1, hrc⟩ := readCalls_writtenF cfg hr hm prevW r r.calls st hst hwf hoth
          have hgate : (r.calls.map fun nc => gatedPhaseF cfg prevW r nc.1) =
              r.calls.map (fun nc => expPhaseF cfg r.pos nc.1) := by
            apply List.map_congr_left
            intro nc hnc
            unfold gatedPhaseF expPhaseF
            cases hft : findTarget cfg nc.1 with
            | none => rfl
            | some t =>
              simp only
              cases hw : written false t r.pos with
              | none => simp
              | some ph =>
                rw [hre, anyPhased_of_written cfg hm r.pos nc.1 (hhdr nc hnc) t hft ph hw]; rfl
          rw [hgate] at hrc
          -- the states after the record
          have hI1' : ∀ p, (if reaches cfg prevW r then some r.pos else prevW) = some p →
              ∃ p', some r.pos = some p' ∧ p ≤ p' := by
            intro p hp
            refine ⟨r.pos, rfl, ?_⟩
            split at hp
            · cases hp; exact Nat.le_refl _
            · obtain ⟨p', hp', hle⟩ := hI1 p hp
              have := hltR p' hp'; omega
          have hI2' : ∀ p, some r.pos = some p → (if reaches cfg prevW r then some r.pos else prevW) ≠ some p →
              anyPhased cfg p = false := by
            intro p hp hne
            cases hp
            cases ha : anyPhased cfg r.pos with
            | false => rfl
            | true => rw [hre, ha] at hne; simp at hne
          have hR'' : ∀ p, some r.pos = some p → ∀ r' ∈ rs, p ≤ r'.pos := by
            intro p hp r' h'; cases hp; exact hpw.1 r' h'
          obtain ⟨st', rows, hst', h1, h2⟩ :=
            readChrom_writeChrom_general rs _ (some r.pos) st1 hst1 hok' hpw.2 hR'' hI1' hI2'
          refine ⟨st', ⟨r.pos, r.ref, r.alts.headD "",
            ((r.calls.map fun nc => (nc.1, finalCall cfg prevW r nc.1 nc.2)).map (fun nc => gcode nc.2.gt)).zip
              (r.calls.map (fun nc => expPhaseF cfg r.pos nc.1))⟩ :: rows, hst', ?_, ?_⟩
          · simp only [outRecords] at h1
            simp only [hrc, bind, Except.bind, pure, Except.pure, h1]
          · simp only [List.map_cons, h2, rowPhasesF]
            congr 2
            rw [List.map_snd_zip]
            simp
end chrom

/-! ## 4. from the reader's rows to the rows of `phased_blocks_as_reads` -/

/-- the rows of sample number `si` as `phased_blocks_as_reads` looks at them (`sampleRows` without the qualities) -/
def rowsOf (rows : List Row) (si : Nat) (inputVariants : List VKey) : List VarPhase :=
  rows.map fun row =>
    let gp := row.calls.getD si ([], none)
    ⟨row.pos, inputVariants.contains (row.pos, row.ref, row.alt), gp.1, gp.2⟩

theorem sampleRows_fst (t : PTable) (si : Nat) (iv : List VKey) :
    (sampleRows t si iv).map (·.1) = rowsOf t.rows si iv := by
  unfold sampleRows rowsOf
  rw [List.map_map]
  have : t.rows = t.rows.zipIdx.map (·.1) := by simp
  conv => rhs; rw [this, List.map_map]
  rfl

theorem rowsOf_sorted {rows : List Row} (h : rows.Pairwise (fun a b => a.pos < b.pos)) (si : Nat) (iv : List VKey) :
    (rowsOf rows si iv).Pairwise (fun u v => u.pos < v.pos) := by
  unfold rowsOf
  rw [List.pairwise_map]
  exact h

/-- an eligible row of a table whose rows satisfy `RowOk` and carry biallelic genotype codes has phase `0|1` or `1|0` -/
theorem rowsOf_biallelic {rows : List Row} (hok : ∀ row ∈ rows, RowOk row)
    (hbi : ∀ row ∈ rows, ∀ x ∈ row.calls, ∀ a ∈ x.1, a ≤ 1) (si : Nat) (iv : List VKey) :
    ∀ v ∈ rowsOf rows si iv, eligible 2 v = true → ∃ ph, v.phase = some ph ∧
      (ph.alleles = [some 0, some 1] ∨ ph.alleles = [some 1, some 0]) := by
  intro v hv hel
  unfold rowsOf at hv
  obtain ⟨row, hrow, rfl⟩ := List.mem_map.mp hv
  simp only [eligible, Bool.and_eq_true, beq_iff_eq, Bool.not_eq_true'] at hel
  obtain ⟨⟨⟨hlen, _⟩, hhom⟩, hph⟩ := hel
  -- the call is a real entry of the row
  have hmem : row.calls.getD si ([], none) ∈ row.calls := by
    rw [List.getD_eq_getElem?_getD]
    cases hget : row.calls[si]? with
    | none => rw [List.getD_eq_getElem?_getD, hget] at hlen; simp at hlen
    | some x => simp only [Option.getD_some]; exact List.mem_of_getElem? hget
  generalize row.calls.getD si ([], none) = gp at hlen hhom hph hmem
  obtain ⟨a, b, hab⟩ := pair_of_length_two hlen
  have hne : a ≠ b := by
    intro e; subst e; rw [hab] at hhom; simp [isHom] at hhom
  have ha := hbi row hrow gp hmem a (by rw [hab]; simp)
  have hb := hbi row hrow gp hmem b (by rw [hab]; simp)
  cases hp : gp.2 with
  | none => rw [hp] at hph; simp at hph
  | some ph =>
    refine ⟨ph, hp, ?_⟩
    have := hok row hrow gp hmem ph hp a b hab hne
    have hcases : (a = 0 ∧ b = 1) ∨ (a = 1 ∧ b = 0) := by omega
    rcases hcases with ⟨rfl, rfl⟩ | ⟨rfl, rfl⟩
    · exact this
    · exact this.symm

/-- a call whose FORMAT values all belong to keys of the record is a call as pysam presents it -/
theorem wfCall_of_fields {fmt : List String} {c : Call} (h1 : ∀ kv ∈ c.fields, kv.1 ∈ fmt)
    (h2 : c.gt = none → c.phased = false) : WfCall fmt c := by
  refine ⟨fun k hk => ?_, h2⟩
  unfold Call.get
  generalize c.fields = f at h1
  induction f with
  | nil => rfl
  | cons kv rest ih =>
    obtain ⟨k', v⟩ := kv
    have hne : k' ≠ k := fun e => hk (e ▸ h1 (k', v) List.mem_cons_self)
    simp only [fget, hne, if_false]
    exact ih (fun kv h => h1 kv (List.mem_cons_of_mem _ h))

/-- without targets `write` copies the chromosome (as `Props.C04.untouched_when_no_targets`) -/
theorem writeChrom_no_targets (cfg : Cfg) (hno : cfg.targets = []) (prev : Option Nat) (rs : List Record) :
    outRecords (writeChrom cfg prev rs) = rs := by
  have hft : ∀ n, findTarget cfg n = none := by intro n; simp [findTarget, hno]
  have hreach : ∀ p r, reaches cfg p r = false := by
    intro p r
    have : anyPhased cfg r.pos = false := by
      simp [anyPhased, hft]
    simp [reaches, this]
  have hrec : ∀ p r, writeRecord cfg p r = ⟨r, p, [], false⟩ := by
    intro p r
    simp only [writeRecord, hreach, Bool.false_eq_true, if_false, mapTargets, hft]
    simp
  induction rs generalizing prev with
  | nil => rfl
  | cons r rest ih =>
    have h1 := ih prev
    simp only [writeChrom, hrec, outRecords, List.map_cons] at h1 ⊢
    rw [h1]

/-- decidable version of `CallsOkF` (for concrete examples) -/
def callsOkB (cfg : Cfg) (r : Record) : Bool :=
  r.calls.all fun nc =>
    nc.2.fields.all (fun kv => decide (kv.1 ∈ r.format)) && (nc.2.gt.isSome || !nc.2.phased) &&
    decide (nc.1 ∈ cfg.samples) && ((findTarget cfg nc.1).isSome || (!nc.2.phased && nc.2.get "HP" == .missing))

theorem callsOkF_of_B {cfg : Cfg} {r : Record} (h : callsOkB cfg r = true) : CallsOkF cfg r := by
  unfold callsOkB at h
  rw [List.all_eq_true] at h
  refine ⟨fun nc hnc => ?_, fun nc hnc => ?_, fun nc hnc hft => ?_⟩
  · have := h nc hnc
    simp only [Bool.and_eq_true, List.all_eq_true, decide_eq_true_eq, Bool.or_eq_true] at this
    obtain ⟨⟨⟨h1, h2⟩, _⟩, _⟩ := this
    refine wfCall_of_fields h1 (fun hg => ?_)
    rcases h2 with h2 | h2
    · rw [hg] at h2; simp at h2
    · simpa using h2
  · have := h nc hnc
    simp only [Bool.and_eq_true, decide_eq_true_eq] at this
    exact this.1.2
  · have := h nc hnc
    simp only [Bool.and_eq_true, Bool.or_eq_true, hft, Option.isSome_none, Bool.false_eq_true, false_or,
      Bool.not_eq_true', beq_iff_eq] at this
    exact this.2

/-! ## 5. no `PloidyError` on diploid data: lifting a successful `readChrom` to `readChromP` -/

/-- a fully called genotype is diploid -/
def Dip (g : Option Gt) : Prop := ∀ g', g = some g' → g'.all Option.isSome = true → g'.length = 2

/-- `pl` is still unknown or 2 -/
def Pl2 (pl : Option Nat) : Prop := pl = none ∨ pl = some 2

theorem ploidyPhase_two {pl : Option Nat} (hpl : Pl2 pl) {p : Option Phase} (h : ∀ ph, p = some ph → ph.alleles.length = 2) :
    ∃ pl', Pl2 pl' ∧ ploidyPhase pl p = .ok pl' := by
  cases p with
  | none => exact ⟨pl, hpl, rfl⟩
  | some ph =>
    have h2 := h ph rfl
    unfold ploidyPhase
    simp only [h2, maxPloidy]
    cases hb : ph.block.isNone
    · rcases hpl with rfl | rfl
      · exact ⟨some 2, Or.inr rfl, by simp⟩
      · exact ⟨some 2, Or.inr rfl, by simp⟩
    · exact ⟨pl, hpl, by simp⟩

theorem ploidyGeno_two {pl : Option Nat} (hpl : Pl2 pl) {g : Option Gt} (h : Dip g) :
    ∃ pl', Pl2 pl' ∧ ploidyGeno pl g = .ok pl' := by
  cases g with
  | none => exact ⟨pl, hpl, rfl⟩
  | some g' =>
    unfold ploidyGeno
    cases hall : g'.all Option.isSome
    · exact ⟨pl, hpl, by simp only [hall, Bool.not_false, if_true]⟩
    · have h2 := h g' rfl hall
      simp only [hall, h2, maxPloidy, Bool.not_true, Bool.false_eq_true, if_false]
      rcases hpl with rfl | rfl
      · exact ⟨some 2, Or.inr rfl, by simp⟩
      · exact ⟨some 2, Or.inr rfl, by simp⟩

theorem ploidyGenos_two : ∀ (calls : List (String × Call)) {pl : Option Nat}, Pl2 pl → (∀ nc ∈ calls, Dip nc.2.gt) →
    ∃ pl', Pl2 pl' ∧ ploidyGenos pl calls = .ok pl'
  | [], pl, hpl, _ => ⟨pl, hpl, rfl⟩
  | (n, c) :: r, pl, hpl, h => by
    obtain ⟨pl1, h1, e1⟩ := ploidyGeno_two hpl (h (n, c) List.mem_cons_self)
    obtain ⟨pl2, h2, e2⟩ := ploidyGenos_two r h1 (fun nc hnc => h nc (List.mem_cons_of_mem _ hnc))
    exact ⟨pl2, h2, by simp only [ploidyGenos, e1, e2, bind, Except.bind]⟩

/-- every phase either extractor finds in the call has two alleles -/
def PhaseLen2 (fmt : List String) (c : Call) : Prop :=
  ∀ p, (extractHP c = .ok (some p) ∨ extractGTPS fmt c = some p) → p.alleles.length = 2

theorem readCallP_of_readCall {st st' : Option Enc} {fmt : List String} {c : Call} {ph : Option Phase}
    (h : readCall st fmt c = .ok (st', ph)) (hlen : PhaseLen2 fmt c) {pl : Option Nat} (hpl : Pl2 pl) :
    ∃ pl', Pl2 pl' ∧ readCallP st pl fmt c = .ok (st', pl', ph) := by
  simp only [readCall, callPhases, bind, Except.bind, pure, Except.pure] at h
  cases hhp : extractHP c with
  | error e => rw [hhp] at h; cases h
  | ok hp =>
    rw [hhp] at h
    simp only at h
    cases hd1 : detect st .HP hp with
    | error e => rw [hd1] at h; cases h
    | ok st1 =>
      rw [hd1] at h
      simp only at h
      cases hd2 : detect st1 .GTPS (extractGTPS fmt c) with
      | error e => rw [hd2] at h; cases h
      | ok st2 =>
        rw [hd2] at h
        simp only [Except.ok.injEq, Prod.mk.injEq] at h
        obtain ⟨rfl, rfl⟩ := h
        obtain ⟨pl1, h1, e1⟩ := ploidyPhase_two hpl (p := hp) (fun p hp' => hlen p (Or.inl (by rw [hhp, hp'])))
        obtain ⟨pl2, h2, e2⟩ := ploidyPhase_two h1 (p := extractGTPS fmt c) (fun p hp' => hlen p (Or.inr hp'))
        exact ⟨pl2, h2, by simp only [readCallP, hhp, hd1, e1, hd2, e2, bind, Except.bind, pure, Except.pure]; rfl⟩

theorem readCallsP_of_readCalls : ∀ (calls : List (String × Call)) {st st' : Option Enc} {fmt : List String}
    {ps : List (Option Phase)}, readCalls st fmt calls = .ok (st', ps) → (∀ nc ∈ calls, PhaseLen2 fmt nc.2) →
    ∀ {pl : Option Nat}, Pl2 pl → ∃ pl', Pl2 pl' ∧ readCallsP st pl fmt calls = .ok (st', pl', ps)
  | [], st, st', fmt, ps, h, _, pl, hpl => by
    simp only [readCalls, Except.ok.injEq, Prod.mk.injEq] at h
    obtain ⟨rfl, rfl⟩ := h
    exact ⟨pl, hpl, rfl⟩
  | (n, c) :: r, st, st', fmt, ps, h, hl, pl, hpl => by
    simp only [readCalls, bind, Except.bind, pure, Except.pure] at h
    cases h1 : readCall st fmt c with
    | error e => rw [h1] at h; cases h
    | ok v1 =>
      obtain ⟨st1, p1⟩ := v1
      rw [h1] at h
      simp only at h
      cases h2 : readCalls st1 fmt r with
      | error e => rw [h2] at h; cases h
      | ok v2 =>
        obtain ⟨st2, ps2⟩ := v2
        rw [h2] at h
        simp only [Except.ok.injEq, Prod.mk.injEq] at h
        obtain ⟨rfl, rfl⟩ := h
        obtain ⟨pl1, hp1, e1⟩ := readCallP_of_readCall h1 (hl (n, c) List.mem_cons_self) hpl
        obtain ⟨pl2, hp2, e2⟩ := readCallsP_of_readCalls r h2 (fun nc hnc => hl nc (List.mem_cons_of_mem _ hnc)) hp1
        exact ⟨pl2, hp2, by simp only [readCallsP, e1, e2, bind, Except.bind, pure, Except.pure]⟩

/-- diploid data never makes the reader raise `PloidyError`: a successful ploidy-free read lifts -/
theorem readChromP_of_readChrom (os : Bool) : ∀ (recs : List Record) {st st' : Option Enc} {prev : Option Nat} {rows : List Row},
    readChrom os st prev recs = .ok (st', rows) →
    (∀ r ∈ recs, ∀ nc ∈ r.calls, Dip nc.2.gt ∧ PhaseLen2 r.format nc.2) →
    ∀ {pl : Option Nat}, Pl2 pl → ∃ pl', Pl2 pl' ∧ readChromP os st pl prev recs = .ok (st', pl', rows)
  | [], st, st', prev, rows, h, _, pl, hpl => by
    simp only [readChrom, Except.ok.injEq, Prod.mk.injEq] at h
    obtain ⟨rfl, rfl⟩ := h
    exact ⟨pl, hpl, rfl⟩
  | r :: rs, st, st', prev, rows, h, hd, pl, hpl => by
    have hd' : ∀ r' ∈ rs, ∀ nc ∈ r'.calls, Dip nc.2.gt ∧ PhaseLen2 r'.format nc.2 :=
      fun r' h' => hd r' (List.mem_cons_of_mem _ h')
    rw [readChrom_cons] at h
    rw [readChromP_cons]
    by_cases c1 : (r.alts.isEmpty || decide (r.alts.length > 1)) = true
    · rw [if_pos c1] at h ⊢; exact readChromP_of_readChrom os rs h hd' hpl
    · rw [if_neg c1] at h ⊢
      by_cases c2 : (os && !(r.ref.length == 1 && r.alts.all (·.length == 1))) = true
      · rw [if_pos c2] at h ⊢; exact readChromP_of_readChrom os rs h hd' hpl
      · rw [if_neg c2] at h ⊢
        by_cases c3 : unsortedB prev r.pos = true
        · rw [if_pos c3] at h; cases h
        · rw [if_neg c3] at h ⊢
          by_cases c4 : (prev == some r.pos) = true
          · rw [if_pos c4] at h ⊢; exact readChromP_of_readChrom os rs h hd' hpl
          · rw [if_neg c4] at h ⊢
            simp only [bind, Except.bind, pure, Except.pure] at h ⊢
            cases h1 : readCalls st r.format r.calls with
            | error e => rw [h1] at h; cases h
            | ok v1 =>
              obtain ⟨st1, ps⟩ := v1
              rw [h1] at h
              simp only at h
              cases h2 : readChrom os st1 (some r.pos) rs with
              | error e => rw [h2] at h; cases h
              | ok v2 =>
                obtain ⟨st2, rows'⟩ := v2
                rw [h2] at h
                simp only [Except.ok.injEq, Prod.mk.injEq] at h
                obtain ⟨rfl, rfl⟩ := h
                have hr := hd r List.mem_cons_self
                obtain ⟨pl1, hp1, e1⟩ := readCallsP_of_readCalls r.calls h1 (fun nc hnc => (hr nc hnc).2) hpl
                obtain ⟨pl2, hp2, e2⟩ := ploidyGenos_two r.calls hp1 (fun nc hnc => (hr nc hnc).1)
                obtain ⟨pl3, hp3, e3⟩ := readChromP_of_readChrom os rs h2 hd' hp2
                exact ⟨pl3, hp3, by simp only [e1, e2, e3]⟩

theorem sortGt_length {g : Gt} (h : g.all Option.isSome = true) : (sortGt g).length = g.length := by
  unfold sortGt
  rw [List.length_map, (sortNat_perm _).length_eq]
  have := congrArg List.length (map_some_filterMap_id h)
  simpa using this

theorem unphaseGt_dip {c : Call} (h : Dip c.gt) : Dip (unphaseGt c).gt := by
  unfold unphaseGt
  cases hg : c.gt with
  | none => simp only; rw [hg]; intro g' e; cases e
  | some g =>
    simp only
    split
    · rename_i hall
      intro g' e _
      cases e
      rw [sortGt_length hall]
      exact h g hg hall
    · intro g' e hall'
      cases e
      exact h g hg hall'

theorem changeStep_dip (cfg : Cfg) (t : Target) (r : Record) (c : Call) (h : Dip c.gt) :
    Dip (changeStep cfg t r c).1.gt := by
  unfold changeStep
  split
  · rename_i p hp
    split
    · intro g' e _
      cases e
      have hl := lookupPhase_length hp
      unfold changedGt
      split <;> simp [(sortNat_perm p).length_eq, hl]
    · exact h
  · exact h

theorem finalCall_dip (cfg : Cfg) (hr : cfg.repaired = true) (prev : Option Nat) (r : Record) (n : String) (c : Call)
    (h : Dip c.gt) : Dip (finalCall cfg prev r n c).gt := by
  unfold finalCall
  split
  · rename_i t hft
    have h0 : Dip (clearPhasing cfg r.format c).gt := by
      rw [cleared_gt cfg hr]; exact unphaseGt_dip h
    split
    · rcases updateCall_gt cfg t r (clearPhasing cfg r.format c) with e | ⟨p, hp, e⟩
      · rw [e]; exact changeStep_dip cfg t r _ h0
      · rw [e]
        intro g' e' _
        cases e'
        simp [lookupPhase_length hp]
    · exact h0
  · exact h

theorem written_len {t : Target} {pos : Nat} {p : Phase} (h : written false t pos = some p) : p.alleles.length = 2 := by
  unfold written at h
  split at h
  · rename_i comp q hc hq
    split at h
    · simp only [Option.some.injEq] at h
      subst h
      simp [lookupPhase_length hq]
    · cases h
  · cases h

theorem finalCall_phaseLen2 (cfg : Cfg) (hr : cfg.repaired = true) (hm : cfg.mav = false) (prev : Option Nat) (r : Record)
    (n : String) (c : Call) (hwf : WfCall r.format c)
    (hoth : findTarget cfg n = none → c.phased = false ∧ c.get "HP" = .missing) :
    PhaseLen2 (writeRecord cfg prev r).record.format (finalCall cfg prev r n c) := by
  intro p hp
  cases hft : findTarget cfg n with
  | none =>
    obtain ⟨h1, h2⟩ := hoth hft
    have hfin : finalCall cfg prev r n c = c := by simp only [finalCall, hft]
    rw [hfin] at hp
    rcases hp with hp | hp
    · rw [extractHP_missing c h2] at hp; cases hp
    · rw [extractGTPS_unphased _ c h1] at hp; cases hp
  | some t =>
    have hd := decode_written_lemma cfg hr hm prev r n t hft c hwf
    unfold callPhases at hd
    cases hhp : extractHP (finalCall cfg prev r n c) with
    | error e => rw [hhp] at hd; cases hd
    | ok a =>
      rw [hhp] at hd
      simp only [Except.ok.injEq, Prod.mk.injEq] at hd
      obtain ⟨ha, hb⟩ := hd
      rcases hp with hp | hp
      · rw [hhp] at hp
        simp only [Except.ok.injEq] at hp
        rw [hp] at ha
        split at ha
        · exact written_len ha.symm
        · cases ha
      · rw [hp] at hb
        split at hb
        · exact written_len hb.symm
        · cases hb

/-- the expected content of the table read back from a written chromosome -/
def expRows (cfg : Cfg) (rs : List Record) : List (Nat × List (Option Phase)) :=
  (accepted cfg.onlySnvs none rs).map (fun r => (r.pos, r.calls.map (fun nc => expPhaseF cfg r.pos nc.1)))

theorem readChromP_writeChrom (cfg : Cfg) (hr : cfg.repaired = true) (hm : cfg.mav = false) (rs : List Record)
    (hok : ∀ r ∈ rs, CallsOkF cfg r) (hs : rs.Pairwise (fun a b => a.pos ≤ b.pos))
    (hdip : ∀ r ∈ rs, ∀ nc ∈ r.calls, Dip nc.2.gt) {pl : Option Nat} (hpl : Pl2 pl) :
    ∃ st' pl' rows, Pl2 pl' ∧
      readChromP cfg.onlySnvs none pl none (outRecords (writeChrom cfg none rs)) = .ok (st', pl', rows) ∧
      rows.map rowPhasesF = expRows cfg rs := by
  obtain ⟨st', rows, _, h1, h2⟩ :=
    readChrom_writeChrom_general cfg hr hm rs none none none (Or.inl rfl) hok hs
      (fun p hp => by cases hp) (fun p hp => by cases hp) (fun p hp => by cases hp)
  have hfacts : ∀ r' ∈ outRecords (writeChrom cfg none rs), ∀ nc' ∈ r'.calls, Dip nc'.2.gt ∧ PhaseLen2 r'.format nc'.2 := by
    intro r' hr' nc' hnc'
    unfold outRecords at hr'
    obtain ⟨o, ho, rfl⟩ := List.mem_map.mp hr'
    obtain ⟨prev', r, hrmem, rfl⟩ := mem_writeChrom cfg rs none o ho
    rw [writeRecord_calls] at hnc'
    obtain ⟨nc, hnc, rfl⟩ := List.mem_map.mp hnc'
    obtain ⟨hwf, _, hoth⟩ := hok r hrmem
    exact ⟨finalCall_dip cfg hr prev' r nc.1 nc.2 (hdip r hrmem nc hnc),
      finalCall_phaseLen2 cfg hr hm prev' r nc.1 nc.2 (hwf nc hnc) (hoth nc hnc)⟩
  obtain ⟨pl', hpl', h3⟩ := readChromP_of_readChrom cfg.onlySnvs _ h1 hfacts hpl
  exact ⟨st', pl', rows, hpl', h3, h2⟩

/-- what one group of `writeFile` has to satisfy for the read-back theorem -/
structure GroupOk (os : Bool) (g : String × Cfg × List Record) : Prop where
  mav : g.2.1.mav = false
  snvs : g.2.1.onlySnvs = os
  calls : ∀ r ∈ g.2.2, CallsOkF g.2.1 r
  sorted : g.2.2.Pairwise (fun a b => a.pos ≤ b.pos)
  dip : ∀ r ∈ g.2.2, ∀ nc ∈ r.calls, Dip nc.2.gt

theorem readFile_writeFile (os : Bool) : ∀ (groups : List (String × Cfg × List Record)), (∀ g ∈ groups, GroupOk os g) →
    ∀ {pl : Option Nat}, Pl2 pl →
    ∃ pl' tables, Pl2 pl' ∧ readFile os pl (writeFile groups) = .ok (pl', tables) ∧
      tables.map (fun t => (t.1, t.2.map rowPhasesF)) = groups.map (fun g => (g.1, expRows { g.2.1 with repaired := true } g.2.2))
  | [], _, pl, hpl => ⟨pl, [], hpl, rfl, rfl⟩
  | (chrom, cfg, rs) :: rest, hg, pl, hpl => by
    obtain ⟨hmav, hsn, hcalls, hsorted, hdip⟩ := hg (chrom, cfg, rs) List.mem_cons_self
    simp only at hmav hsn hcalls hsorted hdip
    subst hsn
    have hcalls' : ∀ r ∈ rs, CallsOkF { cfg with repaired := true } r :=
      fun r h => ⟨(hcalls r h).wf, (hcalls r h).hdr, (hcalls r h).other⟩
    obtain ⟨st1, pl1, rows, hp1, e1, e2⟩ :=
      readChromP_writeChrom { cfg with repaired := true } rfl hmav rs hcalls' hsorted hdip hpl
    obtain ⟨pl2, tables, hp2, e3, e4⟩ := readFile_writeFile cfg.onlySnvs rest (fun g h => hg g (List.mem_cons_of_mem _ h)) hp1
    refine ⟨pl2, (chrom, rows) :: tables, hp2, ?_, ?_⟩
    · have e1' : readChromP cfg.onlySnvs none pl none (outRecords (writeChrom { cfg with repaired := true } none rs)) =
          .ok (st1, pl1, rows) := e1
      unfold writeFile at e3 ⊢
      simp only [List.map_cons, readFile, bind, Except.bind, pure, Except.pure]
      rw [writeChromX_true, e1']
      simp only [e3]
    · simp only [List.map_cons, e2, e4]

/-! ## 6. `PhasedInputReader`: the pseudo reads of a file are `blocksAsReads` of its table -/

theorem pseudoReadsOf_spec (t : PTable) (sample : String) (iv : List VKey) (src sid : Nat) :
    (pseudoReadsOf t sample iv src sid).map (fun r => (r.sourceId, r.sampleId, r.variants.map (fun v => (v.1, v.2.1)))) =
      if t.samples.findIdx (· == sample) < t.samples.length then
        (blocksAsReads 2 (rowsOf t.rows (t.samples.findIdx (· == sample)) iv)).map (fun x => (src, sid, x.2.2))
      else [] := by
  unfold pseudoReadsOf
  by_cases h : t.samples.findIdx (· == sample) < t.samples.length
  · have h' : ¬ (t.samples.findIdx (· == sample) ≥ t.samples.length) := by omega
    simp only [h, h', if_true, if_false, List.map_map, sampleRows_fst]
    apply List.map_congr_left
    intro x _
    obtain ⟨b, i, rd⟩ := x
    simp only [Function.comp, List.map_map, Prod.mk.injEq, true_and]
    conv => rhs; rw [← List.map_id rd]
    apply List.map_congr_left
    intro pa _
    rfl
  · have h' : t.samples.findIdx (· == sample) ≥ t.samples.length := by omega
    simp [h, h']

/-- the source ids handed to read selection as preferred are pairwise different (one per phase-input file that has the
    chromosome), so that the `(name, source id)` keys of `ReadSet.add` never clash between files -/
theorem phaseInputReads_ids_nodup (files : List (List PTable)) (nPaths : Nat) (chrom sample : String) (sid : Nat)
    (iv : List VKey) : (phaseInputReads files nPaths chrom sample sid iv).2.Nodup := by
  unfold phaseInputReads
  simp only [List.map_filterMap]
  have hz : ∀ (l : List (List PTable)) (k : Nat),
      ((l.zipIdx k).filterMap fun x => ((tableOf x.1 chrom).map fun t =>
        (pseudoReadsOf t sample iv (nPaths + x.2) sid, nPaths + x.2)).map (·.2)).Pairwise (· ≠ ·) ∧
      ∀ y ∈ ((l.zipIdx k).filterMap fun x => ((tableOf x.1 chrom).map fun t =>
        (pseudoReadsOf t sample iv (nPaths + x.2) sid, nPaths + x.2)).map (·.2)), nPaths + k ≤ y := by
    intro l
    induction l with
    | nil => intro k; exact ⟨List.Pairwise.nil, fun y hy => by cases hy⟩
    | cons a l ih =>
      intro k
      obtain ⟨ih1, ih2⟩ := ih (k + 1)
      simp only [List.zipIdx_cons, List.filterMap_cons]
      cases hta : tableOf a chrom with
      | none =>
        simp only [Option.map_none]
        exact ⟨ih1, fun y hy => by have := ih2 y hy; omega⟩
      | some t =>
        simp only [Option.map_some]
        refine ⟨List.pairwise_cons.mpr ⟨fun y hy => ?_, ih1⟩, fun y hy => ?_⟩
        · have := ih2 y hy; omega
        · rcases List.mem_cons.mp hy with rfl | hy'
          · exact Nat.le_refl _
          · have := ih2 y hy'; omega
  exact (hz files 0).1

end WhVerif.C09

import WhVerif.Lemmas.C18Heap
/-! C18 helper lemmas: `push`, `pop`, `changeScore` preserve the invariant and refine the abstract map. -/
namespace WhVerif.C18

theorem ltAt_congr {h h' : Array Entry} {a b : Nat} (ha : h'[a]? = h[a]?) (hb : h'[b]? = h[b]?) :
    ltAt h' a b = ltAt h a b := by
  unfold ltAt; rw [ha, hb]

theorem root_max {h : Array Entry} (ho : HeapOrd h) : ∀ j, ltAt h 0 j = false := by
  intro j
  induction j using Nat.strongRecOn with
  | _ j ih =>
    by_cases hj : j = 0
    · subst hj; exact ltAt_irrefl _ _
    · by_cases hjs : j < h.size
      · have hp := parent_lt (i := j) (by omega)
        exact ltAt_negtrans (by omega) (ih _ hp) (ho j (by omega))
      · exact ltAt_oob_right (by omega)

/-! ### push -/

def PQ.push0 (q : PQ) (s : Score) (item : Nat) : PQ :=
  { heap := q.heap.push ⟨s, item⟩, pos := posSet q.pos item q.heap.size }

theorem push_eq (q : PQ) (s : Score) (item : Nat) : q.push s item = (q.push0 s item).siftUp q.heap.size := rfl

theorem push0_posOK {q : PQ} {s : Score} {item : Nat} (hp : PosOK q) (hn : posGet q.pos item = none) :
    PosOK (q.push0 s item) := by
  intro x idx
  simp only [PQ.push0, posGet_posSet, Array.getElem?_push]
  have hlt : ∀ e, q.heap[idx]? = some e → idx < q.heap.size := fun e he =>
    (Array.getElem?_eq_some_iff.mp he).1
  by_cases hx : x = item
  · subst hx
    by_cases hi : idx = q.heap.size
    · subst hi; simp
    · have : ¬ q.heap.size = idx := fun h => hi h.symm
      simp only [if_true, hi, if_false, Option.some.injEq, this, false_iff]
      intro h
      rw [← hp, hn] at h
      exact absurd h (by simp)
  · simp only [hx, if_false]
    by_cases hi : idx = q.heap.size
    · subst hi
      simp only [if_true, Option.some.injEq]
      constructor
      · intro h
        obtain ⟨e, he, _⟩ := (hp _ _).mp h
        have := hlt e he; omega
      · intro ⟨e, he, hex⟩
        subst he; exact absurd hex.symm hx
    · simp only [hi, if_false]; exact hp x idx

theorem push0_upInv {q : PQ} {s : Score} {item : Nat} (ho : HeapOrd q.heap) :
    UpInv (q.push0 s item).heap q.heap.size := by
  constructor
  · intro j hj hjn
    by_cases hjs : j < q.heap.size
    · have hp := parent_lt hj
      rw [ltAt_congr (h := q.heap)]
      · exact ho j hj
      · simp [PQ.push0, Array.getElem?_push]; omega
      · simp [PQ.push0, Array.getElem?_push]; omega
    · exact ltAt_oob_right (by simp [PQ.push0]; omega)
  · intro j _ hj hjp
    have := parent_lt hj
    exact ltAt_oob_right (by simp [PQ.push0]; omega)

theorem push0_entries (q : PQ) (s : Score) (item : Nat) :
    (q.push0 s item).entries.Perm ((item, s) :: q.entries) := by
  simp only [PQ.push0, PQ.entries, Array.toList_push, List.map_append, List.map_cons, List.map_nil]
  exact List.perm_append_singleton _ _


/-! ### pop -/

theorem posOK_iff_map (q : PQ) : PosOK q ↔
    ∀ item idx, posGet q.pos item = some idx ↔ (q.heap[idx]?.map (·.item)) = some item := by
  unfold PosOK
  constructor <;> intro h item idx <;> rw [h] <;> simp [Option.map_eq_some_iff]

def PQ.pop0 (q : PQ) (h : q.heap.size ≠ 0) : PQ :=
  { heap := (q.heap.set 0 (q.heap[q.heap.size - 1]'(by omega)) (by omega)).pop,
    pos := posErase (posSet q.pos (q.heap[q.heap.size - 1]'(by omega)).item 0) (q.heap[0]'(by omega)).item }

theorem pop0_posOK {q : PQ} (h : q.heap.size ≠ 0) (h1 : q.heap.size ≠ 1) (hp : PosOK q) :
    PosOK (q.pop0 h) := by
  rw [posOK_iff_map] at hp ⊢
  intro x idx
  simp only [PQ.pop0, posGet_posErase, posGet_posSet, Array.getElem?_pop, Array.size_set,
    Array.getElem?_set]
  have h0 : q.heap[0]? = some (q.heap[0]'(by omega)) := by simp
  have hl : q.heap[q.heap.size - 1]? = some (q.heap[q.heap.size - 1]'(by omega)) := by simp
  have hr : idx < q.heap.size ∨ q.heap[idx]? = none := by
    by_cases hh : idx < q.heap.size
    · exact Or.inl hh
    · exact Or.inr (by simp; omega)
  have e1 := hp x idx
  have e2 := hp (q.heap[0]'(by omega)).item idx
  have e3 := hp (q.heap[q.heap.size - 1]'(by omega)).item idx
  have e4 := hp (q.heap[0]'(by omega)).item 0
  have e5 := hp (q.heap[q.heap.size - 1]'(by omega)).item (q.heap.size - 1)
  have e6 := hp (q.heap[q.heap.size - 1]'(by omega)).item 0
  have e7 := hp x 0
  have e8 := hp x (q.heap.size - 1)
  grind


theorem pop0_downInv {q : PQ} (h : q.heap.size ≠ 0) (ho : HeapOrd q.heap) :
    DownInv (q.pop0 h).heap 0 := by
  constructor
  · intro j hj hjp
    by_cases hjs : j < q.heap.size - 1
    · have hp := parent_lt hj
      rw [ltAt_congr (h := q.heap)]
      · exact ho j hj
      · simp only [PQ.pop0, Array.getElem?_pop, Array.size_set, Array.getElem?_set]
        rw [if_pos (by omega), if_neg (by omega)]
      · simp only [PQ.pop0, Array.getElem?_pop, Array.size_set, Array.getElem?_set]
        rw [if_pos (by omega), if_neg (by omega)]
    · exact ltAt_oob_right (by simp [PQ.pop0]; omega)
  · intro j h0; omega

theorem list_head_last_perm {α} (l : List α) (h : l ≠ []) (hlen : l.length ≠ 1) :
    l.Perm (l.head h :: (l.set 0 (l.getLast h)).dropLast) := by
  match l, h with
  | [a], _ => simp at hlen
  | a :: b :: t, _ =>
    simp only [List.head_cons, List.set_cons_zero, List.perm_cons]
    have hne : (b :: t) ≠ [] := by simp
    rw [List.getLast_cons hne]
    have : (List.getLast (b :: t) hne :: b :: t).dropLast = List.getLast (b :: t) hne :: (b :: t).dropLast := by
      simp [List.dropLast]
    rw [this]
    conv => lhs; rw [← List.dropLast_concat_getLast hne]
    exact List.perm_append_singleton _ _

theorem pop0_entries {q : PQ} (h : q.heap.size ≠ 0) (h1 : q.heap.size ≠ 1) :
    q.entries.Perm (((q.heap[0]'(by omega)).item, (q.heap[0]'(by omega)).score) :: (q.pop0 h).entries) := by
  have hne : q.heap.toList ≠ [] := by
    intro hh; apply h; simpa using congrArg List.length hh
  have := list_head_last_perm q.heap.toList hne (by simpa using h1)
  have := this.map (fun e : Entry => (e.item, e.score))
  have e0 : q.heap.toList.head hne = q.heap[0]'(by omega) := by simp [List.head_eq_getElem]
  have e1 : q.heap.toList.getLast hne = q.heap[q.heap.size - 1]'(by omega) := by
    simp [List.getLast_eq_getElem]
  rw [e0, e1] at this
  simpa only [PQ.entries, PQ.pop0, Array.toList_pop, Array.toList_set, List.map_cons] using this


theorem pop_none_iff (q : PQ) : q.pop = none ↔ q.heap.size = 0 := by
  unfold PQ.pop
  split
  · simp [*]
  · split <;> simp [*]

theorem root_max_entries {q : PQ} (ho : HeapOrd q.heap) (h : q.heap.size ≠ 0) :
    ∀ p ∈ q.entries, scoreLower (q.heap[0]'(by omega)).score p.2 = false := by
  intro p hp
  simp only [PQ.entries, List.mem_map, Array.mem_toList_iff] at hp
  obtain ⟨e, he, rfl⟩ := hp
  obtain ⟨j, hj, rfl⟩ := Array.mem_iff_getElem.mp he
  have := root_max ho j
  rwa [ltAt_eq (by omega) hj] at this

theorem pop_some {q q' : PQ} {e : Entry} (h : q.pop = some (e, q')) (ho : HeapOrd q.heap) (hp : PosOK q) :
    HeapOrd q'.heap ∧ PosOK q' ∧ q.entries.Perm ((e.item, e.score) :: q'.entries) ∧
      (∀ p ∈ q.entries, scoreLower e.score p.2 = false) ∧ q'.heap.size + 1 = q.heap.size := by
  unfold PQ.pop at h
  split at h
  · simp at h
  · rename_i hne
    split at h
    · rename_i h1
      simp only [Option.some.injEq, Prod.mk.injEq] at h
      obtain ⟨rfl, rfl⟩ := h
      refine ⟨?_, ?_, ?_, root_max_entries ho hne, by simp; omega⟩
      · intro j hj; exact ltAt_oob_right (by simp; omega)
      · rw [posOK_iff_map] at hp ⊢
        intro x idx
        have e1 := hp x idx
        have e2 := hp x 0
        have e3 := hp q.heap[0].item 0
        have hr : idx < q.heap.size ∨ q.heap[idx]? = none := by
          by_cases hh : idx < q.heap.size
          · exact Or.inl hh
          · exact Or.inr (by simp; omega)
        simp only [posGet_posErase, Array.getElem?_pop]
        grind
      · have : q.heap.toList = [q.heap[0]] := by
          apply List.ext_getElem
          · simp [h1]
          · intro i hi1 hi2
            have : i = 0 := by simpa using hi2
            subst this; simp
        simp [PQ.entries, this]
    · rename_i h1
      simp only [Option.some.injEq, Prod.mk.injEq] at h
      obtain ⟨rfl, rfl⟩ := h
      change HeapOrd ((q.pop0 hne).siftDown 0).heap ∧ PosOK ((q.pop0 hne).siftDown 0) ∧
        q.entries.Perm (_ :: ((q.pop0 hne).siftDown 0).entries) ∧ _ ∧
        ((q.pop0 hne).siftDown 0).heap.size + 1 = q.heap.size
      have hsz : (q.pop0 hne).heap.size = q.heap.size - 1 := by simp [PQ.pop0]
      refine ⟨siftDown_heapOrd _ _ (pop0_downInv hne ho), ?_, ?_, root_max_entries ho hne, ?_⟩
      · exact siftDown_posOK _ _ (by omega) (pop0_posOK hne h1 hp)
      · exact (pop0_entries hne h1).trans ((siftDown_entries _ _).symm.cons _)
      · rw [siftDown_size]; omega

/-! ### changeScore -/

def PQ.set0 (q : PQ) (p : Nat) (s : Score) (h : p < q.heap.size) : PQ :=
  { q with heap := q.heap.set p ⟨s, (q.heap[p]'h).item⟩ h }

theorem set0_posOK {q : PQ} {p : Nat} {s : Score} (h : p < q.heap.size) (hp : PosOK q) :
    PosOK (q.set0 p s h) := by
  rw [posOK_iff_map] at hp ⊢
  intro x idx
  show posGet q.pos x = some idx ↔ _
  rw [hp]
  simp only [PQ.set0, Array.getElem?_set]
  by_cases hi : p = idx
  · subst hi; simp [h]
  · simp [hi]

theorem set0_ltAt_ne {q : PQ} {p : Nat} {s : Score} (h : p < q.heap.size) {a b : Nat}
    (ha : a ≠ p) (hb : b ≠ p) : ltAt (q.set0 p s h).heap a b = ltAt q.heap a b := by
  apply ltAt_congr <;> simp only [PQ.set0, Array.getElem?_set] <;> rw [if_neg (by omega)]

theorem set0_ltAt_left {q : PQ} {p : Nat} {s : Score} (h : p < q.heap.size) {b : Nat}
    (hb : b ≠ p) (hbs : b < q.heap.size) :
    ltAt (q.set0 p s h).heap p b = scoreLower s q.heap[b].score := by
  rw [ltAt_eq (by simpa [PQ.set0] using h) (by simpa [PQ.set0] using hbs)]
  simp only [PQ.set0]
  rw [Array.getElem_set_self, Array.getElem_set_ne _ _ (by omega)]

theorem set0_ltAt_right {q : PQ} {p : Nat} {s : Score} (h : p < q.heap.size) {a : Nat}
    (ha : a ≠ p) (has : a < q.heap.size) :
    ltAt (q.set0 p s h).heap a p = scoreLower q.heap[a].score s := by
  rw [ltAt_eq (by simpa [PQ.set0] using has) (by simpa [PQ.set0] using h)]
  simp only [PQ.set0]
  rw [Array.getElem_set_self, Array.getElem_set_ne _ _ (by omega)]

theorem set0_upInv {q : PQ} {p : Nat} {s : Score} (h : p < q.heap.size) (ho : HeapOrd q.heap)
    (hup : scoreLower q.heap[p].score s = true) : UpInv (q.set0 p s h).heap p := by
  constructor
  · intro j hj hjp
    by_cases hjs : j < q.heap.size
    · by_cases hpj : parent j = p
      · rw [hpj, set0_ltAt_left h hjp hjs]
        have := ho j hj
        rw [hpj, ltAt_eq h hjs] at this
        cases hc : scoreLower s q.heap[j].score with
        | false => rfl
        | true => rw [scoreLower_trans _ _ _ hup hc] at this; exact this
      · rw [set0_ltAt_ne h hpj hjp]; exact ho j hj
    · exact ltAt_oob_right (by simp [PQ.set0]; omega)
  · intro j hp0 hj hjp
    have h1 := parent_lt hp0
    have h2 := parent_lt hj
    rw [set0_ltAt_ne h (by omega) (by omega)]
    have a := ho p hp0
    have b := ho j hj
    rw [hjp] at b
    exact ltAt_negtrans h a b

theorem set0_downInv {q : PQ} {p : Nat} {s : Score} (h : p < q.heap.size) (ho : HeapOrd q.heap)
    (hdn : scoreLower q.heap[p].score s = false) : DownInv (q.set0 p s h).heap p := by
  constructor
  · intro j hj hjp
    by_cases hjs : j < q.heap.size
    · have h2 := parent_lt hj
      by_cases hpj : j = p
      · subst hpj
        rw [set0_ltAt_right h (by omega) (by omega)]
        have := ho j hj
        rw [ltAt_eq (by omega) h] at this
        exact scoreLower_negtrans _ _ _ this hdn
      · rw [set0_ltAt_ne h hjp hpj]; exact ho j hj
    · exact ltAt_oob_right (by simp [PQ.set0]; omega)
  · intro j hp0 hj hjp
    have h1 := parent_lt hp0
    have h2 := parent_lt hj
    rw [set0_ltAt_ne h (by omega) (by omega)]
    have a := ho p hp0
    have b := ho j hj
    rw [hjp] at b
    exact ltAt_negtrans h a b

theorem set0_entries {q : PQ} {p : Nat} {s : Score} (h : p < q.heap.size) :
    ∃ R, q.entries.Perm ((q.heap[p].item, q.heap[p].score) :: R) ∧
      (q.set0 p s h).entries.Perm ((q.heap[p].item, s) :: R) := by
  refine ⟨(q.heap.toList.take p ++ q.heap.toList.drop (p + 1)).map (fun e => (e.item, e.score)), ?_, ?_⟩
  · have : q.heap.toList = q.heap.toList.take p ++ q.heap[p] :: q.heap.toList.drop (p + 1) := by
      have := List.take_append_drop p q.heap.toList
      rw [List.drop_eq_getElem_cons (by simpa using h)] at this
      simpa using this.symm
    have hp := (List.perm_middle (a := q.heap[p]) (l₁ := q.heap.toList.take p)
      (l₂ := q.heap.toList.drop (p + 1))).map (fun e : Entry => (e.item, e.score))
    rw [← this] at hp
    simpa [PQ.entries] using hp
  · have : (q.set0 p s h).heap.toList =
        q.heap.toList.take p ++ ⟨s, q.heap[p].item⟩ :: q.heap.toList.drop (p + 1) := by
      simp [PQ.set0, Array.toList_set, List.set_eq_take_append_cons_drop, h]
    have hp := (List.perm_middle (a := (⟨s, q.heap[p].item⟩ : Entry)) (l₁ := q.heap.toList.take p)
      (l₂ := q.heap.toList.drop (p + 1))).map (fun e : Entry => (e.item, e.score))
    rw [← this] at hp
    simpa [PQ.entries] using hp

theorem changeScore_none {q : PQ} {item : Nat} {s : Score} (hp : PosOK q)
    (h : q.changeScore item s = none) : posGet q.pos item = none := by
  unfold PQ.changeScore at h
  split at h
  · assumption
  · rename_i p hpos
    split at h
    · dsimp only at h
      split at h <;> simp at h
    · rename_i hlt
      obtain ⟨e, he, _⟩ := (hp _ _).mp hpos
      exact absurd (Array.getElem?_eq_some_iff.mp he).1 hlt

theorem changeScore_some {q q' : PQ} {item : Nat} {s : Score} (ho : HeapOrd q.heap) (hp : PosOK q)
    (h : q.changeScore item s = some q') :
    HeapOrd q'.heap ∧ PosOK q' ∧ q'.heap.size = q.heap.size ∧
      ∃ old R, q.entries.Perm ((item, old) :: R) ∧ q'.entries.Perm ((item, s) :: R) := by
  unfold PQ.changeScore at h
  split at h
  · simp at h
  · rename_i p hpos
    split at h
    · rename_i hlt
      obtain ⟨e, he, hitem⟩ := (hp _ _).mp hpos
      obtain ⟨_, rfl⟩ := Array.getElem?_eq_some_iff.mp he
      obtain ⟨R, hR1, hR2⟩ := set0_entries (s := s) hlt
      rw [hitem] at hR1 hR2
      dsimp only at h
      split at h
      · rename_i hup
        simp only [Option.some.injEq] at h
        subst h
        change HeapOrd ((q.set0 p s hlt).siftUp p).heap ∧ PosOK ((q.set0 p s hlt).siftUp p) ∧
          ((q.set0 p s hlt).siftUp p).heap.size = _ ∧ ∃ old R, _ ∧ ((q.set0 p s hlt).siftUp p).entries.Perm _
        have hsz : (q.set0 p s hlt).heap.size = q.heap.size := by simp [PQ.set0]
        refine ⟨siftUp_heapOrd _ _ (by omega) (set0_upInv hlt ho hup),
          siftUp_posOK _ _ (by omega) (set0_posOK hlt hp), by rw [siftUp_size, hsz], _, R, hR1, ?_⟩
        exact (siftUp_entries _ _).trans hR2
      · rename_i hdn
        simp only [Option.some.injEq] at h
        subst h
        change HeapOrd ((q.set0 p s hlt).siftDown p).heap ∧ PosOK ((q.set0 p s hlt).siftDown p) ∧
          ((q.set0 p s hlt).siftDown p).heap.size = _ ∧ ∃ old R, _ ∧ ((q.set0 p s hlt).siftDown p).entries.Perm _
        have hsz : (q.set0 p s hlt).heap.size = q.heap.size := by simp [PQ.set0]
        refine ⟨siftDown_heapOrd _ _ (set0_downInv hlt ho (by simpa using hdn)),
          siftDown_posOK _ _ (by omega) (set0_posOK hlt hp), by rw [siftDown_size, hsz], _, R, hR1, ?_⟩
        exact (siftDown_entries _ _).trans hR2
    · simp at h


/-! ### keys, lookups -/

theorem mem_keys_iff {q : PQ} (hp : PosOK q) (item : Nat) :
    item ∈ q.entries.keys ↔ ∃ idx, posGet q.pos item = some idx := by
  simp only [AMap.keys, PQ.entries, List.map_map, List.mem_map, Array.mem_toList_iff, Function.comp]
  constructor
  · intro ⟨e, he, hei⟩
    obtain ⟨j, hj, rfl⟩ := Array.mem_iff_getElem.mp he
    exact ⟨j, (hp _ _).mpr ⟨q.heap[j], by simp, hei⟩⟩
  · intro ⟨idx, h⟩
    obtain ⟨e, he, hei⟩ := (hp _ _).mp h
    exact ⟨e, Array.mem_of_getElem? he, hei⟩

theorem not_mem_keys_iff {q : PQ} (hp : PosOK q) (item : Nat) :
    item ∉ q.entries.keys ↔ posGet q.pos item = none := by
  rw [mem_keys_iff hp]
  cases posGet q.pos item <;> simp

theorem getScore_some {q : PQ} {item : Nat} {s : Score} (hp : PosOK q) (h : q.getScore item = some s) :
    (item, s) ∈ q.entries := by
  unfold PQ.getScore at h
  split at h
  · simp at h
  · rename_i p hpos
    obtain ⟨e, he, hei⟩ := (hp _ _).mp hpos
    rw [he] at h
    simp only [Option.map_some, Option.some.injEq] at h
    simp only [PQ.entries, List.mem_map, Array.mem_toList_iff]
    exact ⟨e, Array.mem_of_getElem? he, by rw [hei, h]⟩

theorem getScore_none {q : PQ} {item : Nat} (hp : PosOK q) (h : q.getScore item = none) :
    item ∉ q.entries.keys := by
  rw [not_mem_keys_iff hp]
  unfold PQ.getScore at h
  split at h
  · assumption
  · rename_i p hpos
    obtain ⟨e, he, hei⟩ := (hp _ _).mp hpos
    rw [he] at h; simp at h

theorem entries_keys_nodup {q : PQ} (hp : PosOK q) : q.entries.keys.Nodup := by
  simp only [AMap.keys, PQ.entries, List.map_map, List.Nodup, List.pairwise_iff_getElem]
  intro i j hi hj hij
  simp only [List.length_map, Array.length_toList] at hi hj
  simp only [List.getElem_map, Array.getElem_toList, Function.comp]
  intro heq
  have h1 : posGet q.pos q.heap[i].item = some i := (hp _ _).mpr ⟨q.heap[i], by simp, rfl⟩
  have h2 : posGet q.pos q.heap[j].item = some j := (hp _ _).mpr ⟨q.heap[j], by simp, rfl⟩
  rw [heq, h2] at h1
  have : j = i := by simpa using h1
  omega

/-! ### every step preserves the invariant and is allowed by the abstract queue -/

theorem step_refines {q : PQ} (hinv : Inv q) (op : Op) :
    Inv (step q op).1 ∧ AStep q.entries op (step q op).1.entries (step q op).2 := by
  obtain ⟨ho, hp⟩ := (inv_iff q).mp hinv
  cases op with
  | push s item =>
    simp only [step]
    by_cases hc : q.contains item = true
    · rw [if_pos hc]
      unfold PQ.contains at hc
      obtain ⟨idx, hpos⟩ := Option.isSome_iff_exists.mp hc
      exact ⟨hinv, .pushQueued ((mem_keys_iff hp item).mpr ⟨idx, hpos⟩)⟩
    · rw [if_neg hc]
      have hpos : posGet q.pos item = none := by simpa [PQ.contains] using hc
      show Inv (q.push s item) ∧ AStep q.entries _ (q.push s item).entries .unit
      rw [push_eq]
      have hsz : q.heap.size < (q.push0 s item).heap.size := by simp [PQ.push0]
      refine ⟨(inv_iff _).mpr ⟨siftUp_heapOrd _ _ hsz (push0_upInv ho),
        siftUp_posOK _ _ hsz (push0_posOK hp hpos)⟩, ?_⟩
      exact .push ((not_mem_keys_iff hp item).mpr hpos)
        ((siftUp_entries _ _).trans (push0_entries q s item))
  | pop =>
    simp only [step]
    cases hpop : q.pop with
    | none =>
      have := (pop_none_iff q).mp hpop
      have he : q.entries = [] := by
        simp [PQ.entries, Array.eq_empty_of_size_eq_zero this]
      simp only [he]
      exact ⟨hinv, .popEmpty⟩
    | some r =>
      obtain ⟨e, q'⟩ := r
      obtain ⟨ho', hp', hperm, hmax, _⟩ := pop_some hpop ho hp
      exact ⟨(inv_iff _).mpr ⟨ho', hp'⟩, .pop hperm hmax⟩
  | change item s =>
    simp only [step]
    cases hc : q.changeScore item s with
    | none =>
      exact ⟨hinv, .changeAbsent ((not_mem_keys_iff hp item).mpr (changeScore_none hp hc))⟩
    | some q' =>
      obtain ⟨ho', hp', _, old, R, h1, h2⟩ := changeScore_some ho hp hc
      exact ⟨(inv_iff _).mpr ⟨ho', hp'⟩, .change h1 h2⟩
  | get item =>
    simp only [step]
    refine ⟨hinv, ?_⟩
    cases hg : q.getScore item with
    | none => exact .getNone (getScore_none hp hg)
    | some s => exact .getSome (getScore_some hp hg)
  | len =>
    simp only [step]
    refine ⟨hinv, ?_⟩
    have : q.len = q.entries.length := by simp [PQ.len, PQ.entries]
    rw [this]; exact .len
  | isEmpty =>
    simp only [step]
    refine ⟨hinv, ?_⟩
    have : q.isEmpty = q.entries.isEmpty := by
      rw [Bool.eq_iff_iff]
      simp [PQ.isEmpty, PQ.entries]
    rw [this]; exact .isEmpty

theorem inv_empty : Inv ({} : PQ) := by
  refine ⟨?_, ?_, ?_⟩
  · intro i hi; simp at hi
  · intro i hi; simp at hi
  · intro item idx h; simp [posGet] at h

theorem exec_inv {q : PQ} (hinv : Inv q) (ops : List Op) : Inv (exec q ops) := by
  induction ops generalizing q with
  | nil => exact hinv
  | cons op ops ih => exact ih (step_refines hinv op).1

theorem run_refines {q : PQ} (hinv : Inv q) (ops : List Op) : ARun q.entries ops (run q ops) := by
  induction ops generalizing q with
  | nil => exact .nil
  | cons op ops ih =>
    have := step_refines hinv op
    simp only [run]
    exact .cons this.2 (ih this.1)

end WhVerif.C18

import WhVerif.Lemmas.C18Heap
/-! C18 helper lemmas: `push`, `pop`, `changeScore` preserve the invariant and refine the abstract map. -/
namespace WhVerif.C18

theorem ltAt_congr {h h' : Array Entry} {a b : Nat} (ha : h'[a]? = h[a]?) (hb : h'[b]? = h[b]?) :
    ltAt h' a b = ltAt h a b := by
  unfold ltAt; rw [ha, hb]

theorem root_max {h : Array Entry} (ho : HeapOrd h) : ∀ j, ltAt h 0 j = false := by
  intro j
  induction j using Nat.strongRecOn with
  | _ j ih =>
    by_cases hj : j = 0
    · subst hj; exact ltAt_irrefl _ _
    · by_cases hjs : j < h.size
      · have hp := parent_lt (i := j) (by omega)
        exact ltAt_negtrans (by omega) (ih _ hp) (ho j (by omega))
      · exact ltAt_oob_right (by omega)

/-! ### push -/

def PQ.push0 (q : PQ) (s : Score) (item : Nat) : PQ :=
  { heap := q.heap.push ⟨s, item⟩, pos := posSet q.pos item q.heap.size }

theorem push_eq (q : PQ) (s : Score) (item : Nat) : q.push s item = (q.push0 s item).siftUp q.heap.size := rfl

theorem push0_posOK {q : PQ} {s : Score} {item : Nat} (hp : PosOK q) (hn : posGet q.pos item = none) :
    PosOK (q.push0 s item) := by
  intro x idx
  simp only [PQ.push0, posGet_posSet, Array.getElem?_push]
  have hlt : ∀ e, q.heap[idx]? = some e → idx < q.heap.size := fun e he =>
    (Array.getElem?_eq_some_iff.mp he).1
  by_cases hx : x = item
  · subst hx
    by_cases hi : idx = q.heap.size
    · subst hi; simp
    · have : ¬ q.heap.size = idx := fun h => hi h.symm
      simp only [if_true, hi, if_false, Option.some.injEq, this, false_iff]
      intro h
      rw [← hp, hn] at h
      exact absurd h (by simp)
  · simp only [hx, if_false]
    by_cases hi : idx = q.heap.size
    · subst hi
      simp only [if_true, Option.some.injEq]
      constructor
      · intro h
        obtain ⟨e, he, _⟩ := (hp _ _).mp h
        have := hlt e he; omega
      · intro ⟨e, he, hex⟩
        subst he; exact absurd hex.symm hx
    · simp only [hi, if_false]; exact hp x idx

theorem push0_upInv {q : PQ} {s : Score} {item : Nat} (ho : HeapOrd q.heap) :
    UpInv (q.push0 s item).heap q.heap.size := by
  constructor
  · intro j hj hjn
    by_cases hjs : j < q.heap.size
    · have hp := parent_lt hj
      rw [ltAt_congr (h := q.heap)]
      · exact ho j hj
      · simp [PQ.push0, Array.getElem?_push]; omega
      · simp [PQ.push0, Array.getElem?_push]; omega
    · exact ltAt_oob_right (by simp [PQ.push0]; omega)
  · intro j _ hj hjp
    have := parent_lt hj
    exact ltAt_oob_right (by simp [PQ.push0]; omega)

theorem push0_entries (q : PQ) (s : Score) (item : Nat) :
    (q.push0 s item).entries.Perm ((item, s) :: q.entries) := by
  simp only [PQ.push0, PQ.entries, Array.toList_push, List.map_append, List.map_cons, List.map_nil]
  exact List.perm_append_singleton _ _


/-! ### pop -/

theorem posOK_iff_map (q : PQ) : PosOK q ↔
    ∀ item idx, posGet q.pos item = some idx ↔ (q.heap[idx]?.map (·.item)) = some item := by
  unfold PosOK
  constructor <;> intro h item idx <;> rw [h] <;> simp [Option.map_eq_some_iff]

def PQ.pop0 (q : PQ) (h : q.heap.size ≠ 0) : PQ :=
  { heap := (q.heap.set 0 (q.heap[q.heap.size - 1]'(by omega)) (by omega)).pop,
    pos := posErase (posSet q.pos (q.heap[q.heap.size - 1]'(by omega)).item 0) (q.heap[0]'(by omega)).item }

theorem pop0_posOK {q : PQ} (h : q.heap.size ≠ 0) (h1 : q.heap.size ≠ 1) (hp : PosOK q) :
    PosOK (q.pop0 h) := by
  rw [posOK_iff_map] at hp ⊢
  intro x idx
  simp only [PQ.pop0, posGet_posErase, posGet_posSet, Array.getElem?_pop, Array.size_set,
    Array.getElem?_set]
  have h0 : q.heap[0]? = some (q.heap[0]'(by omega)) := by simp
  have hl : q.heap[q.heap.size - 1]? = some (q.heap[q.heap.size - 1]'(by omega)) := by simp
  have hr : idx < q.heap.size ∨ q.heap[idx]? = none := by
    by_cases hh : idx < q.heap.size
    · exact Or.inl hh
    · exact Or.inr (by simp; omega)
  have e1 := hp x idx
  have e2 := hp (q.heap[0]'(by omega)).item idx
  have e3 := hp (q.heap[q.heap.size - 1]'(by omega)).item idx
  have e4 := hp (q.heap[0]'(by omega)).item 0
  have e5 := hp (q.heap[q.heap.size - 1]'(by omega)).item (q.heap.size - 1)
  have e6 := hp (q.heap[q.heap.size - 1]'(by omega)).item 0
  have e7 := hp x 0
  have e8 := hp x (q.heap.size - 1)
  grind


theorem pop0_downInv {q : PQ} (h : q.heap.size ≠ 0) (ho : HeapOrd q.heap) :
    DownInv (q.pop0 h).heap 0 := by
  constructor
  · intro j hj hjp
    by_cases hjs : j < q.heap.size - 1
    · have hp := parent_lt hj
      rw [ltAt_congr (h := q.heap)]
      · exact ho j hj
      · simp only [PQ.pop0, Array.getElem?_pop, Array.size_set, Array.getElem?_set]
        rw [if_pos (by omega), if_neg (by omega)]
      · simp only [PQ.pop0, Array.getElem?_pop, Array.size_set, Array.getElem?_set]
        rw [if_pos (by omega), if_neg (by omega)]
    · exact ltAt_oob_right (by simp [PQ.pop0]; omega)
  · intro j h0; omega

theorem list_head_last_perm {α} (l : List α) (h : l ≠ []) (hlen : l.length ≠ 1) :
    l.Perm (l.head h :: (l.set 0 (l.getLast h)).dropLast) := by
  match l, h with
  | [a], _ => simp at hlen
  | a :: b :: t, _ =>
    simp only [List.head_cons, List.set_cons_zero, List.perm_cons]
    have hne : (b :: t) ≠ [] := by simp
    rw [List.getLast_cons hne]
    have : (List.getLast (b :: t) hne :: b :: t).dropLast = List.getLast (b :: t) hne :: (b :: t).dropLast := by
      simp [List.dropLast]
    rw [this]
    conv => lhs; rw [← List.dropLast_concat_getLast hne]
    exact List.perm_append_singleton _ _

theorem pop0_entries {q : PQ} (h : q.heap.size ≠ 0) (h1 : q.heap.size ≠ 1) :
    q.entries.Perm (((q.heap[0]'(by omega)).item, (q.heap[0]'(by omega)).score) :: (q.pop0 h).entries) := by
  have hne : q.heap.toList ≠ [] := by
    intro hh; apply h; simpa using congrArg List.length hh
  have := list_head_last_perm q.heap.toList hne (by simpa using h1)
  have := this.map (fun e : Entry => (e.item, e.score))
  have e0 : q.heap.toList.head hne = q.heap[0]'(by omega) := by simp [List.head_eq_getElem]
  have e1 : q.heap.toList.getLast hne = q.heap[q.heap.size - 1]'(by omega) := by
    simp [List.getLast_eq_getElem]
  rw [e0, e1] at this
  simpa only [PQ.entries, PQ.pop0, Array.toList_pop, Array.toList_set, List.map_cons] using this


theorem pop_none_iff (q : PQ) : q.pop = none ↔ q.heap.size = 0 := by
  unfold PQ.pop
  split
  · simp [*]
  · split <;> simp [*]

theorem root_max_entries {q : PQ} (ho : HeapOrd q.heap) (h : q.heap.size ≠ 0) :
    ∀ p ∈ q.entries, scoreLower (q.heap[0]'(by omega)).score p.2 = false := by
  intro p hp
  simp only [PQ.entries, List.mem_map, Array.mem_toList_iff] at hp
  obtain ⟨e, he, rfl⟩ := hp
  obtain ⟨j, hj, rfl⟩ := Array.mem_iff_getElem.mp he
  have := root_max ho j
  rwa [ltAt_eq (by omega) hj] at this

theorem pop_some {q q' : PQ} {e : Entry} (h : q.pop = some (e, q')) (ho : HeapOrd q.heap) (hp : PosOK q) :
    HeapOrd q'.heap ∧ PosOK q' ∧ q.entries.Perm ((e.item, e.score) :: q'.entries) ∧
      (∀ p ∈ q.entries, scoreLower e.score p.2 = false) ∧ q'.heap.size + 1 = q.heap.size := by
  unfold PQ.pop at h
  split at h
  · simp at h
  · rename_i hne
    split at h
    · rename_i h1
      simp only [Option.some.injEq, Prod.mk.injEq] at h
      obtain ⟨rfl, rfl⟩ := h
      refine ⟨?_, ?_, ?_, root_max_entries ho hne, by simp; omega⟩
      · intro j hj; exact ltAt_oob_right (by simp; omega)
      · rw [posOK_iff_map] at hp ⊢
        intro x idx
        have e1 := hp x idx
        have e2 := hp x 0
        have e3 := hp q.heap[0].item 0
        have hr : idx < q.heap.size ∨ q.heap[idx]? = none := by
          by_cases hh : idx < q.heap.size
          · exact Or.inl hh
          · exact Or.inr (by simp; omega)
        simp only [posGet_posErase, Array.getElem?_pop]
        grind
      · have : q.heap.toList = [q.heap[0]] := by
          apply List.ext_getElem
          · simp [h1]
          · intro i hi1 hi2
            have : i = 0 := by simpa using hi2
            subst this; simp
        simp [PQ.entries, this]
    · rename_i h1
      simp only [Option.some.injEq, Prod.mk.injEq] at h
      obtain ⟨rfl, rfl⟩ := h
      change HeapOrd ((q.pop0 hne).siftDown 0).heap ∧ PosOK ((q.pop0 hne).siftDown 0) ∧
        q.entries.Perm (_ :: ((q.pop0 hne).siftDown 0).entries) ∧ _ ∧
        ((q.pop0 hne).siftDown 0).heap.size + 1 = q.heap.size
      have hsz : (q.pop0 hne).heap.size = q.heap.size - 1 := by simp [PQ.pop0]
      refine ⟨siftDown_heapOrd _ _ (pop0_downInv hne ho), ?_, ?_, root_max_entries ho hne, ?_⟩
      · exact siftDown_posOK _ _ (by omega) (pop0_posOK hne h1 hp)
      · exact (pop0_entries hne h1).trans ((siftDown_entries _ _).symm.cons _)
      · rw [siftDown_size]; omega

end WhVerif.C18

import WhVerif.Lemmas.C08ImplCost
import WhVerif.Lemmas.C08Bits
/-!
# C08 impl lemmas, part 2: the Gray walk — cost computer and iterator stay in sync with the current code
-/
namespace WhVerif.C08.Impl
open WhVerif.C08 WhVerif.C01

theorem grayList_getElem? (n k : Nat) (hk : k < 2 ^ n) :
    (grayList n)[k]? = some (gray k, if k = 0 then (-1 : Int) else ((tones (k - 1) : Nat) : Int)) := by
  rw [grayList_eq]; simp [hk]

theorem grayList_length (n : Nat) : (grayList n).length = 2 ^ n := by
  rw [grayList_eq]; simp

/-- a fold over the first `k+2` codes = one more step after the first `k+1` -/
theorem foldl_take_gray {σ : Type} (n k : Nat) (hk : k + 1 < 2 ^ n) (f : σ → Nat × Int → σ) (s : σ) :
    ((grayList n).take (k + 2)).foldl f s =
      f (((grayList n).take (k + 1)).foldl f s) (gray (k + 1), ((tones k : Nat) : Int)) := by
  rw [List.take_add_one, List.foldl_append, grayList_getElem? n (k + 1) hk]
  simp

theorem foldl_take_gray_zero {σ : Type} (n : Nat) (f : σ → Nat × Int → σ) (s : σ) :
    ((grayList n).take 1).foldl f s = f s (0, -1) := by
  rw [List.take_add_one, List.foldl_append, grayList_getElem? n 0 (Nat.two_pow_pos n)]
  simp [gray_zero]

theorem bitsOf_length (n x : Nat) : (bitsOf n x).length = n := by simp [bitsOf]

theorem bitsOf_getElem? (n x i : Nat) (h : i < n) : (bitsOf n x)[i]? = some (x.testBit i) := by
  simp [bitsOf, h]

theorem bitsOf_xor (n x i : Nat) :
    bitsOf n (x ^^^ (1 <<< i)) = (bitsOf n x).set i (!x.testBit i) := by
  apply List.ext_getElem
  · simp [bitsOf]
  · intro j h1 h2
    simp only [bitsOf, List.length_map, List.length_range] at h1
    simp only [bitsOf, List.getElem_map, List.getElem_range, List.getElem_set, Nat.testBit_xor,
      one_shiftLeft_testBit]
    by_cases h : i = j
    · subst h; simp
    · simp [h]

theorem bitsOf_zero (n : Nat) : bitsOf n 0 = List.replicate n false := by
  apply List.ext_getElem <;> simp [bitsOf]

section
variable {K : Type} [Field K]

/-- the walk invariant of one cost computer -/
def CCInv (em : Nat → K) (parts : Nat → Nat × Nat) (nP : Nat) (col : List Ent) (cc : CostComputer K) (idx : Nat) : Prop :=
  cc.cp.size = nP ∧
  (∀ i v, col[i]? = some (some v) → cc.partitioning.testBit i = idx.testBit i) ∧
  ∀ p al, p < nP → cpAt cc.cp p al = cpSpec em parts col (bitsOf col.length idx) p al

theorem ccInv_set (em : Nat → K) (parts : Nat → Nat × Nat) (nP : Nat) (col : List Ent) :
    CCInv em parts nP col (setPartitioning em parts nP col 0) 0 := by
  have := setLoop_zero em parts col (Array.replicate nP ((1 : K), (1 : K)))
  refine ⟨by simpa [setPartitioning] using this.1, by intro i v _; simp [setPartitioning], ?_⟩
  intro p al hp
  have h := this.2 p al (by simpa using hp)
  simp only [setPartitioning]
  rw [h, bitsOf_zero]
  simp [cpAt, hp]

theorem ccInv_update (em : Nat → K) (parts : Nat → Nat × Nat) (nP : Nat) (col : List Ent) (cc : CostComputer K)
    (idx i : Nat) (hi : i < col.length)
    (hne : ∀ e ∈ col, ∀ ind alt q, e = some (ind, alt, q) → em q ≠ 0 ∧ 1 - em q ≠ 0)
    (h : CCInv em parts nP col cc idx) :
    CCInv em parts nP col (updatePartitioning em parts col cc i) (idx ^^^ (1 <<< i)) := by
  obtain ⟨hs, hpart, hcp⟩ := h
  have hget : col[i]? = some col[i] := by simp [hi]
  unfold updatePartitioning
  cases hc : col[i] with
  | none =>
    rw [hget, hc]
    refine ⟨hs, ?_, ?_⟩
    · intro j v hj
      rw [hpart j v hj, Nat.testBit_xor, one_shiftLeft_testBit]
      have : i ≠ j := by
        intro e; subst e; rw [hget, hc] at hj; simp at hj
      simp [this]
    · intro p al hp
      rw [hcp p al hp, bitsOf_xor, cpSpec_set_blank em parts col _ i _ (by rw [hget, hc])]
  | some v =>
    obtain ⟨ind, alt, q⟩ := v
    rw [hget, hc]
    simp only []
    have hnz := hne col[i] (List.getElem_mem hi) ind alt q hc
    have hbit : cc.partitioning.testBit i = idx.testBit i := hpart i (ind, alt, q) (by rw [hget, hc])
    have hnew : (cc.partitioning ^^^ 1 <<< i).testBit i = !idx.testBit i := by
      rw [Nat.testBit_xor, one_shiftLeft_testBit, hbit]; simp
    refine ⟨by simpa using hs, ?_, ?_⟩
    · intro j v hj
      rw [Nat.testBit_xor, Nat.testBit_xor, hpart j v hj]
    · intro p al hp
      rw [hnew, Bool.not_not, cpAt_cpDiv, cpAt_cpMul, size_cpMul, hs, hcp p al hp, bitsOf_xor,
        cpSpec_set em parts col _ i ind alt q (idx.testBit i) (by rw [hget, hc]) (bitsOf_getElem? _ _ _ hi)
          hnz.1 hnz.2]
      simp only [fac_eq]
      by_cases h1 : p = h2p parts ind (idx.testBit i) <;> by_cases h2 : p = h2p parts ind (!idx.testBit i)
      · simp [hp, ← h1, ← h2]
      · have : ¬ h2p parts ind (!idx.testBit i) = p := fun e => h2 e.symm
        simp [hp, ← h1, h2, this]
      · have : ¬ h2p parts ind (idx.testBit i) = p := fun e => h1 e.symm
        simp [hp, h1, ← h2, this]
      · have : ¬ h2p parts ind (idx.testBit i) = p := fun e => h1 e.symm
        have : ¬ h2p parts ind (!idx.testBit i) = p := fun e => h2 e.symm
        simp [*]

theorem ccWalk_inv (em : Nat → K) (parts : Nat → Nat × Nat) (nP : Nat) (col : List Ent)
    (hne : ∀ e ∈ col, ∀ ind alt q, e = some (ind, alt, q) → em q ≠ 0 ∧ 1 - em q ≠ 0)
    (k : Nat) (hk : k < 2 ^ col.length) :
    CCInv em parts nP col (ccWalk em parts nP col k) (gray k) := by
  induction k with
  | zero =>
    unfold ccWalk
    rw [foldl_take_gray_zero, gray_zero]
    simp only [ccStep]
    exact ccInv_set em parts nP col
  | succ k ih =>
    unfold ccWalk
    rw [foldl_take_gray _ _ hk]
    have := ih (by omega)
    unfold ccWalk at this
    simp only [ccStep]
    rw [if_neg (by omega), Int.toNat_natCast, gray_succ]
    exact ccInv_update em parts nP col _ _ _ (tones_lt _ _ hk) hne this

theorem getCost_of_inv (em : Nat → K) (parts : Nat → Nat × Nat) (nP : Nat) (col : List Ent) (cc : CostComputer K) (idx a : Nat)
    (hP : ∀ e ∈ col, ∀ ind alt q, e = some (ind, alt, q) → (parts ind).1 < nP ∧ (parts ind).2 < nP)
    (h : CCInv em parts nP col cc idx) :
    getCost nP cc a = emitCol em parts a col (bitsOf col.length idx) := by
  unfold getCost
  rw [natFold_mul_eq_prod, ← prod_cpSpec em parts nP a col _ hP]
  apply Finset.prod_congr rfl
  intro p hp
  exact h.2.2 p _ (Finset.mem_range.mp hp)

end

/-! ## the iterator -/

theorem maskAt_some {l : List Nat} (hnd : l.Nodup) {j m : Nat} :
    maskAt l j = some m ↔ ∃ h : m < l.length, l[m] = j := by
  induction l generalizing m with
  | nil => simp [maskAt]
  | cons r rest ih =>
    have hnd' := (List.nodup_cons.mp hnd)
    unfold maskAt
    by_cases h : r = j
    · subst h
      simp only [if_true, Option.some.injEq]
      constructor
      · intro e; subst e; exact ⟨by simp, by simp⟩
      · rintro ⟨hm, e⟩
        cases m with
        | zero => rfl
        | succ m =>
          simp only [List.getElem_cons_succ] at e
          exact absurd (e ▸ List.getElem_mem _) hnd'.1
    · simp only [h, if_false, Option.map_eq_some_iff]
      constructor
      · rintro ⟨m', hm', rfl⟩
        obtain ⟨h1, h2⟩ := (ih hnd'.2).mp hm'
        exact ⟨by simp; omega, by simpa using h2⟩
      · rintro ⟨hm, e⟩
        cases m with
        | zero => simp at e; exact absurd e h
        | succ m =>
          simp only [List.getElem_cons_succ] at e
          exact ⟨m, (ih hnd'.2).mpr ⟨by simpa using hm, e⟩, rfl⟩

theorem maskAt_none {l : List Nat} {j : Nat} : maskAt l j = none ↔ j ∉ l := by
  induction l with
  | nil => simp [maskAt]
  | cons r rest ih =>
    unfold maskAt
    by_cases h : r = j
    · simp [h]
    · have : ¬ j = r := fun e => h e.symm
      simp [h, ih, this]

/-- flipping bit `i` of the index flips bit `mask[i]` of the forward projection (nothing for mask `-1`) -/
theorem gather_xor (l : List Nat) (hnd : l.Nodup) (x i : Nat) :
    gather l (x ^^^ (1 <<< i)) =
      match maskAt l i with
      | some m => gather l x ^^^ (1 <<< m)
      | none => gather l x := by
  cases hm : maskAt l i with
  | none =>
    simp only []
    apply gather_congr
    intro r hr
    have : i ≠ r := by
      intro e; subst e; exact (maskAt_none.mp hm) hr
    rw [Nat.testBit_xor, one_shiftLeft_testBit]
    simp [this]
  | some m =>
    simp only []
    obtain ⟨hlt, hlm⟩ := (maskAt_some hnd).mp hm
    apply Nat.eq_of_testBit_eq
    intro k
    rw [Nat.testBit_xor, testBit_gather, testBit_gather, one_shiftLeft_testBit]
    by_cases hk : k < l.length
    · simp only [hk, dite_true, Nat.testBit_xor, one_shiftLeft_testBit]
      congr 1
      by_cases e : m = k
      · subst e; simp [hlm]
      · have : ¬ i = l[k] := by
          intro e'
          have := (List.Nodup.getElem_inj_iff hnd (hi := hlt) (hj := hk)).mp (hlm.trans e')
          exact e this
        simp [e, this]
    · have : ¬ m = k := by omega
      simp [hk, this]

theorem fpWalk_eq (n : Nat) (fwdPos : List Nat) (hnd : fwdPos.Nodup) (k : Nat) (hk : k < 2 ^ n) :
    fpWalk n fwdPos k = gather fwdPos (gray k) := by
  induction k with
  | zero =>
    unfold fpWalk
    rw [foldl_take_gray_zero, gray_zero]
    simp only [fpStep]
    have : gather fwdPos 0 = 0 := by
      induction fwdPos with
      | nil => rfl
      | cons r rest ih => simp [gather, ih (List.nodup_cons.mp hnd).2]
    simp [this]
  | succ k ih =>
    unfold fpWalk
    rw [foldl_take_gray _ _ hk]
    have := ih (by omega)
    unfold fpWalk at this
    simp only [fpStep]
    rw [if_neg (by omega), Int.toNat_natCast, gray_succ, gather_xor _ hnd, this]
    cases maskAt fwdPos (tones k) <;> rfl

end WhVerif.C08.Impl

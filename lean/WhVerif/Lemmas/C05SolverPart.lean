import WhVerif.Spec.C05Solver
/-!
# C05 / solver: structure of the partition map `h2pMap` of the C01 model (any pedigree satisfying `PedOK`)

The C01 model computes `haplotype_to_partition` by `nind` passes over the trio list starting from the roots.
Here: entries once set never change, every set entry of a child comes from ITS trio (father's partition selected
by bit `2k`, mother's by bit `2k+1`), and after `nind` passes every individual of an acyclic pedigree is set.
Core Lean only.
-/
namespace WhVerif.C05.Solver
open WhVerif.C01

abbrev PMap := List (Option (Nat × Nat))

/-- one step of `h2pPass` -/
def stepFn (t : Nat) (m : PMap) (x : (Nat × Nat × Nat) × Nat) : PMap :=
  match m.getD x.1.2.2 none, m.getD x.1.1 none, m.getD x.1.2.1 none with
  | none, some pf, some pm => m.set x.1.2.2 (some (sel pf (bitOf t (2 * x.2)), sel pm (bitOf t (2 * x.2 + 1))))
  | _, _, _ => m

theorem h2pPass_eq (I : Inst) (t : Nat) (m : PMap) : h2pPass I t m = (I.trios.zipIdx).foldl (stepFn t) m := rfl

theorem getD_set (m : PMap) (i j : Nat) (v : Option (Nat × Nat)) :
    (m.set i v).getD j none = if i = j ∧ i < m.length then v else m.getD j none := by
  simp only [List.getD_eq_getElem?_getD, List.getElem?_set]
  by_cases hij : i = j
  · subst hij
    by_cases hl : i < m.length
    · simp [hl]
    · simp [hl]
  · simp [hij]

theorem step_length (t : Nat) (m : PMap) (x : (Nat × Nat × Nat) × Nat) : (stepFn t m x).length = m.length := by
  unfold stepFn; split <;> simp

theorem step_cases (t : Nat) (m : PMap) (x : (Nat × Nat × Nat) × Nat) :
    stepFn t m x = m ∨ (m.getD x.1.2.2 none = none ∧ ∃ pf pm, m.getD x.1.1 none = some pf ∧
      m.getD x.1.2.1 none = some pm ∧
      stepFn t m x = m.set x.1.2.2 (some (sel pf (bitOf t (2 * x.2)), sel pm (bitOf t (2 * x.2 + 1))))) := by
  unfold stepFn
  split
  · rename_i pf pm h1 h2 h3
    exact Or.inr ⟨h1, pf, pm, h2, h3, rfl⟩
  · exact Or.inl rfl

theorem step_mono (t : Nat) (m : PMap) (x : (Nat × Nat × Nat) × Nat) (i : Nat) (p : Nat × Nat)
    (h : m.getD i none = some p) : (stepFn t m x).getD i none = some p := by
  rcases step_cases t m x with e | ⟨hn, pf, pm, _, _, e⟩
  · rw [e]; exact h
  · rw [e, getD_set]
    by_cases hc : x.1.2.2 = i ∧ x.1.2.2 < m.length
    · rw [hc.1, h] at hn; cases hn
    · rw [if_neg hc]; exact h

theorem foldl_length (t : Nat) : ∀ (l : List ((Nat × Nat × Nat) × Nat)) (m : PMap),
    (l.foldl (stepFn t) m).length = m.length := by
  intro l
  induction l with
  | nil => intro m; rfl
  | cons a l ih => intro m; rw [List.foldl_cons, ih, step_length]

theorem foldl_mono (t : Nat) : ∀ (l : List ((Nat × Nat × Nat) × Nat)) (m : PMap) (i : Nat) (p : Nat × Nat),
    m.getD i none = some p → (l.foldl (stepFn t) m).getD i none = some p := by
  intro l
  induction l with
  | nil => intro m i p h; exact h
  | cons a l ih => intro m i p h; rw [List.foldl_cons]; exact ih _ i p (step_mono t m a i p h)

/-- every set entry is a root's or comes from a trio of that child -/
def Good (I : Inst) (t : Nat) (m : PMap) : Prop :=
  ∀ i p, m.getD i none = some p → (h2pRoots I).getD i none = some p ∨
    ∃ k f mo pf pm, I.trios[k]? = some (f, mo, i) ∧ m.getD f none = some pf ∧ m.getD mo none = some pm ∧
      p = (sel pf (bitOf t (2 * k)), sel pm (bitOf t (2 * k + 1)))

theorem step_good (I : Inst) (t : Nat) (m : PMap) (x : (Nat × Nat × Nat) × Nat) (hx : I.trios[x.2]? = some x.1)
    (hg : Good I t m) : Good I t (stepFn t m x) := by
  rcases step_cases t m x with e | ⟨hn, pf, pm, hf, hm, e⟩
  · rw [e]; exact hg
  · intro i p hi
    have keep : ∀ j q, m.getD j none = some q → (stepFn t m x).getD j none = some q :=
      fun j q h => step_mono t m x j q h
    rw [e, getD_set] at hi
    by_cases hc : x.1.2.2 = i ∧ x.1.2.2 < m.length
    · rw [if_pos hc] at hi
      right
      refine ⟨x.2, x.1.1, x.1.2.1, pf, pm, ?_, keep _ _ hf, keep _ _ hm, (Option.some.inj hi).symm⟩
      rw [hx, ← hc.1]
    · rw [if_neg hc] at hi
      rcases hg i p hi with h | ⟨k, f, mo, pf', pm', h1, h2, h3, h4⟩
      · exact Or.inl h
      · exact Or.inr ⟨k, f, mo, pf', pm', h1, keep _ _ h2, keep _ _ h3, h4⟩

theorem foldl_good (I : Inst) (t : Nat) : ∀ (l : List ((Nat × Nat × Nat) × Nat)) (m : PMap),
    (∀ x ∈ l, I.trios[x.2]? = some x.1) → Good I t m → Good I t (l.foldl (stepFn t) m) := by
  intro l
  induction l with
  | nil => intro m _ h; exact h
  | cons a l ih =>
    intro m hl hg
    rw [List.foldl_cons]
    exact ih _ (fun x hx => hl x (List.mem_cons_of_mem _ hx)) (step_good I t m a (hl a List.mem_cons_self) hg)

theorem mem_zipIdx_trios (I : Inst) (x : (Nat × Nat × Nat) × Nat) (hx : x ∈ I.trios.zipIdx) :
    I.trios[x.2]? = some x.1 := by
  have := List.mem_zipIdx_iff_getElem?.mp hx
  simpa using this

theorem pass_good (I : Inst) (t : Nat) (m : PMap) (hg : Good I t m) : Good I t (h2pPass I t m) := by
  rw [h2pPass_eq]
  exact foldl_good I t _ m (mem_zipIdx_trios I) hg

theorem pass_mono (I : Inst) (t : Nat) (m : PMap) (i : Nat) (p : Nat × Nat) (h : m.getD i none = some p) :
    (h2pPass I t m).getD i none = some p := by
  rw [h2pPass_eq]; exact foldl_mono t _ m i p h

theorem pass_length (I : Inst) (t : Nat) (m : PMap) : (h2pPass I t m).length = m.length := by
  rw [h2pPass_eq]; exact foldl_length t _ m

theorem iter_succ' {α} (f : α → α) : ∀ (n : Nat) (x : α), iter f (n + 1) x = f (iter f n x) := by
  intro n
  induction n with
  | zero => intro x; rfl
  | succ n ih => intro x; rw [iter, ih (f x)]; rfl

theorem iter_good (I : Inst) (t : Nat) (n : Nat) : Good I t (iter (h2pPass I t) n (h2pRoots I)) := by
  induction n with
  | zero => intro i p h; exact Or.inl h
  | succ n ih => rw [iter_succ']; exact pass_good I t _ ih

theorem iter_length (I : Inst) (t : Nat) (n : Nat) :
    (iter (h2pPass I t) n (h2pRoots I)).length = (h2pRoots I).length := by
  induction n with
  | zero => rfl
  | succ n ih => rw [iter_succ', pass_length, ih]

theorem iter_mono (I : Inst) (t : Nat) (n k : Nat) (i : Nat) (p : Nat × Nat)
    (h : (iter (h2pPass I t) n (h2pRoots I)).getD i none = some p) :
    (iter (h2pPass I t) (n + k) (h2pRoots I)).getD i none = some p := by
  induction k with
  | zero => exact h
  | succ k ih => rw [← Nat.add_assoc, iter_succ']; exact pass_mono I t _ i p ih

/-! ### the roots -/

def rootStep (I : Inst) (acc : PMap × Nat) (i : Nat) : PMap × Nat :=
  if isChild I i then (acc.1 ++ [none], acc.2) else (acc.1 ++ [some (acc.2, acc.2 + 1)], acc.2 + 2)

theorem h2pRoots_eq (I : Inst) : h2pRoots I = ((List.range I.nind).foldl (rootStep I) ([], 0)).1 := rfl

theorem roots_aux (I : Inst) (n : Nat) :
    ((List.range n).foldl (rootStep I) ([], 0)).1.length = n ∧
    ∀ j, j < n →
      (isChild I j = true → ((List.range n).foldl (rootStep I) ([], 0)).1.getD j none = none) ∧
      (isChild I j = false → ∃ p, ((List.range n).foldl (rootStep I) ([], 0)).1.getD j none = some p) := by
  induction n with
  | zero => exact ⟨rfl, fun j hj => absurd hj (Nat.not_lt_zero _)⟩
  | succ n ih =>
    rw [List.range_succ, List.foldl_append, List.foldl_cons, List.foldl_nil]
    generalize (List.range n).foldl (rootStep I) ([], 0) = r at ih
    obtain ⟨hlen, hj⟩ := ih
    have happ : ∀ (v : Option (Nat × Nat)) (j : Nat), (r.1 ++ [v]).getD j none =
        if j < n then r.1.getD j none else if j = n then v else none := by
      intro v j
      simp only [List.getD_eq_getElem?_getD]
      by_cases h1 : j < n
      · rw [if_pos h1, List.getElem?_append_left (by omega)]
      · rw [if_neg h1, List.getElem?_append_right (by omega)]
        by_cases h2 : j = n
        · subst h2; simp [hlen]
        · rw [if_neg h2]
          have : j - r.1.length ≠ 0 := by omega
          cases hh : j - r.1.length with
          | zero => exact absurd hh this
          | succ q => simp
    unfold rootStep
    by_cases hc : isChild I n = true
    · rw [if_pos hc]
      refine ⟨by simp [hlen], fun j hjn => ?_⟩
      rw [happ]
      by_cases h1 : j < n
      · rw [if_pos h1]; exact hj j h1
      · have : j = n := by omega
        subst this
        rw [if_neg h1, if_pos rfl]
        exact ⟨fun _ => rfl, fun h => by rw [hc] at h; cases h⟩
    · rw [if_neg hc]
      refine ⟨by simp [hlen], fun j hjn => ?_⟩
      rw [happ]
      by_cases h1 : j < n
      · rw [if_pos h1]; exact hj j h1
      · have : j = n := by omega
        subst this
        rw [if_neg h1, if_pos rfl]
        exact ⟨fun h => absurd h hc, fun _ => ⟨_, rfl⟩⟩

theorem roots_length (I : Inst) : (h2pRoots I).length = I.nind := by
  rw [h2pRoots_eq]; exact (roots_aux I I.nind).1

theorem roots_child (I : Inst) (i : Nat) (hi : i < I.nind) (h : isChild I i = true) :
    (h2pRoots I).getD i none = none := by
  rw [h2pRoots_eq]; exact ((roots_aux I I.nind).2 i hi).1 h

theorem roots_root (I : Inst) (i : Nat) (hi : i < I.nind) (h : isChild I i = false) :
    ∃ p, (h2pRoots I).getD i none = some p := by
  rw [h2pRoots_eq]; exact ((roots_aux I I.nind).2 i hi).2 h

/-! ### progress -/

theorem step_sets (t : Nat) (m : PMap) (x : (Nat × Nat × Nat) × Nat) (pf pm : Nat × Nat)
    (hf : m.getD x.1.1 none = some pf) (hm : m.getD x.1.2.1 none = some pm) (hl : x.1.2.2 < m.length) :
    ∃ p, (stepFn t m x).getD x.1.2.2 none = some p := by
  cases hc : m.getD x.1.2.2 none with
  | some p => exact ⟨p, step_mono t m x _ p hc⟩
  | none =>
    refine ⟨(sel pf (bitOf t (2 * x.2)), sel pm (bitOf t (2 * x.2 + 1))), ?_⟩
    unfold stepFn
    simp only [hc, hf, hm]
    rw [getD_set, if_pos ⟨rfl, hl⟩]

theorem foldl_sets (t : Nat) (x : (Nat × Nat × Nat) × Nat) : ∀ (l : List ((Nat × Nat × Nat) × Nat)) (m : PMap)
    (pf pm : Nat × Nat), x ∈ l → m.getD x.1.1 none = some pf → m.getD x.1.2.1 none = some pm →
    x.1.2.2 < m.length → ∃ p, (l.foldl (stepFn t) m).getD x.1.2.2 none = some p := by
  intro l
  induction l with
  | nil => intro m pf pm h; cases h
  | cons a l ih =>
    intro m pf pm hx hf hm hl
    rw [List.foldl_cons]
    rcases List.mem_cons.mp hx with rfl | hx'
    · obtain ⟨p, hp⟩ := step_sets t m x pf pm hf hm hl
      exact ⟨p, foldl_mono t l _ _ p hp⟩
    · exact ih _ pf pm hx' (step_mono t m a _ pf hf) (step_mono t m a _ pm hm) (by rw [step_length]; exact hl)

theorem pass_sets (I : Inst) (t : Nat) (m : PMap) (k f mo ch : Nat) (pf pm : Nat × Nat)
    (htr : I.trios[k]? = some (f, mo, ch)) (hf : m.getD f none = some pf) (hm : m.getD mo none = some pm)
    (hl : ch < m.length) : ∃ p, (h2pPass I t m).getD ch none = some p := by
  rw [h2pPass_eq]
  have hx : ((f, mo, ch), k) ∈ I.trios.zipIdx := List.mem_zipIdx_iff_getElem?.mpr (by simpa using htr)
  exact foldl_sets t ((f, mo, ch), k) _ m pf pm hx hf hm hl

theorem isChild_iff (I : Inst) (i : Nat) :
    isChild I i = true ↔ ∃ k f mo : Nat, I.trios[k]? = some (f, mo, i) := by
  unfold isChild
  rw [List.any_eq_true]
  constructor
  · rintro ⟨⟨f, mo, ch⟩, hmem, he⟩
    obtain ⟨k, hk⟩ := List.getElem?_of_mem hmem
    have : ch = i := by simpa using he
    subst this
    exact ⟨k, f, mo, hk⟩
  · rintro ⟨k, f, mo, hk⟩
    exact ⟨(f, mo, i), List.mem_of_getElem? hk, by simp⟩

/-- after `n` passes every individual of generation ≤ `n` is set -/
theorem set_after (I : Inst) (hok : PedOK I) (t : Nat) (gen : Nat → Nat)
    (hgen : ∀ tr ∈ I.trios, gen tr.1 < gen tr.2.2 ∧ gen tr.2.1 < gen tr.2.2) :
    ∀ n i, i < I.nind → gen i ≤ n → ∃ p, (iter (h2pPass I t) n (h2pRoots I)).getD i none = some p := by
  intro n
  induction n with
  | zero =>
    intro i hi hg
    cases hc : isChild I i with
    | false => exact roots_root I i hi hc
    | true =>
      obtain ⟨k, f, mo, hk⟩ := (isChild_iff I i).mp hc
      have := (hgen _ (List.mem_of_getElem? hk)).1
      simp only at this
      omega
  | succ n ih =>
    intro i hi hg
    cases hc : isChild I i with
    | false =>
      obtain ⟨p, hp⟩ := roots_root I i hi hc
      have := iter_mono I t 0 (n + 1) i p hp
      rw [Nat.zero_add] at this
      exact ⟨p, this⟩
    | true =>
      obtain ⟨k, f, mo, hk⟩ := (isChild_iff I i).mp hc
      have hmem := List.mem_of_getElem? hk
      have hg' := hgen _ hmem
      have hm' := hok.members _ hmem
      simp only at hg' hm'
      obtain ⟨pf, hpf⟩ := ih f hm'.1 (by omega)
      obtain ⟨pm, hpm⟩ := ih mo hm'.2.1 (by omega)
      rw [iter_succ']
      exact pass_sets I t _ k f mo i pf pm hk hpf hpm (by rw [iter_length, roots_length]; exact hi)

/-- **structure of the partition map of the C01 model**: under transmission value `t` the child's haplotype 0
lies in the father's partition selected by bit `2k` of `t` (bit value 1 = the father's haplotype 0), its haplotype 1
in the mother's partition selected by bit `2k+1` -/
theorem trio_partitions (I : Inst) (hok : PedOK I) (t k f mo ch : Nat) (htr : I.trios[k]? = some (f, mo, ch)) :
    h2p I t ch 0 = (if bitOf t (2 * k) = 1 then h2p I t f 0 else h2p I t f 1) ∧
    h2p I t ch 1 = (if bitOf t (2 * k + 1) = 1 then h2p I t mo 0 else h2p I t mo 1) := by
  obtain ⟨gen, hgen, hbound⟩ := hok.acyclic
  have hmem := List.mem_of_getElem? htr
  have hch : ch < I.nind := (hok.members _ hmem).2.2
  obtain ⟨pc, hpc⟩ := set_after I hok t gen hgen I.nind ch hch (hbound ch hch)
  have hchild : isChild I ch = true := (isChild_iff I ch).mpr ⟨k, f, mo, htr⟩
  rcases iter_good I t I.nind ch pc hpc with h | ⟨k', f', mo', pf, pm, h1, h2, h3, h4⟩
  · rw [roots_child I ch hch hchild] at h; cases h
  · have hk := hok.oneTrio k k' f mo f' mo' ch htr h1
    subst hk
    rw [htr] at h1
    simp only [Option.some.injEq, Prod.mk.injEq, and_true] at h1
    obtain ⟨rfl, rfl⟩ := h1
    unfold h2p h2pOf h2pMap
    rw [hpc, h2, h3, h4]
    simp [sel]

end WhVerif.C05.Solver

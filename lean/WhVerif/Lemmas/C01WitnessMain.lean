import WhVerif.Lemmas.C01WitnessPath
/-!
# C01, witness: the bipartition and transmission vector returned by `witness` achieve `dpCost`. Core Lean only.
-/
set_option linter.unusedSimpArgs false
set_option linter.unusedVariables false
namespace WhVerif.C01
open WhVerif.Cost

/-! ### list lemmas about `lookup` in zipped lists -/

theorem lookup_filter_zip {β} (l : List Nat) (bs : List β) (P : Nat → Bool) (r : Nat) (hP : P r = true) :
    ((l.filter P).zip ((l.zip bs).filterMap (fun rb => if P rb.1 then some rb.2 else none))).lookup r
      = (l.zip bs).lookup r := by
  induction l generalizing bs with
  | nil => simp
  | cons a l ih =>
    cases bs with
    | nil => simp
    | cons b bs =>
      by_cases hPa : P a = true
      · simp only [List.filter_cons, hPa, if_true, List.zip_cons_cons, List.filterMap_cons, List.lookup_cons]
        rw [ih bs]
      · have hra : (r == a) = false := by
          simp only [beq_eq_false_iff_ne]
          rintro rfl; exact hPa hP
        simp only [List.filter_cons, hPa, List.zip_cons_cons, List.filterMap_cons, List.lookup_cons, hra]
        simpa using ih bs

theorem lookup_take_zip {β} (l : List Nat) (bs : List β) (n r : Nat) (hr : r ∈ l.take n) :
    ((l.take n).zip (bs.take n)).lookup r = (l.zip bs).lookup r := by
  induction l generalizing bs n with
  | nil => simp at hr
  | cons a l ih =>
    cases n with
    | zero => simp at hr
    | succ n =>
      cases bs with
      | nil => simp
      | cons b bs =>
        simp only [List.take_succ_cons, List.zip_cons_cons, List.lookup_cons]
        by_cases hra : (r == a) = true
        · simp [hra]
        · have hra' : (r == a) = false := by simpa using hra
          rw [hra']
          simp only [List.take_succ_cons, List.mem_cons] at hr
          rcases hr with rfl | hr
          · simp at hra
          · exact ih bs n hr

theorem getD_map_snd (path : List (Nat × Nat)) (n : Nat) :
    (path.map (·.2)).getD n 0 = (path.getD n (0, 0)).2 := by
  simp only [List.getD_eq_getElem?_getD, List.getElem?_map]
  cases path[n]? <;> rfl

/-! ### a read's bit is the same in every column of the path where the read is active -/

theorem bit_step (I : Inst) (h : WF I) (c idx idx' : Nat)
    (hidx' : idx' < 2 ^ (I.activeAt (c + 1)).length)
    (hchain : idx' % 2 ^ (I.sharedAt c).length = natOfBits (fwdBits I c (bitsOf (I.activeAt c).length idx)))
    (r : Nat) (hr : r ∈ I.sharedAt c) :
    bitInCol I (c + 1) idx' r = bitInCol I c idx r := by
  have htake : (bitsOf (I.activeAt (c + 1)).length idx').take (I.sharedAt c).length
      = fwdBits I c (bitsOf (I.activeAt c).length idx) := by
    apply natOfBits_inj
    · rw [fwdBits_length I c _ (bitsOf_length _ _), List.length_take, bitsOf_length]
      exact Nat.min_eq_left (shared_le_active I h c)
    · rw [natOfBits_take, natOfBits_bitsOf _ _ hidx', hchain]
  unfold bitInCol
  rw [← lookup_take_zip (I.activeAt (c + 1)) (bitsOf (I.activeAt (c + 1)).length idx') (I.sharedAt c).length r
    (by rw [shared_prefix I h c]; exact hr)]
  rw [shared_prefix I h c, htake]
  have hP : decide (c + 1 ≤ (I.read r).last) = true := by
    simpa using ((mem_sharedAt I c r).mp hr).2.2
  have := lookup_filter_zip (I.activeAt c) (bitsOf (I.activeAt c).length idx)
    (fun r => decide (c + 1 ≤ (I.read r).last)) r hP
  unfold fwdBits Inst.sharedAt
  simp only [decide_eq_true_eq] at this
  rw [this]

theorem bit_const (I : Inst) (h : WF I) (n : Nat) (path : List (Nat × Nat)) (hok : PathOk I n path) (r d : Nat) :
    (I.read r).first + d ≤ n → r ∈ I.activeAt ((I.read r).first + d) →
    bitInCol I ((I.read r).first + d) (path.getD ((I.read r).first + d) (0, 0)).1 r
      = bitInCol I (I.read r).first (path.getD (I.read r).first (0, 0)).1 r := by
  induction d with
  | zero => intro _ _; rfl
  | succ d ih =>
    intro hle hact
    have ha : r < I.nreads ∧ (I.read r).first ≤ (I.read r).first + (d + 1) ∧
        (I.read r).first + (d + 1) ≤ (I.read r).last := (mem_activeAt I _ r).mp hact
    have hact' : r ∈ I.activeAt ((I.read r).first + d) :=
      (mem_activeAt I _ r).mpr ⟨ha.1, by omega, by omega⟩
    have hsh : r ∈ I.sharedAt ((I.read r).first + d) :=
      (mem_sharedAt I _ r).mpr ⟨ha.1, by omega, by omega⟩
    rw [← ih (by omega) hact']
    exact bit_step I h ((I.read r).first + d) _ _ (hok.bnd ((I.read r).first + (d + 1)) hle).1
      (hok.chain ((I.read r).first + d) (by omega)) r hsh

/-- the bipartition read off a path -/
def betaOf (I : Inst) (path : List (Nat × Nat)) : List Bool :=
  (List.range I.nreads).map (fun r => bitInCol I (I.read r).first (path.getD (I.read r).first (0, 0)).1 r)

theorem restrict_betaOf (I : Inst) (h : WF I) (n : Nat) (path : List (Nat × Nat)) (hok : PathOk I n path)
    (c : Nat) (hc : c ≤ n) :
    restrict (betaOf I path) (I.activeAt c) = bitsOf (I.activeAt c).length (path.getD c (0, 0)).1 := by
  have hmap := map_lookup_zip (I.activeAt c) (bitsOf (I.activeAt c).length (path.getD c (0, 0)).1)
    (activeAt_nodup I c) (bitsOf_length _ _)
  rw [← hmap]
  unfold restrict
  apply List.map_congr_left
  intro r hr
  have ha := (mem_activeAt I c r).mp hr
  unfold betaOf
  rw [getD_map_range, if_pos ha.1]
  have hcd : c = (I.read r).first + (c - (I.read r).first) := by omega
  have := bit_const I h n path hok r (c - (I.read r).first) (by omega) (by rw [← hcd]; exact hr)
  rw [← hcd] at this
  rw [← this]
  rfl

theorem vw_path (I : Inst) (h : WF I) (n : Nat) (path : List (Nat × Nat)) (hok : PathOk I n path)
    (c : Nat) (hc : c ≤ n) :
    vw I c (betaOf I path, path.map (·.2)) = pview I path c := by
  unfold vw pview
  simp only [restrict_betaOf I h n path hok c hc, getD_map_snd]

theorem costUpTo_path (I : Inst) (h : WF I) (n : Nat) (path : List (Nat × Nat)) (hok : PathOk I n path)
    (c : Nat) (hc : c ≤ n) :
    costUpTo I (betaOf I path) (path.map (·.2)) c = pathCost I path c := by
  have hcol : ∀ c, c ≤ n → colTotal I (betaOf I path) (path.map (·.2)) c = gc I c (pview I path c) := by
    intro c hc
    rw [← vw_path I h n path hok c hc]
    rfl
  induction c with
  | zero => simp only [costUpTo, pathCost, hcol 0 hc]
  | succ c ih => simp only [costUpTo, pathCost, hcol (c + 1) hc, ih (by omega)]

/-! ### the witness -/

theorem witness_eq (I : Inst) : witness I = (witnessPath I).map (fun path => (betaOf I path, path.map (·.2))) := rfl

theorem witnessPath_eq (I : Inst) (h0 : I.ncols ≠ 0) :
    witnessPath I =
      match argminOver (pairs (2 ^ (I.activeAt (I.ncols - 1)).length) I.ntrans)
          (fun it => dpCell I (I.ncols - 1) (prevOf I (I.ncols - 1)) it.1 it.2) with
      | none => none
      | some start => backtrace I (I.ncols - 1) (tabsFor I (I.ncols - 1)) start.1 start.2 := by
  unfold witnessPath
  rw [if_neg h0]
  simp only
  rw [← tabsFor_head]
  rfl

/-- for a non-empty instance: the path returned by `witnessPath` is a consistent path of cost `dpCost` -/
theorem witnessPath_spec (I : Inst) (h0 : I.ncols ≠ 0) (path : List (Nat × Nat)) (hw : witnessPath I = some path) :
    PathOk I (I.ncols - 1) path ∧ pathCost I path (I.ncols - 1) = dpCost I := by
  rw [witnessPath_eq I h0] at hw
  split at hw
  · cases hw
  · next start hs =>
    obtain ⟨hmem, hval, hne⟩ := argminOver_some _ _ _ hs
    rw [← dpCost_eq I h0] at hval hne
    obtain ⟨i, t⟩ := start
    rw [mem_pairs] at hmem
    cases hv : dpCost I with
    | none => exact absurd hv hne
    | some v =>
      rw [hv] at hval
      obtain ⟨p, hbt, hok, _, hcost⟩ := bt_spec I (I.ncols - 1) i t v hmem.1 hmem.2 hval
      simp only at hw
      rw [hbt] at hw
      cases hw
      exact ⟨hok, hcost⟩

theorem witnessPath_none_iff (I : Inst) (h0 : I.ncols ≠ 0) : witnessPath I = none ↔ dpCost I = none := by
  rw [witnessPath_eq I h0, dpCost_eq I h0]
  constructor
  · intro hw
    split at hw
    · next hs => exact (argminOver_none _ _).mp hs
    · next start hs =>
      exfalso
      obtain ⟨hmem, hval, hne⟩ := argminOver_some _ _ _ hs
      obtain ⟨i, t⟩ := start
      rw [mem_pairs] at hmem
      cases hv : minOver (pairs (2 ^ (I.activeAt (I.ncols - 1)).length) I.ntrans)
          (fun it => dpCell I (I.ncols - 1) (prevOf I (I.ncols - 1)) it.1 it.2) with
      | none => exact hne hv
      | some v =>
        rw [hv] at hval
        obtain ⟨p, hbt, _⟩ := bt_spec I (I.ncols - 1) i t v hmem.1 hmem.2 hval
        simp only at hw
        rw [hbt] at hw
        cases hw
  · intro hd
    rw [(argminOver_none _ _).mpr hd]

/-- **The witness achieves the reported optimum.**  For every instance with sorted reads: the bipartition `β` of
all reads and the transmission vector `τ` returned by the backtrace are well-formed and their (Ped)MEC cost
is exactly the DP value. -/
theorem dp_witness (I : Inst) (h : WF I) (β : List Bool) (τ : List Nat) (hw : witness I = some (β, τ)) :
    β.length = I.nreads ∧ τ.length = I.ncols ∧ (∀ t ∈ τ, t < I.ntrans) ∧ totalCost I β τ = dpCost I := by
  rw [witness_eq] at hw
  obtain ⟨path, hpath, heq⟩ := Option.map_eq_some_iff.mp hw
  simp only [Prod.mk.injEq] at heq
  obtain ⟨rfl, rfl⟩ := heq
  refine ⟨by simp [betaOf], ?_⟩
  by_cases h0 : I.ncols = 0
  · have : path = [] := by
      unfold witnessPath at hpath
      rw [if_pos h0] at hpath
      cases hpath; rfl
    subst this
    refine ⟨by simp [h0], by simp, ?_⟩
    simp [totalCost, dpCost, h0]
  · obtain ⟨hok, hcost⟩ := witnessPath_spec I h0 path hpath
    refine ⟨by rw [List.length_map, hok.len]; omega, ?_, ?_⟩
    · intro t ht
      obtain ⟨x, hx, rfl⟩ := List.mem_map.mp ht
      obtain ⟨k, hk, rfl⟩ := List.getElem_of_mem hx
      have := (hok.bnd k (by rw [hok.len] at hk; omega)).2
      simpa [List.getD_eq_getElem?_getD, hk] using this
    · unfold totalCost
      rw [if_neg h0, costUpTo_path I h _ path hok _ (Nat.le_refl _), hcost]

/-- the backtrace fails exactly when the DP reports infeasibility (the "Mendelian conflict" exception) -/
theorem witness_none_iff (I : Inst) : witness I = none ↔ dpCost I = none := by
  rw [witness_eq, Option.map_eq_none_iff]
  by_cases h0 : I.ncols = 0
  · simp [witnessPath, dpCost, h0]
  · exact witnessPath_none_iff I h0

/-- feasible instances have a witness -/
theorem witness_exists (I : Inst) (v : Nat) (hv : dpCost I = some v) : ∃ β τ, witness I = some (β, τ) := by
  cases hw : witness I with
  | none => rw [(witness_none_iff I).mp hw] at hv; cases hv
  | some x => exact ⟨x.1, x.2, rfl⟩

end WhVerif.C01

import WhVerif.Lemmas.C07CompleteSim
/-!
# C07 completeness, part D: replay.  The trace recorded with an enumerated state, fed back as the list of
tie choices, drives the deterministic model into exactly that state; hence `allOutcomes` (which re-runs
`readselection` on the traces) contains the outcome of every enumerated final state.
-/
namespace WhVerif.C07
open List

def SliceSt.withCh (s : SliceSt) (c : List Nat) : SliceSt := { s with choices := c }
def BridgeSt.withCh (s : BridgeSt) (c : List Nat) : BridgeSt := { s with choices := c }
def HSt.withCh (s : HSt) (c : List Nat) : HSt := { s with choices := c }

theorem sliceStep_withCh (reads : List Read) (P : List Nat) (k : Nat) (st : SliceSt) (e : Entry) (c : List Nat) :
    sliceStep reads P k (st.withCh c) e = (sliceStep reads P k st e).withCh c := by
  unfold sliceStep SliceSt.withCh
  simp only
  split
  · rfl
  · split <;> rfl

theorem sliceStep_trace (reads : List Read) (P : List Nat) (k : Nat) (st : SliceSt) (e : Entry) :
    (sliceStep reads P k st e).trace = st.trace := by
  unfold sliceStep
  simp only
  split
  · rfl
  · split <;> rfl

theorem bridgeStep_withCh (reads : List Read) (P : List Nat) (k : Nat) (st : BridgeSt) (e : Entry) (c : List Nat) :
    bridgeStep reads P k (st.withCh c) e = (bridgeStep reads P k st e).withCh c := by
  unfold bridgeStep BridgeSt.withCh
  simp only
  split
  · rfl
  · split <;> rfl

theorem bridgeStep_trace (reads : List Read) (P : List Nat) (k : Nat) (st : BridgeSt) (e : Entry) :
    (bridgeStep reads P k st e).trace = st.trace := by
  unfold bridgeStep
  simp only
  split
  · rfl
  · split <;> rfl

theorem sliceAll_replay (reads : List Read) (P : List Nat) (k : Nat) :
    ∀ n (L : List SliceSt) (e' : SliceSt), e' ∈ sliceAll reads P k n L →
      ∃ e ∈ L, ∃ t, e'.trace = t.reverse ++ e.trace ∧
        ∀ rest, sliceLoop reads P k n (e.withCh (t ++ rest)) = e'.withCh rest := by
  intro n
  induction n with
  | zero => intro L e' h; exact ⟨e', h, [], by simp, fun rest => rfl⟩
  | succ n ih =>
    intro L e' h
    rw [sliceAll_succ] at h
    obtain ⟨e1, he1, t1, htr, hrun⟩ := ih _ e' h
    obtain ⟨e, heL, hsucc⟩ := List.mem_flatMap.mp (mem_of_mem_dedupBy _ he1)
    rcases mem_sliceSucc.mp hsucc with ⟨hnil, rfl⟩ | ⟨ci, ent, pq', hm, rfl⟩
    · refine ⟨e1, heL, t1, htr, fun rest => ?_⟩
      have h1 : (e1.withCh (t1 ++ rest)).pq = [] := hnil
      have := hrun rest
      rw [sliceLoop_nil _ _ _ _ h1] at this ⊢
      exact this
    · refine ⟨e, heL, ci :: t1, ?_, fun rest => ?_⟩
      · rw [htr, sliceStep_trace]; simp
      · have hpop : popChoice (e.withCh (ci :: t1 ++ rest)).pq ((e.withCh (ci :: t1 ++ rest)).choices.headD 0)
            = some (ci, ent, pq') := popChoice_of_mem_popAll hm
        unfold sliceLoop
        rw [hpop]
        simp only
        show sliceLoop reads P k n (sliceStep reads P k
          (({ e with pq := pq', trace := ci :: e.trace } : SliceSt).withCh (t1 ++ rest)) ent) = _
        rw [sliceStep_withCh]
        exact hrun rest

theorem bridgeAll_replay (reads : List Read) (P : List Nat) (k : Nat) :
    ∀ n (L : List BridgeSt) (e' : BridgeSt), e' ∈ bridgeAll reads P k n L →
      ∃ e ∈ L, ∃ t, e'.trace = t.reverse ++ e.trace ∧
        ∀ rest, bridgeLoop reads P k n (e.withCh (t ++ rest)) = e'.withCh rest := by
  intro n
  induction n with
  | zero => intro L e' h; exact ⟨e', h, [], by simp, fun rest => rfl⟩
  | succ n ih =>
    intro L e' h
    rw [bridgeAll_succ] at h
    obtain ⟨e1, he1, t1, htr, hrun⟩ := ih _ e' h
    obtain ⟨e, heL, hsucc⟩ := List.mem_flatMap.mp (mem_of_mem_dedupBy _ he1)
    rcases mem_bridgeSucc.mp hsucc with ⟨hnil, rfl⟩ | ⟨ci, ent, pq', hm, rfl⟩
    · refine ⟨e1, heL, t1, htr, fun rest => ?_⟩
      have h1 : (e1.withCh (t1 ++ rest)).pq = [] := hnil
      have := hrun rest
      rw [bridgeLoop_nil _ _ _ _ h1] at this ⊢
      exact this
    · refine ⟨e, heL, ci :: t1, ?_, fun rest => ?_⟩
      · rw [htr, bridgeStep_trace]; simp
      · have hpop : popChoice (e.withCh (ci :: t1 ++ rest)).pq ((e.withCh (ci :: t1 ++ rest)).choices.headD 0)
            = some (ci, ent, pq') := popChoice_of_mem_popAll hm
        unfold bridgeLoop
        rw [hpop]
        simp only
        show bridgeLoop reads P k n (bridgeStep reads P k
          (({ e with pq := pq', trace := ci :: e.trace } : BridgeSt).withCh (t1 ++ rest)) ent) = _
        rw [bridgeStep_withCh]
        exact hrun rest

theorem helperIterAll_replay (reads : List Read) (P : List Nat) (k : Nat) (br : Bool) (st e' : HSt)
    (h : e' ∈ helperIterAll reads P k br st) :
    ∃ t, e'.trace = t.reverse ++ st.trace ∧
      ∀ rest, helperIter reads P k br (st.withCh (t ++ rest)) = e'.withCh rest := by
  unfold helperIterAll at h
  simp only at h
  cases br with
  | false =>
    simp only [Bool.false_eq_true, if_false] at h
    obtain ⟨b0, hb0, rfl⟩ := List.mem_map.mp h
    obtain ⟨se, hse, rfl⟩ := List.mem_map.mp hb0
    obtain ⟨s0, hs0, t, htr, hrun⟩ := sliceAll_replay reads P k _ _ se hse
    rw [List.mem_singleton.mp hs0] at htr hrun
    refine ⟨t, htr, fun rest => ?_⟩
    unfold helperIter
    simp only [Bool.false_eq_true, if_false]
    have h1 : sliceInit reads P (st.withCh (t ++ rest)) = (sliceInit reads P st).withCh (t ++ rest) := rfl
    rw [h1]
    have h2 : ((sliceInit reads P st).withCh (t ++ rest)).pq.length = (sliceInit reads P st).pq.length := rfl
    rw [h2, hrun rest]
    rfl
  | true =>
    simp only [if_true] at h
    obtain ⟨b', hb', rfl⟩ := List.mem_map.mp h
    obtain ⟨b0, hb0, t2, htr2, hrun2⟩ := bridgeAll_replay reads P k _ _ b' hb'
    obtain ⟨se, hse, rfl⟩ := List.mem_map.mp (mem_of_mem_dedupBy _ hb0)
    obtain ⟨s0, hs0, t1, htr1, hrun1⟩ := sliceAll_replay reads P k _ _ se hse
    rw [List.mem_singleton.mp hs0] at htr1 hrun1
    refine ⟨t1 ++ t2, ?_, fun rest => ?_⟩
    · show b'.trace = _
      rw [htr2]
      show t2.reverse ++ se.trace = _
      rw [htr1]
      show t2.reverse ++ (t1.reverse ++ st.trace) = (t1 ++ t2).reverse ++ st.trace
      simp
    · unfold helperIter
      simp only [if_true]
      have h1 : sliceInit reads P (st.withCh (t1 ++ t2 ++ rest)) = (sliceInit reads P st).withCh (t1 ++ (t2 ++ rest)) := by
        rw [List.append_assoc]; rfl
      rw [h1]
      have h2 : ((sliceInit reads P st).withCh (t1 ++ (t2 ++ rest))).pq.length = (sliceInit reads P st).pq.length := rfl
      rw [h2, hrun1 (t2 ++ rest)]
      have h3 : bridgeInit reads P (st.withCh (t1 ++ t2 ++ rest)) (se.withCh (t2 ++ rest)) =
          (bridgeInit reads P st se).withCh (t2 ++ rest) := rfl
      rw [h3]
      have hlen : ((bridgeInit reads P st se).withCh (t2 ++ rest)).pq.length ≤ st.undecided.length :=
        bridgeInit_pq_length_le reads P st se
      rw [← bridgeLoop_fuel reads P k _ _ hlen, hrun2 rest]
      rfl

theorem helperLoop_empty (reads : List Read) (P : List Nat) (k : Nat) (br : Bool) (n : Nat) {st : HSt}
    (h : st.undecided.isEmpty = true) : helperLoop reads P k br n st = st := by
  cases n with
  | zero => rfl
  | succ n => unfold helperLoop; rw [if_pos h]

theorem helperAll_replay (reads : List Read) (P : List Nat) (k : Nat) (br : Bool) :
    ∀ n (L : List HSt) (e' : HSt), e' ∈ helperAll reads P k br n L →
      ∃ e ∈ L, ∃ t, e'.trace = t.reverse ++ e.trace ∧
        ∀ rest, helperLoop reads P k br n (e.withCh (t ++ rest)) = e'.withCh rest := by
  intro n
  induction n with
  | zero => intro L e' h; exact ⟨e', h, [], by simp, fun rest => rfl⟩
  | succ n ih =>
    intro L e' h
    rw [helperAll_succ] at h
    obtain ⟨e1, he1, t1, htr, hrun⟩ := ih _ e' h
    obtain ⟨e, heL, hsucc⟩ := List.mem_flatMap.mp (mem_of_mem_dedupBy _ he1)
    unfold helperSucc at hsucc
    by_cases hemp : e.undecided.isEmpty = true
    · rw [if_pos hemp] at hsucc
      rw [List.mem_singleton.mp hsucc] at htr hrun
      refine ⟨e, heL, t1, htr, fun rest => ?_⟩
      have h1 : (e.withCh (t1 ++ rest)).undecided.isEmpty = true := hemp
      have := hrun rest
      rw [helperLoop_empty _ _ _ _ _ h1] at this ⊢
      exact this
    · rw [if_neg hemp] at hsucc
      obtain ⟨t0, htr0, hrun0⟩ := helperIterAll_replay reads P k br e e1 hsucc
      refine ⟨e, heL, t0 ++ t1, ?_, fun rest => ?_⟩
      · rw [htr, htr0]; simp
      · have h1 : ¬ (e.withCh (t0 ++ t1 ++ rest)).undecided.isEmpty = true := hemp
        unfold helperLoop
        rw [if_neg h1, List.append_assoc, hrun0 (t1 ++ rest)]
        exact hrun rest

/-- replaying the trace of an enumerated final state reaches that state -/
theorem exploreStates_replay (fixed : Bool) (reads : List Read) (k : Nat) (br : Bool) (e : HSt)
    (h : e ∈ exploreStates fixed reads k br) :
    (phases fixed reads k br e.trace.reverse).2 = e.withCh [] := by
  unfold exploreStates at h
  simp only at h
  obtain ⟨e1', he1', t2, htr2, hrun2⟩ := helperAll_replay reads _ k br _ _ e h
  obtain ⟨e1, he1, rfl⟩ := List.mem_map.mp he1'
  have hrun2' := hrun2 []
  rw [List.append_nil] at hrun2'
  by_cases hp : (preferredIdx reads).isEmpty = true
  · rw [if_pos hp, List.mem_singleton] at he1
    subst he1
    have hcs : e.trace.reverse = t2 := by rw [htr2]; simp
    rw [hcs, ← hrun2']
    unfold phases helper
    simp only [hp, if_true]
    rfl
  · rw [if_neg hp] at he1
    obtain ⟨e0, he0, t1, htr1, hrun1⟩ := helperAll_replay reads _ k br _ _ e1 he1
    rw [List.mem_singleton.mp he0] at htr1 hrun1
    have hcs : e.trace.reverse = t1 ++ t2 := by
      rw [htr2]
      show (t2.reverse ++ e1.trace).reverse = _
      rw [htr1]; simp
    rw [hcs, ← hrun2']
    unfold phases helper
    simp only [hp, Bool.false_eq_true, if_false]
    have := hrun1 t2
    simp only [HSt.withCh] at this ⊢
    rw [this]

theorem readselection_canon_eq (fixed : Bool) (reads : List Read) (k : Nat) (br : Bool) (cs cs' : List Nat)
    (h : (phases fixed reads k br cs).2.selected ~ (phases fixed reads k br cs').2.selected) :
    (readselection fixed reads k br cs).canon = (readselection fixed reads k br cs').canon := by
  unfold readselection
  split
  · rfl
  · rename_i h2
    split
    · rfl
    · have h2' : ∀ r ∈ reads, 2 ≤ r.pos.length := by
        intro r hr
        simp only [List.any_eq_true, decide_eq_true_eq, not_exists, not_and, Nat.not_lt] at h2
        exact h2 r hr
      have ht := phases_terminate fixed reads k br cs h2'
      have ht' := phases_terminate fixed reads k br cs' h2'
      simp only [ht.1, ht.2, ht'.1, ht'.2, List.isEmpty_nil, Bool.not_true, Bool.or_self, Bool.false_eq_true,
        if_false, Outcome.canon]
      rw [sortNat_eq_of_perm h]

theorem mem_dedupOutcomes {l : List Outcome} {x : Outcome} (h : x ∈ l) : x ∈ dedupOutcomes l := by
  induction l with
  | nil => cases h
  | cons a as ih =>
    simp only [dedupOutcomes, List.foldr_cons]
    rcases List.mem_cons.mp h with rfl | h
    · split
      · rename_i hc; simpa using hc
      · exact List.mem_cons_self
    · split
      · exact ih h
      · exact List.mem_cons_of_mem _ (ih h)

end WhVerif.C07

import WhVerif.Lemmas.C06AffineRev
/-!
The prefix / suffix shortcut of `edit_distance_affine_gap` is sound when extending a gap is not dearer than starting one
(`ge ≤ gs`): equal end bases can be aligned to each other without loss.  Proved on the recurrences (`Tg`, the tables for
arbitrary alphabets and mismatch function, so that the `b`/`c` symmetry can be used), transferred to the front of the
strings by the reversal symmetry of the cost.
-/
namespace WhVerif.C06

/-! ## order on costs (`none` = ∞) -/

def cle (a b : Cost) : Prop := ∀ t, b = some t → ∃ s, a = some s ∧ s ≤ t

theorem cle_refl (a : Cost) : cle a a := fun t h => ⟨t, h, Nat.le_refl _⟩
theorem cle_none (a : Cost) : cle a none := fun t h => by cases h
theorem cle_trans {a b c : Cost} (h1 : cle a b) (h2 : cle b c) : cle a c := by
  intro t ht
  obtain ⟨s, hs, hle⟩ := h2 t ht
  obtain ⟨s', hs', hle'⟩ := h1 s hs
  exact ⟨s', hs', Nat.le_trans hle' hle⟩

theorem cle_cadd_mono {a b : Cost} (k : Nat) (h : cle a b) : cle (cadd a k) (cadd b k) := by
  intro t ht
  obtain ⟨s, hs, rfl⟩ := cadd_eq_some ht
  obtain ⟨s', hs', hle⟩ := h s hs
  exact ⟨s' + k, by rw [hs']; rfl, by omega⟩

theorem cle_cadd_le (a : Cost) {k k' : Nat} (h : k ≤ k') : cle (cadd a k) (cadd a k') := by
  intro t ht
  obtain ⟨s, hs, rfl⟩ := cadd_eq_some ht
  exact ⟨s + k, by rw [hs]; rfl, by omega⟩

theorem cle_self_cadd (a : Cost) (k : Nat) : cle a (cadd a k) := by
  intro t ht
  obtain ⟨s, hs, rfl⟩ := cadd_eq_some ht
  exact ⟨s, hs, by omega⟩

theorem cadd_cadd (a : Cost) (k l : Nat) : cadd (cadd a k) l = cadd a (k + l) := by
  cases a <;> simp [Nat.add_assoc]

theorem cadd_zero (a : Cost) : cadd a 0 = a := by cases a <;> simp

theorem cle_cmin3_1 (a b c : Cost) : cle (cmin3 a b c) a := fun _ h => cmin3_le_1 b c h
theorem cle_cmin3_2 (a b c : Cost) : cle (cmin3 a b c) b := fun _ h => cmin3_le_2 a c h
theorem cle_cmin3_3 (a b c : Cost) : cle (cmin3 a b c) c := fun _ h => cmin3_le_3 a b h

theorem cle_cmin3_of {x a b c : Cost} (h1 : cle x a) (h2 : cle x b) (h3 : cle x c) : cle x (cmin3 a b c) := by
  intro t ht
  rcases cmin3_some ht with h | h | h
  · exact h1 t h
  · exact h2 t h
  · exact h3 t h

theorem cadd_cmin (a b : Cost) (k : Nat) : cadd (cmin a b) k = cmin (cadd a k) (cadd b k) := by
  cases a <;> cases b <;> simp

theorem cadd_cmin3 (a b c : Cost) (k : Nat) : cadd (cmin3 a b c) k = cmin3 (cadd a k) (cadd b k) (cadd c k) := by
  simp [cmin3, cadd_cmin]

theorem cmin_comm (a b : Cost) : cmin a b = cmin b a := by
  cases a <;> cases b <;> simp
  exact Nat.min_comm _ _

theorem cmin3_swap23 (a b c : Cost) : cmin3 a b c = cmin3 a c b := by
  simp [cmin3, cmin_comm b c]

theorem cmin3_eq_of_cle {m : Nat} {b c : Cost} (hb : cle (some m) b) (hc : cle (some m) c) : cmin3 (some m) b c = some m := by
  have h1 : ∀ x : Cost, cle (some m) x → cmin (some m) x = some m := by
    intro x hx
    cases x with
    | none => simp
    | some y =>
      obtain ⟨s, hs, hle⟩ := hx y rfl
      cases hs
      simp only [cmin_some_some, Option.some.injEq]
      exact Nat.min_eq_left hle
  unfold cmin3
  have h2 : cle (some m) (cmin b c) := by
    intro t ht
    rcases cmin_some ht with ⟨h, _⟩ | ⟨h, _⟩
    · exact hb t h
    · exact hc t h
  exact h1 _ h2

/-! ## the tables for arbitrary alphabets -/

variable {α β : Type}

def Tg (gs ge : Nat) (mc : α → β → Nat) : List α → List β → Cell
  | [], [] => ⟨some 0, some 0, some 0⟩
  | _ :: u, [] => ⟨none, some (gapCost gs ge (u.length + 1)), none⟩
  | [], _ :: v => ⟨none, none, some (gapCost gs ge (v.length + 1))⟩
  | x :: u, y :: v =>
    ⟨cadd (Tg gs ge mc u v).best (mc x y),
     cmin3 (cadd (Tg gs ge mc u (y :: v)).a gs) (cadd (Tg gs ge mc u (y :: v)).b ge) (cadd (Tg gs ge mc u (y :: v)).c gs),
     cmin3 (cadd (Tg gs ge mc (x :: u) v).a gs) (cadd (Tg gs ge mc (x :: u) v).b gs) (cadd (Tg gs ge mc (x :: u) v).c ge)⟩
termination_by u v => u.length + v.length

theorem Tg_nil_nil (gs ge : Nat) (mc : α → β → Nat) : Tg gs ge mc [] [] = ⟨some 0, some 0, some 0⟩ := by rw [Tg]
theorem Tg_cons_nil (gs ge : Nat) (mc : α → β → Nat) (x : α) (u : List α) :
    Tg gs ge mc (x :: u) [] = ⟨none, some (gapCost gs ge (u.length + 1)), none⟩ := by rw [Tg]
theorem Tg_nil_cons (gs ge : Nat) (mc : α → β → Nat) (y : β) (v : List β) :
    Tg gs ge mc [] (y :: v) = ⟨none, none, some (gapCost gs ge (v.length + 1))⟩ := by rw [Tg]
theorem Tg_cons_cons (gs ge : Nat) (mc : α → β → Nat) (x : α) (u : List α) (y : β) (v : List β) :
    Tg gs ge mc (x :: u) (y :: v) =
      ⟨cadd (Tg gs ge mc u v).best (mc x y),
       cmin3 (cadd (Tg gs ge mc u (y :: v)).a gs) (cadd (Tg gs ge mc u (y :: v)).b ge) (cadd (Tg gs ge mc u (y :: v)).c gs),
       cmin3 (cadd (Tg gs ge mc (x :: u) v).a gs) (cadd (Tg gs ge mc (x :: u) v).b gs) (cadd (Tg gs ge mc (x :: u) v).c ge)⟩ := by
  rw [Tg]

theorem T_eq_Tg (gs ge : Nat) (u : QSeq) (v : List Char) :
    T gs ge u v = Tg gs ge (fun (x : Char × Nat) (y : Char) => if x.1 == y then 0 else x.2) u v := by
  fun_induction T gs ge u v with
  | case1 => rw [Tg]
  | case2 x u => rw [Tg]
  | case3 y v => rw [Tg]
  | case4 x u y v ih1 ih2 ih3 => rw [Tg, ih1, ih2, ih3]

def Cell.swap (x : Cell) : Cell := ⟨x.a, x.c, x.b⟩

theorem best_swap (x : Cell) : x.swap.best = x.best := by
  simp [Cell.swap, Cell.best, cmin3_swap23]

/-- exchanging the two sequences exchanges the tables `b` and `c` -/
theorem Tg_swap (gs ge : Nat) (mc : α → β → Nat) (u : List α) (v : List β) :
    Tg gs ge (fun y x => mc x y) v u = (Tg gs ge mc u v).swap := by
  fun_induction Tg gs ge mc u v with
  | case1 => rw [Tg]; rfl
  | case2 x u => rw [Tg]; rfl
  | case3 y v => rw [Tg]; rfl
  | case4 x u y v ih1 ih2 ih3 =>
    rw [Tg, ih1, ih2, ih3, best_swap]
    simp only [Cell.swap]
    rw [cmin3_swap23 (cadd (Tg gs ge mc (x :: u) v).a gs), cmin3_swap23 (cadd (Tg gs ge mc u (y :: v)).a gs)]

section
variable (gs ge : Nat) (mc : α → β → Nat)

theorem best_cle_a (x : Cell) : cle x.best x.a := cle_cmin3_1 _ _ _
theorem best_cle_b (x : Cell) : cle x.best x.b := cle_cmin3_2 _ _ _
theorem best_cle_c (x : Cell) : cle x.best x.c := cle_cmin3_3 _ _ _

/-- `B(x::u, v) ≤ best(u, v) + gs` -/
theorem Tg_b_le_best (hge : ge ≤ gs) (x : α) (u : List α) (v : List β) :
    cle (Tg gs ge mc (x :: u) v).b (cadd (Tg gs ge mc u v).best gs) := by
  cases v with
  | nil =>
    rw [Tg]
    cases u with
    | nil => rw [Tg]; intro t ht; simp [Cell.best, cmin3] at ht; exact ⟨_, rfl, by simp; omega⟩
    | cons x' u' =>
      rw [Tg]; intro t ht
      simp [Cell.best, cmin3] at ht
      refine ⟨_, rfl, ?_⟩
      rw [List.length_cons, gapCost_succ _ _ _ (by omega)]; omega
  | cons y v' =>
    rw [Tg]
    simp only [Cell.best, cadd_cmin3]
    exact cle_cmin3_of (cle_cmin3_1 _ _ _) (cle_trans (cle_cmin3_2 _ _ _) (cle_cadd_le _ hge)) (cle_cmin3_3 _ _ _)

/-- `B(x::u, v) ≤ B(u, v) + ge`, except at the origin -/
theorem Tg_b_le_b (x : α) (u : List α) (v : List β) (hne : u ≠ [] ∨ v ≠ []) :
    cle (Tg gs ge mc (x :: u) v).b (cadd (Tg gs ge mc u v).b ge) := by
  cases v with
  | nil =>
    cases u with
    | nil => simp at hne
    | cons x' u' =>
      rw [Tg, Tg]; intro t ht
      simp at ht
      refine ⟨_, rfl, ?_⟩
      rw [List.length_cons, gapCost_succ _ _ _ (by omega)]; omega
  | cons y v' =>
    rw [Tg]
    exact cle_cmin3_2 _ _ _

/-- `best(u, v) ≤ C(u, y::v)` -/
theorem Tg_best_le_c (hge : ge ≤ gs) (u : List α) (y : β) (v : List β) :
    cle (Tg gs ge mc u v).best (Tg gs ge mc u (y :: v)).c := by
  cases u with
  | nil =>
    cases v with
    | nil =>
      rw [Tg_nil_nil, Tg_nil_cons]; intro t _; exact ⟨0, by simp [Cell.best, cmin3], Nat.zero_le _⟩
    | cons y' v' =>
      rw [Tg_nil_cons, Tg_nil_cons]; intro t ht
      simp only [Option.some.injEq, List.length_cons] at ht
      refine ⟨gapCost gs ge (v'.length + 1), by simp [Cell.best, cmin3], ?_⟩
      rw [← ht, gapCost_succ gs ge (v'.length + 1) (by omega)]; omega
  | cons x u' =>
    rw [Tg_cons_cons]
    exact cle_cmin3_of (cle_trans (best_cle_a _) (cle_self_cadd _ _)) (cle_trans (best_cle_b _) (cle_self_cadd _ _))
      (cle_trans (best_cle_c _) (cle_self_cadd _ _))

/-- dropping the last base of the other sequence from an alignment that ends with a query base over a gap costs at
most one gap extension less: `B(u, v) ≤ B(u, y::v) + ge` -/
theorem Tg_b_drop (hge : ge ≤ gs) (u : List α) (hu : u ≠ []) : ∀ (y : β) (v : List β),
    cle (Tg gs ge mc u v).b (cadd (Tg gs ge mc u (y :: v)).b ge) := by
  induction u with
  | nil => exact absurd rfl hu
  | cons x' u' ih =>
    intro y v
    rw [Tg_cons_cons gs ge mc x' u' y v]
    simp only [cadd_cmin3, cadd_cadd]
    refine cle_cmin3_of ?_ ?_ ?_
    · -- through a (mis)match column before the gap
      cases u' with
      | nil => rw [Tg_nil_cons]; simp only [cadd_none]; exact cle_none _
      | cons x'' u'' =>
        rw [Tg_cons_cons gs ge mc x'' u'' y v]
        simp only [cadd_cadd]
        have h1 := Tg_b_le_b gs ge mc x' (x'' :: u'') v (Or.inl (by simp))
        have h2 := cle_cadd_mono ge (Tg_b_le_best gs ge mc hge x'' u'' v)
        rw [cadd_cadd] at h2
        exact cle_trans h1 (cle_trans h2 (cle_cadd_le _ (by omega)))
    · -- the gap is longer
      cases u' with
      | nil => rw [Tg_nil_cons]; simp only [cadd_none]; exact cle_none _
      | cons x'' u'' =>
        have h1 := Tg_b_le_b gs ge mc x' (x'' :: u'') v (Or.inl (by simp))
        have h2 := cle_cadd_mono ge (ih (by simp) y v)
        rw [cadd_cadd] at h2
        exact cle_trans h1 h2
    · -- through a gap of the other kind
      have h1 := Tg_b_le_best gs ge mc hge x' u' v
      have h2 := cle_cadd_mono gs (Tg_best_le_c gs ge mc hge u' y v)
      exact cle_trans h1 (cle_trans h2 (cle_cadd_le _ (by omega)))

/-- an alignment of `x::u` and `y::v` that ends with a query base over a gap costs at least the best alignment of `u`, `v` -/
theorem Tg_best_le_b (hge : ge ≤ gs) (x : α) (u : List α) (y : β) (v : List β) :
    cle (Tg gs ge mc u v).best (Tg gs ge mc (x :: u) (y :: v)).b := by
  rw [Tg_cons_cons gs ge mc x u y v]
  refine cle_cmin3_of ?_ ?_ ?_
  · cases u with
    | nil => rw [Tg_nil_cons]; simp only [cadd_none]; exact cle_none _
    | cons x' u' =>
      rw [Tg_cons_cons gs ge mc x' u' y v]
      simp only [cadd_cadd]
      have h1 := best_cle_b (Tg gs ge mc (x' :: u') v)
      have h2 := Tg_b_le_best gs ge mc hge x' u' v
      exact cle_trans h1 (cle_trans h2 (cle_cadd_le _ (by omega)))
  · cases u with
    | nil => rw [Tg_nil_cons]; simp only [cadd_none]; exact cle_none _
    | cons x' u' =>
      exact cle_trans (best_cle_b _) (Tg_b_drop gs ge mc hge (x' :: u') (by simp) y v)
  · exact cle_trans (Tg_best_le_c gs ge mc hge u y v) (cle_self_cadd _ _)

end

/-- … and the same for an alignment that ends with a gap over a base of the other sequence (by the `b`/`c` symmetry) -/
theorem Tg_best_le_c' (gs ge : Nat) (mc : α → β → Nat) (hge : ge ≤ gs) (x : α) (u : List α) (y : β) (v : List β) :
    cle (Tg gs ge mc u v).best (Tg gs ge mc (x :: u) (y :: v)).c := by
  have h := Tg_best_le_b gs ge (fun y x => mc x y) hge y v x u
  rw [Tg_swap gs ge mc u v, Tg_swap gs ge mc (x :: u) (y :: v), best_swap] at h
  exact h

theorem Tg_best_some (gs ge : Nat) (mc : α → β → Nat) (u : List α) (v : List β) : ∃ t, (Tg gs ge mc u v).best = some t := by
  fun_induction Tg gs ge mc u v with
  | case1 => exact ⟨0, by simp [Cell.best, cmin3]⟩
  | case2 x u => exact ⟨gapCost gs ge (u.length + 1), by simp [Cell.best, cmin3]⟩
  | case3 y v => exact ⟨gapCost gs ge (v.length + 1), by simp [Cell.best, cmin3]⟩
  | case4 x u y v ih1 ih2 ih3 =>
    obtain ⟨t, ht⟩ := ih1
    obtain ⟨s, hs, _⟩ := cmin3_le_1 (cmin3 (cadd (Tg gs ge mc u (y :: v)).a gs) (cadd (Tg gs ge mc u (y :: v)).b ge)
        (cadd (Tg gs ge mc u (y :: v)).c gs))
      (cmin3 (cadd (Tg gs ge mc (x :: u) v).a gs) (cadd (Tg gs ge mc (x :: u) v).b gs) (cadd (Tg gs ge mc (x :: u) v).c ge))
      (show cadd (Tg gs ge mc u v).best (mc x y) = some (t + mc x y) by rw [ht]; rfl)
    exact ⟨s, hs⟩

/-- equal last bases can be aligned to each other: the best value does not change -/
theorem Tg_best_cons_same (gs ge : Nat) (mc : α → β → Nat) (hge : ge ≤ gs) (x : α) (u : List α) (y : β) (v : List β)
    (hxy : mc x y = 0) : (Tg gs ge mc (x :: u) (y :: v)).best = (Tg gs ge mc u v).best := by
  obtain ⟨m, hm⟩ := Tg_best_some gs ge mc u v
  have hb := Tg_best_le_b gs ge mc hge x u y v
  have hc := Tg_best_le_c' gs ge mc hge x u y v
  rw [hm] at hb hc ⊢
  have ha : (Tg gs ge mc (x :: u) (y :: v)).a = some m := by
    rw [Tg_cons_cons, hxy, cadd_zero, hm]
  unfold Cell.best
  rw [ha]
  exact cmin3_eq_of_cle hb hc

/-! ## the shortcut -/

/-- the distance as the best table value -/
theorem affineSpec_eq_T (gs ge : Nat) (q : QSeq) (r : List Char) :
    affineSpec gs ge q r = (T gs ge q.reverse r.reverse).best.getD 0 := by
  rw [← affineDP_eq_affineSpec, affineDP_eq_T]

theorem affineSpec_snoc_same (gs ge : Nat) (hge : ge ≤ gs) (q : QSeq) (r : List Char) (x : Char × Nat) (y : Char)
    (hxy : (x.1 == y) = true) : affineSpec gs ge (q ++ [x]) (r ++ [y]) = affineSpec gs ge q r := by
  rw [affineSpec_eq_T, affineSpec_eq_T]
  simp only [List.reverse_append, List.reverse_cons, List.reverse_nil, List.nil_append, List.cons_append]
  rw [T_eq_Tg, T_eq_Tg, Tg_best_cons_same gs ge _ hge x q.reverse y r.reverse (by simp [hxy])]

theorem affineSpec_cons_same (gs ge : Nat) (hge : ge ≤ gs) (q : QSeq) (r : List Char) (x : Char × Nat) (y : Char)
    (hxy : (x.1 == y) = true) : affineSpec gs ge (x :: q) (y :: r) = affineSpec gs ge q r := by
  rw [← affineSpec_reverse gs ge (x :: q) (y :: r), ← affineSpec_reverse gs ge q r]
  simp only [List.reverse_cons]
  exact affineSpec_snoc_same gs ge hge _ _ x y hxy

theorem affineSpec_stripPre (gs ge : Nat) (hge : ge ≤ gs) (q : QSeq) (r : List Char) :
    affineSpec gs ge (stripPre q r).1 (stripPre q r).2 = affineSpec gs ge q r := by
  fun_induction stripPre q r with
  | case1 x q y r h ih => rw [ih, affineSpec_cons_same gs ge hge q r x y h]
  | case2 x q y r h => rfl
  | case3 q r h => rfl

theorem affineSpec_stripSuf (gs ge : Nat) (hge : ge ≤ gs) (q : QSeq) (r : List Char) :
    affineSpec gs ge (stripSuf q r).1 (stripSuf q r).2 = affineSpec gs ge q r := by
  unfold stripSuf
  simp only
  rw [← affineSpec_reverse]
  simp only [List.reverse_reverse]
  rw [affineSpec_stripPre gs ge hge, affineSpec_reverse]

/-- `edit_distance_affine_gap`, shortcut included, is the minimum cost over all alignments when `gap_extend ≤ gap_start` -/
theorem editDistanceAffine_eq_affineSpec (gs ge : Nat) (hge : ge ≤ gs) (q : QSeq) (r : List Char) :
    editDistanceAffine gs ge q r = affineSpec gs ge q r := by
  unfold editDistanceAffine
  simp only
  rw [affineDP_eq_affineSpec, affineSpec_stripSuf gs ge hge, affineSpec_stripPre gs ge hge]

end WhVerif.C06

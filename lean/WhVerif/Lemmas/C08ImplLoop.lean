import WhVerif.Lemmas.C08ImplWalk
/-!
# C08 impl lemmas, part 3: the iterator/cost-computer component of the column loops of
`compute_forward_column` / `compute_backward_column` is the Gray walk, for every transmission value
-/
namespace WhVerif.C08.Impl
open WhVerif.C08 WhVerif.C01

theorem posWhere_ge (p : Nat → Bool) (l : List Nat) (k : Nat) : ∀ x ∈ posWhere p l k, k ≤ x := by
  induction l generalizing k with
  | nil => simp [posWhere]
  | cons r rest ih =>
    intro x hx
    simp only [posWhere] at hx
    split at hx
    · rcases List.mem_cons.mp hx with rfl | hx
      · exact Nat.le_refl _
      · exact Nat.le_of_succ_le (ih (k + 1) x hx)
    · exact Nat.le_of_succ_le (ih (k + 1) x hx)

theorem posWhere_nodup (p : Nat → Bool) (l : List Nat) (k : Nat) : (posWhere p l k).Nodup := by
  induction l generalizing k with
  | nil => simp [posWhere]
  | cons r rest ih =>
    simp only [posWhere]
    split
    · refine List.nodup_cons.mpr ⟨?_, ih (k + 1)⟩
      intro h
      have := posWhere_ge p rest (k + 1) k h
      omega
    · exact ih (k + 1)

theorem Frame.col_fwdPos_nodup (F : Frame) (c : Nat) : (F.col c).fwdPos.Nodup := by
  unfold Frame.col; exact posWhere_nodup _ _ _

section
variable {K : Type} [Field K]

/-- the iterator + cost computers after the first `k+1` Gray codes -/
def walkAfter (X : ColCtx K) (k : Nat) : Walk K :=
  ((grayList X.co.nAct).take (k + 1)).foldl (Walk.step X) (Walk.init X.nT)

/-- the first component of a column loop does not depend on what the body accumulates -/
theorem loop_fst {β : Type} (X : ColCtx K) (body : Walk K → Nat → β → β) (L : List (Nat × Int)) (w0 : Walk K) (a0 : β) :
    (L.foldl (fun (s : Walk K × β) g => let w := Walk.step X s.1 g; (w, body w g.1 s.2)) (w0, a0)).1 =
      L.foldl (Walk.step X) w0 := by
  induction L generalizing w0 a0 with
  | nil => rfl
  | cons g L ih => simp only [List.foldl_cons]; exact ih _ _

theorem walk_fp (X : ColCtx K) (L : List (Nat × Int)) (w : Walk K) :
    (L.foldl (Walk.step X) w).fp = L.foldl (fpStep X.co.fwdPos) w.fp := by
  induction L generalizing w with
  | nil => rfl
  | cons g L ih => simp only [List.foldl_cons]; rw [ih]; rfl

theorem walk_ccs (X : ColCtx K) (L : List (Nat × Int)) (w : Walk K) (t : Nat) (ht : t < w.ccs.size) (d : CostComputer K) :
    (L.foldl (Walk.step X) w).ccs.size = w.ccs.size ∧
    (L.foldl (Walk.step X) w).ccs.getD t d = L.foldl (ccStep X.em (X.parts t) X.nP X.col) (w.ccs.getD t d) := by
  induction L generalizing w with
  | nil => exact ⟨rfl, rfl⟩
  | cons g L ih =>
    simp only [List.foldl_cons]
    have hs : (Walk.step X w g).ccs.size = w.ccs.size := by simp [Walk.step]
    have := ih (Walk.step X w g) (by rw [hs]; exact ht)
    refine ⟨by rw [this.1, hs], ?_⟩
    rw [this.2]
    congr 1
    simp [Walk.step, Array.getD_eq_getD_getElem?, ht]

theorem walkAfter_fp (X : ColCtx K) (k : Nat) : (walkAfter X k).fp = fpWalk X.co.nAct X.co.fwdPos k := by
  unfold walkAfter fpWalk; rw [walk_fp]; rfl

theorem walkAfter_cost (X : ColCtx K) (hlen : X.col.length = X.co.nAct) (k t a : Nat) (ht : t < X.nT) :
    Walk.cost X (walkAfter X k) t a = getCost X.nP (ccWalk X.em (X.parts t) X.nP X.col k) a := by
  unfold Walk.cost walkAfter ccWalk
  rw [(walk_ccs X _ (Walk.init X.nT) t (by simpa [Walk.init] using ht) _).2, hlen]
  simp [Walk.init, Array.getD_eq_getD_getElem?, ht]

end

end WhVerif.C08.Impl

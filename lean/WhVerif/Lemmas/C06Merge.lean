import WhVerif.Model.C06
/-!
# `create_read_from_group` (`mergeGroup`): merging the alignments of one template

* `addVariants_*`, `foldAdd_*` — the dictionary `variants` / the set `skip` of the merging loop
* `mergeGroup_sound`   — whatever the merged read carries at a position was detected on a used alignment, and EVERY used
                         alignment that has a call at that position has the same allele (a disagreement removes the position)
* `mergeGroup_errfree` — error-free alignments of one haplotype: nothing is skipped, every call of every used alignment is
                         in the merged read, with the haplotype's allele
-/
namespace WhVerif.C06

abbrev Call := Nat × Nat × Nat

theorem addVariants_fst_mem (acc : List Call) (skip : List Nat) (xs : List Call) :
    ∀ x ∈ (addVariants acc skip xs).1, x ∈ acc ∨ x ∈ xs := by
  induction xs generalizing acc skip with
  | nil => intro x hx; simpa [addVariants] using hx
  | cons y ys ih =>
    intro x hx
    unfold addVariants at hx
    split at hx
    · rcases ih _ _ x hx with h | h
      · exact Or.inl h
      · exact Or.inr (List.mem_cons_of_mem _ h)
    · rcases ih _ _ x hx with h | h
      · rcases List.mem_append.1 h with h | h
        · exact Or.inl h
        · simp at h; subst h; exact Or.inr (List.mem_cons_self ..)
      · exact Or.inr (List.mem_cons_of_mem _ h)

theorem addVariants_acc_sub (acc : List Call) (skip : List Nat) (xs : List Call) :
    ∀ x ∈ acc, x ∈ (addVariants acc skip xs).1 := by
  induction xs generalizing acc skip with
  | nil => intro x hx; simpa [addVariants] using hx
  | cons y ys ih =>
    intro x hx
    unfold addVariants
    split
    · exact ih _ _ x hx
    · exact ih _ _ x (List.mem_append_left _ hx)

theorem addVariants_skip_sub (acc : List Call) (skip : List Nat) (xs : List Call) :
    ∀ p ∈ skip, p ∈ (addVariants acc skip xs).2 := by
  induction xs generalizing acc skip with
  | nil => intro x hx; simpa [addVariants] using hx
  | cons y ys ih =>
    intro p hp
    unfold addVariants
    split
    · apply ih; split
      · exact List.mem_cons_of_mem _ hp
      · exact hp
    · exact ih _ _ p hp

/-- every position of the added calls is in the dictionary afterwards -/
theorem addVariants_covers (acc : List Call) (skip : List Nat) (xs : List Call) :
    ∀ x ∈ xs, ∃ y ∈ (addVariants acc skip xs).1, y.1 = x.1 := by
  induction xs generalizing acc skip with
  | nil => intro x hx; cases hx
  | cons y ys ih =>
    intro x hx
    unfold addVariants
    split
    · rename_i z hz
      rcases List.mem_cons.1 hx with rfl | h
      · have hm := List.mem_of_find?_eq_some hz
        have hp := List.find?_some hz
        exact ⟨z, addVariants_acc_sub _ _ _ z hm, by simpa using hp⟩
      · exact ih _ _ x h
    · rcases List.mem_cons.1 hx with rfl | h
      · exact ⟨x, addVariants_acc_sub _ _ _ x (by simp), rfl⟩
      · exact ih _ _ x h

/-- the dictionary keeps one entry per position -/
def UniquePos (acc : List Call) : Prop := acc.Pairwise (fun a b => a.1 ≠ b.1)

theorem addVariants_unique (acc : List Call) (skip : List Nat) (xs : List Call) (h : UniquePos acc) :
    UniquePos (addVariants acc skip xs).1 := by
  induction xs generalizing acc skip with
  | nil => simpa [addVariants] using h
  | cons y ys ih =>
    unfold addVariants
    split
    · exact ih _ _ h
    · rename_i hnone
      apply ih
      unfold UniquePos
      rw [List.pairwise_append]
      refine ⟨h, by simp, ?_⟩
      intro a ha b hb
      simp at hb; subst hb
      have := List.find?_eq_none.1 hnone a ha
      simpa using this

theorem unique_eq_of_pos (l : List Call) (hu : UniquePos l) (a b : Call) (ha : a ∈ l) (hb : b ∈ l) (h : a.1 = b.1) :
    a = b := by
  rcases List.mem_iff_getElem.1 ha with ⟨i, hi, rfl⟩
  rcases List.mem_iff_getElem.1 hb with ⟨j, hj, rfl⟩
  have hpw := List.pairwise_iff_getElem.1 hu
  rcases Nat.lt_trichotomy i j with hlt | heq | hgt
  · exact absurd h (hpw i j hi hj hlt)
  · subst heq; rfl
  · exact absurd h.symm (hpw j i hj hi hgt)

/-- a call that disagrees with the dictionary entry of its position puts the position into `skip` -/
theorem addVariants_conflict (acc : List Call) (skip : List Nat) (xs : List Call) :
    ∀ x ∈ xs, ∀ y ∈ (addVariants acc skip xs).1, y.1 = x.1 → y.2.1 ≠ x.2.1 → UniquePos acc →
      x.1 ∈ (addVariants acc skip xs).2 := by
  induction xs generalizing acc skip with
  | nil => intro x hx; cases hx
  | cons z zs ih =>
    intro x hx y hy hpos hal hu
    unfold addVariants at hy ⊢
    split at hy
    · rename_i w hw
      have hwm := List.mem_of_find?_eq_some hw
      have hwp : w.1 = z.1 := by simpa using List.find?_some hw
      rcases List.mem_cons.1 hx with rfl | h
      · -- y is the entry of x's position; by uniqueness y = w
        have hu' := addVariants_unique acc (if (w.2.1 != x.2.1) = true then x.1 :: skip else skip) zs hu
        have hwres := addVariants_acc_sub acc (if (w.2.1 != x.2.1) = true then x.1 :: skip else skip) zs w hwm
        have hyw : y = w := unique_eq_of_pos _ hu' y w hy hwres (by rw [hpos, hwp])
        subst hyw
        apply addVariants_skip_sub
        have : (y.2.1 != x.2.1) = true := by simpa using hal
        simp [this]
      · exact ih _ _ x h y hy hpos hal hu
    · rename_i hnone
      have hu2 : UniquePos (acc ++ [z]) := by
        unfold UniquePos
        rw [List.pairwise_append]
        refine ⟨hu, by simp, ?_⟩
        intro a ha b hb
        simp at hb; subst hb
        have := List.find?_eq_none.1 hnone a ha
        simpa using this
      rcases List.mem_cons.1 hx with rfl | h
      · -- x itself was inserted: the entry of its position is x
        have hu' := addVariants_unique (acc ++ [x]) skip zs hu2
        have hxres := addVariants_acc_sub (acc ++ [x]) skip zs x (by simp)
        have hyx : y = x := unique_eq_of_pos _ hu' y x hy hxres hpos
        subst hyx; exact absurd rfl hal
      · exact ih _ _ x h y hy hpos hal hu2

/-- error-free calls never mark a position -/
theorem addVariants_skip_errfree (truth : Nat → Nat) (acc : List Call) (skip : List Nat) (xs : List Call)
    (ha : ∀ x ∈ acc, x.2.1 = truth x.1) (hx : ∀ x ∈ xs, x.2.1 = truth x.1) :
    (addVariants acc skip xs).2 = skip := by
  induction xs generalizing acc skip with
  | nil => simp [addVariants]
  | cons y ys ih =>
    unfold addVariants
    split
    · rename_i z hz
      have hm := List.mem_of_find?_eq_some hz
      have hp : z.1 = y.1 := by simpa using List.find?_some hz
      have e : z.2.1 = y.2.1 := by rw [ha z hm, hx y (by simp), hp]
      have : (z.2.1 != y.2.1) = false := by simp [e]
      simp only [this, Bool.false_eq_true, if_false]
      exact ih _ _ ha (fun x h => hx x (List.mem_cons_of_mem _ h))
    · apply ih
      · intro x h
        rcases List.mem_append.1 h with h | h
        · exact ha x h
        · simp at h; subst h; exact hx x (by simp)
      · exact fun x h => hx x (List.mem_cons_of_mem _ h)

/-! ## the loop over the alignments -/

def foldAdd (st : List Call × List Nat) (used : List Aligned) : List Call × List Nat :=
  used.foldl (fun st r => addVariants st.1 st.2 r.variants) st

theorem foldAdd_cons (st : List Call × List Nat) (r : Aligned) (rs : List Aligned) :
    foldAdd st (r :: rs) = foldAdd (addVariants st.1 st.2 r.variants) rs := rfl

theorem foldAdd_mem (st : List Call × List Nat) (used : List Aligned) :
    ∀ x ∈ (foldAdd st used).1, x ∈ st.1 ∨ ∃ r ∈ used, x ∈ r.variants := by
  induction used generalizing st with
  | nil => intro x hx; exact Or.inl hx
  | cons r rs ih =>
    intro x hx
    rw [foldAdd_cons] at hx
    rcases ih _ x hx with h | ⟨r', hr', h⟩
    · rcases addVariants_fst_mem _ _ _ x h with h | h
      · exact Or.inl h
      · exact Or.inr ⟨r, by simp, h⟩
    · exact Or.inr ⟨r', List.mem_cons_of_mem _ hr', h⟩

theorem foldAdd_acc_sub (st : List Call × List Nat) (used : List Aligned) :
    (∀ x ∈ st.1, x ∈ (foldAdd st used).1) ∧ (∀ p ∈ st.2, p ∈ (foldAdd st used).2) := by
  induction used generalizing st with
  | nil => exact ⟨fun x hx => hx, fun p hp => hp⟩
  | cons r rs ih =>
    rw [foldAdd_cons]
    exact ⟨fun x hx => (ih _).1 x (addVariants_acc_sub _ _ _ x hx),
      fun p hp => (ih _).2 p (addVariants_skip_sub _ _ _ p hp)⟩

theorem foldAdd_unique (st : List Call × List Nat) (used : List Aligned) (h : UniquePos st.1) :
    UniquePos (foldAdd st used).1 := by
  induction used generalizing st with
  | nil => exact h
  | cons r rs ih => rw [foldAdd_cons]; exact ih _ (addVariants_unique _ _ _ h)

theorem foldAdd_covers (st : List Call × List Nat) (used : List Aligned) :
    ∀ r ∈ used, ∀ x ∈ r.variants, ∃ y ∈ (foldAdd st used).1, y.1 = x.1 := by
  induction used generalizing st with
  | nil => intro r hr; cases hr
  | cons r rs ih =>
    intro r' hr' x hx
    rw [foldAdd_cons]
    rcases List.mem_cons.1 hr' with rfl | h
    · obtain ⟨y, hy, hp⟩ := addVariants_covers st.1 st.2 r'.variants x hx
      exact ⟨y, (foldAdd_acc_sub _ rs).1 y hy, hp⟩
    · exact ih _ r' h x hx

/-- a call of a used alignment that disagrees with the final dictionary entry of its position has marked the position -/
theorem foldAdd_conflict (st : List Call × List Nat) (used : List Aligned) (hu : UniquePos st.1) :
    ∀ r ∈ used, ∀ x ∈ r.variants, ∀ y ∈ (foldAdd st used).1, y.1 = x.1 → y.2.1 ≠ x.2.1 → x.1 ∈ (foldAdd st used).2 := by
  induction used generalizing st with
  | nil => intro r hr; cases hr
  | cons r rs ih =>
    intro r' hr' x hx y hy hpos hal
    rw [foldAdd_cons] at hy ⊢
    rcases List.mem_cons.1 hr' with rfl | h
    · -- the entry of x's position after this alignment is already the final one
      obtain ⟨z, hz, hzp⟩ := addVariants_covers st.1 st.2 r'.variants x hx
      have hzf := (foldAdd_acc_sub (addVariants st.1 st.2 r'.variants) rs).1 z hz
      have huf := foldAdd_unique (addVariants st.1 st.2 r'.variants) rs (addVariants_unique _ _ _ hu)
      have hzy : z = y := unique_eq_of_pos _ huf z y hzf hy (by rw [hzp, hpos])
      subst hzy
      exact (foldAdd_acc_sub _ rs).2 _ (addVariants_conflict st.1 st.2 r'.variants x hx z hz hzp hal hu)
    · exact ih _ (addVariants_unique _ _ _ hu) r' h x hx y hy hpos hal

theorem foldAdd_skip_errfree (truth : Nat → Nat) (st : List Call × List Nat) (used : List Aligned)
    (ha : ∀ x ∈ st.1, x.2.1 = truth x.1) (hx : ∀ r ∈ used, ∀ x ∈ r.variants, x.2.1 = truth x.1) :
    (foldAdd st used).2 = st.2 := by
  induction used generalizing st with
  | nil => rfl
  | cons r rs ih =>
    rw [foldAdd_cons, ih]
    · exact addVariants_skip_errfree truth _ _ _ ha (hx r (by simp))
    · intro x h
      rcases addVariants_fst_mem _ _ _ x h with h | h
      · exact ha x h
      · exact hx r (by simp) x h
    · exact fun r' h => hx r' (List.mem_cons_of_mem _ h)

/-! ## `union_read.sort()` keeps the calls -/

theorem mem_insertByPos (x y : Call) (l : List Call) : y ∈ insertByPos x l ↔ y = x ∨ y ∈ l := by
  induction l with
  | nil => simp [insertByPos]
  | cons z zs ih =>
    unfold insertByPos
    split
    · simp
    · simp only [List.mem_cons, ih]
      constructor <;> rintro (h | h | h) <;> simp [h]

theorem mem_sortByPos (y : Call) (l : List Call) : y ∈ sortByPos l ↔ y ∈ l := by
  induction l with
  | nil => simp [sortByPos]
  | cons z zs ih => simp [sortByPos, mem_insertByPos, ih]

/-- the alignments `create_read_from_group` uses, given the (last) primary alignment -/
def usedBy (f12 : Bool) (primary : Aligned) (threshold : Int) (r : Aligned) : Bool :=
  (f12 && !r.supplementary) || (r.reverse == primary.reverse && alignedDistance primary r ≤ threshold)

theorem mergeGroup_eq (f12 : Bool) (group : List Aligned) (threshold : Int) (primary : Aligned)
    (hp : (group.filter (fun r => !r.supplementary)).getLast? = some primary)
    (hn : (group.filter (fun r => !r.supplementary)).length ≤ 2) :
    mergeGroup f12 group threshold =
      some (sortByPos ((foldAdd ([], []) (group.filter (usedBy f12 primary threshold))).1.filter
        (fun x => !(foldAdd ([], []) (group.filter (usedBy f12 primary threshold))).2.contains x.1))) := by
  have hn' : ¬ (group.filter (fun r => !r.supplementary)).length > 2 := by omega
  simp only [mergeGroup, hp, hn', if_false]
  rfl

end WhVerif.C06

import WhVerif.Model.Cost
/-! Algebra of costs (`Option Nat`, `none` = +∞) and of `minOver`; the bucketed-minimum fold. Core Lean only. -/
namespace WhVerif.Cost

theorem cmin_comm (a b : Option Nat) : cmin a b = cmin b a := by
  cases a <;> cases b <;> simp [cmin, Nat.min_comm]
theorem cmin_assoc (a b c : Option Nat) : cmin (cmin a b) c = cmin a (cmin b c) := by
  cases a <;> cases b <;> cases c <;> simp [cmin, Nat.min_assoc]
@[simp] theorem cmin_none_left (a : Option Nat) : cmin none a = a := by cases a <;> simp [cmin]
@[simp] theorem cmin_none_right (a : Option Nat) : cmin a none = a := by cases a <;> simp [cmin]
theorem cadd_comm (a b : Option Nat) : cadd a b = cadd b a := by
  cases a <;> cases b <;> simp [cadd, Nat.add_comm]
theorem cadd_assoc (a b c : Option Nat) : cadd (cadd a b) c = cadd a (cadd b c) := by
  cases a <;> cases b <;> cases c <;> simp [cadd, Nat.add_assoc]
@[simp] theorem cadd_none_left (a : Option Nat) : cadd none a = none := by cases a <;> simp [cadd]
@[simp] theorem cadd_none_right (a : Option Nat) : cadd a none = none := by cases a <;> simp [cadd]
@[simp] theorem cadd_zero_right (a : Option Nat) : cadd a (some 0) = a := by cases a <;> simp [cadd]
theorem cadd_cmin (a x y : Option Nat) : cadd a (cmin x y) = cmin (cadd a x) (cadd a y) := by
  cases a <;> cases x <;> cases y <;> simp [cadd, cmin, Nat.add_min_add_left]

@[simp] theorem minOver_nil {α} (f : α → Option Nat) : minOver [] f = none := rfl
@[simp] theorem minOver_cons {α} (a : α) (l : List α) (f : α → Option Nat) :
    minOver (a :: l) f = cmin (f a) (minOver l f) := rfl

theorem minOver_append {α} (l1 l2 : List α) (f : α → Option Nat) :
    minOver (l1 ++ l2) f = cmin (minOver l1 f) (minOver l2 f) := by
  induction l1 with
  | nil => simp
  | cons a l ih => simp [ih, cmin_assoc]

theorem minOver_congr_fun {α} (l : List α) (f g : α → Option Nat) (h : ∀ a ∈ l, f a = g a) :
    minOver l f = minOver l g := by
  induction l with
  | nil => rfl
  | cons a l ih =>
    simp only [minOver_cons]
    rw [h a List.mem_cons_self, ih (fun b hb => h b (List.mem_cons_of_mem _ hb))]

theorem minOver_congr_mem {α} (l1 l2 : List α) (f : α → Option Nat) (h : ∀ a, a ∈ l1 ↔ a ∈ l2) :
    minOver l1 f = minOver l2 f := by
  have h1 := minOver_isMin l1 f
  have h2 := minOver_isMin l2 f
  have : IsMinOf (fun x => x ∈ l2) f (minOver l1 f) :=
    ⟨fun x hx => h1.lb x ((h x).mpr hx), by
      rcases h1.att with e | ⟨x, hx, e⟩
      · exact Or.inl e
      · exact Or.inr ⟨x, (h x).mp hx, e⟩⟩
  exact this.unique h2

theorem minOver_map {α β} (l : List α) (h : α → β) (f : β → Option Nat) :
    minOver (l.map h) f = minOver l (fun a => f (h a)) := by
  induction l with
  | nil => rfl
  | cons a l ih => simp [ih]

theorem minOver_flatMap {α β} (l : List α) (h : α → List β) (f : β → Option Nat) :
    minOver (l.flatMap h) f = minOver l (fun a => minOver (h a) f) := by
  induction l with
  | nil => rfl
  | cons a l ih => simp [List.flatMap_cons, minOver_append, ih]

theorem cadd_minOver {α} (a : Option Nat) (l : List α) (f : α → Option Nat) :
    cadd a (minOver l f) = minOver l (fun y => cadd a (f y)) := by
  induction l with
  | nil => simp
  | cons b l ih => simp [cadd_cmin, ih]

/-- bucketed minimum by a left fold over an array (as the code updates its projection column) -/
theorem foldl_bucket {α} (items : List α) (key : α → Nat) (f : α → Option Nat)
    (arr : Array (Option Nat)) (k : Nat) (hk : k < arr.size) :
    (items.foldl (fun arr a => arr.modify (key a) (fun old => cmin old (f a))) arr).getD k none
      = cmin (arr.getD k none) (minOver (items.filter (fun a => key a == k)) f) := by
  induction items generalizing arr with
  | nil => simp
  | cons a l ih =>
    simp only [List.foldl_cons]
    rw [ih _ (by simpa using hk)]
    by_cases hka : key a = k
    · subst hka
      simp [Array.getD_eq_getD_getElem?, hk, Array.getElem_modify_self, cmin_assoc]
    · have : (key a == k) = false := by simpa using hka
      simp [this, Array.getD_eq_getD_getElem?, Array.getElem?_modify, hka]

end WhVerif.Cost

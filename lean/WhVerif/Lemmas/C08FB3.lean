import WhVerif.Lemmas.C08FB2
/-!
# C08 lemmas, part 8: the backward invariant and the assembly `numer = specNumer`.
-/
namespace WhVerif.C08
open Finset

variable {K : Type} [Field K] (F : Frame) (W : Weights K)

/-- the backward probability read by the forward pass in column `c` (unscaled) -/
def bwdV (c p t : Nat) : K := bwdAt F W Scal.one c (bwdOf F W Scal.one c) p t

theorem bwdOf_eq (S : Scal K) (c : Nat) (h : c + 1 < F.nCols) :
    bwdOf F W S c = bwdStep F W S (c + 1) (bwdOf F W S (c + 1)) := by
  unfold bwdOf
  rw [if_pos h]
  by_cases h2 : c + 1 + 1 < F.nCols
  · rw [if_pos h2]
    have e1 : F.nCols - 2 - c = (F.nCols - 2 - (c + 1)) + 1 := by omega
    rw [e1]
    simp only [bwdTbl]
    have e2 : F.nCols - 1 - (F.nCols - 2 - (c + 1) + 1) = c + 1 := by omega
    rw [e2]
  · rw [if_neg h2]
    have e1 : F.nCols - 2 - c = 0 := by omega
    rw [e1]
    simp only [bwdTbl]
    have e2 : F.nCols - 1 = c + 1 := by omega
    rw [e2]

theorem bRaw_eq_bwdV (c p t : Nat) : bRaw F W c (bwdOf F W Scal.one c) p t = bwdV F W c p t := by
  unfold bRaw bwdV bwdAt
  split <;> simp [Scal.one]

theorem bwdV_last (c p t : Nat) (h : ¬ c + 1 < F.nCols) : bwdV F W c p t = 1 := by
  unfold bwdV bwdAt; rw [if_neg h]

theorem bwdV_step (c : Nat) (h : c + 1 < F.nCols) {p j : Nat} (hp : p < 2 ^ (F.shared c).length) (hj : j < W.nT) :
    bwdV F W c p j = ∑ idx ∈ range (2 ^ (F.col (c + 1)).nAct),
      if idx % 2 ^ (F.shared c).length = p then
        ∑ t ∈ range W.nT, (bwdV F W (c + 1) (gather (F.col (c + 1)).fwdPos idx) t
          * ∑ a ∈ range W.nA, EA F W (c + 1) idx (t, a)) * W.trans (c + 1) j t
      else 0 := by
  unfold bwdV bwdAt
  rw [if_pos h, bwdOf_eq F W Scal.one c h,
    bwdStep_at F W Scal.one (c + 1) _ (by rw [Frame.col_bwdW_succ]; exact hp) hj]
  simp only [Scal.one, div_one]
  rw [Frame.col_bwdW_succ]
  apply sum_congr rfl; intro idx _
  split
  · apply sum_congr rfl; intro t _
    have := bRaw_eq_bwdV F W (c + 1) (gather (F.col (c + 1)).fwdPos idx) t
    unfold bwdV bwdAt at this
    simp only [Scal.one, div_one] at this
    rw [this]
    rfl
  · rfl

theorem add_mul_pow_lt {a b lo new : Nat} (hlo : lo < 2 ^ a) (hnew : new < 2 ^ b) : lo + 2 ^ a * new < 2 ^ (a + b) := by
  calc lo + 2 ^ a * new < 2 ^ a + 2 ^ a * new := by omega
    _ = 2 ^ a * (new + 1) := by ring
    _ ≤ 2 ^ a * 2 ^ b := Nat.mul_le_mul_left _ hnew
    _ = 2 ^ (a + b) := by rw [Nat.pow_add]

theorem bwd_rearr (I J : Finset Nat) (B E : Nat → K) (T : K) :
    (∑ i ∈ I, B i) * (∑ a ∈ J, E a) * T = ∑ a ∈ J, ∑ i ∈ I, T * E a * B i := by
  calc (∑ i ∈ I, B i) * (∑ a ∈ J, E a) * T = ∑ i ∈ I, ∑ a ∈ J, B i * E a * T := by
        rw [sum_mul_sum, sum_mul]; apply sum_congr rfl; intro i _; rw [sum_mul]
    _ = ∑ a ∈ J, ∑ i ∈ I, B i * E a * T := sum_comm
    _ = _ := by
        apply sum_congr rfl; intro a _; apply sum_congr rfl; intro i _; ring

/-- **backward invariant** -/
theorem bwd_invariant (hWF : F.WF) : ∀ d c, c + d + 1 = F.nCols → ∀ lo, lo < 2 ^ F.m c → ∀ j, j < W.nT →
    bwdV F W c (gather (F.shared c) lo) j
      = ∑ hi ∈ range (2 ^ (F.nReads - F.m c)), bwQ F W (lo + 2 ^ F.m c * hi) d (c + 1) j := by
  intro d
  induction d with
  | zero =>
    intro c hc lo _ j _
    rw [bwdV_last F W c _ _ (by omega), Frame.m_last hWF c (by omega)]
    simp [bwQ]
  | succ d ih =>
    intro c hc lo hlo j hj
    have hlast : c + 1 < F.nCols := by omega
    have hm := Frame.m_mono hWF c
    have hmR := F.m_le (c + 1)
    have hmk : F.m (c + 1) = F.m c + (F.m (c + 1) - F.m c) := by omega
    have hRk : F.nReads - F.m c = (F.m (c + 1) - F.m c) + (F.nReads - F.m (c + 1)) := by omega
    -- left: unfold one backward step, keep only the column indices that extend the projection
    rw [bwdV_step F W c hlast (gather_lt _ _) hj, nAct_succ F hWF c, sum_pow_split]
    have hcollapse : ∀ (f : Nat → Nat → K),
        ∑ p ∈ range (2 ^ (F.shared c).length), ∑ new ∈ range (2 ^ (F.m (c + 1) - F.m c)),
          (if (p + 2 ^ (F.shared c).length * new) % 2 ^ (F.shared c).length = gather (F.shared c) lo then f p new else 0)
        = ∑ new ∈ range (2 ^ (F.m (c + 1) - F.m c)), f (gather (F.shared c) lo) new := by
      intro f
      rw [sum_comm]
      apply sum_congr rfl; intro new _
      have : ∀ p ∈ range (2 ^ (F.shared c).length),
          (if (p + 2 ^ (F.shared c).length * new) % 2 ^ (F.shared c).length = gather (F.shared c) lo then f p new else 0)
          = if p = gather (F.shared c) lo then f p new else 0 := by
        intro p hp; rw [mem_range] at hp
        rw [add_mul_mod_pow hp]
      rw [sum_congr rfl this, sum_ite_eq']
      simp [gather_lt]
    rw [hcollapse (fun p new => ∑ t ∈ range W.nT, (bwdV F W (c + 1) (gather (F.col (c + 1)).fwdPos (p + 2 ^ (F.shared c).length * new)) t
          * ∑ a ∈ range W.nA, EA F W (c + 1) (p + 2 ^ (F.shared c).length * new) (t, a)) * W.trans (c + 1) j t)]
    -- right: split off the reads that start in column c+1
    conv_rhs => rw [hRk, sum_pow_split]
    apply sum_congr rfl; intro new hnew; rw [mem_range] at hnew
    have hlo1 : lo + 2 ^ F.m c * new < 2 ^ F.m (c + 1) := by
      rw [hmk]; exact add_mul_pow_lt hlo hnew
    rw [← colIdx_succ F hWF c hlo hnew, Frame.fwdProj_colIdx]
    have hbeta : ∀ hi, lo + 2 ^ F.m c * (new + 2 ^ (F.m (c + 1) - F.m c) * hi)
        = (lo + 2 ^ F.m c * new) + 2 ^ F.m (c + 1) * hi := by
      intro hi
      conv_rhs => rw [hmk, Nat.pow_add]
      ring
    have hstep : ∀ hi ∈ range (2 ^ (F.nReads - F.m (c + 1))),
        bwQ F W (lo + 2 ^ F.m c * (new + 2 ^ (F.m (c + 1) - F.m c) * hi)) (d + 1) (c + 1) j
        = ∑ s ∈ W.stF, (W.trans (c + 1) j s.1 * EA F W (c + 1) (gather (F.active (c + 1)) (lo + 2 ^ F.m c * new)) s)
            * bwQ F W ((lo + 2 ^ F.m c * new) + 2 ^ F.m (c + 1) * hi) d (c + 1 + 1) s.1 := by
      intro hi _
      rw [hbeta]
      simp only [bwQ]
      apply sum_congr rfl; intro s _
      rw [stepW_eq_stepI, colIdx_lo F hWF (c + 1) hlo1, stepI_some]
    rw [sum_congr rfl hstep, sum_comm]
    -- both sides are now sums over the states
    rw [sum_stF]
    apply sum_congr rfl; intro t ht; rw [mem_range] at ht
    rw [ih (c + 1) (by omega) _ hlo1 t ht]
    exact bwd_rearr _ _ _ _ _

/-- **the model's numerator equals the brute-force numerator** (unscaled model) -/
theorem numer_eq_specNumer (hWF : F.WF) (c : Nat) (hc : c < F.nCols) (sel : Nat → Nat → Bool) :
    numer F W Scal.one c sel = specNumer F W c sel := by
  -- the spec, column by column
  have hspec : specNumer F W c sel = ∑ β ∈ range (2 ^ F.nReads), ∑ s ∈ W.stF,
      fwP F W β c s * (if sel s.1 s.2 then bwQ F W β (F.nCols - c - 1) (c + 1) s.1 else 0) := by
    unfold specNumer
    simp only []
    rw [sumN_eq_sum]
    apply sum_congr rfl; intro β _
    rw [sumL_eq_sum]
    have hn : F.nCols = c + ((F.nCols - c - 1) + 1) := by omega
    conv_lhs => rw [hn]
    rw [paths_sum_append, ← paths_prefix_sum]
    apply list_sum_congr; intro p hp
    have hlen := length_of_mem_paths _ _ _ hp
    rw [paths_sum_cons]
    apply list_sum_congr; intro s _
    have h1 : ∀ q : List (Nat × Nat), (if selAt sel (p ++ s :: q) c then pathW F W β 0 none (p ++ s :: q) else 0)
        = (pathW F W β 0 none p * stepW F W β c (lastOr none p) s) * (if sel s.1 s.2 then pathW F W β (c + 1) (some s) q else 0) := by
      intro q
      have : selAt sel (p ++ s :: q) c = sel s.1 s.2 := by
        unfold selAt
        rw [List.getElem?_append_right (by omega)]
        simp [hlen]
      rw [this, pathW_append, hlen]
      simp only [pathW, Nat.zero_add]
      split <;> ring
    rw [list_sum_congr _ _ _ (fun q _ => h1 q), list_sum_mul_left]
    congr 1
    split
    · exact paths_suffix_sum F W β _ _ s
    · simp
  rw [hspec]
  -- split the bipartition at the reads that have started by column c
  have hR : F.nReads = F.m c + (F.nReads - F.m c) := by have := F.m_le c; omega
  conv_rhs => rw [hR, sum_pow_split]
  have h2 : ∀ lo ∈ range (2 ^ F.m c),
      ∑ hi ∈ range (2 ^ (F.nReads - F.m c)), ∑ s ∈ W.stF, fwP F W (lo + 2 ^ F.m c * hi) c s *
          (if sel s.1 s.2 then bwQ F W (lo + 2 ^ F.m c * hi) (F.nCols - c - 1) (c + 1) s.1 else 0)
      = ∑ s ∈ W.stF, fwP F W lo c s *
          (if sel s.1 s.2 then bwdV F W c (gather (F.col c).fwdPos (gather (F.active c) lo)) s.1 else 0) := by
    intro lo hlo; rw [mem_range] at hlo
    rw [sum_comm]
    apply sum_congr rfl; intro s hs
    rw [Frame.fwdProj_colIdx, bwd_invariant F W hWF (F.nCols - c - 1) c (by omega) lo hlo s.1 ((mem_stF W).mp hs).1]
    have : ∀ hi ∈ range (2 ^ (F.nReads - F.m c)), fwP F W (lo + 2 ^ F.m c * hi) c s *
          (if sel s.1 s.2 then bwQ F W (lo + 2 ^ F.m c * hi) (F.nCols - c - 1) (c + 1) s.1 else 0)
        = fwP F W lo c s * (if sel s.1 s.2 then bwQ F W (lo + 2 ^ F.m c * hi) (F.nCols - c - 1) (c + 1) s.1 else 0) := by
      intro hi _; rw [fwP_lo F W hWF c hlo]
    rw [sum_congr rfl this, ← mul_sum]
    congr 1
    split
    · rfl
    · simp
  rw [sum_congr rfl h2,
    fwd_invariant F W hWF c (fun idx s => if sel s.1 s.2 then bwdV F W c (gather (F.col c).fwdPos idx) s.1 else 0),
    numerOf_fbCells]
  apply sum_congr rfl; intro idx _
  rw [sum_stF]
  apply sum_congr rfl; intro t _
  apply sum_congr rfl; intro a _
  unfold cellP bwdV
  split <;> simp

end WhVerif.C08

import WhVerif.Spec.C14Dup
import WhVerif.Lemmas.C14Text
/-! Round 10 helper lemmas for C14: duplicate names, ties of largest blocks, iterators. -/
namespace WhVerif.Lemmas.C14
open WhVerif.C14

/-! ### duplicate names: the dict answers the last tagged line -/

theorem find?_and_const {α : Type} (P Q : α → Bool) (c : Bool) (h : ∀ a, Q a = true → P a = c) :
    ∀ l : List α, l.find? (fun a => P a && Q a) = if c then l.find? Q else none := by
  intro l
  induction l with
  | nil => cases c <;> rfl
  | cons a t ih =>
    simp only [List.find?_cons]
    by_cases hq : Q a = true
    · rw [h a hq, hq]
      cases c <;> simp [ih]
    · have hq' : Q a = false := by simpa using hq
      simp [hq', ih]

theorem selNames_contains (lines : List Line) (name : String) :
    (selNames lines).contains name =
      (taggedOf lines).any (fun l => l.name == name && (selectedBlocks (taggedOf lines)).contains (l.chrom, l.ps)) := by
  rw [Bool.eq_iff_iff]
  simp only [selNames, List.contains_iff_mem, List.mem_map, List.mem_filter, List.any_eq_true, Bool.and_eq_true,
    beq_iff_eq]
  constructor
  · rintro ⟨l, ⟨h1, h2⟩, h3⟩; exact ⟨l, h1, h3, h2⟩
  · rintro ⟨l, h1, h3, h2⟩; exact ⟨l, ⟨h1, h2⟩, h3⟩

/-- the dict `readname_to_haplotype` (after the optional largest-block restriction) answers `hapByList` — for EVERY
list, duplicate names included -/
theorem hapOf_assignOf_gen (o : Opts) (lines : List Line) (kn : List String) (name : String) :
    Table.hapOf ⟨assignOf o lines, kn⟩ name = hapByList o lines name := by
  unfold Table.hapOf hapByList lastTagged inSelected
  simp only
  by_cases hl : o.onlyLargest = true
  · have ha : assignOf o lines =
        ((taggedOf lines).filter (fun l => (selNames lines).contains l.name)).map (fun l => (l.name, l.hap)) := by
      unfold assignOf
      simp only [hl, if_true, selNames, List.filter_map]
      rfl
    rw [ha, ← List.map_reverse, List.find?_map, ← List.filter_reverse, List.find?_filter]
    have hc := find?_and_const (fun l : Line => (selNames lines).contains l.name) (fun l : Line => l.name == name)
      ((selNames lines).contains name) (fun a h => by have : a.name = name := by simpa using h
                                                      rw [this]) (taggedOf lines).reverse
    have hfun : (fun a : Line => decide ((selNames lines).contains a.name = true ∧
        ((fun p : String × Nat => p.1 == name) ∘ fun l : Line => (l.name, l.hap)) a = true)) =
        (fun a : Line => (selNames lines).contains a.name && (a.name == name)) := by
      funext a
      by_cases h1 : a.name = name <;> simp [h1]
    first
      | rw [hfun, hc]
      | (simp only [Function.comp_def] at hfun ⊢; rw [hfun, hc])
    rw [← selNames_contains, hl]
    simp only [Bool.not_true, Bool.false_or]
    cases hs : (selNames lines).contains name with
    | false =>
      simp only [Bool.false_eq_true, if_false, Option.map_none]
      cases (taggedOf lines).reverse.find? (fun l => l.name == name) <;> rfl
    | true =>
      simp only [if_true]
      cases (taggedOf lines).reverse.find? (fun l => l.name == name) <;> rfl
  · have ha : assignOf o lines = (taggedOf lines).map (fun l => (l.name, l.hap)) := by
      unfold assignOf; simp [hl]
    have hl' : o.onlyLargest = false := by simpa using hl
    rw [ha, ← List.map_reverse, List.find?_map, hl']
    simp only [Bool.not_false, Bool.true_or, if_true]
    have : ((fun p : String × Nat => p.1 == name) ∘ fun l : Line => (l.name, l.hap)) = (fun l : Line => l.name == name) := rfl
    rw [this]
    cases (taggedOf lines).reverse.find? (fun l => l.name == name) <;> rfl

/-- the option table from the code's table = the option table read off the lines, for every list -/
theorem prescribed_eq_byListGen (o : Opts) (lines : List Line) (t : Table) (h : buildTable o lines = .ok t)
    (r : Read) : prescribed o t r = prescribedByListGen o lines r := by
  obtain ⟨rfl, _⟩ := buildTable_ok o lines t h
  unfold prescribed prescribedByListGen droppedAsUnknown entryGen
  rw [hapOf_assignOf_gen o lines _ r.name]
  cases hany : lines.any (fun l => l.name == r.name) with
  | false =>
    -- not listed: no tagged line either, so the dict's default 0
    have h0 : hapByList o lines r.name = 0 := by
      unfold hapByList lastTagged
      have : (taggedOf lines).reverse.find? (fun l => l.name == r.name) = none := by
        apply List.find?_eq_none.mpr
        intro l hl
        have hl' : l ∈ lines := (List.mem_filter.mp (List.mem_reverse.mp hl)).1
        have := List.any_eq_false.mp hany l hl'
        simpa using this
      rw [this]
    by_cases hd : o.discardUnknown = true
    · have hk := known_contains o lines r.name hd
      rw [hany] at hk
      have hk' : ¬ r.name ∈ knownOf o lines := by simpa using hk
      simp [hd, hk']
    · simp [hd, h0]
  | true =>
    by_cases hd : o.discardUnknown = true
    · have hk := known_contains o lines r.name hd
      rw [hany] at hk
      have hk' : r.name ∈ knownOf o lines := by simpa using hk
      simp [hd, hk']
    · simp [hd]

/-- `--discard-unknown-reads`: a list that names a read twice is refused (the `assert`) -/
theorem buildTable_dup_error (o : Opts) (lines : List Line) (hd : o.discardUnknown = true)
    (hdup : ¬ (lines.map (·.name)).Nodup) : buildTable o lines = .error .assertDuplicate := by
  unfold buildTable
  have hne : lines.length ≠ (knownOf o lines).length := by
    intro he
    apply hdup
    apply nodup_of_length_dedup
    simp only [knownOf, hd, if_true] at he
    rw [← he]; simp
  simp [hd, hne]

/-! ### ties of largest blocks: `Counter.most_common(1)` answers the first inserted among equal counts -/

/-- keys of the counter stand in the order of their first line, and every key has a line -/
def BCOrd (acc : BC) (pre : List Line) : Prop :=
  acc.Pairwise (fun p q => firstIdx pre p.1 < firstIdx pre q.1) ∧ ∀ p ∈ acc, firstIdx pre p.1 < pre.length

theorem firstIdx_snoc_of_lt (pre : List Line) (l : Line) (b : String × String) (h : firstIdx pre b < pre.length) :
    firstIdx (pre ++ [l]) b = firstIdx pre b := by
  unfold firstIdx at *
  rw [List.findIdx_append]
  simp [h]

theorem firstIdx_eq_length_of_size_zero (pre : List Line) (b : String × String) (h : blockSize pre b = 0) :
    firstIdx pre b = pre.length := by
  unfold firstIdx
  apply List.findIdx_eq_length.mpr
  intro x hx
  have := List.countP_eq_zero.mp h x hx
  simpa [inBlock] using this

theorem bcStep_ord (acc : BC) (pre : List Line) (l : Line) (hi : BCInv acc pre) (h : BCOrd acc pre) :
    BCOrd (bcStep acc l) (pre ++ [l]) := by
  obtain ⟨hp, hlt⟩ := h
  unfold bcStep
  by_cases hany : acc.any (fun p => p.1 == (l.chrom, l.ps)) = true
  · simp only [hany, if_true]
    constructor
    · rw [List.pairwise_map]
      refine hp.imp_of_mem ?_
      intro p q hpm hqm hpq
      have e1 : ∀ p : (String × String) × Nat, (if p.1 == (l.chrom, l.ps) then (p.1, p.2 + 1) else p).1 = p.1 := by
        intro p; split <;> rfl
      rw [e1, e1, firstIdx_snoc_of_lt _ _ _ (hlt p hpm), firstIdx_snoc_of_lt _ _ _ (hlt q hqm)]
      exact hpq
    · intro p hpm
      obtain ⟨q, hq, rfl⟩ := List.mem_map.mp hpm
      have e1 : (if q.1 == (l.chrom, l.ps) then (q.1, q.2 + 1) else q).1 = q.1 := by split <;> rfl
      rw [e1, firstIdx_snoc_of_lt _ _ _ (hlt q hq)]
      have := hlt q hq
      simp only [List.length_append, List.length_cons, List.length_nil]
      omega
  · simp only [hany, Bool.false_eq_true, if_false]
    have hz : blockSize pre (l.chrom, l.ps) = 0 := by
      have hk := hi (l.chrom, l.ps)
      by_cases hz : blockSize pre (l.chrom, l.ps) = 0
      · exact hz
      · rw [if_neg hz] at hk
        exfalso; apply hany
        have : ((l.chrom, l.ps), blockSize pre (l.chrom, l.ps)) ∈ acc.filter (fun p => p.1 == (l.chrom, l.ps)) := by
          rw [hk]; exact List.mem_singleton.mpr rfl
        exact List.any_eq_true.mpr ⟨_, (List.mem_filter.mp this).1, by simp⟩
    have hnew : firstIdx (pre ++ [l]) (l.chrom, l.ps) = pre.length := by
      have h0 := firstIdx_eq_length_of_size_zero pre _ hz
      unfold firstIdx at *
      rw [List.findIdx_append]
      simp [h0, inBlock]
    constructor
    · rw [List.pairwise_append]
      refine ⟨?_, List.pairwise_singleton _ _, ?_⟩
      · refine hp.imp_of_mem ?_
        intro p q hpm hqm hpq
        rw [firstIdx_snoc_of_lt _ _ _ (hlt p hpm), firstIdx_snoc_of_lt _ _ _ (hlt q hqm)]
        exact hpq
      · intro p hpm q hqm
        have := List.mem_singleton.mp hqm
        subst this
        rw [firstIdx_snoc_of_lt _ _ _ (hlt p hpm), hnew]
        exact hlt p hpm
    · intro p hpm
      rcases List.mem_append.mp hpm with hpm | hpm
      · rw [firstIdx_snoc_of_lt _ _ _ (hlt p hpm)]
        have := hlt p hpm
        simp only [List.length_append, List.length_cons, List.length_nil]
        omega
      · have := List.mem_singleton.mp hpm
        subst this
        rw [hnew]
        simp

theorem foldl_ord (ls : List Line) : ∀ (acc : BC) (pre : List Line), BCInv acc pre → BCOrd acc pre →
    BCOrd (ls.foldl bcStep acc) (pre ++ ls) := by
  induction ls with
  | nil => intro acc pre _ h; simpa using h
  | cons l t ih =>
    intro acc pre hi h
    have := ih (bcStep acc l) (pre ++ [l]) (bcStep_inv acc pre l hi) (bcStep_ord acc pre l hi h)
    simpa [List.foldl, List.append_assoc] using this

theorem blockCounts_ord (tagged : List Line) : BCOrd (blockCounts tagged) tagged := by
  have := foldl_ord tagged [] [] (by intro key; simp [blockSize]) ⟨List.Pairwise.nil, by simp⟩
  simpa [blockCounts_eq] using this

/-- `max(items, key=count)`: everything before the answer has a strictly smaller count -/
theorem firstMax_first (L : BC) (x : (String × String) × Nat) (h : firstMax L = some x) :
    ∃ pre post, L = pre ++ x :: post ∧ ∀ y ∈ pre, y.2 < x.2 := by
  induction L generalizing x with
  | nil => cases h
  | cons a t ih =>
    simp only [firstMax] at h
    cases hft : firstMax t with
    | none =>
      rw [hft] at h
      cases h
      exact ⟨[], t, rfl, by simp⟩
    | some y =>
      rw [hft] at h
      simp only at h
      split at h
      · cases h
        exact ⟨[], t, rfl, by simp⟩
      · cases h
        rename_i hlt
        obtain ⟨pre, post, he, hpre⟩ := ih _ hft
        refine ⟨a :: pre, post, by rw [he]; rfl, ?_⟩
        intro z hz
        rcases List.mem_cons.mp hz with rfl | hz'
        · omega
        · exact hpre z hz'

/-- among the blocks of its chromosome with as many tagged lines, the selected block is the one whose first line
comes first in the list -/
theorem selected_first_among_ties (tagged : List Line) (b : String × String) (h : b ∈ selectedBlocks tagged)
    (ps : String) (he : blockSize tagged (b.1, ps) = blockSize tagged b) :
    firstIdx tagged b ≤ firstIdx tagged (b.1, ps) := by
  obtain ⟨n, hx⟩ := mem_selectedBlocks tagged b h
  obtain ⟨hm, _⟩ := firstMax_some _ _ hx
  have hb := (mem_blockCounts tagged b n).mp (List.mem_filter.mp hm).1
  obtain ⟨pre, post, hL, hpre⟩ := firstMax_first _ _ hx
  have hin : ((b.1, ps), n) ∈ (blockCounts tagged).filter (fun p => p.1.1 == b.1) := by
    refine List.mem_filter.mpr ⟨(mem_blockCounts tagged _ _).mpr ⟨by rw [he]; exact hb.1, hb.2⟩, by simp⟩
  have hord : ((blockCounts tagged).filter (fun p => p.1.1 == b.1)).Pairwise
      (fun p q => firstIdx tagged p.1 < firstIdx tagged q.1) := (blockCounts_ord tagged).1.filter _
  rw [hL] at hin hord
  rcases List.mem_append.mp hin with hi | hi
  · have := hpre _ hi
    simp at this
  · rcases List.mem_cons.mp hi with hi | hi
    · have : (b.1, ps) = b := congrArg Prod.fst hi
      rw [this]; exact Nat.le_refl _
    · have := (List.pairwise_cons.mp (List.pairwise_append.mp hord).2.1).1 _ hi
      exact Nat.le_of_lt this

theorem firstIdx_lt_of_size_pos (tagged : List Line) (b : String × String) (h : 0 < blockSize tagged b) :
    firstIdx tagged b < tagged.length := by
  unfold firstIdx
  apply List.findIdx_lt_length_of_exists
  obtain ⟨l, hl, hp⟩ := List.countP_pos_iff.mp h
  exact ⟨l, hl, hp⟩

/-- the selected blocks are exactly the "first largest" blocks: a function of the tagged lines in list order -/
theorem selected_iff_firstLargest (tagged : List Line) (b : String × String) :
    b ∈ selectedBlocks tagged ↔ IsFirstLargest tagged b := by
  constructor
  · intro h
    exact ⟨selected_isLargest tagged b h, fun ps he => selected_first_among_ties tagged b h ps he⟩
  · rintro ⟨⟨hpos, hmax⟩, hfirst⟩
    obtain ⟨l, hl, hp⟩ := List.countP_pos_iff.mp hpos
    have hlc : l.chrom = b.1 := by simp only [Bool.and_eq_true, beq_iff_eq] at hp; exact hp.1
    obtain ⟨b', hb', hc'⟩ := selected_exists tagged l hl
    have hc : b'.1 = b.1 := hc'.trans hlc
    obtain ⟨hpos', hmax'⟩ := selected_isLargest tagged b' hb'
    -- equal sizes
    have hbe : b = (b.1, b.2) := rfl
    have hbe' : b' = (b.1, b'.2) := by rw [← hc]
    have s1 : blockSize tagged b ≤ blockSize tagged b' := by
      have := hmax' b.2; rw [hc] at this; exact this
    have s2 : blockSize tagged b' ≤ blockSize tagged b := by
      have := hmax b'.2; rw [← hbe'] at this; exact this
    have hse : blockSize tagged (b.1, b'.2) = blockSize tagged b := by rw [← hbe']; omega
    have f1 : firstIdx tagged b ≤ firstIdx tagged b' := by have := hfirst b'.2 hse; rwa [← hbe'] at this
    have f2 : firstIdx tagged b' ≤ firstIdx tagged b := by
      have := selected_first_among_ties tagged b' hb' b.2 (by rw [hc]; show blockSize tagged b = _; omega)
      rw [hc] at this; exact this
    have fe : firstIdx tagged b = firstIdx tagged b' := by omega
    have hlt := firstIdx_lt_of_size_pos tagged b hpos
    have hlt' : firstIdx tagged b' < tagged.length := by rw [← fe]; exact hlt
    have g1 : inBlock b (tagged[firstIdx tagged b]) = true := List.findIdx_getElem (w := hlt)
    have g2 : inBlock b' (tagged[firstIdx tagged b']) = true := List.findIdx_getElem (w := hlt')
    have g2' : inBlock b' (tagged[firstIdx tagged b]) = true := by
      have : tagged[firstIdx tagged b] = tagged[firstIdx tagged b'] := by congr 1
      rw [this]; exact g2
    simp only [inBlock, Bool.and_eq_true, beq_iff_eq] at g1 g2'
    have : b = b' := by
      obtain ⟨b1, b2⟩ := b
      obtain ⟨b1', b2'⟩ := b'
      simp only at g1 g2'
      exact Prod.ext (g1.1.symm.trans g2'.1) (g1.2.symm.trans g2'.2)
    rw [this]; exact hb'

/-! ### the input iterators -/

theorem bamYield_eq (r : BamRec) (i : Nat) : bamYield r i = [(r.name, bamLen r.seqLen r.cigar, i)] := by
  unfold bamYield bamLen inferQlen
  by_cases h : r.seqLen > 0
  · simp [h]
  · simp only [h, if_false]
    cases hc : r.cigar with
    | nil => simp
    | cons a t => simp

theorem bamIter_eq (rs : List BamRec) : ∀ i, bamIter i rs =
    (rs.zipIdx i).map (fun q => (q.1.name, bamLen q.1.seqLen q.1.cigar, q.2)) := by
  induction rs with
  | nil => intro i; rfl
  | cons r rs ih => intro i; simp [bamIter, bamYield_eq, ih (i + 1), List.zipIdx_cons]

theorem fastqIter_eq (rs : List FqRec) : ∀ i, fastqIter i rs =
    (rs.zipIdx i).map (fun q => (fastqName q.1.title, fastqLen q.1.seqLines.flatten, q.2)) := by
  induction rs with
  | nil => intro i; rfl
  | cons r rs ih => intro i; simp [fastqIter, ih (i + 1), List.zipIdx_cons]

theorem zipIdx_map_snd {α : Type} (rs : List α) : ∀ i, (rs.zipIdx i).map (·.2) = List.range' i rs.length := by
  induction rs with
  | nil => intro i; rfl
  | cons r rs ih => intro i; simp [List.zipIdx_cons, ih (i + 1), List.range'_succ]

theorem zipIdx_map_fst {α : Type} (rs : List α) : ∀ i, (rs.zipIdx i).map (·.1) = rs := by
  induction rs with
  | nil => intro i; rfl
  | cons r rs ih => intro i; simp [List.zipIdx_cons, ih (i + 1)]

end WhVerif.Lemmas.C14

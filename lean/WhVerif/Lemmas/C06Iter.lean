import WhVerif.Model.C06
/-! Lemmas on `_iterate_cigar`: the lock-step walk equals the per-position coordinate map `locate`. -/
namespace WhVerif.C06

/-- strictly increasing positions -/
def SortedV (vs : List VarRef) : Prop := vs.Pairwise (fun a b => a.2 < b.2)

def yieldOfLoc (v : VarRef) (t : Nat × Nat × Nat) : Yield := ⟨v.1, t.1, t.2.1, t.2.2⟩

/-- the specification side: look every variant up on its own -/
def locateAll (i rp qp : Nat) (c : Cigar) (vs : List VarRef) : List Yield :=
  vs.filterMap (fun v => (locate v.2 i rp qp c).map (yieldOfLoc v))

theorem walkRegion_ok (mk : VarRef → Option Yield) (rp b : Nat) (vs : List VarRef) (hge : ∀ v ∈ vs, rp ≤ v.2) :
    walkRegion mk rp b vs = ((vs.takeWhile (fun v => v.2 < b)).filterMap mk, none, vs.dropWhile (fun v => v.2 < b)) := by
  induction vs with
  | nil => simp [walkRegion]
  | cons v vs ih =>
    have h1 : ¬ v.2 < rp := by have := hge v (by simp); omega
    have ih' := ih (fun w hw => hge w (by simp [hw]))
    simp only [walkRegion]
    by_cases hb : v.2 < b
    · simp only [hb, if_true, h1, if_false, ih', List.takeWhile_cons, List.dropWhile_cons, decide_true]
      cases hmk : mk v <;> simp [List.filterMap_cons, hmk]
    · simp [hb]

theorem dropWhile_sorted_ge (vs : List VarRef) (hs : SortedV vs) (b : Nat) :
    ∀ v ∈ vs.dropWhile (fun v => v.2 < b), b ≤ v.2 := by
  induction vs with
  | nil => simp
  | cons v vs ih =>
    simp only [SortedV, List.pairwise_cons] at hs
    simp only [List.dropWhile_cons]
    by_cases hb : v.2 < b
    · simp only [hb, decide_true, if_true]; exact ih hs.2
    · simp only [hb, decide_false]
      intro w hw
      rcases List.mem_cons.1 hw with rfl | hw
      · omega
      · have := hs.1 w hw; omega

theorem sorted_dropWhile (vs : List VarRef) (hs : SortedV vs) (p : VarRef → Bool) : SortedV (vs.dropWhile p) :=
  List.Pairwise.sublist (List.dropWhile_sublist p) hs

theorem locate_lt (p i rp qp : Nat) (c : Cigar) (h : p < rp) : locate p i rp qp c = none := by
  induction c generalizing i rp qp with
  | nil => rfl
  | cons x rest ih =>
    obtain ⟨op, len⟩ := x
    have n1 : ¬ (rp ≤ p ∧ p < rp + len) := by omega
    have n2 : ¬ p = rp := by omega
    simp only [locate, n1, n2, if_false]
    have := ih (i + 1) (rp + len) qp (by omega)
    have := ih (i + 1) (rp + len) (qp + len) (by omega)
    have := ih (i + 1) rp (qp + len) h
    have := ih (i + 1) rp qp h
    split <;> (try split) <;> (try split) <;> (try split) <;> (try split) <;> simp_all

theorem locateAll_append (i rp qp : Nat) (c : Cigar) (a b : List VarRef) :
    locateAll i rp qp c (a ++ b) = locateAll i rp qp c a ++ locateAll i rp qp c b := by
  simp [locateAll, List.filterMap_append]

theorem locateAll_congr (vs : List VarRef) (f g : VarRef → Option Yield) (h : ∀ v ∈ vs, f v = g v) :
    vs.filterMap f = vs.filterMap g := by
  induction vs with
  | nil => rfl
  | cons v vs ih =>
    simp only [List.filterMap_cons, h v (by simp), ih (fun w hw => h w (by simp [hw]))]

theorem mem_takeWhile' {α} (p : α → Bool) (l : List α) : ∀ v ∈ l.takeWhile p, p v = true ∧ v ∈ l := by
  induction l with
  | nil => simp
  | cons x xs ih =>
    intro v hv
    simp only [List.takeWhile_cons] at hv
    by_cases hx : p x = true
    · simp only [hx, if_true] at hv
      rcases List.mem_cons.1 hv with rfl | hv
      · exact ⟨hx, by simp⟩
      · exact ⟨(ih v hv).1, by simp [(ih v hv).2]⟩
    · simp [hx] at hv

theorem takeWhile_lt (vs : List VarRef) (b : Nat) : ∀ v ∈ vs.takeWhile (fun v => v.2 < b), v.2 < b := by
  intro v hv
  simpa using (mem_takeWhile' _ _ v hv).1

theorem isMatch_1 : isMatch 1 = false := by decide
theorem isMatch_2 : isMatch 2 = false := by decide
theorem isMatch_3 : isMatch 3 = false := by decide
theorem isMatch_4 : isMatch 4 = false := by decide

/-- the lock-step walk is the per-position lookup, for strictly increasing positions not left of the cursor and
operators 0–8 -/
theorem iterGo_eq_locateAll (c : Cigar) (hops : ∀ p ∈ c, p.1 ≤ 8) (i rp qp : Nat) (vs : List VarRef)
    (hs : SortedV vs) (hge : ∀ v ∈ vs, rp ≤ v.2) :
    iterGo i rp qp vs c = (locateAll i rp qp c vs, none) := by
  induction c generalizing i rp qp vs with
  | nil => simp [iterGo, locateAll, locate]
  | cons x rest ih =>
    obtain ⟨op, len⟩ := x
    have hop : op ≤ 8 := hops (op, len) (by simp)
    have ih' := fun i rp qp vs hs hge => ih (fun p hp => hops p (by simp [hp])) i rp qp vs hs hge
    have hsplit := List.takeWhile_append_dropWhile (p := fun v : VarRef => decide (v.2 < rp + len)) (l := vs)
    have hdge := dropWhile_sorted_ge vs hs (rp + len)
    have hdso := sorted_dropWhile vs hs (fun v => decide (v.2 < rp + len))
    have htk := takeWhile_lt vs (rp + len)
    have htge : ∀ v ∈ vs.takeWhile (fun v => decide (v.2 < rp + len)), rp ≤ v.2 :=
      fun v hv => hge v (mem_takeWhile' _ _ v hv).2
    simp only [iterGo]
    by_cases hm : isMatch op = true
    · simp only [hm, if_true, walkRegion_ok _ rp (rp + len) vs hge, ih' (i + 1) (rp + len) (qp + len) _ hdso hdge]
      congr 1
      conv => rhs; rw [← hsplit, locateAll_append]
      congr 1
      · apply locateAll_congr
        intro v hv
        have h1 := htk v hv; have h2 := htge v hv
        simp [locate, hm, h1, h2, yieldOfLoc]; omega
      · apply locateAll_congr
        intro v hv
        have h1 := hdge v hv
        have : ¬ (rp ≤ v.2 ∧ v.2 < rp + len) := by omega
        simp [locate, hm, this]
    · have hm' : isMatch op = false := by simpa using hm
      simp only [hm', Bool.false_eq_true, if_false]
      by_cases h1 : op = 1
      · subst h1
        simp only [beq_self_eq_true, if_true]
        cases vs with
        | nil => simp [ih' (i + 1) rp (qp + len) [] (by simp [SortedV]) (by simp), locateAll]
        | cons v vs' =>
          simp only [SortedV, List.pairwise_cons] at hs
          by_cases hv : v.2 = rp
          · have hge' : ∀ w ∈ vs', rp ≤ w.2 := fun w hw => hge w (by simp [hw])
            simp only [hv, beq_self_eq_true, if_true, ih' (i + 1) rp (qp + len) vs' hs.2 hge']
            have e : locateAll i rp qp ((1, len) :: rest) (v :: vs') =
                ⟨v.1, i, 0, qp⟩ :: locateAll i rp qp ((1, len) :: rest) vs' := by
              simp [locateAll, locate, isMatch_1, hv, yieldOfLoc]
            rw [e]
            simp only [locateAll]
            congr 2
            apply locateAll_congr
            intro w hw
            have : ¬ w.2 = rp := by have := hs.1 w hw; omega
            simp [locate, isMatch_1, this]
          · have hv' : (v.2 == rp) = false := by simpa using hv
            simp only [hv', Bool.false_eq_true, if_false, ih' (i + 1) rp (qp + len) (v :: vs') (by simpa [SortedV] using hs) hge]
            congr 1
            apply locateAll_congr
            intro w hw
            have : ¬ w.2 = rp := by
              rcases List.mem_cons.1 hw with rfl | hw
              · exact hv
              · have := hs.1 w hw; have := hge v (by simp); omega
            simp [locate, isMatch_1, this]
      · have h1' : (op == 1) = false := by simpa using h1
        simp only [h1', Bool.false_eq_true, if_false]
        by_cases h2 : op = 2
        · subst h2
          simp only [beq_self_eq_true, if_true, walkRegion_ok _ rp (rp + len) vs hge, ih' (i + 1) (rp + len) qp _ hdso hdge]
          congr 1
          conv => rhs; rw [← hsplit, locateAll_append]
          congr 1
          · apply locateAll_congr
            intro v hv
            have h1 := htk v hv; have h2 := htge v hv
            simp [locate, isMatch_2, h1, h2, yieldOfLoc]
          · apply locateAll_congr
            intro v hv
            have h1 := hdge v hv
            have : ¬ (rp ≤ v.2 ∧ v.2 < rp + len) := by omega
            simp [locate, isMatch_2, this]
        · have h2' : (op == 2) = false := by simpa using h2
          simp only [h2', Bool.false_eq_true, if_false]
          by_cases h3 : op = 3
          · subst h3
            simp only [beq_self_eq_true, if_true, walkRegion_ok _ rp (rp + len) vs hge, ih' (i + 1) (rp + len) qp _ hdso hdge]
            congr 1
            conv => rhs; rw [← hsplit, locateAll_append]
            have e1 : (List.takeWhile (fun v : VarRef => decide (v.2 < rp + len)) vs).filterMap (fun _ => (none : Option Yield)) = [] := by
              induction (List.takeWhile (fun v : VarRef => decide (v.2 < rp + len)) vs) <;> simp_all
            rw [e1]
            have e2 : locateAll i rp qp ((3, len) :: rest) (List.takeWhile (fun v : VarRef => decide (v.2 < rp + len)) vs) = [] := by
              unfold locateAll
              rw [List.filterMap_eq_nil_iff]
              intro v hv
              have h1 := htk v hv; have h2 := htge v hv
              simp [locate, isMatch_3, h1, h2]
            rw [e2]
            simp only [List.nil_append]
            apply locateAll_congr
            intro v hv
            have h1 := hdge v hv
            have : ¬ (rp ≤ v.2 ∧ v.2 < rp + len) := by omega
            simp [locate, isMatch_3, this]
          · have h3' : (op == 3) = false := by simpa using h3
            simp only [h3', Bool.false_eq_true, if_false]
            by_cases h4 : op = 4
            · subst h4
              simp only [beq_self_eq_true, if_true, ih' (i + 1) rp (qp + len) vs hs hge]
              congr 1
            · have h4' : (op == 4) = false := by simpa using h4
              have h56 : (op == 5 || op == 6) = true := by
                simp only [isMatch, Bool.or_eq_false_iff, beq_eq_false_iff_ne] at hm'
                simp only [Bool.or_eq_true, beq_iff_eq]; omega
              simp only [h4', Bool.false_eq_true, if_false, h56, if_true, ih' (i + 1) rp qp vs hs hge]
              congr 1
              apply locateAll_congr
              intro v _
              simp [locate, hm', h1', h2', h3', h4']

end WhVerif.C06

import WhVerif.Model.C07
import WhVerif.Spec.C07
/-!
# C07 helper lemmas, part A: sets as lists, coverage arithmetic, generic loop invariants, the
# cap/subset invariant `Good` (holds for the code as it is and for the repaired code).
-/
namespace WhVerif.C07

/-! ## `insertNew`, `union`, `dedup` -/

theorem mem_insertNew {x y : Nat} {acc : List Nat} : y ∈ insertNew x acc ↔ y = x ∨ y ∈ acc := by
  unfold insertNew
  split
  · rename_i h
    have : x ∈ acc := List.contains_iff_mem.mp h
    constructor
    · intro hy; exact Or.inr hy
    · rintro (rfl | hy)
      · exact this
      · exact hy
  · simp

theorem nodup_insertNew {x : Nat} {acc : List Nat} (h : acc.Nodup) : (insertNew x acc).Nodup := by
  unfold insertNew
  split
  · exact h
  · rename_i hc
    have : x ∉ acc := fun hx => hc (List.contains_iff_mem.mpr hx)
    exact List.nodup_cons.mpr ⟨this, h⟩

theorem insertNew_of_mem {x : Nat} {acc : List Nat} (h : x ∈ acc) : insertNew x acc = acc := by
  unfold insertNew; simp [h]

theorem insertNew_of_not_mem {x : Nat} {acc : List Nat} (h : x ∉ acc) : insertNew x acc = x :: acc := by
  unfold insertNew; simp [h]

@[simp] theorem union_nil (b : List Nat) : union [] b = b := rfl
@[simp] theorem union_cons (x : Nat) (a b : List Nat) : union (x :: a) b = insertNew x (union a b) := rfl

theorem mem_union {y : Nat} {a b : List Nat} : y ∈ union a b ↔ y ∈ a ∨ y ∈ b := by
  induction a with
  | nil => simp
  | cons x a ih => simp [mem_insertNew, ih, or_assoc]

theorem nodup_union {a b : List Nat} (h : b.Nodup) : (union a b).Nodup := by
  induction a with
  | nil => simpa
  | cons x a ih => simpa using nodup_insertNew ih

theorem union_insertNew (i : Nat) (a b : List Nat) : union (insertNew i a) b = insertNew i (union a b) := by
  by_cases h : i ∈ a
  · rw [insertNew_of_mem h, insertNew_of_mem (mem_union.mpr (Or.inl h))]
  · rw [insertNew_of_not_mem h]; rfl

theorem mem_dedup {y : Nat} {l : List Nat} : y ∈ dedup l ↔ y ∈ l := by
  simp [dedup, mem_union]

theorem mem_positions {reads : List Read} {p : Nat} : p ∈ positions reads ↔ ∃ r ∈ reads, p ∈ r.pos := by
  simp [positions, mem_dedup, List.mem_flatMap]

/-! ## coverage arithmetic -/

theorem cov_at_add (c : Cov) (r : Read) (p : Nat) :
    (c.add r).at p = c.at p + (if r.spans p then 1 else 0) := by
  simp [Cov.add, Cov.at, Read.spans, List.countP_cons]

theorem cov_at_le_add (c : Cov) (r : Read) (p : Nat) : c.at p ≤ (c.add r).at p := by
  rw [cov_at_add]; omega

theorem countSel_cons (reads : List Read) (i : Nat) (sel : List Nat) (p : Nat) :
    countSel reads (i :: sel) p = countSel reads sel p + (if (getRead reads i).spans p then 1 else 0) := by
  simp [countSel, List.countP_cons]

theorem blocked_false_iff {P : List Nat} {c : Cov} {k : Nat} {r : Read} :
    blocked P c k r = false ↔ ∀ p ∈ P, r.spans p = true → c.at p < k := by
  simp only [blocked, List.any_eq_false, Bool.and_eq_true, decide_eq_true_eq, not_and, Nat.not_le]

theorem blocked_true_iff {P : List Nat} {c : Cov} {k : Nat} {r : Read} :
    blocked P c k r = true ↔ ∃ p ∈ P, r.spans p = true ∧ k ≤ c.at p := by
  simp only [blocked, List.any_eq_true, Bool.and_eq_true, decide_eq_true_eq]

theorem blocked_mono {P : List Nat} {c : Cov} {k : Nat} {r r' : Read}
    (h : blocked P c k r = true) : blocked P (c.add r') k r = true := by
  rw [blocked_true_iff] at *
  obtain ⟨p, hp, hs, hk⟩ := h
  exact ⟨p, hp, hs, Nat.le_trans hk (cov_at_le_add c r' p)⟩

/-! ## the abstract pop -/

theorem popChoice_spec {pq : List Entry} {c ci : Nat} {e : Entry} {pq' : List Entry}
    (h : popChoice pq c = some (ci, e, pq')) :
    ∃ j, ∃ hj : j < pq.length, e = pq[j] ∧ pq' = pq.eraseIdx j := by
  unfold popChoice at h
  match pq, h with
  | x :: xs, h =>
    simp only [Option.some.injEq, Prod.mk.injEq] at h
    obtain ⟨-, he, hq⟩ := h
    -- the index is in range: either an element of `maxIdx` (a filtered `range`) or the fallback 0
    have hj : (maxIdx (x :: xs)).getD (c % (maxIdx (x :: xs)).length) 0 < (x :: xs).length := by
      by_cases hm : c % (maxIdx (x :: xs)).length < (maxIdx (x :: xs)).length
      · have hmem : (maxIdx (x :: xs)).getD (c % (maxIdx (x :: xs)).length) 0 ∈ maxIdx (x :: xs) := by
          rw [List.getD_eq_getElem?_getD, List.getElem?_eq_getElem hm]
          exact List.getElem_mem hm
        unfold maxIdx at hmem
        exact List.mem_range.mp (List.mem_filter.mp hmem).1
      · rw [List.getD_eq_getElem?_getD, List.getElem?_eq_none (by omega)]
        simp
    refine ⟨_, hj, ?_, hq.symm⟩
    rw [← he, List.getD_eq_getElem?_getD, List.getElem?_eq_getElem hj]
    rfl

theorem popChoice_none {pq : List Entry} {c : Nat} (h : popChoice pq c = none) : pq = [] := by
  unfold popChoice at h
  match pq, h with
  | [], _ => rfl

theorem popChoice_mem {pq : List Entry} {c ci : Nat} {e : Entry} {pq' : List Entry}
    (h : popChoice pq c = some (ci, e, pq')) : e ∈ pq := by
  obtain ⟨j, hj, he, -⟩ := popChoice_spec h
  rw [he]; exact List.getElem_mem hj

theorem popChoice_sub {pq : List Entry} {c ci : Nat} {e : Entry} {pq' : List Entry}
    (h : popChoice pq c = some (ci, e, pq')) : ∀ x ∈ pq', x ∈ pq := by
  obtain ⟨j, hj, -, hq⟩ := popChoice_spec h
  intro x hx; rw [hq] at hx; exact List.mem_of_mem_eraseIdx hx

theorem popChoice_length {pq : List Entry} {c ci : Nat} {e : Entry} {pq' : List Entry}
    (h : popChoice pq c = some (ci, e, pq')) : pq'.length + 1 = pq.length := by
  obtain ⟨j, hj, -, hq⟩ := popChoice_spec h
  rw [hq, List.length_eraseIdx]; simp [hj]; omega

/-! ## generic loop invariants -/

/-- state handed to `sliceStep` after a pop -/
def SliceSt.popped (st : SliceSt) (ci : Nat) (pq' : List Entry) : SliceSt :=
  { st with pq := pq', choices := st.choices.tail, trace := ci :: st.trace }

def BridgeSt.popped (st : BridgeSt) (ci : Nat) (pq' : List Entry) : BridgeSt :=
  { st with pq := pq', choices := st.choices.tail, trace := ci :: st.trace }

theorem sliceLoop_induct (reads : List Read) (P : List Nat) (k : Nat) (Inv : SliceSt → Prop)
    (hstep : ∀ st c ci e pq', popChoice st.pq c = some (ci, e, pq') → Inv st →
      Inv (sliceStep reads P k (st.popped ci pq') e)) :
    ∀ n st, Inv st → Inv (sliceLoop reads P k n st) := by
  intro n
  induction n with
  | zero => intro st h; simpa [sliceLoop] using h
  | succ n ih =>
    intro st h
    unfold sliceLoop
    split
    · exact h
    · rename_i ci e pq' hp
      exact ih _ (hstep st _ ci e pq' hp h)

theorem bridgeLoop_induct (reads : List Read) (P : List Nat) (k : Nat) (Inv : BridgeSt → Prop)
    (hstep : ∀ st c ci e pq', popChoice st.pq c = some (ci, e, pq') → Inv st →
      Inv (bridgeStep reads P k (st.popped ci pq') e)) :
    ∀ n st, Inv st → Inv (bridgeLoop reads P k n st) := by
  intro n
  induction n with
  | zero => intro st h; simpa [bridgeLoop] using h
  | succ n ih =>
    intro st h
    unfold bridgeLoop
    split
    · exact h
    · rename_i ci e pq' hp
      exact ih _ (hstep st _ ci e pq' hp h)

theorem helperLoop_induct (reads : List Read) (P : List Nat) (k : Nat) (br : Bool) (Inv : HSt → Prop)
    (hstep : ∀ st, st.undecided ≠ [] → Inv st → Inv (helperIter reads P k br st)) :
    ∀ n st, Inv st → Inv (helperLoop reads P k br n st) := by
  intro n
  induction n with
  | zero => intro st h; simpa [helperLoop] using h
  | succ n ih =>
    intro st h
    unfold helperLoop
    split
    · exact h
    · rename_i hne
      exact ih _ (hstep st (by intro h0; simp [h0] at hne) h)

/-! ## the cap / subset invariant -/

/-- `sel` is a duplicate-free set of read indices, the monitor dominates the true span counts and never
exceeds `k` on a variant of the read set -/
def Good (reads : List Read) (P : List Nat) (k : Nat) (cov : Cov) (sel : List Nat) : Prop :=
  sel.Nodup ∧ (∀ i ∈ sel, i < reads.length) ∧ (∀ p, countSel reads sel p ≤ cov.at p) ∧ (∀ p ∈ P, cov.at p ≤ k)

theorem good_select {reads : List Read} {P : List Nat} {k : Nat} {cov : Cov} {sel : List Nat} {i : Nat}
    (h : Good reads P k cov sel) (hi : i < reads.length)
    (hb : blocked P cov k (getRead reads i) = false) :
    Good reads P k (cov.add (getRead reads i)) (insertNew i sel) := by
  obtain ⟨hnd, hlt, hcnt, hcap⟩ := h
  refine ⟨nodup_insertNew hnd, ?_, ?_, ?_⟩
  · intro j hj
    rcases mem_insertNew.mp hj with rfl | hj
    · exact hi
    · exact hlt j hj
  · intro p
    by_cases hm : i ∈ sel
    · rw [insertNew_of_mem hm]
      exact Nat.le_trans (hcnt p) (cov_at_le_add _ _ _)
    · rw [insertNew_of_not_mem hm, countSel_cons, cov_at_add]
      have := hcnt p
      omega
  · intro p hp
    rw [cov_at_add]
    have h1 := hcap p hp
    split
    · rename_i hs
      have := blocked_false_iff.mp hb p hp hs
      omega
    · omega

/-- slice-level invariant: queue items are read indices, and `Good` for the monitor against
`selected ∪ reads_in_slice` -/
def SliceGood (reads : List Read) (P : List Nat) (k : Nat) (sel : List Nat) (st : SliceSt) : Prop :=
  (∀ e ∈ st.pq, e.item < reads.length) ∧ Good reads P k st.cov (union st.inSlice sel)

theorem sliceStep_pq_items (reads : List Read) (P : List Nat) (k : Nat) (st : SliceSt) (e : Entry) :
    (sliceStep reads P k st e).pq.map (·.item) = st.pq.map (·.item) := by
  unfold sliceStep
  simp only
  split
  · rfl
  · split
    · simp only [List.map_map]
      apply List.map_congr_left
      intro f _
      simp only [Function.comp]
      split <;> rfl
    · rfl

theorem mem_items_of_map_eq {a b : List Entry} (h : a.map (·.item) = b.map (·.item)) {e : Entry} (he : e ∈ a) :
    ∃ f ∈ b, f.item = e.item := by
  have : e.item ∈ a.map (·.item) := List.mem_map.mpr ⟨e, he, rfl⟩
  rw [h] at this
  obtain ⟨f, hf, hfe⟩ := List.mem_map.mp this
  exact ⟨f, hf, hfe⟩

theorem sliceStep_good {reads : List Read} {P : List Nat} {k : Nat} {sel : List Nat} {st : SliceSt} {e : Entry}
    (h : SliceGood reads P k sel st) (hi : e.item < reads.length) :
    SliceGood reads P k sel (sliceStep reads P k st e) := by
  obtain ⟨hpq, hg⟩ := h
  refine ⟨?_, ?_⟩
  · intro f hf
    obtain ⟨g, hg', hge⟩ := mem_items_of_map_eq (sliceStep_pq_items reads P k st e) hf
    rw [← hge]; exact hpq g hg'
  · unfold sliceStep
    simp only
    split
    · exact hg
    · rename_i hb
      split
      · simp only
        rw [union_insertNew]
        exact good_select hg hi (by simpa using hb)
      · exact hg

theorem sliceLoop_good {reads : List Read} {P : List Nat} {k : Nat} {sel : List Nat} (n : Nat) (st : SliceSt)
    (h : SliceGood reads P k sel st) : SliceGood reads P k sel (sliceLoop reads P k n st) := by
  apply sliceLoop_induct reads P k (SliceGood reads P k sel) _ n st h
  intro st c ci e pq' hp hinv
  apply sliceStep_good
  · exact ⟨fun f hf => hinv.1 f (popChoice_sub hp f hf), hinv.2⟩
  · exact hinv.1 e (popChoice_mem hp)

/-- bridging-level invariant -/
def BridgeGood (reads : List Read) (P : List Nat) (k : Nat) (st : BridgeSt) : Prop :=
  (∀ e ∈ st.pq, e.item < reads.length) ∧ (∀ i ∈ st.undecided, i < reads.length) ∧
  Good reads P k st.cov st.selected

theorem bridgeStep_good {reads : List Read} {P : List Nat} {k : Nat} {st : BridgeSt} {e : Entry}
    (h : BridgeGood reads P k st) (hi : e.item < reads.length) :
    BridgeGood reads P k (bridgeStep reads P k st e) := by
  obtain ⟨hpq, hu, hg⟩ := h
  unfold bridgeStep
  simp only
  split
  · exact ⟨hpq, fun i hi' => hu i (List.mem_filter.mp hi').1, hg⟩
  · rename_i hb
    split
    · exact ⟨hpq, hu, hg⟩
    · exact ⟨hpq, fun i hi' => hu i (List.mem_filter.mp hi').1, good_select hg hi (by simpa using hb)⟩

theorem bridgeLoop_good {reads : List Read} {P : List Nat} {k : Nat} (n : Nat) (st : BridgeSt)
    (h : BridgeGood reads P k st) : BridgeGood reads P k (bridgeLoop reads P k n st) := by
  apply bridgeLoop_induct reads P k (BridgeGood reads P k) _ n st h
  intro st c ci e pq' hp hinv
  apply bridgeStep_good
  · exact ⟨fun f hf => hinv.1 f (popChoice_sub hp f hf), hinv.2.1, hinv.2.2⟩
  · exact hinv.1 e (popChoice_mem hp)

/-- helper-level invariant -/
def HGood (reads : List Read) (P : List Nat) (k : Nat) (st : HSt) : Prop :=
  (∀ i ∈ st.undecided, i < reads.length) ∧ Good reads P k st.cov st.selected

theorem mkQueue_items (reads : List Read) (P : List Nat) (items : List Nat) :
    (mkQueue reads P items).map (·.item) = items := by
  unfold mkQueue
  induction items with
  | nil => rfl
  | cons x xs ih => simp [ih]

theorem mem_mkQueue {reads : List Read} {P : List Nat} {items : List Nat} {e : Entry}
    (h : e ∈ mkQueue reads P items) : e.item ∈ items := by
  have : e.item ∈ (mkQueue reads P items).map (·.item) := List.mem_map.mpr ⟨e, h, rfl⟩
  rwa [mkQueue_items] at this

theorem helperIter_good {reads : List Read} {P : List Nat} {k : Nat} {br : Bool} {st : HSt}
    (h : HGood reads P k st) : HGood reads P k (helperIter reads P k br st) := by
  obtain ⟨hu, hg⟩ := h
  have hs0 : SliceGood reads P k st.selected (sliceInit reads P st) :=
    ⟨fun e he => hu _ (mem_mkQueue he), by simpa [sliceInit] using hg⟩
  have hs := sliceLoop_good (sliceInit reads P st).pq.length _ hs0
  have hb0 : BridgeGood reads P k (bridgeInit reads P st
      (sliceLoop reads P k (sliceInit reads P st).pq.length (sliceInit reads P st))) := by
    refine ⟨?_, ?_, ?_⟩
    · intro e he
      exact hu _ (List.mem_filter.mp (mem_mkQueue he)).1
    · intro i hi
      exact hu _ (List.mem_filter.mp hi).1
    · exact hs.2
  unfold helperIter
  simp only
  split
  · have := bridgeLoop_good (bridgeInit reads P st
      (sliceLoop reads P k (sliceInit reads P st).pq.length (sliceInit reads P st))).pq.length _ hb0
    exact ⟨this.2.1, this.2.2⟩
  · exact ⟨hb0.2.1, hb0.2.2⟩

theorem helper_good {reads : List Read} {P : List Nat} {k : Nat} {br : Bool} {st : HSt}
    (h : HGood reads P k st) : HGood reads P k (helper reads P k br st) := by
  unfold helper
  exact helperLoop_induct reads P k br (HGood reads P k) (fun st _ h => helperIter_good h) _ st h

theorem mem_preferredIdx {reads : List Read} {i : Nat} (h : i ∈ preferredIdx reads) : i < reads.length :=
  List.mem_range.mp (List.mem_filter.mp h).1

/-- both phases of `readselection` (as it is and repaired) end in a `Good` state -/
theorem phases_good (fixed : Bool) (reads : List Read) (k : Nat) (br : Bool) (choices : List Nat) :
    HGood reads (positions reads) k (phases fixed reads k br choices).2 := by
  unfold phases
  simp only
  have h0 : Good reads (positions reads) k [] [] :=
    ⟨List.nodup_nil, by simp, by simp [countSel, Cov.at], by simp [Cov.at]⟩
  have h1 : HGood reads (positions reads) k
      (if (preferredIdx reads).isEmpty then
        ({ cov := [], selected := [], undecided := [], choices := choices, trace := [] } : HSt)
       else helper reads (positions reads) k br
        { cov := [], selected := [], undecided := preferredIdx reads, choices := choices, trace := [] }) := by
    split
    · exact ⟨by simp, h0⟩
    · exact helper_good ⟨fun i hi => mem_preferredIdx hi, h0⟩
  apply helper_good
  refine ⟨?_, h1.2⟩
  intro i hi
  simp only at hi
  split at hi
  · exact List.mem_range.mp (List.mem_filter.mp hi).1
  · exact List.mem_range.mp hi

end WhVerif.C07

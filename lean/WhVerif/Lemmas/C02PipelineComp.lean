import WhVerif.Lemmas.C02PipelineConn
import WhVerif.Lemmas.C01WitnessMain
/-!
# C02 pipeline, part 2: solver + component stage on error-free instances

* `witness_ok`: the backtrace returns a zero-cost solution;
* `superReads_eq`: the super reads are `(pos[c], colAl c)` for every column, where `colAl c` is the truth up to the
  swap decided by any covering read (`colAl_covered`) or the tie flag `(3, 3)` when no read covers `c`
  (`colAl_uncovered`);
* `component_swap`: all covered columns of one C03 component carry the same swap.
-/
namespace WhVerif.C02P
open WhVerif.C01 WhVerif.C02

variable {I : Inst} {hap : Nat → Nat} {src : Nat → Bool} {pos : List Nat}

theorem optAll_map {α β} (f : α → Option β) (g : α → β) (l : List α) (h : ∀ x ∈ l, f x = some (g x)) :
    optAll (l.map f) = some (l.map g) := by
  induction l with
  | nil => rfl
  | cons a t ih =>
    simp only [List.map_cons, h a List.mem_cons_self, optAll, ih (fun x hx => h x (List.mem_cons_of_mem _ hx)),
      Option.map_some]

/-- the true allele pair of column `c`, exchanged iff `sw` -/
def truthPair (hap : Nat → Nat) (sw : Bool) (c : Nat) : Nat × Nat :=
  if sw then (1 - hap c, hap c) else (hap c, 1 - hap c)

/-- the allele pair `get_alleles` reports for individual 0 in column `c` -/
def colAl (I : Inst) (β : List Bool) (τ : List Nat) (c : Nat) : Nat × Nat :=
  match getAlleles I c (restrict β (I.activeAt c)) (τ.getD c 0) with
  | some (a :: _) => a
  | _ => (3, 3)

theorem witness_ok (h : ErrFree I hap src) (hwf : WF I) :
    ∃ β τ, witness I = some (β, τ) ∧ totalCost I β τ = some 0 := by
  have hz := errfree_dpCost_zero h hwf
  cases hw : witness I with
  | none => rw [(witness_none_iff I).mp hw] at hz; cases hz
  | some bt =>
    obtain ⟨β, τ⟩ := bt
    exact ⟨β, τ, rfl, by rw [(dp_witness I hwf β τ hw).2.2.2, hz]⟩

theorem superColumn_eq (h : ErrFree I hap src) (β : List Bool) (τ : List Nat) {c : Nat} (hc : c < I.ncols) :
    superColumn I pos β τ c = some (posAt pos c, (colAl I β τ c).1, (colAl I β τ c).2) := by
  unfold superColumn colAl
  rw [getAlleles_het h c _ hc]

theorem superReads_eq (h : ErrFree I hap src) {β : List Bool} {τ : List Nat} (hw : witness I = some (β, τ)) :
    superReads I pos = some ((List.range I.ncols).map fun c => (posAt pos c, (colAl I β τ c).1, (colAl I β τ c).2)) := by
  unfold superReads
  rw [hw]
  exact optAll_map _ _ _ (fun c hc => superColumn_eq h β τ (List.mem_range.mp hc))

theorem colAl_covered (h : ErrFree I hap src) {β : List Bool} {τ : List Nat} (hz : totalCost I β τ = some 0)
    {c r : Nat} (hc : c < I.ncols) (hcov : covers I r c) :
    colAl I β τ c = truthPair hap (β.getD r false != src r) c := by
  unfold colAl truthPair
  rw [zero_cost_no_tie h hz c hc _ r hcov]
  cases β.getD r false <;> cases src r <;> simp

theorem colAl_uncovered (h : ErrFree I hap src) (β : List Bool) (τ : List Nat) {c : Nat} (hc : c < I.ncols)
    (hn : ¬ Covered I c) : colAl I β τ c = (3, 3) := by
  unfold colAl
  rw [getAlleles_het h c _ hc]
  have h1 := (viewCost_zero_iff h c (τ.getD c 0) 1 (Or.inl rfl) β).mpr (fun r hr => absurd ⟨r, hr⟩ hn)
  have h2 := (viewCost_zero_iff h c (τ.getD c 0) 2 (Or.inr rfl) β).mpr (fun r hr => absurd ⟨r, hr⟩ hn)
  rw [h1, h2]; simp

theorem truthPair_ne (h : ErrFree I hap src) (sw : Bool) {c : Nat} (hc : c < I.ncols) :
    truthPair hap sw c = (0, 1) ∨ truthPair hap sw c = (1, 0) := by
  have := h.hap01 c hc
  have hx : hap c = 0 ∨ hap c = 1 := by omega
  unfold truthPair
  rcases hx with e | e <;> cases sw <;> simp [e]

/-- two covered columns in the same C03 component are swapped together -/
theorem same_component_same_swap (h : ErrFree I hap src) (hpos : pos.Pairwise (· < ·)) (hlen : pos.length = I.ncols)
    {β : List Bool} {τ : List Nat} (hz : totalCost I β τ = some 0) {c1 r1 c2 r2 : Nat}
    (h1 : c1 < I.ncols) (cov1 : covers I r1 c1) (h2 : c2 < I.ncols) (cov2 : covers I r2 c2)
    (hconn : C03.Connected pos (c03Reads I pos) none none (posAt pos c1) (posAt pos c2)) :
    (β.getD r2 false != src r2) = (β.getD r1 false != src r1) := by
  have hc := conn_bridge h hpos hlen hconn c1 r1 c2 r2 rfl h1 cov1 rfl h2 cov2
  rw [zero_cost_connected h hz hc]
  cases src r2 <;> cases (β.getD r1 false != src r1) <;> rfl

open Classical in
/-- **one swap per component** -/
theorem component_swap (h : ErrFree I hap src) (hpos : pos.Pairwise (· < ·)) (hlen : pos.length = I.ncols)
    {β : List Bool} {τ : List Nat} (hz : totalCost I β τ = some 0) {comps : List (Nat × Nat)}
    (hcomps : components I pos = .ok comps) :
    ∃ swap : Nat → Bool, ∀ c r, c < I.ncols → covers I r c → ∀ m, C03.compOf comps (posAt pos c) = some m →
      colAl I β τ c = truthPair hap (swap m) c := by
  let P : Nat → Nat × Nat → Prop := fun m cr =>
    cr.1 < I.ncols ∧ covers I cr.2 cr.1 ∧ C03.compOf comps (posAt pos cr.1) = some m
  refine ⟨fun m => if hx : ∃ cr, P m cr then
      (β.getD (choose hx).2 false != src (choose hx).2) else false, ?_⟩
  intro c r hc hcov m hm
  have hx : ∃ cr, P m cr := ⟨(c, r), hc, hcov, hm⟩
  simp only [dif_pos hx]
  obtain ⟨h1, cov1, hm1⟩ := choose_spec hx
  have hconn := (WhVerif.Props.C03.components_iff_connected _ _ _ _ _ hcomps _ _
    (posAt_mem pos (by omega)) (posAt_mem pos (by omega))).mp (hm1.trans hm.symm)
  rw [colAl_covered h hz hc hcov, same_component_same_swap h hpos hlen hz h1 cov1 hc hcov hconn]

theorem range_map_posAt (pos : List Nat) : (List.range pos.length).map (posAt pos) = pos := by
  apply List.ext_getElem
  · simp
  · intro i h1 h2
    simp only [List.getElem_map, List.getElem_range]
    exact posAt_eq pos h2

end WhVerif.C02P

import Lean.Data.Json

/-! Line protocol helpers: one JSON object per line in, one JSON value per line out. -/
namespace WhVerif.Proto
open Lean

def getNat? (j : Json) (k : String) : Option Nat :=
  match j.getObjVal? k with
  | .ok v => match v.getNat? with | .ok n => some n | _ => none
  | _ => none

def getInt? (j : Json) (k : String) : Option Int :=
  match j.getObjVal? k with
  | .ok v => match v.getInt? with | .ok n => some n | _ => none
  | _ => none

def getStr? (j : Json) (k : String) : Option String :=
  match j.getObjVal? k with
  | .ok v => match v.getStr? with | .ok n => some n | _ => none
  | _ => none

def getArr? (j : Json) (k : String) : Option (Array Json) :=
  match j.getObjVal? k with
  | .ok v => match v.getArr? with | .ok n => some n | _ => none
  | _ => none

def asNat? (j : Json) : Option Nat := match j.getNat? with | .ok n => some n | _ => none
def asInt? (j : Json) : Option Int := match j.getInt? with | .ok n => some n | _ => none
def asStr? (j : Json) : Option String := match j.getStr? with | .ok n => some n | _ => none
def asArr? (j : Json) : Option (List Json) := match j.getArr? with | .ok n => some n.toList | _ => none
def asBool? (j : Json) : Option Bool := match j.getBool? with | .ok n => some n | _ => none

def natList? (j : Json) : Option (List Nat) := do (← asArr? j).mapM asNat?
def intList? (j : Json) : Option (List Int) := do (← asArr? j).mapM asInt?
def natListList? (j : Json) : Option (List (List Nat)) := do (← asArr? j).mapM natList?
def intListList? (j : Json) : Option (List (List Int)) := do (← asArr? j).mapM intList?

def getNatList? (j : Json) (k : String) : Option (List Nat) :=
  match j.getObjVal? k with | .ok v => natList? v | _ => none
def getIntList? (j : Json) (k : String) : Option (List Int) :=
  match j.getObjVal? k with | .ok v => intList? v | _ => none
def getList? (j : Json) (k : String) : Option (List Json) :=
  match j.getObjVal? k with | .ok v => asArr? v | _ => none
def getBool? (j : Json) (k : String) : Option Bool :=
  match j.getObjVal? k with | .ok v => asBool? v | _ => none
def getObj? (j : Json) (k : String) : Option Json :=
  match j.getObjVal? k with | .ok v => some v | _ => none

def ofNat (n : Nat) : Json := Json.num (JsonNumber.fromNat n)
def ofNatList (l : List Nat) : Json := Json.arr (l.map ofNat).toArray
def ofIntList (l : List Int) : Json := Json.arr (l.map (fun n => Json.num (JsonNumber.fromInt n))).toArray
def ofInt (n : Int) : Json := Json.num (JsonNumber.fromInt n)
def ofOptNat : Option Nat → Json | some n => ofNat n | none => Json.null
def ofList {α} (f : α → Json) (l : List α) : Json := Json.arr (l.map f).toArray

def badInput : Json := Json.mkObj [("error", Json.str "bad-input")]

end WhVerif.Proto

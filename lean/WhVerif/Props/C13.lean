import WhVerif.Model.C13
import WhVerif.Spec.C13
import WhVerif.Lemmas.C13
import WhVerif.Model.C13Header
import WhVerif.Lemmas.C13Header
import WhVerif.Spec.C13Edit
import WhVerif.Lemmas.C13Edit
/-!
# C13 — unphase accepts every VCF, removes all phase information and nothing else

`unphaseFix` is the loop of `run_unphase` after `fixes/F2.patch`, written with Python primitives that can
raise; `unphaseCur` is the loop as it is in HEAD; `unphase` is the total specification-level function.
Addressing: "call j of record i" is `v[i]?.bind (·.calls[j]?)`.
-/
namespace WhVerif.Props.C13
open WhVerif.C13 WhVerif.Lemmas.C13

/-- **total** (repaired code): on every list of records, whatever the shape of the calls (any ploidy, `.`,
partially missing, no GT at all), the repaired loop raises nothing and returns `unphase v`. -/
theorem total (v : List Record) : unphaseFix v = .ok (unphase v) := by
  unfold unphaseFix unphase
  apply mapM_ok
  intro r
  unfold unphaseRecordFix unphaseRecord
  rw [mapM_ok _ _ unphaseCallFix_eq]
  rfl

/-- **no_phase_left**: in the output no genotype is phased and no call has an HP, PQ or PS field. -/
theorem no_phase_left (v : List Record) :
    ∀ r ∈ unphase v, ∀ c ∈ r.calls,
      (∀ g, c.gt = some g → g.phased = false) ∧ (∀ kv ∈ c.fields, isPhaseTag kv.1 = false) := by
  intro r hr c hc
  simp only [unphase, List.mem_map] at hr
  obtain ⟨r0, _, rfl⟩ := hr
  simp only [unphaseRecord, List.mem_map] at hc
  obtain ⟨c0, _, rfl⟩ := hc
  refine ⟨?_, stripTags_no_tag _⟩
  intro g hg
  simp only [unphaseCall] at hg
  cases h0 : c0.gt with
  | none => simp [h0] at hg
  | some g0 => simp [h0, unphaseGT] at hg; rw [← hg]

/-- **alleles_multiset_preserved**: call `j` of record `i` exists in the output iff it exists in the input;
it has a genotype iff the input call has one, and the output alleles are a permutation of the input alleles. -/
theorem alleles_multiset_preserved (v : List Record) (i j : Nat) (c : Call) (h : callAt v i j = some c) :
    ∃ c', callAt (unphase v) i j = some c' ∧ c'.gt.isSome = c.gt.isSome ∧
      ∀ g, c.gt = some g → ∃ g', c'.gt = some g' ∧ g'.alleles.Perm g.alleles := by
  refine ⟨unphaseCall c, by rw [callAt_unphase, h]; rfl, by simp [unphaseCall], ?_⟩
  intro g hg
  exact ⟨unphaseGT g, by simp [unphaseCall, hg], sortAlleles_perm _⟩

/-- **other_fields_unchanged** (records): same number of records, same fixed columns, same number of calls. -/
theorem other_fields_unchanged_records (v : List Record) :
    (unphase v).length = v.length ∧
    ∀ (i : Nat) (r : Record), v[i]? = some r → ∃ r' : Record, (unphase v)[i]? = some r' ∧ r'.fixed = r.fixed ∧ r'.calls.length = r.calls.length := by
  refine ⟨by simp [unphase], ?_⟩
  intro i r h
  exact ⟨unphaseRecord r, by simp [unphase, List.getElem?_map, h], rfl, by simp [unphaseRecord]⟩

/-- **other_fields_unchanged** (calls): the FORMAT fields of a call other than GT are the input fields with
exactly the HP/PQ/PS entries deleted — same order, same values; in particular every other key keeps its value. -/
theorem other_fields_unchanged (v : List Record) (i j : Nat) (c : Call) (h : callAt v i j = some c) :
    ∃ c', callAt (unphase v) i j = some c' ∧
      c'.fields = c.fields.filter (fun kv => !isPhaseTag kv.1) ∧
      ∀ k, isPhaseTag k = false → c'.fields.lookup k = c.fields.lookup k := by
  refine ⟨unphaseCall c, by rw [callAt_unphase, h]; rfl, rfl, ?_⟩
  intro k hk
  simp only [unphaseCall, stripTags]
  induction c.fields with
  | nil => rfl
  | cons kv t ih =>
    obtain ⟨k', val⟩ := kv
    cases hkv : isPhaseTag k' with
    | true =>
      have hne : (k == k') = false := by
        apply beq_false_of_ne; intro he; rw [he] at hk; rw [hk] at hkv; cases hkv
      simp only [List.filter_cons, hkv, Bool.not_true, List.lookup_cons, hne]
      exact ih
    | false =>
      simp only [List.filter_cons, hkv, Bool.not_false, List.lookup_cons, if_true]
      cases k == k' with
      | true => rfl
      | false => exact ih

/-- **idempotent**: applying unphase twice equals applying it once. -/
theorem idempotent (v : List Record) : unphase (unphase v) = unphase v := by
  simp only [unphase, List.map_map]
  apply List.map_congr_left
  intro r _
  simp only [Function.comp, unphaseRecord, List.map_map]
  congr 1
  apply List.map_congr_left
  intro c _
  exact unphaseCall_idem c

/-! ### unphase ∘ phase = unphase

What a phasing writer may do to a call (the contract of C04's writer theorem): permute the alleles of a
genotype all of whose alleles are present, set the phased flag at will, and add / change / delete HP, PQ, PS
values.  Everything else stays. -/

/-- **unphase_phase_eq_unphase**: if `v'` differs from `v` only by phase-only edits, unphasing gives the
same records. -/
theorem unphase_phase_eq_unphase : ∀ {v v' : List Record}, PhaseOnlyEdit v v' → unphase v' = unphase v
  | [], [], _ => rfl
  | r :: v, r' :: v', h => by
    have ih := unphase_phase_eq_unphase h.2.2
    simp only [unphase, List.map_cons] at ih ⊢
    rw [ih]
    congr 1
    simp only [unphaseRecord, h.1, unphaseCalls_of_edit h.2.1]
  | [], _ :: _, h => by simp [PhaseOnlyEdit] at h
  | _ :: _, [], h => by simp [PhaseOnlyEdit] at h

/-! ### the loop as it is in HEAD (defect F2) -/

/-- **cur_total_iff_safe**: HEAD's loop succeeds exactly on files all of whose calls have a "safe" shape
(diploid anything, polyploid without a missing allele behind two present ones, `.`), and then agrees with
the specification; otherwise it raises. -/
theorem cur_ok_of_safe (v : List Record) (h : ∀ r ∈ v, ∀ c ∈ r.calls, curSafe c = true) :
    unphaseCur v = .ok (unphase v) := by
  unfold unphaseCur unphase
  apply mapM_ok_mem
  intro r hr
  unfold unphaseRecordCur unphaseRecord
  rw [mapM_ok_mem _ unphaseCall _ (fun c hc => unphaseCallCur_of_safe (h r hr c hc))]
  rfl

/-- … and it raises as soon as one call has another shape (haploid non-missing, missing allele behind two present
ones, no GT): the exact extent of defect F2 -/
theorem cur_raises_of_unsafe (v : List Record) (h : ∃ r ∈ v, ∃ c ∈ r.calls, curSafe c = false) :
    ∃ e, unphaseCur v = .error e := by
  obtain ⟨r, hr, c, hc, hs⟩ := h
  apply mapM_error_of_mem unphaseRecordCur v r hr
  obtain ⟨e, he⟩ := mapM_error_of_mem unphaseCallCur r.calls c hc (unphaseCallCur_of_unsafe hs)
  exact ⟨e, by simp [unphaseRecordCur, he, bind, Except.bind]⟩

/-- whenever HEAD's loop does not raise, its result is the specification's -/
theorem cur_ok_agrees (v w : List Record) (h : unphaseCur v = .ok w) : w = unphase v := by
  refine mapM_ok_imp unphaseRecordCur unphaseRecord ?_ v w h
  intro r r' hr
  unfold unphaseRecordCur at hr
  cases hcs : r.calls.mapM unphaseCallCur with
  | error e => rw [hcs] at hr; simp [bind, Except.bind] at hr
  | ok cs =>
    rw [hcs] at hr
    simp [bind, Except.bind, pure, Except.pure] at hr
    have := mapM_ok_imp unphaseCallCur unphaseCall (by
      intro c c' hc
      cases hs : curSafe c with
      | true => rw [unphaseCallCur_of_safe hs] at hc; cases hc; rfl
      | false => obtain ⟨e, he⟩ := unphaseCallCur_of_unsafe hs; rw [he] at hc; cases hc) r.calls cs hcs
    rw [← hr, this]; rfl

/-! ### non-vacuity and defect witnesses (faithful model of HEAD) -/

/-- F2 witness 1: haploid `GT=1` → `IndexError` in HEAD -/
example : unphaseCur [⟨[], [⟨some ⟨[some 1], false⟩, []⟩]⟩] = .error .indexError := by rfl
/-- F2 witness 2: `0/1/.` (first two alleles present, a later one missing) → `TypeError` in HEAD -/
example : unphaseCur [⟨[], [⟨some ⟨[some 0, some 1, none], false⟩, []⟩]⟩] = .error .typeError := by rfl
/-- F2 witness 3: record without GT → `KeyError` in HEAD -/
example : unphaseCur [⟨[], [⟨none, [("DP", "3")]⟩]⟩] = .error .keyError := by rfl
/-- `0/./1` does *not* raise in HEAD (the second allele is missing, so nothing is sorted) -/
example : unphaseCur [⟨[], [⟨some ⟨[some 0, none, some 1], true⟩, []⟩]⟩]
    = .ok [⟨[], [⟨some ⟨[some 0, none, some 1], false⟩, []⟩]⟩] := by rfl
/-- hypotheses of the theorems with premises are satisfiable -/
example : callAt [⟨["chr1"], [⟨some ⟨[some 1, some 0], true⟩, [("PS", "7"), ("DP", "3")]⟩]⟩] 0 0
    = some ⟨some ⟨[some 1, some 0], true⟩, [("PS", "7"), ("DP", "3")]⟩ := by rfl
example : PhaseOnlyEdit [⟨["chr1"], [⟨some ⟨[some 0, some 1], false⟩, [("DP", "3")]⟩]⟩]
    [⟨["chr1"], [⟨some ⟨[some 1, some 0], true⟩, [("DP", "3"), ("PS", "7")]⟩]⟩] := by
  refine ⟨rfl, ⟨⟨by decide, Or.inr ⟨by decide, ?_⟩⟩, trivial⟩, trivial⟩
  exact List.Perm.swap _ _ _
example : ∀ r ∈ [(⟨["chr1"], [⟨some ⟨[some 1, some 0], true⟩, [("PS", "7")]⟩, ⟨some ⟨[none], false⟩, []⟩]⟩ : Record)],
    ∀ c ∈ r.calls, curSafe c = true := by decide

/-! ## the header (`unphase_header`) and the whole file (`Model/C13Header.lean`) -/

/-- **header_no_phase_definitions**: the output header (HEAD and repaired) defines none of the FORMAT keys HP, PQ, PS; the
repaired one has no `##phasing` line either. -/
theorem header_no_phase_definitions (h : List HLine) :
    (∀ l ∈ unphaseHeaderCur h, isPhaseFormat l = false) ∧
    (∀ l ∈ unphaseHeaderFix h, isPhaseFormat l = false ∧ isPhasing l = false) := by
  refine ⟨?_, ?_⟩
  · intro l hl
    simpa using (List.mem_filter.mp hl).2
  · intro l hl
    have := (List.mem_filter.mp hl).2
    rw [keepLine_eq] at this
    simpa [and_comm] using this

/-- **header_rest_unchanged**: nothing else happens to the header: the output is a sub-list of the input (same lines, same
order) and every line that is neither a `##phasing` line nor one of the three FORMAT definitions survives; the repaired
function removes exactly those lines. -/
theorem header_rest_unchanged (h : List HLine) :
    (unphaseHeaderCur h).Sublist h ∧ (unphaseHeaderCur h).filter keepLine = h.filter keepLine ∧
    unphaseHeaderFix h = h.filter keepLine := by
  refine ⟨(List.filter_sublist).trans (removeFirst_sublist _ _), ?_, rfl⟩
  unfold unphaseHeaderCur
  rw [List.filter_filter]
  have : (removeFirst isPhasing h).filter (fun a => keepLine a && !isPhaseFormat a) = (removeFirst isPhasing h).filter keepLine := by
    apply List.filter_congr
    intro x _
    rw [keepLine_eq]
    cases isPhasing x <;> cases isPhaseFormat x <;> rfl
  rw [this, filter_removeFirst isPhasing keepLine phasing_not_keep]

/-- **header_idempotent** (repaired): applying `unphase_header` twice equals applying it once. -/
theorem header_idempotent (h : List HLine) : unphaseHeaderFix (unphaseHeaderFix h) = unphaseHeaderFix h := by
  unfold unphaseHeaderFix
  rw [List.filter_filter]
  apply List.filter_congr
  intro x _
  simp

/-- **header_cur_idempotent_iff** (exact extent of F76): HEAD's `unphase_header` is idempotent on a header iff the header
has at most one `##phasing` line — it removes only the first, a second application removes the next. -/
theorem header_cur_idempotent_iff (h : List HLine) :
    unphaseHeaderCur (unphaseHeaderCur h) = unphaseHeaderCur h ↔ (h.filter isPhasing).length ≤ 1 := by
  have hstep : unphaseHeaderCur (unphaseHeaderCur h) = removeFirst isPhasing (unphaseHeaderCur h) := by
    -- the second pass finds no FORMAT definition to remove
    show (removeFirst isPhasing (unphaseHeaderCur h)).filter (fun l => !isPhaseFormat l) = _
    apply List.filter_eq_self.mpr
    intro x hx
    have hx' : x ∈ unphaseHeaderCur h := (removeFirst_sublist _ _).subset hx
    simpa using (List.mem_filter.mp hx').2
  rw [hstep, removeFirst_eq_self_iff]
  have hcount := count_phasing_cur h
  constructor
  · intro hall
    have : (unphaseHeaderCur h).filter isPhasing = [] := List.filter_eq_nil_iff.mpr (fun x hx => by simp [hall x hx])
    rw [this] at hcount
    simp at hcount
    omega
  · intro hle x hx
    cases hp : isPhasing x with
    | false => rfl
    | true =>
      have : x ∈ (unphaseHeaderCur h).filter isPhasing := List.mem_filter.mpr ⟨hx, hp⟩
      have hpos : 0 < ((unphaseHeaderCur h).filter isPhasing).length := List.length_pos_of_mem this
      omega

/-- with at most one `##phasing` line HEAD and the repaired function agree -/
theorem header_cur_eq_fix (h : List HLine) (hle : (h.filter isPhasing).length ≤ 1) :
    unphaseHeaderCur h = unphaseHeaderFix h := by
  unfold unphaseHeaderCur unphaseHeaderFix
  rw [removeFirst_eq_filter isPhasing h hle, List.filter_filter]
  apply List.filter_congr
  intro x _
  rw [keepLine_eq, Bool.and_comm]

/-- **F76** on the faithful model: two `##phasing` lines — the first application leaves the second one, the second
application removes it: `unphase (unphase x) ≠ unphase x` -/
example : unphaseHeaderCur [⟨"phasing", none, "##phasing=partial"⟩, ⟨"phasing", none, "##phasing=none"⟩]
      = [⟨"phasing", none, "##phasing=none"⟩] ∧
    unphaseHeaderCur (unphaseHeaderCur [⟨"phasing", none, "##phasing=partial"⟩, ⟨"phasing", none, "##phasing=none"⟩]) = [] := by
  decide

/-- **header_phase_only_edit**: headers that differ only in `##phasing` lines and HP/PQ/PS FORMAT definitions (what a
phasing writer adds) have the same unphased header. -/
theorem header_phase_only_edit (h h' : List HLine) (he : h'.filter keepLine = h.filter keepLine) :
    unphaseHeaderFix h' = unphaseHeaderFix h := he

/-- **output_declares_its_keys**: if the header of the input declares every FORMAT key its records use, so does the output
(HEAD and repaired): no definition that an output record still needs is removed — htslib can serialise the result. -/
theorem output_declares_its_keys (f : VcfFile) (hd : Declared f) :
    Declared (unphaseFileCur f) ∧ Declared (unphaseFileFix f) := by
  have key : ∀ r' ∈ unphase f.records, ∀ k ∈ recordKeys r', ∃ l ∈ f.header, (l.key == "FORMAT" && l.id == some k) = true ∧
      keepLine l = true := by
    intro r' hr' k hk
    simp only [unphase, List.mem_map] at hr'
    obtain ⟨r, hr, rfl⟩ := hr'
    obtain ⟨hk1, hk2⟩ := recordKeys_unphase r k hk
    have := hd r hr k hk1
    unfold declares at this
    obtain ⟨l, hl, hlk⟩ := List.any_eq_true.mp this
    refine ⟨l, hl, hlk, ?_⟩
    simp only [Bool.and_eq_true, beq_iff_eq] at hlk
    rw [keepLine_eq]
    have h1 : isPhasing l = false := by
      unfold isPhasing; rw [hlk.1]; rfl
    have h2 : isPhaseFormat l = false := by
      unfold isPhaseFormat; rw [hlk.2]; simp [hk2]
    simp [h1, h2]
  refine ⟨?_, ?_⟩
  · intro r' hr' k hk
    obtain ⟨l, hl, hlk, hkeep⟩ := key r' hr' k hk
    exact List.any_eq_true.mpr ⟨l, mem_cur_of_keep _ l hl hkeep, hlk⟩
  · intro r' hr' k hk
    obtain ⟨l, hl, hlk, hkeep⟩ := key r' hr' k hk
    exact List.any_eq_true.mpr ⟨l, mem_fix_of_keep _ l hl hkeep, hlk⟩

example : ∃ f : VcfFile, Declared f ∧ f.records ≠ [] ∧ f.header ≠ [] :=
  ⟨⟨[⟨"FORMAT", some "GT", "##FORMAT=<ID=GT,…>"⟩, ⟨"FORMAT", some "PS", "##FORMAT=<ID=PS,…>"⟩],
    [⟨[], [⟨some ⟨[some 0, some 1], true⟩, [("PS", "5")]⟩]⟩]⟩, by unfold Declared; decide, by decide, by decide⟩

/-- **file_idempotent** (repaired): applying `unphase` twice to a file — header and records — equals applying it once;
for HEAD this holds exactly when the header has at most one `##phasing` line. -/
theorem file_idempotent (f : VcfFile) :
    unphaseFileFix (unphaseFileFix f) = unphaseFileFix f ∧
    (unphaseFileCur (unphaseFileCur f) = unphaseFileCur f ↔ (f.header.filter isPhasing).length ≤ 1) := by
  refine ⟨?_, ?_⟩
  · simp only [unphaseFileFix, header_idempotent, idempotent]
  · simp only [unphaseFileCur, idempotent, VcfFile.mk.injEq, and_true]
    exact header_cur_idempotent_iff f.header

/-- **file_unphase_phase_eq_unphase**: a file whose records were only phase-edited and whose header only gained or lost
`##phasing` lines / HP, PQ, PS definitions unphases to the same file. -/
theorem file_unphase_phase_eq_unphase (f f' : VcfFile) (hr : PhaseOnlyEdit f.records f'.records)
    (hh : f'.header.filter keepLine = f.header.filter keepLine) : unphaseFileFix f' = unphaseFileFix f := by
  simp only [unphaseFileFix, unphase_phase_eq_unphase hr, header_phase_only_edit _ _ hh]


/-! ## the executable edit checker used by the check (`Spec/C13Edit.lean`) -/

/-- **edit_checker_iff**: `editB` decides the phase-only-edit relation (permute the alleles of fully present genotypes,
set separators at will, add / change / delete HP, PQ, PS — nothing else). -/
theorem edit_checker_iff (v v' : List Record) : editB v v' = true ↔ PhaseOnlyEdit v v' := editB_iff v v'

/-- **unphase_of_checked_edit**: whatever the check's generator does to a file, if the checker accepts the pair then both
files unphase to the same records — this is the statement the check evaluates on the real `whatshap unphase` for calls of
every ploidy (the histories through `whatshap phase` only reach diploid calls). -/
theorem unphase_of_checked_edit (v v' : List Record) (h : editB v v' = true) : unphase v' = unphase v :=
  unphase_phase_eq_unphase ((editB_iff v v').mp h)

example : editB [⟨["chr1"], [⟨some ⟨[some 0, some 1, some 1], false⟩, [("DP", "3")]⟩]⟩]
    [⟨["chr1"], [⟨some ⟨[some 1, some 0, some 1], true⟩, [("PS", "7"), ("DP", "3")]⟩]⟩] = true := by decide

end WhVerif.Props.C13

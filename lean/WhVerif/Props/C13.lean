import WhVerif.Model.C13
import WhVerif.Spec.C13
import WhVerif.Lemmas.C13
import WhVerif.Lemmas.C13Compose
import WhVerif.Model.C13Header
import WhVerif.Lemmas.C13Header
import WhVerif.Spec.C13Edit
import WhVerif.Lemmas.C13Edit
import WhVerif.Model.C13Text
import WhVerif.Lemmas.C13Text
/-!
# C13 — unphase accepts every VCF, removes all phase information and nothing else

`unphaseFix` is the loop of `run_unphase` after `fixes/F2.patch`, written with Python primitives that can
raise; `unphaseCur` is the loop as it is in HEAD; `unphase` is the total specification-level function.
Addressing: "call j of record i" is `v[i]?.bind (·.calls[j]?)`.
-/
namespace WhVerif.Props.C13
open WhVerif.C13 WhVerif.Lemmas.C13

/-- **total** (repaired code): on every list of records, whatever the shape of the calls (any ploidy, `.`,
partially missing, no GT at all), the repaired loop raises nothing and returns `unphase v`. -/
theorem total (v : List Record) : unphaseFix v = .ok (unphase v) := by
  unfold unphaseFix unphase
  apply mapM_ok
  intro r
  unfold unphaseRecordFix unphaseRecord
  rw [mapM_ok _ _ unphaseCallFix_eq]
  rfl

/-- **no_phase_left**: in the output no genotype is phased and no call has an HP, PQ or PS field. -/
theorem no_phase_left (v : List Record) :
    ∀ r ∈ unphase v, ∀ c ∈ r.calls,
      (∀ g, c.gt = some g → g.phased = false) ∧ (∀ kv ∈ c.fields, isPhaseTag kv.1 = false) := by
  intro r hr c hc
  simp only [unphase, List.mem_map] at hr
  obtain ⟨r0, _, rfl⟩ := hr
  simp only [unphaseRecord, List.mem_map] at hc
  obtain ⟨c0, _, rfl⟩ := hc
  refine ⟨?_, stripTags_no_tag _⟩
  intro g hg
  simp only [unphaseCall] at hg
  cases h0 : c0.gt with
  | none => simp [h0] at hg
  | some g0 => simp [h0, unphaseGT] at hg; rw [← hg]

/-- **alleles_multiset_preserved**: call `j` of record `i` exists in the output iff it exists in the input;
it has a genotype iff the input call has one, and the output alleles are a permutation of the input alleles. -/
theorem alleles_multiset_preserved (v : List Record) (i j : Nat) (c : Call) (h : callAt v i j = some c) :
    ∃ c', callAt (unphase v) i j = some c' ∧ c'.gt.isSome = c.gt.isSome ∧
      ∀ g, c.gt = some g → ∃ g', c'.gt = some g' ∧ g'.alleles.Perm g.alleles := by
  refine ⟨unphaseCall c, by rw [callAt_unphase, h]; rfl, by simp [unphaseCall], ?_⟩
  intro g hg
  exact ⟨unphaseGT g, by simp [unphaseCall, hg], sortAlleles_perm _⟩

/-- **other_fields_unchanged** (records): same number of records, same fixed columns, same number of calls. -/
theorem other_fields_unchanged_records (v : List Record) :
    (unphase v).length = v.length ∧
    ∀ (i : Nat) (r : Record), v[i]? = some r → ∃ r' : Record, (unphase v)[i]? = some r' ∧ r'.fixed = r.fixed ∧ r'.calls.length = r.calls.length := by
  refine ⟨by simp [unphase], ?_⟩
  intro i r h
  exact ⟨unphaseRecord r, by simp [unphase, List.getElem?_map, h], rfl, by simp [unphaseRecord]⟩

/-- **other_fields_unchanged** (calls): the FORMAT fields of a call other than GT are the input fields with
exactly the HP/PQ/PS entries deleted — same order, same values; in particular every other key keeps its value. -/
theorem other_fields_unchanged (v : List Record) (i j : Nat) (c : Call) (h : callAt v i j = some c) :
    ∃ c', callAt (unphase v) i j = some c' ∧
      c'.fields = c.fields.filter (fun kv => !isPhaseTag kv.1) ∧
      ∀ k, isPhaseTag k = false → c'.fields.lookup k = c.fields.lookup k := by
  refine ⟨unphaseCall c, by rw [callAt_unphase, h]; rfl, rfl, ?_⟩
  intro k hk
  simp only [unphaseCall, stripTags]
  induction c.fields with
  | nil => rfl
  | cons kv t ih =>
    obtain ⟨k', val⟩ := kv
    cases hkv : isPhaseTag k' with
    | true =>
      have hne : (k == k') = false := by
        apply beq_false_of_ne; intro he; rw [he] at hk; rw [hk] at hkv; cases hkv
      simp only [List.filter_cons, hkv, Bool.not_true, List.lookup_cons, hne]
      exact ih
    | false =>
      simp only [List.filter_cons, hkv, Bool.not_false, List.lookup_cons, if_true]
      cases k == k' with
      | true => rfl
      | false => exact ih

/-- **idempotent**: applying unphase twice equals applying it once. -/
theorem idempotent (v : List Record) : unphase (unphase v) = unphase v := by
  simp only [unphase, List.map_map]
  apply List.map_congr_left
  intro r _
  simp only [Function.comp, unphaseRecord, List.map_map]
  congr 1
  apply List.map_congr_left
  intro c _
  exact unphaseCall_idem c

/-! ### unphase ∘ phase = unphase

What a phasing writer may do to a call (the contract of C04's writer theorem): permute the alleles of a
genotype all of whose alleles are present, set the phased flag at will, and add / change / delete HP, PQ, PS
values.  Everything else stays. -/

/-- **unphase_phase_eq_unphase**: if `v'` differs from `v` only by phase-only edits, unphasing gives the
same records. -/
theorem unphase_phase_eq_unphase : ∀ {v v' : List Record}, PhaseOnlyEdit v v' → unphase v' = unphase v
  | [], [], _ => rfl
  | r :: v, r' :: v', h => by
    have ih := unphase_phase_eq_unphase h.2.2
    simp only [unphase, List.map_cons] at ih ⊢
    rw [ih]
    congr 1
    simp only [unphaseRecord, h.1, unphaseCalls_of_edit h.2.1]
  | [], _ :: _, h => by simp [PhaseOnlyEdit] at h
  | _ :: _, [], h => by simp [PhaseOnlyEdit] at h

/-! ### the loop as it is in HEAD (defect F2) -/

/-- **cur_total_iff_safe**: HEAD's loop succeeds exactly on files all of whose calls have a "safe" shape
(diploid anything, polyploid without a missing allele behind two present ones, `.`), and then agrees with
the specification; otherwise it raises. -/
theorem cur_ok_of_safe (v : List Record) (h : ∀ r ∈ v, ∀ c ∈ r.calls, curSafe c = true) :
    unphaseCur v = .ok (unphase v) := by
  unfold unphaseCur unphase
  apply mapM_ok_mem
  intro r hr
  unfold unphaseRecordCur unphaseRecord
  rw [mapM_ok_mem _ unphaseCall _ (fun c hc => unphaseCallCur_of_safe (h r hr c hc))]
  rfl

/-- … and it raises as soon as one call has another shape (haploid non-missing, missing allele behind two present
ones, no GT): the exact extent of defect F2 -/
theorem cur_raises_of_unsafe (v : List Record) (h : ∃ r ∈ v, ∃ c ∈ r.calls, curSafe c = false) :
    ∃ e, unphaseCur v = .error e := by
  obtain ⟨r, hr, c, hc, hs⟩ := h
  apply mapM_error_of_mem unphaseRecordCur v r hr
  obtain ⟨e, he⟩ := mapM_error_of_mem unphaseCallCur r.calls c hc (unphaseCallCur_of_unsafe hs)
  exact ⟨e, by simp [unphaseRecordCur, he, bind, Except.bind]⟩

/-- whenever HEAD's loop does not raise, its result is the specification's -/
theorem cur_ok_agrees (v w : List Record) (h : unphaseCur v = .ok w) : w = unphase v := by
  refine mapM_ok_imp unphaseRecordCur unphaseRecord ?_ v w h
  intro r r' hr
  unfold unphaseRecordCur at hr
  cases hcs : r.calls.mapM unphaseCallCur with
  | error e => rw [hcs] at hr; simp [bind, Except.bind] at hr
  | ok cs =>
    rw [hcs] at hr
    simp [bind, Except.bind, pure, Except.pure] at hr
    have := mapM_ok_imp unphaseCallCur unphaseCall (by
      intro c c' hc
      cases hs : curSafe c with
      | true => rw [unphaseCallCur_of_safe hs] at hc; cases hc; rfl
      | false => obtain ⟨e, he⟩ := unphaseCallCur_of_unsafe hs; rw [he] at hc; cases hc) r.calls cs hcs
    rw [← hr, this]; rfl

/-! ### non-vacuity and defect witnesses (faithful model of HEAD) -/

/-- F2 witness 1: haploid `GT=1` → `IndexError` in HEAD -/
example : unphaseCur [⟨[], [⟨some ⟨[some 1], false⟩, []⟩]⟩] = .error .indexError := by rfl
/-- F2 witness 2: `0/1/.` (first two alleles present, a later one missing) → `TypeError` in HEAD -/
example : unphaseCur [⟨[], [⟨some ⟨[some 0, some 1, none], false⟩, []⟩]⟩] = .error .typeError := by rfl
/-- F2 witness 3: record without GT → `KeyError` in HEAD -/
example : unphaseCur [⟨[], [⟨none, [("DP", "3")]⟩]⟩] = .error .keyError := by rfl
/-- `0/./1` does *not* raise in HEAD (the second allele is missing, so nothing is sorted) -/
example : unphaseCur [⟨[], [⟨some ⟨[some 0, none, some 1], true⟩, []⟩]⟩]
    = .ok [⟨[], [⟨some ⟨[some 0, none, some 1], false⟩, []⟩]⟩] := by rfl
/-- hypotheses of the theorems with premises are satisfiable -/
example : callAt [⟨["chr1"], [⟨some ⟨[some 1, some 0], true⟩, [("PS", "7"), ("DP", "3")]⟩]⟩] 0 0
    = some ⟨some ⟨[some 1, some 0], true⟩, [("PS", "7"), ("DP", "3")]⟩ := by rfl
example : PhaseOnlyEdit [⟨["chr1"], [⟨some ⟨[some 0, some 1], false⟩, [("DP", "3")]⟩]⟩]
    [⟨["chr1"], [⟨some ⟨[some 1, some 0], true⟩, [("DP", "3"), ("PS", "7")]⟩]⟩] := by
  refine ⟨rfl, ⟨⟨by decide, Or.inr ⟨by decide, ?_⟩⟩, trivial⟩, trivial⟩
  exact List.Perm.swap _ _ _
example : ∀ r ∈ [(⟨["chr1"], [⟨some ⟨[some 1, some 0], true⟩, [("PS", "7")]⟩, ⟨some ⟨[none], false⟩, []⟩]⟩ : Record)],
    ∀ c ∈ r.calls, curSafe c = true := by decide

/-! ### unphase after `whatshap phase`: composition with the C04 model (`Model/C13Bridge.lean`) -/

open WhVerif in
/-- **phase_is_phase_only_edit**.  What `PhasedVcfWriter.write` (C04's `writeChrom`) does to the records of a
chromosome block, seen as records of this model (`ofC04`), is a phase-only edit — provided it reports no genotype
change (which is the case unless genotypes are distrusted, `Props.C04.alleles_preserved_from_table`) and sample
names are distinct.  This discharges the hypothesis of `unphase_phase_eq_unphase` from the writer's model instead of
assuming it. -/
theorem phase_is_phase_only_edit (cfg : C04.Cfg) (prev : Option Nat) (rs : List C04.Record)
    (hnd : ∀ r ∈ rs, (r.calls.map (·.1)).Nodup) (hno : ∀ o ∈ C04.writeChrom cfg prev rs, o.changes = []) :
    PhaseOnlyEdit (rs.map ofC04) ((C04.writeChrom cfg prev rs).map (fun o => ofC04 o.record)) :=
  writeChrom_edit cfg rs prev hnd hno

open WhVerif in
/-- **unphase_after_whatshap_phase**.  For the whole file as `whatshap phase` writes it (`C04.fileOut`: any number of
chromosome blocks, any `--sample`/`--chromosome` selection, either tag, pre-existing phase information, records of
every kind): if no genotype change is reported, unphasing the output gives exactly the records that unphasing the
input gives. -/
theorem unphase_after_whatshap_phase (fc : C04.FileCfg) (ph : C04.Phasing) (recs : List C04.FRec)
    (hnd : ∀ fr ∈ recs, (fr.record.calls.map (·.1)).Nodup)
    (hno : ∀ b ∈ C04.expectedBlocks fc ph 0 (C04.groupChrom recs), ∀ o ∈ b, o.changes = []) :
    unphase ((C04.fileOut fc ph recs).map (fun o => ofC04 o.record)) = unphase (recs.map (fun fr => ofC04 fr.record)) := by
  have h := expectedBlocks_edit fc ph (C04.groupChrom recs) 0
    (by
      intro cg hcg fr hfr
      apply hnd
      rw [← C04.groupChrom_flatten recs]
      exact List.mem_flatMap.mpr ⟨cg, hcg, hfr⟩)
    hno
  rw [C04.groupChrom_flatten] at h
  exact unphase_phase_eq_unphase h

/-! ### header (`unphase_header`) -/

open WhVerif in
/-- **header_only_phase_lines_removed**.  `unphase_header` leaves no FORMAT definition of HP, PQ or PS; every other
line that is not a `phasing` line is kept; nothing is added (the result is a sublist of the input header, so the
order of the lines is kept as well); and at most one `phasing` line is removed. -/
theorem header_only_phase_lines_removed (h : List C04.HLine) :
    (∀ l ∈ unphaseHeader h, isPhaseFormat l = false) ∧
    (∀ l ∈ h, l.key ≠ "phasing" → isPhaseFormat l = false → l ∈ unphaseHeader h) ∧
    (unphaseHeader h).Sublist h ∧
    (removePhaseFormats h).length ≤ (unphaseHeader h).length + 1 := by
  refine ⟨fun l hl => (mem_removePhaseFormats.mp hl).2, ?_, ?_, ?_⟩
  · intro l hl hk hp
    exact mem_removePhaseFormats.mpr ⟨C04.mem_removeFirstPhasing hl hk, hp⟩
  · have hs : (C04.removeFirstPhasing h).Sublist h := by
      induction h with
      | nil => exact List.Sublist.slnil
      | cons a r ih =>
        unfold C04.removeFirstPhasing
        split
        · exact List.sublist_cons_self a r
        · exact ih.cons_cons a
    exact (List.filter_sublist).trans hs
  · unfold unphaseHeader
    rw [← removeFirstPhasing_filter_comm]
    exact C04.removeFirstPhasing_length _

open WhVerif in
/-- **header_idempotent** as far as it holds for the code as it is: on a header with at most one `phasing` line a
second application changes nothing. -/
theorem header_idempotent_of_single_phasing (h : List C04.HLine)
    (hone : ∀ l ∈ C04.removeFirstPhasing h, l.key ≠ "phasing") :
    unphaseHeader (unphaseHeader h) = unphaseHeader h := by
  unfold unphaseHeader
  rw [removeFirstPhasing_filter_comm (C04.removeFirstPhasing h), removeFirstPhasing_of_none hone,
    removePhaseFormats_idem]

open WhVerif in
/-- **f61_second_phasing_line** (defect F61, witness on the faithful model): with two `##phasing=` lines the first
application leaves one behind and the second application removes it — applying `unphase` twice does not equal
applying it once. -/
theorem f61_second_phasing_line :
    let h : List C04.HLine := [⟨"fileformat", none, "", "", "VCFv4.2"⟩, ⟨"phasing", none, "", "", "none"⟩,
      ⟨"phasing", none, "", "", "partial"⟩, ⟨"FORMAT", some "PS", "1", "Integer", ""⟩]
    unphaseHeader h = [⟨"fileformat", none, "", "", "VCFv4.2"⟩, ⟨"phasing", none, "", "", "partial"⟩] ∧
    unphaseHeader (unphaseHeader h) = [⟨"fileformat", none, "", "", "VCFv4.2"⟩] := by
  constructor <;> decide

open WhVerif in
/-- **header_fix_idempotent**: after `fixes/F61.patch` (every `phasing` line removed) the header edit is idempotent on
every header, leaves no `phasing` line and no FORMAT definition of a phase tag, and keeps every other line. -/
theorem header_fix_idempotent (h : List C04.HLine) :
    unphaseHeaderFix (unphaseHeaderFix h) = unphaseHeaderFix h ∧
    (∀ l ∈ unphaseHeaderFix h, l.key ≠ "phasing" ∧ isPhaseFormat l = false) ∧
    (∀ l ∈ h, l.key ≠ "phasing" → isPhaseFormat l = false → l ∈ unphaseHeaderFix h) := by
  refine ⟨?_, ?_, ?_⟩
  · simp only [unphaseHeaderFix, removePhaseFormats, List.filter_filter]
    congr 1
    funext l
    cases isPhaseFormat l <;> cases decide (l.key = "phasing") <;> rfl
  · intro l hl
    simp only [unphaseHeaderFix, removePhaseFormats, List.mem_filter] at hl
    exact ⟨by simpa using hl.1.2, by simpa using hl.2⟩
  · intro l hl hk hp
    simp only [unphaseHeaderFix, removePhaseFormats, List.mem_filter]
    exact ⟨⟨hl, by simpa using hk⟩, by simpa using hp⟩

/-! non-vacuity of the composition: a block through the C04 writer satisfies the hypotheses, and this is what it
    looks like in this model -/
open WhVerif in
def exC04Cfg : C04.Cfg := ⟨.PS, false, false, true, ["A", "B"], [⟨"A", [(10, 0)], [(10, 1)], [(10, 10)]⟩]⟩
open WhVerif in
def exC04Rec : C04.Record := ⟨"chr1\t11\t.\tA\tC\t.\tPASS\t.", 10, "A", ["C"], ["GT", "DP"],
  [("A", ⟨some [some 1, some 0], false, [("DP", .raw "7")]⟩), ("B", ⟨some [some 1, some 0], true, [("DP", .raw "9")]⟩)]⟩
open WhVerif in
example : (∀ r ∈ [exC04Rec], (r.calls.map (·.1)).Nodup) ∧ (∀ o ∈ C04.writeChrom exC04Cfg none [exC04Rec], o.changes = []) := by
  constructor <;> decide
open WhVerif in
example : (C04.writeChrom exC04Cfg none [exC04Rec]).map (fun o => (ofC04 o.record).calls) =
    [[⟨some ⟨[some 0, some 1], true⟩, [("DP", "7"), ("PS", "11")]⟩, ⟨some ⟨[some 1, some 0], true⟩, [("DP", "9"), ("PS", ".")]⟩]] ∧
    (ofC04 exC04Rec).calls = [⟨some ⟨[some 1, some 0], false⟩, [("DP", "7")]⟩, ⟨some ⟨[some 1, some 0], true⟩, [("DP", "9")]⟩] := by
  constructor <;> decide
open WhVerif in
example : ∀ l ∈ C04.removeFirstPhasing [⟨"phasing", none, "", "", "none"⟩, ⟨"FORMAT", some "PS", "1", "Integer", ""⟩],
    l.key ≠ "phasing" := by decide

open WhVerif
/-! ## more on the header, and the whole file (`Model/C13Header.lean`; round E12) -/

/-- **header_rest_unchanged**: sharper than membership — restricted to the lines that are neither `##phasing` lines nor
FORMAT definitions of HP/PQ/PS (`keepLine`), input and output header are the same *list* (same lines, same order, same
multiplicity), for the header function with and without fixes/F61.patch; the repaired function is exactly that filter. -/
theorem header_rest_unchanged (h : List C04.HLine) :
    (unphaseHeader h).filter keepLine = h.filter keepLine ∧ unphaseHeaderFix h = h.filter keepLine := by
  refine ⟨?_, unphaseHeaderFix_eq h⟩
  rw [unphaseHeader_eq, List.filter_filter]
  have : (removeFirst isPhasingLine h).filter (fun a => keepLine a && !isPhaseFormat a)
      = (removeFirst isPhasingLine h).filter keepLine := by
    apply List.filter_congr
    intro x _
    rw [keepLine_eq]
    cases isPhasingLine x <;> cases isPhaseFormat x <;> rfl
  rw [this, filter_removeFirst isPhasingLine keepLine phasing_not_keep]

/-- **header_idempotent_iff** (exact extent of F61 = F76): the header function with the `break` is idempotent on a header
iff the header has at most one `##phasing` line (`header_idempotent_of_single_phasing` is the "if" direction). -/
theorem header_idempotent_iff (h : List C04.HLine) :
    unphaseHeader (unphaseHeader h) = unphaseHeader h ↔ (h.filter isPhasingLine).length ≤ 1 := by
  have hstep : unphaseHeader (unphaseHeader h) = removeFirst isPhasingLine (unphaseHeader h) := by
    -- the second pass finds no FORMAT definition to remove
    rw [unphaseHeader_eq (unphaseHeader h)]
    apply List.filter_eq_self.mpr
    intro x hx
    have hx' : x ∈ unphaseHeader h := (removeFirst_sublist _ _).subset hx
    have := (header_only_phase_lines_removed h).1 x hx'
    simp [this]
  rw [hstep, removeFirst_eq_self_iff]
  have hcount := count_phasing_cur h
  constructor
  · intro hall
    have : (unphaseHeader h).filter isPhasingLine = [] := List.filter_eq_nil_iff.mpr (fun x hx => by simp [hall x hx])
    rw [this] at hcount
    simp at hcount
    omega
  · intro hle x hx
    cases hp : isPhasingLine x with
    | false => rfl
    | true =>
      have : x ∈ (unphaseHeader h).filter isPhasingLine := List.mem_filter.mpr ⟨hx, hp⟩
      have hpos : 0 < ((unphaseHeader h).filter isPhasingLine).length := List.length_pos_of_mem this
      omega

/-- with at most one `##phasing` line the two header functions agree -/
theorem header_eq_fix_of_single_phasing (h : List C04.HLine) (hle : (h.filter isPhasingLine).length ≤ 1) :
    unphaseHeader h = unphaseHeaderFix h := by
  rw [unphaseHeader_eq, unphaseHeaderFix_eq, removeFirst_eq_filter isPhasingLine h hle, List.filter_filter]
  apply List.filter_congr
  intro x _
  rw [keepLine_eq, Bool.and_comm]

example : ∃ h : List C04.HLine, (h.filter isPhasingLine).length ≤ 1 ∧ h ≠ [] :=
  ⟨[⟨"phasing", none, "", "", "none"⟩, ⟨"FORMAT", some "PS", "1", "Integer", ""⟩], by decide, by decide⟩

/-- **header_phase_only_edit**: headers that differ only in `##phasing` lines and HP/PQ/PS FORMAT definitions (what a
phasing writer adds) have the same unphased header. -/
theorem header_phase_only_edit (h h' : List C04.HLine) (he : h'.filter keepLine = h.filter keepLine) :
    unphaseHeaderFix h' = unphaseHeaderFix h := by
  rw [unphaseHeaderFix_eq, unphaseHeaderFix_eq, he]

/-- **output_declares_its_keys**: if the header of the input declares every FORMAT key its records use, so does the output
(with either header function): no definition that an output record still needs is removed — htslib can serialise the
result. -/
theorem output_declares_its_keys (f : VcfFile) (hd : Declared f) :
    Declared (unphaseFileCur f) ∧ Declared (unphaseFileFix f) := by
  have key : ∀ r' ∈ unphase f.records, ∀ k ∈ recordKeys r', ∃ l ∈ f.header,
      (decide (l.key = "FORMAT") && decide (l.id = some k)) = true ∧ keepLine l = true := by
    intro r' hr' k hk
    simp only [unphase, List.mem_map] at hr'
    obtain ⟨r, hr, rfl⟩ := hr'
    obtain ⟨hk1, hk2⟩ := recordKeys_unphase r k hk
    have := hd r hr k hk1
    unfold C04.defined at this
    obtain ⟨l, hl, hlk⟩ := List.any_eq_true.mp this
    refine ⟨l, hl, hlk, ?_⟩
    simp only [Bool.and_eq_true, decide_eq_true_eq] at hlk
    rw [keepLine_eq]
    have h1 : isPhasingLine l = false := by
      unfold isPhasingLine; rw [hlk.1]; rfl
    have h2 : isPhaseFormat l = false := by
      unfold isPhaseFormat; rw [hlk.2]; simp [hk2]
    simp [h1, h2]
  refine ⟨?_, ?_⟩
  · intro r' hr' k hk
    obtain ⟨l, hl, hlk, hkeep⟩ := key r' hr' k hk
    exact List.any_eq_true.mpr ⟨l, mem_cur_of_keep _ l hl hkeep, hlk⟩
  · intro r' hr' k hk
    obtain ⟨l, hl, hlk, hkeep⟩ := key r' hr' k hk
    exact List.any_eq_true.mpr ⟨l, mem_fix_of_keep _ l hl hkeep, hlk⟩

example : ∃ f : VcfFile, Declared f ∧ f.records ≠ [] ∧ f.header ≠ [] :=
  ⟨⟨[⟨"FORMAT", some "GT", "1", "String", ""⟩, ⟨"FORMAT", some "PS", "1", "Integer", ""⟩],
    [⟨[], [⟨some ⟨[some 0, some 1], true⟩, [("PS", "5")]⟩]⟩]⟩, by unfold Declared; decide, by decide, by decide⟩

/-- **file_idempotent**: applying `unphase` twice to a file — header and records — equals applying it once (repaired header
function); with the `break` this holds exactly when the header has at most one `##phasing` line. -/
theorem file_idempotent (f : VcfFile) :
    unphaseFileFix (unphaseFileFix f) = unphaseFileFix f ∧
    (unphaseFileCur (unphaseFileCur f) = unphaseFileCur f ↔ (f.header.filter isPhasingLine).length ≤ 1) := by
  refine ⟨?_, ?_⟩
  · simp only [unphaseFileFix, (header_fix_idempotent f.header).1, idempotent]
  · simp only [unphaseFileCur, idempotent, VcfFile.mk.injEq, and_true]
    exact header_idempotent_iff f.header

/-- **file_unphase_phase_eq_unphase**: a file whose records were only phase-edited and whose header only gained or lost
`##phasing` lines / HP, PQ, PS definitions unphases to the same file. -/
theorem file_unphase_phase_eq_unphase (f f' : VcfFile) (hr : PhaseOnlyEdit f.records f'.records)
    (hh : f'.header.filter keepLine = f.header.filter keepLine) : unphaseFileFix f' = unphaseFileFix f := by
  simp only [unphaseFileFix, unphase_phase_eq_unphase hr, header_phase_only_edit _ _ hh]

/-- **file_records_whatever_header** (round 7, seed C13-e): what the header says about phasing has no influence on the
records.  For any two headers — in particular one that declares nothing (no `##phasing` line, no HP / PQ / PS definition;
`Declared` is not assumed, htslib accepts undeclared keys) — the same records come out, and they carry no phased genotype and
no HP / PQ / PS field.  The check evaluates this on the real `whatshap unphase` with *header twins*. -/
theorem file_records_whatever_header (h h' : List C04.HLine) (rs : List Record) :
    (unphaseFileFix ⟨h, rs⟩).records = (unphaseFileFix ⟨h', rs⟩).records ∧
    ∀ r ∈ (unphaseFileFix ⟨h, rs⟩).records, ∀ c ∈ r.calls,
      (∀ g, c.gt = some g → g.phased = false) ∧ (∀ kv ∈ c.fields, isPhaseTag kv.1 = false) :=
  ⟨rfl, no_phase_left rs⟩

/-- witness: an empty header, a genotype phased with `|` (one allele missing, so nothing is sorted) and an undeclared PS value -/
example : (unphaseFileFix ⟨[], [⟨["chr1"], [⟨some ⟨[some 1, none], true⟩, [("PS", "7"), ("DP", "3")]⟩]⟩]⟩).records
    = [⟨["chr1"], [⟨some ⟨[some 1, none], false⟩, [("DP", "3")]⟩]⟩] := by decide

/-! ## the executable edit checker used by the check (`Spec/C13Edit.lean`) -/

/-- **edit_checker_iff**: `editB` decides the phase-only-edit relation (permute the alleles of fully present genotypes,
set separators at will, add / change / delete HP, PQ, PS — nothing else). -/
theorem edit_checker_iff (v v' : List Record) : editB v v' = true ↔ PhaseOnlyEdit v v' := editB_iff v v'

/-- **unphase_of_checked_edit**: whatever the check's generator does to a file, if the checker accepts the pair then both
files unphase to the same records — this is the statement the check evaluates on the real `whatshap unphase` for calls of
every ploidy (the histories through `whatshap phase` only reach diploid calls). -/
theorem unphase_of_checked_edit (v v' : List Record) (h : editB v v' = true) : unphase v' = unphase v :=
  unphase_phase_eq_unphase ((editB_iff v v').mp h)

example : editB [⟨["chr1"], [⟨some ⟨[some 0, some 1, some 1], false⟩, [("DP", "3")]⟩]⟩]
    [⟨["chr1"], [⟨some ⟨[some 1, some 0, some 1], true⟩, [("PS", "7"), ("DP", "3")]⟩]⟩] = true := by decide

/-- **history_unphase_invariant** (the "histories" part of the quantifier): along any sequence of phase applications
(phase-only edits) and unphase applications, unphasing the last file gives the same records as unphasing the first. -/
theorem history_unphase_invariant {v w : List Record} (h : History v w) : unphase w = unphase v := by
  induction h with
  | refl v => rfl
  | step hs _ ih =>
    rw [ih]
    cases hs with
    | edit he => exact unphase_phase_eq_unphase he
    | unphased hu => rw [hu]; exact idempotent _

/-- a history with both kinds of steps: phase (alleles swapped, phased, PS added), then unphase -/
example : ∃ v v' : List Record, v ≠ v' ∧ History v (unphase v') :=
  ⟨[⟨["chr1"], [⟨some ⟨[some 0, some 1], false⟩, []⟩]⟩], [⟨["chr1"], [⟨some ⟨[some 1, some 0], true⟩, [("PS", "5")]⟩]⟩],
    by decide, .step (.edit ((edit_checker_iff _ _).mp (by decide))) (.step (.unphased rfl) (.refl _))⟩


/-! ## Round 10: the TEXT of a data line (`Model/C13Text.lean`)

`unphaseLineText` is what `whatshap unphase` (pysam / htslib underneath) does to the text of one data line; `parseLine` reads a
line into the record the theorems above are about.  Well-formedness: `GtFirstOnly` (GT, if present, is the first FORMAT key). -/
section Text
open WhVerif.C13.Text

/-- reading the unphased text = unphasing the record read from the text (`none` on both sides iff a GT token is outside the grammar) -/
theorem unphase_text_refines_record (l : Str) (hwf : GtFirstOnly (parseT l)) :
    parseLine (unphaseLineText l) = (parseLine l).map unphaseRecord := by
  unfold parseLine
  rw [parseT_unphaseLineText, toRecord_unphaseT _ hwf]

/-- the same against the loop of /repo (`unphaseFix`, with its raising primitives): it does not raise and gives the record of the output text -/
theorem unphase_text_refines_fix (l : Str) (r : Record) (hwf : GtFirstOnly (parseT l)) (hp : parseLine l = some r) :
    ∃ r', parseLine (unphaseLineText l) = some r' ∧ unphaseFix [r] = .ok [r'] :=
  ⟨unphaseRecord r, by rw [unphase_text_refines_record l hwf, hp]; rfl, by rw [total]; rfl⟩

/-- the tokens of the output text: the fixed columns (= the first eight raw columns, or the whole line when there is no FORMAT
column) are those of the input; FORMAT is the input's minus HP / PQ / PS in the same order; there are as many sample columns; and in
every sample column the values of the keys other than GT are those of the input (omitted trailing values spelled `.`) minus the
values of HP / PQ / PS, in the same order -/
theorem unphase_text_other_columns_identical (l : Str) :
    (parseT (unphaseLineText l)).fixed = (parseT l).fixed ∧
    ((parseT l).body = none → unphaseLineText l = l) ∧
    ∀ keys samples, (parseT l).body = some (keys, samples) →
      ∃ samples' : List (List Str), (parseT (unphaseLineText l)).body = some (keys.filter (fun k => !isPhaseTagC k), samples') ∧
        samples'.length = samples.length ∧
        ∀ (i : Nat) (vs vs' : List Str), samples[i]? = some vs → samples'[i]? = some vs' →
          ((keys.filter (fun k => !isPhaseTagC k)).zip vs').filter (fun kv => kv.1 ≠ gtKey) =
            ((keys.zip vs).filter (fun kv => kv.1 ≠ gtKey)).filter (fun kv => !isPhaseTagC kv.1) := by
  rw [parseT_unphaseLineText]
  refine ⟨?_, ?_, ?_⟩
  · unfold unphaseT; split <;> rfl
  · intro hb
    have hc := clean_parseT l
    unfold unphaseLineText unphaseCols
    have e : unphaseT (parseCols (splitOn '\t' l)) = parseCols (splitOn '\t' l) := by
      unfold unphaseT; split
      · rfl
      · next h => rw [show parseCols (splitOn '\t' l) = parseT l from rfl, hb] at h; simp at h
    rw [e]
    have hfix : (parseCols (splitOn '\t' l)).fixed = splitOn '\t' l := by
      have hb' : (parseCols (splitOn '\t' l)).body = none := hb
      unfold parseCols at hb' ⊢
      split
      · rfl
      · next h => rw [h] at hb'; simp at hb'
    unfold renderT
    rw [show (parseCols (splitOn '\t' l)).body = none from hb]
    simp only [hfix, join_splitOn]
  · intro keys samples hb
    refine ⟨samples.map (unphaseVals keys), by simp [unphaseT, hb, unphaseKeys], by simp, ?_⟩
    intro i vs vs' hi hi'
    rw [List.getElem?_map, hi] at hi'
    simp at hi'
    subst hi'
    exact zip_unphaseVals_nonGT keys vs

/-- applying `whatshap unphase` to its own output line changes nothing -/
theorem unphase_text_idempotent (l : Str) (hwf : GtFirstOnly (parseT l)) :
    unphaseLineText (unphaseLineText l) = unphaseLineText l := by
  have h := parseT_unphaseLineText l
  have : unphaseLineText (unphaseLineText l) = renderT (unphaseT (parseT (unphaseLineText l))) := rfl
  rw [this, h, unphaseT_idem (clean_parseT l) hwf]
  rfl

/-- no GT token of the output contains `|` (a token outside the GT grammar, which pysam shows as a string, is the input's) -/
theorem unphase_text_no_bar (l : Str) (hwf : GtFirstOnly (parseT l)) :
    ∀ tok ∈ gtTokens (parseT (unphaseLineText l)), '|' ∉ tok ∨ (parseGTTok tok = none ∧ tok ∈ gtTokens (parseT l)) := by
  rw [parseT_unphaseLineText]
  intro tok htok
  obtain ⟨v, hv, rfl⟩ := gtTokens_unphaseT _ hwf tok htok
  rcases unphaseGTTok_bar v with h | ⟨h1, h2⟩
  · exact Or.inl h
  · rw [h2]; exact Or.inr ⟨h1, hv⟩

/-- a line all of whose GT tokens are of the grammar (`parseLine` succeeds) comes out without any `|` in a GT token -/
theorem unphase_text_no_bar_of_parsed (l : Str) (hwf : GtFirstOnly (parseT l))
    (hg : ∀ v ∈ gtTokens (parseT l), parseGTTok v ≠ none) :
    ∀ tok ∈ gtTokens (parseT (unphaseLineText l)), '|' ∉ tok := by
  rw [parseT_unphaseLineText]
  intro tok htok
  obtain ⟨v, hv, rfl⟩ := gtTokens_unphaseT _ hwf tok htok
  rcases unphaseGTTok_bar v with h | ⟨h1, _⟩
  · exact h
  · exact absurd h1 (hg v hv)

/-- values omitted at the end of a sample column (VCF spec) are the same as `.`: writing one more `:.` into a sample column that
has fewer values than FORMAT has keys does not change the output line (so HP / PQ / PS leave FORMAT whether their values were
written or omitted, and the output has a value for every remaining key).  No length hypothesis is needed: in a column that already
has a value for every key the model cuts the surplus value (htslib rejects such a line; outside well-formedness) -/
theorem trailing_omitted_fields_ok (fixed : List Str) (hf : fixed.length = 8) (fmt : Str) (before after : List Str) (s : Str) :
    unphaseCols (fixed ++ fmt :: (before ++ (s ++ [':', '.']) :: after)) = unphaseCols (fixed ++ fmt :: (before ++ s :: after)) := by
  have key : parseCols (fixed ++ fmt :: (before ++ (s ++ [':', '.']) :: after)) = parseCols (fixed ++ fmt :: (before ++ s :: after)) := by
    unfold parseCols
    have d1 : ∀ rest : List Str, (fixed ++ rest).drop 8 = rest := fun rest => by rw [← hf]; exact List.drop_left
    have t1 : ∀ rest : List Str, (fixed ++ rest).take 8 = fixed := fun rest => by rw [← hf]; exact List.take_left
    rw [d1, d1]
    simp only [t1, List.map_append, List.map_cons]
    have : padTo (parseKeys fmt).length (splitOn ':' (s ++ [':', '.'])) = padTo (parseKeys fmt).length (splitOn ':' s) := by
      rcases splitOn_append_sep_dot ':' s with h | h
      · rw [h, padTo_append_dot]
      · exact absurd h (by decide)
    rw [this]
  unfold unphaseCols
  rw [key]

/-! non-vacuity: a line `c 1 . A C . . . GT:PS 1|0:5` satisfies the hypotheses; the output `… GT 0/1` is checked by the driver (`c13.line`) -/
def exLine : Str := join '\t' [['c'], ['1'], ['.'], ['A'], ['C'], ['.'], ['.'], ['.'], ['G', 'T', ':', 'P', 'S'], ['1', '|', '0', ':', '5']]

example : GtFirstOnly (parseT exLine) := by
  intro keys samples h
  have h' : (parseT exLine).body = some ([['G', 'T'], ['P', 'S']], [[['1', '|', '0'], ['5']]]) := by decide
  rw [h'] at h
  cases h
  decide
example : ∃ r, parseLine exLine = some r := ⟨_, rfl⟩
example : ∀ v ∈ gtTokens (parseT exLine), parseGTTok v ≠ none := by decide

end Text

end WhVerif.Props.C13

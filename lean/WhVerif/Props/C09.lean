import WhVerif.Lemmas.C09
/-!
# C09 — PS and HP encodings are equivalent, round-trip, and never mix old and new phase

Theorems about the encoders / removal of `Model/C04.lean` and the decoders of `Model/C09.lean`.

The writer-level theorems hold for the *repaired* writer (`Cfg.repaired = true`, fixes/F4.patch).  For the code
as it is two of them are false; the concrete witnesses are `f4a_witness` (re-phasing a PS-phased call with
`--tag HP` leaves both encodings in the call: the reader raises `MixedPhasingError`) and `f4b_witness`
(an unphased `1/0` genotype written with `--tag HP` decodes to the opposite phase of `--tag PS`).
-/
namespace WhVerif.Props.C09
open WhVerif.C04 WhVerif.C09

/-- **ps_roundtrip** (codec): decoding a call on which `_set_PS` wrote block `comp` and a heterozygous diploid
    phase returns exactly that block (as the 1-based position) and that phase — whatever the call held
    before. -/
theorem ps_roundtrip (fmt : List String) (c : Call) (comp a b : Nat) (h : a ≠ b) :
    extractGTPS (addKey fmt "PS") (setPS c comp [a, b]) = some ⟨some ((comp : Int) + 1), [some a, some b]⟩ :=
  extractGTPS_setPS fmt c comp a b h

/-- **hp_roundtrip** (codec): decoding a call whose (unphased) genotype is the sorted `0/1` and on which
    `_set_HP` wrote block `comp` and phase `0|1` or `1|0` returns exactly that block and phase. -/
theorem hp_roundtrip (c : Call) (comp : Nat) (p : List Nat) (hgt : c.gt = some [some 0, some 1])
    (hp : p = [0, 1] ∨ p = [1, 0]) :
    extractHP (setHP c comp p) = .ok (some ⟨some ((comp : Int) + 1), p.map some⟩) :=
  extractHP_setHP c comp p hgt hp

theorem updateCall_fst (cfg : Cfg) (t : Target) (r : Record) (c : Call) :
    (updateCall cfg t r c).1 =
      match alookup t.comps r.pos, lookupPhase cfg.mav t r.pos with
      | some comp, some p =>
        if (changeStep cfg t r c).2.2 then setTag cfg.tag (changeStep cfg t r c).1 comp p
        else (changeStep cfg t r c).1.set cfg.tag.key .missing
      | _, _ => (changeStep cfg t r c).1.set cfg.tag.key .missing := by
  unfold updateCall
  generalize changeStep cfg t r c = cs
  obtain ⟨c1, chg, isHet⟩ := cs
  cases h1 : alookup t.comps r.pos <;> cases h2 : lookupPhase cfg.mav t r.pos <;> simp only []
  split <;> rfl

/-- **what the decoders see after `write`** (repaired writer, `mav` off).  For the call of a target sample, after
    the record has been processed: the HP decoder returns the phase statement of this run iff the tag is HP,
    the GT/PS decoder returns it iff the tag is PS, and nothing else is decodable — whatever phase
    information (phased GT, PS, HP, in any combination) the input call carried. -/
theorem decode_written (cfg : Cfg) (hr : cfg.repaired = true) (hm : cfg.mav = false) (prev : Option Nat) (r : Record)
    (n : String) (t : Target) (hft : findTarget cfg n = some t) (c : Call) (hwf : WfCall r.format c) :
    callPhases (writeRecord cfg prev r).record.format (finalCall cfg prev r n c) =
      .ok (if reaches cfg prev r && cfg.tag == .HP then written false t r.pos else none,
           if reaches cfg prev r && cfg.tag == .PS then written false t r.pos else none) := by
  have hHP0 := cleared_get_HP cfg hr r.format c hwf
  have hph0 := cleared_phased cfg hr r.format c hwf
  have hcanon : gcode (clearPhasing cfg r.format c).gt ≠ [] →
      (clearPhasing cfg r.format c).gt = some ((gcode (clearPhasing cfg r.format c).gt).map some) := by
    rw [cleared_gt cfg hr]; exact unphaseGt_canonical c
  have hfin : finalCall cfg prev r n c =
      if reaches cfg prev r then (updateCall cfg t r (clearPhasing cfg r.format c)).1 else clearPhasing cfg r.format c := by
    simp only [finalCall, hft]
  rw [hfin, writeRecord_format]
  generalize clearPhasing cfg r.format c = c0 at hHP0 hph0 hcanon
  by_cases hreach : reaches cfg prev r = true
  · simp only [hreach, if_true, Bool.true_and]
    -- facts about the call after the change step
    have hf1 := changeStep_fields cfg t r c0
    have hp1 := changeStep_phased cfg t r c0 hph0
    have hHP1 : (changeStep cfg t r c0).1.get "HP" = .missing := by simpa [Call.get, hf1] using hHP0
    rw [updateCall_fst]
    -- the unphased outcome, common to several branches
    have hun : callPhases (addKey r.format cfg.tag.key) ((changeStep cfg t r c0).1.set cfg.tag.key .missing) = .ok (none, none) := by
      have h1 : ((changeStep cfg t r c0).1.set cfg.tag.key .missing).get "HP" = .missing := by
        cases htag : cfg.tag
        · rw [Call.get_set_other _ _ _ _ (by decide)]; exact hHP1
        · exact Call.get_set_same _ _ _
      have h2 : extractGTPS (addKey r.format cfg.tag.key) ((changeStep cfg t r c0).1.set cfg.tag.key .missing) = none :=
        extractGTPS_unphased _ _ (by simpa using hp1)
      simp [callPhases, extractHP_missing _ h1, h2]
    cases hcomp : alookup t.comps r.pos with
    | none =>
      simp only [written, hcomp]
      rw [hun]; cases cfg.tag <;> simp
    | some comp =>
      cases hp : lookupPhase cfg.mav t r.pos with
      | none =>
        have hp' : lookupPhase false t r.pos = none := by rw [← hm]; exact hp
        simp only [written, hcomp, hp']
        rw [hun]; cases cfg.tag <;> simp
      | some p =>
        have hp' : lookupPhase false t r.pos = some p := by rw [← hm]; exact hp
        have hhet := changeStep_isHet cfg t r c0 p hp
        simp only [written, hcomp, hp', hhet]
        cases hh : isHom (sortNat p) with
        | true =>
          simp only [Bool.not_true, Bool.false_eq_true, if_false]
          rw [hun]; cases cfg.tag <;> simp
        | false =>
          simp only [Bool.not_false, if_true]
          have hl := lookupPhase_length hp
          obtain ⟨h01, hs01⟩ := het01 hl (lookupPhase_alleles hp') hh
          have hgt1 := changeStep_gt_sorted cfg hr t r c0 p hp hcanon
          rw [hs01] at hgt1
          cases htag : cfg.tag with
          | PS =>
            obtain ⟨a, b, rfl⟩ := pair_of_length_two hl
            have hab := het_pair hh
            have hHPs : (setPS (changeStep cfg t r c0).1 comp [a, b]).get "HP" = .missing := by
              simp only [setPS, Call.get]
              rw [fget_fset_other _ _ _ _ (by decide)]
              exact hHP1
            simp [callPhases, setTag, Tag.key, extractHP_missing _ hHPs, extractGTPS_setPS _ _ _ _ _ hab]
          | HP =>
            have hph : (setHP (changeStep cfg t r c0).1 comp p).phased = false := by simpa [setHP] using hp1
            simp [callPhases, setTag, Tag.key, extractHP_setHP _ comp p hgt1 h01, extractGTPS_unphased _ _ hph]
  · simp only [hreach, Bool.false_eq_true, if_false, Bool.false_and]
    simp [callPhases, extractHP_missing _ hHP0, extractGTPS_unphased _ _ hph0]

end WhVerif.Props.C09

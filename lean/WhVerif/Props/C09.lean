import WhVerif.Lemmas.C09
import WhVerif.Lemmas.C09PseudoInst
import WhVerif.Lemmas.C09PseudoOrder
import WhVerif.Lemmas.C02Compose
import WhVerif.Lemmas.C09File
import WhVerif.Lemmas.C09Cap
import WhVerif.Lemmas.C09Text
import WhVerif.Lemmas.C09Aug
/-!
# C09 — PS and HP encodings are equivalent, round-trip, and never mix old and new phase

Theorems about the encoders / removal of `Model/C04.lean` and the decoders of `Model/C09.lean`.

The writer-level theorems hold for the *repaired* writer (`Cfg.repaired = true`, fixes/F4.patch).  For the code
as it is two of them are false; the concrete witnesses are `f4a_witness` (re-phasing a PS-phased call with
`--tag HP` leaves both encodings in the call: the reader raises `MixedPhasingError`) and `f4b_witness`
(an unphased `1/0` genotype written with `--tag HP` decodes to the opposite phase of `--tag PS`).
-/
namespace WhVerif.Props.C09
open WhVerif.C04 WhVerif.C09

/-- **ps_roundtrip** (codec): decoding a call on which `_set_PS` wrote block `comp` and a heterozygous diploid
    phase returns exactly that block (as the 1-based position) and that phase — whatever the call held
    before. -/
theorem ps_roundtrip (fmt : List String) (c : Call) (comp a b : Nat) (h : a ≠ b) :
    extractGTPS (addKey fmt "PS") (setPS c comp [a, b]) = some ⟨some ((comp : Int) + 1), [some a, some b]⟩ :=
  extractGTPS_setPS fmt c comp a b h

/-- **hp_roundtrip** (codec): decoding a call whose (unphased) genotype is the sorted `0/1` and on which
    `_set_HP` wrote block `comp` and phase `0|1` or `1|0` returns exactly that block and phase. -/
theorem hp_roundtrip (c : Call) (comp : Nat) (p : List Nat) (hgt : c.gt = some [some 0, some 1])
    (hp : p = [0, 1] ∨ p = [1, 0]) :
    extractHP (setHP c comp p) = .ok (some ⟨some ((comp : Int) + 1), p.map some⟩) :=
  extractHP_setHP c comp p hgt hp

/-- **what the decoders see after `write`** (repaired writer, `mav` off).  For the call of a target sample, after
    the record has been processed: the HP decoder returns the phase statement of this run iff the tag is HP,
    the GT/PS decoder returns it iff the tag is PS, and nothing else is decodable — whatever phase
    information (phased GT, PS, HP, in any combination) the input call carried. -/
theorem decode_written (cfg : Cfg) (hr : cfg.repaired = true) (hm : cfg.mav = false) (prev : Option Nat) (r : Record)
    (n : String) (t : Target) (hft : findTarget cfg n = some t) (c : Call) (hwf : WfCall r.format c) :
    callPhases (writeRecord cfg prev r).record.format (finalCall cfg prev r n c) =
      .ok (if reaches cfg prev r && cfg.tag == .HP then written false t r.pos else none,
           if reaches cfg prev r && cfg.tag == .PS then written false t r.pos else none) :=
  decode_written_lemma cfg hr hm prev r n t hft c hwf

/-- `phase_detected`-free view of one call: what the reader stores (GT/PS wins over HP when both fire) -/
def decoded (x : Except Err (Option Phase × Option Phase)) : Option Phase :=
  match x with
  | .ok (hp, gp) => (match gp with | some p => some p | none => hp)
  | .error _ => none

/-- **ps_hp_equivalent**.  Writing the same phasing result with `--tag PS` and with `--tag HP` onto the same
    input record gives, for every target sample, calls that decode without error to the same phase set and
    the same haplotype alleles (PS through the GT/PS decoder only, HP through the HP decoder only). -/
theorem ps_hp_equivalent (cfg : Cfg) (hr : cfg.repaired = true) (hm : cfg.mav = false) (prev : Option Nat) (r : Record)
    (n : String) (t : Target) (hft : findTarget cfg n = some t) (c : Call) (hwf : WfCall r.format c) :
    ∃ ph : Option Phase,
      callPhases (writeRecord { cfg with tag := .PS } prev r).record.format (finalCall { cfg with tag := .PS } prev r n c)
        = .ok (none, ph) ∧
      callPhases (writeRecord { cfg with tag := .HP } prev r).record.format (finalCall { cfg with tag := .HP } prev r n c)
        = .ok (ph, none) := by
  refine ⟨if reaches cfg prev r then written false t r.pos else none, ?_, ?_⟩
  · have := decode_written { cfg with tag := .PS } hr hm prev r n t hft c hwf
    have hre : reaches { cfg with tag := .PS } prev r = reaches cfg prev r := rfl
    rw [this, hre]; cases reaches cfg prev r <;> simp
  · have := decode_written { cfg with tag := .HP } hr hm prev r n t hft c hwf
    have hre : reaches { cfg with tag := .HP } prev r = reaches cfg prev r := rfl
    rw [this, hre]; cases reaches cfg prev r <;> simp

/-- decoding what was written returns what was written: the phase stored by the reader for a target call is
    exactly the statement of this run (`written`), for both tags -/
theorem write_roundtrip (cfg : Cfg) (hr : cfg.repaired = true) (hm : cfg.mav = false) (prev : Option Nat) (r : Record)
    (n : String) (t : Target) (hft : findTarget cfg n = some t) (c : Call) (hwf : WfCall r.format c) :
    decoded (callPhases (writeRecord cfg prev r).record.format (finalCall cfg prev r n c)) =
      if reaches cfg prev r then written false t r.pos else none := by
  rw [decode_written cfg hr hm prev r n t hft c hwf]
  cases reaches cfg prev r <;> cases cfg.tag <;> simp [decoded] <;> cases written false t r.pos <;> rfl

/-- **rephase_no_stale_phase**.  After `write`, every phase statement that either decoder finds in the call of a
    target sample was made by this run — no matter what phase information the input call carried (phased GT,
    PS, HP, with either tag being written). -/
theorem rephase_no_stale_phase (cfg : Cfg) (hr : cfg.repaired = true) (hm : cfg.mav = false) (prev : Option Nat)
    (r : Record) (n : String) (t : Target) (hft : findTarget cfg n = some t) (c : Call) (hwf : WfCall r.format c)
    (hp gp : Option Phase)
    (hdec : callPhases (writeRecord cfg prev r).record.format (finalCall cfg prev r n c) = .ok (hp, gp))
    (ph : Phase) (hph : hp = some ph ∨ gp = some ph) :
    reaches cfg prev r = true ∧ written false t r.pos = some ph ∧ (hp = none ∨ gp = none) := by
  rw [decode_written cfg hr hm prev r n t hft c hwf] at hdec
  simp only [Except.ok.injEq, Prod.mk.injEq] at hdec
  obtain ⟨h1, h2⟩ := hdec
  cases hre : reaches cfg prev r <;> cases htag : cfg.tag <;> simp [hre, htag] at h1 h2 <;> subst h1 h2 <;> simp_all

/-- chromosome level: every record that `write` emits for a chromosome is the image of one input record, the call
    of a target sample in it is `finalCall` of the input call, and whatever decodes from it was written by this run -/
theorem rephase_no_stale_phase_chrom (cfg : Cfg) (hr : cfg.repaired = true) (hm : cfg.mav = false) (prev : Option Nat)
    (rs : List Record) (o : Out) (ho : o ∈ writeChrom cfg prev rs) :
    ∃ prev' r, r ∈ rs ∧ o = writeRecord cfg prev' r ∧
      ∀ n t c, findTarget cfg n = some t → clookup r.calls n = some c → WfCall r.format c →
        ∃ c', clookup o.record.calls n = some c' ∧
          ∀ hp gp, callPhases o.record.format c' = .ok (hp, gp) →
            ∀ ph, (hp = some ph ∨ gp = some ph) → written false t r.pos = some ph := by
  obtain ⟨prev', r, hr', rfl⟩ := mem_writeChrom cfg rs prev o ho
  refine ⟨prev', r, hr', rfl, fun n t c hft hc hwf => ⟨finalCall cfg prev' r n c, ?_, ?_⟩⟩
  · rw [writeRecord_clookup, hc]; rfl
  · intro hp gp hdec ph hph
    exact (rephase_no_stale_phase cfg hr hm prev' r n t hft c hwf hp gp hdec ph hph).2.1

/-! ### F4 on the code as it is (`repaired = false`) -/

/-- sample A: phase 1|0 in block 10 at position 10 -/
def f4Target : Target := ⟨"A", [(10, 1), (20, 0)], [(10, 0), (20, 1)], [(10, 10), (20, 10)]⟩
def f4Cfg (tag : Tag) (repaired : Bool) : Cfg := ⟨tag, false, false, repaired, ["A"], [f4Target]⟩

/-- **F4(a) witness**: the input call is PS-phased (`0|1:7`); re-phasing with `--tag HP` as coded leaves phased GT
    and PS in place and adds HP: both decoders fire (⇒ `MixedPhasingError`), and the GT/PS one reports the
    stale input phase `0|1` of block 7.  The repaired writer leaves exactly the new HP statement. -/
theorem f4a_witness :
    let r : Record := ⟨"s", 10, "A", ["C"], ["GT", "PS"], [("A", ⟨some [some 0, some 1], true, [("PS", .int 7)]⟩)]⟩
    (callPhases (writeRecord (f4Cfg .HP false) none r).record.format (finalCall (f4Cfg .HP false) none r "A" ⟨some [some 0, some 1], true, [("PS", .int 7)]⟩)
      = .ok (some ⟨some 11, [some 1, some 0]⟩, some ⟨some 7, [some 0, some 1]⟩)) ∧
    (callPhases (writeRecord (f4Cfg .HP true) none r).record.format (finalCall (f4Cfg .HP true) none r "A" ⟨some [some 0, some 1], true, [("PS", .int 7)]⟩)
      = .ok (some ⟨some 11, [some 1, some 0]⟩, none)) := by
  constructor <;> rfl

/-- **F4(b) witness**: unphased input genotype `1/0`; as coded the HP output decodes to `0|1`, the PS output to
    `1|0` (opposite phase).  Repaired, both decode to `1|0`. -/
theorem f4b_witness :
    let c : Call := ⟨some [some 1, some 0], false, []⟩
    let r : Record := ⟨"s", 10, "A", ["C"], ["GT"], [("A", c)]⟩
    (decoded (callPhases (writeRecord (f4Cfg .HP false) none r).record.format (finalCall (f4Cfg .HP false) none r "A" c))
      = some ⟨some 11, [some 0, some 1]⟩) ∧
    (decoded (callPhases (writeRecord (f4Cfg .PS false) none r).record.format (finalCall (f4Cfg .PS false) none r "A" c))
      = some ⟨some 11, [some 1, some 0]⟩) ∧
    (decoded (callPhases (writeRecord (f4Cfg .HP true) none r).record.format (finalCall (f4Cfg .HP true) none r "A" c))
      = some ⟨some 11, [some 1, some 0]⟩) := by
  refine ⟨?_, ?_, ?_⟩ <;> decide

/-! ### pseudo reads (`phased_blocks_as_reads`) -/

/-- **pseudo reads come in complementary pairs**: for heterozygous biallelic phases, read 0 of a block is
    emitted iff read 1 is, they cover the same positions and carry opposite alleles everywhere. -/
theorem pseudo_reads_complementary (rows : List VarPhase)
    (hbi : ∀ v ∈ rows, eligible 2 v = true → ∃ ph, v.phase = some ph ∧
        (ph.alleles = [some 0, some 1] ∨ ph.alleles = [some 1, some 0]))
    (b : Option Int) (rd : List (Nat × Option Nat)) (h : (b, 0, rd) ∈ blocksAsReads 2 rows) :
    (b, 1, rd.map fun pa => (pa.1, pa.2.map (1 - ·))) ∈ blocksAsReads 2 rows := by
  rw [mem_blocksAsReads] at h ⊢
  obtain ⟨hb, _, hrd, hlen⟩ := h
  refine ⟨hb, Or.inr rfl, ?_, by simpa using hlen⟩
  subst hrd
  simp only [pseudoRead, List.map_map]
  apply List.map_congr_left
  intro v hv
  have hv' := (List.mem_filter.mp hv).1
  obtain ⟨hvr, hel⟩ := List.mem_filter.mp hv'
  obtain ⟨ph, hph, h01⟩ := hbi v hvr hel
  rcases h01 with h01 | h01 <;> simp [Function.comp, hph, h01]

/-- **every phase set with at least two eligible variants becomes a read pair** covering exactly those variants -/
theorem pseudo_reads_cover (rows : List VarPhase) (b : Option Int)
    (hlen : ((rows.filter (eligible 2)).filter (fun v => blockOfRow v == b)).length > 1) :
    ∀ i, i = 0 ∨ i = 1 → ∃ rd, (b, i, rd) ∈ blocksAsReads 2 rows ∧
      rd.map (·.1) = ((rows.filter (eligible 2)).filter (fun v => blockOfRow v == b)).map (·.pos) := by
  intro i hi
  refine ⟨pseudoRead (rows.filter (eligible 2)) b i, ?_, by simp [pseudoRead, Function.comp]⟩
  rw [mem_blocksAsReads]
  refine ⟨?_, hi, rfl, by simpa [pseudoRead] using hlen⟩
  -- the block id occurs among the keys
  have hne : (List.filter (fun v => blockOfRow v == b) (rows.filter (eligible 2))) ≠ [] := by
    intro h0; rw [h0] at hlen; simp at hlen
  obtain ⟨v, hv⟩ := List.exists_mem_of_ne_nil _ hne
  obtain ⟨hv1, hv2⟩ := List.mem_filter.mp hv
  simp only [blockKeys, List.mem_eraseDups, List.mem_map]
  exact ⟨v, hv1, by simpa using hv2⟩

/-! ### non-vacuity -/

example : findTarget (f4Cfg .PS true) "A" = some f4Target := rfl
example : WfCall ["GT", "PS"] ⟨some [some 0, some 1], true, [("PS", .int 7)]⟩ := by
  constructor
  · intro k hk
    simp only [List.mem_cons, List.not_mem_nil, or_false, not_or] at hk
    simp [Call.get, fget, Ne.symm hk.2]
  · intro h; cases h
example : reaches (f4Cfg .PS true) none ⟨"s", 10, "A", ["C"], ["GT"], [("A", ⟨some [some 1, some 0], false, []⟩)]⟩ = true := by
  decide
example : written false f4Target 10 = some ⟨some 11, [some 1, some 0]⟩ := by decide
example : blocksAsReads 2 [⟨10, true, [0, 1], some ⟨some 11, [some 0, some 1]⟩⟩, ⟨20, true, [0, 1], some ⟨some 11, [some 1, some 0]⟩⟩,
      ⟨30, true, [1, 1], none⟩, ⟨40, true, [0, 1], some ⟨some 41, [some 0, some 1]⟩⟩]
    = [(some 11, 0, [(10, some 0), (20, some 1)]), (some 11, 1, [(10, some 1), (20, some 0)])] := by decide

/-! ### a phased VCF as the only phase input reproduces its phase sets (`Spec/C09Pseudo.lean`)

Composition of the pseudo reads with the solver (C01/C02).  `rows` is the phased input of one sample on one
chromosome, sorted by position as `VariantTable` guarantees.  `tagged` is the read set the solver sees: ALL pseudo
reads (hypothesis `hsel`: read selection keeps them — "the sets fit under the coverage cap", C07) in ANY order that
is sorted by first position (`ReadSet.sort()` breaks ties by a hash of the read name, so the order of the two
reads of a block is not fixed; the emission order itself is admissible: `pseudo_reads_emitted_sorted`).
`pseudoInst` is the solver instance: columns = sorted distinct positions of the reads (`pseudo_cols`), trusted
heterozygous genotypes, positive weights `w`. -/

open WhVerif.C01 WhVerif.C02 in
/-- **pseudo_reads_reproduce_sets**.  The instance is sorted (`WF`) and its reads are error-free copies of the two
    haplotypes of the input phasing (`ErrFree`, truth = allele on haplotype 0, `src` = haplotype index of the
    pseudo read); hence the solver reports cost 0, returns a witness, and for ANY witness `(β, τ)` achieving the
    reported cost every phase set `b` with at least two eligible variants is reproduced up to exchanging its two
    haplotypes: there is ONE `swap` for the block such that every variant `v` of the block (input phase
    `a | 1-a`) has a column `c` whose super-read alleles are exactly `(a, 1-a)` (or `(1-a, a)` if `swap`) — no tie
    flag.  Blocks may interleave arbitrarily. -/
theorem pseudo_reads_reproduce_sets (rows : List VarPhase) (w : Nat → Nat) (recomb : List Nat)
    (hs : rows.Pairwise (fun u v => u.pos < v.pos))
    (hbi : ∀ v ∈ rows, eligible 2 v = true → ∃ ph, v.phase = some ph ∧
        (ph.alleles = [some 0, some 1] ∨ ph.alleles = [some 1, some 0]))
    (hw : ∀ p, 0 < w p)
    (tagged : List PRead) (hsel : tagged.Perm (blocksAsReads 2 rows))
    (hord : tagged.Pairwise (fun x y => firstPos x ≤ firstPos y)) :
    let I := pseudoInst rows w recomb tagged
    WF I ∧ ErrFree I (truthHap rows) (srcOf tagged) ∧ dpCost I = some 0 ∧
    (∃ β τ, witness I = some (β, τ)) ∧
    ∀ β τ, totalCost I β τ = dpCost I →
      ∀ b, (blockRows rows b).length > 1 →
        ∃ swap : Bool, ∀ v ∈ blockRows rows b,
          ∃ a, a ≤ 1 ∧ alleleAt 0 v = some a ∧ alleleAt 1 v = some (1 - a) ∧
          ∃ c, c < I.ncols ∧ (pseudoCols rows)[c]? = some v.pos ∧
            getAlleles I c (restrict β (I.activeAt c)) (τ.getD c 0) =
              some [if swap then (1 - a, a) else (a, 1 - a)] := by
  intro I
  have hmem : ∀ t ∈ tagged, t ∈ blocksAsReads 2 rows := fun t ht => hsel.mem_iff.mp ht
  have hwf : WF I := pseudoInst_wf hs hmem hord
  have hef : ErrFree I (truthHap rows) (srcOf tagged) := pseudoInst_errfree hs hbi hw hmem
  have hz : dpCost I = some 0 := WhVerif.C02.errfree_dpCost_zero hef hwf
  refine ⟨hwf, hef, hz, ?_, ?_⟩
  · cases hwit : witness I with
    | none => rw [(WhVerif.Props.C01.witness_none_iff I).mp hwit] at hz; cases hz
    | some p => exact ⟨p.1, p.2, rfl⟩
  · intro β τ hcost b hlen
    have ht0 := blocksAsReads_of_block hlen 0 (Or.inl rfl)
    obtain ⟨r0, hr0, hget⟩ := List.mem_iff_getElem.mp (hsel.mem_iff.mpr ht0)
    refine ⟨β.getD r0 false, ?_⟩
    intro v hv
    have hel := mem_blockRows.mp hv
    obtain ⟨a, ha, h0, h1⟩ := alleleAt_biallelic hbi hel.1 hel.2.1
    have hcovered := blockRows_covered hlen hv
    have hcol := pos_mem_pseudoCols hcovered
    refine ⟨a, ha, h0, h1, colOf (pseudoCols rows) v.pos, colOf_lt hcol, getElem?_colOf hcol, ?_⟩
    have hcov : covers I r0 (colOf (pseudoCols rows) v.pos) :=
      pseudoInst_covers hr0 (by rw [hget]; exact ht0) (by rw [hget]; exact hv)
    have hr0' : r0 < I.nreads := by rw [pseudoInst_nreads]; exact hr0
    rw [WhVerif.C02.pipeline_truth_solver hef hwf β τ hcost r0 r0 _ (Connected.refl r0 hr0') hcov (colOf_lt hcol)]
    have hsrc : srcOf tagged r0 = false := by rw [srcOf_getElem hr0, hget]; rfl
    rw [hsrc, truthHap_colOf hs hcovered, h0]
    cases β.getD r0 false <;> simp

/-- the columns of the instance are exactly the positions of the pseudo reads, strictly increasing
    (= `sorted(readset.get_positions())`) -/
theorem pseudo_cols (rows : List VarPhase) (hs : rows.Pairwise (fun u v => u.pos < v.pos)) :
    (pseudoCols rows).Pairwise (· < ·) ∧
    ∀ p, p ∈ pseudoCols rows ↔ ∃ t ∈ blocksAsReads 2 rows, p ∈ t.2.2.map (·.1) :=
  ⟨pseudoCols_sorted hs, fun _ => mem_pseudoCols⟩

/-- `phased_blocks_as_reads` emits its reads sorted by first position already (blocks in the order of their first
    eligible variant, the two reads of a block adjacent): `tagged := blocksAsReads 2 rows` satisfies the
    hypotheses of `pseudo_reads_reproduce_sets` -/
theorem pseudo_reads_emitted_sorted (rows : List VarPhase) (hs : rows.Pairwise (fun u v => u.pos < v.pos)) :
    (blocksAsReads 2 rows).Pairwise (fun x y => firstPos x ≤ firstPos y) :=
  blocksAsReads_sorted hs

/-! non-vacuity: two interleaved blocks (7: positions 10, 30, 50; 9: positions 20, 40), a homozygous row, a singleton
    block and an unwanted row -/

def exRows : List VarPhase :=
  [⟨10, true, [0, 1], some ⟨some 7, [some 0, some 1]⟩⟩, ⟨20, true, [0, 1], some ⟨some 9, [some 1, some 0]⟩⟩,
   ⟨30, true, [0, 1], some ⟨some 7, [some 1, some 0]⟩⟩, ⟨35, true, [1, 1], none⟩,
   ⟨40, true, [0, 1], some ⟨some 9, [some 1, some 0]⟩⟩, ⟨50, true, [0, 1], some ⟨some 7, [some 0, some 1]⟩⟩,
   ⟨60, true, [0, 1], some ⟨some 61, [some 0, some 1]⟩⟩, ⟨70, false, [0, 1], some ⟨some 9, [some 0, some 1]⟩⟩]

example : blocksAsReads 2 exRows =
    [(some 7, 0, [(10, some 0), (30, some 1), (50, some 0)]), (some 7, 1, [(10, some 1), (30, some 0), (50, some 1)]),
     (some 9, 0, [(20, some 1), (40, some 1)]), (some 9, 1, [(20, some 0), (40, some 0)])] := by decide
example : pseudoCols exRows = [10, 20, 30, 40, 50] := by decide
example : (pseudoInst exRows (fun _ => 20) [] (blocksAsReads 2 exRows)).reads.map (fun r => (r.first, r.last, r.entries)) =
    [(0, 4, [(0, 0, 20), (2, 1, 20), (4, 0, 20)]), (0, 4, [(0, 1, 20), (2, 0, 20), (4, 1, 20)]),
     (1, 3, [(1, 1, 20), (3, 1, 20)]), (1, 3, [(1, 0, 20), (3, 0, 20)])] := by decide
example : (blockRows exRows (some 7)).length > 1 ∧ (blockRows exRows (some 9)).length > 1 := by decide

/-- the theorem instantiated on the interleaved example (emission order; swapping the two reads of block 9 is
    another admissible order) -/
example :=
  pseudo_reads_reproduce_sets exRows (fun _ => 20) [] (by decide) (by decide) (fun _ => by decide)
    (blocksAsReads 2 exRows) (List.Perm.refl _) (pseudo_reads_emitted_sorted exRows (by decide))

/-! ### file level: the reader on whole chromosomes, the writer as it is now, and their compositions
(`Model/C09File.lean`, `Lemmas/C09File.lean`) -/

/-- **reader_ploidy_refines**.  The reader with the ploidy bookkeeping (`readChromP`, = `_process_single_chromosome` with
    `phases=True`) either raises or returns exactly what the ploidy-free model `readChrom` returns; the ploidy, once known,
    never changes (it is carried to the next chromosome by `readFile`). -/
theorem reader_ploidy_refines (os : Bool) (rs : List Record) (st st' : Option Enc) (pl pl' prev : Option Nat) (rows : List Row)
    (h : readChromP os st pl prev rs = .ok (st', pl', rows)) :
    readChrom os st prev rs = .ok (st', rows) ∧ ∀ q, pl = some q → pl' = some q :=
  ⟨(readChromP_ok os rs h).1, (readChromP_ok os rs h).2.1⟩

/-- **reader_rows_sorted**.  A table the reader returns has strictly increasing positions — one row per position, namely
    for the first record of the position that survives the skipping rules (`accepted`) — whatever the file contains. -/
theorem reader_rows_sorted (os : Bool) (rs : List Record) (st st' : Option Enc) (prev : Option Nat) (rows : List Row)
    (h : readChrom os st prev rs = .ok (st', rows)) :
    rows.Pairwise (fun a b => a.pos < b.pos) ∧ rows.map (·.pos) = (accepted os prev rs).map (·.pos) :=
  ⟨(readChrom_sorted os rs h).1, (readChrom_sorted os rs h).2.2⟩

/-- **reader_phase_is_genotype_order**.  In a table the ploidy-aware reader returns, the phase stored for a heterozygous
    diploid call consists of the two alleles of its genotype in one of the two orders — for both encodings, any HP field
    order, phase-set ids that are not positions, a missing PS value: malformed HP values and phases of another ploidy
    make the reader raise instead (`Err.hpFormat`, `Err.ploidy`). -/
theorem reader_phase_is_genotype_order (os : Bool) (rs : List Record) (st st' : Option Enc) (pl pl' prev : Option Nat)
    (rows : List Row) (h : readChromP os st pl prev rs = .ok (st', pl', rows)) :
    ∀ row ∈ rows, ∀ x ∈ row.calls, ∀ p, x.2 = some p → ∀ a b, x.1 = [a, b] → a ≠ b →
      p.alleles = [some a, some b] ∨ p.alleles = [some b, some a] :=
  (readChromP_ok os rs h).2.2

/-- **writer_switch_on_is_repaired_writer**.  `PhasedVcfWriter.write` as it is now with `remove_existing_phasing=True`
    (what `whatshap phase` uses) is the repaired writer of `Model/C04.lean`: every theorem above about
    `writeRecord`/`writeChrom` with `repaired = true` is a theorem about the current code. -/
theorem writer_switch_on_is_repaired_writer (cfg : Cfg) (prev : Option Nat) (rs : List Record) :
    writeChromX true cfg prev rs = writeChrom { cfg with repaired := true } prev rs :=
  writeChromX_true cfg rs prev

/-- **writer_switch_off_keeps**.  With `remove_existing_phasing=False` (haplotagphase) a record the writer does not tag is
    written back unchanged, and in a tagged record the call of a target sample that is GT-phased and has no phase in this
    run keeps its genotype, its phased flag and all its values. -/
theorem writer_switch_off_keeps (cfg : Cfg) (prev : Option Nat) (r : Record) :
    (reaches cfg prev r = false → (writeRecordX false cfg prev r).record = r) ∧
    ∀ t c, c.phased = true → lookupPhase cfg.mav t r.pos = none → updateCallX false cfg t r c = (c, none) :=
  ⟨fun h => by rw [writeRecordX_false_unreached cfg prev r h], fun t c h1 h2 => updateCallX_false_keeps cfg t r c h1 h2⟩

/-- **F65 witness** (keep mode, `remove_existing_phasing=False`, as haplotagphase uses the writer): the input call is HP-phased
    (`0/1`, `HP=5-2,5-1`, e.g. written by `phase --tag HP`); tagging it with PS as coded leaves HP next to the new phased GT/PS —
    both decoders fire and the reader raises `MixedPhasingError` on the written record; after `fixes/F65.patch`
    (`writeRecordXF`) only the new statement decodes. -/
theorem f65_witness :
    let c : Call := ⟨some [some 0, some 1], false, [("HP", .hp [(5, 2), (5, 1)])]⟩
    let r : Record := ⟨"s", 10, "A", ["C"], ["GT", "HP"], [("A", c)]⟩
    (readChrom false none none [(writeRecordX false (f4Cfg .PS true) none r).record] = .error .mixed) ∧
    ((readChrom false none none [(writeRecordXF (f4Cfg .PS true) none r).record]).toOption.map (fun x => x.2.map rowPhasesF) =
      some [(10, [some ⟨some 11, [some 1, some 0]⟩])]) := by
  constructor <;> rfl

/-- **read_written_chrom**.  Reading back what `write` (current code, removal on) wrote for one chromosome: for ANY
    position-sorted input — duplicate positions, records without or with several ALT alleles, non-SNVs under
    `--only-snvs`, calls carrying phased GT / PS / HP in any combination — the reader raises no error (no
    `MixedPhasingError`, no HP format error, no `VcfNotSortedError`), keeps exactly the input records `accepted` says, and
    stores for every sample exactly the phase statement of this run (`expPhaseF` = `written` of the sample's target;
    nothing for a non-target sample, which must not carry phase information of its own).  The two skip cascades (reader:
    `prev_position` of every row; writer: `prev_pos` only of tagged records) agree on which record of a position is
    phased. -/
theorem read_written_chrom (cfg : Cfg) (hm : cfg.mav = false) (rs : List Record)
    (hok : ∀ r ∈ rs, CallsOkF cfg r) (hs : rs.Pairwise (fun a b => a.pos ≤ b.pos)) :
    ∃ st' rows, readChrom cfg.onlySnvs none none (outRecords (writeChromX true cfg none rs)) = .ok (st', rows) ∧
      rows.map rowPhasesF =
        (accepted cfg.onlySnvs none rs).map (fun r => (r.pos, r.calls.map (fun nc => expPhaseF cfg r.pos nc.1))) := by
  rw [writeChromX_true]
  have hok' : ∀ r ∈ rs, CallsOkF { cfg with repaired := true } r := fun r h => ⟨(hok r h).wf, (hok r h).hdr, (hok r h).other⟩
  obtain ⟨st', rows, _, h1, h2⟩ :=
    readChrom_writeChrom_general { cfg with repaired := true } rfl hm rs none none none (Or.inl rfl) hok' hs
      (fun p hp => by cases hp) (fun p hp => by cases hp) (fun p hp => by cases hp)
  exact ⟨st', rows, h1, h2⟩

/-- **rephase_file_no_stale_phase**.  The chromosome loop of `run_whatshap` (`writeFile`: one `write` call per run of
    records of a chromosome, with empty super-reads for a chromosome that was not requested): a chromosome without
    targets is written back record for record; on every other one, whatever decodes from the call of a target sample
    was written by this run. -/
theorem rephase_file_no_stale_phase (groups : List (String × Cfg × List Record))
    (hm : ∀ g ∈ groups, g.2.1.mav = false) (out : String × List Record) (ho : out ∈ writeFile groups) :
    ∃ g ∈ groups, out.1 = g.1 ∧ (g.2.1.targets = [] → out.2 = g.2.2) ∧
      out.2 = outRecords (writeChrom { g.2.1 with repaired := true } none g.2.2) ∧
      ∀ o ∈ writeChrom { g.2.1 with repaired := true } none g.2.2,
        ∃ prev' r, r ∈ g.2.2 ∧ o = writeRecord { g.2.1 with repaired := true } prev' r ∧
          ∀ n t c, findTarget g.2.1 n = some t → clookup r.calls n = some c → WfCall r.format c →
            ∃ c', clookup o.record.calls n = some c' ∧
              ∀ hp gp, callPhases o.record.format c' = .ok (hp, gp) →
                ∀ ph, (hp = some ph ∨ gp = some ph) → written false t r.pos = some ph := by
  unfold writeFile at ho
  obtain ⟨g, hg, rfl⟩ := List.mem_map.mp ho
  obtain ⟨chrom, cfg, rs⟩ := g
  refine ⟨(chrom, cfg, rs), hg, rfl, ?_, ?_, ?_⟩
  · intro hno
    simp only [writeChromX_true]
    exact writeChrom_no_targets { cfg with repaired := true } hno none rs
  · simp only [writeChromX_true]
  · intro o hmem
    exact rephase_no_stale_phase_chrom { cfg with repaired := true } rfl (hm _ hg) none rs o hmem

open WhVerif.C01 WhVerif.C02 in
/-- **phase_input_reproduces_sets**.  End to end for a phase-input VCF: if the ploidy-aware reader accepts the records of
    a chromosome (`readChromP … = .ok …`) and the genotype codes are biallelic (the reader keeps only records with one ALT
    allele), then the rows of any sample as `phased_blocks_as_reads` looks at them (`rowsOf`, any list of input variants)
    satisfy ALL hypotheses that `pseudo_reads_reproduce_sets` makes about the table — sorted positions, phases `0|1` /
    `1|0` on eligible rows — so that every phase set with at least two eligible variants is reproduced up to exchanging
    its haplotypes.  What remains assumed: positive weights (a `PQ` of 0 gives weight 0) and that read selection keeps all
    pseudo reads (`hsel`). -/
theorem phase_input_reproduces_sets (os : Bool) (rs : List Record) (st' : Option Enc) (pl pl' : Option Nat) (rows : List Row)
    (hread : readChromP os none pl none rs = .ok (st', pl', rows))
    (hbi : ∀ row ∈ rows, ∀ x ∈ row.calls, ∀ a ∈ x.1, a ≤ 1)
    (si : Nat) (iv : List VKey) (w : Nat → Nat) (recomb : List Nat) (hw : ∀ p, 0 < w p)
    (tagged : List PRead) (hsel : tagged.Perm (blocksAsReads 2 (rowsOf rows si iv)))
    (hord : tagged.Pairwise (fun x y => firstPos x ≤ firstPos y)) :
    let vrows := rowsOf rows si iv
    let I := pseudoInst vrows w recomb tagged
    WF I ∧ ErrFree I (truthHap vrows) (srcOf tagged) ∧ dpCost I = some 0 ∧
    (∃ β τ, witness I = some (β, τ)) ∧
    ∀ β τ, totalCost I β τ = dpCost I →
      ∀ b, (blockRows vrows b).length > 1 →
        ∃ swap : Bool, ∀ v ∈ blockRows vrows b,
          ∃ a, a ≤ 1 ∧ alleleAt 0 v = some a ∧ alleleAt 1 v = some (1 - a) ∧
          ∃ c, c < I.ncols ∧ (pseudoCols vrows)[c]? = some v.pos ∧
            getAlleles I c (restrict β (I.activeAt c)) (τ.getD c 0) =
              some [if swap then (1 - a, a) else (a, 1 - a)] := by
  obtain ⟨h1, _, h3⟩ := readChromP_ok os rs hread
  exact pseudo_reads_reproduce_sets (rowsOf rows si iv) w recomb
    (rowsOf_sorted (readChrom_sorted os rs h1).1 si iv) (rowsOf_biallelic h3 hbi si iv) hw tagged hsel hord

/-! ### non-vacuity of the file-level theorems -/

/-- sample A is phased (block 10: 1|0 at 10, 0|1 at 20, 1|0 at 40), sample B is not a target; `--tag HP --only-snvs` -/
def exFileCfg : Cfg :=
  ⟨.HP, true, false, false, ["A", "B"],
   [⟨"A", [(10, 1), (20, 0), (40, 1)], [(10, 0), (20, 1), (40, 0)], [(10, 10), (20, 10), (40, 10)]⟩]⟩

/-- a chromosome with a duplicate position (the second record carries stale phase), an insertion that `--only-snvs` skips
    followed by an SNV at the same position, a multi-ALT record, and a call that is HP-phased in the input -/
def exFileRecs : List Record :=
  [⟨"1", 10, "A", ["C"], ["GT", "PS"], [("A", ⟨some [some 0, some 1], true, [("PS", .int 7)]⟩), ("B", ⟨some [some 0, some 0], false, []⟩)]⟩,
   ⟨"2", 10, "A", ["G"], ["GT", "PS"], [("A", ⟨some [some 1, some 0], true, [("PS", .int 7)]⟩), ("B", ⟨some [some 0, some 1], false, []⟩)]⟩,
   ⟨"3", 20, "A", ["AT"], ["GT", "PS"], [("A", ⟨some [some 0, some 1], true, [("PS", .int 7)]⟩), ("B", ⟨some [some 1, some 1], false, []⟩)]⟩,
   ⟨"4", 20, "A", ["T"], ["GT"], [("A", ⟨some [some 1, some 0], false, []⟩), ("B", ⟨some [some 0, some 1], false, []⟩)]⟩,
   ⟨"5", 30, "G", ["A", "T"], ["GT", "PS"], [("A", ⟨some [some 1, some 2], true, [("PS", .int 7)]⟩), ("B", ⟨some [some 0, some 0], false, []⟩)]⟩,
   ⟨"6", 40, "A", ["C"], ["GT", "HP"], [("A", ⟨some [some 1, some 0], false, [("HP", .hp [(5, 2), (5, 1)])]⟩), ("B", ⟨none, false, []⟩)]⟩]

example : (accepted true none exFileRecs).map (·.site) = ["1", "4", "6"] := by decide
example : ∀ r ∈ exFileRecs, CallsOkF exFileCfg r := by
  intro r hr; apply callsOkF_of_B; revert r; decide
example : exFileRecs.Pairwise (fun a b => a.pos ≤ b.pos) := by decide
/-- what the reader finds in the output: rows for the records "1", "4", "6" with exactly this run's statements for A -/
example : (readChrom true none none (outRecords (writeChromX true exFileCfg none exFileRecs))).toOption.map
      (fun x => x.2.map rowPhasesF) =
    some [(10, [some ⟨some 11, [some 1, some 0]⟩, none]), (20, [some ⟨some 11, [some 0, some 1]⟩, none]),
          (40, [some ⟨some 11, [some 1, some 0]⟩, none])] := by decide
example := read_written_chrom exFileCfg rfl exFileRecs
  (fun r hr => by apply callsOkF_of_B; revert r; decide) (by decide)
/-- the stale statements of the skipped records "2", "3", "5" are gone from the output as well -/
example : ((outRecords (writeChromX true exFileCfg none exFileRecs)).map fun r =>
      (r.calls.head?).map (fun nc => (nc.2.phased, nc.2.get "PS"))) =
    [some (false, .missing), some (false, .missing), some (false, .missing), some (false, .missing), some (false, .missing),
     some (false, .missing)] := by decide
/-- with `remove_existing_phasing=False` they stay -/
example : ((outRecords (writeChromX false exFileCfg none exFileRecs)).map fun r =>
      (r.calls.head?).map (fun nc => (nc.2.phased, nc.2.get "PS"))) =
    [some (true, .int 7), some (true, .int 7), some (true, .int 7), some (false, .missing), some (true, .int 7),
     some (false, .missing)] := by decide
example : updateCallX false exFileCfg ⟨"A", [], [], []⟩ ⟨"2", 10, "A", ["G"], ["GT", "PS"], []⟩ ⟨some [some 1, some 0], true, [("PS", .int 7)]⟩
    = (⟨some [some 1, some 0], true, [("PS", .int 7)]⟩, none) := by decide

/-- a phase-input chromosome: HP with either field order on sorted and unsorted genotypes, interleaved blocks 5 and 9,
    a homozygous call, a duplicate position -/
def exPhaseRecs : List Record :=
  [⟨"1", 10, "A", ["C"], ["GT", "HP"], [("S", ⟨some [some 0, some 1], false, [("HP", .hp [(5, 1), (5, 2)])]⟩)]⟩,
   ⟨"2", 20, "A", ["C"], ["GT", "HP"], [("S", ⟨some [some 1, some 0], false, [("HP", .hp [(9, 1), (9, 2)])]⟩)]⟩,
   ⟨"3", 30, "A", ["C"], ["GT", "HP"], [("S", ⟨some [some 0, some 1], false, [("HP", .hp [(5, 2), (5, 1)])]⟩)]⟩,
   ⟨"4", 30, "A", ["G"], ["GT", "HP"], [("S", ⟨some [some 0, some 1], false, [("HP", .hp [(9, 1), (9, 2)])]⟩)]⟩,
   ⟨"5", 40, "A", ["C"], ["GT", "HP"], [("S", ⟨some [some 1, some 1], false, [("HP", .missing)]⟩)]⟩,
   ⟨"6", 50, "A", ["C"], ["GT", "HP"], [("S", ⟨some [some 0, some 1], false, [("HP", .hp [(9, 2), (9, 1)])]⟩)]⟩]

def exPhaseRows : List Row :=
  [⟨10, "A", "C", [([0, 1], some ⟨some 5, [some 0, some 1]⟩)]⟩, ⟨20, "A", "C", [([0, 1], some ⟨some 9, [some 1, some 0]⟩)]⟩,
   ⟨30, "A", "C", [([0, 1], some ⟨some 5, [some 1, some 0]⟩)]⟩, ⟨40, "A", "C", [([1, 1], none)]⟩,
   ⟨50, "A", "C", [([0, 1], some ⟨some 9, [some 1, some 0]⟩)]⟩]

set_option linter.defProp false in
def exPhase_read : readChromP false none none none exPhaseRecs = .ok (some .HP, some 2, exPhaseRows) := by rfl
example : readFile false none [("chr1", exPhaseRecs), ("chr2", exPhaseRecs)] =
    .ok (some 2, [("chr1", exPhaseRows), ("chr2", exPhaseRows)]) := by rfl
/-- a one-field HP value on a diploid genotype, PS next to HP in one chromosome, a haploid call after diploid ones -/
example : readChromP false none none none
    [⟨"1", 10, "A", ["C"], ["GT", "HP"], [("S", ⟨some [some 0, some 1], false, [("HP", .hp [(5, 1)])]⟩)]⟩] = .error .ploidy := by rfl
example : readChromP false none none none (exPhaseRecs ++
    [⟨"7", 60, "A", ["C"], ["GT", "PS"], [("S", ⟨some [some 0, some 1], true, [("PS", .int 5)]⟩)]⟩]) = .error .mixed := by rfl
example : readChromP false none none none (exPhaseRecs ++
    [⟨"7", 60, "A", ["C"], ["GT"], [("S", ⟨some [some 1], false, []⟩)]⟩]) = .error .ploidy := by rfl
example : readChromP false none none none
    [⟨"1", 10, "A", ["C"], ["GT", "HP"], [("S", ⟨some [some 0, some 1], false, [("HP", .hp [(5, 1), (6, 2)])]⟩)]⟩] = .error .hpFormat := by rfl

example := reader_ploidy_refines false exPhaseRecs none _ none _ none _ exPhase_read
example := reader_phase_is_genotype_order false exPhaseRecs none _ none _ none _ exPhase_read
example := reader_rows_sorted false exPhaseRecs none _ none _ (reader_ploidy_refines false exPhaseRecs none _ none _ none _ exPhase_read).1

example : blocksAsReads 2 (rowsOf exPhaseRows 0 [(10, "A", "C"), (20, "A", "C"), (30, "A", "C"), (40, "A", "C"), (50, "A", "C")]) =
    [(some 5, 0, [(10, some 0), (30, some 1)]), (some 5, 1, [(10, some 1), (30, some 0)]),
     (some 9, 0, [(20, some 1), (50, some 1)]), (some 9, 1, [(20, some 0), (50, some 0)])] := by decide
/-- the end-to-end theorem on the example (block 5 = {10, 30} and block 9 = {20, 50} interleaved) -/
example :=
  phase_input_reproduces_sets false exPhaseRecs _ none _ exPhaseRows exPhase_read (by decide) 0
    [(10, "A", "C"), (20, "A", "C"), (30, "A", "C"), (40, "A", "C"), (50, "A", "C")] (fun _ => 20) [] (fun _ => by decide)
    _ (List.Perm.refl _) (pseudo_reads_emitted_sorted _ (by decide))

/-- the file loop: chr1 is phased, chr2 was not requested (no targets) and keeps its old phase -/
example : (writeFile [("chr1", exFileCfg, exFileRecs), ("chr2", { exFileCfg with targets := [] }, exFileRecs)]).map
      (fun g => g.2.map fun r => (r.calls.head?).map (fun nc => nc.2.phased)) =
    [[some false, some false, some false, some false, some false, some false],
     [some true, some true, some true, some false, some true, some false]] := by decide
example := rephase_file_no_stale_phase [("chr1", exFileCfg, exFileRecs), ("chr2", { exFileCfg with targets := [] }, exFileRecs)]
  (by decide)



/-- **read_written_file**.  Whole files, ploidy included: `VcfReader.__iter__` with `phases=True` (`readFile`: `phase_detected`
    reset per chromosome, ploidy carried along) on the output of the chromosome loop of `whatshap phase` (`writeFile`) raises
    nothing — no `MixedPhasingError`, no `PloidyError`, no HP format error, no `VcfNotSortedError` — and returns, chromosome
    by chromosome, exactly the rows `expRows` (the accepted input records with this run's phase statements), provided
    every chromosome is position-sorted, its fully called genotypes are diploid, and calls of non-target samples carry
    no phase information.  Chromosomes may be written with different target sets (e.g. none for a chromosome that
    `--chromosome` excludes), may contain duplicate positions and records the reader skips. -/
theorem read_written_file (os : Bool) (groups : List (String × Cfg × List Record)) (hg : ∀ g ∈ groups, GroupOk os g)
    (pl : Option Nat) (hpl : pl = none ∨ pl = some 2) :
    ∃ pl' tables, (pl' = none ∨ pl' = some 2) ∧ readFile os pl (writeFile groups) = .ok (pl', tables) ∧
      tables.map (fun t => (t.1, t.2.map rowPhasesF)) =
        groups.map (fun g => (g.1, expRows { g.2.1 with repaired := true } g.2.2)) :=
  readFile_writeFile os groups hg hpl

/-- non-vacuity: the example chromosome written twice (the second time without targets — which `GroupOk` only admits for
    records without phase information, so an unphased copy is used) -/
def exPlainRecs : List Record :=
  [⟨"1", 10, "A", ["C"], ["GT"], [("A", ⟨some [some 0, some 1], false, []⟩), ("B", ⟨some [some 0, some 0], false, []⟩)]⟩,
   ⟨"2", 10, "A", ["G"], ["GT"], [("A", ⟨some [some 1, some 0], false, []⟩), ("B", ⟨some [none, some 1], false, []⟩)]⟩]

set_option linter.defProp false in
def exGroupsOk : ∀ g ∈ [("chr1", exFileCfg, exFileRecs), ("chr2", { exFileCfg with targets := [] }, exPlainRecs)],
    GroupOk true g := by
  intro g hg
  simp only [List.mem_cons, List.not_mem_nil, or_false] at hg
  have hd : ∀ rs : List Record, (rs.all fun r => r.calls.all fun nc =>
      match nc.2.gt with | some g => !(g.all Option.isSome) || g.length == 2 | none => true) = true →
      ∀ r ∈ rs, ∀ nc ∈ r.calls, Dip nc.2.gt := by
    intro rs h r hr nc hnc g' e hall
    have := List.all_eq_true.mp (List.all_eq_true.mp h r hr) nc hnc
    rw [e] at this
    simp only [hall, Bool.not_true, Bool.false_or, beq_iff_eq] at this
    exact this
  rcases hg with rfl | rfl
  · exact ⟨rfl, rfl, fun r hr => by apply callsOkF_of_B; revert r; decide, by decide, hd _ (by decide)⟩
  · exact ⟨rfl, rfl, fun r hr => by apply callsOkF_of_B; revert r; decide, by decide, hd _ (by decide)⟩

example := read_written_file true _ exGroupsOk none (Or.inl rfl)
example : (readFile true none (writeFile [("chr1", exFileCfg, exFileRecs), ("chr2", { exFileCfg with targets := [] }, exPlainRecs)])).toOption.map
      (fun x => (x.1, x.2.map fun t => (t.1, t.2.map rowPhasesF))) =
    some (some 2, [("chr1", [(10, [some ⟨some 11, [some 1, some 0]⟩, none]), (20, [some ⟨some 11, [some 0, some 1]⟩, none]),
                            (40, [some ⟨some 11, [some 1, some 0]⟩, none])]),
                   ("chr2", [(10, [none, none])])]) := by rfl


/-- **phase_input_reader_reads**.  `PhasedInputReader.read` restricted to the phase-input VCFs (`phaseInputReads`): the reads
    a file contributes are, up to their qualities and names, `blocksAsReads` of the sample's rows in the table the file has
    for the chromosome (`tableOf`: the last table of that chromosome) — i.e. the objects `pseudo_reads_*` and
    `phase_input_reproduces_sets` talk about; a file without the sample contributes nothing; and the source ids of the files
    (handed to read selection as preferred sources) are pairwise different, so the `(name, source id)` keys of
    `ReadSet.add` cannot clash between two files that use the same phase-set ids. -/
theorem phase_input_reader_reads (files : List (List PTable)) (nPaths : Nat) (chrom sample : String) (sid : Nat) (iv : List VKey) :
    (phaseInputReads files nPaths chrom sample sid iv).2.Nodup ∧
    ∀ (t : PTable) (src : Nat),
      (pseudoReadsOf t sample iv src sid).map (fun r => (r.sourceId, r.sampleId, r.variants.map (fun v => (v.1, v.2.1)))) =
        if t.samples.findIdx (· == sample) < t.samples.length then
          (blocksAsReads 2 (rowsOf t.rows (t.samples.findIdx (· == sample)) iv)).map (fun x => (src, sid, x.2.2))
        else [] :=
  ⟨phaseInputReads_ids_nodup files nPaths chrom sample sid iv, fun t src => pseudoReadsOf_spec t sample iv src sid⟩

/-- non-vacuity: two phase-input files with the same block ids; the second has the chromosome twice (the later table wins) and
    PQ values; a third lacks the sample -/
def exPT (q : List (List (Option Int))) (rows : List Row) (s : String) : PTable := ⟨"chr1", [s], rows, q⟩
example : phaseInputReads
      [[exPT [] exPhaseRows "S"], [exPT [] [] "S", exPT [[some 30], [none], [some 7], [none], [some 0]] exPhaseRows "S"], [exPT [] exPhaseRows "T"]]
      1 "chr1" "S" 4 [(10, "A", "C"), (30, "A", "C"), (20, "A", "C"), (50, "A", "C")] =
    ([⟨"S_phase_0_block_5", 1, 4, [(10, some 0, 20), (30, some 1, 20)]⟩, ⟨"S_phase_1_block_5", 1, 4, [(10, some 1, 20), (30, some 0, 20)]⟩,
      ⟨"S_phase_0_block_9", 1, 4, [(20, some 1, 20), (50, some 1, 20)]⟩, ⟨"S_phase_1_block_9", 1, 4, [(20, some 0, 20), (50, some 0, 20)]⟩,
      ⟨"S_phase_0_block_5", 2, 4, [(10, some 0, 30), (30, some 1, 7)]⟩, ⟨"S_phase_1_block_5", 2, 4, [(10, some 1, 30), (30, some 0, 7)]⟩,
      ⟨"S_phase_0_block_9", 2, 4, [(20, some 1, 20), (50, some 1, 0)]⟩, ⟨"S_phase_1_block_9", 2, 4, [(20, some 0, 20), (50, some 0, 0)]⟩],
     [1, 2, 3]) := by decide

/-! ### the chromosome loop has no memory (round 8) -/

/-- **write_file_chromosome_local**.  What the chromosome loop writes for a chromosome does not depend on the chromosomes
    written before or after it — in particular not on their positions: the output for `pre ++ g :: post` is the output for
    `pre`, the output for `g` written alone, and the output for `post`.  (Together with `read_written_file` /
    `rephase_file_no_stale_phase`: a record that is the first to be phased on its chromosome gets its new phase even when
    its POS is the POS of the record phased last on the chromosome before.) -/
theorem write_file_chromosome_local (pre post : List (String × Cfg × List Record)) (g : String × Cfg × List Record) :
    writeFile (pre ++ g :: post) = writeFile pre ++ writeFile [g] ++ writeFile post := by
  simp [writeFile]

/-- two chromosomes with the same three positions, sample A phased as one set on each; the last phased POS of the first
    (300) is the first phased POS of the second when that one starts at 300 -/
def exChainCfg (p0 p1 p2 : Nat) : Cfg :=
  ⟨.PS, true, false, false, ["A"], [⟨"A", [(p0, 0), (p1, 1), (p2, 0)], [(p0, 1), (p1, 0), (p2, 1)], [(p0, p0), (p1, p0), (p2, p0)]⟩]⟩
def exChainRecs (p0 p1 p2 : Nat) : List Record :=
  [p0, p1, p2].map fun p => ⟨"v", p, "A", ["C"], ["GT"], [("A", ⟨some [some 0, some 1], false, []⟩)]⟩
def exChainGroups : List (String × Cfg × List Record) :=
  [("chrA", exChainCfg 100 200 300, exChainRecs 100 200 300), ("chrB", exChainCfg 300 400 500, exChainRecs 300 400 500)]

/-- non-vacuity of `write_file_chromosome_local` on the coinciding positions: every record of both chromosomes is phased -/
example : (writeFile exChainGroups).map (fun g => g.2.map fun r => (r.pos, (r.calls.head?).map (fun nc => (nc.2.phased, nc.2.get "PS")))) =
    [[(100, some (true, .int 101)), (200, some (true, .int 101)), (300, some (true, .int 101))],
     [(300, some (true, .int 301)), (400, some (true, .int 301)), (500, some (true, .int 301))]] := by decide

/-- **carried_prev_pos_witness**.  Why `prev_pos` must not outlive one `write` call: with the state carried over
    (`writeFileCarry`) the first record of `chrB` (POS 300 = POS of the last phased record of `chrA`) is skipped as a
    duplicate — it stays unphased while the rest of its phase set is written with the id 301 that names it. -/
theorem carried_prev_pos_witness :
    (writeFileCarry none exChainGroups).map (fun g => g.2.map fun r => (r.pos, (r.calls.head?).map (fun nc => (nc.2.phased, nc.2.get "PS")))) =
    [[(100, some (true, .int 101)), (200, some (true, .int 101)), (300, some (true, .int 101))],
     [(300, some (false, .missing)), (400, some (true, .int 301)), (500, some (true, .int 301))]] ∧
    writeFileCarry none exChainGroups ≠ writeFile exChainGroups := by decide

/-- **fitting_set_selected** ("as long as the sets fit under the coverage cap", made a statement about the sets).  One pass of
    read selection over the pseudo reads of a phased VCF, popped in ANY order `order`: a phase set `i` whose span has at most
    `cap` sets over each of its positions (`Cap.fits`, the set itself included) has a read selected as soon as one of its
    reads is in the queue — whatever the other sets are, however many there are, and whatever was selected before it.  `cap` is
    the per-sample cap `max_coverage // len(family)`; for unrelated samples that is the documented `--internal-downsampling`
    value itself.  (With `phase_input_reproduces_sets`, whose hypothesis is that the pseudo reads are selected.) -/
theorem fitting_set_selected (cap : Nat) (ps : List Nat) (spans : List Cap.Span) (order : List Nat) (i : Nat)
    (hlt : i < spans.length) (hmem : i ∈ order) (hf : Cap.fits cap ps spans i = true) :
    i ∈ Cap.pass cap ps spans order :=
  Cap.foldl_selects cap ps spans order [] i ⟨List.nodup_nil, by simp⟩ hlt hf hmem

/-- 8 interleaved phase sets of one sample: set `j` reaches from position `100 + 10 j` to `300 + 10 j`, all overlap -/
def exStack : List Cap.Span := (List.range 8).map fun j => ⟨100 + 10 * j, 300 + 10 * j⟩
def exStackPos : List Nat := (List.range 8).flatMap fun j => [100 + 10 * j, 200 + 10 * j, 300 + 10 * j]

/-- non-vacuity of `fitting_set_selected`: under the default cap 15 each of the 8 sets fits (depth 8) and is selected -/
example : (List.range 8).all (fun i => Cap.fits 15 exStackPos exStack i) = true ∧
    (Cap.pass 15 exStackPos exStack (List.range 8)).length = 8 := by decide

/-- **cap_per_run_witness**.  Why the cap must be divided by the members of the family being phased and not by the number of
    families of the run: two unrelated samples give `15 / 2 = 7`, and of 8 mutually overlapping sets (which fit under 15)
    only 7 get a read — the eighth is turned away for coverage and comes out unphased. -/
theorem cap_per_run_witness :
    (Cap.pass (15 / 2) exStackPos exStack (List.range 8)).length = 7 ∧ 7 ∉ Cap.pass (15 / 2) exStackPos exStack (List.range 8) ∧
    Cap.fits 15 exStackPos exStack 7 = true := by decide

/-! ## Round 10: text level (`Model/C09Text.lean`), passthrough, indexed fetch -/

section Text
open WhVerif.C09.Text

/-- **ps_text_roundtrip**.  The PS token htslib prints for an identifier (any int32 that is not one of htslib's reserved
    values; `_set_PS` writes `component + 1 ≥ 1`) is read back as exactly that integer.  Outside the range htslib stores
    "missing" (`parsePS "2147483648" = some none`, example below): the bound is part of the statement. -/
theorem ps_text_roundtrip (n : Int) (hlo : int32Lo ≤ n) (hhi : n ≤ int32Hi) : parsePS (renderPS (some n)) = some (some n) :=
  GT.ps_text_roundtrip n hlo hhi

example : parsePS "2147483648".toList = some none := by decide
example : (int32Lo ≤ (7 : Int)) ∧ ((7 : Int) ≤ int32Hi) := by decide

/-- **hp_text_roundtrip**.  The text `_set_HP` writes (`",".join(f"{component + 1}-{allele + 1}" …)`) for ANY component
    and ANY non-empty tuple of alleles (any ploidy) is parsed back by `_extract_HP_phase`'s text handling (pysam's tuple,
    `split("-")`, `int()`, the assert loop, `field[1]`) to exactly the pairs written.  More generally, for arbitrary
    non-empty pairs `(id ≥ 0, haplotype number ≥ 0)` with one block id. -/
theorem hp_text_roundtrip (l : List (Nat × Nat)) (hne : l ≠ []) (hb : ∀ x ∈ l, x.1 = (l.headD (0, 0)).1) :
    hpValOfText (renderHP l) = .ok (some l) := by
  rw [hpValOfText_renderHP l hne, if_pos]
  simpa using hb

theorem hp_text_roundtrip_writer (c : Call) (comp : Nat) (p : List Nat) (hp : p ≠ []) :
    ∃ l, (setHP c comp p).get "HP" = .hp l ∧ hpValOfText (renderHP l) = .ok (some l) := by
  refine ⟨p.map fun a => (comp + 1, a + 1), by simp [setHP], ?_⟩
  apply hp_text_roundtrip
  · simpa using hp
  · obtain ⟨a, r, rfl⟩ := List.exists_cons_of_ne_nil hp
    intro x hx
    simp only [List.map_cons, List.mem_cons, List.mem_map] at hx
    rcases hx with rfl | ⟨_, _, rfl⟩ <;> rfl

example : hpValOfText "12-2,12-1".toList = .ok (some [(12, 2), (12, 1)]) := by decide

/-- **gt_text_roundtrip**.  `parseGT (renderGT g phased) = (g, phased)` for every ploidy ≥ 1, missing alleles and
    multi-digit alleles included, as long as the allele indices exist in the record; a haploid call has no separator and
    reads as "phased" (htslib / pysam). -/
theorem gt_text_roundtrip (nal : Nat) (g : Gt) (ph : Bool) (hne : g ≠ []) (hal : ∀ a ∈ g, ∀ x, a = some x → x < nal) :
    parseGT nal (renderGT g ph) = some (g, ph || decide (g.length = 1)) :=
  GT.gt_text_roundtrip nal g ph hne hal

example : parseGT 13 "0|.|12".toList = some ([some 0, none, some 12], true) := by decide

/-- **hp_text_injective**.  Different (block id, haplotype order) lists never share their HP text. -/
theorem hp_text_injective (l1 l2 : List (Nat × Nat)) (h : renderHP l1 = renderHP l2) : l1 = l2 :=
  renderHP_injective l1 l2 h

/-- **hp_malformed_rejected**.  (1) Whatever pairs are written with two different block ids, the decoder stops at its
    `assert`; (2) an HP value dropped from the end of the sample column (`()`) is an `IndexError`, for every GT. -/
theorem hp_malformed_rejected (l : List (Nat × Nat)) (hne : l ≠ []) (x : Nat × Nat) (hx : x ∈ l)
    (hd : x.1 ≠ (l.headD (0, 0)).1) (gt : Option Gt) :
    extractHPText (.text (renderHP l)) gt = .error .assertion ∧ extractHPText .dropped gt = .error .index := by
  refine ⟨?_, rfl⟩
  have hv : hpValOfText (renderHP l) = .error .assertion := by
    rw [hpValOfText_renderHP l hne, if_neg]
    intro hall
    rw [List.all_eq_true] at hall
    exact hd (by simpa using hall x hx)
  simp only [extractHPText, hv]

example : (9, 2) ∈ [(8, 1), (9, 2)] ∧ (9 ≠ ([(8, 1), ((9 : Nat), (2 : Nat))].headD (0, 0)).1) := by decide

/-- the error outcomes of `_extract_HP_phase` by kind, on concrete texts (GT `0/1` unless stated) -/
theorem hp_malformed_witnesses :
    let gt : Option Gt := some [some 0, some 1]
    extractHPText (.text "1-1,,1-2".toList) gt = .error .attribute ∧      -- empty piece: `None.split`
    extractHPText (.text "1-x,1-2".toList) gt = .error .value ∧           -- `int("x")`
    extractHPText (.text "1-1,1--2".toList) gt = .error .value ∧          -- `int("")`
    extractHPText (.text "1-1,1-2.0".toList) gt = .error .value ∧
    extractHPText (.text "1-1,2-2".toList) gt = .error .assertion ∧       -- two block ids
    extractHPText (.text "1,1-2".toList) gt = .error .index ∧             -- `field[1]`
    extractHPText (.text "1-1,1-3".toList) gt = .error .value ∧           -- `order.index(1)`
    extractHPText (.text "1-1,1-1".toList) gt = .error .value ∧
    extractHPText (.text "1-1,1-2,1-3".toList) gt = .error .index ∧       -- `phase[2]` on a diploid GT
    extractHPText (.text "1-1,1-2".toList) none = .error .key ∧           -- record without GT
    extractHPText (.text "1-1,.".toList) gt = .error .value ∧
    -- accepted although odd: whitespace, `+`, `_`, leading zeros, extra pieces
    extractHPText (.text " 1-+2, 01 - 1_0-7".toList) gt = .error .value ∧
    extractHPText (.text "1-2-9, +01-1 ".toList) gt = .ok (some ⟨some 1, [some 1, some 0]⟩) ∧
    extractHPText (.text ".".toList) gt = .ok none := by
  decide

/-- **decode_written_text_partial**.  The three tokens the encoders write — `_set_HP`'s HP text, `_set_PS`'s PS integer
    and phased GT — are read back from text as exactly the typed values about which `decode_written`, `ps_hp_equivalent`
    and `write_roundtrip` speak (for every component whose `component + 1` fits htslib's int32, every ploidy).
    FULL statement, not proved here: `callPhasesText (colOf nal fmt (finalCall cfg prev r n c)) =
    callPhases fmt (finalCall cfg prev r n c)` up to the kind of exception, for every renderable final call (missing: the
    refinement `extractHPText ∘ renderHP = extractHP` through `pickAll` vs `mapM`, and `colOf`'s definedness on the writer's
    calls); the differential check `c09.text` compares exactly this on every sample column of the CLI histories. -/
theorem decode_written_text_partial (c : Call) (comp : Nat) (p : List Nat) (hp : p ≠ []) (nal : Nat)
    (hal : ∀ a ∈ p, a < nal) (hc : ((comp : Int) + 1) ≤ int32Hi) :
    (∃ l, (setHP c comp p).get "HP" = .hp l ∧ hpValOfText (renderHP l) = .ok (some l)) ∧
    ((setPS c comp p).get "PS" = .int ((comp : Int) + 1) ∧
      parsePS (renderPS (some ((comp : Int) + 1))) = some (some ((comp : Int) + 1))) ∧
    ((setPS c comp p).gt = some (p.map some) ∧ (setPS c comp p).phased = true ∧
      parseGT nal (renderGT (p.map some) true) = some (p.map some, true)) := by
  refine ⟨hp_text_roundtrip_writer c comp p hp, ⟨?_, ?_⟩, rfl, rfl, ?_⟩
  · simp only [setPS, Call.get, fget_fset_same]
  · exact ps_text_roundtrip _ (by unfold int32Lo; omega) hc
  · have := gt_text_roundtrip nal (p.map some) true (by simpa using hp)
      (by intro a ha x hx; simp only [List.mem_map] at ha; obtain ⟨y, hy, rfl⟩ := ha; cases hx; exact hal _ hy)
    simpa using this

example : ((0 : Nat) : Int) + 1 ≤ int32Hi := by decide

/-- **write_unchanged_is_identity_on_calls**.  Over a file whose chromosomes come in non-empty runs with different
    neighbours, calling `write_unchanged` / `write` once per chromosome in file order never trips an `assert` of
    `_iterrecords`, and every chromosome that goes through `write_unchanged` is written record for record (site columns,
    FORMAT and all calls: the whole record) as read; `write` gets exactly the records of its chromosome. -/
theorem write_unchanged_is_identity_on_calls {α} (groups : List (String × List α)) (fs : List (Option (α → α)))
    (hlen : fs.length = groups.length) (hne : ∀ g ∈ groups, g.2 ≠ []) (hadj : AdjDiff (groups.map (·.1))) :
    runAug ⟨none, flatten groups⟩ ((groups.map (·.1)).zip fs) =
      .ok ((groups.zip fs).map fun gf => match gf.2 with | none => gf.1.2 | some g => gf.1.2.map g) :=
  runAug_groups groups fs hlen hne hadj

example : AdjDiff ["chr1", "chr2", "chr1"] := by decide
/-- asked for a chromosome the stream is not at: `assert n != 1` -/
example : runAug ⟨none, [("chr1", 1), ("chr2", 2)]⟩ [("chr2", (none : Option (Nat → Nat)))] = .error () := by decide

/-- **fetch_eq_iterate_for_chromosome**.  On a file whose contigs each form one block (what an index requires), with
    non-empty REF alleles, `fetch(chromosome)` — region `[0, None)` — hands `_process_single_chromosome` exactly the
    records that `__iter__`'s `groupby` run for that chromosome contains, so both build the same table (same function on the
    same list; the `ploidy` carried by the reader object aside). -/
theorem fetch_eq_iterate_for_chromosome {α} (site : α → Site) (groups : List (String × List α))
    (hchrom : ∀ g ∈ groups, ∀ x ∈ g.2, (site x).chrom = g.1)
    (hpw : (groups.map (·.1)).Pairwise (· ≠ ·))
    (hlen : ∀ g ∈ groups, ∀ x ∈ g.2, 0 < (site x).rlen)
    (hne : ∀ g ∈ groups, g.2 ≠ []) (hadj : AdjDiff (groups.map (·.1)))
    (g : String × List α) (hg : g ∈ groups) :
    g ∈ runsOf (fun x => (site x).chrom) ((flatten groups).map (·.2)) ∧
    fetchChrom site ((flatten groups).map (·.2)) g.1 = g.2 := by
  rw [runsOf_flatten site groups hchrom hne hadj]
  exact ⟨hg, fetchChrom_group site groups hchrom hpw hlen g hg⟩

/-- the region arithmetic matters: with `start = 1` the record at POS 1 would be lost -/
example : fetchRecs id [⟨"chr1", 0, 1⟩, ⟨"chr1", 99999, 1⟩] "chr1" 0 none = [⟨"chr1", 0, 1⟩, ⟨"chr1", 99999, 1⟩] ∧
    fetchRecs id [⟨"chr1", 0, 1⟩, ⟨"chr1", 99999, 1⟩] "chr1" 1 none = [⟨"chr1", 99999, 1⟩] := by decide

end Text

end WhVerif.Props.C09

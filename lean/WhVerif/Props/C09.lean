import WhVerif.Lemmas.C09
import WhVerif.Lemmas.C09PseudoInst
import WhVerif.Lemmas.C09PseudoOrder
import WhVerif.Lemmas.C02Compose
/-!
# C09 — PS and HP encodings are equivalent, round-trip, and never mix old and new phase

Theorems about the encoders / removal of `Model/C04.lean` and the decoders of `Model/C09.lean`.

The writer-level theorems hold for the *repaired* writer (`Cfg.repaired = true`, fixes/F4.patch).  For the code
as it is two of them are false; the concrete witnesses are `f4a_witness` (re-phasing a PS-phased call with
`--tag HP` leaves both encodings in the call: the reader raises `MixedPhasingError`) and `f4b_witness`
(an unphased `1/0` genotype written with `--tag HP` decodes to the opposite phase of `--tag PS`).
-/
namespace WhVerif.Props.C09
open WhVerif.C04 WhVerif.C09

/-- **ps_roundtrip** (codec): decoding a call on which `_set_PS` wrote block `comp` and a heterozygous diploid
    phase returns exactly that block (as the 1-based position) and that phase — whatever the call held
    before. -/
theorem ps_roundtrip (fmt : List String) (c : Call) (comp a b : Nat) (h : a ≠ b) :
    extractGTPS (addKey fmt "PS") (setPS c comp [a, b]) = some ⟨some ((comp : Int) + 1), [some a, some b]⟩ :=
  extractGTPS_setPS fmt c comp a b h

/-- **hp_roundtrip** (codec): decoding a call whose (unphased) genotype is the sorted `0/1` and on which
    `_set_HP` wrote block `comp` and phase `0|1` or `1|0` returns exactly that block and phase. -/
theorem hp_roundtrip (c : Call) (comp : Nat) (p : List Nat) (hgt : c.gt = some [some 0, some 1])
    (hp : p = [0, 1] ∨ p = [1, 0]) :
    extractHP (setHP c comp p) = .ok (some ⟨some ((comp : Int) + 1), p.map some⟩) :=
  extractHP_setHP c comp p hgt hp

/-- **what the decoders see after `write`** (repaired writer, `mav` off).  For the call of a target sample, after
    the record has been processed: the HP decoder returns the phase statement of this run iff the tag is HP,
    the GT/PS decoder returns it iff the tag is PS, and nothing else is decodable — whatever phase
    information (phased GT, PS, HP, in any combination) the input call carried. -/
theorem decode_written (cfg : Cfg) (hr : cfg.repaired = true) (hm : cfg.mav = false) (prev : Option Nat) (r : Record)
    (n : String) (t : Target) (hft : findTarget cfg n = some t) (c : Call) (hwf : WfCall r.format c) :
    callPhases (writeRecord cfg prev r).record.format (finalCall cfg prev r n c) =
      .ok (if reaches cfg prev r && cfg.tag == .HP then written false t r.pos else none,
           if reaches cfg prev r && cfg.tag == .PS then written false t r.pos else none) :=
  decode_written_lemma cfg hr hm prev r n t hft c hwf

/-- `phase_detected`-free view of one call: what the reader stores (GT/PS wins over HP when both fire) -/
def decoded (x : Except Err (Option Phase × Option Phase)) : Option Phase :=
  match x with
  | .ok (hp, gp) => (match gp with | some p => some p | none => hp)
  | .error _ => none

/-- **ps_hp_equivalent**.  Writing the same phasing result with `--tag PS` and with `--tag HP` onto the same
    input record gives, for every target sample, calls that decode without error to the same phase set and
    the same haplotype alleles (PS through the GT/PS decoder only, HP through the HP decoder only). -/
theorem ps_hp_equivalent (cfg : Cfg) (hr : cfg.repaired = true) (hm : cfg.mav = false) (prev : Option Nat) (r : Record)
    (n : String) (t : Target) (hft : findTarget cfg n = some t) (c : Call) (hwf : WfCall r.format c) :
    ∃ ph : Option Phase,
      callPhases (writeRecord { cfg with tag := .PS } prev r).record.format (finalCall { cfg with tag := .PS } prev r n c)
        = .ok (none, ph) ∧
      callPhases (writeRecord { cfg with tag := .HP } prev r).record.format (finalCall { cfg with tag := .HP } prev r n c)
        = .ok (ph, none) := by
  refine ⟨if reaches cfg prev r then written false t r.pos else none, ?_, ?_⟩
  · have := decode_written { cfg with tag := .PS } hr hm prev r n t hft c hwf
    have hre : reaches { cfg with tag := .PS } prev r = reaches cfg prev r := rfl
    rw [this, hre]; cases reaches cfg prev r <;> simp
  · have := decode_written { cfg with tag := .HP } hr hm prev r n t hft c hwf
    have hre : reaches { cfg with tag := .HP } prev r = reaches cfg prev r := rfl
    rw [this, hre]; cases reaches cfg prev r <;> simp

/-- decoding what was written returns what was written: the phase stored by the reader for a target call is
    exactly the statement of this run (`written`), for both tags -/
theorem write_roundtrip (cfg : Cfg) (hr : cfg.repaired = true) (hm : cfg.mav = false) (prev : Option Nat) (r : Record)
    (n : String) (t : Target) (hft : findTarget cfg n = some t) (c : Call) (hwf : WfCall r.format c) :
    decoded (callPhases (writeRecord cfg prev r).record.format (finalCall cfg prev r n c)) =
      if reaches cfg prev r then written false t r.pos else none := by
  rw [decode_written cfg hr hm prev r n t hft c hwf]
  cases reaches cfg prev r <;> cases cfg.tag <;> simp [decoded] <;> cases written false t r.pos <;> rfl

/-- **rephase_no_stale_phase**.  After `write`, every phase statement that either decoder finds in the call of a
    target sample was made by this run — no matter what phase information the input call carried (phased GT,
    PS, HP, with either tag being written). -/
theorem rephase_no_stale_phase (cfg : Cfg) (hr : cfg.repaired = true) (hm : cfg.mav = false) (prev : Option Nat)
    (r : Record) (n : String) (t : Target) (hft : findTarget cfg n = some t) (c : Call) (hwf : WfCall r.format c)
    (hp gp : Option Phase)
    (hdec : callPhases (writeRecord cfg prev r).record.format (finalCall cfg prev r n c) = .ok (hp, gp))
    (ph : Phase) (hph : hp = some ph ∨ gp = some ph) :
    reaches cfg prev r = true ∧ written false t r.pos = some ph ∧ (hp = none ∨ gp = none) := by
  rw [decode_written cfg hr hm prev r n t hft c hwf] at hdec
  simp only [Except.ok.injEq, Prod.mk.injEq] at hdec
  obtain ⟨h1, h2⟩ := hdec
  cases hre : reaches cfg prev r <;> cases htag : cfg.tag <;> simp [hre, htag] at h1 h2 <;> subst h1 h2 <;> simp_all

/-- chromosome level: every record that `write` emits for a chromosome is the image of one input record, the call
    of a target sample in it is `finalCall` of the input call, and whatever decodes from it was written by this run -/
theorem rephase_no_stale_phase_chrom (cfg : Cfg) (hr : cfg.repaired = true) (hm : cfg.mav = false) (prev : Option Nat)
    (rs : List Record) (o : Out) (ho : o ∈ writeChrom cfg prev rs) :
    ∃ prev' r, r ∈ rs ∧ o = writeRecord cfg prev' r ∧
      ∀ n t c, findTarget cfg n = some t → clookup r.calls n = some c → WfCall r.format c →
        ∃ c', clookup o.record.calls n = some c' ∧
          ∀ hp gp, callPhases o.record.format c' = .ok (hp, gp) →
            ∀ ph, (hp = some ph ∨ gp = some ph) → written false t r.pos = some ph := by
  obtain ⟨prev', r, hr', rfl⟩ := mem_writeChrom cfg rs prev o ho
  refine ⟨prev', r, hr', rfl, fun n t c hft hc hwf => ⟨finalCall cfg prev' r n c, ?_, ?_⟩⟩
  · rw [writeRecord_clookup, hc]; rfl
  · intro hp gp hdec ph hph
    exact (rephase_no_stale_phase cfg hr hm prev' r n t hft c hwf hp gp hdec ph hph).2.1

/-! ### F4 on the code as it is (`repaired = false`) -/

/-- sample A: phase 1|0 in block 10 at position 10 -/
def f4Target : Target := ⟨"A", [(10, 1), (20, 0)], [(10, 0), (20, 1)], [(10, 10), (20, 10)]⟩
def f4Cfg (tag : Tag) (repaired : Bool) : Cfg := ⟨tag, false, false, repaired, ["A"], [f4Target]⟩

/-- **F4(a) witness**: the input call is PS-phased (`0|1:7`); re-phasing with `--tag HP` as coded leaves phased GT
    and PS in place and adds HP: both decoders fire (⇒ `MixedPhasingError`), and the GT/PS one reports the
    stale input phase `0|1` of block 7.  The repaired writer leaves exactly the new HP statement. -/
theorem f4a_witness :
    let r : Record := ⟨"s", 10, "A", ["C"], ["GT", "PS"], [("A", ⟨some [some 0, some 1], true, [("PS", .int 7)]⟩)]⟩
    (callPhases (writeRecord (f4Cfg .HP false) none r).record.format (finalCall (f4Cfg .HP false) none r "A" ⟨some [some 0, some 1], true, [("PS", .int 7)]⟩)
      = .ok (some ⟨some 11, [some 1, some 0]⟩, some ⟨some 7, [some 0, some 1]⟩)) ∧
    (callPhases (writeRecord (f4Cfg .HP true) none r).record.format (finalCall (f4Cfg .HP true) none r "A" ⟨some [some 0, some 1], true, [("PS", .int 7)]⟩)
      = .ok (some ⟨some 11, [some 1, some 0]⟩, none)) := by
  constructor <;> rfl

/-- **F4(b) witness**: unphased input genotype `1/0`; as coded the HP output decodes to `0|1`, the PS output to
    `1|0` (opposite phase).  Repaired, both decode to `1|0`. -/
theorem f4b_witness :
    let c : Call := ⟨some [some 1, some 0], false, []⟩
    let r : Record := ⟨"s", 10, "A", ["C"], ["GT"], [("A", c)]⟩
    (decoded (callPhases (writeRecord (f4Cfg .HP false) none r).record.format (finalCall (f4Cfg .HP false) none r "A" c))
      = some ⟨some 11, [some 0, some 1]⟩) ∧
    (decoded (callPhases (writeRecord (f4Cfg .PS false) none r).record.format (finalCall (f4Cfg .PS false) none r "A" c))
      = some ⟨some 11, [some 1, some 0]⟩) ∧
    (decoded (callPhases (writeRecord (f4Cfg .HP true) none r).record.format (finalCall (f4Cfg .HP true) none r "A" c))
      = some ⟨some 11, [some 1, some 0]⟩) := by
  refine ⟨?_, ?_, ?_⟩ <;> decide

/-! ### pseudo reads (`phased_blocks_as_reads`) -/

/-- **pseudo reads come in complementary pairs**: for heterozygous biallelic phases, read 0 of a block is
    emitted iff read 1 is, they cover the same positions and carry opposite alleles everywhere. -/
theorem pseudo_reads_complementary (rows : List VarPhase)
    (hbi : ∀ v ∈ rows, eligible 2 v = true → ∃ ph, v.phase = some ph ∧
        (ph.alleles = [some 0, some 1] ∨ ph.alleles = [some 1, some 0]))
    (b : Option Int) (rd : List (Nat × Option Nat)) (h : (b, 0, rd) ∈ blocksAsReads 2 rows) :
    (b, 1, rd.map fun pa => (pa.1, pa.2.map (1 - ·))) ∈ blocksAsReads 2 rows := by
  rw [mem_blocksAsReads] at h ⊢
  obtain ⟨hb, _, hrd, hlen⟩ := h
  refine ⟨hb, Or.inr rfl, ?_, by simpa using hlen⟩
  subst hrd
  simp only [pseudoRead, List.map_map]
  apply List.map_congr_left
  intro v hv
  have hv' := (List.mem_filter.mp hv).1
  obtain ⟨hvr, hel⟩ := List.mem_filter.mp hv'
  obtain ⟨ph, hph, h01⟩ := hbi v hvr hel
  rcases h01 with h01 | h01 <;> simp [Function.comp, hph, h01]

/-- **every phase set with at least two eligible variants becomes a read pair** covering exactly those variants -/
theorem pseudo_reads_cover (rows : List VarPhase) (b : Option Int)
    (hlen : ((rows.filter (eligible 2)).filter (fun v => blockOfRow v == b)).length > 1) :
    ∀ i, i = 0 ∨ i = 1 → ∃ rd, (b, i, rd) ∈ blocksAsReads 2 rows ∧
      rd.map (·.1) = ((rows.filter (eligible 2)).filter (fun v => blockOfRow v == b)).map (·.pos) := by
  intro i hi
  refine ⟨pseudoRead (rows.filter (eligible 2)) b i, ?_, by simp [pseudoRead, Function.comp]⟩
  rw [mem_blocksAsReads]
  refine ⟨?_, hi, rfl, by simpa [pseudoRead] using hlen⟩
  -- the block id occurs among the keys
  have hne : (List.filter (fun v => blockOfRow v == b) (rows.filter (eligible 2))) ≠ [] := by
    intro h0; rw [h0] at hlen; simp at hlen
  obtain ⟨v, hv⟩ := List.exists_mem_of_ne_nil _ hne
  obtain ⟨hv1, hv2⟩ := List.mem_filter.mp hv
  simp only [blockKeys, List.mem_eraseDups, List.mem_map]
  exact ⟨v, hv1, by simpa using hv2⟩

/-! ### non-vacuity -/

example : findTarget (f4Cfg .PS true) "A" = some f4Target := rfl
example : WfCall ["GT", "PS"] ⟨some [some 0, some 1], true, [("PS", .int 7)]⟩ := by
  constructor
  · intro k hk
    simp only [List.mem_cons, List.not_mem_nil, or_false, not_or] at hk
    simp [Call.get, fget, Ne.symm hk.2]
  · intro h; cases h
example : reaches (f4Cfg .PS true) none ⟨"s", 10, "A", ["C"], ["GT"], [("A", ⟨some [some 1, some 0], false, []⟩)]⟩ = true := by
  decide
example : written false f4Target 10 = some ⟨some 11, [some 1, some 0]⟩ := by decide
example : blocksAsReads 2 [⟨10, true, [0, 1], some ⟨some 11, [some 0, some 1]⟩⟩, ⟨20, true, [0, 1], some ⟨some 11, [some 1, some 0]⟩⟩,
      ⟨30, true, [1, 1], none⟩, ⟨40, true, [0, 1], some ⟨some 41, [some 0, some 1]⟩⟩]
    = [(some 11, 0, [(10, some 0), (20, some 1)]), (some 11, 1, [(10, some 1), (20, some 0)])] := by decide

/-! ### a phased VCF as the only phase input reproduces its phase sets (`Spec/C09Pseudo.lean`)

Composition of the pseudo reads with the solver (C01/C02).  `rows` is the phased input of one sample on one
chromosome, sorted by position as `VariantTable` guarantees.  `tagged` is the read set the solver sees: ALL pseudo
reads (hypothesis `hsel`: read selection keeps them — "the sets fit under the coverage cap", C07) in ANY order that
is sorted by first position (`ReadSet.sort()` breaks ties by a hash of the read name, so the order of the two
reads of a block is not fixed; the emission order itself is admissible: `pseudo_reads_emitted_sorted`).
`pseudoInst` is the solver instance: columns = sorted distinct positions of the reads (`pseudo_cols`), trusted
heterozygous genotypes, positive weights `w`. -/

open WhVerif.C01 WhVerif.C02 in
/-- **pseudo_reads_reproduce_sets**.  The instance is sorted (`WF`) and its reads are error-free copies of the two
    haplotypes of the input phasing (`ErrFree`, truth = allele on haplotype 0, `src` = haplotype index of the
    pseudo read); hence the solver reports cost 0, returns a witness, and for ANY witness `(β, τ)` achieving the
    reported cost every phase set `b` with at least two eligible variants is reproduced up to exchanging its two
    haplotypes: there is ONE `swap` for the block such that every variant `v` of the block (input phase
    `a | 1-a`) has a column `c` whose super-read alleles are exactly `(a, 1-a)` (or `(1-a, a)` if `swap`) — no tie
    flag.  Blocks may interleave arbitrarily. -/
theorem pseudo_reads_reproduce_sets (rows : List VarPhase) (w : Nat → Nat) (recomb : List Nat)
    (hs : rows.Pairwise (fun u v => u.pos < v.pos))
    (hbi : ∀ v ∈ rows, eligible 2 v = true → ∃ ph, v.phase = some ph ∧
        (ph.alleles = [some 0, some 1] ∨ ph.alleles = [some 1, some 0]))
    (hw : ∀ p, 0 < w p)
    (tagged : List PRead) (hsel : tagged.Perm (blocksAsReads 2 rows))
    (hord : tagged.Pairwise (fun x y => firstPos x ≤ firstPos y)) :
    let I := pseudoInst rows w recomb tagged
    WF I ∧ ErrFree I (truthHap rows) (srcOf tagged) ∧ dpCost I = some 0 ∧
    (∃ β τ, witness I = some (β, τ)) ∧
    ∀ β τ, totalCost I β τ = dpCost I →
      ∀ b, (blockRows rows b).length > 1 →
        ∃ swap : Bool, ∀ v ∈ blockRows rows b,
          ∃ a, a ≤ 1 ∧ alleleAt 0 v = some a ∧ alleleAt 1 v = some (1 - a) ∧
          ∃ c, c < I.ncols ∧ (pseudoCols rows)[c]? = some v.pos ∧
            getAlleles I c (restrict β (I.activeAt c)) (τ.getD c 0) =
              some [if swap then (1 - a, a) else (a, 1 - a)] := by
  intro I
  have hmem : ∀ t ∈ tagged, t ∈ blocksAsReads 2 rows := fun t ht => hsel.mem_iff.mp ht
  have hwf : WF I := pseudoInst_wf hs hmem hord
  have hef : ErrFree I (truthHap rows) (srcOf tagged) := pseudoInst_errfree hs hbi hw hmem
  have hz : dpCost I = some 0 := WhVerif.C02.errfree_dpCost_zero hef hwf
  refine ⟨hwf, hef, hz, ?_, ?_⟩
  · cases hwit : witness I with
    | none => rw [(WhVerif.Props.C01.witness_none_iff I).mp hwit] at hz; cases hz
    | some p => exact ⟨p.1, p.2, rfl⟩
  · intro β τ hcost b hlen
    have ht0 := blocksAsReads_of_block hlen 0 (Or.inl rfl)
    obtain ⟨r0, hr0, hget⟩ := List.mem_iff_getElem.mp (hsel.mem_iff.mpr ht0)
    refine ⟨β.getD r0 false, ?_⟩
    intro v hv
    have hel := mem_blockRows.mp hv
    obtain ⟨a, ha, h0, h1⟩ := alleleAt_biallelic hbi hel.1 hel.2.1
    have hcovered := blockRows_covered hlen hv
    have hcol := pos_mem_pseudoCols hcovered
    refine ⟨a, ha, h0, h1, colOf (pseudoCols rows) v.pos, colOf_lt hcol, getElem?_colOf hcol, ?_⟩
    have hcov : covers I r0 (colOf (pseudoCols rows) v.pos) :=
      pseudoInst_covers hr0 (by rw [hget]; exact ht0) (by rw [hget]; exact hv)
    have hr0' : r0 < I.nreads := by rw [pseudoInst_nreads]; exact hr0
    rw [WhVerif.C02.pipeline_truth_solver hef hwf β τ hcost r0 r0 _ (Connected.refl r0 hr0') hcov (colOf_lt hcol)]
    have hsrc : srcOf tagged r0 = false := by rw [srcOf_getElem hr0, hget]; rfl
    rw [hsrc, truthHap_colOf hs hcovered, h0]
    cases β.getD r0 false <;> simp

/-- the columns of the instance are exactly the positions of the pseudo reads, strictly increasing
    (= `sorted(readset.get_positions())`) -/
theorem pseudo_cols (rows : List VarPhase) (hs : rows.Pairwise (fun u v => u.pos < v.pos)) :
    (pseudoCols rows).Pairwise (· < ·) ∧
    ∀ p, p ∈ pseudoCols rows ↔ ∃ t ∈ blocksAsReads 2 rows, p ∈ t.2.2.map (·.1) :=
  ⟨pseudoCols_sorted hs, fun _ => mem_pseudoCols⟩

/-- `phased_blocks_as_reads` emits its reads sorted by first position already (blocks in the order of their first
    eligible variant, the two reads of a block adjacent): `tagged := blocksAsReads 2 rows` satisfies the
    hypotheses of `pseudo_reads_reproduce_sets` -/
theorem pseudo_reads_emitted_sorted (rows : List VarPhase) (hs : rows.Pairwise (fun u v => u.pos < v.pos)) :
    (blocksAsReads 2 rows).Pairwise (fun x y => firstPos x ≤ firstPos y) :=
  blocksAsReads_sorted hs

/-! non-vacuity: two interleaved blocks (7: positions 10, 30, 50; 9: positions 20, 40), a homozygous row, a singleton
    block and an unwanted row -/

def exRows : List VarPhase :=
  [⟨10, true, [0, 1], some ⟨some 7, [some 0, some 1]⟩⟩, ⟨20, true, [0, 1], some ⟨some 9, [some 1, some 0]⟩⟩,
   ⟨30, true, [0, 1], some ⟨some 7, [some 1, some 0]⟩⟩, ⟨35, true, [1, 1], none⟩,
   ⟨40, true, [0, 1], some ⟨some 9, [some 1, some 0]⟩⟩, ⟨50, true, [0, 1], some ⟨some 7, [some 0, some 1]⟩⟩,
   ⟨60, true, [0, 1], some ⟨some 61, [some 0, some 1]⟩⟩, ⟨70, false, [0, 1], some ⟨some 9, [some 0, some 1]⟩⟩]

example : blocksAsReads 2 exRows =
    [(some 7, 0, [(10, some 0), (30, some 1), (50, some 0)]), (some 7, 1, [(10, some 1), (30, some 0), (50, some 1)]),
     (some 9, 0, [(20, some 1), (40, some 1)]), (some 9, 1, [(20, some 0), (40, some 0)])] := by decide
example : pseudoCols exRows = [10, 20, 30, 40, 50] := by decide
example : (pseudoInst exRows (fun _ => 20) [] (blocksAsReads 2 exRows)).reads.map (fun r => (r.first, r.last, r.entries)) =
    [(0, 4, [(0, 0, 20), (2, 1, 20), (4, 0, 20)]), (0, 4, [(0, 1, 20), (2, 0, 20), (4, 1, 20)]),
     (1, 3, [(1, 1, 20), (3, 1, 20)]), (1, 3, [(1, 0, 20), (3, 0, 20)])] := by decide
example : (blockRows exRows (some 7)).length > 1 ∧ (blockRows exRows (some 9)).length > 1 := by decide

/-- the theorem instantiated on the interleaved example (emission order; swapping the two reads of block 9 is
    another admissible order) -/
example :=
  pseudo_reads_reproduce_sets exRows (fun _ => 20) [] (by decide) (by decide) (fun _ => by decide)
    (blocksAsReads 2 exRows) (List.Perm.refl _) (pseudo_reads_emitted_sorted exRows (by decide))

end WhVerif.Props.C09

import WhVerif.Model.C14
import WhVerif.Spec.C14
import WhVerif.Lemmas.C14
import WhVerif.Lemmas.C14Text
import WhVerif.Lemmas.C14Deep
/-!
# C14 — split distributes every read to exactly the outputs its haplotype entry selects

`loopFix` = the pass of `run_split` after `fixes/F7a.patch`; `loopCur` = the pass in HEAD; `prescribed` = the option
table of the property text (`Spec/C14.lean`); a read is identified by its input index (`rs.zipIdx i`).
`written p k` = the reads written to output `k` in the order of the `write` calls.
-/
namespace WhVerif.Props.C14
open WhVerif.C14 WhVerif.Lemmas.C14

/-- **routed_exactly**: for every requested output `k`, the reads written to it are — in input order, each once —
exactly the input reads whose option-table entry contains `k`. -/
theorem routed_exactly (o : Opts) (t : Table) (k : Nat) (hk : isRequested o k = true) :
    ∀ (rs : List Read) (i : Nat),
      written (loopFix o t i rs) k =
        ((rs.zipIdx i).filter (fun q => decide (k ∈ prescribed o t q.1))).map (·.2) := by
  intro rs
  induction rs with
  | nil => intro i; rfl
  | cons r rs ih =>
    intro i
    have hm := prescribed_mem o t r k hk
    simp only [loopFix, List.zipIdx_cons, List.filter_cons]
    cases hro : routeOf o t r with
    | none =>
      have : ¬ k ∈ prescribed o t r := by rw [hm, hro]; simp
      simp only [this, decide_false, Bool.false_eq_true, if_false]
      exact ih (i + 1)
    | some h =>
      simp only [written_append, written_emit]
      have hm' : k ∈ prescribed o t r ↔ k ∈ sinks o h := by rw [hm, hro]; simp
      by_cases hs : k ∈ sinks o h
      · simp only [hs, hm'.mpr hs, if_true, decide_true, List.map_cons, List.singleton_append, ih (i + 1)]
      · have : ¬ k ∈ prescribed o t r := fun hc => hs (hm'.mp hc)
        simp only [hs, this, if_false, decide_false, Bool.false_eq_true, List.nil_append, ih (i + 1)]

/-- with all outputs requested and without `--add-untagged`, the option table sends every read that is not dropped
as unknown to exactly one output: the one of its haplotype entry (0 = untagged) -/
theorem prescribed_singleton (o : Opts) (t : Table) (hall : allRequested o) (hadd : o.addUntagged = false)
    (hwf : t.WF o) (r : Read) :
    prescribed o t r = if droppedAsUnknown o t r then [] else [t.hapOf r.name] := by
  unfold prescribed
  by_cases hd : droppedAsUnknown o t r = true
  · simp [hd]
  · have hreq : isRequested o (t.hapOf r.name) = true := hall _ (hapOf_le o t hwf _)
    have h0 : isRequested o 0 = true := hall 0 (Nat.zero_le _)
    simp only [hd, hadd, Bool.false_eq_true, if_false]
    by_cases hz : t.hapOf r.name = 0
    · simp [hz, h0]
    · simp [hz, hreq]

/-- **partition_when_all_outputs**: when every output is requested (and reads are not duplicated by `--add-untagged`),
each input read that is not dropped as unknown is written to exactly one output — the one its entry selects — and
to no other; so the outputs partition the (known) input. -/
theorem partition_when_all_outputs (o : Opts) (t : Table) (hall : allRequested o) (hadd : o.addUntagged = false)
    (hwf : t.WF o) (rs : List Read) (i : Nat) (r : Read) (j : Nat) (hm : (r, j) ∈ rs.zipIdx i)
    (hnd : droppedAsUnknown o t r = false) :
    j ∈ written (loopFix o t i rs) (t.hapOf r.name) ∧
    ∀ k, k ≤ o.ploidy → j ∈ written (loopFix o t i rs) k → k = t.hapOf r.name := by
  have hps : ∀ r', prescribed o t r' = if droppedAsUnknown o t r' then [] else [t.hapOf r'.name] :=
    prescribed_singleton o t hall hadd hwf
  constructor
  · rw [routed_exactly o t _ (hall _ (hapOf_le o t hwf _))]
    refine List.mem_map.mpr ⟨(r, j), List.mem_filter.mpr ⟨hm, ?_⟩, rfl⟩
    simp [hps r, hnd]
  · intro k hk hj
    rw [routed_exactly o t k (hall k hk)] at hj
    obtain ⟨q, hq, hqj⟩ := List.mem_map.mp hj
    obtain ⟨hq1, hq2⟩ := List.mem_filter.mp hq
    obtain ⟨r', j'⟩ := q
    simp only at hqj; subst hqj
    -- the same index carries the same read
    have e1 := List.mk_mem_zipIdx_iff_le_and_getElem?_sub.mp hm
    have e2 := List.mk_mem_zipIdx_iff_le_and_getElem?_sub.mp hq1
    have : r' = r := by
      have h1 := e1.2; have h2 := e2.2
      rw [h1] at h2; exact (Option.some.inj h2).symm
    subst this
    have : k ∈ prescribed o t r' := by simpa using hq2
    rw [hps r', hnd] at this
    simpa using this

/-- a read dropped as unknown is written to no requested output -/
theorem unknown_not_written (o : Opts) (t : Table) (k : Nat) (hk : isRequested o k = true) (rs : List Read) (i : Nat)
    (hall : ∀ r ∈ rs, droppedAsUnknown o t r = true) : written (loopFix o t i rs) k = [] := by
  rw [routed_exactly o t k hk]
  have : (rs.zipIdx i).filter (fun q => decide (k ∈ prescribed o t q.1)) = [] := by
    apply List.filter_eq_nil_iff.mpr
    intro q hq
    have hr : q.1 ∈ rs := by
      obtain ⟨r, j⟩ := q
      have := (List.mk_mem_zipIdx_iff_le_and_getElem?_sub.mp hq).2
      exact List.mem_of_getElem? this
    simp [prescribed, hall q.1 hr]
  rw [this]; rfl

/-- the histogram column `k` counts, per length, the processed reads whose haplotype entry is `k` -/
theorem histogram_counts_routed (o : Opts) (t : Table) (k len : Nat) :
    ∀ (rs : List Read) (i : Nat),
      histCount (loopFix o t i rs) k len =
        ((rs.zipIdx i).filter (fun q => decide (q.1.len = len ∧ routeOf o t q.1 = some k))).length := by
  intro rs
  induction rs with
  | nil => intro i; rfl
  | cons r rs ih =>
    intro i
    simp only [loopFix, List.zipIdx_cons, List.filter_cons]
    cases hro : routeOf o t r with
    | none => simp [ih (i + 1)]
    | some h =>
      simp only [histCount_append, histCount_emit, ih (i + 1)]
      by_cases hc : h = k ∧ r.len = len
      · obtain ⟨rfl, rfl⟩ := hc; simp; omega
      · have h1 : (h == k && r.len == len) = false := by
          simp only [Bool.and_eq_false_iff, beq_eq_false_iff_ne]
          by_cases hh : h = k
          · exact Or.inr (fun hl => hc ⟨hh, hl⟩)
          · exact Or.inl hh
        have h2 : ¬ (r.len = len ∧ h = k) := by
          intro ⟨a, b⟩; exact hc ⟨b, a⟩
        simp [h1, h2]

/-- **histogram_eq_written**: for a requested output `k` — the untagged one, or any one when `--add-untagged` is not
used — the histogram column `k` counts, for every length, exactly the reads of that length written to output `k`
(by `routed_exactly`, the reads whose option-table entry contains `k`). -/
theorem histogram_eq_written (o : Opts) (t : Table) (k len : Nat) (hk : isRequested o k = true)
    (hc : o.addUntagged = false ∨ k = 0) (rs : List Read) (i : Nat) :
    histCount (loopFix o t i rs) k len =
      ((rs.zipIdx i).filter (fun q => decide (q.1.len = len ∧ k ∈ prescribed o t q.1))).length := by
  rw [histogram_counts_routed]
  congr 1
  apply List.filter_congr
  intro q _
  have : (routeOf o t q.1 = some k) ↔ k ∈ prescribed o t q.1 := by
    rw [prescribed_mem o t q.1 k hk]
    constructor
    · intro h; exact ⟨k, h, (mem_sinks_iff o k k hc).mpr rfl⟩
    · rintro ⟨h, h1, h2⟩; rw [h1, (mem_sinks_iff o h k hc).mp h2]
  simp only [this]

/-- **histogram_rows** (after `fixes/F7c.patch`): the file has one row per length, in strictly increasing order, a
length has a row iff some column counts it, and a row is the length followed by the counts of all columns. -/
theorem histogram_rows (o : Opts) (p : Pass) :
    ∃ lens : List Nat, histRowsFix o p = lens.map (histRow o p) ∧ lens.Pairwise (fun a b => a < b) ∧
      ∀ len, len ∈ lens ↔ ∃ k, k ≤ o.ploidy ∧ 0 < histCount p k len := by
  refine ⟨_, rfl, sortNat_strict_of_nodup _ (nodup_dedupNat _), ?_⟩
  intro len
  rw [(sortNat_perm _).mem_iff, mem_dedupNat, List.mem_flatMap]
  constructor
  · rintro ⟨k, hk, hl⟩
    exact ⟨k, by have := List.mem_range.mp hk; omega, (mem_histKeys p k len).mp hl⟩
  · rintro ⟨k, hk, hl⟩
    exact ⟨k, List.mem_range.mpr (by omega), (mem_histKeys p k len).mpr hl⟩

/-- the list processing only produces haplotype numbers 1..ploidy (hypothesis `WF` of the partition theorem) -/
theorem table_wf (o : Opts) (rows : List (List String)) (t : Table) (h : processList o rows = .ok t) : t.WF o :=
  processList_wf o rows t h

/-! ### HEAD -/

/-- without `--discard-unknown-reads` HEAD's pass is the repaired pass -/
theorem cur_eq_fix_without_discard (o : Opts) (t : Table) (hd : o.discardUnknown = false) :
    ∀ (rs : List Read) (m i : Nat), loopCur o t m i rs = loopFix o t i rs := by
  intro rs
  induction rs with
  | nil => intro m i; rfl
  | cons r rs ih =>
    intro m i
    simp only [loopCur, loopFix, hd, Bool.false_eq_true, if_false]
    cases routeOf o t r with
    | none => exact ih m (i + 1)
    | some h => simp only [ih m (i + 1)]

/-- with it, HEAD writes a prefix of what the repaired pass writes (it may stop early: defect F7a) -/
theorem cur_prefix_of_fix (o : Opts) (t : Table) :
    ∀ (rs : List Read) (m i : Nat), ∃ rest : Pass, loopFix o t i rs = (loopCur o t m i rs).append rest := by
  intro rs
  induction rs with
  | nil => intro m i; exact ⟨Pass.empty, rfl⟩
  | cons r rs ih =>
    intro m i
    simp only [loopCur, loopFix]
    cases routeOf o t r with
    | none => exact ih m (i + 1)
    | some h =>
      by_cases hd : o.discardUnknown = true
      · by_cases hm : (m - 1 == 0) = true
        · simp only [hd, hm, if_true]
          exact ⟨loopFix o t (i + 1) rs, rfl⟩
        · obtain ⟨rest, hr⟩ := ih (m - 1) (i + 1)
          simp only [hd, hm, if_true, Bool.false_eq_true, if_false]
          exact ⟨rest, by rw [hr]; simp [Pass.append, List.append_assoc]⟩
      · obtain ⟨rest, hr⟩ := ih m (i + 1)
        simp only [hd, Bool.false_eq_true, if_false]
        exact ⟨rest, by rw [hr]; simp [Pass.append, List.append_assoc]⟩

/-! ### defect witnesses on the faithful model, non-vacuity -/


/-- F7a: FASTQ `a,a,b,c`, list `a→H1, b→H2`, `--discard-unknown-reads`: HEAD writes `a,a` to H1 and never writes `b` -/
example : (written (loopCur (o2 false true) (tab true) 2 0 [⟨"a", 4⟩, ⟨"a", 3⟩, ⟨"b", 4⟩, ⟨"c", 5⟩]) 1,
           written (loopCur (o2 false true) (tab true) 2 0 [⟨"a", 4⟩, ⟨"a", 3⟩, ⟨"b", 4⟩, ⟨"c", 5⟩]) 2) = ([0, 1], []) := by
  simp [loopCur, routeOf, Table.hapOf, processHap, emit, sinks, written, Pass.append, o2, tab]
/-- … the repaired pass writes `b` to H2 -/
example : (written (loopFix (o2 false true) (tab true) 0 [⟨"a", 4⟩, ⟨"a", 3⟩, ⟨"b", 4⟩, ⟨"c", 5⟩]) 1,
           written (loopFix (o2 false true) (tab true) 0 [⟨"a", 4⟩, ⟨"a", 3⟩, ⟨"b", 4⟩, ⟨"c", 5⟩]) 2) = ([0, 1], [2]) := by
  simp [loopFix, routeOf, Table.hapOf, processHap, emit, sinks, written, Pass.append, Pass.empty, o2, tab]
/-- F7b: with `--add-untagged` the H1 output holds 2 reads of length 4, the H1 column counts 1
(so `histogram_eq_written` needs its hypothesis `addUntagged = false ∨ k = 0`) -/
example : (written (loopFix (o2 true false) (tab false) 0 [⟨"a", 4⟩, ⟨"u", 4⟩]) 1,
           histCount (loopFix (o2 true false) (tab false) 0 [⟨"a", 4⟩, ⟨"u", 4⟩]) 1 4) = ([0, 1], 1) := by
  simp [loopFix, routeOf, Table.hapOf, processHap, emit, sinks, written, histCount, Pass.append, Pass.empty, o2, tab,
    List.range']
/-- F7c: HEAD's histogram writer lists length 4 twice when two columns count it -/
example : histRowsCur (o2 false false) ⟨[], [(1, 4), (2, 4)]⟩ = [[4, 0, 1, 1], [4, 0, 1, 1]] := by
  have hk0 : histKeys ⟨[], [(1, 4), (2, 4)]⟩ 0 = [] := by simp [histKeys, dedupNat]
  have hk1 : histKeys ⟨[], [(1, 4), (2, 4)]⟩ 1 = [4] := by simp [histKeys, dedupNat]
  have hk2 : histKeys ⟨[], [(1, 4), (2, 4)]⟩ 2 = [4] := by simp [histKeys, dedupNat]
  have hs : sortNat [4, 4] = [4, 4] := List.mergeSort_of_pairwise (by simp)
  simp [histRowsCur, o2, List.range, List.range.loop, hk0, hk1, hk2, hs, histRow, histCount]
example : histRowsFix (o2 false false) ⟨[], [(1, 4), (2, 4)]⟩ = [[4, 0, 1, 1]] := by
  have hk0 : histKeys ⟨[], [(1, 4), (2, 4)]⟩ 0 = [] := by simp [histKeys, dedupNat]
  have hk1 : histKeys ⟨[], [(1, 4), (2, 4)]⟩ 1 = [4] := by simp [histKeys, dedupNat]
  have hk2 : histKeys ⟨[], [(1, 4), (2, 4)]⟩ 2 = [4] := by simp [histKeys, dedupNat]
  have hs : sortNat [4] = [4] := List.mergeSort_of_pairwise (by simp)
  simp [histRowsFix, o2, List.range, List.range.loop, hk0, hk1, hk2, dedupNat, hs, histRow, histCount]
/-- hypotheses are satisfiable: all outputs requested, well-formed table -/
example : allRequested (o2 false false) := by
  intro k hk
  have : k = 0 ∨ k = 1 ∨ k = 2 := by simp [o2] at hk; omega
  rcases this with rfl | rfl | rfl <;> rfl
example : (⟨[("a", 1), ("b", 2)], []⟩ : Table).WF (o2 false false) := by
  intro p hp
  simp at hp
  rcases hp with rfl | rfl <;> simp [o2]

/-! ## text level: list file → table → outputs, command line, histogram file -/

/-- **list_text_roundtrip** (file → rows seam): a list file written one row per line, tab-separated, with fields free
of tabs / newlines and no white space at the ends of a line, is read by `line.strip().split("\t")`, the header test on
the raw first line and the column-count test of `check_haplotag_list_information` exactly as the rows: the result is
`parseLine` applied to every row after the optional header, with the parser chosen by the first row's width. -/
theorem list_text_roundtrip (o : Opts) (first : List (List Char)) (rest : List (List (List Char)))
    (h : ∀ r ∈ first :: rest, RowOK r) :
    parseText o (renderText (first :: rest)) =
      if first.length < 2 then .error .valueError
      else if o.onlyLargest && !fourColOf (strRow first) then .error .valueError
      else (if rawHeader (renderLine first) then rest else first :: rest).mapM
        (fun r => parseLine (fourColOf (strRow first)) o.ploidy (strRow r)) :=
  parseText_render o first rest h

/-- **later_line_is_data** (round 8): only the FIRST line of the list can be the header.  Every later line `r` of an
accepted list — whatever its first character, in particular a read name starting with `#` (legal in FASTQ and as BAM
QNAME) — is parsed as a data line and contributes its entry to the parsed lines (hence, by `table_realises_list` /
`split_text_end_to_end`, to the option table and the outputs). -/
theorem later_line_is_data (o : Opts) (first r : List (List Char)) (pre post : List (List (List Char)))
    (h : ∀ x ∈ first :: (pre ++ r :: post), RowOK x) (lines : List Line)
    (hp : parseText o (renderText (first :: (pre ++ r :: post))) = .ok lines) :
    ∃ ln ∈ lines, parseLine (fourColOf (strRow first)) o.ploidy (strRow r) = .ok ln := by
  rw [list_text_roundtrip o first _ h] at hp
  split at hp
  · cases hp
  · split at hp
    · cases hp
    · have hr : r ∈ pre ++ r :: post := by simp
      by_cases hh : rawHeader (renderLine first) = true
      · simp only [hh, if_true] at hp
        exact WhVerif.Lemmas.C14.mapM_ok_mem _ _ _ hp r hr
      · simp only [hh, Bool.false_eq_true, if_false] at hp
        exact WhVerif.Lemmas.C14.mapM_ok_mem _ _ _ hp r (List.mem_cons_of_mem _ hr)

/-- the entry of a parsed data line is the line's first column, verbatim -/
theorem parseLine_name (four : Bool) (ploidy : Nat) (n : String) (cols : List String) (ln : Line)
    (h : parseLine four ploidy (n :: cols) = .ok ln) : ln.name = n := by
  unfold parseLine at h
  split at h
  · split at h
    · rename_i n' hh ps c _ heq
      cases heq
      split at h
      · cases h; rfl
      · cases h
    · cases h
  · split at h
    · rename_i n' hh _ heq
      cases heq
      split at h
      · cases h; rfl
      · cases h
    · cases h

example : RowOK ["#r2".toList, "H2".toList] :=
  ⟨by simp, by decide, by decide, by decide, by decide⟩

example : RowOK ["r1".toList, "H1".toList] :=
  ⟨by simp, by decide, by decide, by decide, by decide⟩

/-- **table_realises_list**: for a list that names no read twice, the option table computed from the table that
`process_haplotag_list_file` builds (dict with default 0, `known_reads`, largest-block restriction) equals the option
table read directly off the lines (`prescribedByList`: the line of that name, its haplotype, whether its
(chromosome, phase set) block is a selected one). -/
theorem table_realises_list (o : Opts) (lines : List Line) (t : Table) (h : buildTable o lines = .ok t)
    (hn : (lines.map (·.name)).Nodup) (r : Read) : prescribed o t r = prescribedByList o lines r :=
  prescribed_eq_byList o lines t h hn r

/-- the `assert total_reads == len(known_reads)` of `--discard-unknown-reads` is exactly the uniqueness hypothesis:
an accepted list names no read twice (and is not empty) -/
theorem discard_ok_names_unique (o : Opts) (lines : List Line) (t : Table) (h : buildTable o lines = .ok t)
    (hd : o.discardUnknown = true) : (lines.map (·.name)).Nodup ∧ lines ≠ [] :=
  (buildTable_ok o lines t h).2 hd

/-- **largest_block_selected**: `select_reads_in_largest_phased_blocks` selects, for every chromosome with a tagged
line, exactly one block keyed by (chromosome, phase set), and that block has the maximal number of tagged lines among
the phase sets of its chromosome (the same phase-set id on another chromosome is another block). -/
theorem largest_block_selected (tagged : List Line) :
    (∀ b ∈ selectedBlocks tagged, IsLargest tagged b) ∧
    (∀ b ∈ selectedBlocks tagged, ∀ b' ∈ selectedBlocks tagged, b.1 = b'.1 → b = b') ∧
    (∀ l ∈ tagged, ∃ b ∈ selectedBlocks tagged, b.1 = l.chrom) :=
  ⟨selected_isLargest tagged, fun b hb b' hb' => selected_unique tagged b b' hb hb', selected_exists tagged⟩

/-- **split_text_end_to_end**: from the command line, the text of the list file and the reads to the outputs. If
`run_split` accepts the input and the list names no read twice (which `--discard-unknown-reads` enforces), every
requested output receives — in input order, each once — exactly the reads the option table *on the list lines*
prescribes. -/
theorem split_text_end_to_end (a : OutArgs) (f : Flags) (text : List Char) (reads : List Read) (o : Opts) (p : Pass)
    (lines : List Line) (hrun : runSplit a f text reads = .ok (o, p)) (hl : parseText o text = .ok lines)
    (hn : (lines.map (·.name)).Nodup ∨ o.discardUnknown = true) (k : Nat) (hk : isRequested o k = true) :
    written p k = ((reads.zipIdx 0).filter (fun q => decide (k ∈ prescribedByList o lines q.1))).map (·.2) := by
  unfold runSplit at hrun
  cases ho : optsOf a f with
  | error e => rw [ho] at hrun; cases hrun
  | ok o' =>
    rw [ho] at hrun
    simp only at hrun
    cases hp : processListText o' text with
    | error e => rw [hp] at hrun; cases hrun
    | ok t =>
      rw [hp] at hrun
      simp only [Except.ok.injEq, Prod.mk.injEq] at hrun
      obtain ⟨rfl, rfl⟩ := hrun
      unfold processListText at hp
      rw [hl] at hp
      simp only at hp
      have hn' : (lines.map (·.name)).Nodup := by
        rcases hn with h | h
        · exact h
        · exact (discard_ok_names_unique o' lines t hp h).1
      rw [routed_exactly o' t k hk]
      congr 1
      apply List.filter_congr
      intro q _
      rw [table_realises_list o' lines t hp hn']

/-- **histogram_column_sum**: the sum of column `k` over all rows of the histogram file is the number of reads written
to output `k` — for a requested output, the untagged one or any one when `--add-untagged` is not used (F7b otherwise). -/
theorem histogram_column_sum (o : Opts) (t : Table) (k : Nat) (hk : isRequested o k = true) (hkp : k ≤ o.ploidy)
    (hc : o.addUntagged = false ∨ k = 0) (rs : List Read) (i : Nat) :
    colSum (histRowsFix o (loopFix o t i rs)) k = (written (loopFix o t i rs) k).length := by
  rw [colSum_histRowsFix o _ k hkp, routed_exactly o t k hk, List.length_map]
  -- both sides count the reads routed to `k`
  have h1 : ∀ (rs : List Read) (i : Nat), histTotal (loopFix o t i rs) k =
      ((rs.zipIdx i).filter (fun q => decide (routeOf o t q.1 = some k))).length := by
    intro rs
    induction rs with
    | nil => intro i; rfl
    | cons r rs ih =>
      intro i
      simp only [loopFix, List.zipIdx_cons, List.filter_cons]
      cases hro : routeOf o t r with
      | none => simp [ih (i + 1)]
      | some h =>
        have : histTotal ((emit o h i r).append (loopFix o t (i + 1) rs)) k =
            (if h == k then 1 else 0) + histTotal (loopFix o t (i + 1) rs) k := by
          simp only [histTotal, Pass.append, emit, List.filter_append, List.length_append, List.filter_cons,
            List.filter_nil]
          split <;> simp
        rw [this, ih (i + 1)]
        by_cases e : h = k
        · subst e; simp; omega
        · simp [e]
  rw [h1]
  congr 1
  apply List.filter_congr
  intro q _
  have : (routeOf o t q.1 = some k) ↔ k ∈ prescribed o t q.1 := by
    rw [prescribed_mem o t q.1 k hk]
    constructor
    · intro h; exact ⟨k, h, (mem_sinks_iff o k k hc).mpr rfl⟩
    · rintro ⟨h, h1, h2⟩; rw [h1, (mem_sinks_iff o h k hc).mp h2]
  simp only [this]

/-- **resolve_outputs_shape**: when `validate` and the head of `run_split` accept the output options, there is one
requested-flag per output `0..ploidy`; with `--output-h1` / `--output-h2` the ploidy is 2 and the flags are the given options; with
`-o` (n times) the ploidy is n and every haplotype output is requested; the untagged flag is `--output-untagged`. -/
theorem resolve_outputs_shape (a : OutArgs) (p : Nat) (req : List Bool) (h : resolveOutputs a = .ok (p, req)) :
    req.length = p + 1 ∧ req.getD 0 false = a.untagged ∧
    ((a.h1 = true ∨ a.h2 = true) → p = 2 ∧ req = [a.untagged, a.h1, a.h2]) ∧
    (∀ n, a.outs = some n → p = n ∧ ∀ k, 1 ≤ k → k ≤ n → req.getD k false = true) := by
  unfold resolveOutputs at h
  split at h
  · cases h
  · split at h
    · cases h
    · rename_i h1 h2
      split at h
      · rename_i h3
        cases h
        refine ⟨rfl, rfl, fun _ => ⟨rfl, rfl⟩, ?_⟩
        intro n hn
        rw [hn] at h2
        simp at h2 h3
        rcases h3 with h3 | h3 <;> simp [h3] at h2
      · rename_i h3
        cases ho : a.outs with
        | none => rw [ho] at h; cases h
        | some n =>
          rw [ho] at h
          cases h
          refine ⟨by simp, rfl, fun hh => ?_, ?_⟩
          · simp at h3; rcases hh with hh | hh <;> simp [hh] at h3
          · intro m hm
            cases hm
            refine ⟨rfl, fun k hk1 hk2 => ?_⟩
            obtain ⟨j, rfl⟩ : ∃ j, k = j + 1 := ⟨k - 1, by omega⟩
            have hj : j < p := by omega
            simp [List.getD_eq_getElem?_getD, hj]

/-- `_bam_iterator`: a stored sequence decides the length; without one the length is the CIGAR's query-consuming
length, which hard clips, deletions, skips and padding (`H`, `D`, `N`, `P`) do not change -/
theorem bamLen_spec (seqLen : Nat) (cigar : List (Nat × Nat)) :
    (0 < seqLen → bamLen seqLen cigar = seqLen) ∧
    (∀ op n, consumesQuery op = false → bamLen 0 ((op, n) :: cigar) = bamLen 0 cigar) ∧
    (∀ op n, consumesQuery op = true → bamLen 0 ((op, n) :: cigar) = n + bamLen 0 cigar) := by
  refine ⟨fun h => by simp [bamLen, h], fun op n h => by simp [bamLen, h], fun op n h => by simp [bamLen, h]⟩


/-! ### non-vacuity of the text-level theorems -/

/-- all three outputs requested, no flags; list `a→H1, b→none`; reads `a` (listed), `c` (not listed) -/
example : resolveOutputs ⟨true, true, none, true⟩ = .ok (2, [true, true, true]) := rfl
example : parseText (o2 false false) "a\tH1\nb\tnone\n".toList = .ok [⟨"a", 1, "", ""⟩, ⟨"b", 0, "", ""⟩] := rfl
example : buildTable (o2 false true) [⟨"a", 1, "", ""⟩, ⟨"b", 0, "", ""⟩] = .ok ⟨[("a", 1)], ["a", "b"]⟩ := rfl
example : ∃ o p, runSplit ⟨true, true, none, true⟩ ⟨false, true, false⟩ "a\tH1\nb\tnone\n".toList
    [⟨"a", 3⟩, ⟨"c", 4⟩, ⟨"b", 3⟩] = .ok (o, p) ∧ written p 1 = [0] ∧ written p 0 = [2] := ⟨_, _, rfl, rfl, rfl⟩
/-- a leading blank before `#` makes the first line data (`readline().startswith("#")` is not stripped): the 2-column
parser then meets the haplotype name `haplotype` → `KeyError` -/
example : parseText (o2 false false) " #name\thaplotype\na\tH1\n".toList = .error .keyError := rfl
/-- `strip()` eats a trailing empty column: a 4-column line with an empty chromosome has 3 columns → `ValueError` -/
example : parseText (o2 false false) "a\tH1\t7\tchr1\nb\tH2\t7\t\n".toList = .error .valueError := rfl
/-- a blank line has the single column `""`: `IndexError` in a 2-column list -/
example : parseText (o2 false false) "a\tH1\n\nb\tH2\n".toList = .error .indexError := rfl
/-- round 8: a read name starting with `#` on line 2 (no header) resp. right after the header is an ordinary entry, and the
read goes to the output it selects; on line 1 it is taken for the header (the documented rule) -/
example : parseText (o2 false false) "r1\tH1\n#r2\tH2\nr3\tnone\n".toList =
    .ok [⟨"r1", 1, "", ""⟩, ⟨"#r2", 2, "", ""⟩, ⟨"r3", 0, "", ""⟩] := rfl
example : parseText (o2 false false) "#readname\thaplotype\n#readname\tH2\n##\tH1\n".toList =
    .ok [⟨"#readname", 2, "", ""⟩, ⟨"##", 1, "", ""⟩] := rfl
example : parseText (o2 false false) "#r2\tH2\nr1\tH1\n".toList = .ok [⟨"r1", 1, "", ""⟩] := rfl
example : ∃ o p, runSplit ⟨true, true, none, true⟩ ⟨false, false, false⟩ "r1\tH1\n#r2\tH2\nr3\tnone\n".toList
    [⟨"r1", 8⟩, ⟨"#r2", 6⟩, ⟨"r3", 4⟩] = .ok (o, p) ∧ written p 1 = [0] ∧ written p 2 = [1] ∧ written p 0 = [2] :=
  ⟨_, _, rfl, rfl, rfl, rfl⟩
/-- `\r\n` and a missing final newline are fine -/
example : parseText (o2 false false) "a\tH1\r\nb\tH2".toList = .ok [⟨"a", 1, "", ""⟩, ⟨"b", 2, "", ""⟩] := rfl
/-- largest block keyed by (chromosome, phase set): phase set 7 has 2 lines on chr1 and 1 on chr2, phase set 9 has 2 on
chr2 — chr2 selects 9, not 7 -/
example : selectedBlocks [⟨"a", 1, "7", "chr1"⟩, ⟨"b", 1, "7", "chr1"⟩, ⟨"c", 2, "7", "chr2"⟩, ⟨"d", 1, "9", "chr2"⟩,
    ⟨"e", 2, "9", "chr2"⟩] = [("chr1", "7"), ("chr2", "9")] := rfl
/-- only `--output-untagged`: refused by `validate` (the condition reads "is not None"); no output option at all: `len(None)` -/
example : (resolveOutputs ⟨false, false, none, true⟩, resolveOutputs ⟨false, false, none, false⟩) =
    (.error .usage, .error .typeError) := rfl
example : bamLen 0 [(5, 2), (0, 3), (2, 4), (4, 2)] = 5 := rfl

/-! ## round 10: duplicate names, ties of largest blocks, the input iterators, format decision from bytes -/

/-- **table_last_entry_wins**: for EVERY accepted list (read names may be listed any number of times, in any phase sets
and chromosomes) the dict `readname_to_haplotype` answers, for a name, the haplotype of the LAST tagged line of that
name (`none` lines never reset it); with `--only-largest-block` only if SOME tagged line of the name lies in a selected
block — the answering line itself may lie in another block or chromosome — and 0 otherwise. -/
theorem table_last_entry_wins (o : Opts) (lines : List Line) (t : Table) (h : buildTable o lines = .ok t)
    (name : String) :
    t.hapOf name = match lastTagged lines name with
      | some l => if inSelected o lines name then l.hap else 0
      | none => 0 := by
  obtain ⟨rfl, _⟩ := buildTable_ok o lines t h
  exact hapOf_assignOf_gen o lines _ name

/-- **table_realises_list_general**: `table_realises_list` without the no-duplicates hypothesis — the option table
from the code's table is the option table read off the lines with the last-tagged-line rule (`prescribedByListGen`). -/
theorem table_realises_list_general (o : Opts) (lines : List Line) (t : Table) (h : buildTable o lines = .ok t)
    (r : Read) : prescribed o t r = prescribedByListGen o lines r :=
  prescribed_eq_byListGen o lines t h r

/-- on lists without duplicate names the general reading is the reading of `table_realises_list` -/
theorem general_agrees_without_duplicates (o : Opts) (lines : List Line) (t : Table) (h : buildTable o lines = .ok t)
    (hn : (lines.map (·.name)).Nodup) (r : Read) : prescribedByListGen o lines r = prescribedByList o lines r := by
  rw [← table_realises_list_general o lines t h r, table_realises_list o lines t h hn r]

/-- **discard_duplicate_rejected** (interaction with `--discard-unknown-reads`): a list naming a read twice — also once as
`none` and once tagged, or in two phase sets — is refused by the `assert total_reads == len(known_reads)`. -/
theorem discard_duplicate_rejected (o : Opts) (lines : List Line) (hd : o.discardUnknown = true)
    (hdup : ¬ (lines.map (·.name)).Nodup) : buildTable o lines = .error .assertDuplicate :=
  buildTable_dup_error o lines hd hdup

/-- **split_text_end_to_end_general**: `split_text_end_to_end` for every list, duplicate names included. -/
theorem split_text_end_to_end_general (a : OutArgs) (f : Flags) (text : List Char) (reads : List Read) (o : Opts)
    (p : Pass) (lines : List Line) (hrun : runSplit a f text reads = .ok (o, p)) (hl : parseText o text = .ok lines)
    (k : Nat) (hk : isRequested o k = true) :
    written p k = ((reads.zipIdx 0).filter (fun q => decide (k ∈ prescribedByListGen o lines q.1))).map (·.2) := by
  unfold runSplit at hrun
  cases ho : optsOf a f with
  | error e => rw [ho] at hrun; cases hrun
  | ok o' =>
    rw [ho] at hrun
    simp only at hrun
    cases hp : processListText o' text with
    | error e => rw [hp] at hrun; cases hrun
    | ok t =>
      rw [hp] at hrun
      simp only [Except.ok.injEq, Prod.mk.injEq] at hrun
      obtain ⟨rfl, rfl⟩ := hrun
      unfold processListText at hp
      rw [hl] at hp
      simp only at hp
      rw [routed_exactly o' t k hk]
      congr 1
      apply List.filter_congr
      intro q _
      rw [table_realises_list_general o' lines t hp]

/-- **largest_block_tie_first_in_list**: `Counter.most_common(1)` on a tie — among the phase sets of its chromosome
with as many tagged lines as the selected block, the selected block is the one whose first tagged line comes first in
the list file (insertion order of the `Counter` = first occurrence). -/
theorem largest_block_tie_first_in_list (tagged : List Line) (b : String × String) (h : b ∈ selectedBlocks tagged)
    (ps : String) (he : blockSize tagged (b.1, ps) = blockSize tagged b) :
    firstIdx tagged b ≤ firstIdx tagged (b.1, ps) :=
  selected_first_among_ties tagged b h ps he

/-- **largest_block_deterministic**: the selected blocks are exactly the blocks that are largest in their chromosome
and first in the list among the largest — a predicate on the tagged lines in list order only (no set or hash order
enters); in particular two runs on the same list text select the same blocks. -/
theorem largest_block_deterministic (tagged : List Line) (b : String × String) :
    b ∈ selectedBlocks tagged ↔ IsFirstLargest tagged b :=
  selected_iff_firstLargest tagged b

/-- **iterator_yields_every_record_once**: `_bam_iterator` and `_fastq_string_iterator` yield one item per input record,
in input order: the record indices of the items are `0, 1, …, n-1`, the names are the records' names (FASTQ: the title up
to the first white space), the lengths are `bamLen` resp. the total length of the sequence lines. -/
theorem iterator_yields_every_record_once (recs : List BamRec) (fq : List FqRec) :
    ((bamIter 0 recs).map (·.2.2) = List.range recs.length ∧
     (bamIter 0 recs).map (·.1) = recs.map (·.name) ∧
     (bamIter 0 recs).map (·.2.1) = recs.map (fun r => bamLen r.seqLen r.cigar)) ∧
    ((fastqIter 0 fq).map (·.2.2) = List.range fq.length ∧
     (fastqIter 0 fq).map (·.1) = fq.map (fun r => fastqName r.title) ∧
     (fastqIter 0 fq).map (·.2.1) = fq.map (fun r => (r.seqLines.map List.length).sum)) := by
  have hb := bamIter_eq recs 0
  have hf := fastqIter_eq fq 0
  refine ⟨⟨?_, ?_, ?_⟩, ?_, ?_, ?_⟩
  · rw [hb, List.map_map]
    have := zipIdx_map_snd recs 0
    rw [List.range_eq_range', ← this]; rfl
  · rw [hb, List.map_map]
    conv => rhs; rw [← zipIdx_map_fst recs 0]
    rw [List.map_map]; rfl
  · rw [hb, List.map_map]
    conv => rhs; rw [← zipIdx_map_fst recs 0]
    rw [List.map_map]; rfl
  · rw [hf, List.map_map]
    have := zipIdx_map_snd fq 0
    rw [List.range_eq_range', ← this]; rfl
  · rw [hf, List.map_map]
    conv => rhs; rw [← zipIdx_map_fst fq 0]
    rw [List.map_map]; rfl
  · rw [hf, List.map_map]
    conv => rhs; rw [← zipIdx_map_fst fq 0]
    rw [List.map_map]
    apply List.map_congr_left
    intro q _
    simp [fastqLen, List.length_flatten]

/-- **bamLen_cases**: the three branches of `_bam_iterator`, each yielding the record exactly once: a stored sequence;
no sequence but a CIGAR (length = its query-consuming operations, 0 for e.g. `5H`); neither (SEQ `*`, CIGAR `*`) →
length 0 — the record is still yielded (seed C14-h's shape). -/
theorem bamLen_cases (r : BamRec) (i : Nat) :
    (0 < r.seqLen → bamYield r i = [(r.name, r.seqLen, i)]) ∧
    (r.seqLen = 0 → r.cigar ≠ [] →
      bamYield r i = [(r.name, ((r.cigar.filter (fun e => consumesQuery e.1)).map (·.2)).sum, i)]) ∧
    (r.seqLen = 0 → r.cigar = [] → bamYield r i = [(r.name, 0, i)]) := by
  refine ⟨fun h => ?_, fun h hc => ?_, fun h hc => ?_⟩
  · simp [bamYield, h]
  · rw [bamYield_eq]; simp [bamLen, h]
  · rw [bamYield_eq]; simp [bamLen, h, hc]

/-- **detect_bam_from_bytes**: `detect_file_format` answers BAM exactly for a file with the gzip magic `1f 8b` whose
decompressed stream starts with `BAM\1` (a FASTQ, gzipped or not, never does: its first byte is `@`). -/
theorem detect_bam_from_bytes (head : List Nat) (inner : Option (List Nat)) :
    magicOfBytes head inner = some .bam ↔
      bGZ.isPrefixOf head = true ∧ ∃ b, inner = some b ∧ bBAM.isPrefixOf b = true := by
  unfold magicOfBytes
  constructor
  · intro h
    split at h
    · cases h
    · split at h
      · cases h
      · split at h
        · rename_i hgz
          cases inner with
          | none => cases h
          | some b =>
            simp only at h
            split at h
            · exact ⟨hgz, b, rfl, by assumption⟩
            · split at h <;> cases h
        · cases h
  · rintro ⟨hgz, b, rfl, hb⟩
    have h1 : bCRAM.isPrefixOf head = false := by
      cases head with
      | nil => simp [bGZ] at hgz
      | cons x t =>
        simp only [bGZ, List.isPrefixOf, Bool.and_eq_true, beq_iff_eq] at hgz
        have := hgz.1; subst this
        simp [bCRAM, List.isPrefixOf]
    have h2 : bVCF.isPrefixOf head = false := by
      cases head with
      | nil => simp [bGZ] at hgz
      | cons x t =>
        simp only [bGZ, List.isPrefixOf, Bool.and_eq_true, beq_iff_eq] at hgz
        have := hgz.1; subst this
        simp [bVCF, List.isPrefixOf]
    simp [h1, h2, hgz, hb]

/-! ### non-vacuity / witnesses of round 10 -/

/-- a name listed in two phase sets of one chromosome: `r` is tagged H1 in the largest block (100: two lines) and, later,
H2 in the smaller block 200. Its name is collected from block 100, the dict holds the LAST assignment: H2. -/
example : (buildTable ⟨2, [true, true, true], false, false, true⟩
    [⟨"r", 1, "100", "chr1"⟩, ⟨"s", 1, "100", "chr1"⟩, ⟨"r", 2, "200", "chr1"⟩]).toOption.map (fun t => (t.hapOf "r", t.hapOf "s")) =
    some (2, 1) := by rfl
/-- … the other way round (last line in the largest block, first in a smaller one) — and a name only in the smaller block is untagged -/
example : (buildTable ⟨2, [true, true, true], false, false, true⟩
    [⟨"r", 2, "200", "chr1"⟩, ⟨"q", 2, "300", "chr1"⟩, ⟨"r", 1, "100", "chr1"⟩, ⟨"s", 1, "100", "chr1"⟩]).toOption.map
      (fun t => (t.hapOf "r", t.hapOf "q")) = some (1, 0) := by rfl
/-- a name on two chromosomes: selected through chr2's only block, answered by its last line (on chr1, outside chr1's
largest block) -/
example : (buildTable ⟨2, [true, true, true], false, false, true⟩
    [⟨"a", 1, "1", "chr1"⟩, ⟨"b", 1, "1", "chr1"⟩, ⟨"r", 1, "9", "chr2"⟩, ⟨"r", 2, "5", "chr1"⟩]).toOption.map
      (fun t => t.hapOf "r") = some 2 := by rfl
/-- a `none` line after a tagged line does not reset the entry -/
example : (buildTable (o2 false false) [⟨"r", 1, "", ""⟩, ⟨"r", 0, "", ""⟩]).toOption.map (fun t => t.hapOf "r") = some 1 := by
  rfl
/-- with `--discard-unknown-reads` the same list is refused -/
example : buildTable (o2 false true) [⟨"r", 1, "", ""⟩, ⟨"r", 0, "", ""⟩] = .error .assertDuplicate := by rfl
example : ¬ (([⟨"r", 1, "", ""⟩, ⟨"r", 0, "", ""⟩] : List Line).map (·.name)).Nodup := by simp
/-- end to end with a duplicate name: `a` listed H1 then H2 → written to H2 -/
example : ∃ o p, runSplit ⟨true, true, none, true⟩ ⟨false, false, false⟩ "a\tH1\na\tH2\n".toList
    [⟨"a", 3⟩, ⟨"c", 4⟩] = .ok (o, p) ∧ written p 1 = [] ∧ written p 2 = [0] ∧ written p 0 = [1] :=
  ⟨_, _, rfl, rfl, rfl, rfl⟩
/-- a tie: phase sets 7 and 9 of chr1 have two lines each; 9's first line comes first → 9 is selected -/
example : selectedBlocks [⟨"a", 1, "9", "chr1"⟩, ⟨"b", 1, "7", "chr1"⟩, ⟨"c", 2, "7", "chr1"⟩, ⟨"d", 1, "9", "chr1"⟩] =
    [("chr1", "9")] := by rfl
example : blockSize [⟨"a", 1, "9", "chr1"⟩, ⟨"b", 1, "7", "chr1"⟩, ⟨"c", 2, "7", "chr1"⟩, ⟨"d", 1, "9", "chr1"⟩] ("chr1", "7") =
    blockSize [⟨"a", 1, "9", "chr1"⟩, ⟨"b", 1, "7", "chr1"⟩, ⟨"c", 2, "7", "chr1"⟩, ⟨"d", 1, "9", "chr1"⟩] ("chr1", "9") := by rfl
/-- the iterator on the three record shapes (SEQ, no SEQ + CIGAR `2H3M4D2S`, neither) and on a hard-clip-only CIGAR -/
example : bamIter 0 [⟨"a", 4, []⟩, ⟨"b", 0, [(5, 2), (0, 3), (2, 4), (4, 2)]⟩, ⟨"c", 0, []⟩, ⟨"d", 0, [(5, 4)]⟩] =
    [("a", 4, 0), ("b", 5, 1), ("c", 0, 2), ("d", 0, 3)] := by rfl
/-- FASTQ: name = title up to the first white space (tab too), multi-line sequence -/
example : fastqIter 0 [⟨"r1\tc1 x".toList, ["AC".toList, "GT".toList]⟩, ⟨"r2  two".toList, ["ACG".toList]⟩] =
    [("r1", 4, 0), ("r2", 3, 1)] := by rfl
/-- bytes: a BGZF/gzip file whose stream starts `BAM\1`; a gzipped FASTQ; a plain FASTQ; a broken gzip stream -/
example : (magicOfBytes [31, 139, 8, 4] (some [66, 65, 77, 1, 0]), magicOfBytes [31, 139, 8, 0] (some [64, 114]),
    magicOfBytes [64, 114, 10] none, magicOfBytes [31, 139, 0] none) = (some .bam, some .other, some .other, none) := by rfl

end WhVerif.Props.C14

import WhVerif.Lemmas.C10Swap
import WhVerif.Lemmas.C10Regions
/-!
# C10 — haplotag conserves every alignment and tags it with the best-agreeing haplotype

Theorems about `WhVerif.C10` (Model/C10.lean).  `agreeScore info rvs P j` (Spec/C10.lean) is the yard-stick:
the summed quality of the alleles observed on the read that equal the allele of haplotype `j` of phase
set `P` in the VCF.
-/
namespace WhVerif.Props.C10
open WhVerif.C10

/-- **best_agreeing.** A tagged read carries the haplotype `h` whose agreement score is strictly maximal
within the reported phase set `P`; PC is the margin over the second best haplotype; the read touches `P`
and no other phase set the read touches has a larger best score. -/
theorem best_agreeing {ploidy : Nat} {info : PhaseInfo} {rvs : List RV} {h q : Nat} {P : Int}
    (hd : tagDecision ploidy info rvs = .tagged h q P) :
    h < ploidy ∧ 0 < q ∧
    (∀ j, j < ploidy → j ≠ h → agreeScore info rvs P j + q ≤ agreeScore info rvs P h) ∧
    (∃ j, j < ploidy ∧ j ≠ h ∧ agreeScore info rvs P j + q = agreeScore info rvs P h) ∧
    rvs.any (touches info P) = true ∧
    (∀ P', rvs.any (touches info P') = true →
      listMax (agreeScores ploidy info rvs P') ≤ agreeScore info rvs P h) := by
  unfold tagDecision at hd
  cases ha : accumulate ploidy info [] rvs with
  | error e => simp [ha] at hd
  | ok sc =>
    simp only [ha] at hd
    have inv : Inv ploidy info rvs sc := by simpa using inv_accumulate (inv_nil ploidy info) ha
    cases hp : pickSet sc with
    | none => simp [hp] at hd
    | some e =>
      obtain ⟨ps, s⟩ := e
      simp only [hp] at hd
      obtain ⟨hP, hq, hh, hall, j, hj, hjne, hje⟩ := decideScores_tagged hd
      subst hP
      obtain ⟨hmem, hbest⟩ := pickSet_spec hp
      obtain ⟨hs, htouch⟩ := inv.some_ P s (lookup_of_mem inv.nodup hmem)
      subst hs
      have hlen := length_agreeScores ploidy info rvs P
      refine ⟨by omega, hq, ?_, ⟨j, by omega, hjne, ?_⟩, htouch, ?_⟩
      · intro k hk hkne
        have := hall k (by omega) hkne
        simpa [getElem_agreeScores] using this
      · simpa [getElem_agreeScores] using hje
      · intro P' hP'
        cases hl : sc.lookup P' with
        | none => rw [inv.none_ P' hl] at hP'; cases hP'
        | some s' =>
          obtain ⟨hs', _⟩ := inv.some_ P' s' hl
          subst hs'
          have h1 := hbest _ (mem_of_lookup hl)
          have h2 : listMax (agreeScores ploidy info rvs P) ≤ agreeScore info rvs P h := by
            apply listMax_le
            intro x hx
            obtain ⟨k, hk, hke⟩ := List.mem_iff_getElem.1 hx
            by_cases e : k = h
            · subst e; rw [getElem_agreeScores] at hke; omega
            · have := hall k hk e
              rw [getElem_agreeScores] at hke
              simp only [getElem_agreeScores] at this
              omega
          exact Nat.le_trans h1 h2

example : tagDecision 2 [(10, (7, [0, 1])), (20, (7, [1, 0]))] [⟨10, 0, 30⟩, ⟨20, 1, 30⟩] = .tagged 0 60 7 := by decide

/-- **ties stay untagged**: if the two best scores of the reported phase set are equal, the read is not
tagged (stated for every phase set that could be reported: if *all* touched sets are tied, no tag). -/
theorem tie_untagged {ploidy : Nat} {info : PhaseInfo} {rvs : List RV}
    (ht : ∀ P, rvs.any (touches info P) = true → Tie (agreeScores ploidy info rvs P)) :
    tagDecision ploidy info rvs = .untagged ∨ ∃ e, tagDecision ploidy info rvs = .error e := by
  unfold tagDecision
  cases ha : accumulate ploidy info [] rvs with
  | error e => exact Or.inr ⟨e, rfl⟩
  | ok sc =>
    have inv : Inv ploidy info rvs sc := by simpa using inv_accumulate (inv_nil ploidy info) ha
    left
    simp only []
    cases hp : pickSet sc with
    | none => rfl
    | some e =>
      obtain ⟨P, s⟩ := e
      obtain ⟨hmem, _⟩ := pickSet_spec hp
      obtain ⟨hs, htouch⟩ := inv.some_ P s (lookup_of_mem inv.nodup hmem)
      subst hs
      exact decideScores_untagged_iff.2 (ht P htouch)

example : tagDecision 2 [(10, (7, [0, 1])), (20, (7, [1, 0]))] [⟨10, 0, 30⟩, ⟨20, 0, 30⟩] = .untagged := by decide

/-- **reads without phased heterozygous variants stay untagged** -/
theorem no_variants_untagged (ploidy : Nat) (info : PhaseInfo) : tagDecision ploidy info [] = .untagged := rfl

/-- conversely (completeness of the rule): a unique best haplotype in the reported set is tagged.
`P` is reported when it is the only phase set the read touches. -/
theorem unique_best_tagged {ploidy : Nat} {info : PhaseInfo} {rvs : List RV} {P : Int} {h q : Nat}
    (hok : ∀ v ∈ rvs, v.allele < 2 ∧ (info.lookup v.pos).isSome)
    (honly : ∀ P', rvs.any (touches info P') = true ↔ P' = P)
    (hb : StrictBest (agreeScores ploidy info rvs P) h q) :
    tagDecision ploidy info rvs = .tagged h q P := by
  have hacc : ∀ (sc : Scores) (l : List RV), (∀ v ∈ l, v.allele < 2 ∧ (info.lookup v.pos).isSome) →
      ∃ sc', accumulate ploidy info sc l = .ok sc' := by
    intro sc l
    induction l generalizing sc with
    | nil => intro _; exact ⟨sc, rfl⟩
    | cons v vs ih =>
      intro hv
      obtain ⟨h1, h2⟩ := hv v List.mem_cons_self
      obtain ⟨e, he⟩ := Option.isSome_iff_exists.1 h2
      have : ¬ 2 ≤ v.allele := by omega
      simp only [accumulate, step, this, if_false, he]
      exact ih _ (fun w hw => hv w (List.mem_cons_of_mem _ hw))
  obtain ⟨sc, ha⟩ := hacc [] rvs hok
  have inv : Inv ploidy info rvs sc := by simpa using inv_accumulate (inv_nil ploidy info) ha
  unfold tagDecision
  simp only [ha]
  cases hp : pickSet sc with
  | none =>
    have hnil := pickSet_none.1 hp
    subst hnil
    have := inv.none_ P (by simp [List.lookup])
    rw [(honly P).2 rfl] at this
    cases this
  | some e =>
    obtain ⟨P', s⟩ := e
    obtain ⟨hmem, _⟩ := pickSet_spec hp
    obtain ⟨hs, htouch⟩ := inv.some_ P' s (lookup_of_mem inv.nodup hmem)
    have := (honly P').1 htouch
    subst this hs
    exact decideScores_of_strictBest hb

/-- **swap_symmetry** (any ploidy): exchanging haplotypes `i` and `j` of phase set `P` in the VCF maps the
decision of every read whose reported set is `P` from haplotype `h` to the exchanged index with the same
PC and PS, and leaves every other decision (other reported set, untagged, error) unchanged. -/
theorem swap_symmetry {ploidy : Nat} (P : Int) {i j : Nat} (info : PhaseInfo) (rvs : List RV)
    (hi : i < ploidy) (hj : j < ploidy) (hinfo : ∀ e ∈ info, e.2.2.length = ploidy) :
    tagDecision ploidy (swapPhase P i j info) rvs =
      match tagDecision ploidy info rvs with
      | .tagged h q ps => if ps = P then .tagged (swapIdx i j h) q ps else .tagged h q ps
      | d => d := by
  have hacc := accumulate_swap ploidy P info [] rvs hi hj hinfo (by simp)
  simp only [swapScores, List.map_nil] at hacc
  unfold tagDecision
  rw [hacc]
  cases ha : accumulate ploidy info [] rvs with
  | error e => simp [Except.map]
  | ok sc =>
    have inv : Inv ploidy info rvs sc := by simpa using inv_accumulate (inv_nil ploidy info) ha
    simp only [Except.map]
    rw [pickSet_swap P sc hi hj inv.len]
    cases hp : pickSet sc with
    | none => simp
    | some e =>
      obtain ⟨ps, s⟩ := e
      have hs : s.length = ploidy := inv.len _ (pickSet_spec hp).1
      simp only [Option.map_some, swapEntry]
      by_cases hps : ps = P
      · subst hps
        simp only [if_true]
        rw [decideScores_swap ps (by omega) (by omega)]
        cases hd : decideScores ps s with
        | tagged h q p => obtain ⟨e, _⟩ := decideScores_tagged hd; subst e; simp
        | untagged => rfl
        | error e => rfl
      · simp only [hps, if_false]
        cases hd : decideScores ps s with
        | tagged h q p => obtain ⟨e, _⟩ := decideScores_tagged hd; subst e; simp [hps]
        | untagged => rfl
        | error e => rfl

/-- diploid case in terms of the HP tag (`HP = h + 1`): HP `x` becomes `3 − x` for reads reported in `P` -/
theorem swap_symmetry_diploid (P : Int) (info : PhaseInfo) (rvs : List RV)
    (hinfo : ∀ e ∈ info, e.2.2.length = 2) {h q : Nat} {ps : Int}
    (hd : tagDecision 2 info rvs = .tagged h q ps) :
    tagDecision 2 (swapPhase P 0 1 info) rvs =
      if ps = P then .tagged (3 - (h + 1) - 1) q ps else .tagged h q ps := by
  have hlt : h < 2 := (best_agreeing hd).1
  rw [swap_symmetry P info rvs (by omega) (by omega) hinfo, hd]
  have : swapIdx 0 1 h = 3 - (h + 1) - 1 := by unfold swapIdx; split <;> (try split) <;> omega
  simp [this]

example : tagDecision 2 (swapPhase 7 0 1 [(10, (7, [0, 1])), (20, (7, [1, 0]))]) [⟨10, 0, 30⟩, ⟨20, 1, 30⟩]
    = .tagged 1 60 7 := by decide

/-- the entries `prepare` puts into `read_to_haplotype` are decisions of the rule above: one step of the
read loop either leaves the dictionary alone or appends, for every read of the cloud, the decision
`tagDecision` takes on the cloud's variants -/
theorem prepareStep_sound (ploidy : Nat) (info : PhaseInfo) (cutoff : Int) (il : Bool) (st : Prepared)
    (read : SetRead) (all : List SetRead) :
    (prepareStep ploidy info cutoff il st read all).readToHap = st.readToHap ∨
    ∃ group : List SetRead, ∃ h q ps, read ∈ group ∧
      tagDecision ploidy info (group.flatMap (·.variants)) = .tagged h q ps ∧
      (prepareStep ploidy info cutoff il st read all).readToHap =
        st.readToHap ++ group.map (fun r => (r.name, (h, q, ps))) := by
  unfold prepareStep
  split
  · exact Or.inl rfl
  · simp only
    generalize hg : (read :: if (!il && read.bx.isSome) = true then
        List.filter (fun r => r.bx == read.bx && r.name != read.name && !st.processed.contains r.name
          && decide (absDiff read.refStart r.refStart ≤ cutoff)) all else []) = group
    have hmem : read ∈ group := by rw [← hg]; exact List.mem_cons_self
    cases ha : accumulate ploidy info [] (group.flatMap (·.variants)) with
    | error e => exact Or.inl rfl
    | ok sc =>
      simp only
      cases hp : pickSet sc with
      | none => exact Or.inl rfl
      | some e =>
        obtain ⟨ps, s⟩ := e
        simp only
        cases hd : decideScores ps s with
        | error e => exact Or.inl rfl
        | untagged => exact Or.inl rfl
        | tagged h q p =>
          right
          have hps : p = ps := (decideScores_tagged hd).1
          exact ⟨group, h, q, ps, hmem, by simp [tagDecision, ha, hp, hd, hps], rfl⟩

/-! ## conservation on the stream model -/

theorem erase_tagAln {α} (c : ChromCtx) (a : Aln α) : (tagAln c a).erase = a.erase := by
  unfold tagAln Aln.erase; split <;> rfl

/-- **conservation** (no `--regions`): the output has the same length and the same order as the input
(contigs in header order followed by the unplaced reads) and every record equals its input record in every
field and tag other than HP, PC, PS. -/
theorem conservation {α} (chroms : List (Chrom α)) (unplaced : List (Aln α)) :
    (run chroms unplaced).map Aln.erase = (chroms.flatMap (·.alns) ++ unplaced).map Aln.erase ∧
    (run chroms unplaced).length = (chroms.flatMap (·.alns) ++ unplaced).length := by
  have h : (run chroms unplaced).map Aln.erase = (chroms.flatMap (·.alns) ++ unplaced).map Aln.erase := by
    simp only [run, List.map_append, List.map_flatMap, List.map_map]
    congr 1
    congr 1
    funext c
    apply List.map_congr_left
    intro a _
    exact erase_tagAln c.ctx a
  exact ⟨h, by simpa using congrArg List.length h⟩

/-- the unplaced unmapped reads are copied verbatim (stale HP/PC/PS included) -/
theorem unplaced_verbatim {α} (chroms : List (Chrom α)) (unplaced : List (Aln α)) :
    (run chroms unplaced).drop (chroms.flatMap (·.alns)).length = unplaced := by
  have : (chroms.flatMap (fun c => c.alns.map (tagAln c.ctx))).length = (chroms.flatMap (·.alns)).length := by
    simp [List.length_flatMap]
  simp [run, ← this]

/-- only the tags of taggable alignments are set: unmapped and secondary alignments, and supplementary ones
unless `--tag-supplementary`, leave without HP/PC/PS -/
theorem ignored_untagged {α} (c : ChromCtx) (a : Aln α)
    (h : a.unmapped = true ∨ a.secondary = true ∨ (a.supplementary = true ∧ c.tagSupplementary = false)) :
    (tagAln c a).tags = {} := by
  unfold tagAln ignoreRead
  rcases h with h | h | ⟨h1, h2⟩ <;> simp_all

/-- a single region (or several regions of which no alignment overlaps two): after the repair F17 the
alignments written for a contig are exactly the input alignments that overlap a requested region, each
once — as a multiset for any list of regions … -/
theorem conservation_regions_perm {α} (alns : List (Aln α)) (earlier regions : List (Int × Option Int)) :
    (fetchOnce alns earlier regions).Perm
      (alns.filter fun a => regions.any (overlaps · a) && !earlier.any (overlaps · a)) := by
  induction regions generalizing earlier with
  | nil => simp [fetchOnce]
  | cons r rest ih =>
    simp only [fetchOnce]
    have h1 := ih (earlier ++ [r])
    have h2 := List.filter_append_perm (fun a : Aln α => overlaps r a)
      (alns.filter fun a => (r :: rest).any (overlaps · a) && !earlier.any (overlaps · a))
    refine List.Perm.trans ?_ h2
    apply List.Perm.append
    · rw [List.filter_filter]
      apply List.Perm.of_eq
      apply List.filter_congr
      intro a _
      cases h : overlaps r a <;> simp [h]
    · rw [List.filter_filter]
      refine List.Perm.trans h1 (List.Perm.of_eq ?_)
      apply List.filter_congr
      intro a _
      cases h : overlaps r a <;> simp [h]

/-- … and, with the original order, for one region per contig. -/
theorem conservation_single_region {α} (c : Chrom α) (r : Int × Option Int) :
    (runRegions [(c, [r])]).map Aln.erase = ((c.alns.filter (overlaps r)).map Aln.erase) := by
  simp only [runRegions, fetchOnce, List.flatMap_cons, List.flatMap_nil, List.append_nil, List.any_nil,
    Bool.not_false, Bool.and_true, List.map_map]
  apply List.map_congr_left
  intro a _
  exact erase_tagAln c.ctx a

/-- defect F17 on the faithful model: with the code as it is, an alignment that overlaps two requested
regions is written twice -/
example :
    let a : Aln Nat := ⟨0, "r", false, false, false, 10, 200, none, {}⟩
    let c : Chrom Nat := ⟨⟨[], [], 0, false, false⟩, [a]⟩
    (runRegionsOrig [(c, [(0, some 50), (100, some 150)])]).length = 2 ∧
    (runRegions [(c, [(0, some 50), (100, some 150)])]).length = 1 := by decide

/-- **conservation_regions_order.**  `--regions` after the repair F17 (`Model/C10Regions.lean`:
`normalizeSel` = `normalize_user_regions`, `runRegionsSkip` = the write loop with `previous_end`), for ANY
list of requested regions — unsorted, overlapping, duplicated, open-ended, several per contig, contigs in any
order: the written alignments are exactly the sub-list of the input stream (`stream chroms`: the placed
alignments, contig after contig in header order) of those alignments whose reference span meets at least one
requested region of their contig — same order, each exactly once, every field but HP/PC/PS unchanged.
The abstract loop `runRegions` of `Model/C10.lean` (written with the first region overlapped) gives the same list.

Assumptions on the input: the BAM is coordinate-sorted (`CoordinateSorted`: within a contig `reference_start`
never decreases; contigs in header order is how `Chrom` lists are read) and no region is inverted
(`ValidRegions`: `start ≤ end`; `Region.parse` rejects `end <= start`). -/
theorem conservation_regions_order {α} (chroms : List (Chrom α)) (user : List (Nat × Region))
    (hsorted : CoordinateSorted chroms) (hvalid : ValidRegions user) :
    (runRegionsSkip (normalizeSel chroms user)).map Aln.erase
      = ((stream chroms).filter (requestedAln user)).map (fun ia => ia.2.erase)
    ∧ runRegions (normalizeSel chroms user) = runRegionsSkip (normalizeSel chroms user) := by
  have hl : ∀ ci ∈ chroms.zipIdx, ci.1.alns.Pairwise fun a b => a.refStart ≤ b.refStart :=
    fun ci hci => hsorted ci.1 (fst_mem_of_mem_zipIdx hci)
  have hskip : runRegionsSkip (normalizeSel chroms user) = _ :=
    (flatMap_normalizeSel (fun alns rs => fetchSkip alns none rs) (fun _ => rfl) user chroms.zipIdx).trans
      (flatMap_contigs_eq _ user hvalid (fun _ hs rq hv => fetchSkip_normalizeRegions hs rq hv) _ hl)
  have honce : runRegions (normalizeSel chroms user) = _ :=
    (flatMap_normalizeSel (fun alns rs => fetchOnce alns [] rs) (fun _ => rfl) user chroms.zipIdx).trans
      (flatMap_contigs_eq _ user hvalid (fun _ hs rq hv => fetchOnce_normalizeRegions hs rq hv) _ hl)
  refine ⟨?_, honce.trans hskip.symm⟩
  rw [hskip]
  exact erase_flatMap_eq_stream user chroms.zipIdx

/-- the written list is a sub-list of the whole input (what `run` reads), tags erased -/
theorem conservation_regions_sublist {α} (chroms : List (Chrom α)) (user : List (Nat × Region))
    (hsorted : CoordinateSorted chroms) (hvalid : ValidRegions user) :
    ((runRegionsSkip (normalizeSel chroms user)).map Aln.erase).Sublist ((run chroms []).map Aln.erase) := by
  rw [(conservation_regions_order chroms user hsorted hvalid).1]
  rw [erase_run_eq_stream]
  exact (List.filter_sublist).map _

/-- non-vacuity: two overlapping regions given in the wrong order (`chr1:151-320`, `chr1:1-220`), a duplicate
of the first, and an open-ended region on the first contig although it is named last; `b` spans both regions
of contig 1 and is written once, in input order; `c` lies outside -/
example :
    let mk (n : String) (s e : Int) : Aln Nat := ⟨0, n, false, false, false, s, e, none, {}⟩
    let c0 : Chrom Nat := ⟨⟨[], [], 0, false, false⟩, [mk "x" 5 40, mk "y" 500 600]⟩
    let c1 : Chrom Nat := ⟨⟨[], [], 0, false, false⟩, [mk "a" 10 100, mk "b" 100 250, mk "d" 300 310, mk "c" 330 400]⟩
    let user : List (Nat × Region) := [(1, (150, some 320)), (1, (0, some 220)), (1, (150, some 320)), (0, (450, none))]
    CoordinateSorted [c0, c1] ∧ ValidRegions user ∧
    (normalizeSel [c0, c1] user).map (·.2) = [[(450, none)], [(0, some 320)]] ∧
    (runRegionsSkip (normalizeSel [c0, c1] user)).map (·.name) = ["y", "a", "b", "d"] ∧
    (runRegionsOrig [(c1, [(150, some 320), (0, some 220)])]).map (·.name) = ["b", "d", "a", "b"] := by
  refine ⟨?_, ?_, by decide, by decide, by decide⟩
  · intro c hc
    simp only [List.mem_cons, List.mem_nil_iff, or_false] at hc
    rcases hc with rfl | rfl <;> decide
  · intro u hu
    simp only [List.mem_cons, List.mem_nil_iff, or_false] at hu
    rcases hu with rfl | rfl | rfl | rfl <;> intro e he <;> cases he <;> decide

end WhVerif.Props.C10

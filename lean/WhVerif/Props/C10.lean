import WhVerif.Lemmas.C10Swap
import WhVerif.Lemmas.C10Regions
import WhVerif.Lemmas.C10RunLoop
import WhVerif.Lemmas.C10Detect
import WhVerif.Props.C06
/-!
# C10 — haplotag conserves every alignment and tags it with the best-agreeing haplotype

Theorems about `WhVerif.C10` (Model/C10.lean).  `agreeScore info rvs P j` (Spec/C10.lean) is the yard-stick:
the summed quality of the alleles observed on the read that equal the allele of haplotype `j` of phase
set `P` in the VCF.
-/
namespace WhVerif.Props.C10
open WhVerif.C10

/-- **best_agreeing.** A tagged read carries the haplotype `h` whose agreement score is strictly maximal
within the reported phase set `P`; PC is the margin over the second best haplotype; the read touches `P`
and no other phase set the read touches has a larger best score. -/
theorem best_agreeing {ploidy : Nat} {info : PhaseInfo} {rvs : List RV} {h q : Nat} {P : Int}
    (hd : tagDecision ploidy info rvs = .tagged h q P) :
    h < ploidy ∧ 0 < q ∧
    (∀ j, j < ploidy → j ≠ h → agreeScore info rvs P j + q ≤ agreeScore info rvs P h) ∧
    (∃ j, j < ploidy ∧ j ≠ h ∧ agreeScore info rvs P j + q = agreeScore info rvs P h) ∧
    rvs.any (touches info P) = true ∧
    (∀ P', rvs.any (touches info P') = true →
      listMax (agreeScores ploidy info rvs P') ≤ agreeScore info rvs P h) := by
  unfold tagDecision at hd
  cases ha : accumulate ploidy info [] rvs with
  | error e => simp [ha] at hd
  | ok sc =>
    simp only [ha] at hd
    have inv : Inv ploidy info rvs sc := by simpa using inv_accumulate (inv_nil ploidy info) ha
    cases hp : pickSet sc with
    | none => simp [hp] at hd
    | some e =>
      obtain ⟨ps, s⟩ := e
      simp only [hp] at hd
      obtain ⟨hP, hq, hh, hall, j, hj, hjne, hje⟩ := decideScores_tagged hd
      subst hP
      obtain ⟨hmem, hbest⟩ := pickSet_spec hp
      obtain ⟨hs, htouch⟩ := inv.some_ P s (lookup_of_mem inv.nodup hmem)
      subst hs
      have hlen := length_agreeScores ploidy info rvs P
      refine ⟨by omega, hq, ?_, ⟨j, by omega, hjne, ?_⟩, htouch, ?_⟩
      · intro k hk hkne
        have := hall k (by omega) hkne
        simpa [getElem_agreeScores] using this
      · simpa [getElem_agreeScores] using hje
      · intro P' hP'
        cases hl : sc.lookup P' with
        | none => rw [inv.none_ P' hl] at hP'; cases hP'
        | some s' =>
          obtain ⟨hs', _⟩ := inv.some_ P' s' hl
          subst hs'
          have h1 := hbest _ (mem_of_lookup hl)
          have h2 : listMax (agreeScores ploidy info rvs P) ≤ agreeScore info rvs P h := by
            apply listMax_le
            intro x hx
            obtain ⟨k, hk, hke⟩ := List.mem_iff_getElem.1 hx
            by_cases e : k = h
            · subst e; rw [getElem_agreeScores] at hke; omega
            · have := hall k hk e
              rw [getElem_agreeScores] at hke
              simp only [getElem_agreeScores] at this
              omega
          exact Nat.le_trans h1 h2

example : tagDecision 2 [(10, (7, [0, 1])), (20, (7, [1, 0]))] [⟨10, 0, 30⟩, ⟨20, 1, 30⟩] = .tagged 0 60 7 := by decide

/-- **ties stay untagged**: if the two best scores of the reported phase set are equal, the read is not
tagged (stated for every phase set that could be reported: if *all* touched sets are tied, no tag). -/
theorem tie_untagged {ploidy : Nat} {info : PhaseInfo} {rvs : List RV}
    (ht : ∀ P, rvs.any (touches info P) = true → Tie (agreeScores ploidy info rvs P)) :
    tagDecision ploidy info rvs = .untagged ∨ ∃ e, tagDecision ploidy info rvs = .error e := by
  unfold tagDecision
  cases ha : accumulate ploidy info [] rvs with
  | error e => exact Or.inr ⟨e, rfl⟩
  | ok sc =>
    have inv : Inv ploidy info rvs sc := by simpa using inv_accumulate (inv_nil ploidy info) ha
    left
    simp only []
    cases hp : pickSet sc with
    | none => rfl
    | some e =>
      obtain ⟨P, s⟩ := e
      obtain ⟨hmem, _⟩ := pickSet_spec hp
      obtain ⟨hs, htouch⟩ := inv.some_ P s (lookup_of_mem inv.nodup hmem)
      subst hs
      exact decideScores_untagged_iff.2 (ht P htouch)

example : tagDecision 2 [(10, (7, [0, 1])), (20, (7, [1, 0]))] [⟨10, 0, 30⟩, ⟨20, 0, 30⟩] = .untagged := by decide

/-- **reads without phased heterozygous variants stay untagged** -/
theorem no_variants_untagged (ploidy : Nat) (info : PhaseInfo) : tagDecision ploidy info [] = .untagged := rfl

/-- conversely (completeness of the rule): a unique best haplotype in the reported set is tagged.
`P` is reported when it is the only phase set the read touches. -/
theorem unique_best_tagged {ploidy : Nat} {info : PhaseInfo} {rvs : List RV} {P : Int} {h q : Nat}
    (hok : ∀ v ∈ rvs, v.allele < 2 ∧ (info.lookup v.pos).isSome)
    (honly : ∀ P', rvs.any (touches info P') = true ↔ P' = P)
    (hb : StrictBest (agreeScores ploidy info rvs P) h q) :
    tagDecision ploidy info rvs = .tagged h q P := by
  have hacc : ∀ (sc : Scores) (l : List RV), (∀ v ∈ l, v.allele < 2 ∧ (info.lookup v.pos).isSome) →
      ∃ sc', accumulate ploidy info sc l = .ok sc' := by
    intro sc l
    induction l generalizing sc with
    | nil => intro _; exact ⟨sc, rfl⟩
    | cons v vs ih =>
      intro hv
      obtain ⟨h1, h2⟩ := hv v List.mem_cons_self
      obtain ⟨e, he⟩ := Option.isSome_iff_exists.1 h2
      have : ¬ 2 ≤ v.allele := by omega
      simp only [accumulate, step, this, if_false, he]
      exact ih _ (fun w hw => hv w (List.mem_cons_of_mem _ hw))
  obtain ⟨sc, ha⟩ := hacc [] rvs hok
  have inv : Inv ploidy info rvs sc := by simpa using inv_accumulate (inv_nil ploidy info) ha
  unfold tagDecision
  simp only [ha]
  cases hp : pickSet sc with
  | none =>
    have hnil := pickSet_none.1 hp
    subst hnil
    have := inv.none_ P (by simp [List.lookup])
    rw [(honly P).2 rfl] at this
    cases this
  | some e =>
    obtain ⟨P', s⟩ := e
    obtain ⟨hmem, _⟩ := pickSet_spec hp
    obtain ⟨hs, htouch⟩ := inv.some_ P' s (lookup_of_mem inv.nodup hmem)
    have := (honly P').1 htouch
    subst this hs
    exact decideScores_of_strictBest hb

/-- **swap_symmetry** (any ploidy): exchanging haplotypes `i` and `j` of phase set `P` in the VCF maps the
decision of every read whose reported set is `P` from haplotype `h` to the exchanged index with the same
PC and PS, and leaves every other decision (other reported set, untagged, error) unchanged. -/
theorem swap_symmetry {ploidy : Nat} (P : Int) {i j : Nat} (info : PhaseInfo) (rvs : List RV)
    (hi : i < ploidy) (hj : j < ploidy) (hinfo : ∀ e ∈ info, e.2.2.length = ploidy) :
    tagDecision ploidy (swapPhase P i j info) rvs =
      match tagDecision ploidy info rvs with
      | .tagged h q ps => if ps = P then .tagged (swapIdx i j h) q ps else .tagged h q ps
      | d => d := by
  have hacc := accumulate_swap ploidy P info [] rvs hi hj hinfo (by simp)
  simp only [swapScores, List.map_nil] at hacc
  unfold tagDecision
  rw [hacc]
  cases ha : accumulate ploidy info [] rvs with
  | error e => simp [Except.map]
  | ok sc =>
    have inv : Inv ploidy info rvs sc := by simpa using inv_accumulate (inv_nil ploidy info) ha
    simp only [Except.map]
    rw [pickSet_swap P sc hi hj inv.len]
    cases hp : pickSet sc with
    | none => simp
    | some e =>
      obtain ⟨ps, s⟩ := e
      have hs : s.length = ploidy := inv.len _ (pickSet_spec hp).1
      simp only [Option.map_some, swapEntry]
      by_cases hps : ps = P
      · subst hps
        simp only [if_true]
        rw [decideScores_swap ps (by omega) (by omega)]
        cases hd : decideScores ps s with
        | tagged h q p => obtain ⟨e, _⟩ := decideScores_tagged hd; subst e; simp
        | untagged => rfl
        | error e => rfl
      · simp only [hps, if_false]
        cases hd : decideScores ps s with
        | tagged h q p => obtain ⟨e, _⟩ := decideScores_tagged hd; subst e; simp [hps]
        | untagged => rfl
        | error e => rfl

/-- diploid case in terms of the HP tag (`HP = h + 1`): HP `x` becomes `3 − x` for reads reported in `P` -/
theorem swap_symmetry_diploid (P : Int) (info : PhaseInfo) (rvs : List RV)
    (hinfo : ∀ e ∈ info, e.2.2.length = 2) {h q : Nat} {ps : Int}
    (hd : tagDecision 2 info rvs = .tagged h q ps) :
    tagDecision 2 (swapPhase P 0 1 info) rvs =
      if ps = P then .tagged (3 - (h + 1) - 1) q ps else .tagged h q ps := by
  have hlt : h < 2 := (best_agreeing hd).1
  rw [swap_symmetry P info rvs (by omega) (by omega) hinfo, hd]
  have : swapIdx 0 1 h = 3 - (h + 1) - 1 := by unfold swapIdx; split <;> (try split) <;> omega
  simp [this]

example : tagDecision 2 (swapPhase 7 0 1 [(10, (7, [0, 1])), (20, (7, [1, 0]))]) [⟨10, 0, 30⟩, ⟨20, 1, 30⟩]
    = .tagged 1 60 7 := by decide

/-- the entries `prepare` puts into `read_to_haplotype` are decisions of the rule above: one step of the
read loop either leaves the dictionary alone or appends, for every read of the cloud, the decision
`tagDecision` takes on the cloud's variants -/
theorem prepareStep_sound (ploidy : Nat) (info : PhaseInfo) (cutoff : Int) (il : Bool) (st : Prepared)
    (read : SetRead) (all : List SetRead) :
    (prepareStep ploidy info cutoff il st read all).readToHap = st.readToHap ∨
    ∃ group : List SetRead, ∃ h q ps, read ∈ group ∧
      tagDecision ploidy info (group.flatMap (·.variants)) = .tagged h q ps ∧
      (prepareStep ploidy info cutoff il st read all).readToHap =
        st.readToHap ++ group.map (fun r => (r.name, (h, q, ps))) := by
  unfold prepareStep
  split
  · exact Or.inl rfl
  · simp only
    generalize hg : (read :: if (!il && read.bx.isSome) = true then
        List.filter (fun r => r.bx == read.bx && r.name != read.name && !st.processed.contains r.name
          && decide (absDiff read.refStart r.refStart ≤ cutoff)) all else []) = group
    have hmem : read ∈ group := by rw [← hg]; exact List.mem_cons_self
    cases ha : accumulate ploidy info [] (group.flatMap (·.variants)) with
    | error e => exact Or.inl rfl
    | ok sc =>
      simp only
      cases hp : pickSet sc with
      | none => exact Or.inl rfl
      | some e =>
        obtain ⟨ps, s⟩ := e
        simp only
        cases hd : decideScores ps s with
        | error e => exact Or.inl rfl
        | untagged => exact Or.inl rfl
        | tagged h q p =>
          right
          have hps : p = ps := (decideScores_tagged hd).1
          exact ⟨group, h, q, ps, hmem, by simp [tagDecision, ha, hp, hd, hps], rfl⟩

/-! ## conservation on the stream model -/

theorem erase_tagAln {α} (c : ChromCtx) (a : Aln α) : (tagAln c a).erase = a.erase := by
  unfold tagAln Aln.erase; split <;> rfl

/-- **conservation** (no `--regions`): the output has the same length and the same order as the input
(contigs in header order followed by the unplaced reads) and every record equals its input record in every
field and tag other than HP, PC, PS. -/
theorem conservation {α} (chroms : List (Chrom α)) (unplaced : List (Aln α)) :
    (run chroms unplaced).map Aln.erase = (chroms.flatMap (·.alns) ++ unplaced).map Aln.erase ∧
    (run chroms unplaced).length = (chroms.flatMap (·.alns) ++ unplaced).length := by
  have h : (run chroms unplaced).map Aln.erase = (chroms.flatMap (·.alns) ++ unplaced).map Aln.erase := by
    simp only [run, List.map_append, List.map_flatMap, List.map_map]
    congr 1
    congr 1
    funext c
    apply List.map_congr_left
    intro a _
    exact erase_tagAln c.ctx a
  exact ⟨h, by simpa using congrArg List.length h⟩

/-- the unplaced unmapped reads are copied verbatim (stale HP/PC/PS included) -/
theorem unplaced_verbatim {α} (chroms : List (Chrom α)) (unplaced : List (Aln α)) :
    (run chroms unplaced).drop (chroms.flatMap (·.alns)).length = unplaced := by
  have : (chroms.flatMap (fun c => c.alns.map (tagAln c.ctx))).length = (chroms.flatMap (·.alns)).length := by
    simp [List.length_flatMap]
  simp [run, ← this]

/-- only the tags of taggable alignments are set: unmapped and secondary alignments, and supplementary ones
unless `--tag-supplementary`, leave without HP/PC/PS -/
theorem ignored_untagged {α} (c : ChromCtx) (a : Aln α)
    (h : a.unmapped = true ∨ a.secondary = true ∨ (a.supplementary = true ∧ c.tagSupplementary = false)) :
    (tagAln c a).tags = {} := by
  unfold tagAln ignoreRead
  rcases h with h | h | ⟨h1, h2⟩ <;> simp_all

/-- a single region (or several regions of which no alignment overlaps two): after the repair F17 the
alignments written for a contig are exactly the input alignments that overlap a requested region, each
once — as a multiset for any list of regions … -/
theorem conservation_regions_perm {α} (alns : List (Aln α)) (earlier regions : List (Int × Option Int)) :
    (fetchOnce alns earlier regions).Perm
      (alns.filter fun a => regions.any (overlaps · a) && !earlier.any (overlaps · a)) := by
  induction regions generalizing earlier with
  | nil => simp [fetchOnce]
  | cons r rest ih =>
    simp only [fetchOnce]
    have h1 := ih (earlier ++ [r])
    have h2 := List.filter_append_perm (fun a : Aln α => overlaps r a)
      (alns.filter fun a => (r :: rest).any (overlaps · a) && !earlier.any (overlaps · a))
    refine List.Perm.trans ?_ h2
    apply List.Perm.append
    · rw [List.filter_filter]
      apply List.Perm.of_eq
      apply List.filter_congr
      intro a _
      cases h : overlaps r a <;> simp [h]
    · rw [List.filter_filter]
      refine List.Perm.trans h1 (List.Perm.of_eq ?_)
      apply List.filter_congr
      intro a _
      cases h : overlaps r a <;> simp [h]

/-- … and, with the original order, for one region per contig. -/
theorem conservation_single_region {α} (c : Chrom α) (r : Int × Option Int) :
    (runRegions [(c, [r])]).map Aln.erase = ((c.alns.filter (overlaps r)).map Aln.erase) := by
  simp only [runRegions, fetchOnce, List.flatMap_cons, List.flatMap_nil, List.append_nil, List.any_nil,
    Bool.not_false, Bool.and_true, List.map_map]
  apply List.map_congr_left
  intro a _
  exact erase_tagAln c.ctx a

/-- defect F17 on the faithful model: with the code as it is, an alignment that overlaps two requested
regions is written twice -/
example :
    let a : Aln Nat := ⟨0, "r", false, false, false, 10, 200, none, {}⟩
    let c : Chrom Nat := ⟨⟨[], [], 0, false, false⟩, [a]⟩
    (runRegionsOrig [(c, [(0, some 50), (100, some 150)])]).length = 2 ∧
    (runRegions [(c, [(0, some 50), (100, some 150)])]).length = 1 := by decide

/-- **conservation_regions_order.**  `--regions` after the repair F17 (`Model/C10Regions.lean`:
`normalizeSel` = `normalize_user_regions`, `runRegionsSkip` = the write loop with `previous_end`), for ANY
list of requested regions — unsorted, overlapping, duplicated, open-ended, several per contig, contigs in any
order: the written alignments are exactly the sub-list of the input stream (`stream chroms`: the placed
alignments, contig after contig in header order) of those alignments whose reference span meets at least one
requested region of their contig — same order, each exactly once, every field but HP/PC/PS unchanged.
The abstract loop `runRegions` of `Model/C10.lean` (written with the first region overlapped) gives the same list.

Assumptions on the input: the BAM is coordinate-sorted (`CoordinateSorted`: within a contig `reference_start`
never decreases; contigs in header order is how `Chrom` lists are read) and no region is inverted
(`ValidRegions`: `start ≤ end`; `Region.parse` rejects `end <= start`). -/
theorem conservation_regions_order {α} (chroms : List (Chrom α)) (user : List (Nat × Region))
    (hsorted : CoordinateSorted chroms) (hvalid : ValidRegions user) :
    (runRegionsSkip (normalizeSel chroms user)).map Aln.erase
      = ((stream chroms).filter (requestedAln user)).map (fun ia => ia.2.erase)
    ∧ runRegions (normalizeSel chroms user) = runRegionsSkip (normalizeSel chroms user) := by
  have hl : ∀ ci ∈ chroms.zipIdx, ci.1.alns.Pairwise fun a b => a.refStart ≤ b.refStart :=
    fun ci hci => hsorted ci.1 (fst_mem_of_mem_zipIdx hci)
  have hskip : runRegionsSkip (normalizeSel chroms user) = _ :=
    (flatMap_normalizeSel (fun alns rs => fetchSkip alns none rs) (fun _ => rfl) user chroms.zipIdx).trans
      (flatMap_contigs_eq _ user hvalid (fun _ hs rq hv => fetchSkip_normalizeRegions hs rq hv) _ hl)
  have honce : runRegions (normalizeSel chroms user) = _ :=
    (flatMap_normalizeSel (fun alns rs => fetchOnce alns [] rs) (fun _ => rfl) user chroms.zipIdx).trans
      (flatMap_contigs_eq _ user hvalid (fun _ hs rq hv => fetchOnce_normalizeRegions hs rq hv) _ hl)
  refine ⟨?_, honce.trans hskip.symm⟩
  rw [hskip]
  exact erase_flatMap_eq_stream user chroms.zipIdx

/-- the written list is a sub-list of the whole input (what `run` reads), tags erased -/
theorem conservation_regions_sublist {α} (chroms : List (Chrom α)) (user : List (Nat × Region))
    (hsorted : CoordinateSorted chroms) (hvalid : ValidRegions user) :
    ((runRegionsSkip (normalizeSel chroms user)).map Aln.erase).Sublist ((run chroms []).map Aln.erase) := by
  rw [(conservation_regions_order chroms user hsorted hvalid).1]
  rw [erase_run_eq_stream]
  exact (List.filter_sublist).map _

/-- non-vacuity: two overlapping regions given in the wrong order (`chr1:151-320`, `chr1:1-220`), a duplicate
of the first, and an open-ended region on the first contig although it is named last; `b` spans both regions
of contig 1 and is written once, in input order; `c` lies outside -/
example :
    let mk (n : String) (s e : Int) : Aln Nat := ⟨0, n, false, false, false, s, e, none, {}⟩
    let c0 : Chrom Nat := ⟨⟨[], [], 0, false, false⟩, [mk "x" 5 40, mk "y" 500 600]⟩
    let c1 : Chrom Nat := ⟨⟨[], [], 0, false, false⟩, [mk "a" 10 100, mk "b" 100 250, mk "d" 300 310, mk "c" 330 400]⟩
    let user : List (Nat × Region) := [(1, (150, some 320)), (1, (0, some 220)), (1, (150, some 320)), (0, (450, none))]
    CoordinateSorted [c0, c1] ∧ ValidRegions user ∧
    (normalizeSel [c0, c1] user).map (·.2) = [[(450, none)], [(0, some 320)]] ∧
    (runRegionsSkip (normalizeSel [c0, c1] user)).map (·.name) = ["y", "a", "b", "d"] ∧
    (runRegionsOrig [(c1, [(150, some 320), (0, some 220)])]).map (·.name) = ["b", "d", "a", "b"] := by
  refine ⟨?_, ?_, by decide, by decide, by decide⟩
  · intro c hc
    simp only [List.mem_cons, List.mem_nil_iff, or_false] at hc
    rcases hc with rfl | rfl <;> decide
  · intro u hu
    simp only [List.mem_cons, List.mem_nil_iff, or_false] at hu
    rcases hu with rfl | rfl | rfl | rfl <;> intro e he <;> cases he <;> decide

/-! ## `run_haplotag` end to end (Model/C10Run.lean) -/

/-- **input tags are irrelevant**: HP/PC/PS present on an input alignment never influence what is written — they are
replaced (tagged alignments) or removed (all others, also the stale PC of an alignment tagged through its read cloud). -/
theorem input_tags_irrelevant {α} (c : ChromCtx) (a : Aln α) (t : Tags) :
    tagAln c { a with tags := t } = tagAln c a := by
  unfold tagAln; split <;> rfl

/-- **positions handed to the read reader have phase information** (`get_variant_information`): every position in
`variants` is a key of `vpos_to_phase_info`, … -/
theorem variant_positions_have_phase_info (calls : List Call) :
    ∀ p ∈ (variantInfo calls).2, ((variantInfo calls).1.lookup p).isSome := by
  unfold variantInfo
  exact variantInfo_fold_covers calls ([], []) (fun p hp => by cases hp)

/-- … hence the decision rule never raises on what `ReadSetReader` delivers (alleles 0/1 at those positions) when
`--ploidy` is at least 2: the `KeyError`, the `assert` and the `IndexError` of `prepare_haplotag_information` are unreachable. -/
theorem decision_never_raises {ploidy : Nat} (calls : List Call) (rvs : List RV) (hp : 2 ≤ ploidy)
    (hr : ∀ v ∈ rvs, v.allele < 2 ∧ v.pos ∈ (variantInfo calls).2) (e : Err) :
    tagDecision ploidy (variantInfo calls).1 rvs ≠ .error e := by
  obtain ⟨sc, ha⟩ := accumulate_ok (ploidy := ploidy) (info := (variantInfo calls).1) rvs []
    (fun v hv => ⟨(hr v hv).1, variant_positions_have_phase_info calls _ (hr v hv).2⟩)
  have inv : Inv ploidy (variantInfo calls).1 rvs sc := by simpa using inv_accumulate (inv_nil ploidy _) ha
  unfold tagDecision
  simp only [ha]
  cases hps : pickSet sc with
  | none => simp
  | some b =>
    obtain ⟨ps, s⟩ := b
    simp only
    have hlen : s.length = ploidy := inv.len _ (pickSet_spec hps).1
    unfold decideScores
    have : ¬ s.length < 2 := by omega
    simp only [this, if_false]
    split <;> simp

example : (variantInfo [⟨10, false, some (some 7, [0, 1])⟩, ⟨20, true, some (some 7, [1, 1])⟩, ⟨30, false, none⟩,
      ⟨40, false, some (none, [0, 1])⟩]) = ([(20, (7, [1, 1])), (10, (7, [0, 1]))], [10]) := by decide

/-- **sample selection** (`compute_variant_file_samples_to_use` + `compute_shared_samples`): when both succeed, the samples
haplotag works on are exactly the VCF samples that were asked for (`--sample`, if given) and — unless
`--ignore-read-groups` — occur as SM of a read group; there is at least one; every `--sample` is a VCF sample. -/
theorem shared_samples_spec {vcf bam : List String} {given : Option (List String)} {ignoreRG : Bool} {use sh : List String}
    (h1 : samplesToUse vcf given ignoreRG = .ok use) (h2 : sharedSamples bam ignoreRG use = .ok sh) :
    (∀ s, s ∈ sh ↔ s ∈ vcf ∧ (∀ g, given = some g → s ∈ g) ∧ (ignoreRG = false → s ∈ bam)) ∧
    (ignoreRG = false ∨ given ≠ some [] → sh ≠ []) ∧
    (∀ g, given = some g → ∀ s ∈ g, s ∈ vcf) ∧
    (ignoreRG = true → given = none → sh.length = 1) := by
  have huse : (∀ s, s ∈ use ↔ s ∈ vcf ∧ (∀ g, given = some g → s ∈ g)) ∧ (given ≠ some [] → use ≠ []) ∧
      (∀ g, given = some g → ∀ s ∈ g, s ∈ vcf) ∧ (ignoreRG = true → given = none → use.length = 1) := by
    unfold samplesToUse at h1
    simp only at h1
    split at h1
    · cases h1
    · rename_i hne
      have hne' : vcf.eraseDups ≠ [] := fun e => hne (by simp [e])
      split at h1
      · cases h1
      · rename_i hmulti
        cases given with
        | none =>
          simp only [Except.ok.injEq] at h1
          subst h1
          refine ⟨fun s => by simp [List.mem_eraseDups], fun _ => hne', fun g hg => (by cases hg), ?_⟩
          intro hi _
          simp only [hi, Option.isNone_none, Bool.and_self, Bool.true_and, decide_eq_true_eq] at hmulti
          have : 0 < vcf.eraseDups.length := List.length_pos_iff.2 hne'
          omega
        | some g =>
          simp only at h1
          split at h1
          · cases h1
          · rename_i hall
            simp only [Except.ok.injEq] at h1
            subst h1
            simp only [List.any_eq_true, Bool.not_eq_true', not_exists, not_and, Bool.not_eq_false,
              List.contains_iff_mem, List.mem_eraseDups] at hall
            refine ⟨fun s => ?_, ?_, fun g' hg' s hs => ?_, fun _ hn => by cases hn⟩
            · simp only [List.mem_filter, List.mem_eraseDups, List.contains_iff_mem, Option.some.injEq]
              constructor
              · intro ⟨a, b⟩; exact ⟨a, fun g' hg' => hg' ▸ b⟩
              · intro ⟨a, b⟩; exact ⟨a, b g rfl⟩
            · intro hg
              cases g with
              | nil => exact absurd rfl hg
              | cons x xs =>
                intro e
                have hx : x ∈ List.filter (x :: xs).contains vcf.eraseDups := by
                  simp only [List.mem_filter, List.mem_eraseDups, List.contains_iff_mem]
                  exact ⟨hall x List.mem_cons_self, List.mem_cons_self⟩
                rw [e] at hx
                cases hx
            · simp only [Option.some.injEq] at hg'; subst hg'; exact hall s hs
  obtain ⟨hu1, hu2, hu3, hu4⟩ := huse
  unfold sharedSamples at h2
  cases ignoreRG with
  | true =>
    simp only [if_true, Except.ok.injEq] at h2
    subst h2
    refine ⟨fun s => ?_, ?_, hu3, fun _ hn => hu4 rfl hn⟩
    · rw [hu1 s]; simp
    · intro h
      rcases h with h | h
      · cases h
      · exact hu2 h
  | false =>
    simp only [Bool.false_eq_true, if_false] at h2
    split at h2
    · cases h2
    · rename_i hne
      simp only [Except.ok.injEq] at h2
      subst h2
      refine ⟨fun s => ?_, fun _ e => hne (by simp [e]), hu3, fun h => by cases h⟩
      simp only [List.mem_filter, List.contains_iff_mem, hu1 s]
      constructor
      · intro ⟨⟨a, b⟩, c⟩; exact ⟨a, b, fun _ => c⟩
      · intro ⟨a, b, c⟩; exact ⟨⟨a, b⟩, c trivial⟩

example : samplesToUse ["S1", "S2", "S3"] (some ["S3", "S1"]) false = .ok ["S1", "S3"] ∧
    sharedSamples ["S3", "OTHER", ""] false ["S1", "S3"] = .ok ["S3"] ∧
    samplesToUse ["S1", "S2"] none true = .error .needSampleOption ∧
    samplesToUse ["S1", "S2"] (some ["X"]) false = .error .sampleNotInVcf ∧
    sharedSamples ["OTHER"] false ["S1"] = .error .noSharedSamples := ⟨rfl, rfl, rfl, rfl, rfl⟩

/-- the placed part of the output, record by record with the header index of the contig: exactly `expectedPlaced` -/
theorem haplotag_placed_conservation {α} {cfg : Config} {contigs : List (ContigIn α)} {w : List (Written α)}
    (h : haplotagPlaced cfg contigs = .ok w)
    (hnone : cfg.regions = none → ∀ c ∈ contigs, ∀ a ∈ c.alns, 0 ≤ a.refStart)
    (hsome : ∀ user, cfg.regions = some user → ValidRegions user ∧
      ∀ c ∈ contigs, c.alns.Pairwise fun a b => a.refStart ≤ b.refStart) :
    w.map (fun t => (t.1, t.2.1.erase)) = (expectedPlaced cfg contigs).map fun ia => (ia.1, ia.2.erase) := by
  unfold haplotagPlaced at h
  rw [haplotagLoop_erase cfg _ w h]
  unfold selectContigs expectedPlaced
  refine Eq.trans (select_flatMap cfg.regions
    (fun i (c : ContigIn α) rs => if c.inVcf || cfg.writeMissing
      then (fetchSkip c.alns none rs).map (fun a => (i, a.erase)) else [])
    (fun i c => by simp [fetchSkip]) contigs.zipIdx) ?_
  exact flatMap_expected cfg contigs.zipIdx
    (fun hn ci hci => hnone hn ci.1 (fst_mem_of_mem_zipIdx hci))
    (fun u hu => ⟨(hsome u hu).1, fun ci hci => (hsome u hu).2 ci.1 (fst_mem_of_mem_zipIdx hci)⟩)

/-- **haplotag_conservation** (the whole run, any option set for which the run ends normally): the output BAM is, in
this order, the placed input alignments contig after contig in header order — with `--regions` those overlapping a
requested region of their contig, each once, whatever the order/overlap of the regions given — followed, without
`--regions`, by the unplaced reads; every record equal to its input record except for HP/PC/PS.  The alignments of a
contig the VCF does not know are MISSING from the output under `--skip-missing-contigs` (`expectedPlaced` leaves them
out unless `writeMissing`, the behaviour after fixes/F70.patch).
Assumptions: coordinate-sorted BAM and no inverted region (only needed with `--regions`), no negative start. -/
theorem haplotag_conservation {α} {cfg : Config} {contigs : List (ContigIn α)} {unplaced : List (Aln α)} {out : Output α}
    (h : haplotag cfg contigs unplaced = .ok out)
    (hnone : cfg.regions = none → ∀ c ∈ contigs, ∀ a ∈ c.alns, 0 ≤ a.refStart)
    (hsome : ∀ user, cfg.regions = some user → ValidRegions user ∧
      ∀ c ∈ contigs, c.alns.Pairwise fun a b => a.refStart ≤ b.refStart) :
    out.alns.map Aln.erase =
      ((expectedPlaced cfg contigs).map (·.2) ++ (if cfg.regions.isNone then unplaced else [])).map Aln.erase := by
  unfold haplotag at h
  cases hw : haplotagPlaced cfg contigs with
  | error e => rw [hw] at h; cases h
  | ok w =>
    rw [hw] at h
    simp only [Except.ok.injEq] at h
    subst h
    have := congrArg (List.map (·.2)) (haplotag_placed_conservation hw hnone hsome)
    simp only [List.map_map] at this
    simp only [List.map_append, List.map_map]
    congr 1

/-- **nothing is lost** unless `--skip-missing-contigs` is in effect: without `--regions`, if the option is absent (or
after F70), a run that ends normally writes every input alignment exactly once, in input order, unchanged but for
HP/PC/PS. -/
theorem haplotag_conserves_everything {α} {cfg : Config} {contigs : List (ContigIn α)} {unplaced : List (Aln α)}
    {out : Output α} (h : haplotag cfg contigs unplaced = .ok out) (hreg : cfg.regions = none)
    (hkeep : cfg.skipMissing = false ∨ cfg.writeMissing = true)
    (hnonneg : ∀ c ∈ contigs, ∀ a ∈ c.alns, 0 ≤ a.refStart) :
    out.alns.map Aln.erase = ((placedIn contigs).map (·.2) ++ unplaced).map Aln.erase := by
  rw [haplotag_conservation h (fun _ => hnonneg) (fun u hu => by rw [hreg] at hu; cases hu)]
  have hall : ∀ ci ∈ contigs.zipIdx, ci.1.alns = [] ∨ (ci.1.inVcf || cfg.writeMissing) = true := by
    intro ci hci
    rcases hkeep with hs | hw
    · unfold haplotag at h
      cases hp : haplotagPlaced cfg contigs with
      | error e => rw [hp] at h; cases h
      | ok w =>
        unfold haplotagPlaced at hp
        have hm : (ci.2, ci.1, [((0 : Int), (none : Option Int))]) ∈ selectContigs contigs cfg.regions := by
          unfold selectContigs
          rw [hreg]
          exact List.mem_filterMap.2 ⟨ci, hci, rfl⟩
        rcases haplotagLoop_noskip cfg hs _ w hp _ hm with e | e
        · exact Or.inl e
        · right; simp only at e; simp [e]
    · right; simp [hw]
  have : expectedPlaced cfg contigs = placedIn contigs := by
    unfold expectedPlaced placedIn
    apply flatMap_congr_mem
    intro ci hci
    obtain ⟨c, i⟩ := ci
    simp only
    rcases hall (c, i) hci with e | e
    · simp only at e; simp [e]
    · simp only at e
      simp only [e, hreg, wantedAln, if_true]
      rw [List.filter_eq_self.2 (fun _ _ => rfl)]
  rw [this, hreg]
  rfl

/-- **the haplotag list names what was written**: one line per written placed alignment that is neither secondary nor
supplementary, in output order, with the HP and PS of that very record ("none" when the record carries none). -/
theorem haplotag_list_matches_tags {α} {cfg : Config} {contigs : List (ContigIn α)} {w : List (Written α)}
    (h : haplotagPlaced cfg contigs = .ok w) :
    listLines w = (w.filter fun t => !(t.2.1.secondary || t.2.1.supplementary)).map
      fun t => ⟨t.2.1.name, t.2.1.tags.hp, t.2.1.tags.ps, t.1⟩ := by
  have hent : ∀ t ∈ w, t.2.2 = (t.2.1.tags.hp, t.2.1.tags.ps) := by
    intro t ht
    obtain ⟨c, rg, ctx, _, _, a, _, h1, h2⟩ := haplotagLoop_mem cfg _ w h t ht
    rw [h2, h1]
    exact listEntry_eq ctx a
  unfold listLines
  have hgen : ∀ l : List (Written α), (∀ t ∈ l, t.2.2 = (t.2.1.tags.hp, t.2.1.tags.ps)) →
      (l.filterMap fun (t : Written α) =>
        if t.2.1.secondary || t.2.1.supplementary then none else some (⟨t.2.1.name, t.2.2.1, t.2.2.2, t.1⟩ : ListLine))
      = (l.filter fun t => !(t.2.1.secondary || t.2.1.supplementary)).map
          fun t => (⟨t.2.1.name, t.2.1.tags.hp, t.2.1.tags.ps, t.1⟩ : ListLine) := by
    intro l
    induction l with
    | nil => intro _; rfl
    | cons t rest ih =>
      intro hl
      have ht := hl t List.mem_cons_self
      have ih' := ih (fun x hx => hl x (List.mem_cons_of_mem _ hx))
      rw [List.filterMap_cons, List.filter_cons]
      cases hb : (t.2.1.secondary || t.2.1.supplementary)
      · simp only [Bool.false_eq_true, if_false, Bool.not_false, if_true, List.map_cons, ih', ht]
      · simp only [if_true, Bool.not_true, Bool.false_eq_true, if_false, ih']
  exact hgen w hent

/-- **written_tags_sound** (which alignments get which tags): every written placed alignment stems from an input
alignment `a` of its contig, and either carries none of HP/PC/PS, or `a` is eligible (mapped, not secondary, not
supplementary unless `--tag-supplementary`), its contig is known to the VCF, and
* HP = h+1, PC = q, PS = ps where `tagDecision` yields `(h, q, ps)` on the variants of a read cloud of one of the samples
  that contains a read with `a`'s name (`Justified`; a cloud is a single read unless linked reads are on), or
* HP = h+1, PS = ps without PC: linked reads are on, `a` carries a barcode, and a tagged cloud with that barcode whose
  seed read starts within the cut-off of `a` was decided `(h, ps)` (`JustifiedBx`). -/
theorem written_tags_sound {α} {cfg : Config} {contigs : List (ContigIn α)} {w : List (Written α)}
    (hc : 0 ≤ cfg.cutoff) (h : haplotagPlaced cfg contigs = .ok w) :
    ∀ t ∈ w, ∃ c a, contigs[t.1]? = some c ∧ a ∈ c.alns ∧ t.2.1.erase = a.erase ∧
      (t.2.1.tags = {} ∨
        (ignoreRead cfg.tagSupplementary a.unmapped a.secondary a.supplementary = false ∧ c.inVcf = true ∧
          ((∃ h q ps, t.2.1.tags = ⟨some (h + 1), some q, some ps⟩ ∧ Justified cfg.ploidy c.samples a.name h q ps) ∨
           (∃ tag start h ps, t.2.1.tags = ⟨some (h + 1), none, some ps⟩ ∧ cfg.ignoreLinked = false ∧
              a.bx = some tag ∧ absDiff start a.refStart ≤ cfg.cutoff ∧
              JustifiedBx cfg.ploidy cfg.cutoff c.samples tag start h ps)))) := by
  intro t ht
  obtain ⟨c, rg, ctx, hsel, hplan, a, ha, h1, _⟩ := haplotagLoop_mem cfg _ w h t ht
  refine ⟨c, a, mem_selectContigs hsel, ha, by rw [h1]; exact erase_tagAln ctx a, ?_⟩
  rcases (planContig_some hplan).2 with ⟨_, _, _, hctx⟩ | ⟨hv, _, hctx⟩
  · left; rw [h1, hctx]; exact tagAln_emptyCtx cfg a
  · have hgood := good_prepareAll cfg.ploidy cfg.ignoreLinked c.samples hc
    rw [h1]
    unfold tagAln
    split
    · left; rfl
    · rename_i hign
      have hign' : ignoreRead cfg.tagSupplementary a.unmapped a.secondary a.supplementary = false := by
        rw [hctx] at hign; simpa using hign
      simp only
      rcases newTags_cases ctx a.name a.refStart a.bx with e | ⟨hh, q, ps, hm, e⟩ | ⟨tag, st, hh, ps, hbx, hil, hm, hd, e⟩
      · left; exact e
      · right
        refine ⟨hign', hv, Or.inl ⟨hh, q, ps, e, ?_⟩⟩
        rw [hctx] at hm
        exact hgood.1 _ hm
      · right
        refine ⟨hign', hv, Or.inr ⟨tag, st, hh, ps, e, ?_, hbx, ?_, ?_⟩⟩
        · rw [hctx] at hil; exact hil
        · rw [hctx] at hd; exact hd
        · rw [hctx] at hm; exact hgood.2 _ hm

/-- the chain closed: an alignment written with a PC tag carries the haplotype that agrees strictly best, by summed
allele quality, with the alleles of a read (cloud) of its name within the reported phase set; PC is the margin. -/
theorem written_pc_tag_best_agreeing {α} {cfg : Config} {contigs : List (ContigIn α)} {w : List (Written α)}
    (hc : 0 ≤ cfg.cutoff) (h : haplotagPlaced cfg contigs = .ok w) (t : Written α) (ht : t ∈ w)
    {q : Nat} (hq : t.2.1.tags.pc = some q) :
    ∃ c s, ∃ group : List SetRead, ∃ hh ps, contigs[t.1]? = some c ∧ s ∈ c.samples ∧ (∀ r ∈ group, r ∈ s.2) ∧
      (∃ r ∈ group, r.name = t.2.1.name) ∧ t.2.1.tags = ⟨some (hh + 1), some q, some ps⟩ ∧ hh < cfg.ploidy ∧ 0 < q ∧
      (∀ j, j < cfg.ploidy → j ≠ hh →
        agreeScore s.1 (group.flatMap (·.variants)) ps j + q ≤ agreeScore s.1 (group.flatMap (·.variants)) ps hh) ∧
      (∃ j, j < cfg.ploidy ∧ j ≠ hh ∧
        agreeScore s.1 (group.flatMap (·.variants)) ps j + q = agreeScore s.1 (group.flatMap (·.variants)) ps hh) := by
  obtain ⟨c, a, hci, _, her, hcase⟩ := written_tags_sound hc h t ht
  have hname : t.2.1.name = a.name := by
    have := congrArg Aln.name her
    simpa [Aln.erase] using this
  rcases hcase with e | ⟨_, _, ⟨hh, q', ps, e, s, hs, group, hin, hnm, hd⟩ | ⟨tag, st, hh, ps, e, _⟩⟩
  · rw [e] at hq; cases hq
  · rw [e] at hq
    simp only [Option.some.injEq] at hq
    subst hq
    obtain ⟨b1, b2, b3, b4, _, _⟩ := best_agreeing hd
    exact ⟨c, s, group, hh, ps, hci, hs, hin, by rw [hname]; exact hnm, e, b1, b2, b3, b4⟩
  · rw [e] at hq; cases hq

/-- non-vacuity of the run theorems, and the defect F70 on the faithful model: contig 1 is unknown to the VCF; with
`--skip-missing-contigs` its alignment `y` is missing from the output (`writeMissing`, the repair, writes it without
tags); without the option the run fails.  Contig 0: `x` is tagged (stale HP 2 / PC 9 / PS 99 replaced), its
supplementary record and the secondary `w` lose their tags and do not appear in the list, `u` has no read. -/
example :
    let info : PhaseInfo := [(10, (7, [0, 1])), (20, (7, [1, 0]))]
    let rd : SetRead := ⟨"x", 5, none, [⟨10, 0, 30⟩, ⟨20, 1, 30⟩]⟩
    let mk (n : String) (un sec sup : Bool) (s e : Int) (t : Tags) : Aln Nat := ⟨0, n, un, sec, sup, s, e, none, t⟩
    let c0 : ContigIn Nat := ⟨[mk "x" false false false 5 40 ⟨some 2, some 9, some 99⟩, mk "x" false false true 50 60 {},
      mk "w" false true false 55 70 ⟨some 1, none, some 3⟩, mk "u" false false false 60 90 ⟨some 1, none, some 3⟩], true, [(info, [rd])]⟩
    let c1 : ContigIn Nat := ⟨[mk "y" false false false 1 30 ⟨some 1, some 5, some 8⟩], false, []⟩
    let tail : List (Aln Nat) := [mk "t" true false false 0 0 ⟨some 1, none, none⟩]
    let cfg : Config := ⟨2, 50000, false, false, true, none, false⟩
    let view (a : Aln Nat) := (a.name, a.tags)
    ((haplotag cfg [c0, c1] tail).toOption.map fun out => out.alns.map view) =
      some [("x", ⟨some 1, some 60, some 7⟩), ("x", {}), ("w", {}), ("u", {}), ("t", ⟨some 1, none, none⟩)] ∧
    ((haplotag cfg [c0, c1] tail).toOption.map fun out => out.list) =
      some [⟨"x", some 1, some 7, 0⟩, ⟨"u", none, none, 0⟩] ∧
    ((haplotag { cfg with writeMissing := true } [c0, c1] tail).toOption.map fun out => out.alns.map view) =
      some [("x", ⟨some 1, some 60, some 7⟩), ("x", {}), ("w", {}), ("u", {}), ("y", {}), ("t", ⟨some 1, none, none⟩)] ∧
    ((haplotag { cfg with writeMissing := true } [c0, c1] tail).toOption.map fun out => out.list) =
      some [⟨"x", some 1, some 7, 0⟩, ⟨"u", none, none, 0⟩, ⟨"y", none, none, 1⟩] ∧
    (match haplotag { cfg with skipMissing := false } [c0, c1] tail with
     | .ok _ => none
     | .error e => some e) = some (.contigNotInVcf 1) ∧
    ((haplotag { cfg with regions := some [(0, (45, some 58)), (0, (0, some 10))], tagSupplementary := true }
        [c0, c1] tail).toOption.map fun out => out.alns.map view) =
      some [("x", ⟨some 1, some 60, some 7⟩), ("x", ⟨some 1, some 60, some 7⟩), ("w", {})] := by
  refine ⟨by decide, by decide, by decide, by decide, by decide, by decide⟩

/-- **the run ends normally** exactly as far as the contig check allows: if every contig with alignments is known to the
VCF (or `--skip-missing-contigs` is given), `--ploidy` is at least 2 and the read sets are what `ReadSetReader` delivers for
`get_variant_information`'s positions (alleles 0/1 at positions with phase information: `Covered`, cf.
`variant_positions_have_phase_info`), then no exception of `prepare_haplotag_information` is reachable and the output is complete. -/
theorem haplotag_succeeds {α} (cfg : Config) (contigs : List (ContigIn α)) (unplaced : List (Aln α)) (hp : 2 ≤ cfg.ploidy)
    (hvcf : ∀ c ∈ contigs, c.alns = [] ∨ c.inVcf = true ∨ cfg.skipMissing = true)
    (hcov : ∀ c ∈ contigs, ∀ s ∈ c.samples, ∀ r ∈ s.2, Covered s.1 r) :
    ∃ out, haplotag cfg contigs unplaced = .ok out := by
  obtain ⟨w, hw⟩ := haplotagLoop_ok cfg (selectContigs contigs cfg.regions) (fun t ht =>
    ⟨hvcf _ (mem_of_mem_selectContigs ht), prepareAll_no_error hp _ (hcov _ (mem_of_mem_selectContigs ht))⟩)
  exact ⟨_, by unfold haplotag haplotagPlaced; rw [hw]⟩

/-- the hypotheses of `haplotag_succeeds` are satisfiable (read `x` of the example below) -/
example : ∃ out, haplotag (α := Nat) ⟨2, 50000, false, false, false, none, false⟩
    [⟨[⟨0, "x", false, false, false, 5, 40, none, {}⟩], true,
      [([(10, (7, [0, 1])), (20, (7, [1, 0]))], [⟨"x", 5, none, [⟨10, 0, 30⟩, ⟨20, 1, 30⟩]⟩])]⟩] [] = .ok out := by
  apply haplotag_succeeds _ _ _ (by decide)
  · intro c hc
    simp only [List.mem_cons, List.mem_nil_iff, or_false] at hc
    subst hc
    exact Or.inr (Or.inl rfl)
  · intro c hc s hs r hr
    simp only [List.mem_cons, List.mem_nil_iff, or_false] at hc
    subst hc
    simp only [List.mem_cons, List.mem_nil_iff, or_false] at hs
    subst hs
    simp only [List.mem_cons, List.mem_nil_iff, or_false] at hr
    subst hr
    intro v hv
    simp only [List.mem_cons, List.mem_nil_iff, or_false] at hv
    rcases hv with rfl | rfl <;> decide

/-- conversely the only other exit of the loop: a contig with alignments that the VCF does not know, without the option -/
example : (match haplotag (α := Nat) ⟨2, 50000, false, false, false, none, false⟩
      [⟨[⟨0, "y", false, false, false, 1, 30, none, {}⟩], false, []⟩] [] with
    | .ok _ => none | .error e => some e) = some (.contigNotInVcf 0) := by decide

/-- tags cross samples (finding F71) on the faithful model: the two dictionaries are keyed by read name / barcode only.
Sample 2's read `x` ties (its alleles 1,0 agree once with each haplotype of sample 1's phasing and it is not even asked
for), sample 2's read `n` has no variants; both alignments are written with the decision taken for SAMPLE 1's read `x`
(`written_tags_sound` only promises a read cloud *with the same name* in *one of* the samples). -/
example :
    let info1 : PhaseInfo := [(10, (101, [0, 1])), (20, (101, [0, 1]))]
    let x1 : SetRead := ⟨"x", 5, some "B1", [⟨10, 0, 30⟩, ⟨20, 0, 30⟩]⟩
    let mk (n : String) (s : Int) (bx : Option String) : Aln Nat := ⟨0, n, false, false, false, s, s + 100, bx, {}⟩
    let c0 : ContigIn Nat := ⟨[mk "x" 5 (some "B1"), mk "x" 6 none, mk "n" 200 (some "B1")], true, [(info1, [x1])]⟩
    let cfg : Config := ⟨2, 50000, false, false, false, none, false⟩
    tagDecision 2 info1 [⟨10, 1, 30⟩, ⟨20, 0, 30⟩] = .untagged ∧
    ((haplotag cfg [c0] []).toOption.map fun out => out.alns.map (fun a => (a.name, a.refStart, a.tags))) =
      some [("x", 5, ⟨some 1, some 60, some 101⟩), ("x", 6, ⟨some 1, some 60, some 101⟩),
        ("n", 200, ⟨some 1, none, some 101⟩)] := by
  refine ⟨by decide, by decide⟩


/-! ## Round 10: the reads haplotag sees (Model/C10Detect.lean = C06's detection as `run_haplotag` configures it) -/

/-- **mates_agreeing_allele_kept** (`create_read_from_group`, the merge of the two mates of a pair; seed C10-h).
A variant seen by both mates is kept — as ONE observation, the first mate's `Variant` with ITS quality — exactly when
the two alleles are equal, WHATEVER the two qualities are; it is dropped iff the alleles differ. -/
theorem mates_agreeing_allele_kept (thr : Int) (a1 a2 : AlnRead) (h1 : a1.supplementary = false)
    (h2 : a2.supplementary = false) (hd1 : DistinctPos a1.variants) (hd2 : DistinctPos a2.variants) {v1 v2 : RV}
    (hv1 : v1 ∈ a1.variants) (hv2 : v2 ∈ a2.variants) (hp : v1.pos = v2.pos) :
    ∃ start vars, groupRead true thr [a1, a2] = some (start, vars) ∧
      (v1.allele = v2.allele → v1 ∈ vars ∧ ∀ w ∈ vars, w.pos = v1.pos → w = v1) ∧
      (v1.allele ≠ v2.allele → ∀ w ∈ vars, w.pos ≠ v1.pos) := by
  obtain ⟨start, vars, hg, hmem⟩ := groupRead_pair thr a1 a2 h1 h2 hd1 hd2
  have hf1 : a1.variants.find? (·.pos == v2.pos) = some v1 := by rw [← hp]; exact find_of_distinct hd1 hv1
  refine ⟨start, vars, hg, ?_, ?_⟩
  · intro heq
    constructor
    · rw [hmem]
      refine ⟨Or.inl hv1, ?_⟩
      rintro ⟨v, hv, hvp, u, hu, hne⟩
      have : v = v2 := eq_of_distinct hd2 hv hv2 (by rw [hvp, hp])
      subst this
      rw [hf1] at hu; cases hu
      exact hne heq
    · intro w hw hwp
      rcases ((hmem w).1 hw).1 with h | ⟨_, hn⟩
      · exact eq_of_distinct hd1 h hv1 hwp
      · rw [hwp, hp, hf1] at hn; cases hn
  · intro hne w hw hwp
    exact ((hmem w).1 hw).2 ⟨v2, hv2, by rw [hwp, hp], v1, hf1, hne⟩

/-- non-vacuity + the seed's input: both mates show allele 1 at 199 with qualities 40 / 35, the second mate allele 1 at
299 with quality 30: the pair is scored 40 : 30 (HP 1); without the doubly covered variant it would be HP 2 -/
example : groupRead true 100000 [⟨false, false, 100, 250, [⟨199, 1, 40⟩]⟩, ⟨false, true, 180, 330, [⟨199, 1, 35⟩, ⟨299, 1, 30⟩]⟩]
      = some (100, [⟨199, 1, 40⟩, ⟨299, 1, 30⟩])
    ∧ tagDecision 2 [(199, (100, [1, 0])), (299, (100, [0, 1]))] [⟨199, 1, 40⟩, ⟨299, 1, 30⟩] = .tagged 0 10 100
    ∧ tagDecision 2 [(199, (100, [1, 0])), (299, (100, [0, 1]))] [⟨299, 1, 30⟩] = .tagged 1 30 100
    ∧ groupRead true 100000 [⟨false, false, 100, 250, [⟨199, 1, 40⟩]⟩, ⟨false, true, 180, 330, [⟨199, 0, 35⟩, ⟨299, 1, 30⟩]⟩]
      = some (100, [⟨299, 1, 30⟩]) := by decide

/-- **mates_without_conflict_union**: mates that never show different alleles give the union of their observations, a
doubly covered variant once (the first mate's) -/
theorem mates_without_conflict_union (thr : Int) (a1 a2 : AlnRead) (h1 : a1.supplementary = false)
    (h2 : a2.supplementary = false) (hd1 : DistinctPos a1.variants) (hd2 : DistinctPos a2.variants)
    (hagree : ∀ v1 ∈ a1.variants, ∀ v2 ∈ a2.variants, v1.pos = v2.pos → v1.allele = v2.allele) :
    ∃ start vars, groupRead true thr [a1, a2] = some (start, vars) ∧
      ∀ w, w ∈ vars ↔ w ∈ a1.variants ∨ (w ∈ a2.variants ∧ ∀ u ∈ a1.variants, u.pos ≠ w.pos) := by
  obtain ⟨start, vars, hg, hmem⟩ := groupRead_pair thr a1 a2 h1 h2 hd1 hd2
  refine ⟨start, vars, hg, fun w => ?_⟩
  rw [hmem]
  have hnone : ∀ x : RV, a1.variants.find? (·.pos == x.pos) = none ↔ ∀ u ∈ a1.variants, u.pos ≠ x.pos := by
    intro x; simp [List.find?_eq_none]
  constructor
  · rintro ⟨h | ⟨h, hn⟩, _⟩
    · exact Or.inl h
    · exact Or.inr ⟨h, (hnone w).1 hn⟩
  · intro h
    refine ⟨h.imp id (fun ⟨a, b⟩ => ⟨a, (hnone w).2 b⟩), ?_⟩
    rintro ⟨v, hv, _, u, hu, hne⟩
    have hum := List.mem_of_find?_eq_some hu
    have hup : u.pos = v.pos := by simpa using List.find?_some hu
    exact hne (hagree u hum v hv hup)

example : ∀ v1 ∈ [(⟨199, 1, 40⟩ : RV)], ∀ v2 ∈ [(⟨199, 1, 35⟩ : RV), ⟨299, 1, 30⟩], v1.pos = v2.pos → v1.allele = v2.allele := by decide

/-- **supplementary_alleles_unused**: `run_haplotag` builds its reader without `use_supplementary`, so a supplementary
record never contributes an allele to its read — with or without `--tag-supplementary` (the option acts in the write loop only) -/
theorem supplementary_alleles_unused (fx : C06.Fixes) (variants : List C06.Variant) (reference : Option C06.Seq) (a : C06.Aln)
    (h : a.supplementary = true) : alnAlleles fx variants reference a = .ok [] := by
  simp [alnAlleles, C06.usable, haplotagCfg, h]

/-- … and likewise low mapping quality, secondary, unmapped; a duplicate IS read (`duplicates=True`) -/
theorem filtered_alleles_unused (fx : C06.Fixes) (variants : List C06.Variant) (reference : Option C06.Seq) (a : C06.Aln)
    (h : a.mapq < 20 ∨ a.secondary = true ∨ a.unmapped = true) : alnAlleles fx variants reference a = .ok [] := by
  rcases h with h | h | h <;> simp [alnAlleles, C06.usable, haplotagCfg, h]

example : (⟨"s", 2048, 60, none, 0, none, none, none, "", -1, some 0, 0⟩ : C06.Aln).supplementary = true := by decide

/-- **supplementary_inherits_primary_tag** (`--tag-supplementary`): a supplementary record on the contig is written with
exactly the HP / PC / PS of the read of its name — the tag its primary alignment gets — whenever that read was tagged from
its own alleles (PC present); without the option it is written untagged.  (No distance threshold exists in the code.) -/
theorem supplementary_inherits_primary_tag {α} (c : ChromCtx) (p s : Aln α)
    (hp : p.unmapped = false ∧ p.secondary = false ∧ p.supplementary = false)
    (hs : s.unmapped = false ∧ s.secondary = false ∧ s.supplementary = true) (hn : s.name = p.name)
    (hpc : (tagAln c p).tags.pc.isSome = true) :
    (tagAln c s).tags = if c.tagSupplementary then (tagAln c p).tags else {} := by
  obtain ⟨hp1, hp2, hp3⟩ := hp
  obtain ⟨hs1, hs2, hs3⟩ := hs
  have hP : (tagAln c p).tags = newTags c p.name p.refStart p.bx := by
    simp [tagAln, ignoreRead, hp1, hp2, hp3]
  rw [hP] at hpc ⊢
  cases hts : c.tagSupplementary
  · simp [tagAln, ignoreRead, hs1, hs2, hs3, hts]
  · have hS : (tagAln c s).tags = newTags c s.name s.refStart s.bx := by
      simp [tagAln, ignoreRead, hs1, hs2, hs3, hts]
    rw [hS, hn]
    simp only [if_true]
    unfold newTags at hpc ⊢
    cases hl : lookupLast p.name c.readToHap with
    | some e => rfl
    | none =>
      rw [hl] at hpc
      simp only at hpc
      split at hpc
      · cases hpc
      · split at hpc
        · cases hpc
        · split at hpc <;> cases hpc

example : (tagAln (α := Unit) ⟨[("r", (0, 40, 7))], [], 50000, false, true⟩ ⟨(), "r", false, false, true, 500, 600, none, {}⟩).tags
    = { hp := some 1, pc := some 40, ps := some 7 } := by decide

/-- **boundary_variant_typed** (`--no-reference`, the walker `_detect_alleles`; any CIGAR over the operators 0–8, all
variants SNVs).  An SNV the variant pointer has not passed is typed exactly when its position is aligned in an M/=/X
block (`mIdx`): then the base aligned to it decides — REF base ⇒ allele 0, ALT base ⇒ allele 1, with that base's
quality —, so an error-free read carries its haplotype's allele; and an SNV that is not aligned (in particular one base
past the last aligned base, `mIdx_span`) is not carried at all. -/
theorem boundary_variant_typed (fx : C06.Fixes) (variants : List C06.Variant) (first start : Nat) (cigar : C06.Cigar)
    (query : C06.Seq) (quals : Option (List Nat)) (hsnv : ∀ v ∈ variants, C06.SnvV v)
    (hsorted : variants.Pairwise (fun a b => a.pos < b.pos)) (hops : ∀ p ∈ cigar, p.1 ≤ 8)
    (hlen : C06.qLen cigar ≤ query.length) (hquals : ∀ l, quals = some l → l.length = query.length)
    (id : Nat) (v : C06.Variant) (hv : (id, v) ∈ (C06.enumFrom 0 variants).drop first) (r a : Char)
    (hr : v.ref = [r]) (ha : v.alts = [[a]]) (hne : r ≠ a) :
    (∀ q, mIdx v.pos start 0 cigar = some q →
      (query[q]? = some r → (id, 0, C06.qualAt quals q) ∈ (C06.detectNoRef fx variants first start cigar query quals).1) ∧
      (query[q]? = some a → (id, 1, C06.qualAt quals q) ∈ (C06.detectNoRef fx variants first start cigar query quals).1)) ∧
    (∀ t ∈ (C06.detectNoRef fx variants first start cigar query quals).1, t.1 = id →
      ∃ q, mIdx v.pos start 0 cigar = some q ∧ start ≤ v.pos ∧ v.pos < start + C06.refLen cigar ∧
        ((t.2.1 = 0 ∧ query[q]? = some r) ∨ (t.2.1 = 1 ∧ query[q]? = some a))) := by
  rw [WhVerif.Props.C06.noref_snv_correct fx variants first start cigar query quals hsnv hsorted hops hlen hquals]
  have hsub : ((C06.enumFrom 0 variants).drop first).Sublist (C06.enumFrom 0 variants) := List.drop_sublist _ _
  have hsp : C06.SortedP ((C06.enumFrom 0 variants).drop first) :=
    List.Pairwise.sublist hsub (C06.enumFrom_sortedP variants 0 hsorted)
  constructor
  · intro q hq
    have hc := C06.snvCall_complete query quals id v q r a hr ha hne
    exact ⟨fun h => snvExpected_complete query quals cigar start 0 _ hsp (id, v) hv q _ hq (hc.1 h),
           fun h => snvExpected_complete query quals cigar start 0 _ hsp (id, v) hv q _ hq (hc.2 h)⟩
  · intro t ht hid
    obtain ⟨x, hx, q, hq, hcall⟩ := snvExpected_sound query quals cigar start 0 _ hsp t ht
    obtain ⟨k, w⟩ := x
    obtain ⟨tk, th, tq⟩ := t
    obtain ⟨r', a', hr', ha', _⟩ := hsnv w (C06.mem_enumFrom_snd variants 0 k w (hsub.subset hx))
    obtain ⟨hk, _, hcase⟩ := C06.snvCall_sound query quals k w q r' a' hr' ha' tk th tq hcall
    simp only at hid hk
    have hkid : k = id := by omega
    subst hkid
    have hw : w = v := enumFrom_fun variants 0 k w v (hsub.subset hx) (hsub.subset hv)
    subst hw
    rw [hr] at hr'; rw [ha] at ha'
    simp only [List.cons.injEq, and_true] at hr' ha'
    subst hr' ha'
    obtain ⟨h1, h2⟩ := mIdx_span _ _ _ _ _ hq
    exact ⟨q, hq, h1, h2, hcase⟩


/-- non-vacuity: `2S 5M 1H` at 3, SNVs on the first (3) and on the last (7) aligned base and one base past the end (8) -/
example :
    let vars : List C06.Variant := [⟨3, ['A'], [['C']]⟩, ⟨7, ['G'], [['T']]⟩, ⟨8, ['A'], [['G']]⟩]
    let cig : C06.Cigar := [(4, 2), (0, 5), (5, 1)]
    let query : C06.Seq := ['T', 'T', 'C', 'G', 'G', 'G', 'T']
    mIdx 3 3 0 cig = some 2 ∧ mIdx 7 3 0 cig = some 6 ∧ mIdx 8 3 0 cig = none ∧
    (0, 1, 30) ∈ (C06.detectNoRef C06.Fixes.all vars 0 3 cig query none).1 ∧
    (1, 1, 30) ∈ (C06.detectNoRef C06.Fixes.all vars 0 3 cig query none).1 ∧
    ∀ t ∈ (C06.detectNoRef C06.Fixes.all vars 0 3 cig query none).1, t.1 ≠ 2 := by
  intro vars cig query
  have hsnv : ∀ v ∈ vars, C06.SnvV v := by
    intro v hv
    simp only [vars, List.mem_cons, List.not_mem_nil, or_false] at hv
    rcases hv with rfl | rfl | rfl <;> exact ⟨_, _, rfl, rfl, by decide⟩
  have hs : vars.Pairwise (fun a b => a.pos < b.pos) := by decide
  have hops : ∀ p ∈ cig, p.1 ≤ 8 := by decide
  have hlen : C06.qLen cig ≤ query.length := by decide
  have B := fun id v hv r a hr ha hne => boundary_variant_typed C06.Fixes.all vars 0 3 cig query none hsnv hs hops hlen
    (by intro l h; cases h) id v hv r a hr ha hne
  refine ⟨by decide, by decide, by decide, ?_, ?_, ?_⟩
  · exact ((B 0 ⟨3, ['A'], [['C']]⟩ (by decide) 'A' 'C' rfl rfl (by decide)).1 2 (by decide)).2 (by decide)
  · exact ((B 1 ⟨7, ['G'], [['T']]⟩ (by decide) 'G' 'T' rfl rfl (by decide)).1 6 (by decide)).2 (by decide)
  · intro t ht h2
    obtain ⟨q, hq, _⟩ := (B 2 ⟨8, ['A'], [['G']]⟩ (by decide) 'A' 'G' rfl rfl (by decide)).2 t ht h2
    have : mIdx 8 3 0 cig = none := by decide
    rw [this] at hq; cases hq

/-- **clips_do_not_shift**: soft and hard clips, leading or trailing, do not move the typed positions: the same reference
positions are aligned (hence typed, `boundary_variant_typed`), a leading soft clip of `n` bases only shifts the query index
of every aligned base by `n`, a hard clip and any trailing clip change nothing. -/
theorem clips_do_not_shift (p start n : Nat) (c : C06.Cigar) :
    mIdx p start 0 ((4, n) :: c) = (mIdx p start 0 c).map (· + n) ∧ mIdx p start 0 ((5, n) :: c) = mIdx p start 0 c ∧
    mIdx p start 0 (c ++ [(4, n)]) = mIdx p start 0 c ∧ mIdx p start 0 (c ++ [(5, n)]) = mIdx p start 0 c := by
  refine ⟨?_, mIdx_hardclip p n start 0 c, mIdx_append_clip p c 4 n (Or.inl rfl) start 0, mIdx_append_clip p c 5 n (Or.inr rfl) start 0⟩
  rw [mIdx_softclip, ← mIdx_shift]

/-- the position one past the last aligned base is never typed; the last aligned base of a final M/=/X block is -/
theorem last_base_typed_next_not (start qp m : Nat) (mop : Nat) (hm : C06.isMatch mop = true) (hpos : 0 < m) (c : C06.Cigar) :
    mIdx (start + C06.refLen c) start qp c = none ∧
    mIdx (start + (m - 1)) start qp [(mop, m)] = some (qp + (m - 1)) ∧ mIdx start start qp [(mop, m)] = some qp := by
  refine ⟨?_, ?_, ?_⟩
  · cases h : mIdx (start + C06.refLen c) start qp c with
    | none => rfl
    | some q => have := (mIdx_span _ _ _ _ _ h).2; omega
  · simp only [mIdx, hm, if_true]
    have : start ≤ start + (m - 1) ∧ start + (m - 1) < start + m := by omega
    simp [this]
  · simp only [mIdx, hm, if_true]
    have : start ≤ start ∧ start < start + m := by omega
    simp [this]

end WhVerif.Props.C10

import WhVerif.Model.C08
import WhVerif.Spec.C08
namespace WhVerif.Props.C08
open WhVerif.C08
theorem gather_nil (b : Nat) : gather [] b = 0 := rfl
end WhVerif.Props.C08

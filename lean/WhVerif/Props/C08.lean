import WhVerif.Lemmas.C08Example
import WhVerif.Lemmas.C08Pos
import WhVerif.Lemmas.C08ScaleProd
import WhVerif.Lemmas.C08Conv
import WhVerif.Lemmas.C08ImplCol
import WhVerif.Lemmas.C08Glue
/-!
# C08 — genotyping reports the exact posterior of its HMM; GT, GL and GQ agree.

All statements are about the model `WhVerif/Model/C08.lean` (forward–backward over projected bipartition columns
with arbitrary per-column scaling divisors) and the brute-force spec `WhVerif/Spec/C08.lean`, for **every**
field `K` (in particular `ℚ`), every emission map `em`, recombination probabilities `rho` and priors (`Params K`),
every instance (any number of reads, columns, individuals, trios) and every non-zero scaling.
`log10` / rounding of GL and GQ are not modelled (checked numerically by the harness).
-/
namespace WhVerif.Props.C08
open WhVerif.C08 Finset

variable {K : Type}

/-! ## GT: unique maximum above the threshold, `./.` otherwise -/

/-- `determine_genotype` returns genotype `g` iff `g` is the *strict* maximum of the three likelihoods and
exceeds the threshold. -/
theorem gt_is_unique_max_above_threshold [LinearOrder K] (l : Nat → K) (thr : K) (g : Nat) :
    determineGenotype (l 0) (l 1) (l 2) thr = some g ↔
      (g < 3 ∧ thr < l g ∧ ∀ g', g' < 3 → g' ≠ g → l g' < l g) := by
  rw [determineGenotype_eq_some]
  constructor
  · rintro (⟨rfl, h1, h2, h3⟩ | ⟨rfl, h1, h2, h3⟩ | ⟨rfl, h1, h2, h3⟩)
    all_goals
      refine ⟨by omega, h1, fun g' hg' hne => ?_⟩
      have : g' = 0 ∨ g' = 1 ∨ g' = 2 := by omega
      rcases this with rfl | rfl | rfl <;> first | exact h2 | exact h3 | exact absurd rfl hne
  · rintro ⟨hg, h1, h2⟩
    have : g = 0 ∨ g = 1 ∨ g = 2 := by omega
    rcases this with rfl | rfl | rfl
    · exact Or.inl ⟨rfl, h1, h2 1 (by omega) (by omega), h2 2 (by omega) (by omega)⟩
    · exact Or.inr (Or.inl ⟨rfl, h1, h2 0 (by omega) (by omega), h2 2 (by omega) (by omega)⟩)
    · exact Or.inr (Or.inr ⟨rfl, h1, h2 0 (by omega) (by omega), h2 1 (by omega) (by omega)⟩)

/-- … and `./.` in every other case (tie for the maximum, or maximum not above the threshold). -/
theorem gt_nocall_otherwise [LinearOrder K] (l : Nat → K) (thr : K) :
    determineGenotype (l 0) (l 1) (l 2) thr = none ↔
      ¬ ∃ g, g < 3 ∧ thr < l g ∧ ∀ g', g' < 3 → g' ≠ g → l g' < l g := by
  rw [Option.eq_none_iff_forall_ne_some]
  constructor
  · rintro h ⟨g, hg⟩
    exact h g ((gt_is_unique_max_above_threshold l thr g).mpr hg)
  · intro h g hg
    exact h ⟨g, (gt_is_unique_max_above_threshold l thr g).mp hg⟩

example : determineGenotype (1/10 : Rat) (7/10) (2/10) (1/2) = some 1 := by decide +kernel
example : determineGenotype (1/10 : Rat) (45/100) (45/100) 0 = none := by decide +kernel

/-! ## GL: the three likelihoods of a call form a distribution -/

/-- the likelihoods of a call sum to one whenever the normalisation of the column is non-zero -/
theorem likelihoods_sum_to_one [Field K] (inst : Inst) (p : Params K) (S : Scal K) (c i : Nat)
    (htot : total inst.frame (inst.weights p) S c ≠ 0) :
    ∑ g ∈ range 3, likelihood inst p S c i g = 1 :=
  likelihoodSel_sum_one inst.frame (inst.weights p) S c (fun t a => genoOf inst.parts i t a)
    (fun t a => genoOf_lt _ _ _ _) htot

/-! ## GQ: the mass of the other genotypes -/

/-- `geno_q` (the number `write_genotypes` turns into GQ) is one minus the likelihood of the called genotype -/
theorem gq_is_other_mass [Field K] (inst : Inst) (p : Params K) (S : Scal K) (c i g : Nat) (hg : g < 3)
    (htot : total inst.frame (inst.weights p) S c ≠ 0) :
    gqMass (likelihood inst p S c i) g = 1 - likelihood inst p S c i g :=
  gqMass_eq _ g hg (likelihoods_sum_to_one inst p S c i htot)

/-! ## scaling -/

/-- any two choices of non-zero per-column scaling divisors give the same likelihoods -/
theorem scaling_irrelevant [Field K] (inst : Inst) (p : Params K) (S S' : Scal K) (hS : S.NonZero) (hS' : S'.NonZero)
    (c i g : Nat) : likelihood inst p S c i g = likelihood inst p S' c i g := by
  unfold likelihood
  rw [likelihoodSel_scale _ _ S hS, likelihoodSel_scale _ _ S' hS']

/-- **the scaled recurrences are the unscaled ones times the product of the (inverse) scaling factors** – explicitly,
over every field and for *every* scaling (also a zero divisor: `x / 0 = x·0⁻¹`): the forward projection column of
column `c` carries `Π_{c' ≤ c} 1/fw c'`, the backward column written after `d + 1` backward steps carries
`Π_{j ≤ d} 1/bw (n-1-j)`, and every `forward_backward` numerator of column `c` (hence `normalization`) carries
`fbFactor = Π_{c' ≤ c} 1/fw c' · Π_{c' > c} 1/bw c' · 1/bw2 c`.  `scaling_irrelevant` is the corollary for non-zero factors. -/
theorem scaled_equals_unscaled_times_factors [Field K] (F : Frame) (W : Weights K) (S : Scal K) (c : Nat) (hc : c < F.nCols) :
    (∀ k, tblAt (fwdTbl F W S c) k = (∏ c' ∈ range (c + 1), (S.fw c')⁻¹) * tblAt (fwdTbl F W Scal.one c) k) ∧
    (∀ d, d + 2 ≤ F.nCols → ∀ k, tblAt (bwdTbl F W S d) k =
        (∏ j ∈ range (d + 1), (S.bw (F.nCols - 1 - j))⁻¹) * tblAt (bwdTbl F W Scal.one d) k) ∧
    (∀ sel, numer F W S c sel = fbFactor S F.nCols c * numer F W Scal.one c sel) ∧
    total F W S c = fbFactor S F.nCols c * total F W Scal.one c :=
  ⟨fwdTbl_scale_prod F W S c, fun d hd => bwdTbl_scale_prod F W S d hd, numer_scale_prod F W S c hc,
   numer_scale_prod F W S c hc _⟩

/-! ## the likelihoods are the posterior of the HMM -/

/-- **forward–backward = brute force**: for every well-formed instance, every column and every non-zero
scaling, the model's likelihood of genotype `g` for individual `i` is the posterior probability obtained by
summing over all (global bipartition, transmission path, allele-assignment path) triples. -/
theorem forward_backward_posterior [Field K] (inst : Inst) (p : Params K) (S : Scal K)
    (hWF : inst.WF = true) (hS : S.NonZero) (c : Nat) (hc : c < inst.nCols) (i g : Nat) :
    likelihood inst p S c i g = posterior inst p c i g :=
  likelihoodSel_eq_posteriorSel inst.frame (inst.weights p) S (Inst.frame_WF inst hWF) hS c hc _

/-- the same for an arbitrary column-weight system: the identity does not depend on what the emission, prior and
transition numbers are, only on the column structure of a sorted read set -/
theorem forward_backward_posterior_generic [Field K] (F : Frame) (W : Weights K) (S : Scal K)
    (hWF : F.WF) (hS : S.NonZero) (c : Nat) (hc : c < F.nCols) (sel : Nat → Nat → Bool) :
    likelihoodSel F W S c sel = posteriorSel F W c sel :=
  likelihoodSel_eq_posteriorSel F W S hWF hS c hc sel

/-- GQ mass = one minus the posterior of the called genotype -/
theorem gq_is_posterior_complement [Field K] (inst : Inst) (p : Params K) (S : Scal K)
    (hWF : inst.WF = true) (hS : S.NonZero) (c : Nat) (hc : c < inst.nCols) (i g : Nat) (hg : g < 3)
    (htot : total inst.frame (inst.weights p) S c ≠ 0) :
    gqMass (likelihood inst p S c i) g = 1 - posterior inst p c i g := by
  rw [gq_is_other_mass inst p S c i g hg htot, forward_backward_posterior inst p S hWF hS c hc]

/-! ## positive parameters: the hypothesis `total ≠ 0` is automatic and the likelihoods are a probability distribution -/

/-- for error and recombination probabilities strictly between 0 and 1 and positive priors (`Params.Pos`; the code's
phred tables and every recombination cost ≥ 1 satisfy this) the normalisation of every column is non-zero -/
theorem total_ne_zero_of_positive [Field K] [LinearOrder K] [IsStrictOrderedRing K] (inst : Inst) (p : Params K) (S : Scal K)
    (hWF : inst.WF = true) (hp : p.Pos) (hS : S.NonZero) (c : Nat) (hc : c < inst.nCols) :
    total inst.frame (inst.weights p) S c ≠ 0 :=
  total_ne_zero inst.frame (inst.weights p) S (Inst.frame_WF inst hWF) hS (Inst.weights_pos inst p hp) c hc

/-- … so the three likelihoods of every call are non-negative and sum to one: GL is log10 of a distribution -/
theorem likelihoods_are_distribution [Field K] [LinearOrder K] [IsStrictOrderedRing K] (inst : Inst) (p : Params K) (S : Scal K)
    (hWF : inst.WF = true) (hp : p.Pos) (hS : S.NonZero) (c : Nat) (hc : c < inst.nCols) (i : Nat) :
    (∀ g, 0 ≤ likelihood inst p S c i g) ∧ ∑ g ∈ range 3, likelihood inst p S c i g = 1 :=
  ⟨fun _ => likelihoodSel_nonneg inst.frame (inst.weights p) S (Inst.frame_WF inst hWF) hS (Inst.weights_pos inst p hp) c hc _,
   likelihoods_sum_to_one inst p S c i (total_ne_zero_of_positive inst p S hWF hp hS c hc)⟩


/-! ## the integer side: GQ, the phred threshold and GL as written by `GenotypeVcfWriter.write_genotypes`

`Model/C08Conv.lean`: for a rational mass `q = a/b` of the other genotypes, `round(-10·log10 q) = n` iff
`a²⁰·10^(2n+1) > b²⁰` and `a²⁰·10^(2n-1) < b²⁰`; `gqNat a b` is `min(·, 10000)` of it. -/

/-- **GQ is the rounded phred value of the mass of the other genotypes, capped at 10000**: `n = gqNat a b` is at most
10000, every smaller `m` has `-10·log10(a/b) ≥ m + ½` (i.e. `a²⁰·10^(2m+1) ≤ b²⁰`), and below the cap
`-10·log10(a/b) < n + ½` (i.e. `a²⁰·10^(2n+1) > b²⁰`) -/
theorem gq_is_rounded_phred_capped (a b : Nat) :
    gqNat a b ≤ 10000 ∧ (∀ m, m < gqNat a b → a ^ 20 * 10 ^ (2 * m + 1) ≤ b ^ 20) ∧
      (gqNat a b < 10000 → a ^ 20 * 10 ^ (2 * gqNat a b + 1) > b ^ 20) := by
  obtain ⟨_, h2, h3, h4⟩ := gqLoop_spec (a ^ 20) (b ^ 20) GQ_CAP 0
  refine ⟨by simpa [gqNat, GQ_CAP] using h2, fun m hm => ?_, fun h => h4 (by simpa [gqNat, GQ_CAP] using h)⟩
  exact Nat.le_of_not_gt (h3 m (Nat.zero_le _) hm)

example : gqNat 1 100 = 20 ∧ gqNat 1 1 = 0 ∧ gqNat 891 1000 = 1 ∧ gqNat 892 1000 = 0 := by decide +kernel

/-- **GQ is non-negative and capped** whenever the mass of the other genotypes is at most 1 (a distribution:
`likelihoods_are_distribution`, `gq_is_other_mass`); mass `≤ 0` (`geno_q > 0` fails) gives exactly 10000 -/
theorem gq_nonneg_and_capped (num : Int) (den : Nat) (hden : 0 < den) (h : num ≤ den) :
    0 ≤ gqOf num den ∧ gqOf num den ≤ 10000 ∧ (num ≤ 0 → gqOf num den = 10000) := by
  unfold gqOf
  by_cases h0 : num ≤ 0
  · simp [h0, GQ_CAP]
  · rw [if_neg h0]
    have hn : num.toNat ≤ den := by omega
    have hlt : num.toNat ^ 20 < 10 * den ^ 20 := by
      have h1 : num.toNat ^ 20 ≤ den ^ 20 := Nat.pow_le_pow_left hn 20
      have h2 : 0 < den ^ 20 := Nat.pow_pos hden
      omega
    rw [if_pos hlt]
    have := (gq_is_rounded_phred_capped num.toNat den).1
    refine ⟨by omega, by omega, fun h' => absurd h' h0⟩

example : (0 : Nat) < 100 ∧ ((1 : Int) ≤ (100 : Nat)) := by decide

/-- **GQ is antitone in the mass of the other genotypes**: `a/b ≤ a'/b'` ⟹ `GQ(a'/b') ≤ GQ(a/b)` -/
theorem gq_antitone (a b a' b' : Nat) (hb : 0 < b) (hb' : 0 < b') (hq : a * b' ≤ a' * b) : gqNat a' b' ≤ gqNat a b :=
  gqLoop_anti _ _ _ _ (fun _ h => cond_mono a b a' b' _ hb hb' hq h) GQ_CAP 0

example : (0 : Nat) < 100 ∧ (0 : Nat) < 10 ∧ 1 * 10 ≤ 1 * 100 := by decide

/-- **the phred threshold and GQ agree**: for a likelihood `a/b ≤ 1` of the called genotype, whose other mass is
`(b-a)/b` (`gq_is_other_mass`): above the threshold `1 - 10^(-thr/10)` ⟹ `GQ ≥ thr`; `GQ > thr` ⟹ above the threshold -/
theorem threshold_agrees_with_gq (a b thr : Nat) (hb : 0 < b) (hthr : thr ≤ 10000) :
    (aboveThr a b thr = true → thr ≤ gqNat (b - a) b) ∧ (thr < gqNat (b - a) b → aboveThr a b thr = true) := by
  obtain ⟨hcap, hlow, hup⟩ := gq_is_rounded_phred_capped (b - a) b
  have hy : 0 < b ^ 10 := Nat.pow_pos hb
  have e20 : ∀ x : Nat, x ^ 20 = x ^ 10 * x ^ 10 := by intro x; ring
  constructor
  · intro h
    unfold aboveThr at h
    have hxy : (b - a) ^ 10 * 10 ^ thr < b ^ 10 := by simpa using h
    by_contra hlt
    have hlt' : gqNat (b - a) b < thr := by omega
    have hc := hup (by omega)
    -- but the condition fails for every m < thr
    have hpow : 10 ^ (2 * gqNat (b - a) b + 1) ≤ 10 ^ thr * 10 ^ thr := by
      rw [← Nat.pow_add]; exact Nat.pow_le_pow_right (by decide) (by omega)
    have h1 : (b - a) ^ 20 * 10 ^ (2 * gqNat (b - a) b + 1) ≤ ((b - a) ^ 10 * 10 ^ thr) * ((b - a) ^ 10 * 10 ^ thr) := by
      rw [e20]
      calc (b - a) ^ 10 * (b - a) ^ 10 * 10 ^ (2 * gqNat (b - a) b + 1)
          ≤ (b - a) ^ 10 * (b - a) ^ 10 * (10 ^ thr * 10 ^ thr) := Nat.mul_le_mul_left _ hpow
        _ = (b - a) ^ 10 * 10 ^ thr * ((b - a) ^ 10 * 10 ^ thr) := by ring
    have h2 : ((b - a) ^ 10 * 10 ^ thr) * ((b - a) ^ 10 * 10 ^ thr) < b ^ 10 * b ^ 10 := Nat.mul_lt_mul'' hxy hxy
    rw [e20 b] at hc
    omega
  · intro h
    have hc := hlow thr h
    unfold aboveThr
    simp only [decide_eq_true_eq]
    by_contra hge
    have hge' : b ^ 10 ≤ (b - a) ^ 10 * 10 ^ thr := Nat.le_of_not_gt hge
    have h1 : b ^ 10 * b ^ 10 ≤ ((b - a) ^ 10 * 10 ^ thr) * ((b - a) ^ 10 * 10 ^ thr) := Nat.mul_le_mul hge' hge'
    have h2 : (b - a) ^ 20 * 10 ^ (2 * thr + 1) = ((b - a) ^ 10 * 10 ^ thr) * ((b - a) ^ 10 * 10 ^ thr) * 10 := by
      rw [e20, Nat.pow_succ, Nat.two_mul, Nat.pow_add]; ring
    rw [h2, e20 b] at hc
    have : 0 < b ^ 10 * b ^ 10 := Nat.mul_pos hy hy
    omega

example : aboveThr 999 1000 20 = true ∧ gqNat (1000 - 999) 1000 = 30 ∧ aboveThr 99 100 20 = false ∧ gqNat (100 - 99) 100 = 20 := by
  decide +kernel

/-- **GL is monotone in the likelihood and bounded below by the floor** (`-1000`, also the value for likelihood 0),
for any monotone `log10` -/
theorem gl_monotone_and_floored [LinearOrder K] [Zero K] (lg : K → K) (floor : K)
    (hlg : ∀ x y, 0 < x → x ≤ y → lg x ≤ lg y) (l l' : K) (h : l ≤ l') :
    glOf lg floor l ≤ glOf lg floor l' ∧ floor ≤ glOf lg floor l ∧ (¬ 0 < l → glOf lg floor l = floor) := by
  have hfl : ∀ x, floor ≤ glOf lg floor x := by
    intro x; unfold glOf
    split
    · split
      · exact le_refl _
      · rename_i h2; exact le_of_not_gt h2
    · exact le_refl _
  refine ⟨?_, hfl l, fun h0 => by unfold glOf; rw [if_neg h0]⟩
  by_cases h0 : 0 < l
  · have h0' : 0 < l' := lt_of_lt_of_le h0 h
    have hm := hlg l l' h0 h
    unfold glOf
    rw [if_pos h0, if_pos h0']
    by_cases c1 : lg l < floor
    · rw [if_pos c1]
      by_cases c2 : lg l' < floor
      · rw [if_pos c2]
      · rw [if_neg c2]; exact le_of_not_gt c2
    · rw [if_neg c1]
      have c2 : ¬ lg l' < floor := fun c2 => c1 (lt_of_le_of_lt hm c2)
      rw [if_neg c2]; exact hm
  · have : glOf lg floor l = floor := by unfold glOf; rw [if_neg h0]
    rw [this]; exact hfl l'

example : glOf (fun x : Rat => x - 1) (-1000) (1 / 2) = -1 / 2 ∧ glOf (fun x : Rat => x - 1) (-1000) 0 = -1000 := by decide +kernel

/-- **GT is the argmax of the written GLs**: when `determine_genotype` calls `g` (unique maximum above the threshold,
`gt_is_unique_max_above_threshold`), no other genotype has a larger GL, and a strictly smaller one unless the called GL
itself sits on the floor -/
theorem gt_is_argmax_of_gl [LinearOrder K] [Zero K] (lg : K → K) (floor : K)
    (hlg : ∀ x y, 0 < x → x < y → lg x < lg y) (l : Nat → K) (thr : K) (g : Nat)
    (hcall : determineGenotype (l 0) (l 1) (l 2) thr = some g) (g' : Nat) (hg' : g' < 3) (hne : g' ≠ g) :
    glOf lg floor (l g') ≤ glOf lg floor (l g) ∧
      (0 < l g → floor < lg (l g) → glOf lg floor (l g') < glOf lg floor (l g)) := by
  obtain ⟨_, _, hmax⟩ := (gt_is_unique_max_above_threshold l thr g).mp hcall
  have hlt := hmax g' hg' hne
  have hmono : ∀ x y : K, 0 < x → x ≤ y → lg x ≤ lg y := by
    intro x y hx hxy
    rcases lt_or_eq_of_le hxy with h | h
    · exact le_of_lt (hlg x y hx h)
    · rw [h]
  refine ⟨(gl_monotone_and_floored lg floor hmono _ _ (le_of_lt hlt)).1, fun h0 hfl => ?_⟩
  have hg : glOf lg floor (l g) = lg (l g) := by
    unfold glOf; rw [if_pos h0, if_neg (not_lt_of_gt hfl)]
  rw [hg]
  unfold glOf
  by_cases h0' : 0 < l g'
  · rw [if_pos h0']
    have := hlg _ _ h0' hlt
    split
    · exact hfl
    · exact this
  · rw [if_neg h0']; exact hfl

example : determineGenotype (1/10 : Rat) (7/10) (2/10) (1/2) = some 1 := by decide +kernel

/-! ## non-vacuity: a concrete instance, exact rational arithmetic (kernel evaluation) -/

example : exInst.WF = true := by decide
example : total exInst.frame (exInst.weights exParams) exScal 1 ≠ 0 := by decide +kernel
/-- the theorem's two sides evaluated independently (scaled model vs. plain enumeration): equal, and not trivial -/
example : likelihood exInst exParams exScal 1 0 1 = posterior exInst exParams 1 0 1 := by decide +kernel
example : likelihood exInst exParams exScal 1 0 1 ≠ 1 / 3 := by decide +kernel
/-- the hypotheses of the theorems are satisfiable together -/
example : likelihood exInst exParams exScal 1 0 1 = posterior exInst exParams 1 0 1 :=
  forward_backward_posterior exInst exParams exScal (by decide) exScal_nonZero 1 (by decide) 0 1
example : likelihood exInst exParams exScal 1 0 2 = likelihood exInst exParams Scal.one 1 0 2 :=
  scaling_irrelevant exInst exParams exScal Scal.one exScal_nonZero Scal.one_nonZero 1 0 2
example : ∑ g ∈ range 3, likelihood exInst exParams exScal 1 0 g = 1 :=
  likelihoods_sum_to_one exInst exParams exScal 1 0 (by decide +kernel)
example : exParams.Pos := exParams_pos
/-- the explicit factor on the concrete instance: hypotheses satisfiable, factor not 1 -/
example : (1 : Nat) < exInst.frame.nCols := by decide
example : fbFactor exScal exInst.frame.nCols 1 ≠ 1 := by decide +kernel
example : total exInst.frame (exInst.weights exParams) exScal 1 =
    fbFactor exScal exInst.frame.nCols 1 * total exInst.frame (exInst.weights exParams) Scal.one 1 :=
  (scaled_equals_unscaled_times_factors exInst.frame (exInst.weights exParams) exScal 1 (by decide)).2.2.2
example : (∀ g, 0 ≤ likelihood exInst exParams exScal 1 0 g) ∧ ∑ g ∈ range 3, likelihood exInst exParams exScal 1 0 g = 1 :=
  likelihoods_are_distribution exInst exParams exScal (by decide) exParams_pos exScal_nonZero 1 (by decide) 0
example : gqMass (likelihood exInst exParams exScal 1 0) 1 = 1 - posterior exInst exParams 1 0 1 :=
  gq_is_posterior_complement exInst exParams exScal (by decide) exScal_nonZero 1 (by decide) 0 1 (by decide) (by decide +kernel)
/-- a trio satisfies the guard as well (mother 0, father 1, child 2) -/
example : ({ nCols := 2, nInd := 3, triples := [(1, 0, 2)],
             reads := [⟨0, [(0, 0, 10), (1, 1, 20)]⟩, ⟨2, [(0, 1, 10), (1, 1, 30)]⟩] } : Inst).WF = true := by decide


/-! ## Round 10: the implementation-structured model (`Model/C08Impl.lean`) refines the clean one -/

section Impl
open WhVerif.C08.Impl WhVerif.C01

/-- **The incremental cost computer is the direct product.**  Walk one `GenotypeColumnCostComputer` along the Gray
codes exactly as the column loops do (`set_partitioning` for the first code, then `update_partitioning(bit)`:
multiply the read's two factors into its new partition, divide them out of the old one; BLANK: nothing).  After
any number of steps `get_cost(a)` – the product over the partitions of `cost_partition[p][(a>>p)&1]` – is the
emission product of the clean model for the *current* Gray code, for every allele assignment.  Needs what the
divisions need: no emission factor is zero; and the partition numbers are below `pedigree_partitions.count()`. -/
theorem impl_cost_eq_model [Field K] (em : Nat → K) (parts : Nat → Nat × Nat) (nP : Nat) (col : List Ent)
    (hne : ∀ e ∈ col, ∀ ind alt q, e = some (ind, alt, q) → em q ≠ 0 ∧ 1 - em q ≠ 0)
    (hP : ∀ e ∈ col, ∀ ind alt q, e = some (ind, alt, q) → (parts ind).1 < nP ∧ (parts ind).2 < nP)
    (k idx : Nat) (bit : Int) (hk : (grayList col.length)[k]? = some (idx, bit)) (a : Nat) :
    getCost nP (ccWalk em parts nP col k) a = emitCol em parts a col (bitsOf col.length idx) := by
  have hlt : k < 2 ^ col.length := by
    have := (List.getElem?_eq_some_iff.mp hk).1
    rwa [grayList_length] at this
  rw [grayList_getElem? _ _ hlt] at hk
  obtain ⟨rfl, -⟩ := Prod.mk.inj (Option.some.inj hk)
  exact getCost_of_inv em parts nP col _ _ a hP (ccWalk_inv em parts nP col hne k hlt)

-- non-vacuity: a column with a blank entry, two partitions, the 6th Gray code (`0b101`)
example : (grayList 3)[6]? = some (5, 1) := by decide +kernel
example : getCost 2 (ccWalk (fun q => (1 : Rat) / (q + 2)) (fun _ => (0, 1)) 2 [some (0, true, 1), none, some (0, false, 3)] 6) 1
    = emitCol (fun q => (1 : Rat) / (q + 2)) (fun _ => (0, 1)) 1 [some (0, true, 1), none, some (0, false, 3)] (bitsOf 3 5) := by
  decide +kernel
/-- the quirk that makes the incremental route necessary: `set_partitioning(p)` does not shift `p` on BLANK entries, so
called with the same code `5` it puts the third read on the wrong side (the code only ever calls it with `p = 0`) -/
example : getCost 2 (setPartitioning (fun q => (1 : Rat) / (q + 2)) (fun _ => (0, 1)) 2 [some (0, true, 1), none, some (0, false, 3)] 5) 1
    ≠ emitCol (fun q => (1 : Rat) / (q + 2)) (fun _ => (0, 1)) 1 [some (0, true, 1), none, some (0, false, 3)] (bitsOf 3 5) := by
  decide +kernel

/-- **The projection index arithmetic is restriction to the shared reads.**  Along the Gray walk of a column with `n`
active reads the incrementally maintained `forward_projection` (xor with `1 << forward_projection_mask[bit]`, mask `-1`
ignored) is `gather fwdPos idx`: its bit `m` is the side of the read at the `m`-th shared position;
`get_backward_projection` / `index_backward_projection` (`idx & ((1 << w) - 1)`) is `idx % 2^w`: the sides of the first
`w` reads.  For a column of a frame and a global bipartition `β` this is the restriction of `β` to the reads shared
with the next column. -/
theorem impl_projection_is_restriction (n : Nat) (fwdPos : List Nat) (hnd : fwdPos.Nodup) (w k idx : Nat) (bit : Int)
    (hk : (grayList n)[k]? = some (idx, bit)) :
    fpWalk n fwdPos k = gather fwdPos idx ∧
    (∀ m (h : m < fwdPos.length), (fpWalk n fwdPos k).testBit m = idx.testBit fwdPos[m]) ∧
    bwdProj w idx = idx % 2 ^ w ∧
    (∀ m, (bwdProj w idx).testBit m = (decide (m < w) && idx.testBit m)) ∧
    (∀ (F : Frame) (c β : Nat), fwdPos = (F.col c).fwdPos → idx = gather (F.active c) β →
      fpWalk n fwdPos k = gather (F.shared c) β) := by
  have hlt : k < 2 ^ n := by
    have := (List.getElem?_eq_some_iff.mp hk).1
    rwa [grayList_length] at this
  rw [grayList_getElem? _ _ hlt] at hk
  obtain ⟨rfl, -⟩ := Prod.mk.inj (Option.some.inj hk)
  have h1 := fpWalk_eq n fwdPos hnd k hlt
  have hb : bwdProj w (gray k) = gray k % 2 ^ w := by
    unfold bwdProj; rw [Nat.one_shiftLeft, Nat.and_two_pow_sub_one_eq_mod]
  refine ⟨h1, ?_, hb, ?_, ?_⟩
  · intro m h; rw [h1, testBit_gather]; simp [h]
  · intro m; rw [hb, Nat.testBit_mod_two_pow]
  · intro F c β hF hidx; rw [h1, hF, hidx]; exact Frame.fwdProj_colIdx F c β

/-- the hypothesis holds for every column of every frame: `forward_projection_mask` is injective on the shared positions -/
theorem impl_projection_mask_injective (F : Frame) (c : Nat) : (F.col c).fwdPos.Nodup := Frame.col_fwdPos_nodup F c

example : (grayList 3)[5]? = some (7, 0) ∧ fpWalk 3 [0, 2] 5 = 3 ∧ gather [0, 2] 7 = 3 ∧ bwdProj 2 7 = 3 := by decide +kernel

/-- **The column loops carry exactly this walk.**  In the `while (iterator->has_next())` loops of
`compute_forward_column` / `compute_backward_column` (whatever their bodies accumulate) the iterator and the vector of
cost computers after `k+1` codes are the Gray walk: for every transmission value `t` the cost the body reads is the clean
model's emission of the current code, the forward projection it reads is the packed shared bits. -/
theorem impl_walk_in_sync [Field K] {β : Type} (X : ColCtx K) (body : Walk K → Nat → β → β) (a0 : β)
    (hlen : X.col.length = X.co.nAct) (hnd : X.co.fwdPos.Nodup)
    (hne : ∀ e ∈ X.col, ∀ ind alt q, e = some (ind, alt, q) → X.em q ≠ 0 ∧ 1 - X.em q ≠ 0)
    (hP : ∀ t, t < X.nT → ∀ e ∈ X.col, ∀ ind alt q, e = some (ind, alt, q) → (X.parts t ind).1 < X.nP ∧ (X.parts t ind).2 < X.nP)
    (k : Nat) (hk : k < 2 ^ X.co.nAct) :
    let w := (((grayList X.co.nAct).take (k + 1)).foldl
      (fun (s : Walk K × β) g => let w := Walk.step X s.1 g; (w, body w g.1 s.2)) (Walk.init X.nT, a0)).1
    w.fp = gather X.co.fwdPos (gray k) ∧
    ∀ t a, t < X.nT → Walk.cost X w t a = emitCol X.em (X.parts t) a X.col (bitsOf X.co.nAct (gray k)) := by
  intro w
  have hw : w = walkAfter X k := loop_fst X body _ _ _
  rw [hw]
  refine ⟨?_, ?_⟩
  · rw [walkAfter_fp, fpWalk_eq _ _ hnd k hk]
  · intro t a ht
    rw [walkAfter_cost X hlen k t a ht, ← hlen]
    exact getCost_of_inv _ _ _ _ _ _ a (hP t ht) (ccWalk_inv _ _ _ _ hne k (by rw [hlen]; exact hk))

/-- **`compute_backward_column` as coded = the clean model's backward step.**  The loop of `compute_backward_column(c)`,
`c > 0` – Gray order, incrementally updated cost computers and forward projection, scatter-adds
`current_projection_column->at(backward_projection, j) += backward_prob * local_cost * transition_prob`, the running
`scaling_sum`, the final `divide_entries_by(scaling_sum)` – produces entry for entry the gather sums `bwdStep` of the clean
model, with the code's own `scaling_sum` as the (arbitrary, see `scaling_irrelevant`) divisor `S.bw c`.  `X.Matches F W c`:
the loop reads the same emission / assignment / transition numbers as the clean `Weights` in column `c`. -/
theorem impl_backward_column_eq_model [Field K] (X : ColCtx K) (F : Frame) (W : Weights K) (S : Scal K) (c : Nat) (next : Array K)
    (hM : X.Matches F W c) (hc : c > 0) (hlen : X.col.length = X.co.nAct)
    (hne : ∀ e ∈ X.col, ∀ ind alt q, e = some (ind, alt, q) → X.em q ≠ 0 ∧ 1 - X.em q ≠ 0)
    (hP : ∀ t, t < X.nT → ∀ e ∈ X.col, ∀ ind alt q, e = some (ind, alt, q) → (X.parts t ind).1 < X.nP ∧ (X.parts t ind).2 < X.nP)
    (hS : S.bw c = (bwdColumn X next X.co.bwdW).2)
    (p j : Nat) (hp : p < 2 ^ (F.col c).bwdW) (hj : j < W.nT) :
    tblAt (bwdColumn X next X.co.bwdW).1 (p * W.nT + j) = tblAt (bwdStep F W S c next) (p * W.nT + j) :=
  bwdColumn_eq_bwdStep X F W S c next hM hc hlen hne hP hS p j hp hj

-- non-vacuity: a context that matches a `Weights` system built from it (column 1 of a two-column frame, two reads)
example : ∃ (X : ColCtx Rat) (F : Frame) (W : Weights Rat), X.Matches F W 1 ∧ X.col.length = X.co.nAct ∧ (1 : Nat) > 0 := by
  let F : Frame := { nCols := 2, nReads := 2, first := fun _ => 0, last := fun _ => 1 }
  let X : ColCtx Rat :=
    { c := 1
      nCols := 2
      co := F.col 1
      col := [some (0, true, 1), some (0, false, 2)]
      nT := 1
      nP := 2
      em := fun q => 1 / (q + 2)
      parts := fun _ _ => (0, 1)
      asg := fun _ _ => 1 / 4
      trans := fun _ _ => 1 }
  let W : Weights Rat :=
    { nT := 1
      nA := 4
      emit := fun _ bits t a => emitCol X.em (X.parts t) a X.col bits
      asg := fun _ _ _ => 1 / 4
      trans := fun _ _ _ => 1 }
  exact ⟨X, F, W, ⟨rfl, rfl, rfl, rfl, rfl, fun _ _ => rfl, fun _ _ => rfl, fun _ _ _ _ => rfl⟩, by decide, by decide⟩

end Impl


/-! ## the glue of `run_genotype`: which prior reaches which column of the DP -/

section Glue
open WhVerif.C08.Glue

/-- **Prior columns are aligned with the HMM columns.**  `run_genotype` hands `Pedigree.add_individual` the list
`[all_genotype_likelihoods[var_to_pos[a_p]] for a_p in accessible_positions]`; the C++ core reads prior number `i` for
column `i`.  For VCF records at pairwise different positions, one prior per record and accessible positions that are
positions of records (any subset, any number of inaccessible variants before / between / after): no `KeyError`, one
prior per column, and column `i` carries the prior of the record at accessible position `i`. -/
theorem prior_columns_aligned {α : Type} (positions : List Nat) (all : List α) (acc : List Nat)
    (hnd : positions.Nodup) (hlen : all.length = positions.length) (hsub : ∀ a ∈ acc, a ∈ positions) :
    ∃ cols, priorColumns positions all acc = some cols ∧ cols.length = acc.length ∧
      ∀ i j (hi : i < acc.length) (hj : j < positions.length), positions[j] = acc[i] → cols[i]? = all[j]? :=
  priorColumns_aligned positions all acc hnd hlen hsub

example : priorColumns [1000, 5000, 5020, 5040] ["p0", "p1", "p2", "p3"] [5000, 5020, 5040] = some ["p1", "p2", "p3"] := by decide

/-- … and handing over the complete per-record list instead (seed C08-i) misaligns as soon as one inaccessible variant
precedes an accessible one: if column `i` stands for record `j ≠ i` and the priors of the records differ, column `i` gets
the wrong prior. -/
theorem full_prior_list_misaligned {α : Type} (all : List α) (hnd : all.Nodup) (i j : Nat) (hj : j < all.length) (hij : i ≠ j) :
    (priorColumnsFull all)[i]? ≠ all[j]? := by
  unfold priorColumnsFull
  intro e
  have hi : i < all.length := by
    by_contra h
    rw [List.getElem?_eq_none (by omega), List.getElem?_eq_getElem hj] at e
    exact absurd e (by simp)
  rw [List.getElem?_eq_getElem hi, List.getElem?_eq_getElem hj] at e
  exact hij ((List.Nodup.getElem_inj_iff hnd).mp (Option.some.inj e))

-- the demo of the seed: record 0 is isolated, column 0 is record 1, the full list puts "p0" there
example : (priorColumnsFull ["p0", "p1", "p2", "p3"])[0]? = some "p0" ∧
    (priorColumns [1000, 5000, 5020, 5040] ["p0", "p1", "p2", "p3"] [5000, 5020, 5040]).map (·[0]?) = some (some "p1") := by decide

end Glue

end WhVerif.Props.C08

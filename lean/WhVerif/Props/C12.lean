import WhVerif.Model.C12
namespace WhVerif.Props.C12
open WhVerif.C12
/-- `__iadd__` adds the variant counters -/
theorem addStats_variants (a b : Stats) : (addStats a b).variants = a.variants + b.variants := rfl
end WhVerif.Props.C12

import WhVerif.Model.C12
import WhVerif.Spec.C12
import WhVerif.Lemmas.C12
/-!
# C12 — stats counts add up and describe the phase sets present in the file

`chromStats f vars` = `get_phase_blocks` + `add_blocks` for the variants `vars` of one chromosome (as produced by
`readChrom`), `detailed` = `get_detailed_stats`, `addStats` = `__iadd__`, `blockList` = `write_to_block_list`.
`f.fixMissing` / `f.fixPs` select the behaviour after `fixes/F5.patch` / `fixes/F5b.patch`; theorems without a
hypothesis on `f` hold for HEAD as well.
-/
namespace WhVerif.Props.C12
open WhVerif.C12 WhVerif.Lemmas.C12

/-- **sum_identity**: phased + unphased + singletons = heterozygous variants (the `assert` in `DetailedStats.print`),
for HEAD and for the repaired code. -/
theorem sum_identity (f : Flags) (vars : List Var) (s : Stats) (h : chromStats f vars = some s) :
    (detailed s).phased + (detailed s).unphased + (detailed s).singletons = (detailed s).het := by
  obtain ⟨hb, _, hu, _, hh, _⟩ := chromStats_fields f vars s h
  obtain ⟨_, d2, d3, _, d5, d6, _⟩ := detailed_fields s
  rw [d6, d2, d5, d3, hu, hh, hb]
  have h1 := big_sum_eq (phasedOf f vars)
  have h2 := singletons_eq (phasedOf f vars)
  have h3 := phased_plus_singletons (phasedOf f vars)
  have h4 : (phasedOf f vars).length = ((considered f vars).filter (fun v => v.phase.isSome)).length := by
    unfold phasedOf
    exact length_filterMap_phase _ (fun v id => (id, (v.pos, v.snv)))
  have h5 := length_filter_none_some (considered f vars)
  unfold bigOf
  rw [h1, h2]
  omega

/-- **block_sizes_sum**: the per-block sizes (> 1) sum to `phased` (= `variant_per_block_sum`). -/
theorem block_sizes_sum (s : Stats) : (detailed s).sizes.sum = (detailed s).phased := by
  obtain ⟨_, _, _, _, _, d6, d7, _⟩ := detailed_fields s
  rw [d6, d7]

/-- … and so do the sizes > 1 listed in the block list -/
theorem block_list_sizes_sum (f : Flags) (vars : List Var) (s : Stats) (h : chromStats f vars = some s)
    (rows : List (BlockId × Nat × Nat × Nat)) (hr : blockList (blocksOf (phasedOf f vars)) = .ok rows) :
    ((rows.map (·.2.2.2)).filter (fun n => decide (n > 1))).sum = (detailed s).phased := by
  obtain ⟨hb, _⟩ := chromStats_fields f vars s h
  obtain ⟨_, _, _, _, _, d6, _⟩ := detailed_fields s
  rw [d6, hb]
  unfold blockList at hr
  split at hr
  · cases hr
  · cases hr
    have hp := List.mergeSort_perm (blocksOf (phasedOf f vars)) (fun a b => idLe a.1 b.1)
    have h1 : ((List.map (fun (p : BlockId × Block) => (p.1, lo p.2 + 1, hi p.2 + 1, p.2.length))
        ((blocksOf (phasedOf f vars)).mergeSort (fun a b => idLe a.1 b.1))).map (·.2.2.2))
        = (((blocksOf (phasedOf f vars)).mergeSort (fun a b => idLe a.1 b.1)).map (·.2)).map List.length := by
      simp [List.map_map, Function.comp_def]
    rw [h1]
    have h2 : ((((blocksOf (phasedOf f vars)).mergeSort (fun a b => idLe a.1 b.1)).map (·.2)).map List.length).Perm
        (((blocksOf (phasedOf f vars)).map (·.2)).map List.length) := (hp.map _).map _
    rw [(h2.filter _).sum_nat]
    unfold bigOf
    rw [List.filter_map]
    rfl

/-- **block_list_exact**: the block list has exactly one row per phase set occurring among the phased calls, sorted by
id, and a row states the true first position, last position (1-based) and size of its phase set. -/
theorem block_list_exact (ph : List (BlockId × Member)) (rows : List (BlockId × Nat × Nat × Nat))
    (hr : blockList (blocksOf ph) = .ok rows) :
    (rows.map (·.1)).Perm (dedupIds (ph.map (·.1))) ∧ (rows.map (·.1)).Nodup ∧
    (∀ id, id ∈ rows.map (·.1) ↔ ∃ x ∈ ph, x.1 = id) ∧
    (rows.map (·.1)).Pairwise (fun a b => idLe a b = true) ∧
    ∀ row ∈ rows,
      row.2.2.2 = cnt ph row.1 ∧
      (∀ x ∈ ph, x.1 = row.1 → row.2.1 ≤ x.2.1 + 1 ∧ x.2.1 + 1 ≤ row.2.2.1) ∧
      (∃ x ∈ ph, x.1 = row.1 ∧ x.2.1 + 1 = row.2.1) ∧ (∃ x ∈ ph, x.1 = row.1 ∧ x.2.1 + 1 = row.2.2.1) := by
  unfold blockList at hr
  split at hr
  · cases hr
  · cases hr
    have hp := List.mergeSort_perm (blocksOf ph) (fun a b => idLe a.1 b.1)
    have hids : ((List.map (fun (p : BlockId × Block) => (p.1, lo p.2 + 1, hi p.2 + 1, p.2.length))
        ((blocksOf ph).mergeSort (fun a b => idLe a.1 b.1))).map (·.1))
        = ((blocksOf ph).mergeSort (fun a b => idLe a.1 b.1)).map (·.1) := by
      simp [List.map_map, Function.comp_def]
    have hbl : (blocksOf ph).map (·.1) = dedupIds (ph.map (·.1)) := by
      simp [blocksOf, List.map_map, Function.comp_def]
    have hperm : (((blocksOf ph).mergeSort (fun a b => idLe a.1 b.1)).map (·.1)).Perm (dedupIds (ph.map (·.1))) := by
      rw [← hbl]; exact hp.map _
    refine ⟨by rw [hids]; exact hperm, by rw [hids]; exact hperm.nodup_iff.mpr (nodup_dedupIds _), ?_, ?_, ?_⟩
    · intro id
      rw [hids, hperm.mem_iff, mem_dedupIds, List.mem_map]
    · rw [hids, List.pairwise_map]
      exact List.pairwise_mergeSort (le := fun (a b : BlockId × Block) => idLe a.1 b.1)
        (by
          intro a b c h1 h2
          cases ha : a.1 <;> cases hb : b.1 <;> cases hc : c.1 <;> simp_all [idLe]
          omega)
        (by
          intro a b
          cases ha : a.1 <;> cases hb : b.1 <;> simp [idLe]
          omega) _
    · intro row hrow
      obtain ⟨p, hpm, rfl⟩ := List.mem_map.mp hrow
      have hpm' : p ∈ blocksOf ph := hp.mem_iff.mp hpm
      obtain ⟨id, hid, rfl⟩ := List.mem_map.mp hpm'
      have hidm : ∃ x ∈ ph, x.1 = id := by
        have := (mem_dedupIds _ _).mp hid
        obtain ⟨x, hx, rfl⟩ := List.mem_map.mp this
        exact ⟨x, hx, rfl⟩
      -- the block is non-empty and consists exactly of the members with this id
      have hmem : ∀ m, m ∈ (ph.filter (fun q => q.1 == id)).map (·.2) ↔ ∃ x ∈ ph, x.1 = id ∧ x.2 = m := by
        intro m
        simp only [List.mem_map, List.mem_filter, beq_iff_eq]
        constructor
        · rintro ⟨x, ⟨hx, hxi⟩, rfl⟩; exact ⟨x, hx, hxi, rfl⟩
        · rintro ⟨x, hx, hxi, rfl⟩; exact ⟨x, ⟨hx, hxi⟩, rfl⟩
      have hne : (ph.filter (fun q => q.1 == id)).map (·.2) ≠ [] := by
        obtain ⟨x, hx, hxi⟩ := hidm
        intro he
        have : x.2 ∈ (ph.filter (fun q => q.1 == id)).map (·.2) := (hmem x.2).mpr ⟨x, hx, hxi, rfl⟩
        rw [he] at this; cases this
      refine ⟨by simp [cnt], ?_, ?_, ?_⟩
      · intro x hx hxi
        have hm : x.2 ∈ (ph.filter (fun q => q.1 == id)).map (·.2) := (hmem x.2).mpr ⟨x, hx, hxi, rfl⟩
        have h1 := lo_le _ _ hm
        have h2 := le_hi _ _ hm
        simp only; omega
      · obtain ⟨m, hm, hme⟩ := lo_mem _ hne
        obtain ⟨x, hx, hxi, rfl⟩ := (hmem m).mp hm
        exact ⟨x, hx, hxi, by simp only; omega⟩
      · obtain ⟨m, hm, hme⟩ := hi_mem _ hne
        obtain ⟨x, hx, hxi, rfl⟩ := (hmem m).mp hm
        exact ⟨x, hx, hxi, by simp only; omega⟩

/-! ### non-overlapping pieces -/

/-- **nonoverlap_terminates**: `get_nonoverlapping_blocks` finishes within (number of variants in blocks of size > 1) + 1
iterations — each iteration removes one block from the queue and puts back at most a strictly smaller piece of it. -/
theorem nonoverlap_terminates (blocks : List Block) : (nonoverlap blocks).isSome = true := by
  obtain ⟨h1, h2⟩ := bigOf_sorted_nonempty blocks
  exact loop_terminates _ _ h1 h2 (Nat.lt_succ_self _)

/-- **nonoverlap_disjoint**: the pieces are non-empty, consist of variants of the blocks, and are pairwise disjoint
intervals: in output order each piece ends before the next begins. -/
theorem nonoverlap_disjoint (blocks out : List Block) (h : nonoverlap blocks = some out) :
    out.Pairwise (fun a b => hi a ≤ lo b) ∧
    ∀ p ∈ out, p ≠ [] ∧ ∀ m ∈ p, ∃ b ∈ blocks, b.length > 1 ∧ m ∈ b := by
  obtain ⟨h1, h2⟩ := bigOf_sorted_nonempty blocks
  obtain ⟨h3, h4⟩ := loop_inv _ _ out h1 h2 h
  refine ⟨h4, ?_⟩
  intro p hp
  obtain ⟨hpne, hpm⟩ := h3 p hp
  refine ⟨hpne, ?_⟩
  intro m hm
  obtain ⟨b, hb, hmb⟩ := hpm m hm
  have := (sortBlocks_perm _).mem_iff.mp hb
  have hb' := List.mem_filter.mp this
  exact ⟨b, hb'.1, by simpa using hb'.2, hmb⟩

/-- **length_sum_le_span**: the block lengths reported for a chromosome (sum of the spans of the non-overlapping
pieces) never exceed the span covered by its phased variants: if all lie in `[L, H]` then `bp_per_block_sum ≤ H - L`. -/
theorem length_sum_le_span (f : Flags) (vars : List Var) (s : Stats) (h : chromStats f vars = some s) (L H : Nat)
    (hLH : L ≤ H) (hb : ∀ v ∈ vars, L ≤ v.pos ∧ v.pos ≤ H) : (detailed s).bpSum + L ≤ H := by
  obtain ⟨hbl, hn, _⟩ := chromStats_fields f vars s h
  obtain ⟨_, _, _, _, _, _, _, _, _, d10⟩ := detailed_fields s
  rw [d10]
  split
  · simpa using hLH
  · obtain ⟨hc, hfrom⟩ := nonoverlap_disjoint _ _ hn
    have hc' : (bigOf s.splitBlocks).Pairwise (fun a b => hi a ≤ lo b) := hc.filter _
    apply chain_sum_le H _ L hLH hc'
    intro p hp
    obtain ⟨hpne, hpm⟩ := hfrom p (List.mem_filter.mp hp).1
    refine ⟨hpne, ?_⟩
    intro m hm
    obtain ⟨b, hbm, _, hmb⟩ := hpm m hm
    -- a member of a block is the position of a variant
    rw [hbl] at hbm
    obtain ⟨pb, hpb, rfl⟩ := List.mem_map.mp hbm
    obtain ⟨id, _, rfl⟩ := List.mem_map.mp hpb
    obtain ⟨x, hx, rfl⟩ := List.mem_map.mp hmb
    have hx' := (List.mem_filter.mp hx).1
    unfold phasedOf at hx'
    obtain ⟨v, hv, hvx⟩ := List.mem_filterMap.mp hx'
    have hvv : v ∈ vars := (List.mem_filter.mp hv).1
    cases hph : v.phase with
    | none => rw [hph] at hvx; simp at hvx
    | some i =>
      rw [hph] at hvx
      simp only [Option.map_some, Option.some.injEq] at hvx
      subst hvx
      exact hb v hvv

/-! ### independent counts (repaired code) -/

/-- **counts_eq_independent**: after `fixes/F5.patch` the numbers of a chromosome row equal the independent counts over
its variants: variants, heterozygous variants and SNVs, unphased, phased (calls in phase sets of ≥ 2), singletons
(calls alone in their phase set), blocks (phase sets of ≥ 2) and phased SNVs. -/
theorem counts_eq_independent (f : Flags) (hf : f.fixMissing = true) (vars : List Var) (s : Stats)
    (h : chromStats f vars = some s) :
    (detailed s).variants = specVariants vars ∧ (detailed s).het = specHet vars ∧
    (detailed s).hetSnvs = specHetSnvs vars ∧ (detailed s).unphased = specUnphased vars ∧
    (detailed s).phased = specPhased vars ∧ (detailed s).singletons = specSingletons vars ∧
    (detailed s).blocks = specBlocks vars ∧ (detailed s).phasedSnvs = specPhasedSnvs vars := by
  obtain ⟨hb, _, hu, hv, hh, hs⟩ := chromStats_fields f vars s h
  obtain ⟨d1, d2, d3, d4, d5, d6, _, d8, d9, _⟩ := detailed_fields s
  have hcons := considered_fix f hf vars
  have hcnt : ∀ id, cnt (phasedOf f vars) id = setSize vars id := cnt_phasedOf f hf vars
  -- the phased calls filtered by a predicate on the size of their set
  have hsize : ∀ (P : Nat → Bool) (w : Var → Bool),
      ((phasedOf f vars).filter (fun x => P (cnt (phasedOf f vars) x.1) && w ⟨x.2.1, x.2.2, .het, none⟩)).length
        = (vars.filter (fun v => inSetOfSize vars P v && w ⟨v.pos, v.snv, .het, none⟩)).length := by
    intro P w
    unfold phasedOf
    rw [hcons, filterMap_phase_filter (vars.filter isHet) (fun v => (v.pos, v.snv))
      (fun x => P (cnt ((vars.filter isHet).filterMap (fun v => v.phase.map (fun id => (id, (v.pos, v.snv))))) x.1)
        && w ⟨x.2.1, x.2.2, .het, none⟩), List.filter_filter]
    congr 1
    apply List.filter_congr
    intro v _
    have hc : ∀ id, cnt ((vars.filter isHet).filterMap (fun v => v.phase.map (fun id => (id, (v.pos, v.snv))))) id
        = setSize vars id := by
      intro id
      have := hcnt id
      unfold phasedOf at this
      rw [hcons] at this
      exact this
    unfold inSetOfSize
    cases hp : v.phase with
    | none => simp
    | some id => simp only [hc id]; cases isHet v <;> cases P (setSize vars id) <;> simp
  refine ⟨by rw [d1, hv]; rfl, by rw [d3, hh, hcons]; rfl, ?_, ?_, ?_, ?_, ?_, ?_⟩
  · rw [d4, hs, hcons, List.filter_filter]
    unfold specHetSnvs
    congr 1
    apply List.filter_congr
    intro v _
    exact Bool.and_comm _ _
  · rw [d2, hu, hcons, List.filter_filter]
    unfold specUnphased
    congr 1
    apply List.filter_congr
    intro v _
    exact Bool.and_comm _ _
  · rw [d6, hb]
    have h1 := big_sum_eq (phasedOf f vars)
    unfold bigOf
    rw [h1]
    have := hsize (fun n => decide (n > 1)) (fun _ => true)
    simp only [Bool.and_true] at this
    exact this
  · rw [d5, hb, singletons_eq]
    have := hsize (fun n => n == 1) (fun _ => true)
    simp only [Bool.and_true] at this
    exact this
  · rw [d8, hb, blocksOf_big_length, phasedOf_ids, hcons]
    unfold specBlocks specIds
    congr 1
    apply List.filter_congr
    intro id _
    rw [hcnt id]
  · rw [d9, hb, blocksOf_snvs]
    exact hsize (fun n => decide (n > 1)) (fun v => v.snv)

/-! ### the ALL row -/

/-- **all_row_is_sum**: for the additive columns (variants, phased, unphased, singletons, blocks, variant_per_block_sum,
bp_per_block_sum, heterozygous variants, heterozygous SNVs, phased SNVs) the row of the aggregated statistics equals the
column-wise sum of the rows of the aggregated chromosomes.  (Medians, averages, minima, maxima, fractions and NG50 are not
additive and are not covered.) -/
theorem all_row_is_sum (ss : List Stats) (hc : ∀ s ∈ ss, s.Consistent) :
    (detailed (ss.foldl addStats {})).additive
      = (ss.map (fun s => (detailed s).additive)).foldl addVec (detailed ({} : Stats)).additive := by
  have gen : ∀ (ss : List Stats) (acc : Stats), acc.Consistent → (∀ s ∈ ss, s.Consistent) →
      (detailed (ss.foldl addStats acc)).additive
        = (ss.map (fun s => (detailed s).additive)).foldl addVec (detailed acc).additive := by
    intro ss
    induction ss with
    | nil => intro acc _ _; rfl
    | cons s t ih =>
      intro acc hacc hall
      have hs := hall s (List.mem_cons_self ..)
      simp only [List.foldl_cons, List.map_cons]
      rw [ih (addStats acc s) (consistent_add acc s hacc hs) (fun x hx => hall x (List.mem_cons_of_mem _ hx)),
        additive_add acc s hacc hs]
  exact gen ss {} consistent_empty hc

/-- every per-chromosome statistics object satisfies the consistency hypothesis of `all_row_is_sum` -/
theorem chrom_consistent (f : Flags) (vars : List Var) (s : Stats) (h : chromStats f vars = some s) : s.Consistent :=
  chromStats_consistent f vars s h

/-- the aggregated row also satisfies the sum identity -/
theorem sum_identity_all (f : Flags) (varss : List (List Var)) (ss : List Stats)
    (h : varss.mapM (chromStats f) = some ss) :
    (detailed (ss.foldl addStats {})).phased + (detailed (ss.foldl addStats {})).unphased
      + (detailed (ss.foldl addStats {})).singletons = (detailed (ss.foldl addStats {})).het := by
  -- every element satisfies the identity and is consistent
  have hall : ∀ s ∈ ss, s.Consistent ∧
      (detailed s).phased + (detailed s).unphased + (detailed s).singletons = (detailed s).het := by
    have : ∀ (varss : List (List Var)) (ss : List Stats), varss.mapM (chromStats f) = some ss →
        ∀ s ∈ ss, ∃ vars, chromStats f vars = some s := by
      intro varss
      induction varss with
      | nil => intro ss h s hs; simp at h; subst h; cases hs
      | cons v t ih =>
        intro ss h s hs
        rw [List.mapM_cons] at h
        cases hv : chromStats f v with
        | none => rw [hv] at h; simp at h
        | some s0 =>
          rw [hv] at h
          cases ht : t.mapM (chromStats f) with
          | none => rw [ht] at h; simp at h
          | some ss0 =>
            rw [ht] at h
            simp at h
            subst h
            rcases List.mem_cons.mp hs with rfl | hs'
            · exact ⟨v, hv⟩
            · exact ih ss0 ht s hs'
    intro s hs
    obtain ⟨vars, hv⟩ := this varss ss h s hs
    exact ⟨chromStats_consistent f vars s hv, sum_identity f vars s hv⟩
  -- the identity is preserved by aggregation
  have gen : ∀ (ss : List Stats) (acc : Stats), acc.Consistent →
      (detailed acc).phased + (detailed acc).unphased + (detailed acc).singletons = (detailed acc).het →
      (∀ s ∈ ss, s.Consistent ∧ (detailed s).phased + (detailed s).unphased + (detailed s).singletons = (detailed s).het) →
      (detailed (ss.foldl addStats acc)).phased + (detailed (ss.foldl addStats acc)).unphased
        + (detailed (ss.foldl addStats acc)).singletons = (detailed (ss.foldl addStats acc)).het := by
    intro ss
    induction ss with
    | nil => intro acc _ hid _; exact hid
    | cons s t ih =>
      intro acc hacc hid hall
      obtain ⟨hsc, hsid⟩ := hall s (List.mem_cons_self ..)
      simp only [List.foldl_cons]
      apply ih (addStats acc s) (consistent_add acc s hacc hsc) ?_ (fun x hx => hall x (List.mem_cons_of_mem _ hx))
      have hadd := additive_add acc s hacc hsc
      simp only [Row.additive, addVec, List.zipWith_cons_cons, List.zipWith_nil_right, List.cons.injEq] at hadd
      obtain ⟨_, e2, e3, e4, _, _, _, e8, _⟩ := hadd
      omega
  exact gen ss {} consistent_empty (by decide) hall

/-! ### non-vacuity, defect witnesses on the faithful model -/

/-- the hypothesis `chromStats f vars = some s` of the theorems above is always satisfiable (the fuel suffices) -/
theorem chromStats_total (f : Flags) (vars : List Var) : ∃ s, chromStats f vars = some s := by
  unfold chromStats
  have := nonoverlap_terminates ((blocksOf (phasedOf f vars)).map (·.2))
  cases hn : nonoverlap ((blocksOf (phasedOf f vars)).map (·.2)) with
  | none => rw [hn] at this; cases this
  | some sb => simp only [hn, Option.map_some]; exact ⟨_, rfl⟩

/-- F5: in HEAD a call without genotype (`./.`) is counted heterozygous and unphased; the independent count says 0 -/
example : (chromStats ⟨false, false⟩ [⟨10, true, .missing, none⟩]).map (fun s => ((detailed s).het, (detailed s).unphased))
    = some (1, 1) ∧ specHet [⟨10, true, .missing, none⟩] = 0 := by
  constructor
  · simp [chromStats, considered, phasedOf, blocksOf, dedupIds, nonoverlap, bigOf, sortBlocks, nonoverlapLoop, totalLen, detailed]
  · decide
/-- … after fixes/F5.patch it is not -/
example : (chromStats ⟨true, false⟩ [⟨10, true, .missing, none⟩]).map (fun s => ((detailed s).het, (detailed s).unphased))
    = some (0, 0) := by
  simp [chromStats, considered, phasedOf, blocksOf, dedupIds, nonoverlap, bigOf, sortBlocks, nonoverlapLoop, totalLen, detailed]
/-- F5b: in HEAD a phased call whose PS value is `.` has block id `None`; with another phase set present
`--block-list` raises `TypeError` -/
example : phaseOf ⟨false, false⟩ ⟨30, "A", ["C"], [some 0, some 1], true, true, none, none⟩ = some none := by decide
example : blockList [(none, [(30, true)]), (some 10, [(10, true), (20, true)])] = .error .typeErrorBlockNone := by rfl
/-- … after fixes/F5b.patch it belongs to phase set 0 -/
example : phaseOf ⟨true, true⟩ ⟨30, "A", ["C"], [some 0, some 1], true, true, none, none⟩ = some (some 0) := by decide

end WhVerif.Props.C12

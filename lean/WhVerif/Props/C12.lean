import WhVerif.Model.C12
import WhVerif.Spec.C12
import WhVerif.Lemmas.C12
import WhVerif.Model.C12Run
import WhVerif.Spec.C12Run
import WhVerif.Lemmas.C12Run
import WhVerif.Lemmas.C12Len
import WhVerif.Lemmas.C12File
/-!
# C12 — stats counts add up and describe the phase sets present in the file

`chromStats f vars` = `get_phase_blocks` + `add_blocks` for the variants `vars` of one chromosome (as produced by
`readChrom`), `detailed` = `get_detailed_stats`, `addStats` = `__iadd__`, `blockList` = `write_to_block_list`.
`f.fixMissing` / `f.fixPs` select the behaviour after `fixes/F5.patch` / `fixes/F5b.patch`; theorems without a
hypothesis on `f` hold for HEAD as well.
-/
namespace WhVerif.Props.C12
open WhVerif.C12 WhVerif.Lemmas.C12

/-- **sum_identity**: phased + unphased + singletons = heterozygous variants (the `assert` in `DetailedStats.print`),
for HEAD and for the repaired code. -/
theorem sum_identity (f : Flags) (vars : List Var) (s : Stats) (h : chromStats f vars = some s) :
    (detailed s).phased + (detailed s).unphased + (detailed s).singletons = (detailed s).het := by
  obtain ⟨hb, _, hu, _, hh, _⟩ := chromStats_fields f vars s h
  obtain ⟨_, d2, d3, _, d5, d6, _⟩ := detailed_fields s
  rw [d6, d2, d5, d3, hu, hh, hb]
  have h1 := big_sum_eq (phasedOf f vars)
  have h2 := singletons_eq (phasedOf f vars)
  have h3 := phased_plus_singletons (phasedOf f vars)
  have h4 : (phasedOf f vars).length = ((considered f vars).filter (fun v => v.phase.isSome)).length := by
    unfold phasedOf
    exact length_filterMap_phase _ (fun v id => (id, (v.pos, v.snv)))
  have h5 := length_filter_none_some (considered f vars)
  unfold bigOf
  rw [h1, h2]
  omega

/-- **block_sizes_sum**: the per-block sizes (> 1) sum to `phased` (= `variant_per_block_sum`). -/
theorem block_sizes_sum (s : Stats) : (detailed s).sizes.sum = (detailed s).phased := by
  obtain ⟨_, _, _, _, _, d6, d7, _⟩ := detailed_fields s
  rw [d6, d7]

/-- … and so do the sizes > 1 listed in the block list -/
theorem block_list_sizes_sum (f : Flags) (vars : List Var) (s : Stats) (h : chromStats f vars = some s)
    (rows : List (BlockId × Nat × Nat × Nat)) (hr : blockList (blocksOf (phasedOf f vars)) = .ok rows) :
    ((rows.map (·.2.2.2)).filter (fun n => decide (n > 1))).sum = (detailed s).phased := by
  obtain ⟨hb, _⟩ := chromStats_fields f vars s h
  obtain ⟨_, _, _, _, _, d6, _⟩ := detailed_fields s
  rw [d6, hb]
  unfold blockList at hr
  split at hr
  · cases hr
  · cases hr
    have hp := List.mergeSort_perm (blocksOf (phasedOf f vars)) (fun a b => idLe a.1 b.1)
    have h1 : ((List.map (fun (p : BlockId × Block) => (p.1, lo p.2 + 1, hi p.2 + 1, p.2.length))
        ((blocksOf (phasedOf f vars)).mergeSort (fun a b => idLe a.1 b.1))).map (·.2.2.2))
        = (((blocksOf (phasedOf f vars)).mergeSort (fun a b => idLe a.1 b.1)).map (·.2)).map List.length := by
      simp [List.map_map, Function.comp_def]
    rw [h1]
    have h2 : ((((blocksOf (phasedOf f vars)).mergeSort (fun a b => idLe a.1 b.1)).map (·.2)).map List.length).Perm
        (((blocksOf (phasedOf f vars)).map (·.2)).map List.length) := (hp.map _).map _
    rw [(h2.filter _).sum_nat]
    unfold bigOf
    rw [List.filter_map]
    rfl

/-- **block_list_exact**: the block list has exactly one row per phase set occurring among the phased calls, sorted by
id, and a row states the true first position, last position (1-based) and size of its phase set. -/
theorem block_list_exact (ph : List (BlockId × Member)) (rows : List (BlockId × Nat × Nat × Nat))
    (hr : blockList (blocksOf ph) = .ok rows) :
    (rows.map (·.1)).Perm (dedupIds (ph.map (·.1))) ∧ (rows.map (·.1)).Nodup ∧
    (∀ id, id ∈ rows.map (·.1) ↔ ∃ x ∈ ph, x.1 = id) ∧
    (rows.map (·.1)).Pairwise (fun a b => idLe a b = true) ∧
    ∀ row ∈ rows,
      row.2.2.2 = cnt ph row.1 ∧
      (∀ x ∈ ph, x.1 = row.1 → row.2.1 ≤ x.2.1 + 1 ∧ x.2.1 + 1 ≤ row.2.2.1) ∧
      (∃ x ∈ ph, x.1 = row.1 ∧ x.2.1 + 1 = row.2.1) ∧ (∃ x ∈ ph, x.1 = row.1 ∧ x.2.1 + 1 = row.2.2.1) := by
  unfold blockList at hr
  split at hr
  · cases hr
  · cases hr
    have hp := List.mergeSort_perm (blocksOf ph) (fun a b => idLe a.1 b.1)
    have hids : ((List.map (fun (p : BlockId × Block) => (p.1, lo p.2 + 1, hi p.2 + 1, p.2.length))
        ((blocksOf ph).mergeSort (fun a b => idLe a.1 b.1))).map (·.1))
        = ((blocksOf ph).mergeSort (fun a b => idLe a.1 b.1)).map (·.1) := by
      simp [List.map_map, Function.comp_def]
    have hbl : (blocksOf ph).map (·.1) = dedupIds (ph.map (·.1)) := by
      simp [blocksOf, List.map_map, Function.comp_def]
    have hperm : (((blocksOf ph).mergeSort (fun a b => idLe a.1 b.1)).map (·.1)).Perm (dedupIds (ph.map (·.1))) := by
      rw [← hbl]; exact hp.map _
    refine ⟨by rw [hids]; exact hperm, by rw [hids]; exact hperm.nodup_iff.mpr (nodup_dedupIds _), ?_, ?_, ?_⟩
    · intro id
      rw [hids, hperm.mem_iff, mem_dedupIds, List.mem_map]
    · rw [hids, List.pairwise_map]
      exact List.pairwise_mergeSort (le := fun (a b : BlockId × Block) => idLe a.1 b.1)
        (by
          intro a b c h1 h2
          cases ha : a.1 <;> cases hb : b.1 <;> cases hc : c.1 <;> simp_all [idLe]
          omega)
        (by
          intro a b
          cases ha : a.1 <;> cases hb : b.1 <;> simp [idLe]
          omega) _
    · intro row hrow
      obtain ⟨p, hpm, rfl⟩ := List.mem_map.mp hrow
      have hpm' : p ∈ blocksOf ph := hp.mem_iff.mp hpm
      obtain ⟨id, hid, rfl⟩ := List.mem_map.mp hpm'
      have hidm : ∃ x ∈ ph, x.1 = id := by
        have := (mem_dedupIds _ _).mp hid
        obtain ⟨x, hx, rfl⟩ := List.mem_map.mp this
        exact ⟨x, hx, rfl⟩
      -- the block is non-empty and consists exactly of the members with this id
      have hmem : ∀ m, m ∈ (ph.filter (fun q => q.1 == id)).map (·.2) ↔ ∃ x ∈ ph, x.1 = id ∧ x.2 = m := by
        intro m
        simp only [List.mem_map, List.mem_filter, beq_iff_eq]
        constructor
        · rintro ⟨x, ⟨hx, hxi⟩, rfl⟩; exact ⟨x, hx, hxi, rfl⟩
        · rintro ⟨x, hx, hxi, rfl⟩; exact ⟨x, ⟨hx, hxi⟩, rfl⟩
      have hne : (ph.filter (fun q => q.1 == id)).map (·.2) ≠ [] := by
        obtain ⟨x, hx, hxi⟩ := hidm
        intro he
        have : x.2 ∈ (ph.filter (fun q => q.1 == id)).map (·.2) := (hmem x.2).mpr ⟨x, hx, hxi, rfl⟩
        rw [he] at this; cases this
      refine ⟨by simp [cnt], ?_, ?_, ?_⟩
      · intro x hx hxi
        have hm : x.2 ∈ (ph.filter (fun q => q.1 == id)).map (·.2) := (hmem x.2).mpr ⟨x, hx, hxi, rfl⟩
        have h1 := lo_le _ _ hm
        have h2 := le_hi _ _ hm
        simp only; omega
      · obtain ⟨m, hm, hme⟩ := lo_mem _ hne
        obtain ⟨x, hx, hxi, rfl⟩ := (hmem m).mp hm
        exact ⟨x, hx, hxi, by simp only; omega⟩
      · obtain ⟨m, hm, hme⟩ := hi_mem _ hne
        obtain ⟨x, hx, hxi, rfl⟩ := (hmem m).mp hm
        exact ⟨x, hx, hxi, by simp only; omega⟩

/-! ### non-overlapping pieces -/

/-- **nonoverlap_terminates**: `get_nonoverlapping_blocks` finishes within (number of variants in blocks of size > 1) + 1
iterations — each iteration removes one block from the queue and puts back at most a strictly smaller piece of it. -/
theorem nonoverlap_terminates (blocks : List Block) : (nonoverlap blocks).isSome = true := by
  obtain ⟨h1, h2⟩ := bigOf_sorted_nonempty blocks
  exact loop_terminates _ _ h1 h2 (Nat.lt_succ_self _)

/-- **nonoverlap_disjoint**: the pieces are non-empty, consist of variants of the blocks, and are pairwise disjoint
intervals: in output order each piece ends before the next begins. -/
theorem nonoverlap_disjoint (blocks out : List Block) (h : nonoverlap blocks = some out) :
    out.Pairwise (fun a b => hi a ≤ lo b) ∧
    ∀ p ∈ out, p ≠ [] ∧ ∀ m ∈ p, ∃ b ∈ blocks, b.length > 1 ∧ m ∈ b := by
  obtain ⟨h1, h2⟩ := bigOf_sorted_nonempty blocks
  obtain ⟨h3, h4⟩ := loop_inv _ _ out h1 h2 h
  refine ⟨h4, ?_⟩
  intro p hp
  obtain ⟨hpne, hpm⟩ := h3 p hp
  refine ⟨hpne, ?_⟩
  intro m hm
  obtain ⟨b, hb, hmb⟩ := hpm m hm
  have := (sortBlocks_perm _).mem_iff.mp hb
  have hb' := List.mem_filter.mp this
  exact ⟨b, hb'.1, by simpa using hb'.2, hmb⟩

/-- **length_sum_le_span**: the block lengths reported for a chromosome (sum of the spans of the non-overlapping
pieces) never exceed the span covered by its phased variants: if all lie in `[L, H]` then `bp_per_block_sum ≤ H - L`. -/
theorem length_sum_le_span (f : Flags) (vars : List Var) (s : Stats) (h : chromStats f vars = some s) (L H : Nat)
    (hLH : L ≤ H) (hb : ∀ v ∈ vars, L ≤ v.pos ∧ v.pos ≤ H) : (detailed s).bpSum + L ≤ H := by
  obtain ⟨hbl, hn, _⟩ := chromStats_fields f vars s h
  obtain ⟨_, _, _, _, _, _, _, _, _, d10⟩ := detailed_fields s
  rw [d10]
  split
  · simpa using hLH
  · obtain ⟨hc, hfrom⟩ := nonoverlap_disjoint _ _ hn
    have hc' : (bigOf s.splitBlocks).Pairwise (fun a b => hi a ≤ lo b) := hc.filter _
    apply chain_sum_le H _ L hLH hc'
    intro p hp
    obtain ⟨hpne, hpm⟩ := hfrom p (List.mem_filter.mp hp).1
    refine ⟨hpne, ?_⟩
    intro m hm
    obtain ⟨b, hbm, _, hmb⟩ := hpm m hm
    -- a member of a block is the position of a variant
    rw [hbl] at hbm
    obtain ⟨pb, hpb, rfl⟩ := List.mem_map.mp hbm
    obtain ⟨id, _, rfl⟩ := List.mem_map.mp hpb
    obtain ⟨x, hx, rfl⟩ := List.mem_map.mp hmb
    have hx' := (List.mem_filter.mp hx).1
    unfold phasedOf at hx'
    obtain ⟨v, hv, hvx⟩ := List.mem_filterMap.mp hx'
    have hvv : v ∈ vars := (List.mem_filter.mp hv).1
    cases hph : v.phase with
    | none => rw [hph] at hvx; simp at hvx
    | some i =>
      rw [hph] at hvx
      simp only [Option.map_some, Option.some.injEq] at hvx
      subst hvx
      exact hb v hvv

/-! ### independent counts (repaired code) -/

/-- **counts_eq_independent**: after `fixes/F5.patch` the numbers of a chromosome row equal the independent counts over
its variants: variants, heterozygous variants and SNVs, unphased, phased (calls in phase sets of ≥ 2), singletons
(calls alone in their phase set), blocks (phase sets of ≥ 2) and phased SNVs. -/
theorem counts_eq_independent (f : Flags) (hf : f.fixMissing = true) (vars : List Var) (s : Stats)
    (h : chromStats f vars = some s) :
    (detailed s).variants = specVariants vars ∧ (detailed s).het = specHet vars ∧
    (detailed s).hetSnvs = specHetSnvs vars ∧ (detailed s).unphased = specUnphased vars ∧
    (detailed s).phased = specPhased vars ∧ (detailed s).singletons = specSingletons vars ∧
    (detailed s).blocks = specBlocks vars ∧ (detailed s).phasedSnvs = specPhasedSnvs vars := by
  obtain ⟨hb, _, hu, hv, hh, hs⟩ := chromStats_fields f vars s h
  obtain ⟨d1, d2, d3, d4, d5, d6, _, d8, d9, _⟩ := detailed_fields s
  have hcons := considered_fix f hf vars
  have hcnt : ∀ id, cnt (phasedOf f vars) id = setSize vars id := cnt_phasedOf f hf vars
  -- the phased calls filtered by a predicate on the size of their set
  have hsize : ∀ (P : Nat → Bool) (w : Var → Bool),
      ((phasedOf f vars).filter (fun x => P (cnt (phasedOf f vars) x.1) && w ⟨x.2.1, x.2.2, .het, none⟩)).length
        = (vars.filter (fun v => inSetOfSize vars P v && w ⟨v.pos, v.snv, .het, none⟩)).length := by
    intro P w
    unfold phasedOf
    rw [hcons, filterMap_phase_filter (vars.filter isHet) (fun v => (v.pos, v.snv))
      (fun x => P (cnt ((vars.filter isHet).filterMap (fun v => v.phase.map (fun id => (id, (v.pos, v.snv))))) x.1)
        && w ⟨x.2.1, x.2.2, .het, none⟩), List.filter_filter]
    congr 1
    apply List.filter_congr
    intro v _
    have hc : ∀ id, cnt ((vars.filter isHet).filterMap (fun v => v.phase.map (fun id => (id, (v.pos, v.snv))))) id
        = setSize vars id := by
      intro id
      have := hcnt id
      unfold phasedOf at this
      rw [hcons] at this
      exact this
    unfold inSetOfSize
    cases hp : v.phase with
    | none => simp
    | some id => simp only [hc id]; cases isHet v <;> cases P (setSize vars id) <;> simp
  refine ⟨by rw [d1, hv]; rfl, by rw [d3, hh, hcons]; rfl, ?_, ?_, ?_, ?_, ?_, ?_⟩
  · rw [d4, hs, hcons, List.filter_filter]
    unfold specHetSnvs
    congr 1
    apply List.filter_congr
    intro v _
    exact Bool.and_comm _ _
  · rw [d2, hu, hcons, List.filter_filter]
    unfold specUnphased
    congr 1
    apply List.filter_congr
    intro v _
    exact Bool.and_comm _ _
  · rw [d6, hb]
    have h1 := big_sum_eq (phasedOf f vars)
    unfold bigOf
    rw [h1]
    have := hsize (fun n => decide (n > 1)) (fun _ => true)
    simp only [Bool.and_true] at this
    exact this
  · rw [d5, hb, singletons_eq]
    have := hsize (fun n => n == 1) (fun _ => true)
    simp only [Bool.and_true] at this
    exact this
  · rw [d8, hb, blocksOf_big_length, phasedOf_ids, hcons]
    unfold specBlocks specIds
    congr 1
    apply List.filter_congr
    intro id _
    rw [hcnt id]
  · rw [d9, hb, blocksOf_snvs]
    exact hsize (fun n => decide (n > 1)) (fun v => v.snv)

/-! ### the ALL row -/

/-- **all_row_is_sum**: for the additive columns (variants, phased, unphased, singletons, blocks, variant_per_block_sum,
bp_per_block_sum, heterozygous variants, heterozygous SNVs, phased SNVs) the row of the aggregated statistics equals the
column-wise sum of the rows of the aggregated chromosomes.  (Medians, averages, minima, maxima, fractions and NG50 are not
additive and are not covered.) -/
theorem all_row_is_sum (ss : List Stats) (hc : ∀ s ∈ ss, s.Consistent) :
    (detailed (ss.foldl addStats {})).additive
      = (ss.map (fun s => (detailed s).additive)).foldl addVec (detailed ({} : Stats)).additive := by
  have gen : ∀ (ss : List Stats) (acc : Stats), acc.Consistent → (∀ s ∈ ss, s.Consistent) →
      (detailed (ss.foldl addStats acc)).additive
        = (ss.map (fun s => (detailed s).additive)).foldl addVec (detailed acc).additive := by
    intro ss
    induction ss with
    | nil => intro acc _ _; rfl
    | cons s t ih =>
      intro acc hacc hall
      have hs := hall s (List.mem_cons_self ..)
      simp only [List.foldl_cons, List.map_cons]
      rw [ih (addStats acc s) (consistent_add acc s hacc hs) (fun x hx => hall x (List.mem_cons_of_mem _ hx)),
        additive_add acc s hacc hs]
  exact gen ss {} consistent_empty hc

/-- every per-chromosome statistics object satisfies the consistency hypothesis of `all_row_is_sum` -/
theorem chrom_consistent (f : Flags) (vars : List Var) (s : Stats) (h : chromStats f vars = some s) : s.Consistent :=
  chromStats_consistent f vars s h

/-- the aggregated row also satisfies the sum identity -/
theorem sum_identity_all (f : Flags) (varss : List (List Var)) (ss : List Stats)
    (h : varss.mapM (chromStats f) = some ss) :
    (detailed (ss.foldl addStats {})).phased + (detailed (ss.foldl addStats {})).unphased
      + (detailed (ss.foldl addStats {})).singletons = (detailed (ss.foldl addStats {})).het := by
  -- every element satisfies the identity and is consistent
  have hall : ∀ s ∈ ss, s.Consistent ∧
      (detailed s).phased + (detailed s).unphased + (detailed s).singletons = (detailed s).het := by
    have : ∀ (varss : List (List Var)) (ss : List Stats), varss.mapM (chromStats f) = some ss →
        ∀ s ∈ ss, ∃ vars, chromStats f vars = some s := by
      intro varss
      induction varss with
      | nil => intro ss h s hs; simp at h; subst h; cases hs
      | cons v t ih =>
        intro ss h s hs
        rw [List.mapM_cons] at h
        cases hv : chromStats f v with
        | none => rw [hv] at h; simp at h
        | some s0 =>
          rw [hv] at h
          cases ht : t.mapM (chromStats f) with
          | none => rw [ht] at h; simp at h
          | some ss0 =>
            rw [ht] at h
            simp at h
            subst h
            rcases List.mem_cons.mp hs with rfl | hs'
            · exact ⟨v, hv⟩
            · exact ih ss0 ht s hs'
    intro s hs
    obtain ⟨vars, hv⟩ := this varss ss h s hs
    exact ⟨chromStats_consistent f vars s hv, sum_identity f vars s hv⟩
  -- the identity is preserved by aggregation
  have gen : ∀ (ss : List Stats) (acc : Stats), acc.Consistent →
      (detailed acc).phased + (detailed acc).unphased + (detailed acc).singletons = (detailed acc).het →
      (∀ s ∈ ss, s.Consistent ∧ (detailed s).phased + (detailed s).unphased + (detailed s).singletons = (detailed s).het) →
      (detailed (ss.foldl addStats acc)).phased + (detailed (ss.foldl addStats acc)).unphased
        + (detailed (ss.foldl addStats acc)).singletons = (detailed (ss.foldl addStats acc)).het := by
    intro ss
    induction ss with
    | nil => intro acc _ hid _; exact hid
    | cons s t ih =>
      intro acc hacc hid hall
      obtain ⟨hsc, hsid⟩ := hall s (List.mem_cons_self ..)
      simp only [List.foldl_cons]
      apply ih (addStats acc s) (consistent_add acc s hacc hsc) ?_ (fun x hx => hall x (List.mem_cons_of_mem _ hx))
      have hadd := additive_add acc s hacc hsc
      simp only [Row.additive, addVec, List.zipWith_cons_cons, List.zipWith_nil_right, List.cons.injEq] at hadd
      obtain ⟨_, e2, e3, e4, _, _, _, e8, _⟩ := hadd
      omega
  exact gen ss {} consistent_empty (by decide) hall

/-! ### non-vacuity, defect witnesses on the faithful model -/

/-- the hypothesis `chromStats f vars = some s` of the theorems above is always satisfiable (the fuel suffices) -/
theorem chromStats_total (f : Flags) (vars : List Var) : ∃ s, chromStats f vars = some s := by
  unfold chromStats
  have := nonoverlap_terminates ((blocksOf (phasedOf f vars)).map (·.2))
  cases hn : nonoverlap ((blocksOf (phasedOf f vars)).map (·.2)) with
  | none => rw [hn] at this; cases this
  | some sb => simp only [hn, Option.map_some]; exact ⟨_, rfl⟩

/-- F5: in HEAD a call without genotype (`./.`) is counted heterozygous and unphased; the independent count says 0 -/
example : (chromStats ⟨false, false⟩ [⟨10, true, .missing, none⟩]).map (fun s => ((detailed s).het, (detailed s).unphased))
    = some (1, 1) ∧ specHet [⟨10, true, .missing, none⟩] = 0 := by
  constructor
  · simp [chromStats, considered, phasedOf, blocksOf, dedupIds, nonoverlap, bigOf, sortBlocks, nonoverlapLoop, totalLen, detailed]
  · decide
/-- … after fixes/F5.patch it is not -/
example : (chromStats ⟨true, false⟩ [⟨10, true, .missing, none⟩]).map (fun s => ((detailed s).het, (detailed s).unphased))
    = some (0, 0) := by
  simp [chromStats, considered, phasedOf, blocksOf, dedupIds, nonoverlap, bigOf, sortBlocks, nonoverlapLoop, totalLen, detailed]
/-- F5b: in HEAD a phased call whose PS value is `.` has block id `None`; with another phase set present
`--block-list` raises `TypeError` -/
example : phaseOf ⟨false, false⟩ ⟨30, "A", ["C"], [some 0, some 1], true, true, none, none⟩ = some none := by decide
example : blockList [(none, [(30, true)]), (some 10, [(10, true), (20, true)])] = .error .typeErrorBlockNone := by rfl
/-- … after fixes/F5b.patch it belongs to phase set 0 -/
example : phaseOf ⟨true, true⟩ ⟨30, "A", ["C"], [some 0, some 1], true, true, none, none⟩ = some (some 0) := by decide

/-! ## `run_stats` end to end (`Model/C12Run.lean`) -/

/-- **n50_spec**: `n50(lengths, target)` is the N50 of the lengths with respect to the target: the pieces at least that long
reach half of the target, the strictly longer ones do not; 0 iff even all pieces together stay below half of it. -/
theorem n50_spec (lengths : List Nat) (target : Nat) : IsN50 lengths target (n50 lengths target) :=
  n50_isN50 lengths target

/-- on the lengths 8, 5, 3, 1 (largest first) and target 17 the loop stops at 5: 8 + 5 ≥ 8.5 -/
example : n50Loop 17 0 [8, 5, 3, 1] = 5 ∧ n50Loop 40 0 [8, 5, 3, 1] = 0 := by decide

/-- **reader_spec**: when the reader accepts a chromosome it delivers exactly the first eligible record of every position
(one ALT allele; with `--only-snvs` one base against one base), in file order, at strictly increasing positions. -/
theorem reader_spec (f : Flags) (onlySnvs : Bool) (recs : List Rec) (vars : List Var)
    (h : readChrom f onlySnvs recs = .ok vars) :
    vars = specVars f onlySnvs recs ∧ (vars.map (·.pos)).Pairwise (· < ·) :=
  readChrom_spec f onlySnvs recs vars h

/-- every piece `get_nonoverlapping_blocks` returns has at least two variants: the block lengths of the TSV and the
lengths NG50 is computed from are the same multiset -/
theorem pieces_have_two_variants (f : Flags) (vars : List Var) (s : Stats) (h : chromStats f vars = some s) :
    (∀ p ∈ s.splitBlocks, p.length > 1) ∧
    ((bigOf s.blocks).isEmpty = false → (detailed s).lengths.Perm (s.splitBlocks.map span)) := by
  obtain ⟨_, hn, _⟩ := chromStats_fields f vars s h
  have hb := nonoverlap_big _ _ hn
  refine ⟨hb, ?_⟩
  intro hne
  unfold detailed
  rw [if_neg (by simp [hne])]
  simp only
  rw [bigOf_of_QBig hb]
  exact sortNat_perm _
/-! ### the chromosome loop, the ALL row -/

/-- **run_rows_are_chromStats**: every chromosome row of a successful run is the statistics of the variants the reader
delivered for records of the file under that name (its own group, or — indexed fetch — all groups of that name). -/
theorem run_rows_are_chromStats (i : RunIn) (o : RunOut) (h : run i = .ok o) :
    ∀ p ∈ o.parts, chromStats i.flags p.vars = some p.stats ∧
      ∃ recs, readChrom i.flags i.onlySnvs recs = .ok p.vars ∧ p.vars = specVars i.flags i.onlySnvs recs ∧
        ((p.name, recs) ∈ i.file ∨ recs = recsOf i.file p.name) := by
  intro p hp
  obtain ⟨hl, _⟩ := run_ok i o h
  obtain ⟨h1, h2, _⟩ := runLoop_parts _ _ _ _ _ _ _ hl p hp
  obtain ⟨recs, hr, hm⟩ := tables_mem i _ p.name p.vars h2
  exact ⟨h1, recs, hr, (readChrom_spec _ _ _ _ hr).1, hm⟩

/-- **run_counts_the_file**: end to end (repaired classification, `fixMissing`): the eight counts of every chromosome
row equal the independent counts over the records of the file — first eligible record of every position, classified call
by call. -/
theorem run_counts_the_file (i : RunIn) (hf : i.flags.fixMissing = true) (o : RunOut) (h : run i = .ok o) :
    ∀ p ∈ o.parts, ∃ recs, ((p.name, recs) ∈ i.file ∨ recs = recsOf i.file p.name) ∧
      (detailed p.stats).variants = specVariants (specVars i.flags i.onlySnvs recs) ∧
      (detailed p.stats).het = specHet (specVars i.flags i.onlySnvs recs) ∧
      (detailed p.stats).hetSnvs = specHetSnvs (specVars i.flags i.onlySnvs recs) ∧
      (detailed p.stats).unphased = specUnphased (specVars i.flags i.onlySnvs recs) ∧
      (detailed p.stats).phased = specPhased (specVars i.flags i.onlySnvs recs) ∧
      (detailed p.stats).singletons = specSingletons (specVars i.flags i.onlySnvs recs) ∧
      (detailed p.stats).blocks = specBlocks (specVars i.flags i.onlySnvs recs) ∧
      (detailed p.stats).phasedSnvs = specPhasedSnvs (specVars i.flags i.onlySnvs recs) := by
  intro p hp
  obtain ⟨hc, recs, _, hv, hm⟩ := run_rows_are_chromStats i o h p hp
  refine ⟨recs, hm, ?_⟩
  rw [← hv]
  exact counts_eq_independent i.flags hf p.vars p.stats hc

/-- **run_reports_wanted_chromosomes** (the early exit loses nothing): when the file is iterated (no index, or no
`--chromosome`) and its chromosomes are contiguous, the chromosome rows are exactly the chromosomes of the file that are
not filtered out, each once, in file order. -/
theorem run_reports_wanted_chromosomes (i : RunIn) (o : RunOut) (h : run i = .ok o)
    (hp : i.indexed = false ∨ unpackChromosomes i.given = []) (hn : (i.file.map (·.1)).Nodup) :
    o.parts.map (·.name) = (i.file.map (·.1)).filter (fun c => !skipped (unpackChromosomes i.given) c) := by
  obtain ⟨hl, _⟩ := run_ok i o h
  have hnames := tables_names_plain i (unpackChromosomes i.given) hp
  have := runLoop_names _ _ _ _ _ _ _ (by rw [hnames]; exact hn) (by intro c _ hc; cases hc) hl
  rw [this, hnames]

/-- **run_indexed_reports_given**: with an index and `--chromosome`, after `fixes/F75.patch`, the chromosome rows are the
distinct given chromosomes, each once, in the order given. -/
theorem run_indexed_reports_given (i : RunIn) (o : RunOut) (h : run i = .ok o) (hi : i.indexed = true)
    (hg : unpackChromosomes i.given ≠ []) (hd : i.dedupGiven = true) :
    o.parts.map (·.name) = strDedup (unpackChromosomes i.given) := by
  obtain ⟨hl, _⟩ := run_ok i o h
  have hnames := tables_names_indexed i (unpackChromosomes i.given) hi hg
  rw [hd, if_pos rfl] at hnames
  have := runLoop_names _ _ _ _ _ _ _ (by rw [hnames]; exact nodup_strDedup _) (by intro c _ hc; cases hc) hl
  rw [this, hnames]
  apply List.filter_eq_self.mpr
  intro c hc
  have : c ∈ unpackChromosomes i.given := (mem_strDedup _ _).mp hc
  simp [skipped, this]

/-- **run_all_row_is_sum**: end to end — whenever `run_stats` prints an ALL row, its additive columns are the column-wise
sums of the chromosome rows printed before it (no side condition left: every row comes from `chromStats`). -/
theorem run_all_row_is_sum (i : RunIn) (o : RunOut) (h : run i = .ok o) (a : Stats) (ha : o.all = some a) :
    (detailed a).additive
      = (o.parts.map (fun p => (detailed p.stats).additive)).foldl addVec (detailed ({} : Stats)).additive := by
  obtain ⟨hl, hall⟩ := run_ok i o h
  rw [hall] at ha
  split at ha
  · cases ha
    have hc : ∀ s ∈ o.parts.map (·.stats), s.Consistent := by
      intro s hs
      obtain ⟨p, hp, rfl⟩ := List.mem_map.mp hs
      exact chrom_consistent _ _ _ (runLoop_parts _ _ _ _ _ _ _ hl p hp).1
    have := all_row_is_sum (o.parts.map (·.stats)) hc
    rw [List.map_map] at this
    exact this
  · cases ha

/-- the ALL row is printed iff more than one chromosome was *seen*; without `--chromosome` (contiguous chromosomes) that
is: iff the file has at least two chromosomes -/
theorem run_all_row_iff (i : RunIn) (o : RunOut) (h : run i = .ok o) :
    (o.all.isSome ↔ o.seen.length > 1) ∧
    (unpackChromosomes i.given = [] → (i.file.map (·.1)).Nodup → o.seen = i.file.map (·.1)) := by
  obtain ⟨hl, hall⟩ := run_ok i o h
  refine ⟨?_, ?_⟩
  · rw [hall]; split <;> simp_all
  · intro hg hn
    rw [hg] at hl
    have := runLoop_seen_all _ _ _ _ _ _ hl
    rw [this, tables_names_plain i [] (Or.inr rfl), foldl_addSeen_nodup _ [] hn (by intro c _ hc; cases hc)]
    rfl

/-- **run_sum_identity**: phased + unphased + singletons = heterozygous for every row `run_stats` prints, the ALL row
included (the `assert` in `DetailedStats.print` never fires). -/
theorem run_sum_identity (i : RunIn) (o : RunOut) (h : run i = .ok o) :
    (∀ p ∈ o.parts, (detailed p.stats).phased + (detailed p.stats).unphased + (detailed p.stats).singletons
      = (detailed p.stats).het) ∧
    ∀ a, o.all = some a → (detailed a).phased + (detailed a).unphased + (detailed a).singletons = (detailed a).het := by
  obtain ⟨hl, hall⟩ := run_ok i o h
  have hparts := runLoop_parts _ _ _ _ _ _ _ hl
  refine ⟨fun p hp => sum_identity _ _ _ (hparts p hp).1, ?_⟩
  intro a ha
  rw [hall] at ha
  split at ha
  · cases ha
    exact sum_identity_all i.flags (o.parts.map (·.vars)) (o.parts.map (·.stats))
      (mapM_parts _ _ (fun p hp => (hparts p hp).1))
  · cases ha
/-! ### GTF, block list, NG50 of the rows -/

/-- **gtf_rows_are_runs**: with integer phase-set ids the GTF has exactly one feature per maximal run of consecutive
phased calls of one phase set: the runs concatenate to the phased calls, are non-empty, constant in the id, neighbouring
runs differ in the id, and the feature of a run is (first position + 1, last position + 1, id). -/
theorem gtf_rows_are_runs (ph : List (BlockId × Member)) (hall : ∀ x ∈ ph, x.1.isSome) :
    gtf ph = (runsOf ph).filterMap runRow ∧ (gtf ph).length = (runsOf ph).length ∧ (runsOf ph).flatten = ph ∧
    (∀ r ∈ runsOf ph, r ≠ [] ∧ ∀ a ∈ r, ∀ b ∈ r, a.1 = b.1) ∧ AdjDiff (runsOf ph) := by
  have hflat := runsOf_flatten ph
  have hsome : ∀ r ∈ runsOf ph, (runRow r).isSome := by
    intro r hr
    apply runRow_isSome r (runsOf_nonempty ph r hr)
    intro x hx
    apply hall
    rw [← hflat]
    exact List.mem_flatten.mpr ⟨r, hr, hx⟩
  have hlen : ∀ (l : List (List (BlockId × Member))), (∀ r ∈ l, (runRow r).isSome) →
      (l.filterMap runRow).length = l.length := by
    intro l
    induction l with
    | nil => intro _; rfl
    | cons r t ih =>
      intro hl
      obtain ⟨row, hrow⟩ := Option.isSome_iff_exists.mp (hl r (List.mem_cons_self ..))
      rw [List.filterMap_cons, hrow]
      simp only [List.length_cons]
      rw [ih (fun x hx => hl x (List.mem_cons_of_mem _ hx))]
  refine ⟨gtf_eq_runs ph hall, ?_, hflat, fun r hr => ⟨runsOf_nonempty ph r hr, runsOf_same_id ph r hr⟩, runsOf_adjacent ph⟩
  rw [gtf_eq_runs ph hall, hlen _ hsome]

example : gtf [(some 7, (10, true)), (some 7, (20, true)), (some 9, (30, false)), (some 7, (40, true))]
    = [(11, 21, 7), (31, 31, 9), (41, 41, 7)] := by decide

/-- **run_gtf_and_block_list**: end to end (`fixPs`, i.e. /repo HEAD): for every processed chromosome all phase-set ids
are integers, `--block-list` cannot fail and the GTF features are the rows of the maximal runs. -/
theorem run_gtf_and_block_list (i : RunIn) (hf : i.flags.fixPs = true) (o : RunOut) (h : run i = .ok o) :
    ∀ p ∈ o.parts, (∀ x ∈ phasedOf i.flags p.vars, x.1.isSome) ∧
      (∃ rows, blockList (blocksOf (phasedOf i.flags p.vars)) = .ok rows) ∧
      gtf (phasedOf i.flags p.vars) = (runsOf (phasedOf i.flags p.vars)).filterMap runRow := by
  intro p hp
  obtain ⟨_, recs, _, hv, _⟩ := run_rows_are_chromStats i o h p hp
  have hids : ∀ x ∈ phasedOf i.flags p.vars, x.1.isSome := by
    rw [hv]; exact phasedOf_ids_some i.flags hf i.onlySnvs recs
  refine ⟨hids, ?_, gtf_eq_runs _ hids⟩
  apply blockList_ok
  intro b hb
  obtain ⟨id, hid, rfl⟩ := List.mem_map.mp hb
  have := (mem_dedupIds _ _).mp hid
  obtain ⟨x, hx, rfl⟩ := List.mem_map.mp this
  exact hids x hx

/-- **run_n50_spec**: the `block_n50` column of every row is the N50 of exactly the block lengths reported in that row
(`bp_per_block_*` are computed from the same list), with respect to the summed length of the distinct chromosomes that
contribute a piece — for a chromosome row with pieces: its own length. `none` = `nan`. -/
theorem run_n50_spec (i : RunIn) (o : RunOut) (h : run i = .ok o) :
    (∀ p ∈ o.parts, ∀ r, partN50 i.lens p = some r →
      ∃ T, targetLength i.lens (strDedup (p.stats.splitBlocks.map (fun _ => p.name))) = some T ∧
        (p.stats.splitBlocks ≠ [] → lookupLen i.lens p.name = some T) ∧ IsN50 (detailed p.stats).lengths T r) ∧
    (∀ a, o.all = some a → ∀ r, allN50 i.lens o.parts = some r →
      ∃ T, targetLength i.lens (strDedup (splitChroms o.parts)) = some T ∧ IsN50 (detailed a).lengths T r) := by
  obtain ⟨hl, hall⟩ := run_ok i o h
  have hparts := runLoop_parts _ _ _ _ _ _ _ hl
  -- the core: for statistics whose pieces all have two variants
  have core : ∀ (s : Stats) (chroms : List String) (r : Nat), (∀ b ∈ s.splitBlocks, b.length > 1) →
      blockN50 i.lens chroms s = some r →
      ∃ T, targetLength i.lens (strDedup chroms) = some T ∧ IsN50 (detailed s).lengths T r := by
    intro s chroms r hbig hr
    unfold blockN50 at hr
    split at hr
    · cases hr
    · rename_i hne
      unfold computeNg50 at hr
      cases hT : targetLength i.lens (strDedup chroms) with
      | none => rw [hT] at hr; cases hr
      | some T =>
        rw [hT] at hr
        simp only [Option.map_some, Option.some.injEq] at hr
        subst hr
        refine ⟨T, rfl, ?_⟩
        have hlen : (detailed s).lengths = sortNat (s.splitBlocks.map span) := by
          unfold detailed
          rw [if_neg hne, bigOf_of_QBig hbig]
        rw [hlen]
        exact isN50_perm (sortNat_perm _).symm T _ (n50_spec _ T)
  refine ⟨?_, ?_⟩
  · intro p hp r hr
    have hbig := (pieces_have_two_variants _ _ _ (hparts p hp).1).1
    obtain ⟨T, hT, hN⟩ := core p.stats _ r hbig hr
    refine ⟨T, hT, ?_, hN⟩
    intro hne
    rw [strDedup_const p.name _ (by simpa using hne) (by intro x hx; obtain ⟨_, _, rfl⟩ := List.mem_map.mp hx; rfl)] at hT
    simp only [targetLength] at hT
    cases hlk : lookupLen i.lens p.name with
    | none => rw [hlk] at hT; cases hT
    | some l => rw [hlk] at hT; simp at hT; rw [hT]
  · intro a ha r hr
    rw [hall] at ha
    split at ha
    · cases ha
      apply core (totalStats o.parts) _ r ?_ hr
      intro b hb
      unfold totalStats at hb
      rw [foldl_addStats_split] at hb
      simp only [List.nil_append, List.mem_flatMap, List.mem_map] at hb
      obtain ⟨s, ⟨p, hp, rfl⟩, hbs⟩ := hb
      exact (pieces_have_two_variants _ _ _ (hparts p hp).1).1 b hbs
    · cases ha

/-! ### non-vacuity of the end-to-end theorems, F75 on the faithful model -/

/-- the hypotheses of the `run_*` theorems are satisfiable: a plain file with two chromosomes, no `--chromosome`,
repaired classification; both chromosomes are reported and the ALL row is printed -/
example : ∃ i o, run i = .ok o ∧ i.flags.fixMissing = true ∧ i.flags.fixPs = true ∧
    (i.indexed = false ∨ unpackChromosomes i.given = []) ∧ (i.file.map (·.1)).Nodup ∧ o.all.isSome ∧ o.parts ≠ [] := by
  obtain ⟨o, h, hn, ha, _⟩ := exRun_plain
  refine ⟨exRun false false [], o, h, rfl, rfl, Or.inl rfl, by decide, ha, ?_⟩
  intro he; rw [he] at hn; cases hn

/-- … and with an index, `--chromosome c1 --chromosome c1,c2` and `fixes/F75.patch`: c1 and c2 once each -/
example : ∃ i o, run i = .ok o ∧ i.indexed = true ∧ unpackChromosomes i.given ≠ [] ∧ i.dedupGiven = true ∧
    o.parts.map (·.name) = ["c1", "c2"] := by
  obtain ⟨o, h, hn, _⟩ := exRun_indexed true
  exact ⟨exRun true true ["c1", "c1,c2"], o, h, rfl, by rw [show (exRun true true ["c1", "c1,c2"]).given = ["c1", "c1,c2"] from rfl, ex_unpack]; simp, rfl, hn⟩

/-- **F75** (faithful model of HEAD, `dedupGiven = false`): with an index, a chromosome named twice is fetched twice, is
reported twice and enters the ALL row twice — 4 variants are reported for a file that has 2 -/
example : ∃ o, run (exRun true false ["c1", "c1,c2"]) = .ok o ∧ o.parts.map (·.name) = ["c1", "c1", "c2"] ∧
    o.all.map (fun a => (detailed a).variants) = some 4 := exRun_indexed false

example : ∃ f vars s, chromStats f vars = some s ∧ (bigOf s.blocks).isEmpty = false := ⟨_, _, _, ex_stats, rfl⟩
example : ∃ f o recs vars, readChrom f o recs = .ok vars ∧ vars ≠ [] := ⟨_, _, _, _, ex_read, by simp [exVars]⟩

/-- **nonoverlap_sort_independent**: for a chromosome the reader accepted, `get_nonoverlapping_blocks` returns the same pieces
with *any* routine that sorts the queue by leftmost position (the model uses a stable ascending merge sort; the code uses
`sorted(..., reverse=True)` and pops from the end): positions are strictly increasing (`reader_spec`), so the blocks are
pairwise disjoint and two blocks of the queue never tie. -/
theorem nonoverlap_sort_independent (sort : List Block → List Block) (hsort : IsSort sort) (f : Flags) (onlySnvs : Bool)
    (recs : List Rec) (vars : List Var) (h : readChrom f onlySnvs recs = .ok vars) :
    nonoverlapG sort ((blocksOf (phasedOf f vars)).map (·.2)) = nonoverlap ((blocksOf (phasedOf f vars)).map (·.2)) := by
  apply nonoverlapG_eq sort hsort
  apply blocksOf_disj
  have hlt := ((reader_spec f onlySnvs recs vars h).2).sublist (positions_sublist f vars)
  exact hlt.imp (fun hab => Nat.ne_of_lt hab)

example : IsSort sortBlocks := fun l => ⟨sortBlocks_perm l, sortBlocks_sorted l⟩

/-! ## the block lengths of the ALL row (round 10, seed C12-h) -/

/-- **all_row_block_lengths_are_concat**: the block lengths behind the ALL row (`bp_per_block_{sum,min,max,median,avg}` are
computed from this list) are, as a multiset, the concatenation of the piece-length lists of the chromosome rows, in ascending
order — two pieces on different chromosomes count twice even if their start and end coordinates coincide; so does their
number, and the ALL row's `bp_per_block_sum` is the sum of the rows'. -/
theorem all_row_block_lengths_are_concat (i : RunIn) (o : RunOut) (h : run i = .ok o) (a : Stats) (ha : o.all = some a) :
    (detailed a).lengths.Perm (o.parts.flatMap (fun p => (detailed p.stats).lengths)) ∧
    (detailed a).lengths.Pairwise (· ≤ ·) ∧
    (detailed a).lengths.length = (o.parts.map (fun p => (detailed p.stats).lengths.length)).sum ∧
    (∀ x, (detailed a).lengths.count x = (o.parts.map (fun p => (detailed p.stats).lengths.count x)).sum) := by
  obtain ⟨hl, hall⟩ := run_ok i o h
  rw [hall] at ha
  split at ha
  · cases ha
    have hc : ∀ s ∈ o.parts.map (·.stats), s.Consistent := by
      intro s hs
      obtain ⟨p, hp, rfl⟩ := List.mem_map.mp hs
      exact chrom_consistent _ _ _ (runLoop_parts _ _ _ _ _ _ _ hl p hp).1
    have hp := all_lengths_perm (o.parts.map (·.stats)) hc
    rw [List.flatMap_map] at hp
    have hp : (detailed (totalStats o.parts)).lengths.Perm (o.parts.flatMap (fun p => (detailed p.stats).lengths)) := hp
    refine ⟨hp, lengths_sorted _, ?_, ?_⟩
    · rw [hp.length_eq, List.length_flatMap]
    · intro x
      rw [hp.count_eq, List.count_flatMap]
      rfl
  · cases ha

/-- non-vacuity, and the case of seed C12-h: two chromosomes with the same piece (100, 200); the ALL row has the length 100
twice (and two blocks) -/
example : ∃ i o a, run i = .ok o ∧ o.all = some a ∧ o.parts.map (fun p => (detailed p.stats).lengths) = [[100], [100]] ∧
    (detailed a).lengths = [100, 100] ∧ (detailed a).blocks = 2 := ⟨twinRun, twinRun_ok⟩

/-! ## `run_stats` on a multi-sample file, on top of the whole-file reader (`Model/C12File.lean`, round 10) -/

section File
open WhVerif.C12File WhVerif.Lemmas.C12File

/-- **stats_run_refines_reader**: in a run that succeeds, every reported chromosome carries the statistics of the variant
list `get_phase_blocks` sees, and that list is the selected sample's column (`varOfRow … si`) of the rows the whole-file reader
`C09.readChromP` makes of a planned group / fetch (all samples checked, ploidy carried); for an iterated file that
`C09.readFile` accepts, it is the selected sample's column of one of `readFile`'s tables of that name. -/
theorem stats_run_refines_reader (i : FileIn) (o : RunOut) (h : fileRun i = .ok o) :
    ∃ si, selectSample i.samples i.sample = .ok si ∧
      (∀ p ∈ o.parts, chromStats i.flags p.vars = some p.stats ∧
        ∃ recs pl0 st1 pl1 rows, (p.name, some recs) ∈ fetchPlan i (unpackChromosomes i.given) ∧
          WhVerif.C09.readChromP i.onlySnvs none pl0 none recs = .ok (st1, pl1, rows) ∧
          p.vars = rows.map (varOfRow i.flags si)) ∧
      ((i.indexed = false ∨ unpackChromosomes i.given = []) → ∀ pl tabs,
        WhVerif.C09.readFile i.onlySnvs none i.groups = .ok (pl, tabs) →
        ∀ p ∈ o.parts, ∃ t ∈ tabs, p.name = t.1 ∧ p.vars = t.2.map (varOfRow i.flags si)) := by
  obtain ⟨si, hs, hl, _⟩ := fileRun_ok i o h
  refine ⟨si, hs, ?_, ?_⟩
  · intro p hp
    obtain ⟨h1, h2⟩ := fileLoop_parts _ _ _ _ _ _ _ hl p hp
    exact ⟨h1, fileTables_mem _ _ _ _ _ _ _ h2⟩
  · intro hplain pl tabs hr p hp
    obtain ⟨_, h2⟩ := fileLoop_parts _ _ _ _ _ _ _ hl p hp
    rw [fetchPlan_plain i _ hplain, (fileTables_readFile _ _ _ i.groups none).1 pl tabs hr] at h2
    obtain ⟨t, ht, he⟩ := List.mem_map.mp h2
    have he1 : t.1 = p.name := congrArg Prod.fst he
    have he2 : Except.ok (t.2.map (varOfRow i.flags si)) = (Except.ok p.vars : Except FileErr (List Var)) := congrArg Prod.snd he
    exact ⟨t, ht, he1.symm, (Except.ok.inj he2).symm⟩

/- full statement wanted: `fileRun i = .error (.reader e) ↔ C09.readFile i.onlySnvs none i.groups = .error e`.  The "if"
direction is false as it stands — with `--chromosome` the loop may leave before the table that raises is read (the early
exit), and on an indexed file only the given chromosomes are read; for an iterated file without `--chromosome` it needs
"no `TypeError` in the block list" (`fixPs`) in front of the raising table, not done here. -/
/-- **stats_error_iff_reader_error_partial**: on an iterated file, a run that ends in `MixedPhasingError` / `PloidyError` /
`VcfNotSortedError` / a malformed HP field ends so because the reader model raises exactly that error on the file —
whichever sample causes it; if `C09.readFile` accepts the file, the run raises no reader error. -/
theorem stats_error_iff_reader_error_partial (i : FileIn) (e : WhVerif.C09.Err)
    (hplain : i.indexed = false ∨ unpackChromosomes i.given = []) (h : fileRun i = .error (.reader e)) :
    WhVerif.C09.readFile i.onlySnvs none i.groups = .error e := by
  obtain ⟨si, c, _, hc⟩ := fileRun_reader_err i e h
  rw [fetchPlan_plain i _ hplain] at hc
  obtain ⟨hok, herr⟩ := fileTables_readFile i.flags i.onlySnvs si i.groups none
  cases hr : WhVerif.C09.readFile i.onlySnvs none i.groups with
  | ok v =>
    rw [hok v.1 v.2 hr] at hc
    obtain ⟨t, _, he⟩ := List.mem_map.mp hc
    cases he
  | error e' =>
    have := (herr e' hr).2 _ hc _ rfl
    cases this
    rfl

/-- **file_counts_the_selected_sample**: the counts of every row are the independent counts over the selected sample's
column of the reader's rows (no assumption on the reader left: its checks over all samples are in `fileRun`). -/
theorem file_counts_the_selected_sample (i : FileIn) (hf : i.flags.fixMissing = true) (o : RunOut) (h : fileRun i = .ok o) :
    ∀ p ∈ o.parts,
      (detailed p.stats).variants = specVariants p.vars ∧ (detailed p.stats).het = specHet p.vars ∧
      (detailed p.stats).hetSnvs = specHetSnvs p.vars ∧ (detailed p.stats).unphased = specUnphased p.vars ∧
      (detailed p.stats).phased = specPhased p.vars ∧ (detailed p.stats).singletons = specSingletons p.vars ∧
      (detailed p.stats).blocks = specBlocks p.vars ∧ (detailed p.stats).phasedSnvs = specPhasedSnvs p.vars := by
  obtain ⟨si, _, hl, _⟩ := fileRun_ok i o h
  intro p hp
  exact counts_eq_independent _ hf _ _ (fileLoop_parts _ _ _ _ _ _ _ hl p hp).1

/-- **file_sum_identity_and_all_row**: on the multi-sample file, too, every row and the ALL row satisfy phased + unphased +
singletons = heterozygous, and the ALL row is the column-wise sum of the chromosome rows; its block lengths are the
concatenation of theirs. -/
theorem file_sum_identity_and_all_row (i : FileIn) (o : RunOut) (h : fileRun i = .ok o) :
    (∀ p ∈ o.parts, (detailed p.stats).phased + (detailed p.stats).unphased + (detailed p.stats).singletons
      = (detailed p.stats).het) ∧
    ∀ a, o.all = some a →
      (detailed a).phased + (detailed a).unphased + (detailed a).singletons = (detailed a).het ∧
      (detailed a).additive
        = (o.parts.map (fun p => (detailed p.stats).additive)).foldl addVec (detailed ({} : Stats)).additive ∧
      (detailed a).lengths.Perm (o.parts.flatMap (fun p => (detailed p.stats).lengths)) := by
  obtain ⟨si, _, hl, hall⟩ := fileRun_ok i o h
  have hparts := fileLoop_parts _ _ _ _ _ _ _ hl
  refine ⟨fun p hp => sum_identity _ _ _ (hparts p hp).1, ?_⟩
  intro a ha
  rw [hall] at ha
  split at ha
  · cases ha
    have hc : ∀ s ∈ o.parts.map (·.stats), s.Consistent := by
      intro s hs
      obtain ⟨p, hp, rfl⟩ := List.mem_map.mp hs
      exact chrom_consistent _ _ _ (hparts p hp).1
    have hm := mapM_parts i.flags o.parts (fun p hp => (hparts p hp).1)
    have h1 := sum_identity_all i.flags _ _ hm
    have h2 := all_row_is_sum (o.parts.map (·.stats)) hc
    rw [List.map_map] at h2
    have h3 := all_lengths_perm (o.parts.map (·.stats)) hc
    rw [List.flatMap_map] at h3
    exact ⟨h1, h2, h3⟩
  · cases ha

/-- non-vacuity: a two-sample file, `--sample S2`: one chromosome row from S2's column (S2's call is phased, S1's is not) -/
example : ∃ i o, fileRun i = .ok o ∧ i.flags.fixMissing = true ∧ o.parts.map (·.vars) = [[⟨10, true, .het, some (some 7)⟩]] :=
  ⟨fxIn c2ps (some "S2"), _, fx_ok, rfl, rfl⟩
/-- … the run for the default sample S1 ends in `MixedPhasingError` because of the call of S2 (PS and HP at once); a sample
the file lacks is the error exit -/
example : ∃ i e, (i.indexed = false ∨ unpackChromosomes i.given = []) ∧ fileRun i = .error (.reader e) :=
  ⟨fxIn c2mixed none, .mixed, Or.inl rfl, fx_err⟩
example : fileRun (fxIn c2ps (some "S9")) = .error .sampleNotFound := fx_nf

end File

end WhVerif.Props.C12

namespace WhVerif.Props.C00
theorem t1 (n : Nat) : n + 0 = n := by simp
theorem t2 (p : Prop) : p ∨ ¬p := Classical.em p
end WhVerif.Props.C00

import WhVerif.Lemmas.C01Dp
import WhVerif.Lemmas.C01Flat
import WhVerif.Lemmas.C01Gray
import WhVerif.Lemmas.C01Table
import WhVerif.Lemmas.C01GrayOrder
import WhVerif.Lemmas.C01WitnessMain
import WhVerif.Lemmas.C01WitnessAlleles
import WhVerif.Lemmas.C01Input
import WhVerif.Lemmas.C01InputSort
/-!
# C01 — property theorems (about the model `WhVerif.C01` of `PedigreeDPTable`)

Statement of the property: "the cost reported by the default phasing algorithm equals the true minimum of the
weighted (Pedigree) MEC objective over all read bipartitions, transmission vectors and admissible allele
assignments".  `optCost` (Spec/C01.lean) is that minimum by plain enumeration; `dpCost` (Model/C01.lean) is the
column DP with forward/backward projections as the code computes it.
-/
namespace WhVerif.Props.C01
open WhVerif.C01 WhVerif.Cost

/-- **Optimality**, unbounded in reads, columns, coverage, individuals, trios, weights, genotype constraints
(trusted or phred) and recombination costs: for every instance whose reads are sorted by first column, the DP
value is the minimum of the objective over ALL bipartitions of the reads and ALL transmission vectors. -/
theorem dp_optimal (I : Inst) (h : WF I) : dpCost I = optCost I :=
  dpCost_eq_optCost I h

/-- the same, spelled out without `minOver`: `dpCost` is a lower bound of the objective on every solution and
is attained by some solution (or is `none` = infeasible, and then every solution is infeasible). -/
theorem dp_optimal_spelled (I : Inst) (h : WF I) :
    (∀ β τ, β.length = I.nreads → τ.length = I.ncols → (∀ t ∈ τ, t < I.ntrans) →
        cle (dpCost I) (totalCost I β τ)) ∧
    (dpCost I = none ∨ ∃ β τ, β.length = I.nreads ∧ τ.length = I.ncols ∧ (∀ t ∈ τ, t < I.ntrans) ∧
        totalCost I β τ = dpCost I) := by
  rw [dp_optimal I h]
  have hm := minOver_isMin (solutions I) (fun s => totalCost I s.1 s.2)
  constructor
  · intro β τ h1 h2 h3
    exact hm.lb (β, τ) ((mem_solutions I (β, τ)).mpr ⟨h1, h2, h3⟩)
  · rcases hm.att with e | ⟨⟨β, τ⟩, hx, e⟩
    · exact Or.inl e
    · have := (mem_solutions I (β, τ)).mp hx
      exact Or.inr ⟨β, τ, this.1, this.2.1, this.2.2, e⟩

/-- the objective minimised column by column (`optCost`) is the minimum over ALL triples (bipartition,
transmission vector, explicit allele assignment per column) of `solutionCost` — the property's wording -/
theorem objective_flattened (I : Inst) : optCost3 I = optCost I := optCost3_eq_optCost I

/-- **Optimality against the fully explicit objective** -/
theorem dp_optimal_explicit (I : Inst) (h : WF I) : dpCost I = optCost3 I := by
  rw [objective_flattened, dp_optimal I h]

/-- infeasibility (the "Mendelian conflict" exception) means that NO bipartition / transmission vector has an
admissible allele assignment in every column -/
theorem infeasible_iff (I : Inst) (h : WF I) :
    dpCost I = none ↔ ∀ β τ, β.length = I.nreads → τ.length = I.ncols → (∀ t ∈ τ, t < I.ntrans) →
      totalCost I β τ = none := by
  have hs := dp_optimal_spelled I h
  constructor
  · intro hn β τ h1 h2 h3
    have := hs.1 β τ h1 h2 h3
    rw [hn] at this
    cases hc : totalCost I β τ with
    | none => rfl
    | some v => rw [hc] at this; simp [cle] at this
  · intro hall
    rcases hs.2 with e | ⟨β, τ, h1, h2, h3, e⟩
    · exact e
    · rw [← e]; exact hall β τ h1 h2 h3

/-- the code's backward projection `index & (2^w - 1)` is the restriction of the bipartition to the reads
shared with the previous column — because (and only because) reads are sorted -/
theorem backproj_is_restriction (I : Inst) (h : WF I) (c : Nat) (β : List Bool) :
    (restrict β (I.activeAt (c + 1))).take (I.sharedAt c).length = restrict β (I.sharedAt c) := by
  unfold restrict
  rw [← List.map_take, shared_prefix I h c]

/-- and on indices: `idx % 2^w` encodes the first `w` bits -/
theorem backproj_index (k w idx : Nat) (h : idx < 2 ^ k) :
    natOfBits ((bitsOf k idx).take w) = idx % 2 ^ w := by
  rw [natOfBits_take, natOfBits_bitsOf k idx h]

/-! ## the witness and the tie flags -/

/-- **Witness**: the read bipartition and transmission vector recovered by the backtrace are a well-formed
solution that achieves exactly the reported cost -/
theorem dp_witness (I : Inst) (h : WF I) (β : List Bool) (τ : List Nat) (hw : witness I = some (β, τ)) :
    β.length = I.nreads ∧ τ.length = I.ncols ∧ (∀ t ∈ τ, t < I.ntrans) ∧ totalCost I β τ = dpCost I :=
  WhVerif.C01.dp_witness I h β τ hw

/-- a witness exists exactly when the instance is feasible -/
theorem witness_none_iff (I : Inst) : witness I = none ↔ dpCost I = none := WhVerif.C01.witness_none_iff I

/-- `get_alleles` raises ("Mendelian conflict") iff the column has no admissible allele assignment -/
theorem getAlleles_none_iff (I : Inst) (c : Nat) (bs : List Bool) (t : Nat) :
    getAlleles I c bs t = none ↔ assignments I c t = [] := WhVerif.C01.getAlleles_none_iff I c bs t

/-- **Tie flags**: an allele of the returned haplotypes that is not flagged as tie (3) agrees with EVERY
cost-optimal admissible allele assignment of its column; a flagged one has optimal assignments both ways -/
theorem nontie_forced (I : Inst) (c : Nat) (bs : List Bool) (t : Nat) (L : List (Nat × Nat))
    (hL : getAlleles I c bs t = some L) (ind h : Nat) (hind : ind < I.nind) (hh : h = 0 ∨ h = 1) :
    (reported L ind h = 0 ∨ reported L ind h = 1 ∨ reported L ind h = 3) ∧
    (reported L ind h ≠ 3 → ∀ ag, IsOptAssign I c bs t ag → bitOf ag.1 (h2p I t ind h) = reported L ind h) ∧
    (reported L ind h = 3 →
        (∃ ag, IsOptAssign I c bs t ag ∧ bitOf ag.1 (h2p I t ind h) = 0) ∧
        (∃ ag, IsOptAssign I c bs t ag ∧ bitOf ag.1 (h2p I t ind h) = 1)) :=
  WhVerif.C01.nontie_forced I c bs t L hL ind h hind hh

/-- non-vacuity of `nontie_forced`: optimal assignments exist whenever any assignment is admissible -/
theorem opt_assign_exists (I : Inst) (c : Nat) (bs : List Bool) (t : Nat) (h : assignments I c t ≠ []) :
    ∃ ag, IsOptAssign I c bs t ag := WhVerif.C01.opt_assign_exists I c bs t h

/-! ## the code-level enumeration: Gray code and incremental cost table -/

/-- `GrayCodes` (src/graycodes.cpp, state `(c, s, i, changed)` as coded) enumerates every bipartition index of a
column exactly once, starting at 0, and the bit it reports as changed is exactly the bit in which consecutive
codes differ (what `update_partitioning(bit)` relies on). -/
theorem gray_enumerates (n : Nat) :
    (grayList n).length = 2 ^ n ∧
    (grayList n).head? = some (0, -1) ∧
    ((grayList n).map Prod.fst).Nodup ∧
    (∀ p ∈ grayList n, p.1 < 2 ^ n) ∧
    (∀ k, (h : k + 1 < (grayList n).length) →
      0 ≤ (grayList n)[k+1].2 ∧ (grayList n)[k+1].2.toNat < n ∧
      (grayList n)[k+1].1 = (grayList n)[k].1 ^^^ (1 <<< (grayList n)[k+1].2.toNat)) :=
  WhVerif.C01.gray_enumerates n

theorem gray_exactly_once (n idx : Nat) (h : idx < 2 ^ n) : ((grayList n).map Prod.fst).count idx = 1 :=
  WhVerif.C01.gray_exactly_once n idx h

/-- `get_cost()` through the per-partition table `cost_partition[p][allele]` equals the per-read definition -/
theorem colCostTab_eq_colCost (I : Inst) (c : Nat) (bs : List Bool) (t : Nat) (h : TabWF I c t) :
    colCostTab I c bs t = colCost I c bs t :=
  WhVerif.C01.colCostTab_eq_colCost I c bs t h

/-- `update_partitioning(bit)` on the table of `bs` gives the table `set_partitioning` computes for `bs` with
that bit flipped -/
theorem flip_eq_set (I : Inst) (c t : Nat) (bs : List Bool) (i : Nat) (hi : i < bs.length)
    (hl : bs.length = (I.activeAt c).length) :
    flipTable I c t bs (costTable I c t bs) i = costTable I c t (bs.set i (!(bs.getD i false))) :=
  WhVerif.C01.flip_eq_set I c t bs i hi hl

/-- the bipartition loop of `compute_column`: after the first `k+1` Gray codes the incrementally maintained
table is exactly the table of the current code -/
theorem walk_in_sync (I : Inst) (c t k : Nat) (hk : k < 2 ^ (I.activeAt c).length) :
    ((grayList (I.activeAt c).length).take (k + 1)).foldl (walkStep I c t (I.activeAt c).length)
        (walkInit I (I.activeAt c).length) =
      (bitsOf (I.activeAt c).length (gray k), costTable I c t (bitsOf (I.activeAt c).length (gray k))) :=
  WhVerif.C01.walk_in_sync I c t k hk

example : TabWF exTrio 0 2 := by apply TabWF_of_check; decide

/-- `compute_column` visits the bipartitions in Gray-code order and keeps strict minima; the executable model
visits them in index order. The projection column (and the last column's optimum) is the same: it only depends
on the SET of cells, and the Gray code visits every index exactly once. -/
theorem projTable_gray_order (I : Inst) (c : Nat) (prev : Array (Option Nat)) (k : Nat)
    (hk : k < 2 ^ (I.sharedAt c).length * I.ntrans) :
    (bucketMin (2 ^ (I.sharedAt c).length * I.ntrans) (grayPairs (I.activeAt c).length I.ntrans)
        (fun it => natOfBits (fwdBits I c (bitsOf (I.activeAt c).length it.1)) * I.ntrans + it.2)
        (fun it => dpCell I c prev it.1 it.2)).getD k none
      = (projTable I c prev).getD k none :=
  WhVerif.C01.projTable_gray_order I c prev k hk

theorem lastCol_gray_order (I : Inst) (c : Nat) (prev : Array (Option Nat)) :
    minOver (grayPairs (I.activeAt c).length I.ntrans) (fun it => dpCell I c prev it.1 it.2)
      = minOver (pairs (2 ^ (I.activeAt c).length) I.ntrans) (fun it => dpCell I c prev it.1 it.2) :=
  WhVerif.C01.lastCol_gray_order I c prev

/-! Non-vacuity: a concrete trio instance (3 reads, 3 columns, distinct weights) satisfies `WF`, and the
theorem's two sides evaluate to the same non-trivial number. -/
def exampleInst : Inst :=
  { ncols := 3
    reads := [ { ind := 0, first := 0, last := 2, entries := [(0, 0, 5), (1, 1, 7), (2, 0, 3)] },
               { ind := 2, first := 0, last := 1, entries := [(0, 1, 4), (1, 1, 6)] },
               { ind := 2, first := 1, last := 2, entries := [(1, 0, 2), (2, 1, 9)] } ]
    nind := 3
    trios := [(0, 1, 2)]
    geno := [ [[none, some 0, none], [none, some 0, none], [none, some 0, none]],
              [[some 0, none, none], [none, some 0, none], [some 0, none, none]],
              [[none, some 0, none], [none, some 0, none], [none, some 0, none]] ]
    recomb := [0, 10, 10] }

theorem exampleInst_wf : WF exampleInst := by
  constructor
  intro r1 r2 h1 h2
  have hall : ∀ r2, r2 < 3 → ∀ r1, r1 ≤ r2 → (exampleInst.read r1).first ≤ (exampleInst.read r2).first := by
    decide
  exact hall r2 h2 r1 h1

example : dpCost exampleInst = optCost exampleInst := dp_optimal _ exampleInst_wf

example : ∃ β τ, witness exampleInst = some (β, τ) ∧ totalCost exampleInst β τ = dpCost exampleInst := by
  have h : (witness exampleInst).isSome = true := by decide +kernel
  obtain ⟨⟨β, τ⟩, hw⟩ := Option.isSome_iff_exists.mp h
  exact ⟨β, τ, hw, (dp_witness _ exampleInst_wf β τ hw).2.2.2⟩

/-! ## the solver's real input: ReadSet + `positions` (Model/C01Input.lean models `ColumnIterator`'s conversion)

`mkInst positions reads …` is the instance the DP runs on when `PedigreeDPTable` is constructed from a ReadSet
whose reads (in ReadSet order) are `reads` and from the `positions` vector; `none` = the constructor does not
return (exceptions "reads in ReadSet are not sorted" / "read with unsorted variants" / "No variants present",
the asserts on first/last position not being a column) or `positions` is not strictly increasing (interface
precondition). -/

/-- whenever the constructor accepts the input, the instance satisfies the precondition of `dp_optimal`:
sortedness by first *position* (what the code checks) is sortedness by first *column* (what the DP needs) -/
theorem mkInst_wf (positions : List Nat) (reads : List RawRead) (nind : Nat) (trios : List (Nat × Nat × Nat))
    (geno : List (List (List (Option Nat)))) (recomb : List Nat) (I : Inst)
    (h : mkInst positions reads nind trios geno recomb = some I) : WF I :=
  WhVerif.C01.mkInst_wf h

/-- every read of the instance spans a column interval `first ≤ last < ncols` (so the code's two further
asserts can never fire), all its entries lie inside the span, and it has real entries at both ends -/
theorem mkInst_spans (positions : List Nat) (reads : List RawRead) (nind : Nat) (trios : List (Nat × Nat × Nat))
    (geno : List (List (List (Option Nat)))) (recomb : List Nat) (I : Inst)
    (h : mkInst positions reads nind trios geno recomb = some I) :
    (∀ r, r < I.nreads → (I.read r).first ≤ (I.read r).last ∧ (I.read r).last < I.ncols) ∧
    (∀ r, r < I.nreads → ∀ e ∈ (I.read r).entries, (I.read r).first ≤ e.1 ∧ e.1 ≤ (I.read r).last) ∧
    (∀ r, r < I.nreads → ((I.read r).entryAt (I.read r).first).isSome ∧
      ((I.read r).entryAt (I.read r).last).isSome) := by
  have s := WhVerif.C01.mkInst_spans h
  exact ⟨fun r hr => ⟨s.first_le_last r hr, s.last_lt r hr⟩, s.entries_in, s.ends⟩

/-- **the conversion is faithful**: in every column `c` the active reads (id order) with their entries or BLANK,
as the DP model reads them off the instance, are what `ColumnIterator::get_next` computes from the ReadSet at
the genomic position `positions[c]` — reads with `firstPosition ≤ p ≤ lastPosition`, each with the variant stored
at `p` if any (variants at positions that are not columns are never seen) -/
theorem mkInst_column (positions : List Nat) (reads : List RawRead) (nind : Nat) (trios : List (Nat × Nat × Nat))
    (geno : List (List (List (Option Nat)))) (recomb : List Nat) (I : Inst)
    (h : mkInst positions reads nind trios geno recomb = some I) (c : Nat) (hc : c < positions.length) :
    I.ncols = positions.length ∧ I.column c = rawColumn reads positions[c] :=
  ⟨(WhVerif.C01.mkInst_some h).2.2.1, WhVerif.C01.mkInst_column h c hc⟩

/-- **Optimality on the real input**: whenever `PedigreeDPTable`'s constructor accepts a ReadSet, the DP value
is the true minimum of the (Ped)MEC objective of the resulting instance — no hypothesis left -/
theorem dp_optimal_raw (positions : List Nat) (reads : List RawRead) (nind : Nat)
    (trios : List (Nat × Nat × Nat)) (geno : List (List (List (Option Nat)))) (recomb : List Nat) (I : Inst)
    (h : mkInst positions reads nind trios geno recomb = some I) : dpCost I = optCost I :=
  dp_optimal I (WhVerif.C01.mkInst_wf h)

/-- `ReadSet::sort()` (comparator model `C16.readLt`) makes the constructor's sortedness check pass: a sorted
ReadSet of reads with variants is never rejected as "reads in ReadSet are not sorted" -/
theorem sorted_readset_not_rejected_as_unsorted (l : List (WhVerif.C16.ReadKey × RawRead))
    (hkey : ∀ x ∈ l, x.1.hasVariants = true ∧ x.1.firstPos = x.2.firstPos)
    (positions : List Nat) (nind : Nat) (trios : List (Nat × Nat × Nat))
    (geno : List (List (List (Option Nat)))) (recomb : List Nat) :
    mkInstE positions ((WhVerif.C16.sortReads l).map (fun x => x.2)) nind trios geno recomb
      ≠ .error .readsUnsorted :=
  WhVerif.C01.sorted_readset_not_rejected_as_unsorted l hkey positions nind trios geno recomb

/-! Non-vacuity: a ReadSet over genomic positions (one variant of the first read sits at position 260, which is
not a column and is skipped) converts to `exampleInst`. -/
def exampleRaw : List RawRead :=
  [ { ind := 0, variants := [(100, 0, 5), (250, 1, 7), (260, 1, 99), (300, 0, 3)] },
    { ind := 2, variants := [(100, 1, 4), (250, 1, 6)] },
    { ind := 2, variants := [(250, 0, 2), (300, 1, 9)] } ]

theorem exampleRaw_ok : mkInst [100, 250, 300] exampleRaw exampleInst.nind exampleInst.trios exampleInst.geno
    exampleInst.recomb = some exampleInst := by rfl

example : WF exampleInst := mkInst_wf _ _ _ _ _ _ _ exampleRaw_ok
example : dpCost exampleInst = optCost exampleInst := dp_optimal_raw _ _ _ _ _ _ _ exampleRaw_ok
example : exampleInst.column 1 = rawColumn exampleRaw 250 := (mkInst_column _ _ _ _ _ _ _ exampleRaw_ok 1 (by decide)).2
/-- the rejections are real: unsorted reads, unsorted variants, a first position that is no column -/
example : mkInstE [100, 250, 300] exampleRaw.reverse 3 [] [] [] = .error .readsUnsorted := by rfl
example : mkInstE [100, 250] [{ ind := 0, variants := [(250, 0, 1), (100, 1, 1)] }] 1 [] [] []
    = .error .variantsUnsorted := by rfl
example : mkInstE [100, 250] [{ ind := 0, variants := [(90, 0, 1), (100, 1, 1)] }] 1 [] [] []
    = .error .positionNotAColumn := by rfl

end WhVerif.Props.C01

import WhVerif.Spec.C01
namespace WhVerif.Props.C01
open WhVerif.C01
theorem placeholder_popcount_zero : popcount 0 = 0 := by unfold popcount; simp
end WhVerif.Props.C01

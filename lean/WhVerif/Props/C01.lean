import WhVerif.Lemmas.C01Dp
import WhVerif.Lemmas.C01Flat
import WhVerif.Lemmas.C01Gray
import WhVerif.Lemmas.C01Table
import WhVerif.Lemmas.C01GrayOrder
import WhVerif.Lemmas.C01WitnessMain
import WhVerif.Lemmas.C01WitnessAlleles
import WhVerif.Lemmas.C01Input
import WhVerif.Lemmas.C01InputSort
import WhVerif.Lemmas.C01CkptMain
import WhVerif.Lemmas.C01U32
import WhVerif.Model.C01Query
import WhVerif.Lemmas.C01PedApi
import WhVerif.Lemmas.C01PedPart
/-!
# C01 — property theorems (about the model `WhVerif.C01` of `PedigreeDPTable`)

Statement of the property: "the cost reported by the default phasing algorithm equals the true minimum of the
weighted (Pedigree) MEC objective over all read bipartitions, transmission vectors and admissible allele
assignments".  `optCost` (Spec/C01.lean) is that minimum by plain enumeration; `dpCost` (Model/C01.lean) is the
column DP with forward/backward projections as the code computes it.
-/
namespace WhVerif.Props.C01
open WhVerif.C01 WhVerif.Cost

/-- **Optimality**, unbounded in reads, columns, coverage, individuals, trios, weights, genotype constraints
(trusted or phred) and recombination costs: for every instance whose reads are sorted by first column, the DP
value is the minimum of the objective over ALL bipartitions of the reads and ALL transmission vectors. -/
theorem dp_optimal (I : Inst) (h : WF I) : dpCost I = optCost I :=
  dpCost_eq_optCost I h

/-- the same, spelled out without `minOver`: `dpCost` is a lower bound of the objective on every solution and
is attained by some solution (or is `none` = infeasible, and then every solution is infeasible). -/
theorem dp_optimal_spelled (I : Inst) (h : WF I) :
    (∀ β τ, β.length = I.nreads → τ.length = I.ncols → (∀ t ∈ τ, t < I.ntrans) →
        cle (dpCost I) (totalCost I β τ)) ∧
    (dpCost I = none ∨ ∃ β τ, β.length = I.nreads ∧ τ.length = I.ncols ∧ (∀ t ∈ τ, t < I.ntrans) ∧
        totalCost I β τ = dpCost I) := by
  rw [dp_optimal I h]
  have hm := minOver_isMin (solutions I) (fun s => totalCost I s.1 s.2)
  constructor
  · intro β τ h1 h2 h3
    exact hm.lb (β, τ) ((mem_solutions I (β, τ)).mpr ⟨h1, h2, h3⟩)
  · rcases hm.att with e | ⟨⟨β, τ⟩, hx, e⟩
    · exact Or.inl e
    · have := (mem_solutions I (β, τ)).mp hx
      exact Or.inr ⟨β, τ, this.1, this.2.1, this.2.2, e⟩

/-- the objective minimised column by column (`optCost`) is the minimum over ALL triples (bipartition,
transmission vector, explicit allele assignment per column) of `solutionCost` — the property's wording -/
theorem objective_flattened (I : Inst) : optCost3 I = optCost I := optCost3_eq_optCost I

/-- **Optimality against the fully explicit objective** -/
theorem dp_optimal_explicit (I : Inst) (h : WF I) : dpCost I = optCost3 I := by
  rw [objective_flattened, dp_optimal I h]

/-- infeasibility (the "Mendelian conflict" exception) means that NO bipartition / transmission vector has an
admissible allele assignment in every column -/
theorem infeasible_iff (I : Inst) (h : WF I) :
    dpCost I = none ↔ ∀ β τ, β.length = I.nreads → τ.length = I.ncols → (∀ t ∈ τ, t < I.ntrans) →
      totalCost I β τ = none := by
  have hs := dp_optimal_spelled I h
  constructor
  · intro hn β τ h1 h2 h3
    have := hs.1 β τ h1 h2 h3
    rw [hn] at this
    cases hc : totalCost I β τ with
    | none => rfl
    | some v => rw [hc] at this; simp [cle] at this
  · intro hall
    rcases hs.2 with e | ⟨β, τ, h1, h2, h3, e⟩
    · exact e
    · rw [← e]; exact hall β τ h1 h2 h3

/-- the code's backward projection `index & (2^w - 1)` is the restriction of the bipartition to the reads
shared with the previous column — because (and only because) reads are sorted -/
theorem backproj_is_restriction (I : Inst) (h : WF I) (c : Nat) (β : List Bool) :
    (restrict β (I.activeAt (c + 1))).take (I.sharedAt c).length = restrict β (I.sharedAt c) := by
  unfold restrict
  rw [← List.map_take, shared_prefix I h c]

/-- and on indices: `idx % 2^w` encodes the first `w` bits -/
theorem backproj_index (k w idx : Nat) (h : idx < 2 ^ k) :
    natOfBits ((bitsOf k idx).take w) = idx % 2 ^ w := by
  rw [natOfBits_take, natOfBits_bitsOf k idx h]

/-! ## the witness and the tie flags -/

/-- **Witness**: the read bipartition and transmission vector recovered by the backtrace are a well-formed
solution that achieves exactly the reported cost -/
theorem dp_witness (I : Inst) (h : WF I) (β : List Bool) (τ : List Nat) (hw : witness I = some (β, τ)) :
    β.length = I.nreads ∧ τ.length = I.ncols ∧ (∀ t ∈ τ, t < I.ntrans) ∧ totalCost I β τ = dpCost I :=
  WhVerif.C01.dp_witness I h β τ hw

/-- a witness exists exactly when the instance is feasible -/
theorem witness_none_iff (I : Inst) : witness I = none ↔ dpCost I = none := WhVerif.C01.witness_none_iff I

/-- `get_alleles` raises ("Mendelian conflict") iff the column has no admissible allele assignment -/
theorem getAlleles_none_iff (I : Inst) (c : Nat) (bs : List Bool) (t : Nat) :
    getAlleles I c bs t = none ↔ assignments I c t = [] := WhVerif.C01.getAlleles_none_iff I c bs t

/-- **Tie flags**: an allele of the returned haplotypes that is not flagged as tie (3) agrees with EVERY
cost-optimal admissible allele assignment of its column; a flagged one has optimal assignments both ways -/
theorem nontie_forced (I : Inst) (c : Nat) (bs : List Bool) (t : Nat) (L : List (Nat × Nat))
    (hL : getAlleles I c bs t = some L) (ind h : Nat) (hind : ind < I.nind) (hh : h = 0 ∨ h = 1) :
    (reported L ind h = 0 ∨ reported L ind h = 1 ∨ reported L ind h = 3) ∧
    (reported L ind h ≠ 3 → ∀ ag, IsOptAssign I c bs t ag → bitOf ag.1 (h2p I t ind h) = reported L ind h) ∧
    (reported L ind h = 3 →
        (∃ ag, IsOptAssign I c bs t ag ∧ bitOf ag.1 (h2p I t ind h) = 0) ∧
        (∃ ag, IsOptAssign I c bs t ag ∧ bitOf ag.1 (h2p I t ind h) = 1)) :=
  WhVerif.C01.nontie_forced I c bs t L hL ind h hind hh

/-- non-vacuity of `nontie_forced`: optimal assignments exist whenever any assignment is admissible -/
theorem opt_assign_exists (I : Inst) (c : Nat) (bs : List Bool) (t : Nat) (h : assignments I c t ≠ []) :
    ∃ ag, IsOptAssign I c bs t ag := WhVerif.C01.opt_assign_exists I c bs t h

/-! ## the code-level enumeration: Gray code and incremental cost table -/

/-- `GrayCodes` (src/graycodes.cpp, state `(c, s, i, changed)` as coded) enumerates every bipartition index of a
column exactly once, starting at 0, and the bit it reports as changed is exactly the bit in which consecutive
codes differ (what `update_partitioning(bit)` relies on). -/
theorem gray_enumerates (n : Nat) :
    (grayList n).length = 2 ^ n ∧
    (grayList n).head? = some (0, -1) ∧
    ((grayList n).map Prod.fst).Nodup ∧
    (∀ p ∈ grayList n, p.1 < 2 ^ n) ∧
    (∀ k, (h : k + 1 < (grayList n).length) →
      0 ≤ (grayList n)[k+1].2 ∧ (grayList n)[k+1].2.toNat < n ∧
      (grayList n)[k+1].1 = (grayList n)[k].1 ^^^ (1 <<< (grayList n)[k+1].2.toNat)) :=
  WhVerif.C01.gray_enumerates n

theorem gray_exactly_once (n idx : Nat) (h : idx < 2 ^ n) : ((grayList n).map Prod.fst).count idx = 1 :=
  WhVerif.C01.gray_exactly_once n idx h

/-- `get_cost()` through the per-partition table `cost_partition[p][allele]` equals the per-read definition -/
theorem colCostTab_eq_colCost (I : Inst) (c : Nat) (bs : List Bool) (t : Nat) (h : TabWF I c t) :
    colCostTab I c bs t = colCost I c bs t :=
  WhVerif.C01.colCostTab_eq_colCost I c bs t h

/-- `update_partitioning(bit)` on the table of `bs` gives the table `set_partitioning` computes for `bs` with
that bit flipped -/
theorem flip_eq_set (I : Inst) (c t : Nat) (bs : List Bool) (i : Nat) (hi : i < bs.length)
    (hl : bs.length = (I.activeAt c).length) :
    flipTable I c t bs (costTable I c t bs) i = costTable I c t (bs.set i (!(bs.getD i false))) :=
  WhVerif.C01.flip_eq_set I c t bs i hi hl

/-- the bipartition loop of `compute_column`: after the first `k+1` Gray codes the incrementally maintained
table is exactly the table of the current code -/
theorem walk_in_sync (I : Inst) (c t k : Nat) (hk : k < 2 ^ (I.activeAt c).length) :
    ((grayList (I.activeAt c).length).take (k + 1)).foldl (walkStep I c t (I.activeAt c).length)
        (walkInit I (I.activeAt c).length) =
      (bitsOf (I.activeAt c).length (gray k), costTable I c t (bitsOf (I.activeAt c).length (gray k))) :=
  WhVerif.C01.walk_in_sync I c t k hk

example : TabWF exTrio 0 2 := by apply TabWF_of_check; decide

/-- `compute_column` visits the bipartitions in Gray-code order and keeps strict minima; the executable model
visits them in index order. The projection column (and the last column's optimum) is the same: it only depends
on the SET of cells, and the Gray code visits every index exactly once. -/
theorem projTable_gray_order (I : Inst) (c : Nat) (prev : Array (Option Nat)) (k : Nat)
    (hk : k < 2 ^ (I.sharedAt c).length * I.ntrans) :
    (bucketMin (2 ^ (I.sharedAt c).length * I.ntrans) (grayPairs (I.activeAt c).length I.ntrans)
        (fun it => natOfBits (fwdBits I c (bitsOf (I.activeAt c).length it.1)) * I.ntrans + it.2)
        (fun it => dpCell I c prev it.1 it.2)).getD k none
      = (projTable I c prev).getD k none :=
  WhVerif.C01.projTable_gray_order I c prev k hk

theorem lastCol_gray_order (I : Inst) (c : Nat) (prev : Array (Option Nat)) :
    minOver (grayPairs (I.activeAt c).length I.ntrans) (fun it => dpCell I c prev it.1 it.2)
      = minOver (pairs (2 ^ (I.activeAt c).length) I.ntrans) (fun it => dpCell I c prev it.1 it.2) :=
  WhVerif.C01.lastCol_gray_order I c prev

/-! Non-vacuity: a concrete trio instance (3 reads, 3 columns, distinct weights) satisfies `WF`, and the
theorem's two sides evaluate to the same non-trivial number. -/
def exampleInst : Inst :=
  { ncols := 3
    reads := [ { ind := 0, first := 0, last := 2, entries := [(0, 0, 5), (1, 1, 7), (2, 0, 3)] },
               { ind := 2, first := 0, last := 1, entries := [(0, 1, 4), (1, 1, 6)] },
               { ind := 2, first := 1, last := 2, entries := [(1, 0, 2), (2, 1, 9)] } ]
    nind := 3
    trios := [(0, 1, 2)]
    geno := [ [[none, some 0, none], [none, some 0, none], [none, some 0, none]],
              [[some 0, none, none], [none, some 0, none], [some 0, none, none]],
              [[none, some 0, none], [none, some 0, none], [none, some 0, none]] ]
    recomb := [0, 10, 10] }

theorem exampleInst_wf : WF exampleInst := by
  constructor
  intro r1 r2 h1 h2
  have hall : ∀ r2, r2 < 3 → ∀ r1, r1 ≤ r2 → (exampleInst.read r1).first ≤ (exampleInst.read r2).first := by
    decide
  exact hall r2 h2 r1 h1

example : dpCost exampleInst = optCost exampleInst := dp_optimal _ exampleInst_wf

example : ∃ β τ, witness exampleInst = some (β, τ) ∧ totalCost exampleInst β τ = dpCost exampleInst := by
  have h : (witness exampleInst).isSome = true := by decide +kernel
  obtain ⟨⟨β, τ⟩, hw⟩ := Option.isSome_iff_exists.mp h
  exact ⟨β, τ, hw, (dp_witness _ exampleInst_wf β τ hw).2.2.2⟩

/-! ## the solver's real input: ReadSet + `positions` (Model/C01Input.lean models `ColumnIterator`'s conversion)

`mkInst positions reads …` is the instance the DP runs on when `PedigreeDPTable` is constructed from a ReadSet
whose reads (in ReadSet order) are `reads` and from the `positions` vector; `none` = the constructor does not
return (exceptions "reads in ReadSet are not sorted" / "read with unsorted variants" / "No variants present",
the asserts on first/last position not being a column) or `positions` is not strictly increasing (interface
precondition). -/

/-- whenever the constructor accepts the input, the instance satisfies the precondition of `dp_optimal`:
sortedness by first *position* (what the code checks) is sortedness by first *column* (what the DP needs) -/
theorem mkInst_wf (positions : List Nat) (reads : List RawRead) (nind : Nat) (trios : List (Nat × Nat × Nat))
    (geno : List (List (List (Option Nat)))) (recomb : List Nat) (I : Inst)
    (h : mkInst positions reads nind trios geno recomb = some I) : WF I :=
  WhVerif.C01.mkInst_wf h

/-- every read of the instance spans a column interval `first ≤ last < ncols` (so the code's two further
asserts can never fire), all its entries lie inside the span, and it has real entries at both ends -/
theorem mkInst_spans (positions : List Nat) (reads : List RawRead) (nind : Nat) (trios : List (Nat × Nat × Nat))
    (geno : List (List (List (Option Nat)))) (recomb : List Nat) (I : Inst)
    (h : mkInst positions reads nind trios geno recomb = some I) :
    (∀ r, r < I.nreads → (I.read r).first ≤ (I.read r).last ∧ (I.read r).last < I.ncols) ∧
    (∀ r, r < I.nreads → ∀ e ∈ (I.read r).entries, (I.read r).first ≤ e.1 ∧ e.1 ≤ (I.read r).last) ∧
    (∀ r, r < I.nreads → ((I.read r).entryAt (I.read r).first).isSome ∧
      ((I.read r).entryAt (I.read r).last).isSome) := by
  have s := WhVerif.C01.mkInst_spans h
  exact ⟨fun r hr => ⟨s.first_le_last r hr, s.last_lt r hr⟩, s.entries_in, s.ends⟩

/-- **the conversion is faithful**: in every column `c` the active reads (id order) with their entries or BLANK,
as the DP model reads them off the instance, are what `ColumnIterator::get_next` computes from the ReadSet at
the genomic position `positions[c]` — reads with `firstPosition ≤ p ≤ lastPosition`, each with the variant stored
at `p` if any (variants at positions that are not columns are never seen) -/
theorem mkInst_column (positions : List Nat) (reads : List RawRead) (nind : Nat) (trios : List (Nat × Nat × Nat))
    (geno : List (List (List (Option Nat)))) (recomb : List Nat) (I : Inst)
    (h : mkInst positions reads nind trios geno recomb = some I) (c : Nat) (hc : c < positions.length) :
    I.ncols = positions.length ∧ I.column c = rawColumn reads positions[c] :=
  ⟨(WhVerif.C01.mkInst_some h).2.2.1, WhVerif.C01.mkInst_column h c hc⟩

/-- **Optimality on the real input**: whenever `PedigreeDPTable`'s constructor accepts a ReadSet, the DP value
is the true minimum of the (Ped)MEC objective of the resulting instance — no hypothesis left -/
theorem dp_optimal_raw (positions : List Nat) (reads : List RawRead) (nind : Nat)
    (trios : List (Nat × Nat × Nat)) (geno : List (List (List (Option Nat)))) (recomb : List Nat) (I : Inst)
    (h : mkInst positions reads nind trios geno recomb = some I) : dpCost I = optCost I :=
  dp_optimal I (WhVerif.C01.mkInst_wf h)

/-- `ReadSet::sort()` (comparator model `C16.readLt`) makes the constructor's sortedness check pass: a sorted
ReadSet of reads with variants is never rejected as "reads in ReadSet are not sorted" -/
theorem sorted_readset_not_rejected_as_unsorted (l : List (WhVerif.C16.ReadKey × RawRead))
    (hkey : ∀ x ∈ l, x.1.hasVariants = true ∧ x.1.firstPos = x.2.firstPos)
    (positions : List Nat) (nind : Nat) (trios : List (Nat × Nat × Nat))
    (geno : List (List (List (Option Nat)))) (recomb : List Nat) :
    mkInstE positions ((WhVerif.C16.sortReads l).map (fun x => x.2)) nind trios geno recomb
      ≠ .error .readsUnsorted :=
  WhVerif.C01.sorted_readset_not_rejected_as_unsorted l hkey positions nind trios geno recomb

/-! Non-vacuity: a ReadSet over genomic positions (one variant of the first read sits at position 260, which is
not a column and is skipped) converts to `exampleInst`. -/
def exampleRaw : List RawRead :=
  [ { ind := 0, variants := [(100, 0, 5), (250, 1, 7), (260, 1, 99), (300, 0, 3)] },
    { ind := 2, variants := [(100, 1, 4), (250, 1, 6)] },
    { ind := 2, variants := [(250, 0, 2), (300, 1, 9)] } ]

theorem exampleRaw_ok : mkInst [100, 250, 300] exampleRaw exampleInst.nind exampleInst.trios exampleInst.geno
    exampleInst.recomb = some exampleInst := by rfl

example : WF exampleInst := mkInst_wf _ _ _ _ _ _ _ exampleRaw_ok
example : dpCost exampleInst = optCost exampleInst := dp_optimal_raw _ _ _ _ _ _ _ exampleRaw_ok
example : exampleInst.column 1 = rawColumn exampleRaw 250 := (mkInst_column _ _ _ _ _ _ _ exampleRaw_ok 1 (by decide)).2
/-- the rejections are real: unsorted reads, unsorted variants, a first position that is no column -/
example : mkInstE [100, 250, 300] exampleRaw.reverse 3 [] [] [] = .error .readsUnsorted := by rfl
example : mkInstE [100, 250] [{ ind := 0, variants := [(250, 0, 1), (100, 1, 1)] }] 1 [] [] []
    = .error .variantsUnsorted := by rfl
example : mkInstE [100, 250] [{ ind := 0, variants := [(90, 0, 1), (100, 1, 1)] }] 1 [] [] []
    = .error .positionNotAColumn := by rfl


/-! ## `compute_table` as coded: stored backtrace tables, √n check-pointing, backtrace by recomputation

Model/C01Ckpt.lean mirrors the control flow of `PedigreeDPTable::compute_table`: the forward pass keeps only every
`k`-th projection column (with its `index_backtrace_table` / `transmission_backtrace_table`), the backtrace
recomputes the columns between two check-points when it reaches them and frees them again; a null-pointer
dereference or a failing `assert` is rendered as `none`.  The visiting order of the bipartition indices is a
parameter: `grayOrd` (the code's `ColumnIndexingIterator`) or `idxOrd` (the order of the older model `witness`). -/

/-- **Check-pointing is transparent**: for every instance, every visiting order and every check-point spacing
`k ≥ 1` (the code uses `⌊√n⌋`), the check-pointed forward pass + recomputing backtrace return exactly the index path
read off the table that keeps every column.  No hypothesis on the instance: in particular no null pointer is
dereferenced and no `assert` of `compute_table` fires, whatever the overlap structure of the reads. -/
theorem ckpt_transparent (I : Inst) (ord : Ord) (k : Nat) (hk : 1 ≤ k) : ckptPathK I ord k = fullPath I ord :=
  ckptPathK_eq I ord k hk

/-- hence the result does not depend on the spacing -/
theorem ckpt_spacing_irrelevant (I : Inst) (ord : Ord) (k k' : Nat) (hk : 1 ≤ k) (hk' : 1 ≤ k') :
    ckptPathK I ord k = ckptPathK I ord k' := by
  rw [ckptPathK_eq I ord k hk, ckptPathK_eq I ord k' hk']

/-- **Refinement of the full-table model.**  Run in index order, the check-pointed backtrace with stored
arg-minima returns exactly the index path of `witnessPath` (Model/C01Witness.lean: all projection tables kept,
arg-minima recomputed) — for every instance and every `k ≥ 1`. -/
theorem ckpt_refines_witnessPath (I : Inst) (k : Nat) (hk : 1 ≤ k) : ckptPathK I idxOrd k = witnessPath I :=
  ckptPathK_idx I k hk

/-- … and exactly `witness` (bipartition read off by `get_optimal_partitioning`, where the LAST column of a read
wins, vs. the model's first column), for sorted reads that lie inside the matrix -/
theorem ckpt_refines_witness (I : Inst) (h : WF I) (hs : InCols I) (k : Nat) (hk : 1 ≤ k) :
    ckptWitnessK I idxOrd k = witness I :=
  ckptWitnessK_idx I h hs k hk

/-- in any admissible visiting order — in particular the Gray-code order of the code — the stored backtrace
tables lead exactly where the recomputed arg-minima (first minimum in visiting order) lead -/
theorem ckpt_refines_recomputation (I : Inst) (ord : Ord) (hord : OrdOk ord) (k : Nat) (hk : 1 ≤ k) :
    ckptPathK I ord k = witnessPathO I ord :=
  ckptPathK_eq_witnessPathO I ord hord k hk

theorem grayOrd_admissible : OrdOk grayOrd := grayOrd_ok
theorem idxOrd_admissible : OrdOk idxOrd := idxOrd_ok

/-- `dp_witness` for the code's structure: the bipartition and transmission vector that `compute_table` /
`get_optimal_partitioning` return (any admissible visiting order, any spacing `k ≥ 1`) are a well-formed solution
achieving exactly the reported optimum -/
theorem ckpt_dp_witness (I : Inst) (h : WF I) (ord : Ord) (hord : OrdOk ord) (k : Nat) (hk : 1 ≤ k)
    (β : List Bool) (τ : List Nat) (hw : ckptWitnessK I ord k = some (β, τ)) :
    β.length = I.nreads ∧ τ.length = I.ncols ∧ (∀ t ∈ τ, t < I.ntrans) ∧ totalCost I β τ = dpCost I :=
  WhVerif.C01.ckpt_dp_witness I h ord hord k hk β τ hw

/-- the code's instance: Gray-code order, spacing `⌊√n⌋` -/
theorem ckpt_dp_witness_code (I : Inst) (h : WF I) (β : List Bool) (τ : List Nat)
    (hw : ckptWitness I = some (β, τ)) :
    β.length = I.nreads ∧ τ.length = I.ncols ∧ (∀ t ∈ τ, t < I.ntrans) ∧ totalCost I β τ = dpCost I := by
  by_cases h0 : I.ncols = 0
  · -- no column: the spacing is 0 and nothing is computed
    have hp : ckptPathK I grayOrd (isqrt I.ncols) = ckptPathK I grayOrd 1 := by
      rw [ckptPathK_zero I grayOrd _ h0, ckptPathK_zero I grayOrd _ h0]
    have hw' : ckptWitnessK I grayOrd 1 = some (β, τ) := by
      unfold ckptWitness ckptWitnessK at hw
      unfold ckptWitnessK
      rw [← hp]; exact hw
    exact WhVerif.C01.ckpt_dp_witness I h grayOrd grayOrd_ok 1 (Nat.le_refl _) β τ hw'
  · exact WhVerif.C01.ckpt_dp_witness I h grayOrd grayOrd_ok _ (isqrt_pos _ (by omega)) β τ hw

/-- `witness_none_iff` for the code's structure: `compute_table` has no path exactly when the DP reports
infeasibility — never because of a missing (deleted) column -/
theorem ckpt_witness_none_iff (I : Inst) (ord : Ord) (hord : OrdOk ord) (k : Nat) (hk : 1 ≤ k) :
    ckptWitnessK I ord k = none ↔ dpCost I = none :=
  WhVerif.C01.ckpt_witness_none_iff I ord hord k hk

/-- `get_super_reads` on the check-pointed path: column `c` is `get_alleles` for the restriction of the returned
bipartition to the reads of column `c` under the returned transmission value — so `getAlleles_none_iff` and
`nontie_forced` speak about the super reads the solver outputs -/
theorem ckpt_superreads (I : Inst) (h : WF I) (ord : Ord) (hord : OrdOk ord) (k : Nat) (hk : 1 ≤ k)
    (path : List (Nat × Nat)) (hp : ckptPathK I ord k = some path) :
    superReadsOf I path = (List.range I.ncols).map (fun c =>
      getAlleles I c (restrict (partOf I path) (I.activeAt c)) ((path.map (·.2)).getD c 0)) :=
  WhVerif.C01.ckpt_superreads I h ord hord k hk path hp

/-- `nontie_forced` transferred: in the super reads of the check-pointed solver, an allele not flagged as tie agrees
with every cost-optimal admissible assignment of its column under the returned `(β, τ)` -/
theorem ckpt_nontie_forced (I : Inst) (h : WF I) (ord : Ord) (hord : OrdOk ord) (k : Nat) (hk : 1 ≤ k)
    (path : List (Nat × Nat)) (hp : ckptPathK I ord k = some path) (c : Nat) (hc : c < I.ncols)
    (L : List (Nat × Nat)) (hL : (superReadsOf I path).getD c none = some L)
    (ind hp' : Nat) (hind : ind < I.nind) (hh : hp' = 0 ∨ hp' = 1) :
    let bs := restrict (partOf I path) (I.activeAt c)
    let t := (path.map (·.2)).getD c 0
    (reported L ind hp' = 0 ∨ reported L ind hp' = 1 ∨ reported L ind hp' = 3) ∧
    (reported L ind hp' ≠ 3 → ∀ ag, IsOptAssign I c bs t ag → bitOf ag.1 (h2p I t ind hp') = reported L ind hp') ∧
    (reported L ind hp' = 3 →
        (∃ ag, IsOptAssign I c bs t ag ∧ bitOf ag.1 (h2p I t ind hp') = 0) ∧
        (∃ ag, IsOptAssign I c bs t ag ∧ bitOf ag.1 (h2p I t ind hp') = 1)) := by
  intro bs t
  rw [WhVerif.C01.ckpt_superreads I h ord hord k hk path hp, getD_map_range, if_pos hc] at hL
  exact WhVerif.C01.nontie_forced I c bs t L hL ind hp' hind hh

/-- `getAlleles_none_iff` transferred -/
theorem ckpt_superread_none_iff (I : Inst) (h : WF I) (ord : Ord) (hord : OrdOk ord) (k : Nat) (hk : 1 ≤ k)
    (path : List (Nat × Nat)) (hp : ckptPathK I ord k = some path) (c : Nat) (hc : c < I.ncols) :
    (superReadsOf I path).getD c none = none ↔ assignments I c ((path.map (·.2)).getD c 0) = [] := by
  rw [WhVerif.C01.ckpt_superreads I h ord hord k hk path hp, getD_map_range, if_pos hc]
  exact WhVerif.C01.getAlleles_none_iff I c _ _

/-- real inputs satisfy the side condition of `ckpt_refines_witness` -/
theorem mkInst_inCols (positions : List Nat) (reads : List RawRead) (nind : Nat) (trios : List (Nat × Nat × Nat))
    (geno : List (List (List (Option Nat)))) (recomb : List Nat) (I : Inst)
    (h : mkInst positions reads nind trios geno recomb = some I) : InCols I := by
  have s := WhVerif.C01.mkInst_spans h
  exact fun r hr => ⟨s.first_le_last r hr, s.last_lt r hr⟩

/-- **the solver as coded, on its real input**: whenever the constructor accepts a ReadSet, the bipartition and
transmission vector that `compute_table` (Gray-code order, `⌊√n⌋` check-pointing, stored backtrace tables) and
`get_optimal_partitioning` return achieve the TRUE minimum of the (Ped)MEC objective — no hypothesis left -/
theorem ckpt_witness_optimal_raw (positions : List Nat) (reads : List RawRead) (nind : Nat)
    (trios : List (Nat × Nat × Nat)) (geno : List (List (List (Option Nat)))) (recomb : List Nat) (I : Inst)
    (h : mkInst positions reads nind trios geno recomb = some I) (β : List Bool) (τ : List Nat)
    (hw : ckptWitness I = some (β, τ)) :
    β.length = I.nreads ∧ τ.length = I.ncols ∧ (∀ t ∈ τ, t < I.ntrans) ∧ totalCost I β τ = optCost I := by
  have hwf := WhVerif.C01.mkInst_wf h
  have := ckpt_dp_witness_code I hwf β τ hw
  rw [dp_optimal I hwf] at this
  exact this

/-- the code's spacing is the integer square root -/
theorem ckpt_spacing_is_isqrt (n : Nat) : isqrt n * isqrt n ≤ n ∧ n < (isqrt n + 1) * (isqrt n + 1) := isqrt_spec n

/-! Non-vacuity: five columns, so `⌊√5⌋ = 2`: the forward pass keeps columns 0 and 2 (and 3 until the last column
is done), the backtrace recomputes column 3, then column 1. -/
def exampleLong : Inst :=
  { ncols := 5
    reads := [ { ind := 0, first := 0, last := 2, entries := [(0, 0, 5), (1, 1, 7), (2, 0, 3)] },
               { ind := 0, first := 1, last := 3, entries := [(1, 0, 4), (2, 1, 6), (3, 1, 2)] },
               { ind := 0, first := 2, last := 4, entries := [(2, 0, 2), (3, 0, 9), (4, 1, 1)] },
               { ind := 0, first := 3, last := 4, entries := [(3, 1, 3), (4, 1, 8)] } ]
    nind := 1
    trios := []
    geno := [ List.replicate 5 [none, some 0, none] ]
    recomb := [0, 0, 0, 0, 0] }

theorem exampleLong_wf : WF exampleLong := by
  constructor
  intro r1 r2 h1 h2
  have hall : ∀ r2, r2 < 4 → ∀ r1, r1 ≤ r2 → (exampleLong.read r1).first ≤ (exampleLong.read r2).first := by
    decide
  exact hall r2 h2 r1 h1

theorem exampleLong_inCols : InCols exampleLong := by
  intro r hr
  have hall : ∀ r, r < 4 → (exampleLong.read r).first ≤ (exampleLong.read r).last ∧
      (exampleLong.read r).last < exampleLong.ncols := by decide
  exact hall r hr

/-- after the forward pass over the columns 0…3 only the check-points 0, 2 and the previous column 3 are stored -/
example : (fwdLoop exampleLong grayOrd 2 5 4).map (fun T => T.map Option.isSome)
    = some [true, false, true, true, false] := by decide +kernel

theorem exampleLong_path : ckptPathK exampleLong grayOrd 2 = some [(1, 0), (1, 0), (5, 0), (2, 0), (1, 0)] := by
  decide +kernel

example : isqrt exampleLong.ncols = 2 := by decide
example : fullPath exampleLong grayOrd = some [(1, 0), (1, 0), (5, 0), (2, 0), (1, 0)] :=
  (ckpt_transparent exampleLong grayOrd 2 (by decide)).symm.trans exampleLong_path
example : ckptPathK exampleLong grayOrd 2 = ckptPathK exampleLong grayOrd 5 :=
  ckpt_spacing_irrelevant _ _ 2 5 (by decide) (by decide)
example : witnessPath exampleLong = some [(1, 0), (1, 0), (5, 0), (2, 0), (1, 0)] := by
  rw [← ckpt_refines_witnessPath exampleLong 2 (by decide)]; decide +kernel
example : ckptWitnessK exampleLong idxOrd 2 = witness exampleLong :=
  ckpt_refines_witness _ exampleLong_wf exampleLong_inCols 2 (by decide)
example : witnessPathO exampleLong grayOrd = some [(1, 0), (1, 0), (5, 0), (2, 0), (1, 0)] :=
  (ckpt_refines_recomputation exampleLong grayOrd grayOrd_ok 2 (by decide)).symm.trans exampleLong_path

theorem exampleLong_witness : ckptWitness exampleLong = some ([true, false, true, false], [0, 0, 0, 0, 0]) := by
  decide +kernel

example : totalCost exampleLong [true, false, true, false] [0, 0, 0, 0, 0] = dpCost exampleLong :=
  (ckpt_dp_witness_code exampleLong exampleLong_wf _ _ exampleLong_witness).2.2.2
example : totalCost exampleLong [true, false, true, false] [0, 0, 0, 0, 0] = dpCost exampleLong :=
  (ckpt_dp_witness exampleLong exampleLong_wf grayOrd grayOrd_ok 2 (by decide) _ _ exampleLong_witness).2.2.2
example : dpCost exampleLong = some 1 := by decide +kernel
example : ckptWitnessK exampleLong grayOrd 2 ≠ none ∧ dpCost exampleLong ≠ none := by
  have h : ckptWitnessK exampleLong grayOrd 2 ≠ none := by
    intro hn
    have := exampleLong_witness
    unfold ckptWitness at this
    rw [show isqrt exampleLong.ncols = 2 from by decide, hn] at this
    cases this
  exact ⟨h, fun hd => h ((ckpt_witness_none_iff exampleLong grayOrd grayOrd_ok 2 (by decide)).mpr hd)⟩
example : ∃ path, ckptPathK exampleLong grayOrd 2 = some path ∧
    superReadsOf exampleLong path = (List.range exampleLong.ncols).map (fun c =>
      getAlleles exampleLong c (restrict (partOf exampleLong path) (exampleLong.activeAt c))
        ((path.map (·.2)).getD c 0)) :=
  ⟨_, exampleLong_path, ckpt_superreads exampleLong exampleLong_wf grayOrd grayOrd_ok 2 (by decide) _ exampleLong_path⟩
/-- the hypotheses of `ckpt_nontie_forced` / `ckpt_superread_none_iff` are satisfiable (column 1, individual 0) -/
example : True := by
  have h1 := ckpt_nontie_forced exampleLong exampleLong_wf grayOrd grayOrd_ok 2 (by decide) _ exampleLong_path
    1 (by decide) [(0, 1)] (by decide +kernel) 0 0 (by decide) (Or.inl rfl)
  have h2 := (ckpt_superread_none_iff exampleLong exampleLong_wf grayOrd grayOrd_ok 2 (by decide) _ exampleLong_path
    1 (by decide)).symm
  trivial
example : InCols exampleInst := mkInst_inCols _ _ _ _ _ _ _ exampleRaw_ok
example : ∃ β τ, ckptWitness exampleInst = some (β, τ) ∧ totalCost exampleInst β τ = optCost exampleInst := by
  have h : (ckptWitness exampleInst).isSome = true := by decide +kernel
  obtain ⟨⟨β, τ⟩, hw⟩ := Option.isSome_iff_exists.mp h
  exact ⟨β, τ, hw, (ckpt_witness_optimal_raw _ _ _ _ _ _ _ exampleRaw_ok β τ hw).2.2.2⟩
example : (superReadsOf exampleLong [(1, 0), (1, 0), (5, 0), (2, 0), (1, 0)]).getD 1 none = some [(0, 1)] := by
  decide +kernel


/-! ## 32-bit arithmetic

Every cost of the solver is an `unsigned int`, `UINT_MAX` doubles as "infinite", additions wrap.
Model/C01U32.lean is the DP in that arithmetic (`dpCost32`, `throws32` = the "Mendelian conflict" exception);
`ubAll I` = all read weights + the largest genotype cost of every individual in every column + two
recombinations per trio and column (the recombination term is also added in column 0, where the unbounded model
ignores it). -/

example : INF32 = 4294967295 := by decide

/-- every value the DP ever forms — each `val` of the inner loop over the previous transmission values, in the
order the code adds (column cost + previous projection entry, then + recombination), not only the minima it
keeps — is bounded by the weights, genotype costs and recombination costs of the columns seen so far -/
theorem dp_values_bounded (I : Inst) (c idx t j x : Nat) (ht : t < I.ntrans) (hj : j < I.ntrans)
    (h : termO I c (prevOf I c) idx t j = some x) : x ≤ ubUpTo I c :=
  (values_bounded I c).1 idx t j x ht hj h

/-- … hence every DP cell, every projection entry and the optimum -/
theorem dp_cells_bounded (I : Inst) (c idx t v : Nat) (ht : t < I.ntrans)
    (h : dpCell I c (prevOf I c) idx t = some v) : v ≤ ubUpTo I c :=
  dpCell_bounded I c idx t v ht h

theorem dp_table_bounded (I : Inst) (c k x : Nat) (h : (tableAt I c).getD k none = some x) : x ≤ ubUpTo I c :=
  (values_bounded I c).2 k x h

theorem dp_optimum_bounded (I : Inst) (v : Nat) (h : dpCost I = some v) : v ≤ ubAll I := dpCost_bounded I v h

/-- **No overflow**: below the bound the DP in wrap-around `unsigned int` arithmetic with `UINT_MAX` as infinity
returns exactly the value of the unbounded model (`UINT_MAX` standing for "infeasible") -/
theorem no_overflow (I : Inst) (hb : ubAll I < INF32) : dpCost32 I = enc32 (dpCost I) := dpCost32_eq I hb

/-- … which, for sorted reads, is the true (Ped)MEC optimum -/
theorem no_overflow_optimal (I : Inst) (h : WF I) (hb : ubAll I < INF32) : dpCost32 I = enc32 (optCost I) := by
  rw [dpCost32_eq I hb, dp_optimal I h]

/-- every intermediate table of the 32-bit DP is the encoding of the unbounded table -/
theorem no_overflow_tables (I : Inst) (hb : ubAll I < INF32) (c : Nat) (hc : c < I.ncols) :
    tableAt32 I c = (tableAt I c).map enc32 := tableAt32_eq I hb c hc

/-- below the bound `get_cost()` never returns `UINT_MAX` for a feasible column: the exception "Mendelian
conflict" is thrown iff some column admits no allele assignment under any transmission value -/
theorem conflict32_iff (I : Inst) (hb : ubAll I < INF32) :
    throws32 I = true ↔ ∃ c, c < I.ncols ∧ ∀ t, t < I.ntrans → assignments I c t = [] := throws32_iff I hb

/-! Non-vacuity, and the bound is not idle: two reads contradicting a homozygous genotype with weight 2^31 each
cost 2^32 — the 32-bit DP reports 0; with weights summing to `UINT_MAX` the feasible column is taken for a
Mendelian conflict. -/
example : ubAll exampleLong = 50 := by decide +kernel
example : dpCost32 exampleLong = 1 := by
  rw [no_overflow exampleLong (by decide +kernel)]; decide +kernel

def exampleOverflow (w1 w2 : Nat) : Inst :=
  { ncols := 1
    reads := [ { ind := 0, first := 0, last := 0, entries := [(0, 1, w1)] },
               { ind := 0, first := 0, last := 0, entries := [(0, 1, w2)] } ]
    nind := 1, trios := [], geno := [[[some 0, none, none]]], recomb := [0] }

example : dpCost (exampleOverflow (2 ^ 31) (2 ^ 31)) = some (2 ^ 32) ∧ dpCost32 (exampleOverflow (2 ^ 31) (2 ^ 31)) = 0 ∧
    throws32 (exampleOverflow (2 ^ 31) (2 ^ 31)) = false ∧ ubAll (exampleOverflow (2 ^ 31) (2 ^ 31)) = 2 ^ 32 := by
  decide +kernel
example : dpCost (exampleOverflow (2 ^ 31) (2 ^ 31 - 1)) = some INF32 ∧
    throws32 (exampleOverflow (2 ^ 31) (2 ^ 31 - 1)) = true := by decide +kernel
example : ubAll (exampleOverflow (2 ^ 31) (2 ^ 31 - 2)) < INF32 ∧
    dpCost32 (exampleOverflow (2 ^ 31) (2 ^ 31 - 2)) = 2 ^ 32 - 2 ∧
    throws32 (exampleOverflow (2 ^ 31) (2 ^ 31 - 2)) = false := by decide +kernel
example : ∀ x, dpCost exampleLong = some x → x ≤ 50 := by
  intro x hx
  have := dp_optimum_bounded exampleLong x hx
  rwa [show ubAll exampleLong = 50 from by decide +kernel] at this
example : ∀ v, dpCell exampleLong 2 (prevOf exampleLong 2) 5 0 = some v → v ≤ ubUpTo exampleLong 2 :=
  fun v h => dp_cells_bounded exampleLong 2 5 0 v (by decide) h
example : (dpCell exampleLong 2 (prevOf exampleLong 2) 5 0).isSome = true := by decide +kernel
example : ∀ x, termO exampleLong 2 (prevOf exampleLong 2) 5 0 0 = some x → x ≤ ubUpTo exampleLong 2 :=
  fun x h => dp_values_bounded exampleLong 2 5 0 0 x (by decide) (by decide) h
example : ∀ x, (tableAt exampleLong 2).getD 1 none = some x → x ≤ ubUpTo exampleLong 2 :=
  fun x h => dp_table_bounded exampleLong 2 1 x h
example : dpCost32 exampleLong = enc32 (optCost exampleLong) :=
  no_overflow_optimal exampleLong exampleLong_wf (by decide +kernel)
example : tableAt32 exampleLong 1 = (tableAt exampleLong 1).map enc32 :=
  no_overflow_tables exampleLong (by decide +kernel) 1 (by decide)
example : throws32 exampleLong = false := by decide +kernel
example : throws32 exampleInst = false ∧ ubAll exampleInst < INF32 := by decide +kernel

/-! ## the result object: accessor calls in any order, any number of times (Model/C01Query.lean) -/

/-- **The accessors are pure getters of the one stored solution**: a sequence of calls of `get_super_reads`,
`get_optimal_cost`, `get_optimal_partitioning` on one constructed table, in ANY order and with ANY repetitions,
answers every call with what that accessor answers on the freshly constructed object, and leaves `optimal_score` and
`index_path` as they were (only the column iterator moves). -/
theorem queries_pure (I : Inst) (T : Table) (qs : List Query) :
    (T.run I qs).2 = qs.map (T.answer I) ∧ (T.run I qs).1.score = T.score ∧ (T.run I qs).1.path = T.path := by
  induction qs generalizing T with
  | nil => simp [Table.run]
  | cons q qs ih =>
    have hstep : (T.step I q).2 = T.answer I q ∧ (T.step I q).1.score = T.score ∧ (T.step I q).1.path = T.path := by
      cases q <;> simp [Table.step]
    have hans : ∀ q', (T.step I q).1.answer I q' = T.answer I q' := by
      intro q'
      cases q' <;> simp [Table.answer, hstep.2.1, hstep.2.2]
    have := ih (T.step I q).1
    simp only [Table.run, List.map_cons]
    refine ⟨?_, ?_, ?_⟩
    · rw [this.1, hstep.1]
      congr 1
      exact List.map_congr_left (fun q' _ => hans q')
    · rw [this.2.1, hstep.2.1]
    · rw [this.2.2, hstep.2.2]

/-- the state the iterator is in when the calls start does not matter (`get_super_reads` rewinds first): two objects
with the same score and path answer every call sequence alike — e.g. two tables alive at the same time, built from
the same `ReadSet`/`Pedigree`, queried interleaved -/
theorem queries_iterator_irrelevant (I : Inst) (T T' : Table) (hs : T.score = T'.score) (hp : T.path = T'.path)
    (qs : List Query) : (T.run I qs).2 = (T'.run I qs).2 := by
  rw [(queries_pure I T qs).1, (queries_pure I T' qs).1]
  apply List.map_congr_left
  intro q _
  cases q <;> simp [Table.answer, hs, hp]

/-- **Every combination of answers a client can collect is an optimal solution with matching witness**: on every
input the constructor accepts and solves, whatever the order and number of accessor calls, ANY cost answer is the true
minimum of the (Ped)MEC objective and ANY partition answer together with ANY transmission-vector answer achieves
exactly that cost, and the super reads of any answer are `get_alleles` of the returned partition under the returned
transmission vector. -/
theorem queries_witness_optimal (I : Inst) (h : WF I) (T : Table) (hT : mkTable I = some T) (qs : List Query)
    (c : Nat) (β : List Bool) (sr : List (Option (List (Nat × Nat)))) (τ : List Nat)
    (hc : Answer.cost c ∈ (T.run I qs).2) (hβ : Answer.partitioning β ∈ (T.run I qs).2)
    (hs : Answer.superReads sr τ ∈ (T.run I qs).2) :
    some c = optCost I ∧ totalCost I β τ = some c ∧ β.length = I.nreads ∧ τ.length = I.ncols ∧
    sr = (List.range I.ncols).map (fun col => getAlleles I col (restrict β (I.activeAt col)) (τ.getD col 0)) := by
  rw [(queries_pure I T qs).1] at hc hβ hs
  obtain ⟨q1, _, h1⟩ := List.mem_map.1 hc
  obtain ⟨q2, _, h2⟩ := List.mem_map.1 hβ
  obtain ⟨q3, _, h3⟩ := List.mem_map.1 hs
  cases q1 <;> simp [Table.answer] at h1
  cases q2 <;> simp [Table.answer] at h2
  cases q3 <;> simp [Table.answer] at h3
  unfold mkTable at hT
  split at hT
  · rename_i p c0 hp hc0
    cases hT
    simp only at h1 h2 h3
    subst h1 h2
    obtain ⟨h3a, h3b⟩ := h3
    subst h3a h3b
    have hw : ckptWitness I = some (partOf I p, p.map (·.2)) := by
      unfold ckptWitness ckptWitnessK
      unfold ckptPath at hp
      rw [hp]; rfl
    have hcode := ckpt_dp_witness_code I h _ _ hw
    refine ⟨?_, ?_, hcode.1, hcode.2.1, ?_⟩
    · rw [← dp_optimal I h, hc0]
    · rw [hcode.2.2.2, hc0]
    · by_cases h0 : I.ncols = 0
      · have hlen := hcode.2.1
        rw [List.length_map] at hlen
        simp [superReadsOf, hlen, h0]
      · exact ckpt_superreads I h grayOrd grayOrd_admissible _ (isqrt_pos _ (by omega)) p hp
  · cases hT

/-- non-vacuity on `exampleLong`: the constructed object, and a call sequence that asks for the partition first, then
the super reads, the cost, and partition and super reads again -/
theorem exampleLong_table :
    mkTable exampleLong = some { score := 1, path := [(1, 0), (1, 0), (5, 0), (2, 0), (1, 0)], iter := 0 } := by
  decide +kernel
example : ∀ T, mkTable exampleLong = some T →
    (T.run exampleLong [.partitioning, .superReads, .cost, .partitioning, .superReads]).2
      = [.partitioning [true, false, true, false],
         .superReads [some [(1, 0)], some [(0, 1)], some [(1, 0)], some [(1, 0)], some [(1, 0)]] [0, 0, 0, 0, 0],
         .cost 1, .partitioning [true, false, true, false],
         .superReads [some [(1, 0)], some [(0, 1)], some [(1, 0)], some [(1, 0)], some [(1, 0)]] [0, 0, 0, 0, 0]] := by
  intro T hT
  rw [exampleLong_table] at hT
  cases hT
  rw [(queries_pure exampleLong _ _).1]
  have h1 : partOf exampleLong [(1, 0), (1, 0), (5, 0), (2, 0), (1, 0)] = [true, false, true, false] := by
    decide +kernel
  have h2 : superReadsOf exampleLong [(1, 0), (1, 0), (5, 0), (2, 0), (1, 0)]
      = [some [(1, 0)], some [(0, 1)], some [(1, 0)], some [(1, 0)], some [(1, 0)]] := by decide +kernel
  simp [Table.answer, h1, h2]
example : ((Table.mk 1 [(1, 0)] 0).run exampleLong [.superReads, .cost]).2
    = ((Table.mk 1 [(1, 0)] 7).run exampleLong [.superReads, .cost]).2 :=
  queries_iterator_irrelevant exampleLong _ _ rfl rfl _
example : ∀ T, mkTable exampleLong = some T → ∀ qs c β sr τ, Answer.cost c ∈ (T.run exampleLong qs).2 →
    Answer.partitioning β ∈ (T.run exampleLong qs).2 → Answer.superReads sr τ ∈ (T.run exampleLong qs).2 →
    totalCost exampleLong β τ = some c :=
  fun T hT qs c β sr τ hc hβ hs => (queries_witness_optimal exampleLong exampleLong_wf T hT qs c β sr τ hc hβ hs).2.1

/-! ## Round 10: the pedigree glue (`Pedigree`, `PedigreePartitions`, API resolution) and `cost += double` -/

/-- **id ↔ index**: on every `Pedigree` object reachable by API calls, an accessor by id is the accessor by index at
`id_to_index id`; a map entry points to an individual carrying that id (the LAST one added with it); with pairwise
distinct ids `id_to_index` inverts `index_to_id`; triples hold indices of existing individuals -/
theorem id_index_bijection (ops : List PedOp) (P : Ped) (h : Ped.run ops {} = some P) :
    (∀ id v, P.genotypeById id v = (P.idToIndex id).bind (fun i => P.genotype i v)) ∧
    (∀ id v, P.glById id v = (P.idToIndex id).bind (fun i => P.gl i v)) ∧
    (∀ id i, P.idToIndex id = some i → P.indexToId i = some id) ∧
    (∀ id i j, P.idToIndex id = some i → P.indexToId j = some id → j ≤ i) ∧
    (P.ids.Nodup → ∀ i id, P.indexToId i = some id → P.idToIndex id = some i) ∧
    (∀ tr ∈ P.triples, tr.1 < P.size ∧ tr.2.1 < P.size ∧ tr.2.2 < P.size) := by
  have hI := PedInv.run ops {} P PedInv.empty h
  exact ⟨fun _ _ => rfl, fun _ _ => rfl, hI.sound, hI.last, fun hnd i id => hI.index_of_id hnd i id, hI.members⟩

example : (Ped.run [.addInd 7 [1] [none], .addInd 3 [0] [none], .addInd 5 [2] [none], .addRel 5 7 3] {}).map
    (fun P => (P.ids, P.triples, P.idToIndex 5, P.genotypeById 5 0)) =
    some ([7, 3, 5], [(2, 0, 1)], some 2, some 2) := by decide

/-- **the recursion of `PedigreePartitions` terminates (depth ≤ #individuals + 1) and computes the partition map of
the solver model**, for pedigrees of any depth and any order of individuals / relationships -/
theorem partitions_recursion_terminates (I : Inst) (hok : WhVerif.C05.Solver.PedOK I) (t : Nat) :
    ppMapOf I.nind I.trios t = some (h2pMap I t) := ppMapOf_eq_h2pMap I hok t

/-- **well-formed partitions** (partial: the bound `< 2·founders` and the founder values `(2k, 2k+1)` are not proved
here; full statement in notes/C01.md): every individual gets its two partitions; a child's haplotype 0 lies in the
father's partition selected by bit `2k` of the transmission value, its haplotype 1 in the mother's selected by bit
`2k+1`, `k` = index of its triple; a founder's partitions do not depend on the transmission value -/
theorem partitions_wellformed_partial (I : Inst) (hok : WhVerif.C05.Solver.PedOK I) (t : Nat) :
    ∃ pm, ppMapOf I.nind I.trios t = some pm ∧ pm.length = I.nind ∧
      (∀ i, i < I.nind → ∃ p, pm.getD i none = some p) ∧
      (∀ k f mo i pf pmo, I.trios[k]? = some (f, mo, i) → pm.getD f none = some pf → pm.getD mo none = some pmo →
        pm.getD i none = some (sel pf (bitOf t (2 * k)), sel pmo (bitOf t (2 * k + 1)))) ∧
      (∀ i p, (h2pRoots I).getD i none = some p → pm.getD i none = some p) := by
  have hM := h2pMap_final I hok t
  exact ⟨_, ppMapOf_eq_h2pMap I hok t, hM.len, hM.total, hM.child, hM.roots⟩

/-- a pedigree in which an individual is its own father: the recursion never returns, whatever the depth allowed -/
theorem partitions_self_parent_diverges (t mo fuel : Nat) :
    ppRec [(0, mo, 0)] [some 0] t fuel 0 [none] = none := by
  induction fuel with
  | zero => rfl
  | succ fuel ih => unfold ppRec; simp [ih]

/-- **`cost += gls->get(genotype)`**: the running `unsigned` cost after adding the likelihood `n/den` is the cost plus
the FLOOR of the likelihood -/
theorem likelihood_addition_truncates (den c n : Nat) (h : 0 < den) : addTrunc den c n = c + n / den :=
  addTrunc_eq den c n h

/-- for integral likelihood values nothing is lost: the modelled sum is the exact sum -/
theorem integral_likelihoods_exact (den c m : Nat) (h : 0 < den) : addTrunc den c (den * m) = c + m :=
  addTrunc_integral den c m h

/-- what is lost otherwise: two individuals with likelihood 0.75 each cost 0 for the solver, exactly 1.5; an
alternative costing exactly 1 (1.0 + 0.0) costs 1 for the solver — the solver prefers the dearer one -/
theorem fractional_truncation_witness :
    addTrunc 4 (addTrunc 4 0 3) 3 = 0 ∧ addTrunc 4 (addTrunc 4 0 4) 0 = 1 ∧ (3 + 3 : Nat) > 4 + 0 := by decide

/-- **optimality at the API level**: whenever the constructor returns an object for what the Python API passes
(Pedigree calls by id, reads with sample ids, recombination costs), the DP value is the true minimum of the
(Ped)MEC objective of the resolved instance (likelihoods floored per individual) -/
theorem dp_optimal_pedigree_api (A : Api) (P : Ped) (I : Inst) (h : A.resolve = some (P, I)) :
    dpCost I = optCost I ∧ I.nind = P.size ∧ I.trios = P.triples := by
  unfold Api.resolve at h
  split at h
  · cases h
  · rename_i P' hP
    split at h
    · cases h
    · rename_i raws hraws
      simp only at h
      split at h
      · cases h
      · split at h
        · cases h
        · split at h
          · cases h
          · split at h
            · cases h
            · cases hm : mkInst (A.positions.getD (defaultPositions raws)) raws P'.size P'.triples
                  (P'.genoTable A.den A.distrust (A.positions.getD (defaultPositions raws)).length) A.recomb with
              | none => rw [hm] at h; cases h
              | some J =>
                rw [hm] at h
                simp only [Option.map_some, Option.some.injEq, Prod.mk.injEq] at h
                obtain ⟨rfl, rfl⟩ := h
                have hs := WhVerif.C01.mkInst_some hm
                exact ⟨dp_optimal_raw _ _ _ _ _ _ _ hm, hs.2.2.2.1, hs.2.2.2.2.1⟩

end WhVerif.Props.C01

import WhVerif.Lemmas.C17Fold
import WhVerif.Lemmas.C17Multi
import WhVerif.Lemmas.C17Run
/-!
# C17 — haplotag followed by haplotagphase reproduces the phasing that tagged the reads

Theorems about `WhVerif.C17` (Model/C17.lean).  `V` = the phased VCF that tagged the reads; at a heterozygous
biallelic variant `pos` it says `a0|a1` (`{a0,a1} = {0,1}`) in phase set `P`.  `haplotag` writes HP = haplotype + 1
and PS = `P` on the reads (model C10: `newTags`), so error-free reads tagged from `V` are `Consistent pos P a0 a1`.
-/
namespace WhVerif.Props.C17
open WhVerif.C17
open WhVerif.C10 (RV)

/-- **votes_agree.** All votes for a variant land on the one key `(P − 1, a0)` that reconstructs `V`'s order:
reads of haplotype 1 vote `0 xor id(a0)`, reads of haplotype 2 vote `1 xor id(a1)`, and `id(a1) = 1 − id(a0)`.
After the vote loop the table of `pos` is either absent (no voting read covers `pos`) or holds the summed
quality on that key and 0 on the other. -/
theorem votes_agree {vars : List VarInfo} {pos : Nat} {info : VarInfo} {P : Int} {a0 a1 : Nat}
    (ha : (a0 = 0 ∧ a1 = 1) ∨ (a0 = 1 ∧ a1 = 0))
    (hinfo : infoAt vars pos = some info) (hgt : info.gt = [0, 1])
    {reads : List TRead} (hcons : Consistent pos P a0 a1 reads)
    {votes : Votes} (h : computeVotes vars [] reads = .ok votes) :
    (votes.lookup pos = none → qualAt pos reads = 0) ∧
    (∀ inner, votes.lookup pos = some inner →
      inner = [((P - 1, 0), if a0 = 0 then qualAt pos reads else 0), ((P - 1, 1), if a0 = 0 then 0 else qualAt pos reads)]) := by
  have hi : PosInv pos (P - 1) a0 0 [] := ⟨fun _ => rfl, fun inner h => by simp [List.lookup] at h⟩
  have := computeVotes_inv ha hinfo hgt reads hcons hi h
  simpa [PosInv, shape] using this

example : (computeVotes [⟨5, [0, 1], none, true⟩] [] [⟨40, 1, [⟨5, 1, 30⟩]⟩, ⟨40, 2, [⟨5, 0, 30⟩]⟩]).toOption
    = some [(5, [((39, 0), 0), ((39, 1), 60)])] := by decide

/-- **consensus_reproduces.** If error-free reads tagged from `V` (no read carrying the tag of another phase
set covers `pos`: `Consistent`) cast a vote of positive quality at the unphased heterozygous variant `pos`, then
with the default thresholds (`--gap-threshold ≤ 100`, not `--only-indels`; the homopolymer filter never fires)
`haplotagphase` writes `a0|a1` with PS = `P` there: `V`'s haplotype order and the phase set of the reads. -/
theorem consensus_reproduces {vars : List VarInfo} {pos : Nat} {info : VarInfo} {P : Int} {a0 a1 : Nat}
    (ha : (a0 = 0 ∧ a1 = 1) ∨ (a0 = 1 ∧ a1 = 0))
    (hinfo : infoAt vars pos = some info) (hgt : info.gt = [0, 1]) (hph : info.phase = none)
    {reads : List TRead} (hcons : Consistent pos P a0 a1 reads) (hq : 0 < qualAt pos reads)
    (par : Params) (hgap : par.gapThreshold ≤ 100) (honly : par.onlyIndels = false) (ref : Array Char)
    (repaired : Bool) {cs : List Cons} (h : C17.run repaired par ref vars reads = .ok cs) :
    phaseOut cs pos = some (P, a0, a1) := by
  unfold C17.run at h
  cases hv : computeVotes vars [] reads with
  | error e => simp [hv] at h
  | ok votes =>
    simp only [hv] at h
    obtain ⟨hnone, hsome⟩ := votes_agree ha hinfo hgt hcons hv
    cases hl : votes.lookup pos with
    | none => have := hnone hl; omega
    | some inner =>
      have hin := hsome inner hl
      have hk : a0 ≤ 1 := by omega
      have hshape : inner = shape (P - 1) a0 (qualAt pos reads) := by simpa [shape] using hin
      unfold consensus at h
      cases hc : consensusVotes repaired par ref vars votes with
      | error e => simp [hc] at h
      | ok cs0 =>
        simp only [hc] at h
        obtain ⟨info', c, h1, h2, h3⟩ := find_consensusVotes hc hl
        rw [hinfo] at h1
        injection h1 with h1
        subst h1
        rw [hshape, consensusAt_shape par hgap honly ref info hgt hph (P - 1) hk hq repaired] at h2
        injection h2 with h2
        have hfind : cs.find? (·.pos == pos) = some c := by
          injection h with h
          subst h
          split
          · simp [List.find?_append, h3]
          · exact h3
        have h10 : 1 - a0 = a1 := by omega
        unfold phaseOut
        rw [hfind, ← h2]
        simp only [h10]
        have hne : a0 ≠ a1 := by omega
        simp [hne]

example : (C17.run false {} "ACGTACGTAC".toList.toArray [⟨5, [0, 1], none, true⟩]
    [⟨40, 1, [⟨5, 1, 30⟩]⟩, ⟨40, 2, [⟨5, 0, 30⟩]⟩]).toOption = some [⟨5, 39, some (1, 0)⟩] := by decide

/-- **already_phased_untouched** (behaviour after fixes/F19.patch): a variant that is phased in the input keeps
its phase set and its haplotype order whatever the reads vote, and also when no read votes. -/
theorem already_phased_untouched {vars : List VarInfo} {pos : Nat} {info : VarInfo} {block : Int} {a0 a1 : Nat}
    {tl : List Nat} (hinfo : infoAt vars pos = some info) (hph : info.phase = some (block, a0 :: a1 :: tl))
    (hne : a0 ≠ a1) (par : Params) (ref : Array Char) (reads : List TRead) {cs : List Cons}
    (h : C17.run true par ref vars reads = .ok cs) :
    phaseOut cs pos = some (block, a0, a1) := by
  unfold C17.run at h
  cases hv : computeVotes vars [] reads with
  | error e => simp [hv] at h
  | ok votes =>
    simp only [hv, consensus] at h
    cases hc : consensusVotes true par ref vars votes with
    | error e => simp [hc] at h
    | ok cs0 =>
      simp only [hc, if_true] at h
      injection h with h
      subst h
      have hpos := infoAt_pos hinfo
      cases hl : votes.lookup pos with
      | some inner =>
        obtain ⟨info', c, h1, h2, h3⟩ := find_consensusVotes hc hl
        rw [hinfo] at h1
        injection h1 with h1
        subst h1
        have : c = ⟨info.pos, block - 1, some (a0, a1)⟩ := by
          unfold consensusAt at h2
          simp only [hph] at h2
          injection h2 with h2
          exact h2.symm
        subst this
        unfold phaseOut
        simp [List.find?_append, h3, hne]
      | none =>
        -- no vote at `pos`: the entry comes from `passThrough`
        have hnov : ∀ c ∈ cs0, c.pos ≠ pos := by
          have key : ∀ (vs : Votes) (l : List Cons), consensusVotes true par ref vars vs = .ok l →
              vs.lookup pos = none → ∀ c ∈ l, c.pos ≠ pos := by
            intro vs
            induction vs with
            | nil => intro l hl' _ c hc'; simp [consensusVotes] at hl'; subst hl'; cases hc'
            | cons e rest ih =>
              obtain ⟨p, i⟩ := e
              intro l hl' hlk c hc'
              simp only [consensusVotes] at hl'
              cases hia : infoAt vars p with
              | none => simp [hia] at hl'
              | some info' =>
                simp only [hia] at hl'
                cases hca : consensusAt true par ref info' i with
                | error e => simp [hca] at hl'
                | ok c1 =>
                  cases hr : consensusVotes true par ref vars rest with
                  | error e => simp [hca, hr] at hl'
                  | ok l' =>
                    simp only [hca, hr] at hl'
                    injection hl' with hl'
                    subst hl'
                    simp only [List.lookup_cons] at hlk
                    cases hb : (pos == p) with
                    | true => rw [hb] at hlk; cases hlk
                    | false =>
                      rw [hb] at hlk
                      rcases List.mem_cons.1 hc' with rfl | hc'
                      · rw [(consensusAt_pos hca).trans (infoAt_pos hia)]
                        intro e; subst e; simp at hb
                      · exact ih l' hr hlk c hc'
          exact key votes cs0 hc hl
        have hfind0 : cs0.find? (·.pos == pos) = none := by
          rw [List.find?_eq_none]
          intro c hc'
          simpa using hnov c hc'
        have hany : votes.any (·.1 == pos) = false := by
          clear hc hv
          induction votes with
          | nil => rfl
          | cons e rest ih =>
            obtain ⟨p, i⟩ := e
            simp only [List.lookup_cons] at hl
            cases hb : (pos == p) with
            | true => rw [hb] at hl; cases hl
            | false =>
              rw [hb] at hl
              have : (p == pos) = false := by
                have : ¬ pos = p := by simpa using hb
                simpa using fun e : p = pos => this e.symm
              simp [this, ih hl]
        -- the first entry of `passThrough` at `pos` is the one of `info` (first variant record with that position)
        have hpt : (passThrough vars votes).find? (·.pos == pos) = some ⟨info.pos, block - 1, some (a0, a1)⟩ := by
          unfold infoAt at hinfo
          clear hc hv hfind0 hnov
          induction vars with
          | nil => simp at hinfo
          | cons w ws ih =>
            simp only [List.find?_cons] at hinfo
            cases hw : (w.pos == pos) with
            | true =>
              rw [hw] at hinfo
              injection hinfo with hinfo
              subst hinfo
              have hwp : w.pos = pos := by simpa using hw
              simp [passThrough, hwp, hany, hph]
            | false =>
              rw [hw] at hinfo
              have ih' := ih hinfo
              simp only [passThrough, List.filterMap_cons] at ih' ⊢
              split
              · exact ih'
              · rename_i c hc'
                have : c.pos = w.pos := by
                  split at hc'
                  · cases hc'
                  · split at hc'
                    · injection hc' with hc'; subst hc'; rfl
                    · cases hc'
                simp [this, hw, ih']
        unfold phaseOut
        simp [List.find?_append, hfind0, hpt, hne]

example : (C17.run true {} "ACGTACGTAC".toList.toArray [⟨5, [0, 1], some (7, [0, 1]), true⟩]
    [⟨40, 1, [⟨5, 1, 30⟩]⟩, ⟨40, 2, [⟨5, 0, 30⟩]⟩]).toOption = some [⟨5, 6, some (0, 1)⟩] := by decide

/-- defect F19 on the faithful model (`repaired = false`): reads tagged H1/PS 40 that show the ALT allele turn the
input call `0|1:7` into `1|0:40`, and without any voting read the call loses its phase -/
example :
    (C17.run false {} "ACGTACGTAC".toList.toArray [⟨5, [0, 1], some (7, [0, 1]), true⟩]
      [⟨40, 1, [⟨5, 1, 30⟩]⟩]).toOption.map (phaseOut · 5) = some (some (40, 1, 0)) ∧
    (C17.run false {} "ACGTACGTAC".toList.toArray [⟨5, [0, 1], some (7, [0, 1]), true⟩] []).toOption.map (phaseOut · 5)
      = some none := by decide

/-- the homopolymer filter of `consensus` can never fire: the run length is capped at `--cut-poly`, and the
test is `max_length > cut_homopolymers` (observation, not part of the property) -/
theorem homopolymer_filter_dead (ref : Array Char) (pos cut : Nat) :
    ¬ cut < max (lengthOfHomopolymer ref (pos + 1) true cut) (lengthOfHomopolymer ref pos false cut) := by
  have h1 := lengthOfHomopolymer_le ref (pos + 1) true cut
  have h2 := lengthOfHomopolymer_le ref pos false cut
  omega

/-! ## multi-allelic variants (allele ids ≥ 2) of a diploid sample

`haplotagphase` reads multi-allelic records by default (`--mav`); `haplotag` and `phase` skip them, so the reads are
tagged from the biallelic variants around them.  The genotype vector of a heterozygous call is `[x, y]` with
`x ≠ y` (`Genotype.as_vector()`: descending, so `[2, 1]` for `1/2`; the statements hold for either order), and
`allele_to_id` / `id_to_allele` map `x ↔ 0`, `y ↔ 1`.  `V` says `a0|a1` with `{a0, a1} = {x, y}`. -/

/-- **votes_agree_multiallelic.** Per-position invariant of the vote loop for arbitrary allele ids: all votes of
error-free reads tagged from `V` land on the key `(P − 1, index of a0 in the genotype vector)`; the other key of the
phase set stays 0 and no other phase set appears. -/
theorem votes_agree_multiallelic {vars : List VarInfo} {pos : Nat} {info : VarInfo} {P : Int} {x y a0 a1 : Nat}
    (hxy : x ≠ y) (ha : (a0 = x ∧ a1 = y) ∨ (a0 = y ∧ a1 = x))
    (hinfo : infoAt vars pos = some info) (hgt : info.gt = [x, y])
    {reads : List TRead} (hcons : Consistent pos P a0 a1 reads)
    {votes : Votes} (h : computeVotes vars [] reads = .ok votes) :
    (votes.lookup pos = none → qualAt pos reads = 0) ∧
    (∀ inner, votes.lookup pos = some inner →
      inner = [((P - 1, 0), if a0 = x then qualAt pos reads else 0), ((P - 1, 1), if a0 = x then 0 else qualAt pos reads)]) := by
  have hi : PosInv pos (P - 1) (keyOf x a0) 0 [] := ⟨fun _ => rfl, fun inner h => by simp [List.lookup] at h⟩
  have := computeVotes_inv_pair hxy ha hinfo hgt reads hcons hi h
  simp only [PosInv, shape, Nat.zero_add] at this
  refine ⟨this.1, fun inner hin => ?_⟩
  have := this.2 inner hin
  by_cases e : a0 = x <;> simpa [keyOf, e] using this

/-- genotype `1/2` (vector `[2, 1]`), `V` says `1|2` in set 40: the read of haplotype 1 shows allele 1 (index 1), the
read of haplotype 2 shows allele 2 (index 0): both vote for key 1 -/
example : (computeVotes [⟨5, [2, 1], none, true⟩] [] [⟨40, 1, [⟨5, 1, 30⟩]⟩, ⟨40, 2, [⟨5, 2, 30⟩]⟩]).toOption
    = some [(5, [((39, 0), 0), ((39, 1), 60)])] := by decide

/-- **consensus_reproduces_multiallelic.** The round trip for arbitrary allele ids: if error-free reads tagged from
`V` cast a vote of positive quality at an unphased heterozygous diploid call with genotype vector `[x, y]`, then (default
thresholds) `haplotagphase` writes `a0|a1` with PS = `P`: `V`'s haplotype order and the phase set of the reads.
`consensus_reproduces` is the instance `x = 0, y = 1`. -/
theorem consensus_reproduces_multiallelic {vars : List VarInfo} {pos : Nat} {info : VarInfo} {P : Int}
    {x y a0 a1 : Nat} (hxy : x ≠ y) (ha : (a0 = x ∧ a1 = y) ∨ (a0 = y ∧ a1 = x))
    (hinfo : infoAt vars pos = some info) (hgt : info.gt = [x, y]) (hph : info.phase = none)
    {reads : List TRead} (hcons : Consistent pos P a0 a1 reads) (hq : 0 < qualAt pos reads)
    (par : Params) (hgap : par.gapThreshold ≤ 100) (honly : par.onlyIndels = false) (ref : Array Char)
    (repaired : Bool) {cs : List Cons} (h : C17.run repaired par ref vars reads = .ok cs) :
    phaseOut cs pos = some (P, a0, a1) := by
  unfold C17.run at h
  cases hv : computeVotes vars [] reads with
  | error e => simp [hv] at h
  | ok votes =>
    simp only [hv] at h
    have hi : PosInv pos (P - 1) (keyOf x a0) 0 [] := ⟨fun _ => rfl, fun inner h => by simp [List.lookup] at h⟩
    have hinv := computeVotes_inv_pair hxy ha hinfo hgt reads hcons hi hv
    simp only [Nat.zero_add] at hinv
    cases hl : votes.lookup pos with
    | none => have := hinv.1 hl; omega
    | some inner =>
      have hshape := hinv.2 inner hl
      unfold consensus at h
      cases hc : consensusVotes repaired par ref vars votes with
      | error e => simp [hc] at h
      | ok cs0 =>
        simp only [hc] at h
        obtain ⟨info', c, h1, h2, h3⟩ := find_consensusVotes hc hl
        rw [hinfo] at h1
        injection h1 with h1
        subst h1
        rw [hshape, consensusAt_shape_pair par hgap honly ref info hxy ha hgt hph (P - 1) hq repaired] at h2
        injection h2 with h2
        have hfind : cs.find? (·.pos == pos) = some c := by
          injection h with h
          subst h
          split
          · simp [List.find?_append, h3]
          · exact h3
        have hne : a0 ≠ a1 := by
          rcases ha with ⟨rfl, rfl⟩ | ⟨rfl, rfl⟩
          · exact hxy
          · exact hxy.symm
        unfold phaseOut
        rw [hfind, ← h2]
        simp [hne]

/-- `1/2` site, `V` = `2|1:40`: haplotype-1 reads show allele 2, haplotype-2 reads allele 1; output `2|1`, PS 40 -/
example : ((C17.run false {} "ACGTACGTAC".toList.toArray [⟨5, [2, 1], none, true⟩]
    [⟨40, 1, [⟨5, 2, 30⟩]⟩, ⟨40, 2, [⟨5, 1, 30⟩]⟩]).toOption.map (phaseOut · 5)) = some (some (40, 2, 1)) := by decide

/-- a read showing an allele that is not in the genotype (possible only without realignment: with `--reference` the
detection is restricted to the genotype's alleles) makes `compute_votes` raise `KeyError` — outside the premise
"error-free reads" -/
example : (computeVotes [⟨5, [2, 0], none, true⟩] [] [⟨40, 1, [⟨5, 1, 30⟩]⟩]).toOption = none := by decide

/-! ## the composition haplotag → haplotagphase over the whole run (`Model/C17Run.lean`)

`info` is the phased VCF `V` as `haplotag` sees it (`C10.PhaseInfo`: position ↦ phase set and the allele of each
haplotype); the reads of the tagged BAM are `TaggedFrom info` (`Spec/C17Run.lean`): their HP/PS tags are what the C10
model decides (`C10.tagDecision`; `C10.written_tags_sound` shows that every tagged alignment `C10.haplotag` writes
carries such a decision) on an error-free read cloud lying in one phase set.  `runSample`/`runFile` are
`run_haplotagphase` as coded (consensus after F19/F138, all loops and error exits). -/
open WhVerif.C10 (PhaseInfo)

/-- **haplotag_tags_are_truth.** `haplotag` (model C10) on an error-free cloud of haplotype `τ` inside the one phase set
`P`: if it tags at all, it writes HP = `τ + 1` and PS = `P`. -/
theorem haplotag_tags_are_truth {info : PhaseInfo} {τ : Nat} (hτ : τ < 2) {P : Int} {rvs : List RV}
    (he : ErrorFree info τ rvs) (ho : OneSet info P rvs) {h q : Nat} {ps : Int}
    (hd : C10.tagDecision 2 info rvs = .tagged h q ps) :
    tagsOfDecision (.tagged h q ps) = { hp := some (τ + 1), pc := some q, ps := some P } := by
  obtain ⟨rfl, rfl⟩ := decision_errorfree hτ he ho hd
  rfl

/-- **tagged_reads_consistent.** The premise of `votes_agree`/`consensus_reproduces` is what the composition delivers:
reads tagged from `V` are `Consistent` with `V`'s call `a0|a1`, set `P`, at every position they cover (only the reads
covering `pos` must stay inside one phase set). -/
theorem tagged_reads_consistent {info : PhaseInfo} {pos : Nat} {P : Int} {a0 a1 : Nat}
    (hV : info.lookup pos = some (P, [a0, a1])) {reads : List TRead}
    (ht : ∀ r ∈ reads, voting r = true → (∃ v ∈ r.variants, v.pos = pos) → TaggedFrom info r) :
    Consistent pos P a0 a1 reads := consistent_of_tagged hV ht

/-- the three clauses of the property for the call at `pos` of one sample, given what `consensus` hands to the
keep-mode writer (`phaseOut cs pos = none`: the writer leaves the call as it is in the input):
* phased in `V` as `a0|a1` in set `P`, unphased heterozygous in the input, covered with positive quality by reads
  tagged from `V` none of which leaves the phase set: written `a0|a1`, PS `P`;
* already phased in the input with a phase set value: handed back unchanged; without one: not handed to the writer;
* unphased and covered by no voting read: not handed to the writer. -/
def Reproduces (info : PhaseInfo) (vars : List VarInfo) (reads : List TRead) (par : Params) (cs : List Cons) : Prop :=
  ∀ pos vi, infoAt vars pos = some vi → (∀ w ∈ vars, w.pos = pos → w = vi) →
    (∀ P x y a0 a1, x ≠ y → ((a0 = x ∧ a1 = y) ∨ (a0 = y ∧ a1 = x)) → info.lookup pos = some (P, [a0, a1]) →
      vi.gt = [x, y] → vi.phase = none →
      (∀ r ∈ reads, voting r = true → (∃ v ∈ r.variants, v.pos = pos) → TaggedFrom info r) →
      0 < qualAt pos reads → par.gapThreshold ≤ 100 → par.onlyIndels = false →
      phaseOut cs pos = some (P, a0, a1)) ∧
    (∀ b a0 a1, vi.phase = some (b, [a0, a1]) → a0 ≠ a1 →
      phaseOut cs pos = if b = 0 then none else some (b, a0, a1)) ∧
    (vi.phase = none → covered pos reads = false → phaseOut cs pos = none)

/-- **haplotag_then_haplotagphase_sample** (one sample, one chromosome, any number of variants, reads, phase sets):
`compute_votes` + `consensus` as coded on reads tagged from `V` reproduce `V`. -/
theorem haplotag_then_haplotagphase_sample (info : PhaseInfo) {vars : List VarInfo} {reads : List TRead}
    {par : Params} {ref : Array Char} {cs : List Cons} (h : runSample par ref vars reads = .ok cs) :
    Reproduces info vars reads par cs := by
  unfold runSample at h
  cases hv : computeVotes vars [] reads with
  | error e => simp [hv] at h
  | ok votes =>
    simp only [hv, consensusNow] at h
    cases hc : consensusVotes false par ref vars (votes.filter fun e => !isAlready vars e.1) with
    | error e => simp [hc] at h
    | ok cs0 =>
      simp only [hc] at h
      injection h with h
      subst h
      intro pos vi hinfo hu
      have hal := isAlready_of_infoAt hinfo
      refine ⟨?_, ?_, ?_⟩
      · intro P x y a0 a1 hxy ha hV hgt hph ht hq hgap honly
        have hcons := consistent_of_tagged hV ht
        have hi : PosInv pos (P - 1) (keyOf x a0) 0 [] := ⟨fun _ => rfl, fun inner h => by simp [List.lookup] at h⟩
        have hinv := computeVotes_inv_pair hxy ha hinfo hgt reads hcons hi hv
        simp only [Nat.zero_add] at hinv
        have hk : (keptPhases vars).find? (·.pos == pos) = none :=
          keptPhases_none hu (fun b c d hp => by rw [hph] at hp; cases hp)
        have hna : (fun p => !isAlready vars p) pos = true := by simp [hal, alreadyPhased, hph]
        cases hl : votes.lookup pos with
        | none => have := hinv.1 hl; omega
        | some inner =>
          have hshape := hinv.2 inner hl
          have hl' : (votes.filter fun e => !isAlready vars e.1).lookup pos = some inner := by
            rw [lookup_filter_key (fun p => !isAlready vars p) pos hna votes]; exact hl
          obtain ⟨info', c, h1, h2, h3⟩ := find_consensusVotes hc hl'
          rw [hinfo] at h1
          injection h1 with h1
          subst h1
          rw [hshape, consensusAt_shape_pair par hgap honly ref vi hxy ha hgt hph (P - 1) hq false] at h2
          injection h2 with h2
          have hne : a0 ≠ a1 := by
            rcases ha with ⟨rfl, rfl⟩ | ⟨rfl, rfl⟩
            · exact hxy
            · exact hxy.symm
          unfold phaseOut
          rw [List.find?_append, hk, Option.none_or, h3, ← h2]
          simp [hne]
      · intro b a0 a1 hph hne
        have hya : (fun p => !isAlready vars p) pos = false := by simp [hal, alreadyPhased, hph]
        have hl' := lookup_filter_key_none (fun p => !isAlready vars p) pos hya votes
        have h0 := find_none_of_no_entry (consensusVotes_no_entry _ cs0 hc hl')
        have hmem : vi ∈ vars := by
          unfold infoAt at hinfo
          exact List.mem_of_find?_eq_some hinfo
        unfold phaseOut
        rw [List.find?_append]
        by_cases hb : b = 0
        · have hk : (keptPhases vars).find? (·.pos == pos) = none :=
            keptPhases_none hu (fun b' c d hp => by rw [hph] at hp; injection hp with hp; injection hp with hp _; omega)
          rw [hk, Option.none_or, h0]
          simp [hb]
        · rw [keptPhases_some hmem (infoAt_pos hinfo) hu hph hb]
          simp [hb, hne]
      · intro hph hcov
        have hk : (keptPhases vars).find? (·.pos == pos) = none :=
          keptPhases_none hu (fun b c d hp => by rw [hph] at hp; cases hp)
        have hl := computeVotes_uncovered reads [] votes hcov hv
        have hna : (fun p => !isAlready vars p) pos = true := by simp [hal, alreadyPhased, hph]
        have hl' : (votes.filter fun e => !isAlready vars e.1).lookup pos = none := by
          rw [lookup_filter_key (fun p => !isAlready vars p) pos hna votes, hl]; rfl
        have h0 := find_none_of_no_entry (consensusVotes_no_entry _ cs0 hc hl')
        unfold phaseOut
        rw [List.find?_append, hk, Option.none_or, h0]

set_option linter.unusedSimpArgs false in
/-- **haplotag_then_haplotagphase_reproduces** (the whole run: any number of chromosomes and samples, every option):
if `run_haplotagphase` ends normally, then for every requested chromosome of the variant file and every sample of the
VCF the consensus handed to the writer satisfies the three clauses (`Reproduces`) with respect to ANY phased VCF `V`
(`info`) — the hypotheses about the reads (tagged from `V`, inside one phase set, positive quality) are per position
inside `Reproduces` — and the written records of the chromosome are the keep-mode writer's (`C09.writeChromXF`) on
these consensus lists; a chromosome not requested by `--chromosome` is written unchanged. -/
theorem haplotag_then_haplotagphase_reproduces {opts : Opts} {samples bamSamples : List String} {chroms : List ChromIn}
    {outs : List ChromOut} (hrun : runFile opts samples bamSamples chroms = .ok outs)
    {c : ChromIn} (hc : c ∈ chroms) :
    ∃ o ∈ outs, o.name = c.name ∧
      if opts.chromosomes.isEmpty || opts.chromosomes.contains c.name then
        o.records = C04.outRecords (C09.writeChromXF (writerCfg opts samples o.cons) none c.records) ∧
        ∀ t ∈ c.tables, ∃ cs, (t.name, cs) ∈ o.cons ∧
          ∀ info : PhaseInfo,
            Reproduces info t.vars (readsFor opts.ignoreRG bamSamples t.name c.alns) opts.par cs
      else o.records = c.records ∧ o.cons = [] := by
  unfold runFile at hrun
  split at hrun
  · cases hrun
  · split at hrun
    · cases hrun
    · obtain ⟨o, ho, hro⟩ := chromLoop_mem chroms outs hrun c hc
      refine ⟨o, ho, ?_⟩
      unfold runChrom at hro
      cases href : c.ref with
      | none => simp [href] at hro
      | some ref =>
        simp only [href] at hro
        cases h1 : opts.chromosomes.isEmpty <;> cases h2 : opts.chromosomes.contains c.name <;>
          simp only [h1, h2, Bool.not_true, Bool.not_false, Bool.and_false, Bool.and_true, Bool.false_and, Bool.true_and,
            Bool.or_false, Bool.or_true, Bool.false_or, Bool.true_or, if_true, if_false, Bool.false_eq_true] at hro ⊢
        case false.false =>
          injection hro with hro
          subst hro
          exact ⟨rfl, rfl, rfl⟩
        all_goals
          cases hs : samplesLoop opts bamSamples c ref c.tables with
          | error e => simp [hs] at hro
          | ok cons =>
            simp only [hs] at hro
            injection hro with hro
            subst hro
            refine ⟨rfl, rfl, fun t ht => ?_⟩
            obtain ⟨cs, h1, h2⟩ := samplesLoop_mem c.tables cons hs t ht
            exact ⟨cs, h1, fun info => haplotag_then_haplotagphase_sample info h2⟩

/-! ### non-vacuity: two phase sets, four reads, every clause

`V` (`exV`): 10 `0|1` and 20 `1|0` in set 11, 30 `1|0` and 40 `0|1` in set 31.  The input of haplotagphase (`exVars`) has
these four unphased, 25 (unphased in `V`), 50 already phased `0|1:77`, 55 already phased without a set value, 60 covered by
no read.  Four error-free reads (two per set, one per haplotype), tagged by the C10 model (`tagRead`). -/
def exV : PhaseInfo := [(10, (11, [0, 1])), (20, (11, [1, 0])), (30, (31, [1, 0])), (40, (31, [0, 1]))]
def exVars : List VarInfo :=
  [⟨10, [1, 0], none, true⟩, ⟨20, [1, 0], none, true⟩, ⟨25, [1, 0], none, true⟩, ⟨30, [1, 0], none, true⟩,
   ⟨40, [1, 0], none, true⟩, ⟨50, [1, 0], some (77, [0, 1]), true⟩, ⟨55, [1, 0], some (0, [1, 0]), true⟩,
   ⟨60, [1, 0], none, true⟩]
def exFull : List (List RV) :=
  [[⟨10, 0, 30⟩, ⟨20, 1, 30⟩, ⟨25, 1, 30⟩], [⟨10, 1, 30⟩, ⟨20, 0, 30⟩],
   [⟨30, 1, 30⟩, ⟨40, 0, 30⟩], [⟨30, 0, 30⟩, ⟨40, 1, 30⟩, ⟨50, 1, 30⟩, ⟨55, 0, 30⟩]]
def exAlns : List (C10.Aln Payload) := exFull.map (tagRead exV "s")
def exReads : List TRead := exAlns.map treadOf

/-- the tags the C10 model writes: HP 1 / 2, PS 11 / 31 -/
example : exReads.map (fun r => (r.ps, r.hp)) = [(11, 1), (11, 2), (31, 1), (31, 2)] := by decide

/-- the run reproduces `V` (10, 20, 30, 40), phases 25 from the reads (outside the statement), leaves 50 as it is, hands
nothing to the writer for 55 (phased, no set value) and 60 (uncovered) -/
example : (runSample {} "ACGTACGTAC".toList.toArray exVars exReads).toOption.map
      (fun cs => exVars.map fun v => phaseOut cs v.pos) =
    some [some (11, 0, 1), some (11, 1, 0), some (11, 1, 0), some (31, 1, 0), some (31, 0, 1), some (77, 0, 1), none, none] := by
  decide

/-- the hypotheses of `Reproduces` hold for these reads: each is `TaggedFrom exV` -/
example : ∀ r ∈ exReads, voting r = true → TaggedFrom exV r := by
  intro r hr hv
  simp only [exReads, exAlns, exFull, List.map_cons, List.map_nil, List.mem_cons, List.not_mem_nil, or_false] at hr
  rcases hr with rfl | rfl | rfl | rfl
  · exact tagRead_taggedFrom (τ := 0) (P := 11) (by decide) "s" (errorFree_of_B (by decide)) (oneSet_of_B (by decide)) hv
  · exact tagRead_taggedFrom (τ := 1) (P := 11) (by decide) "s" (errorFree_of_B (by decide)) (oneSet_of_B (by decide)) hv
  · exact tagRead_taggedFrom (τ := 0) (P := 31) (by decide) "s" (errorFree_of_B (by decide)) (oneSet_of_B (by decide)) hv
  · exact tagRead_taggedFrom (τ := 1) (P := 31) (by decide) "s" (errorFree_of_B (by decide)) (oneSet_of_B (by decide)) hv

example : qualAt 10 exReads = 60 ∧ qualAt 40 exReads = 60 ∧ covered 60 exReads = false := by decide

/-- the whole run on two chromosomes (the second not requested) with the writer: the record at 10 comes back `0|1:11`,
the record at 50 (`0|1:77`) unchanged, the unrequested chromosome unchanged -/
def exRec (pos : Nat) (c : C04.Call) : C04.Record := ⟨"chr1", pos, "A", ["C"], ["GT", "PS"], [("s", c)]⟩
def exChroms : List ChromIn :=
  [⟨"chr1", some "ACGTACGTAC".toList.toArray, true, [⟨"s", exVars⟩], exAlns,
     [exRec 10 ⟨some [some 0, some 1], false, []⟩, exRec 50 ⟨some [some 0, some 1], true, [("PS", .int 77)]⟩]⟩,
   ⟨"chr2", some #[], false, [⟨"s", []⟩], [], [exRec 7 ⟨some [some 0, some 1], false, []⟩]⟩]

example : (runFile { chromosomes := ["chr1"] } ["s"] ["s"] exChroms).toOption.map (·.map (·.records)) =
    some [[exRec 10 ⟨some [some 0, some 1], true, [("PS", .int 11)]⟩,
           exRec 50 ⟨some [some 0, some 1], true, [("PS", .int 77)]⟩],
          [exRec 7 ⟨some [some 0, some 1], false, []⟩]] := by decide

/-- error exits: a requested chromosome the BAM does not know; `--ignore-read-groups` with two samples -/
example : (runFile {} ["s"] ["s"] exChroms).toOption.isNone = true ∧
    (match runFile { ignoreRG := true } ["s", "t"] ["s"] exChroms with
      | .error e => decide (e = .needSampleOption) | .ok _ => false) = true ∧
    (match runFile {} ["s"] ["s"] exChroms with
      | .error e => decide (e = .chromNotInBam "chr2") | .ok _ => false) = true := by decide

/-- **restricted_genotype_is_own_genotype.** Every variant that reaches re-alignment in the reader is paired with the
genotype of its OWN record (same index of the unfiltered table), whatever records (symbolic ALT alleles) are skipped in
between, and every non-symbolic variant of the table reaches re-alignment with its own genotype. -/
theorem restricted_genotype_is_own_genotype (variants : List TabVar) (genotypes : List (List Nat)) :
    (∀ p ∈ realignPairs variants genotypes, p.1.symbolic = false ∧
      ∃ i : Nat, variants[i]? = some p.1 ∧ genotypes[i]? = some p.2) ∧
    (∀ (i : Nat) v g, variants[i]? = some v → genotypes[i]? = some g → v.symbolic = false →
      (v, g) ∈ realignPairs variants genotypes) := by
  constructor
  · intro p hp
    simp only [realignPairs, List.mem_filter, Bool.not_eq_true'] at hp
    obtain ⟨hm, hs⟩ := hp
    obtain ⟨i, hi⟩ := List.getElem?_of_mem hm
    exact ⟨hs, i, (List.getElem?_zip_eq_some.1 hi)⟩
  · intro i v g hv hg hs
    simp only [realignPairs, List.mem_filter, Bool.not_eq_true']
    exact ⟨List.mem_of_getElem? (List.getElem?_zip_eq_some.2 ⟨hv, hg⟩), hs⟩

/-- witness for the filter-one-list change (seed C17-h): `<DEL>` called `1/1` in front of a heterozygous SNV — as coded the
SNV is re-aligned under its own `0/1`, with the variant list filtered alone it inherits `1/1` -/
example : realignPairs [⟨10, true⟩, ⟨20, false⟩] [[1, 1], [1, 0]] = [(⟨20, false⟩, [1, 0])] ∧
    realignPairsShifted [⟨10, true⟩, ⟨20, false⟩] [[1, 1], [1, 0]] = [(⟨20, false⟩, [1, 1])] := by decide

/-- **run_error_exits.** The error exits of `run_haplotagphase` in the order of the code: no `--reference`;
`--ignore-read-groups` on a multi-sample VCF; then, chromosome by chromosome, a chromosome missing from the FASTA stops
the run even when `--chromosome` does not request it. -/
theorem run_error_exits (opts : Opts) (samples bamSamples : List String) (c : ChromIn) (rest : List ChromIn) :
    (opts.reference = false → runFile opts samples bamSamples (c :: rest) = .error .referenceMissing) ∧
    (opts.reference = true → opts.ignoreRG = true → 1 < samples.length →
      runFile opts samples bamSamples (c :: rest) = .error .needSampleOption) ∧
    (opts.reference = true → (opts.ignoreRG = true → samples.length ≤ 1) → c.ref = none →
      runFile opts samples bamSamples (c :: rest) = .error (.chromNotInFasta c.name)) := by
  refine ⟨fun h => by simp [runFile, h], fun h1 h2 h3 => by simp [runFile, h1, h2, h3], fun h1 h2 h3 => ?_⟩
  have : (opts.ignoreRG && decide (samples.length > 1)) = false := by
    cases hi : opts.ignoreRG with
    | false => rfl
    | true => have := h2 hi; simp; omega
  simp [runFile, h1, this, chromLoop, runChrom, h3]

end WhVerif.Props.C17

import WhVerif.Lemmas.C17Fold
import WhVerif.Lemmas.C17Multi
/-!
# C17 — haplotag followed by haplotagphase reproduces the phasing that tagged the reads

Theorems about `WhVerif.C17` (Model/C17.lean).  `V` = the phased VCF that tagged the reads; at a heterozygous
biallelic variant `pos` it says `a0|a1` (`{a0,a1} = {0,1}`) in phase set `P`.  `haplotag` writes HP = haplotype + 1
and PS = `P` on the reads (model C10: `newTags`), so error-free reads tagged from `V` are `Consistent pos P a0 a1`.
-/
namespace WhVerif.Props.C17
open WhVerif.C17
open WhVerif.C10 (RV)

/-- **votes_agree.** All votes for a variant land on the one key `(P − 1, a0)` that reconstructs `V`'s order:
reads of haplotype 1 vote `0 xor id(a0)`, reads of haplotype 2 vote `1 xor id(a1)`, and `id(a1) = 1 − id(a0)`.
After the vote loop the table of `pos` is either absent (no voting read covers `pos`) or holds the summed
quality on that key and 0 on the other. -/
theorem votes_agree {vars : List VarInfo} {pos : Nat} {info : VarInfo} {P : Int} {a0 a1 : Nat}
    (ha : (a0 = 0 ∧ a1 = 1) ∨ (a0 = 1 ∧ a1 = 0))
    (hinfo : infoAt vars pos = some info) (hgt : info.gt = [0, 1])
    {reads : List TRead} (hcons : Consistent pos P a0 a1 reads)
    {votes : Votes} (h : computeVotes vars [] reads = .ok votes) :
    (votes.lookup pos = none → qualAt pos reads = 0) ∧
    (∀ inner, votes.lookup pos = some inner →
      inner = [((P - 1, 0), if a0 = 0 then qualAt pos reads else 0), ((P - 1, 1), if a0 = 0 then 0 else qualAt pos reads)]) := by
  have hi : PosInv pos (P - 1) a0 0 [] := ⟨fun _ => rfl, fun inner h => by simp [List.lookup] at h⟩
  have := computeVotes_inv ha hinfo hgt reads hcons hi h
  simpa [PosInv, shape] using this

example : (computeVotes [⟨5, [0, 1], none, true⟩] [] [⟨40, 1, [⟨5, 1, 30⟩]⟩, ⟨40, 2, [⟨5, 0, 30⟩]⟩]).toOption
    = some [(5, [((39, 0), 0), ((39, 1), 60)])] := by decide

/-- **consensus_reproduces.** If error-free reads tagged from `V` (no read carrying the tag of another phase
set covers `pos`: `Consistent`) cast a vote of positive quality at the unphased heterozygous variant `pos`, then
with the default thresholds (`--gap-threshold ≤ 100`, not `--only-indels`; the homopolymer filter never fires)
`haplotagphase` writes `a0|a1` with PS = `P` there: `V`'s haplotype order and the phase set of the reads. -/
theorem consensus_reproduces {vars : List VarInfo} {pos : Nat} {info : VarInfo} {P : Int} {a0 a1 : Nat}
    (ha : (a0 = 0 ∧ a1 = 1) ∨ (a0 = 1 ∧ a1 = 0))
    (hinfo : infoAt vars pos = some info) (hgt : info.gt = [0, 1]) (hph : info.phase = none)
    {reads : List TRead} (hcons : Consistent pos P a0 a1 reads) (hq : 0 < qualAt pos reads)
    (par : Params) (hgap : par.gapThreshold ≤ 100) (honly : par.onlyIndels = false) (ref : Array Char)
    (repaired : Bool) {cs : List Cons} (h : C17.run repaired par ref vars reads = .ok cs) :
    phaseOut cs pos = some (P, a0, a1) := by
  unfold C17.run at h
  cases hv : computeVotes vars [] reads with
  | error e => simp [hv] at h
  | ok votes =>
    simp only [hv] at h
    obtain ⟨hnone, hsome⟩ := votes_agree ha hinfo hgt hcons hv
    cases hl : votes.lookup pos with
    | none => have := hnone hl; omega
    | some inner =>
      have hin := hsome inner hl
      have hk : a0 ≤ 1 := by omega
      have hshape : inner = shape (P - 1) a0 (qualAt pos reads) := by simpa [shape] using hin
      unfold consensus at h
      cases hc : consensusVotes repaired par ref vars votes with
      | error e => simp [hc] at h
      | ok cs0 =>
        simp only [hc] at h
        obtain ⟨info', c, h1, h2, h3⟩ := find_consensusVotes hc hl
        rw [hinfo] at h1
        injection h1 with h1
        subst h1
        rw [hshape, consensusAt_shape par hgap honly ref info hgt hph (P - 1) hk hq repaired] at h2
        injection h2 with h2
        have hfind : cs.find? (·.pos == pos) = some c := by
          injection h with h
          subst h
          split
          · simp [List.find?_append, h3]
          · exact h3
        have h10 : 1 - a0 = a1 := by omega
        unfold phaseOut
        rw [hfind, ← h2]
        simp only [h10]
        have hne : a0 ≠ a1 := by omega
        simp [hne]

example : (C17.run false {} "ACGTACGTAC".toList.toArray [⟨5, [0, 1], none, true⟩]
    [⟨40, 1, [⟨5, 1, 30⟩]⟩, ⟨40, 2, [⟨5, 0, 30⟩]⟩]).toOption = some [⟨5, 39, some (1, 0)⟩] := by decide

/-- **already_phased_untouched** (behaviour after fixes/F19.patch): a variant that is phased in the input keeps
its phase set and its haplotype order whatever the reads vote, and also when no read votes. -/
theorem already_phased_untouched {vars : List VarInfo} {pos : Nat} {info : VarInfo} {block : Int} {a0 a1 : Nat}
    {tl : List Nat} (hinfo : infoAt vars pos = some info) (hph : info.phase = some (block, a0 :: a1 :: tl))
    (hne : a0 ≠ a1) (par : Params) (ref : Array Char) (reads : List TRead) {cs : List Cons}
    (h : C17.run true par ref vars reads = .ok cs) :
    phaseOut cs pos = some (block, a0, a1) := by
  unfold C17.run at h
  cases hv : computeVotes vars [] reads with
  | error e => simp [hv] at h
  | ok votes =>
    simp only [hv, consensus] at h
    cases hc : consensusVotes true par ref vars votes with
    | error e => simp [hc] at h
    | ok cs0 =>
      simp only [hc, if_true] at h
      injection h with h
      subst h
      have hpos := infoAt_pos hinfo
      cases hl : votes.lookup pos with
      | some inner =>
        obtain ⟨info', c, h1, h2, h3⟩ := find_consensusVotes hc hl
        rw [hinfo] at h1
        injection h1 with h1
        subst h1
        have : c = ⟨info.pos, block - 1, some (a0, a1)⟩ := by
          unfold consensusAt at h2
          simp only [hph] at h2
          injection h2 with h2
          exact h2.symm
        subst this
        unfold phaseOut
        simp [List.find?_append, h3, hne]
      | none =>
        -- no vote at `pos`: the entry comes from `passThrough`
        have hnov : ∀ c ∈ cs0, c.pos ≠ pos := by
          have key : ∀ (vs : Votes) (l : List Cons), consensusVotes true par ref vars vs = .ok l →
              vs.lookup pos = none → ∀ c ∈ l, c.pos ≠ pos := by
            intro vs
            induction vs with
            | nil => intro l hl' _ c hc'; simp [consensusVotes] at hl'; subst hl'; cases hc'
            | cons e rest ih =>
              obtain ⟨p, i⟩ := e
              intro l hl' hlk c hc'
              simp only [consensusVotes] at hl'
              cases hia : infoAt vars p with
              | none => simp [hia] at hl'
              | some info' =>
                simp only [hia] at hl'
                cases hca : consensusAt true par ref info' i with
                | error e => simp [hca] at hl'
                | ok c1 =>
                  cases hr : consensusVotes true par ref vars rest with
                  | error e => simp [hca, hr] at hl'
                  | ok l' =>
                    simp only [hca, hr] at hl'
                    injection hl' with hl'
                    subst hl'
                    simp only [List.lookup_cons] at hlk
                    cases hb : (pos == p) with
                    | true => rw [hb] at hlk; cases hlk
                    | false =>
                      rw [hb] at hlk
                      rcases List.mem_cons.1 hc' with rfl | hc'
                      · rw [(consensusAt_pos hca).trans (infoAt_pos hia)]
                        intro e; subst e; simp at hb
                      · exact ih l' hr hlk c hc'
          exact key votes cs0 hc hl
        have hfind0 : cs0.find? (·.pos == pos) = none := by
          rw [List.find?_eq_none]
          intro c hc'
          simpa using hnov c hc'
        have hany : votes.any (·.1 == pos) = false := by
          clear hc hv
          induction votes with
          | nil => rfl
          | cons e rest ih =>
            obtain ⟨p, i⟩ := e
            simp only [List.lookup_cons] at hl
            cases hb : (pos == p) with
            | true => rw [hb] at hl; cases hl
            | false =>
              rw [hb] at hl
              have : (p == pos) = false := by
                have : ¬ pos = p := by simpa using hb
                simpa using fun e : p = pos => this e.symm
              simp [this, ih hl]
        -- the first entry of `passThrough` at `pos` is the one of `info` (first variant record with that position)
        have hpt : (passThrough vars votes).find? (·.pos == pos) = some ⟨info.pos, block - 1, some (a0, a1)⟩ := by
          unfold infoAt at hinfo
          clear hc hv hfind0 hnov
          induction vars with
          | nil => simp at hinfo
          | cons w ws ih =>
            simp only [List.find?_cons] at hinfo
            cases hw : (w.pos == pos) with
            | true =>
              rw [hw] at hinfo
              injection hinfo with hinfo
              subst hinfo
              have hwp : w.pos = pos := by simpa using hw
              simp [passThrough, hwp, hany, hph]
            | false =>
              rw [hw] at hinfo
              have ih' := ih hinfo
              simp only [passThrough, List.filterMap_cons] at ih' ⊢
              split
              · exact ih'
              · rename_i c hc'
                have : c.pos = w.pos := by
                  split at hc'
                  · cases hc'
                  · split at hc'
                    · injection hc' with hc'; subst hc'; rfl
                    · cases hc'
                simp [this, hw, ih']
        unfold phaseOut
        simp [List.find?_append, hfind0, hpt, hne]

example : (C17.run true {} "ACGTACGTAC".toList.toArray [⟨5, [0, 1], some (7, [0, 1]), true⟩]
    [⟨40, 1, [⟨5, 1, 30⟩]⟩, ⟨40, 2, [⟨5, 0, 30⟩]⟩]).toOption = some [⟨5, 6, some (0, 1)⟩] := by decide

/-- defect F19 on the faithful model (`repaired = false`): reads tagged H1/PS 40 that show the ALT allele turn the
input call `0|1:7` into `1|0:40`, and without any voting read the call loses its phase -/
example :
    (C17.run false {} "ACGTACGTAC".toList.toArray [⟨5, [0, 1], some (7, [0, 1]), true⟩]
      [⟨40, 1, [⟨5, 1, 30⟩]⟩]).toOption.map (phaseOut · 5) = some (some (40, 1, 0)) ∧
    (C17.run false {} "ACGTACGTAC".toList.toArray [⟨5, [0, 1], some (7, [0, 1]), true⟩] []).toOption.map (phaseOut · 5)
      = some none := by decide

/-- the homopolymer filter of `consensus` can never fire: the run length is capped at `--cut-poly`, and the
test is `max_length > cut_homopolymers` (observation, not part of the property) -/
theorem homopolymer_filter_dead (ref : Array Char) (pos cut : Nat) :
    ¬ cut < max (lengthOfHomopolymer ref (pos + 1) true cut) (lengthOfHomopolymer ref pos false cut) := by
  have h1 := lengthOfHomopolymer_le ref (pos + 1) true cut
  have h2 := lengthOfHomopolymer_le ref pos false cut
  omega

/-! ## multi-allelic variants (allele ids ≥ 2) of a diploid sample

`haplotagphase` reads multi-allelic records by default (`--mav`); `haplotag` and `phase` skip them, so the reads are
tagged from the biallelic variants around them.  The genotype vector of a heterozygous call is `[x, y]` with
`x ≠ y` (`Genotype.as_vector()`: descending, so `[2, 1]` for `1/2`; the statements hold for either order), and
`allele_to_id` / `id_to_allele` map `x ↔ 0`, `y ↔ 1`.  `V` says `a0|a1` with `{a0, a1} = {x, y}`. -/

/-- **votes_agree_multiallelic.** Per-position invariant of the vote loop for arbitrary allele ids: all votes of
error-free reads tagged from `V` land on the key `(P − 1, index of a0 in the genotype vector)`; the other key of the
phase set stays 0 and no other phase set appears. -/
theorem votes_agree_multiallelic {vars : List VarInfo} {pos : Nat} {info : VarInfo} {P : Int} {x y a0 a1 : Nat}
    (hxy : x ≠ y) (ha : (a0 = x ∧ a1 = y) ∨ (a0 = y ∧ a1 = x))
    (hinfo : infoAt vars pos = some info) (hgt : info.gt = [x, y])
    {reads : List TRead} (hcons : Consistent pos P a0 a1 reads)
    {votes : Votes} (h : computeVotes vars [] reads = .ok votes) :
    (votes.lookup pos = none → qualAt pos reads = 0) ∧
    (∀ inner, votes.lookup pos = some inner →
      inner = [((P - 1, 0), if a0 = x then qualAt pos reads else 0), ((P - 1, 1), if a0 = x then 0 else qualAt pos reads)]) := by
  have hi : PosInv pos (P - 1) (keyOf x a0) 0 [] := ⟨fun _ => rfl, fun inner h => by simp [List.lookup] at h⟩
  have := computeVotes_inv_pair hxy ha hinfo hgt reads hcons hi h
  simp only [PosInv, shape, Nat.zero_add] at this
  refine ⟨this.1, fun inner hin => ?_⟩
  have := this.2 inner hin
  by_cases e : a0 = x <;> simpa [keyOf, e] using this

/-- genotype `1/2` (vector `[2, 1]`), `V` says `1|2` in set 40: the read of haplotype 1 shows allele 1 (index 1), the
read of haplotype 2 shows allele 2 (index 0): both vote for key 1 -/
example : (computeVotes [⟨5, [2, 1], none, true⟩] [] [⟨40, 1, [⟨5, 1, 30⟩]⟩, ⟨40, 2, [⟨5, 2, 30⟩]⟩]).toOption
    = some [(5, [((39, 0), 0), ((39, 1), 60)])] := by decide

/-- **consensus_reproduces_multiallelic.** The round trip for arbitrary allele ids: if error-free reads tagged from
`V` cast a vote of positive quality at an unphased heterozygous diploid call with genotype vector `[x, y]`, then (default
thresholds) `haplotagphase` writes `a0|a1` with PS = `P`: `V`'s haplotype order and the phase set of the reads.
`consensus_reproduces` is the instance `x = 0, y = 1`. -/
theorem consensus_reproduces_multiallelic {vars : List VarInfo} {pos : Nat} {info : VarInfo} {P : Int}
    {x y a0 a1 : Nat} (hxy : x ≠ y) (ha : (a0 = x ∧ a1 = y) ∨ (a0 = y ∧ a1 = x))
    (hinfo : infoAt vars pos = some info) (hgt : info.gt = [x, y]) (hph : info.phase = none)
    {reads : List TRead} (hcons : Consistent pos P a0 a1 reads) (hq : 0 < qualAt pos reads)
    (par : Params) (hgap : par.gapThreshold ≤ 100) (honly : par.onlyIndels = false) (ref : Array Char)
    (repaired : Bool) {cs : List Cons} (h : C17.run repaired par ref vars reads = .ok cs) :
    phaseOut cs pos = some (P, a0, a1) := by
  unfold C17.run at h
  cases hv : computeVotes vars [] reads with
  | error e => simp [hv] at h
  | ok votes =>
    simp only [hv] at h
    have hi : PosInv pos (P - 1) (keyOf x a0) 0 [] := ⟨fun _ => rfl, fun inner h => by simp [List.lookup] at h⟩
    have hinv := computeVotes_inv_pair hxy ha hinfo hgt reads hcons hi hv
    simp only [Nat.zero_add] at hinv
    cases hl : votes.lookup pos with
    | none => have := hinv.1 hl; omega
    | some inner =>
      have hshape := hinv.2 inner hl
      unfold consensus at h
      cases hc : consensusVotes repaired par ref vars votes with
      | error e => simp [hc] at h
      | ok cs0 =>
        simp only [hc] at h
        obtain ⟨info', c, h1, h2, h3⟩ := find_consensusVotes hc hl
        rw [hinfo] at h1
        injection h1 with h1
        subst h1
        rw [hshape, consensusAt_shape_pair par hgap honly ref info hxy ha hgt hph (P - 1) hq repaired] at h2
        injection h2 with h2
        have hfind : cs.find? (·.pos == pos) = some c := by
          injection h with h
          subst h
          split
          · simp [List.find?_append, h3]
          · exact h3
        have hne : a0 ≠ a1 := by
          rcases ha with ⟨rfl, rfl⟩ | ⟨rfl, rfl⟩
          · exact hxy
          · exact hxy.symm
        unfold phaseOut
        rw [hfind, ← h2]
        simp [hne]

/-- `1/2` site, `V` = `2|1:40`: haplotype-1 reads show allele 2, haplotype-2 reads allele 1; output `2|1`, PS 40 -/
example : ((C17.run false {} "ACGTACGTAC".toList.toArray [⟨5, [2, 1], none, true⟩]
    [⟨40, 1, [⟨5, 2, 30⟩]⟩, ⟨40, 2, [⟨5, 1, 30⟩]⟩]).toOption.map (phaseOut · 5)) = some (some (40, 2, 1)) := by decide

/-- a read showing an allele that is not in the genotype (possible only without realignment: with `--reference` the
detection is restricted to the genotype's alleles) makes `compute_votes` raise `KeyError` — outside the premise
"error-free reads" -/
example : (computeVotes [⟨5, [2, 0], none, true⟩] [] [⟨40, 1, [⟨5, 1, 30⟩]⟩]).toOption = none := by decide

end WhVerif.Props.C17

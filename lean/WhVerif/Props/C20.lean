import WhVerif.Lemmas.C20
import WhVerif.Lemmas.C20Files
import WhVerif.Lemmas.C20Deep
import WhVerif.Lemmas.C03Write
/-!
# C20 — auxiliary reports cover the whole run and agree with the phased VCF

Theorems about `Model/C20.lean` (the chromosome × family loop as a state machine over the three list
files) and about the record writer of `Model/C04.lean` (the changed-genotype rows).

`lists_cover_run` holds for the *repaired* writers (`Opts.repaired = true`, fixes/F1.patch).  For the code
as it is (`repaired = false`) the opposite is proved: `f1_faithful_keeps_last_only` (for every run the two
`"w"` files hold the last call's rows only) and the concrete witness `f1_witness`.
-/
namespace WhVerif.Props.C20
open WhVerif.C04 WhVerif.C20

/-- **lists_cover_run** (repaired writers).  After a run over any sequence of chromosomes, each with any
    sequence of families, each requested file holds exactly the rows of every processed (chromosome,
    family), in processing order. -/
theorem lists_cover_run (o : Opts) (hr : o.repaired = true) (chroms : List ChromRun) :
    (o.readList = true → (run o chroms).readList = some ((allInsts chroms).flatMap readListRows)) ∧
    (o.gtList = true → (run o chroms).gtList.getD [] = (selectedChroms chroms).flatMap (·.gtChanges)) ∧
    (o.recList = true → (run o chroms).recList.getD [] = (allInsts chroms).flatMap recombRows) := by
  refine ⟨fun h => ?_, fun h => ?_, fun h => ?_⟩
  · simp [run, runFold_read o h, initFiles, h]
  · simp [run, runFold_gt_repaired o h hr, initFiles]
  · simp [run, runFold_rec_repaired o h hr, initFiles]

/-- corollary in the words of the property: no row of any processed chromosome / family is missing -/
theorem lists_cover_run_mem (o : Opts) (hr : o.repaired = true) (chroms : List ChromRun)
    (c : ChromRun) (hc : c ∈ chroms) (hs : c.selected = true) :
    (o.gtList = true → ∀ row ∈ c.gtChanges, row ∈ (run o chroms).gtList.getD []) ∧
    (∀ i ∈ c.families,
      (o.readList = true → ∀ row ∈ readListRows i, row ∈ (run o chroms).readList.getD []) ∧
      (o.recList = true → ∀ row ∈ recombRows i, row ∈ (run o chroms).recList.getD [])) := by
  obtain ⟨h1, h2, h3⟩ := lists_cover_run o hr chroms
  have hsel : c ∈ selectedChroms chroms := by simp [selectedChroms, hc, hs]
  refine ⟨fun h row hrow => ?_, fun i hi => ⟨fun h row hrow => ?_, fun h row hrow => ?_⟩⟩
  · rw [h2 h]; exact List.mem_flatMap.mpr ⟨c, hsel, hrow⟩
  · rw [h1 h]
    exact List.mem_flatMap.mpr ⟨i, List.mem_flatMap.mpr ⟨c, hsel, hi⟩, hrow⟩
  · rw [h3 h]
    exact List.mem_flatMap.mpr ⟨i, List.mem_flatMap.mpr ⟨c, hsel, hi⟩, hrow⟩

/-- files that were not requested are not written -/
theorem lists_not_requested (o : Opts) (chroms : List ChromRun) :
    (o.readList = false → (run o chroms).readList = none) ∧
    (o.gtList = false → (run o chroms).gtList = none) ∧
    (o.recList = false → (run o chroms).recList = none) := by
  refine ⟨fun h => ?_, fun h => ?_, fun h => ?_⟩
  · have : ∀ (cs : List ChromRun) (fs : Files), (cs.foldl (chromStep o) fs).readList = fs.readList := by
      intro cs
      induction cs with
      | nil => intro fs; rfl
      | cons c r ih => intro fs; rw [List.foldl_cons, ih, chromStep_read]; simp [h]
    simp [run, this, initFiles, h]
  · simp [run, runFold_gt_off o h, initFiles]
  · simp [run, runFold_rec_off o h, initFiles]

/-- **F1 on the code as it is**: whatever the run, the changed-genotype list holds the rows of the last
    processed chromosome only. -/
theorem f1_faithful_keeps_last_only (o : Opts) (hg : o.gtList = true) (hr : o.repaired = false)
    (chroms : List ChromRun) :
    (run o chroms).gtList = ((selectedChroms chroms).getLast?).map (·.gtChanges) := by
  rw [run, runFold_gt_faithful o hg hr]
  cases (selectedChroms chroms).getLast? <;> simp [initFiles]

/-- **F1 witness**: two chromosomes, one change each; as coded the first row is lost, repaired it is kept. -/
theorem f1_witness :
    let row1 : GtChange := ⟨"S", 10, "A", ["C"], [0, 0], [0, 1]⟩
    let row2 : GtChange := ⟨"S", 20, "G", ["T"], [0, 1], [1, 1]⟩
    let chroms : List ChromRun := [⟨true, [], [row1]⟩, ⟨true, [], [row2]⟩]
    (run ⟨false, true, false, false⟩ chroms).gtList = some [row2] ∧
    (run ⟨false, true, false, true⟩ chroms).gtList = some [row1, row2] := by
  constructor <;> rfl

/-- **readlist_rows_sound**.  Every row of the read list is one of the reads handed to the solver (same
    index in `all_reads` and in the returned partition), its haplotype is the partition entry, and its
    phase set is the component of the read's first variant (+1 for the 1-based VCF position). -/
theorem readlist_rows_sound (i : Inst) (row : ReadRow) (h : row ∈ readListRows i) :
    ∃ (k : Nat) (r : Read) (f : Nat), i.reads[k]? = some r ∧ i.partition[k]? = some row.hap ∧
      row.name = r.name ∧ row.sourceId = r.sourceId ∧ row.sample = r.sample ∧
      r.positions.head? = some f ∧ alookup i.comps f = some (row.phaseSet - 1) ∧ 1 ≤ row.phaseSet ∧
      row.first = f + 1 ∧ row.nVariants = r.positions.length := by
  simp only [readListRows, List.mem_filterMap] at h
  obtain ⟨⟨r, hp⟩, hmem, hrow⟩ := h
  obtain ⟨k, hk⟩ := List.getElem?_of_mem hmem
  rw [List.getElem?_zip_eq_some] at hk
  simp only [readRow] at hrow
  split at hrow
  · rename_i f l c hf hl hc
    cases hrow
    refine ⟨k, r, f, hk.1, hk.2, rfl, rfl, rfl, hf, ?_, by simp, rfl, rfl⟩
    simpa [hf] using hc
  · cases hrow

/-- **readlist rows of a whole run** (repaired or not — the read list is appended in both): every row in
    the final file stems from a processed (chromosome, family). -/
theorem readlist_rows_from_run (o : Opts) (h : o.readList = true) (chroms : List ChromRun) (row : ReadRow)
    (hrow : row ∈ (run o chroms).readList.getD []) :
    ∃ c ∈ chroms, c.selected = true ∧ ∃ i ∈ c.families, row ∈ readListRows i := by
  simp only [run, runFold_read o h, initFiles, h, if_true, Option.map_some, List.nil_append,
    Option.getD_some, List.mem_flatMap, allInsts, selectedChroms, List.mem_filter] at hrow
  obtain ⟨i, ⟨c, ⟨hc, hs⟩, hi⟩, hr⟩ := hrow
  exact ⟨c, hc, by simpa using hs, i, hi, hr⟩

/-- **gtchange_rows_eq_diff**.  For one record written by `PhasedVcfWriter.write`:
    (a) every change row names a target sample whose genotype really differs between input and output, and
        reports exactly the old and the new genotype;
    (b) every call without a row has the same alleles as in the input (up to order). -/
theorem gtchange_rows_eq_diff (cfg : Cfg) (prev : Option Nat) (r : Record)
    (hnd : (cfg.targets.map (·.name)).Nodup) :
    (∀ row ∈ (writeRecord cfg prev r).changes, ∃ t ∈ cfg.targets, ∃ c c',
        row.sample = t.name ∧ row.pos = r.pos ∧ row.ref = r.ref ∧ row.alts = r.alts ∧
        clookup r.calls t.name = some c ∧ clookup (writeRecord cfg prev r).record.calls t.name = some c' ∧
        row.oldGt = gcode c.gt ∧ row.newGt = gcode c'.gt ∧ gcode c.gt ≠ gcode c'.gt) ∧
    (∀ n c c', clookup r.calls n = some c → clookup (writeRecord cfg prev r).record.calls n = some c' →
        (∀ row ∈ (writeRecord cfg prev r).changes, row.sample ≠ n) → GtPerm c'.gt c.gt) := by
  constructor
  · intro row hrow
    rw [writeRecord_changes] at hrow
    split at hrow
    · rename_i hreach
      simp only [List.mem_filterMap] at hrow
      obtain ⟨t, ht, hrow⟩ := hrow
      cases hc : clookup r.calls t.name with
      | none => simp [hc] at hrow
      | some c =>
        simp only [hc, Option.bind_some] at hrow
        have hft := findTarget_of_mem hnd ht
        have hfin : finalCall cfg prev r t.name c = (updateCall cfg t r (clearPhasing cfg r.format c)).1 := by
          simp [finalCall, hft, hreach]
        obtain ⟨h1, h2, h3, h4, h5, h6, h7⟩ := updateCall_changed cfg t r _ row hrow
        refine ⟨t, ht, c, finalCall cfg prev r t.name c, h1, h2, h3, h4, hc, ?_, ?_, ?_, ?_⟩
        · rw [writeRecord_clookup, hc]; rfl
        · rw [h5, clearPhasing_gcode]
        · rw [h6, hfin]
        · rw [hfin, ← clearPhasing_gcode cfg r.format c, ← h5, ← h6]; exact h7
    · cases hrow
  · exact fun n c c' hc hc' hno => writeRecord_gtPerm_of_no_row cfg prev r n c c' hc hc' hno

/-- **no change rows with trusted genotypes**: if every phase handed to the writer has the alleles of the
    input genotype (the super-read genotype equals the input genotype — guaranteed by the solver unless
    `--distrust-genotypes`), the writer reports no change for that record. -/
theorem gtchange_none_when_trusted (cfg : Cfg) (prev : Option Nat) (r : Record)
    (htrust : ∀ t ∈ cfg.targets, ∀ c p, clookup r.calls t.name = some c →
        lookupPhase cfg.mav t r.pos = some p → sortNat p = gcode c.gt) :
    (writeRecord cfg prev r).changes = [] :=
  writeRecord_changes_nil_of_trusted cfg prev r htrust

/-- **recomb_rows_within_set**.  Every row of the recombination list names a child of the family and two
    positions that are neighbours in the sorted member list of one component (phase set) of that family;
    the traced transmission value changes between the two. -/
theorem recomb_rows_within_set (i : Inst) (row : RecRow) (h : row ∈ recombRows i) :
    row.child ∈ i.children ∧ row.chrom = i.chrom ∧ 1 ≤ row.pos1 ∧ 1 ≤ row.pos2 ∧ row.pos1 ≤ row.pos2 ∧
    ∃ b pre suf, blockOf i.comps b = pre ++ (row.pos1 - 1) :: (row.pos2 - 1) :: suf ∧
      (row.pos1 - 1, b) ∈ i.comps ∧ (row.pos2 - 1, b) ∈ i.comps := by
  have key : ∀ (cs : List String) (k : Nat), row ∈ recombRowsFrom i k cs →
      row.child ∈ cs ∧ row.chrom = i.chrom ∧ 1 ≤ row.pos1 ∧ 1 ≤ row.pos2 ∧ row.pos1 ≤ row.pos2 ∧
      ∃ b pre suf, blockOf i.comps b = pre ++ (row.pos1 - 1) :: (row.pos2 - 1) :: suf ∧
        (row.pos1 - 1, b) ∈ i.comps ∧ (row.pos2 - 1, b) ∈ i.comps := by
    intro cs
    induction cs with
    | nil => intro k hk; simp [recombRowsFrom] at hk
    | cons child rest ih =>
      intro k hk
      simp only [recombRowsFrom, List.mem_append, List.mem_map] at hk
      rcases hk with ⟨e, he, hrow⟩ | hk
      · subst hrow
        simp only [findRecombination, mem_sortEv, List.mem_flatMap] at he
        obtain ⟨b, _, he⟩ := he
        obtain ⟨⟨pre, suf, hl⟩, _, _⟩ := mem_scanBlock he
        have hblock : blockOf i.comps b = ((blockOf i.comps b).head?.toList ++ pre) ++ e.p1 :: e.p2 :: suf := by
          cases hb : blockOf i.comps b with
          | nil => simp [hb] at hl
          | cons x xs => simp [hb] at hl ⊢; exact hl
        have hmemOf : ∀ p, p ∈ blockOf i.comps b → (p, b) ∈ i.comps := by
          intro p hp
          have := (sortNat_perm _).mem_iff.mp hp
          simp only [List.mem_map, List.mem_filter, beq_iff_eq] at this
          obtain ⟨⟨p', b'⟩, ⟨hm, hb'⟩, hpp⟩ := this
          simp only at hb' hpp
          subst hb' hpp
          exact hm
        have hsorted := sortNat_sorted ((i.comps.filter (·.2 == b)).map (·.1))
        have hle : e.p1 ≤ e.p2 := by
          have hs : (blockOf i.comps b).Pairwise (· ≤ ·) := hsorted
          rw [hblock, List.pairwise_append] at hs
          exact (List.pairwise_cons.mp hs.2.1).1 e.p2 (List.mem_cons_self)
        refine ⟨List.mem_cons_self, rfl, by simp, by simp, by simpa using hle, b,
          (blockOf i.comps b).head?.toList ++ pre, suf, ?_, ?_, ?_⟩
        · simpa using hblock
        · simp only [Nat.add_sub_cancel]
          exact hmemOf _ (by rw [hblock]; simp)
        · simp only [Nat.add_sub_cancel]
          exact hmemOf _ (by rw [hblock]; simp)
      · obtain ⟨h1, h2⟩ := ih (k + 1) hk
        exact ⟨List.mem_cons_of_mem _ h1, h2⟩
  exact key i.children 0 h

/-! ### non-vacuity: concrete instances satisfying the hypotheses, with non-trivial content -/

/-- a trio family on one chromosome with one recombination event in a 4-variant block -/
def exInst : Inst :=
  { chrom := "chr1",
    reads := [⟨"r1", 0, "child", [10, 20]⟩, ⟨"r2", 0, "child", [20, 30, 40]⟩, ⟨"r3", 0, "mother", [50, 60]⟩],
    partition := [0, 1, 1],
    comps := [(10, 10), (20, 10), (30, 10), (40, 10), (50, 50), (60, 50)],
    positions := [10, 20, 30, 40, 50, 60],
    recomb := [0, 5, 6, 7, 8, 9],
    tv := [0, 0, 0, 1, 1, 1],
    children := ["child"] }

example : readListRows exInst =
    [⟨"r1", 0, "child", 11, 0, 2, 11, 21⟩, ⟨"r2", 0, "child", 11, 1, 3, 21, 41⟩, ⟨"r3", 0, "mother", 51, 1, 2, 51, 61⟩] := by
  decide

example : recombRows exInst = [⟨"child", "chr1", 31, 41, 0, 1, 0, 0, 7⟩] := by decide

/-- `find_recombination` starts at index 2: a switch between the first two members of a block is not listed
    (observation; completeness is not part of C20) -/
example : findRecombination [0, 1, 1] [(10, 10), (20, 10), (30, 10)] [10, 20, 30] [0, 5, 6] = [] := by decide

example : (run ⟨true, true, true, true⟩ [⟨true, [exInst], []⟩, ⟨false, [exInst], []⟩, ⟨true, [exInst], []⟩]).recList.getD []
    = recombRows exInst ++ recombRows exInst := by decide

/-- sample A: position 10 phased 0|1 as in the input, position 20 re-genotyped 0/1 → 1/1 (distrusted genotypes) -/
def exCfg : Cfg :=
  ⟨.PS, false, false, true, ["A", "B"],
   [⟨"A", [(10, 0), (20, 1)], [(10, 1), (20, 1)], [(10, 10), (20, 10)]⟩]⟩

def exRec (pos : Nat) : Record :=
  ⟨"site", pos, "A", ["C"], ["GT", "DP"],
   [("A", ⟨some [some 0, some 1], false, [("DP", .int 7)]⟩), ("B", ⟨some [some 1, some 0], true, [("DP", .int 9)]⟩)]⟩

example : (exCfg.targets.map (·.name)).Nodup := by decide
example : (writeRecord exCfg none (exRec 20)).changes = [⟨"A", 20, "A", ["C"], [0, 1], [1, 1]⟩] := by decide
example : (writeRecord exCfg none (exRec 10)).changes = [] := by decide
example : clookup (writeRecord exCfg none (exRec 10)).record.calls "A"
    = some ⟨some [some 0, some 1], true, [("DP", .int 7), ("PS", .int 11)]⟩ := by decide

open WhVerif.Lemmas.C20Files


/-! ## file level: header, flags, pre-existing content, processing order -/

/-- **files_cover_run**: whatever the three paths held before the run, after it each *requested* file consists of its
header line, exactly once and first, followed by the lines of every processed chromosome / (chromosome, family) in
processing order: the read list always (it is opened before the first chromosome); the changed-genotype list once a
chromosome has been processed, the recombination list once a (chromosome, family) has been processed — or always
after `fixes/F80.patch` (`createAtStart`). -/
theorem files_cover_run (o : Opts) (fx : Fix) (pre : Pre) (chroms : List ChromF)
    (hm : ∀ f ∈ allFams chroms, f.ReadsOfMembers) :
    (o.readList = true → (runF o fx pre chroms).read =
        some (readHeader :: (allFams chroms).flatMap (fun f => (readListRows f.inst).map renderReadRow))) ∧
    (o.gtList = true → (fx.createAtStart = true ∨ selectedF chroms ≠ []) → (runF o fx pre chroms).gt =
        some (gtHeader :: (selectedF chroms).flatMap (fun c => c.gtChanges.map (renderGtRow c.name)))) ∧
    (o.recList = true → (fx.createAtStart = true ∨ allFams chroms ≠ []) → (runF o fx pre chroms).reco =
        some (recHeader :: (allFams chroms).flatMap (fun f => (recombRows f.inst).map renderRecRow))) := by
  obtain ⟨h1, h2, h3⟩ := chromFold o chroms (initF o fx pre)
  refine ⟨fun hr => ?_, fun hg hc => ?_, fun hr hc => ?_⟩
  · unfold runF
    rw [h3, readLinesRun_eq chroms hm]
    simp [hr, initF]
  · have := congrArg Prod.fst h1
    simp only at this
    unfold runF
    rw [this, gtFold_closed o hg]
    by_cases hcs : fx.createAtStart = true
    · by_cases hsel : selectedF chroms = []
      · simp [hsel, initF, hg, hcs]
      · simp [hsel, initF, hg, hcs] <;> rfl
    · have hsel : selectedF chroms ≠ [] := by
        rcases hc with h | h
        · exact absurd h hcs
        · exact h
      have hcs' : fx.createAtStart = false := by simpa using hcs
      simp [hsel, initF, hg, hcs'] <;> rfl
  · have := congrArg Prod.fst h2
    simp only at this
    unfold runF
    rw [this, recFold_closed o hr]
    by_cases hcs : fx.createAtStart = true
    · by_cases hsel : allFams chroms = []
      · simp [hsel, initF, hr, hcs]
      · simp [hsel, initF, hr, hcs] <;> rfl
    · have hsel : allFams chroms ≠ [] := by
        rcases hc with h | h
        · exact absurd h hcs
        · exact h
      have hcs' : fx.createAtStart = false := by simpa using hcs
      simp [hsel, initF, hr, hcs'] <;> rfl

/-- **files_unrequested_untouched**: a list that was not requested is left exactly as it was (no file appears) -/
theorem files_unrequested_untouched (o : Opts) (fx : Fix) (pre : Pre) (chroms : List ChromF) :
    (o.readList = false → (runF o fx pre chroms).read = pre.read) ∧
    (o.gtList = false → (runF o fx pre chroms).gt = pre.gt) ∧
    (o.recList = false → (runF o fx pre chroms).reco = pre.reco) := by
  obtain ⟨h1, h2, h3⟩ := chromFold o chroms (initF o fx pre)
  refine ⟨fun hr => ?_, fun hg => ?_, fun hr => ?_⟩
  · unfold runF; rw [h3]; simp [hr, initF]
  · have := congrArg Prod.fst h1
    simp only at this
    unfold runF; rw [this, gtFold_off o hg]; simp [initF, hg]
  · have := congrArg Prod.fst h2
    simp only at this
    unfold runF; rw [this, recFold_off o hr]; simp [initF, hr]

/-- **F80 on the code as it is**: when the run processes no chromosome (every chromosome of the VCF is deselected by
`--chromosome`, or the VCF has no records) the requested changed-genotype and recombination lists are never opened:
they keep whatever the paths held before — a missing file stays missing, an old file keeps its rows. -/
theorem f80_lists_stale_when_nothing_processed (o : Opts) (pre : Pre) (chroms : List ChromF)
    (hn : selectedF chroms = []) :
    (runF o ⟨false⟩ pre chroms).gt = pre.gt ∧ (runF o ⟨false⟩ pre chroms).reco = pre.reco := by
  obtain ⟨h1, h2, _⟩ := chromFold o chroms (initF o ⟨false⟩ pre)
  have hall : allFams chroms = [] := by simp [allFams, hn]
  have a := congrArg Prod.fst h1
  have b := congrArg Prod.fst h2
  simp only [hn, hall, List.foldl_nil] at a b
  unfold runF
  exact ⟨by rw [a]; simp [initF], by rw [b]; simp [initF]⟩

/-- … and after `fixes/F80.patch` the requested lists then hold just their header -/
theorem f80_repaired_header_only (o : Opts) (pre : Pre) (chroms : List ChromF) (hn : selectedF chroms = []) :
    (o.gtList = true → (runF o ⟨true⟩ pre chroms).gt = some [gtHeader]) ∧
    (o.recList = true → (runF o ⟨true⟩ pre chroms).reco = some [recHeader]) := by
  have hall : allFams chroms = [] := by simp [allFams, hn]
  have hm : ∀ f ∈ allFams chroms, f.ReadsOfMembers := by rw [hall]; intro f hf; cases hf
  obtain ⟨_, h2, h3⟩ := files_cover_run o ⟨true⟩ pre chroms hm
  exact ⟨fun hg => by rw [h2 hg (Or.inl rfl), hn]; rfl, fun hr => by rw [h3 hr (Or.inl rfl), hall]; rfl⟩

/-- **readlist_uses_own_family_components**: the dict `components` that `ReadList.write` consults is filled family by
family and reset at every chromosome; for a read of one of the family's members the lookup yields the components
of *this* family (so the row is the one `readRow` computes from the family's `overall_components`) — whatever earlier
families of the chromosome left in the dict. -/
theorem readlist_uses_own_family_components (sc : SampleComps) (f : FamRun) (h : f.ReadsOfMembers) :
    readListRowsS (scAssign sc f.members f.inst.comps) f.inst = readListRows f.inst :=
  readListRowsS_eq sc f h



/-- **families_partition_samples**: every sample to be phased is a member of exactly one family of `setup_families`;
a family lists its members in sample order and is never empty. -/
theorem families_partition_samples (samples : List String) (trios : List Trio) :
    (∀ s ∈ samples, ∃ F ∈ setupFamilies samples trios, s ∈ F.members ∧
        ∀ F' ∈ setupFamilies samples trios, s ∈ F'.members → F' = F) ∧
    (∀ F ∈ setupFamilies samples trios, F.members.Sublist samples ∧ F.members ≠ []) := by
  constructor
  · intro s hs
    let cls := finalClasses samples trios
    let F : Family := ⟨repOf cls s, samples.filter (fun x => repOf cls x == repOf cls s),
      trios.filter (fun t => repOf cls t.child == repOf cls s)⟩
    have hF : F ∈ setupFamilies samples trios := by
      rw [mem_setupFamilies]
      refine ⟨?_, rfl, rfl⟩
      unfold repsOf
      rw [mem_sortStr, mem_dedupStr]
      exact List.mem_map.mpr ⟨s, hs, rfl⟩
    refine ⟨F, hF, List.mem_filter.mpr ⟨hs, by simp⟩, ?_⟩
    intro F' hF' hs'
    obtain ⟨_, hm, ht⟩ := (mem_setupFamilies samples trios F').mp hF'
    rw [hm] at hs'
    have hrep : repOf cls s = F'.rep := by simpa using (List.mem_filter.mp hs').2
    cases F'
    simp only at hm ht hrep
    subst hrep
    simp [F, hm, ht, cls]
  · intro F hF
    obtain ⟨hr, hm, _⟩ := (mem_setupFamilies samples trios F).mp hF
    rw [hm]
    refine ⟨List.filter_sublist, ?_⟩
    unfold repsOf at hr
    rw [mem_sortStr, mem_dedupStr] at hr
    obtain ⟨s, hs, hsr⟩ := List.mem_map.mp hr
    intro hnil
    have : s ∈ samples.filter (fun x => repOf (finalClasses samples trios) x == F.rep) :=
      List.mem_filter.mpr ⟨hs, by simp [hsr]⟩
    rw [hnil] at this
    cases this

/-- **families_processed_in_sorted_order**: `sorted(families.items())` — the representatives (the smallest member
name of each family) are strictly increasing along the processing order; in particular no family is processed twice. -/
theorem families_processed_in_sorted_order (samples : List String) (trios : List Trio) :
    ((setupFamilies samples trios).map (·.rep)).Pairwise (· < ·) := by
  rw [setupFamilies_reps]
  exact reps_strict samples trios

/-- **trios_follow_child**: every kept trio is handled in exactly one family — the one its child is a member of — and a
family's trios (hence the children of the recombination list) keep the order of the PED file. -/
theorem trios_follow_child (samples : List String) (trios : List Trio) :
    (∀ t ∈ trios, t.child ∈ samples → ∃ F ∈ setupFamilies samples trios, t ∈ F.trios ∧ t.child ∈ F.members ∧
        ∀ F' ∈ setupFamilies samples trios, t ∈ F'.trios → F' = F) ∧
    (∀ F ∈ setupFamilies samples trios, F.trios.Sublist trios) := by
  constructor
  · intro t ht hc
    obtain ⟨⟨F, hF, hmem, huniq⟩, _⟩ :=
      (⟨(families_partition_samples samples trios).1 t.child hc, trivial⟩ : _ ∧ True)
    obtain ⟨_, hm, htr⟩ := (mem_setupFamilies samples trios F).mp hF
    have hrep : repOf (finalClasses samples trios) t.child = F.rep := by
      rw [hm] at hmem
      simpa using (List.mem_filter.mp hmem).2
    refine ⟨F, hF, ?_, hmem, ?_⟩
    · rw [htr]; exact List.mem_filter.mpr ⟨ht, by simp [hrep]⟩
    · intro F' hF' ht'
      obtain ⟨_, hm', htr'⟩ := (mem_setupFamilies samples trios F').mp hF'
      apply huniq F' hF'
      rw [htr'] at ht'
      have : repOf (finalClasses samples trios) t.child = F'.rep := by simpa using (List.mem_filter.mp ht').2
      rw [hm']
      exact List.mem_filter.mpr ⟨hc, by simp [this]⟩
  · intro F hF
    obtain ⟨_, _, htr⟩ := (mem_setupFamilies samples trios F).mp hF
    rw [htr]
    exact List.filter_sublist

/-- **trio_members_share_family**: the union–find of `setup_families` (merge father–child and mother–child, the
minimum as representative) puts the three individuals of every kept trio into one family — the family that handles the
trio: father, mother and child are members of it (as far as they are samples to be phased). -/
theorem trio_members_share_family (samples : List String) (trios : List Trio) (t : Trio) (ht : t ∈ trios)
    (F : Family) (hF : F ∈ setupFamilies samples trios) (htF : t ∈ F.trios) :
    (t.father ∈ samples → t.father ∈ F.members) ∧ (t.mother ∈ samples → t.mother ∈ F.members) ∧
    (t.child ∈ samples → t.child ∈ F.members) := by
  obtain ⟨_, hm, htr⟩ := (mem_setupFamilies samples trios F).mp hF
  obtain ⟨hd, hj⟩ := finalClasses_spec samples trios
  obtain ⟨hf, hmo⟩ := hj t ht
  rw [htr] at htF
  have hc : repOf (finalClasses samples trios) t.child = F.rep := by simpa using (List.mem_filter.mp htF).2
  have e1 := repOf_eq_of_mem _ hd t.father t.child hf
  have e2 := repOf_eq_of_mem _ hd t.mother t.child hmo
  rw [hm]
  refine ⟨fun h => List.mem_filter.mpr ⟨h, by simp [← e1, hc]⟩, fun h => List.mem_filter.mpr ⟨h, by simp [← e2, hc]⟩,
    fun h => List.mem_filter.mpr ⟨h, by simp [hc]⟩⟩

/-- a quartet (two PED lines, second child first in sample order) and an unrelated sample: two families, processed in
the order of their smallest names; the children keep the PED order -/
example : setupFamilies ["S0", "Z0", "M0", "D0", "F0"] [⟨"F0", "M0", "Z0"⟩, ⟨"F0", "M0", "D0"⟩] =
    [⟨"D0", ["Z0", "M0", "D0", "F0"], [⟨"F0", "M0", "Z0"⟩, ⟨"F0", "M0", "D0"⟩]⟩, ⟨"S0", ["S0"], []⟩] := by rfl

example : keptTrios ["A", "B", "C"] [⟨"C", some "A", some "B"⟩, ⟨"D", some "A", some "B"⟩, ⟨"B", none, some "A"⟩] =
    [⟨"A", "B", "C"⟩] := by rfl


/-- **readlist_one_row_per_read**: `ReadList.write` emits exactly one row per read handed to the solver, in solver
order, provided — as the run guarantees — the partition has one entry per read (`assert len(readset) == len(bipartition)`),
no read is empty and the first position of every read has a component (`overall_components` covers all accessible positions). -/
theorem readlist_one_row_per_read (i : Inst) (hlen : i.partition.length = i.reads.length)
    (hpos : ∀ r ∈ i.reads, ∃ f c, r.positions.head? = some f ∧ alookup i.comps f = some c) :
    (readListRows i).map (·.name) = i.reads.map (·.name) ∧ (readListRows i).length = i.reads.length := by
  have key : ∀ (rs : List Read) (ps : List Nat), ps.length = rs.length →
      (∀ r ∈ rs, ∃ f c, r.positions.head? = some f ∧ alookup i.comps f = some c) →
      ((rs.zip ps).filterMap (fun rh => readRow i.comps rh.1 rh.2)).map (·.name) = rs.map (·.name) := by
    intro rs
    induction rs with
    | nil => intro ps _ _; rfl
    | cons r t ih =>
      intro ps hl hp
      cases ps with
      | nil => simp at hl
      | cons p ps' =>
        obtain ⟨f, c, hf, hc⟩ := hp r (List.mem_cons_self ..)
        have hne : r.positions ≠ [] := by intro e; rw [e] at hf; cases hf
        obtain ⟨l, hlast⟩ : ∃ l, r.positions.getLast? = some l := by
          cases hr : r.positions.getLast? with
          | none => exact absurd (List.getLast?_eq_none_iff.mp hr) hne
          | some l => exact ⟨l, rfl⟩
        have hrow : readRow i.comps r p = some ⟨r.name, r.sourceId, r.sample, c + 1, p, r.positions.length, f + 1, l + 1⟩ := by
          simp [readRow, hf, hlast, hc]
        simp only [List.zip_cons_cons, List.filterMap_cons, hrow, List.map_cons]
        rw [ih ps' (by simpa using hl) (fun r' hr' => hp r' (List.mem_cons_of_mem _ hr'))]
  have h1 := key i.reads i.partition hlen hpos
  refine ⟨h1, ?_⟩
  have := congrArg List.length h1
  simpa [readListRows] using this

example : exInst.partition.length = exInst.reads.length := by decide


/-! ### non-vacuity / witnesses of the file-level theorems -/

def exFam : FamRun := ⟨exInst, ["child", "mother", "father"]⟩

example : exFam.ReadsOfMembers := by
  intro r hr
  simp [exFam, exInst] at hr
  rcases hr with rfl | rfl | rfl <;> simp [exFam]

/-- two processed chromosomes around a deselected one, all three lists, paths that already held something: header
once, then the lines of chr1 and chr3 — nothing of the old content survives -/
example : (runF ⟨true, true, true, true⟩ ⟨false⟩ ⟨some ["old"], some ["#old", "stale"], some ["#old", "stale"]⟩
    [⟨"chr1", true, [exFam], [⟨"child", 19, "A", ["C"], [0, 1], [1, 1]⟩]⟩, ⟨"chr2", false, [exFam], []⟩,
     ⟨"chr3", true, [exFam], []⟩]).gt = some [gtHeader, "child\tchr1\t19\tA\tC\t0/1\t1/1"] := by rfl
example : (runF ⟨true, true, true, true⟩ ⟨false⟩ ⟨some ["old"], none, some ["#old", "stale"]⟩
    [⟨"chr1", true, [exFam], []⟩, ⟨"chr2", false, [exFam], []⟩, ⟨"chr3", true, [exFam], []⟩]).reco =
    some [recHeader, "child chr1 31 41 0 1 0 0 7", "child chr1 31 41 0 1 0 0 7"] := by rfl
/-- **F80 witness**: `--chromosome` names no chromosome of the VCF: the read list is reset to its header, the other two
requested lists keep the stale rows (as coded) / are reset to their header (repaired) -/
example : (fun r : FState => (r.read, r.gt, r.reco)) (runF ⟨true, true, true, true⟩ ⟨false⟩
      ⟨some ["old"], some ["#old", "stale"], none⟩ [⟨"chr1", false, [exFam], []⟩]) =
    (some [readHeader], some ["#old", "stale"], none) := by rfl
example : (fun r : FState => (r.read, r.gt, r.reco)) (runF ⟨true, true, true, true⟩ ⟨true⟩
      ⟨some ["old"], some ["#old", "stale"], none⟩ [⟨"chr1", false, [exFam], []⟩]) =
    (some [readHeader], some [gtHeader], some [recHeader]) := by rfl
/-- a read whose sample is not a member of the family being written would raise `KeyError` (no row): the hypothesis
`ReadsOfMembers` of `files_cover_run` is needed -/
example : readListRowsS (scAssign [] ["mother"] exInst.comps) exInst = [⟨"r3", 0, "mother", 51, 1, 2, 51, 61⟩] := by rfl

/-! ## round 10: `PedReader` at text level, `--use-ped-samples`, the assertions of `find_recombination`, completeness and
order of the recombination rows, read list ↔ written phase sets -/

/-- **ped_trios_are_complete_lines**: when `PedReader` accepts a text (stream, or file read with universal newlines), its
entries are exactly the data lines of the file (not starting with `#`, not just a line terminator), in file order, each
with at least six blank-separated fields, (individual, father, mother) = fields 1–3 with `0` = unknown; and
`setup_pedigree` keeps exactly the complete entries whose three individuals are samples, in file order. -/
theorem ped_trios_are_complete_lines (viaPath : Bool) (text : String) (lines : List PedLine) (samples : List String)
    (h : parsePed viaPath text = .ok lines) :
    ((dataLines (if viaPath then univNl text.toList else text.toList)).map parseRecord = lines.map Except.ok) ∧
    (∀ l ∈ dataLines (if viaPath then univNl text.toList else text.toList), 6 ≤ (splitWs l).length) ∧
    (∀ t, t ∈ keptTrios samples lines ↔
      (⟨t.child, some t.father, some t.mother⟩ : PedLine) ∈ lines ∧ t.father ∈ samples ∧ t.mother ∈ samples ∧
        t.child ∈ samples) ∧
    ((keptTrios samples lines).map (·.child)).Sublist (lines.map (·.child)) := by
  have hp := (parsePedChars_ok h).1
  have hmap := parseAll_ok hp
  refine ⟨hmap, ?_, fun t => mem_keptTrios, keptTrios_children_sublist samples lines⟩
  intro l hl
  have : parseRecord l ∈ (dataLines (if viaPath then univNl text.toList else text.toList)).map parseRecord :=
    List.mem_map.mpr ⟨l, hl, rfl⟩
  rw [hmap] at this
  obtain ⟨t, _, ht⟩ := List.mem_map.mp this
  obtain ⟨f0, ind, pat, mat, f4, f5, rest, hs, _⟩ := parseRecord_ok ht.symm
  rw [hs]; simp

/-- **ped_duplicate_rejected**: an accepted PED text lists no individual twice; and a text whose data lines all parse but
which lists an individual twice is rejected with a `ParseError` naming an individual that occurs at least twice. -/
theorem ped_duplicate_rejected (viaPath : Bool) (text : String) :
    (∀ lines, parsePed viaPath text = .ok lines → (lines.map (·.child)).Nodup) ∧
    (∀ trios, parseAll (dataLines (if viaPath then univNl text.toList else text.toList)) = .ok trios →
      ¬ (trios.map (·.child)).Nodup →
      ∃ id, parsePed viaPath text = .error (.duplicate id) ∧ 2 ≤ (trios.map (·.child)).count id) := by
  constructor
  · intro lines h
    exact (sanityCheck_ok_iff lines).mp (parsePedChars_ok h).2
  · intro trios hp hnd
    cases hs : sanityCheck trios with
    | ok u => exact absurd ((sanityCheck_ok_iff trios).mp hs) hnd
    | error e =>
      obtain ⟨id, he, hc⟩ := sanityCheck_error trios e hs
      refine ⟨id, ?_, hc⟩
      unfold parsePed parsePedChars
      rw [hp]; simp only [hs, he]

/-- **ped_samples_order_is_file_order** (after F111): `samples()` = the individuals mentioned by the complete lines
(child, father, mother), each once, at the place of its first mention. -/
theorem ped_samples_order_is_file_order (lines : List PedLine) :
    pedSamples lines = dedupStr (mentions lines) ∧ (pedSamples lines).Nodup ∧
    (pedSamples lines).Sublist (mentions lines) ∧ (∀ x, x ∈ pedSamples lines ↔ x ∈ mentions lines) := by
  rw [pedSamples_eq]
  exact ⟨rfl, nodup_dedupStr _, dedupStr_sublist _, fun x => mem_dedupStr _ x⟩

/-- **families_from_ped_text**: from the PED *text* to the families the run works through: every family handles only
relationships that are complete lines of the file, whose father, mother and child are all members of that family; no
child is handled twice in a family (so the per-child dict of `write_recombination_list` has one vector per trio); the
families partition the samples. -/
theorem families_from_ped_text (viaPath : Bool) (text : String) (lines : List PedLine) (samples : List String)
    (h : parsePed viaPath text = .ok lines) :
    (∀ F ∈ setupFamilies samples (keptTrios samples lines),
      F.members.Sublist samples ∧ F.members ≠ [] ∧ (F.trios.map (·.child)).Nodup ∧
      ∀ t ∈ F.trios, (⟨t.child, some t.father, some t.mother⟩ : PedLine) ∈ lines ∧
        t.father ∈ F.members ∧ t.mother ∈ F.members ∧ t.child ∈ F.members) ∧
    (∀ s ∈ samples, ∃ F ∈ setupFamilies samples (keptTrios samples lines), s ∈ F.members ∧
        ∀ F' ∈ setupFamilies samples (keptTrios samples lines), s ∈ F'.members → F' = F) := by
  have hnd := (ped_duplicate_rejected viaPath text).1 lines h
  obtain ⟨hpart, hmem⟩ := families_partition_samples samples (keptTrios samples lines)
  refine ⟨fun F hF => ?_, hpart⟩
  obtain ⟨hsub, hne⟩ := hmem F hF
  have hts := (trios_follow_child samples (keptTrios samples lines)).2 F hF
  refine ⟨hsub, hne, ?_, ?_⟩
  · exact List.Nodup.sublist ((hts.map _).trans (keptTrios_children_sublist samples lines)) hnd
  · intro t ht
    have htk : t ∈ keptTrios samples lines := hts.subset ht
    obtain ⟨hl, hf, hm, hc⟩ := mem_keptTrios.mp htk
    obtain ⟨a, b, c⟩ := trio_members_share_family samples _ t htk F hF ht
    exact ⟨hl, a hf, b hm, c hc⟩

/-- **use_ped_samples_selection** (`--use-ped-samples`, as coded): the samples to phase are `PedReader.samples()` (file
order) provided the VCF has them all; otherwise the run stops naming the first one the VCF lacks — it is not an
intersection. -/
theorem use_ped_samples_selection (vcf : List String) (lines : List PedLine) :
    (∀ l, selectSamples vcf [] (some lines) true = .ok l → l = pedSamples lines ∧ ∀ s ∈ l, s ∈ vcf) ∧
    (∀ s, selectSamples vcf [] (some lines) true = .error s → s ∈ pedSamples lines ∧ s ∉ vcf) := by
  unfold selectSamples
  simp only [if_true]
  constructor
  · intro l h
    split at h
    · cases h
    · rename_i hn
      cases h
      refine ⟨rfl, fun s hs => ?_⟩
      have := List.find?_eq_none.mp hn s hs
      simpa using this
  · intro s h
    split at h
    · rename_i s' hs'
      cases h
      refine ⟨List.mem_of_find?_eq_some hs', ?_⟩
      have := List.find?_some hs'
      simpa using this
    · cases h

/-- **find_recombination_assert_free**: under what the caller establishes — one transmission value and one cost per
accessible position (the cost computers return `[0]` for no position), every component key an accessible position, and
distinct children (`_sanity_check`) — no assertion of `find_recombination` fires in `write_recombination_list`, and the
rows are those of `recombRows`. -/
theorem find_recombination_assert_free (i : Inst) (hnd : i.children.Nodup) (h1 : i.tv.length = i.positions.length)
    (h2 : i.recomb.length = max 1 i.positions.length) (h3 : ∀ pc ∈ i.comps, pc.1 ∈ i.positions) :
    recombRowsA true i = some (recombRows i) ∧
    ∀ k, findRecombinationA true (tvOfTrio i.tv k) i.comps i.positions i.recomb =
      some (findRecombination (tvOfTrio i.tv k) i.comps i.positions i.recomb) := by
  refine ⟨recombRowsALoop_eq i hnd h1 h2 h3 i.children 0 (by simp), fun k => ?_⟩
  have := assertsHold_of (tvOfTrio i.tv k) i.comps i.positions i.recomb (by simp [tvOfTrio, h1]) h2 h3
  simp [findRecombinationA, this]

/-- when the assertions fire: F22's shape (no accessible position, costs `[0]`) with the assertion as it was / as it is;
a vector of the wrong length; a component key that is not an accessible position; a child named by two trios (its dict
entry gets two values per position) -/
example : findRecombinationA false [] [] [] [0] = none ∧ findRecombinationA true [] [] [] [0] = some [] ∧
    findRecombinationA true [0] [] [] [0] = none ∧ findRecombinationA true [0] [(20, 20)] [10] [0] = none ∧
    findRecombinationA true [] [] [] [] = none := by decide
example : recombRowsA true ⟨"c", [], [], [(10, 10)], [10], [0], [5], ["kid", "kid"]⟩ = none ∧
    recombRowsA true ⟨"c", [], [], [(10, 10)], [10], [0], [5], ["kid", "kid2"]⟩ = some [] := by decide
example : exInst.children.Nodup ∧ exInst.tv.length = exInst.positions.length ∧
    exInst.recomb.length = max 1 exInst.positions.length ∧ ∀ pc ∈ exInst.comps, pc.1 ∈ exInst.positions := by decide

/-- **recomb_rows_sorted**: the recombination rows of a (chromosome, family) are the rows of its trios in `trios` order;
with dict keys as components (distinct positions) the rows of one trio are strictly increasing in `position1` (in
particular no row is listed twice), and every row has `position1 < position2`. -/
theorem recomb_rows_sorted (i : Inst) (hk : (i.comps.map (·.1)).Nodup) :
    recombRows i = i.children.zipIdx.flatMap (fun ck => trioRows i ck.2 ck.1) ∧
    ∀ k child, (trioRows i k child).Pairwise (fun r s => r.pos1 < s.pos1) ∧ ∀ r ∈ trioRows i k child, r.child = child := by
  refine ⟨recombRowsFrom_eq i i.children 0, fun k child => ⟨?_, ?_⟩⟩
  · unfold trioRows
    rw [List.pairwise_map]
    exact (findRecombination_strict (tvOfTrio i.tv k) i.comps i.positions i.recomb hk).imp
      (fun h => by simp only [toRecRow]; omega)
  · intro r hr
    obtain ⟨e, _, rfl⟩ := List.mem_map.mp hr
    rfl

/-- **recomb_rows_complete**: for the `k`-th trio of the family, every change of its transmission value between two
neighbours `a`, `c` of the sorted member list of a component — from the second member on, as `find_recombination` scans
(`range(2, len(block))`) — is listed: the row (child, chromosome, a+1, c+1, father/mother haplotype bits before and after,
cost at `c`) is in the list, and (distinct children, distinct positions) it is the only row of that child starting at `a+1`. -/
theorem recomb_rows_complete (i : Inst) (hk : (i.comps.map (·.1)).Nodup) (hnd : i.children.Nodup) (k : Nat)
    (child : String) (hc : i.children[k]? = some child) (b : Nat) (hb : b ∈ blockIds i.comps) (pre suf : List Nat)
    (a c : Nat) (hbl : (blockOf i.comps b).tail = pre ++ a :: c :: suf)
    (hne : atPos i.positions (tvOfTrio i.tv k) a ≠ atPos i.positions (tvOfTrio i.tv k) c) :
    let ta := atPos i.positions (tvOfTrio i.tv k) a
    let tc := atPos i.positions (tvOfTrio i.tv k) c
    let row : RecRow := ⟨child, i.chrom, a + 1, c + 1, ta % 2, tc % 2, ta / 2, tc / 2, atPos i.positions i.recomb c⟩
    row ∈ recombRows i ∧ (row.f1 ≠ row.f2 ∨ row.m1 ≠ row.m2) ∧
      ∀ r' ∈ recombRows i, r'.child = child → r'.pos1 = a + 1 → r' = row := by
  intro ta tc row
  have hev : mkEvent i.positions (tvOfTrio i.tv k) i.recomb a c ∈
      findRecombination (tvOfTrio i.tv k) i.comps i.positions i.recomb := by
    unfold findRecombination
    rw [mem_sortEv, List.mem_flatMap]
    exact ⟨b, hb, scanBlock_complete pre _ a c suf hbl hne⟩
  have hrow : row ∈ trioRows i k child := List.mem_map.mpr ⟨_, hev, rfl⟩
  have hzip : (child, k) ∈ i.children.zipIdx := by
    rw [List.mk_mem_zipIdx_iff_getElem?]; simpa using hc
  obtain ⟨heq, hs⟩ := recomb_rows_sorted i hk
  refine ⟨?_, ?_, ?_⟩
  · rw [heq, List.mem_flatMap]; exact ⟨(child, k), hzip, hrow⟩
  · have h1 := atPos_tvOfTrio_lt i.positions i.tv k a
    have h2 := atPos_tvOfTrio_lt i.positions i.tv k c
    show ta % 2 ≠ tc % 2 ∨ ta / 2 ≠ tc / 2
    have : ta ≠ tc := hne
    omega
  · intro r' hr' hch hp
    rw [heq, List.mem_flatMap] at hr'
    obtain ⟨⟨c', k'⟩, hz', hr'⟩ := hr'
    have hc' : r'.child = c' := (hs k' c').2 r' hr'
    have hk' : i.children[k']? = some c' := by
      have := List.mk_mem_zipIdx_iff_getElem?.mp hz'; simpa using this
    have hkk : k' = k := by
      have hlt : k' < i.children.length := by
        rcases Nat.lt_or_ge k' i.children.length with h | h
        · exact h
        · rw [List.getElem?_eq_none h] at hk'; cases hk'
      exact (List.getElem?_inj hlt hnd).mp (by rw [hk', hc, ← hc', hch])
    subst hkk
    have hcc : c' = child := by rw [← hc', hch]
    subst hcc
    exact pairwise_lt_unique (fun r : RecRow => r.pos1) _ (hs k' c').1 r' hr' row hrow hp

example : (exInst.comps.map (·.1)).Nodup ∧ exInst.children[0]? = some "child" ∧ 10 ∈ blockIds exInst.comps ∧
    (blockOf exInst.comps 10).tail = [20] ++ 30 :: 40 :: [] ∧
    atPos exInst.positions (tvOfTrio exInst.tv 0) 30 ≠ atPos exInst.positions (tvOfTrio exInst.tv 0) 40 := by decide

/-- **reports_agree_with_vcf**: one statement across the three files.  (read list) For a row of the read list of a
(chromosome, family) — looked up through the per-chromosome dict —, the target of the row's sample carrying the family's
components, and any record of that chromosome written by `PhasedVcfWriter.write` at the read's first variant: whatever
phase statement a reader decodes from that sample's call names the phase set of the row.  (changed genotypes) Every
written record stems from an input record, and each of its change rows names a target sample whose genotype differs
between that input record and the written one exactly as listed. -/
theorem reports_agree_with_vcf (cfg : Cfg) (hr : cfg.repaired = true) (hm : cfg.mav = false)
    (hnd : (cfg.targets.map (·.name)).Nodup) (rs : List Record)
    (hwf : ∀ r ∈ rs, ∀ nc ∈ r.calls, WhVerif.C09.WfCall r.format nc.2) (prev : Option Nat) :
    (∀ (sc : SampleComps) (f : FamRun), f.ReadsOfMembers →
      ∀ row ∈ readListRowsS (scAssign sc f.members f.inst.comps) f.inst,
      ∀ t ∈ cfg.targets, t.name = row.sample → t.comps = f.inst.comps →
      ∀ o ∈ writeChrom cfg prev rs, o.record.pos + 1 = row.first →
      ∀ call ph, clookup o.record.calls t.name = some call → WhVerif.C03.decodeCall o.record.format call = some ph →
        ph.block = some (row.phaseSet : Int)) ∧
    (∀ o ∈ writeChrom cfg prev rs, ∃ r ∈ rs, ∃ prev', o = writeRecord cfg prev' r ∧
      ∀ row ∈ o.changes, ∃ t ∈ cfg.targets, ∃ c c', row.sample = t.name ∧ row.pos = r.pos ∧
        clookup r.calls t.name = some c ∧ clookup o.record.calls t.name = some c' ∧
        row.oldGt = gcode c.gt ∧ row.newGt = gcode c'.gt ∧ gcode c.gt ≠ gcode c'.gt) := by
  constructor
  · intro sc f hf row hrow t ht _ htc o ho hpos call ph hcall hdec
    rw [readlist_uses_own_family_components sc f hf] at hrow
    obtain ⟨_, _, p, _, _, _, _, _, _, hal, h1, hfirst, _⟩ := readlist_rows_sound f.inst row hrow
    obtain ⟨comp, _, hcomp, _, hph, _⟩ :=
      WhVerif.C03.Pipe.decode_chrom cfg hr hm hnd rs hwf prev t ht o ho call hcall ph hdec
    have hpp : o.record.pos = p := by omega
    rw [htc, hpp] at hcomp
    unfold WhVerif.C03.compOf at hcomp
    rw [← WhVerif.C03.Pipe.alookup_eq_lookup, hal] at hcomp
    cases hcomp
    rw [hph]
    simp only [Option.some.injEq]
    omega
  · intro o ho
    obtain ⟨prev', r, hrmem, rfl⟩ := WhVerif.C09.mem_writeChrom cfg rs prev o ho
    refine ⟨r, hrmem, prev', rfl, fun row hrow => ?_⟩
    obtain ⟨t, ht, c, c', h1, h2, _, _, h5, h6, h7, h8, h9⟩ := (gtchange_rows_eq_diff cfg prev' r hnd).1 row hrow
    exact ⟨t, ht, c, c', h1, h2, h5, h6, h7, h8, h9⟩


end WhVerif.Props.C20

import WhVerif.Lemmas.C20
import WhVerif.Lemmas.C20Files
/-!
# C20 — auxiliary reports cover the whole run and agree with the phased VCF

Theorems about `Model/C20.lean` (the chromosome × family loop as a state machine over the three list
files) and about the record writer of `Model/C04.lean` (the changed-genotype rows).

`lists_cover_run` holds for the *repaired* writers (`Opts.repaired = true`, fixes/F1.patch).  For the code
as it is (`repaired = false`) the opposite is proved: `f1_faithful_keeps_last_only` (for every run the two
`"w"` files hold the last call's rows only) and the concrete witness `f1_witness`.
-/
namespace WhVerif.Props.C20
open WhVerif.C04 WhVerif.C20

/-- **lists_cover_run** (repaired writers).  After a run over any sequence of chromosomes, each with any
    sequence of families, each requested file holds exactly the rows of every processed (chromosome,
    family), in processing order. -/
theorem lists_cover_run (o : Opts) (hr : o.repaired = true) (chroms : List ChromRun) :
    (o.readList = true → (run o chroms).readList = some ((allInsts chroms).flatMap readListRows)) ∧
    (o.gtList = true → (run o chroms).gtList.getD [] = (selectedChroms chroms).flatMap (·.gtChanges)) ∧
    (o.recList = true → (run o chroms).recList.getD [] = (allInsts chroms).flatMap recombRows) := by
  refine ⟨fun h => ?_, fun h => ?_, fun h => ?_⟩
  · simp [run, runFold_read o h, initFiles, h]
  · simp [run, runFold_gt_repaired o h hr, initFiles]
  · simp [run, runFold_rec_repaired o h hr, initFiles]

/-- corollary in the words of the property: no row of any processed chromosome / family is missing -/
theorem lists_cover_run_mem (o : Opts) (hr : o.repaired = true) (chroms : List ChromRun)
    (c : ChromRun) (hc : c ∈ chroms) (hs : c.selected = true) :
    (o.gtList = true → ∀ row ∈ c.gtChanges, row ∈ (run o chroms).gtList.getD []) ∧
    (∀ i ∈ c.families,
      (o.readList = true → ∀ row ∈ readListRows i, row ∈ (run o chroms).readList.getD []) ∧
      (o.recList = true → ∀ row ∈ recombRows i, row ∈ (run o chroms).recList.getD [])) := by
  obtain ⟨h1, h2, h3⟩ := lists_cover_run o hr chroms
  have hsel : c ∈ selectedChroms chroms := by simp [selectedChroms, hc, hs]
  refine ⟨fun h row hrow => ?_, fun i hi => ⟨fun h row hrow => ?_, fun h row hrow => ?_⟩⟩
  · rw [h2 h]; exact List.mem_flatMap.mpr ⟨c, hsel, hrow⟩
  · rw [h1 h]
    exact List.mem_flatMap.mpr ⟨i, List.mem_flatMap.mpr ⟨c, hsel, hi⟩, hrow⟩
  · rw [h3 h]
    exact List.mem_flatMap.mpr ⟨i, List.mem_flatMap.mpr ⟨c, hsel, hi⟩, hrow⟩

/-- files that were not requested are not written -/
theorem lists_not_requested (o : Opts) (chroms : List ChromRun) :
    (o.readList = false → (run o chroms).readList = none) ∧
    (o.gtList = false → (run o chroms).gtList = none) ∧
    (o.recList = false → (run o chroms).recList = none) := by
  refine ⟨fun h => ?_, fun h => ?_, fun h => ?_⟩
  · have : ∀ (cs : List ChromRun) (fs : Files), (cs.foldl (chromStep o) fs).readList = fs.readList := by
      intro cs
      induction cs with
      | nil => intro fs; rfl
      | cons c r ih => intro fs; rw [List.foldl_cons, ih, chromStep_read]; simp [h]
    simp [run, this, initFiles, h]
  · simp [run, runFold_gt_off o h, initFiles]
  · simp [run, runFold_rec_off o h, initFiles]

/-- **F1 on the code as it is**: whatever the run, the changed-genotype list holds the rows of the last
    processed chromosome only. -/
theorem f1_faithful_keeps_last_only (o : Opts) (hg : o.gtList = true) (hr : o.repaired = false)
    (chroms : List ChromRun) :
    (run o chroms).gtList = ((selectedChroms chroms).getLast?).map (·.gtChanges) := by
  rw [run, runFold_gt_faithful o hg hr]
  cases (selectedChroms chroms).getLast? <;> simp [initFiles]

/-- **F1 witness**: two chromosomes, one change each; as coded the first row is lost, repaired it is kept. -/
theorem f1_witness :
    let row1 : GtChange := ⟨"S", 10, "A", ["C"], [0, 0], [0, 1]⟩
    let row2 : GtChange := ⟨"S", 20, "G", ["T"], [0, 1], [1, 1]⟩
    let chroms : List ChromRun := [⟨true, [], [row1]⟩, ⟨true, [], [row2]⟩]
    (run ⟨false, true, false, false⟩ chroms).gtList = some [row2] ∧
    (run ⟨false, true, false, true⟩ chroms).gtList = some [row1, row2] := by
  constructor <;> rfl

/-- **readlist_rows_sound**.  Every row of the read list is one of the reads handed to the solver (same
    index in `all_reads` and in the returned partition), its haplotype is the partition entry, and its
    phase set is the component of the read's first variant (+1 for the 1-based VCF position). -/
theorem readlist_rows_sound (i : Inst) (row : ReadRow) (h : row ∈ readListRows i) :
    ∃ (k : Nat) (r : Read) (f : Nat), i.reads[k]? = some r ∧ i.partition[k]? = some row.hap ∧
      row.name = r.name ∧ row.sourceId = r.sourceId ∧ row.sample = r.sample ∧
      r.positions.head? = some f ∧ alookup i.comps f = some (row.phaseSet - 1) ∧ 1 ≤ row.phaseSet ∧
      row.first = f + 1 ∧ row.nVariants = r.positions.length := by
  simp only [readListRows, List.mem_filterMap] at h
  obtain ⟨⟨r, hp⟩, hmem, hrow⟩ := h
  obtain ⟨k, hk⟩ := List.getElem?_of_mem hmem
  rw [List.getElem?_zip_eq_some] at hk
  simp only [readRow] at hrow
  split at hrow
  · rename_i f l c hf hl hc
    cases hrow
    refine ⟨k, r, f, hk.1, hk.2, rfl, rfl, rfl, hf, ?_, by simp, rfl, rfl⟩
    simpa [hf] using hc
  · cases hrow

/-- **readlist rows of a whole run** (repaired or not — the read list is appended in both): every row in
    the final file stems from a processed (chromosome, family). -/
theorem readlist_rows_from_run (o : Opts) (h : o.readList = true) (chroms : List ChromRun) (row : ReadRow)
    (hrow : row ∈ (run o chroms).readList.getD []) :
    ∃ c ∈ chroms, c.selected = true ∧ ∃ i ∈ c.families, row ∈ readListRows i := by
  simp only [run, runFold_read o h, initFiles, h, if_true, Option.map_some, List.nil_append,
    Option.getD_some, List.mem_flatMap, allInsts, selectedChroms, List.mem_filter] at hrow
  obtain ⟨i, ⟨c, ⟨hc, hs⟩, hi⟩, hr⟩ := hrow
  exact ⟨c, hc, by simpa using hs, i, hi, hr⟩

/-- **gtchange_rows_eq_diff**.  For one record written by `PhasedVcfWriter.write`:
    (a) every change row names a target sample whose genotype really differs between input and output, and
        reports exactly the old and the new genotype;
    (b) every call without a row has the same alleles as in the input (up to order). -/
theorem gtchange_rows_eq_diff (cfg : Cfg) (prev : Option Nat) (r : Record)
    (hnd : (cfg.targets.map (·.name)).Nodup) :
    (∀ row ∈ (writeRecord cfg prev r).changes, ∃ t ∈ cfg.targets, ∃ c c',
        row.sample = t.name ∧ row.pos = r.pos ∧ row.ref = r.ref ∧ row.alts = r.alts ∧
        clookup r.calls t.name = some c ∧ clookup (writeRecord cfg prev r).record.calls t.name = some c' ∧
        row.oldGt = gcode c.gt ∧ row.newGt = gcode c'.gt ∧ gcode c.gt ≠ gcode c'.gt) ∧
    (∀ n c c', clookup r.calls n = some c → clookup (writeRecord cfg prev r).record.calls n = some c' →
        (∀ row ∈ (writeRecord cfg prev r).changes, row.sample ≠ n) → GtPerm c'.gt c.gt) := by
  constructor
  · intro row hrow
    rw [writeRecord_changes] at hrow
    split at hrow
    · rename_i hreach
      simp only [List.mem_filterMap] at hrow
      obtain ⟨t, ht, hrow⟩ := hrow
      cases hc : clookup r.calls t.name with
      | none => simp [hc] at hrow
      | some c =>
        simp only [hc, Option.bind_some] at hrow
        have hft := findTarget_of_mem hnd ht
        have hfin : finalCall cfg prev r t.name c = (updateCall cfg t r (clearPhasing cfg r.format c)).1 := by
          simp [finalCall, hft, hreach]
        obtain ⟨h1, h2, h3, h4, h5, h6, h7⟩ := updateCall_changed cfg t r _ row hrow
        refine ⟨t, ht, c, finalCall cfg prev r t.name c, h1, h2, h3, h4, hc, ?_, ?_, ?_, ?_⟩
        · rw [writeRecord_clookup, hc]; rfl
        · rw [h5, clearPhasing_gcode]
        · rw [h6, hfin]
        · rw [hfin, ← clearPhasing_gcode cfg r.format c, ← h5, ← h6]; exact h7
    · cases hrow
  · exact fun n c c' hc hc' hno => writeRecord_gtPerm_of_no_row cfg prev r n c c' hc hc' hno

/-- **no change rows with trusted genotypes**: if every phase handed to the writer has the alleles of the
    input genotype (the super-read genotype equals the input genotype — guaranteed by the solver unless
    `--distrust-genotypes`), the writer reports no change for that record. -/
theorem gtchange_none_when_trusted (cfg : Cfg) (prev : Option Nat) (r : Record)
    (htrust : ∀ t ∈ cfg.targets, ∀ c p, clookup r.calls t.name = some c →
        lookupPhase cfg.mav t r.pos = some p → sortNat p = gcode c.gt) :
    (writeRecord cfg prev r).changes = [] :=
  writeRecord_changes_nil_of_trusted cfg prev r htrust

/-- **recomb_rows_within_set**.  Every row of the recombination list names a child of the family and two
    positions that are neighbours in the sorted member list of one component (phase set) of that family;
    the traced transmission value changes between the two. -/
theorem recomb_rows_within_set (i : Inst) (row : RecRow) (h : row ∈ recombRows i) :
    row.child ∈ i.children ∧ row.chrom = i.chrom ∧ 1 ≤ row.pos1 ∧ 1 ≤ row.pos2 ∧ row.pos1 ≤ row.pos2 ∧
    ∃ b pre suf, blockOf i.comps b = pre ++ (row.pos1 - 1) :: (row.pos2 - 1) :: suf ∧
      (row.pos1 - 1, b) ∈ i.comps ∧ (row.pos2 - 1, b) ∈ i.comps := by
  have key : ∀ (cs : List String) (k : Nat), row ∈ recombRowsFrom i k cs →
      row.child ∈ cs ∧ row.chrom = i.chrom ∧ 1 ≤ row.pos1 ∧ 1 ≤ row.pos2 ∧ row.pos1 ≤ row.pos2 ∧
      ∃ b pre suf, blockOf i.comps b = pre ++ (row.pos1 - 1) :: (row.pos2 - 1) :: suf ∧
        (row.pos1 - 1, b) ∈ i.comps ∧ (row.pos2 - 1, b) ∈ i.comps := by
    intro cs
    induction cs with
    | nil => intro k hk; simp [recombRowsFrom] at hk
    | cons child rest ih =>
      intro k hk
      simp only [recombRowsFrom, List.mem_append, List.mem_map] at hk
      rcases hk with ⟨e, he, hrow⟩ | hk
      · subst hrow
        simp only [findRecombination, mem_sortEv, List.mem_flatMap] at he
        obtain ⟨b, _, he⟩ := he
        obtain ⟨⟨pre, suf, hl⟩, _, _⟩ := mem_scanBlock he
        have hblock : blockOf i.comps b = ((blockOf i.comps b).head?.toList ++ pre) ++ e.p1 :: e.p2 :: suf := by
          cases hb : blockOf i.comps b with
          | nil => simp [hb] at hl
          | cons x xs => simp [hb] at hl ⊢; exact hl
        have hmemOf : ∀ p, p ∈ blockOf i.comps b → (p, b) ∈ i.comps := by
          intro p hp
          have := (sortNat_perm _).mem_iff.mp hp
          simp only [List.mem_map, List.mem_filter, beq_iff_eq] at this
          obtain ⟨⟨p', b'⟩, ⟨hm, hb'⟩, hpp⟩ := this
          simp only at hb' hpp
          subst hb' hpp
          exact hm
        have hsorted := sortNat_sorted ((i.comps.filter (·.2 == b)).map (·.1))
        have hle : e.p1 ≤ e.p2 := by
          have hs : (blockOf i.comps b).Pairwise (· ≤ ·) := hsorted
          rw [hblock, List.pairwise_append] at hs
          exact (List.pairwise_cons.mp hs.2.1).1 e.p2 (List.mem_cons_self)
        refine ⟨List.mem_cons_self, rfl, by simp, by simp, by simpa using hle, b,
          (blockOf i.comps b).head?.toList ++ pre, suf, ?_, ?_, ?_⟩
        · simpa using hblock
        · simp only [Nat.add_sub_cancel]
          exact hmemOf _ (by rw [hblock]; simp)
        · simp only [Nat.add_sub_cancel]
          exact hmemOf _ (by rw [hblock]; simp)
      · obtain ⟨h1, h2⟩ := ih (k + 1) hk
        exact ⟨List.mem_cons_of_mem _ h1, h2⟩
  exact key i.children 0 h

/-! ### non-vacuity: concrete instances satisfying the hypotheses, with non-trivial content -/

/-- a trio family on one chromosome with one recombination event in a 4-variant block -/
def exInst : Inst :=
  { chrom := "chr1",
    reads := [⟨"r1", 0, "child", [10, 20]⟩, ⟨"r2", 0, "child", [20, 30, 40]⟩, ⟨"r3", 0, "mother", [50, 60]⟩],
    partition := [0, 1, 1],
    comps := [(10, 10), (20, 10), (30, 10), (40, 10), (50, 50), (60, 50)],
    positions := [10, 20, 30, 40, 50, 60],
    recomb := [0, 5, 6, 7, 8, 9],
    tv := [0, 0, 0, 1, 1, 1],
    children := ["child"] }

example : readListRows exInst =
    [⟨"r1", 0, "child", 11, 0, 2, 11, 21⟩, ⟨"r2", 0, "child", 11, 1, 3, 21, 41⟩, ⟨"r3", 0, "mother", 51, 1, 2, 51, 61⟩] := by
  decide

example : recombRows exInst = [⟨"child", "chr1", 31, 41, 0, 1, 0, 0, 7⟩] := by decide

/-- `find_recombination` starts at index 2: a switch between the first two members of a block is not listed
    (observation; completeness is not part of C20) -/
example : findRecombination [0, 1, 1] [(10, 10), (20, 10), (30, 10)] [10, 20, 30] [0, 5, 6] = [] := by decide

example : (run ⟨true, true, true, true⟩ [⟨true, [exInst], []⟩, ⟨false, [exInst], []⟩, ⟨true, [exInst], []⟩]).recList.getD []
    = recombRows exInst ++ recombRows exInst := by decide

/-- sample A: position 10 phased 0|1 as in the input, position 20 re-genotyped 0/1 → 1/1 (distrusted genotypes) -/
def exCfg : Cfg :=
  ⟨.PS, false, false, true, ["A", "B"],
   [⟨"A", [(10, 0), (20, 1)], [(10, 1), (20, 1)], [(10, 10), (20, 10)]⟩]⟩

def exRec (pos : Nat) : Record :=
  ⟨"site", pos, "A", ["C"], ["GT", "DP"],
   [("A", ⟨some [some 0, some 1], false, [("DP", .int 7)]⟩), ("B", ⟨some [some 1, some 0], true, [("DP", .int 9)]⟩)]⟩

example : (exCfg.targets.map (·.name)).Nodup := by decide
example : (writeRecord exCfg none (exRec 20)).changes = [⟨"A", 20, "A", ["C"], [0, 1], [1, 1]⟩] := by decide
example : (writeRecord exCfg none (exRec 10)).changes = [] := by decide
example : clookup (writeRecord exCfg none (exRec 10)).record.calls "A"
    = some ⟨some [some 0, some 1], true, [("DP", .int 7), ("PS", .int 11)]⟩ := by decide

open WhVerif.Lemmas.C20Files


/-! ## file level: header, flags, pre-existing content, processing order -/

/-- **files_cover_run**: whatever the three paths held before the run, after it each *requested* file consists of its
header line, exactly once and first, followed by the lines of every processed chromosome / (chromosome, family) in
processing order: the read list always (it is opened before the first chromosome); the changed-genotype list once a
chromosome has been processed, the recombination list once a (chromosome, family) has been processed — or always
after `fixes/F80.patch` (`createAtStart`). -/
theorem files_cover_run (o : Opts) (fx : Fix) (pre : Pre) (chroms : List ChromF)
    (hm : ∀ f ∈ allFams chroms, f.ReadsOfMembers) :
    (o.readList = true → (runF o fx pre chroms).read =
        some (readHeader :: (allFams chroms).flatMap (fun f => (readListRows f.inst).map renderReadRow))) ∧
    (o.gtList = true → (fx.createAtStart = true ∨ selectedF chroms ≠ []) → (runF o fx pre chroms).gt =
        some (gtHeader :: (selectedF chroms).flatMap (fun c => c.gtChanges.map (renderGtRow c.name)))) ∧
    (o.recList = true → (fx.createAtStart = true ∨ allFams chroms ≠ []) → (runF o fx pre chroms).reco =
        some (recHeader :: (allFams chroms).flatMap (fun f => (recombRows f.inst).map renderRecRow))) := by
  obtain ⟨h1, h2, h3⟩ := chromFold o chroms (initF o fx pre)
  refine ⟨fun hr => ?_, fun hg hc => ?_, fun hr hc => ?_⟩
  · unfold runF
    rw [h3, readLinesRun_eq chroms hm]
    simp [hr, initF]
  · have := congrArg Prod.fst h1
    simp only at this
    unfold runF
    rw [this, gtFold_closed o hg]
    by_cases hcs : fx.createAtStart = true
    · by_cases hsel : selectedF chroms = []
      · simp [hsel, initF, hg, hcs]
      · simp [hsel, initF, hg, hcs] <;> rfl
    · have hsel : selectedF chroms ≠ [] := by
        rcases hc with h | h
        · exact absurd h hcs
        · exact h
      have hcs' : fx.createAtStart = false := by simpa using hcs
      simp [hsel, initF, hg, hcs'] <;> rfl
  · have := congrArg Prod.fst h2
    simp only at this
    unfold runF
    rw [this, recFold_closed o hr]
    by_cases hcs : fx.createAtStart = true
    · by_cases hsel : allFams chroms = []
      · simp [hsel, initF, hr, hcs]
      · simp [hsel, initF, hr, hcs] <;> rfl
    · have hsel : allFams chroms ≠ [] := by
        rcases hc with h | h
        · exact absurd h hcs
        · exact h
      have hcs' : fx.createAtStart = false := by simpa using hcs
      simp [hsel, initF, hr, hcs'] <;> rfl

/-- **files_unrequested_untouched**: a list that was not requested is left exactly as it was (no file appears) -/
theorem files_unrequested_untouched (o : Opts) (fx : Fix) (pre : Pre) (chroms : List ChromF) :
    (o.readList = false → (runF o fx pre chroms).read = pre.read) ∧
    (o.gtList = false → (runF o fx pre chroms).gt = pre.gt) ∧
    (o.recList = false → (runF o fx pre chroms).reco = pre.reco) := by
  obtain ⟨h1, h2, h3⟩ := chromFold o chroms (initF o fx pre)
  refine ⟨fun hr => ?_, fun hg => ?_, fun hr => ?_⟩
  · unfold runF; rw [h3]; simp [hr, initF]
  · have := congrArg Prod.fst h1
    simp only at this
    unfold runF; rw [this, gtFold_off o hg]; simp [initF, hg]
  · have := congrArg Prod.fst h2
    simp only at this
    unfold runF; rw [this, recFold_off o hr]; simp [initF, hr]

/-- **F80 on the code as it is**: when the run processes no chromosome (every chromosome of the VCF is deselected by
`--chromosome`, or the VCF has no records) the requested changed-genotype and recombination lists are never opened:
they keep whatever the paths held before — a missing file stays missing, an old file keeps its rows. -/
theorem f80_lists_stale_when_nothing_processed (o : Opts) (pre : Pre) (chroms : List ChromF)
    (hn : selectedF chroms = []) :
    (runF o ⟨false⟩ pre chroms).gt = pre.gt ∧ (runF o ⟨false⟩ pre chroms).reco = pre.reco := by
  obtain ⟨h1, h2, _⟩ := chromFold o chroms (initF o ⟨false⟩ pre)
  have hall : allFams chroms = [] := by simp [allFams, hn]
  have a := congrArg Prod.fst h1
  have b := congrArg Prod.fst h2
  simp only [hn, hall, List.foldl_nil] at a b
  unfold runF
  exact ⟨by rw [a]; simp [initF], by rw [b]; simp [initF]⟩

/-- … and after `fixes/F80.patch` the requested lists then hold just their header -/
theorem f80_repaired_header_only (o : Opts) (pre : Pre) (chroms : List ChromF) (hn : selectedF chroms = []) :
    (o.gtList = true → (runF o ⟨true⟩ pre chroms).gt = some [gtHeader]) ∧
    (o.recList = true → (runF o ⟨true⟩ pre chroms).reco = some [recHeader]) := by
  have hall : allFams chroms = [] := by simp [allFams, hn]
  have hm : ∀ f ∈ allFams chroms, f.ReadsOfMembers := by rw [hall]; intro f hf; cases hf
  obtain ⟨_, h2, h3⟩ := files_cover_run o ⟨true⟩ pre chroms hm
  exact ⟨fun hg => by rw [h2 hg (Or.inl rfl), hn]; rfl, fun hr => by rw [h3 hr (Or.inl rfl), hall]; rfl⟩

/-- **readlist_uses_own_family_components**: the dict `components` that `ReadList.write` consults is filled family by
family and reset at every chromosome; for a read of one of the family's members the lookup yields the components
of *this* family (so the row is the one `readRow` computes from the family's `overall_components`) — whatever earlier
families of the chromosome left in the dict. -/
theorem readlist_uses_own_family_components (sc : SampleComps) (f : FamRun) (h : f.ReadsOfMembers) :
    readListRowsS (scAssign sc f.members f.inst.comps) f.inst = readListRows f.inst :=
  readListRowsS_eq sc f h



/-- **families_partition_samples**: every sample to be phased is a member of exactly one family of `setup_families`;
a family lists its members in sample order and is never empty. -/
theorem families_partition_samples (samples : List String) (trios : List Trio) :
    (∀ s ∈ samples, ∃ F ∈ setupFamilies samples trios, s ∈ F.members ∧
        ∀ F' ∈ setupFamilies samples trios, s ∈ F'.members → F' = F) ∧
    (∀ F ∈ setupFamilies samples trios, F.members.Sublist samples ∧ F.members ≠ []) := by
  constructor
  · intro s hs
    let cls := finalClasses samples trios
    let F : Family := ⟨repOf cls s, samples.filter (fun x => repOf cls x == repOf cls s),
      trios.filter (fun t => repOf cls t.child == repOf cls s)⟩
    have hF : F ∈ setupFamilies samples trios := by
      rw [mem_setupFamilies]
      refine ⟨?_, rfl, rfl⟩
      unfold repsOf
      rw [mem_sortStr, mem_dedupStr]
      exact List.mem_map.mpr ⟨s, hs, rfl⟩
    refine ⟨F, hF, List.mem_filter.mpr ⟨hs, by simp⟩, ?_⟩
    intro F' hF' hs'
    obtain ⟨_, hm, ht⟩ := (mem_setupFamilies samples trios F').mp hF'
    rw [hm] at hs'
    have hrep : repOf cls s = F'.rep := by simpa using (List.mem_filter.mp hs').2
    cases F'
    simp only at hm ht hrep
    subst hrep
    simp [F, hm, ht, cls]
  · intro F hF
    obtain ⟨hr, hm, _⟩ := (mem_setupFamilies samples trios F).mp hF
    rw [hm]
    refine ⟨List.filter_sublist, ?_⟩
    unfold repsOf at hr
    rw [mem_sortStr, mem_dedupStr] at hr
    obtain ⟨s, hs, hsr⟩ := List.mem_map.mp hr
    intro hnil
    have : s ∈ samples.filter (fun x => repOf (finalClasses samples trios) x == F.rep) :=
      List.mem_filter.mpr ⟨hs, by simp [hsr]⟩
    rw [hnil] at this
    cases this

/-- **families_processed_in_sorted_order**: `sorted(families.items())` — the representatives (the smallest member
name of each family) are strictly increasing along the processing order; in particular no family is processed twice. -/
theorem families_processed_in_sorted_order (samples : List String) (trios : List Trio) :
    ((setupFamilies samples trios).map (·.rep)).Pairwise (· < ·) := by
  rw [setupFamilies_reps]
  exact reps_strict samples trios

/-- **trios_follow_child**: every kept trio is handled in exactly one family — the one its child is a member of — and a
family's trios (hence the children of the recombination list) keep the order of the PED file. -/
theorem trios_follow_child (samples : List String) (trios : List Trio) :
    (∀ t ∈ trios, t.child ∈ samples → ∃ F ∈ setupFamilies samples trios, t ∈ F.trios ∧ t.child ∈ F.members ∧
        ∀ F' ∈ setupFamilies samples trios, t ∈ F'.trios → F' = F) ∧
    (∀ F ∈ setupFamilies samples trios, F.trios.Sublist trios) := by
  constructor
  · intro t ht hc
    obtain ⟨⟨F, hF, hmem, huniq⟩, _⟩ :=
      (⟨(families_partition_samples samples trios).1 t.child hc, trivial⟩ : _ ∧ True)
    obtain ⟨_, hm, htr⟩ := (mem_setupFamilies samples trios F).mp hF
    have hrep : repOf (finalClasses samples trios) t.child = F.rep := by
      rw [hm] at hmem
      simpa using (List.mem_filter.mp hmem).2
    refine ⟨F, hF, ?_, hmem, ?_⟩
    · rw [htr]; exact List.mem_filter.mpr ⟨ht, by simp [hrep]⟩
    · intro F' hF' ht'
      obtain ⟨_, hm', htr'⟩ := (mem_setupFamilies samples trios F').mp hF'
      apply huniq F' hF'
      rw [htr'] at ht'
      have : repOf (finalClasses samples trios) t.child = F'.rep := by simpa using (List.mem_filter.mp ht').2
      rw [hm']
      exact List.mem_filter.mpr ⟨hc, by simp [this]⟩
  · intro F hF
    obtain ⟨_, _, htr⟩ := (mem_setupFamilies samples trios F).mp hF
    rw [htr]
    exact List.filter_sublist

/-- **trio_members_share_family**: the union–find of `setup_families` (merge father–child and mother–child, the
minimum as representative) puts the three individuals of every kept trio into one family — the family that handles the
trio: father, mother and child are members of it (as far as they are samples to be phased). -/
theorem trio_members_share_family (samples : List String) (trios : List Trio) (t : Trio) (ht : t ∈ trios)
    (F : Family) (hF : F ∈ setupFamilies samples trios) (htF : t ∈ F.trios) :
    (t.father ∈ samples → t.father ∈ F.members) ∧ (t.mother ∈ samples → t.mother ∈ F.members) ∧
    (t.child ∈ samples → t.child ∈ F.members) := by
  obtain ⟨_, hm, htr⟩ := (mem_setupFamilies samples trios F).mp hF
  obtain ⟨hd, hj⟩ := finalClasses_spec samples trios
  obtain ⟨hf, hmo⟩ := hj t ht
  rw [htr] at htF
  have hc : repOf (finalClasses samples trios) t.child = F.rep := by simpa using (List.mem_filter.mp htF).2
  have e1 := repOf_eq_of_mem _ hd t.father t.child hf
  have e2 := repOf_eq_of_mem _ hd t.mother t.child hmo
  rw [hm]
  refine ⟨fun h => List.mem_filter.mpr ⟨h, by simp [← e1, hc]⟩, fun h => List.mem_filter.mpr ⟨h, by simp [← e2, hc]⟩,
    fun h => List.mem_filter.mpr ⟨h, by simp [hc]⟩⟩

/-- a quartet (two PED lines, second child first in sample order) and an unrelated sample: two families, processed in
the order of their smallest names; the children keep the PED order -/
example : setupFamilies ["S0", "Z0", "M0", "D0", "F0"] [⟨"F0", "M0", "Z0"⟩, ⟨"F0", "M0", "D0"⟩] =
    [⟨"D0", ["Z0", "M0", "D0", "F0"], [⟨"F0", "M0", "Z0"⟩, ⟨"F0", "M0", "D0"⟩]⟩, ⟨"S0", ["S0"], []⟩] := by rfl

example : keptTrios ["A", "B", "C"] [⟨"C", some "A", some "B"⟩, ⟨"D", some "A", some "B"⟩, ⟨"B", none, some "A"⟩] =
    [⟨"A", "B", "C"⟩] := by rfl


/-- **readlist_one_row_per_read**: `ReadList.write` emits exactly one row per read handed to the solver, in solver
order, provided — as the run guarantees — the partition has one entry per read (`assert len(readset) == len(bipartition)`),
no read is empty and the first position of every read has a component (`overall_components` covers all accessible positions). -/
theorem readlist_one_row_per_read (i : Inst) (hlen : i.partition.length = i.reads.length)
    (hpos : ∀ r ∈ i.reads, ∃ f c, r.positions.head? = some f ∧ alookup i.comps f = some c) :
    (readListRows i).map (·.name) = i.reads.map (·.name) ∧ (readListRows i).length = i.reads.length := by
  have key : ∀ (rs : List Read) (ps : List Nat), ps.length = rs.length →
      (∀ r ∈ rs, ∃ f c, r.positions.head? = some f ∧ alookup i.comps f = some c) →
      ((rs.zip ps).filterMap (fun rh => readRow i.comps rh.1 rh.2)).map (·.name) = rs.map (·.name) := by
    intro rs
    induction rs with
    | nil => intro ps _ _; rfl
    | cons r t ih =>
      intro ps hl hp
      cases ps with
      | nil => simp at hl
      | cons p ps' =>
        obtain ⟨f, c, hf, hc⟩ := hp r (List.mem_cons_self ..)
        have hne : r.positions ≠ [] := by intro e; rw [e] at hf; cases hf
        obtain ⟨l, hlast⟩ : ∃ l, r.positions.getLast? = some l := by
          cases hr : r.positions.getLast? with
          | none => exact absurd (List.getLast?_eq_none_iff.mp hr) hne
          | some l => exact ⟨l, rfl⟩
        have hrow : readRow i.comps r p = some ⟨r.name, r.sourceId, r.sample, c + 1, p, r.positions.length, f + 1, l + 1⟩ := by
          simp [readRow, hf, hlast, hc]
        simp only [List.zip_cons_cons, List.filterMap_cons, hrow, List.map_cons]
        rw [ih ps' (by simpa using hl) (fun r' hr' => hp r' (List.mem_cons_of_mem _ hr'))]
  have h1 := key i.reads i.partition hlen hpos
  refine ⟨h1, ?_⟩
  have := congrArg List.length h1
  simpa [readListRows] using this

example : exInst.partition.length = exInst.reads.length := by decide


/-! ### non-vacuity / witnesses of the file-level theorems -/

def exFam : FamRun := ⟨exInst, ["child", "mother", "father"]⟩

example : exFam.ReadsOfMembers := by
  intro r hr
  simp [exFam, exInst] at hr
  rcases hr with rfl | rfl | rfl <;> simp [exFam]

/-- two processed chromosomes around a deselected one, all three lists, paths that already held something: header
once, then the lines of chr1 and chr3 — nothing of the old content survives -/
example : (runF ⟨true, true, true, true⟩ ⟨false⟩ ⟨some ["old"], some ["#old", "stale"], some ["#old", "stale"]⟩
    [⟨"chr1", true, [exFam], [⟨"child", 19, "A", ["C"], [0, 1], [1, 1]⟩]⟩, ⟨"chr2", false, [exFam], []⟩,
     ⟨"chr3", true, [exFam], []⟩]).gt = some [gtHeader, "child\tchr1\t19\tA\tC\t0/1\t1/1"] := by rfl
example : (runF ⟨true, true, true, true⟩ ⟨false⟩ ⟨some ["old"], none, some ["#old", "stale"]⟩
    [⟨"chr1", true, [exFam], []⟩, ⟨"chr2", false, [exFam], []⟩, ⟨"chr3", true, [exFam], []⟩]).reco =
    some [recHeader, "child chr1 31 41 0 1 0 0 7", "child chr1 31 41 0 1 0 0 7"] := by rfl
/-- **F80 witness**: `--chromosome` names no chromosome of the VCF: the read list is reset to its header, the other two
requested lists keep the stale rows (as coded) / are reset to their header (repaired) -/
example : (fun r : FState => (r.read, r.gt, r.reco)) (runF ⟨true, true, true, true⟩ ⟨false⟩
      ⟨some ["old"], some ["#old", "stale"], none⟩ [⟨"chr1", false, [exFam], []⟩]) =
    (some [readHeader], some ["#old", "stale"], none) := by rfl
example : (fun r : FState => (r.read, r.gt, r.reco)) (runF ⟨true, true, true, true⟩ ⟨true⟩
      ⟨some ["old"], some ["#old", "stale"], none⟩ [⟨"chr1", false, [exFam], []⟩]) =
    (some [readHeader], some [gtHeader], some [recHeader]) := by rfl
/-- a read whose sample is not a member of the family being written would raise `KeyError` (no row): the hypothesis
`ReadsOfMembers` of `files_cover_run` is needed -/
example : readListRowsS (scAssign [] ["mother"] exInst.comps) exInst = [⟨"r3", 0, "mother", 51, 1, 2, 51, 61⟩] := by rfl

end WhVerif.Props.C20

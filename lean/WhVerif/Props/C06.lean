import WhVerif.Model.C06
namespace WhVerif.Props.C06
open WhVerif.C06

/-- an empty CIGAR consumes nothing (placeholder until the real theorems land) -/
theorem prefixLength_nil (f : Bool) (k : Nat) (h : 0 < k) : cigarPrefixLength f [] k = .ok (0, 0) := by
  simp [cigarPrefixLength, prefixGo, h]

end WhVerif.Props.C06

import WhVerif.Model.C06
import WhVerif.Lemmas.C06Lev
import WhVerif.Lemmas.C06Realign
import WhVerif.Lemmas.C06Cigar
import WhVerif.Lemmas.C06Iter
import WhVerif.Lemmas.C06Locate
import WhVerif.Lemmas.C06Window
import WhVerif.Lemmas.C06NoRef
import WhVerif.Lemmas.C06Enum
import WhVerif.Lemmas.C06IndelWindow
import WhVerif.Lemmas.C06IndelNoRef
import WhVerif.Lemmas.C06Affine
import WhVerif.Lemmas.C06Filter
import WhVerif.Lemmas.C06SecondIndel
import WhVerif.Lemmas.C06AffineStrip
import WhVerif.Lemmas.C06Merge
import WhVerif.Lemmas.C06IndelCut
import WhVerif.Lemmas.C06SecondIndelLeft
import WhVerif.Lemmas.C06NoRefMulti
/-!
# C06 — allele detection never assigns the wrong allele to an error-free read: theorems about the model

`f14` / `fx` select the as-is or the repaired behaviour of the defects found by this property's check
(see `Model/C06.lean:Fixes`); theorems that do not mention a specific value hold for both.
-/
namespace WhVerif.Props.C06
open WhVerif.C06

/-! ## `realign_sound` — the decision of `realign` -/

/-- symbolic ALT alleles (`<DEL>` …) are never decided -/
theorem realign_symbolic (f14 : Bool) (dist : Seq → Seq → Nat) (v : Variant) (r : Option (List Nat)) (query : Seq)
    (cigar : Cigar) (i consumed : Nat) (qp : Int) (reference : Seq) (oh : Nat) (hsym : isSymbolic v = true) :
    realign f14 dist v r query cigar i consumed qp reference oh = .ok none := by
  simp [realign, hsym]

/-- `realign_sound`, part 1: if the window's query is strictly closer to padded allele `h` than to every other padded
allele, `realign` returns `h`. -/
theorem realign_sound_strict (f14 : Bool) (dist : Seq → Seq → Nat) (v : Variant) (query : Seq) (cigar : Cigar)
    (i consumed : Nat) (qp : Int) (reference : Seq) (oh : Nat) (w : Window)
    (hsym : isSymbolic v = false) (hw : window f14 v query cigar i consumed qp reference oh = .ok w)
    (h : Nat) (ph : Seq) (hh : w.padded[h]? = some ph)
    (hs : ∀ k pk, w.padded[k]? = some pk → k ≠ h → dist w.query ph < dist w.query pk) :
    realign f14 dist v none query cigar i consumed qp reference oh = .ok (some h) := by
  simp only [realign, hsym, hw]
  apply decideAllele_strict _ h (dist w.query ph)
  · exact (mem_distances_none dist w h _).2 ⟨ph, hh, rfl⟩
  · rw [distances_none]; exact enumFrom_map_nodup _ _ _
  · intro y hy hne
    obtain ⟨k, d⟩ := y
    obtain ⟨pk, hk, rfl⟩ := (mem_distances_none dist w k d).1 hy
    apply hs k pk hk
    intro hkh; subst hkh
    rw [hh] at hk; cases hk; exact hne rfl

/-- `realign_sound`, part 2 (never the other allele; a tie is "cannot decide"): whenever `realign` returns an allele,
that allele's padded sequence is strictly closer to the query than every other padded allele. -/
theorem realign_sound_only_strict (f14 : Bool) (dist : Seq → Seq → Nat) (v : Variant) (query : Seq) (cigar : Cigar)
    (i consumed : Nat) (qp : Int) (reference : Seq) (oh : Nat) (w : Window)
    (hw : window f14 v query cigar i consumed qp reference oh = .ok w) (h : Nat)
    (hr : realign f14 dist v none query cigar i consumed qp reference oh = .ok (some h)) :
    ∃ ph, w.padded[h]? = some ph ∧ ∀ k pk, w.padded[k]? = some pk → k ≠ h → dist w.query ph < dist w.query pk := by
  unfold realign at hr
  split at hr
  · simp at hr
  · rw [hw] at hr
    obtain ⟨d, hm, hall⟩ := decideAllele_some _ h hr
    obtain ⟨ph, hph, rfl⟩ := (mem_distances_none dist w h d).1 hm
    refine ⟨ph, hph, ?_⟩
    intro k pk hk hne
    rcases hall (k, dist w.query pk) ((mem_distances_none dist w k _).2 ⟨pk, hk, rfl⟩) with heq | hlt
    · simp only [Prod.mk.injEq] at heq; exact absurd heq.1 hne
    · exact hlt

/-- `realign_sound`, tie: a bi-allelic variant whose two padded alleles are equally far from the query gets no allele -/
theorem realign_sound_tie (f14 : Bool) (dist : Seq → Seq → Nat) (v : Variant) (query : Seq) (cigar : Cigar)
    (i consumed : Nat) (qp : Int) (reference : Seq) (oh : Nat) (w : Window)
    (hsym : isSymbolic v = false) (hw : window f14 v query cigar i consumed qp reference oh = .ok w)
    (pr pa : Seq) (hp : w.padded = [pr, pa]) (htie : dist w.query pr = dist w.query pa) :
    realign f14 dist v none query cigar i consumed qp reference oh = .ok none := by
  simp [realign, hsym, hw, distances, hp, enumFrom, decideAllele, sortDist, insertDist, htie]

/-- `realign_sound`, exact match: with the true Levenshtein distance, a query that *is* padded allele `h` and differs
from every other padded allele is assigned `h`. -/
theorem realign_sound_exact (f14 : Bool) (v : Variant) (query : Seq) (cigar : Cigar)
    (i consumed : Nat) (qp : Int) (reference : Seq) (oh : Nat) (w : Window)
    (hsym : isSymbolic v = false) (hw : window f14 v query cigar i consumed qp reference oh = .ok w)
    (h : Nat) (hh : w.padded[h]? = some w.query)
    (hne : ∀ k pk, w.padded[k]? = some pk → k ≠ h → pk ≠ w.query) :
    realign f14 lev v none query cigar i consumed qp reference oh = .ok (some h) := by
  apply realign_sound_strict f14 lev v query cigar i consumed qp reference oh w hsym hw h w.query hh
  intro k pk hk hkh
  rw [lev_self]
  exact lev_pos_of_ne _ _ (fun e => hne k pk hk hkh e.symm)

/-- the executable distance used by the driver is `lev` -/
theorem realign_levFast (f14 : Bool) (v : Variant) (r : Option (List Nat)) (query : Seq) (cigar : Cigar)
    (i consumed : Nat) (qp : Int) (reference : Seq) (oh : Nat) :
    realign f14 levFast v r query cigar i consumed qp reference oh = realign f14 lev v r query cigar i consumed qp reference oh := by
  have : (levFast : Seq → Seq → Nat) = lev := by funext s t; exact levFast_eq_lev s t
  rw [this]

/-! ## `prefixLength_spec` — `cigar_prefix_length` -/

/-- `prefixLength_spec` (repaired N behaviour): for `k > 0` wanted reference bases, `cigar_prefix_length` returns the
numbers of reference and query bases in the longest prefix of the alignment (written out column by column) that ends
right after its `k`-th reference base and does not reach an N; in particular it is truncated at the end of the read,
an insertion directly after the `k`-th base is not counted, clips are not counted. -/
theorem prefixLength_spec (c : Cigar) (hops : ∀ p ∈ c, prefixOp p.1 = true) (hlen : ∀ p ∈ c, 0 < p.2)
    (k : Nat) (hk : 0 < k) :
    cigarPrefixLength true c k = .ok (countRef (takeRef k (expand c)), countQuery (takeRef k (expand c))) := by
  have := prefixGo_spec c hops hlen 0 0 k hk
  simpa [cigarPrefixLength] using this

/-- the reported number of reference bases never exceeds the request -/
theorem prefixLength_le (k : Nat) (cols : List Nat) : countRef (takeRef k cols) ≤ k := by
  induction cols generalizing k with
  | nil => cases k <;> simp [takeRef, countRef]
  | cons x xs ih =>
    cases k with
    | zero => simp [takeRef, countRef]
    | succ k =>
      simp only [takeRef]
      split
      · simp [countRef]
      · split
        · rename_i h; have := ih k; simp [countRef, h] at this ⊢; omega
        · rename_i h; have := ih (k + 1); simp [countRef, h] at this ⊢; omega

/-- without a reference skip the as-is code and the repaired code agree -/
theorem prefixLength_asis_noN (c : Cigar) (hN : ∀ p ∈ c, p.1 ≠ 3) (k : Nat) :
    cigarPrefixLength false c k = cigarPrefixLength true c k := prefixGo_noN c hN k 0 0

/-- defect F14 on the as-is model: at an N the *requested* 6 reference bases are reported although only 2 are aligned -/
example : cigarPrefixLength false [(0, 2), (3, 5), (0, 3)] 6 = .ok (6, 2)
    ∧ cigarPrefixLength true [(0, 2), (3, 5), (0, 3)] 6 = .ok (2, 2) := by
  constructor <;> rfl

/-! ## `iterateCigar_spec` — `_iterate_cigar` -/

/-- `iterateCigar_spec`: for strictly increasing variant positions and CIGAR operators 0–8 the lock-step walk raises no
error and yields, for the variants from index `j` on, *in order and at most once each*, exactly the variants whose
position the alignment's coordinate map `locate` finds — in an M/=/X or D operation, or at the reference position of an
I — together with that operation index, the offset inside it and the query offset. -/
theorem iterateCigar_spec (positions : List Nat) (j start : Nat) (c : Cigar)
    (hs : positions.Pairwise (· < ·)) (hops : ∀ p ∈ c, p.1 ≤ 8) :
    iterateCigar positions j start c =
      ((varRefsFrom positions j).filterMap (fun v => (locate v.2 0 start 0 c).map (yieldOfLoc v)), none) := by
  have hsv : SortedV (varRefsFrom positions j) :=
    List.Pairwise.sublist (List.drop_sublist _ _) (enumFrom_sorted positions 0 hs)
  unfold iterateCigar
  rw [iterGo_eq_locateAll c hops 0 start 0 _ (sorted_dropWhile _ hsv _) (by
    have := dropWhile_sorted_ge _ hsv start
    simpa using this)]
  congr 1
  have hsplit := List.takeWhile_append_dropWhile (p := fun v : VarRef => decide (v.2 < start)) (l := varRefsFrom positions j)
  conv => rhs; rw [← hsplit, List.filterMap_append]
  have e : (List.takeWhile (fun v : VarRef => decide (v.2 < start)) (varRefsFrom positions j)).filterMap
      (fun v => (locate v.2 0 start 0 c).map (yieldOfLoc v)) = [] := by
    rw [List.filterMap_eq_nil_iff]
    intro v hv
    have := takeWhile_lt _ start v hv
    simp [locate_lt v.2 0 start 0 c this]
  rw [e]; rfl

/-- `iterateCigar_spec`, meaning of a yield: the split point `(i, consumed)` cuts the CIGAR into a left and a right part
that re-assemble the alignment column by column; the left part consumes exactly the reference bases from the read start
to the variant position and `query_pos` query bases (clips included); the operation at the split point is M/=/X, D or I. -/
theorem iterateCigar_yield_sound (positions : List Nat) (j start : Nat) (c : Cigar)
    (hs : positions.Pairwise (· < ·)) (hops : ∀ p ∈ c, p.1 ≤ 8) (y : Yield)
    (hy : y ∈ (iterateCigar positions j start c).1) :
    ∃ p op len L R, j ≤ y.index ∧ positions[y.index]? = some p
      ∧ c[y.i]? = some (op, len) ∧ (isMatch op = true ∨ op = 1 ∨ op = 2)
      ∧ splitLeft c y.i y.consumed = .ok L ∧ splitRight c y.i y.consumed = .ok R
      ∧ expand (L.reverse ++ R) = expand c
      ∧ start + refLen L = p ∧ qLen L = y.queryPos := by
  rw [iterateCigar_spec positions j start c hs hops] at hy
  simp only [List.mem_filterMap, Option.map_eq_some_iff] at hy
  obtain ⟨v, hv, t, ht, rfl⟩ := hy
  obtain ⟨k, p⟩ := v
  obtain ⟨i', cons, q⟩ := t
  obtain ⟨hjk, hp⟩ := mem_varRefsFrom positions j k p hv
  obtain ⟨op, len, _, hc, hop, h1, h2, hr, hq⟩ := locate_sound p c 0 start 0 i' cons q ht
  simp only [Nat.sub_zero] at hc hr hq
  have hle : cons ≤ len := by
    by_cases e : op = 1
    · have := h1 e; omega
    · have := h2 e; omega
  obtain ⟨L, R, hL, hR, hexp, hrl, hql⟩ := split_reassemble c i' cons op len hc hle
  refine ⟨p, op, len, L, R, hjk, hp, hc, hop, hL, hR, hexp, ?_, ?_⟩
  · simp only [yieldOfLoc] at *
    rw [hrl]
    rcases hop with hm | rfl | rfl
    · simp [consumesRef, hm]; omega
    · have := h1 rfl; subst this; simp [consumesRef, isMatch_1]; omega
    · simp [consumesRef]; omega
  · simp only [yieldOfLoc]
    rw [hql, hq]
    rcases hop with hm | rfl | rfl
    · simp [consumesQuery, hm]
    · have := h1 rfl; subst this; simp [consumesQuery, isMatch_1]
    · simp [consumesQuery, isMatch_2]

/-- `iterateCigar_spec`, no yield outside the aligned span: a yielded variant lies in `[start, start + refLen]` -/
theorem iterateCigar_within_span (positions : List Nat) (j start : Nat) (c : Cigar)
    (hs : positions.Pairwise (· < ·)) (hops : ∀ p ∈ c, p.1 ≤ 8) (y : Yield)
    (hy : y ∈ (iterateCigar positions j start c).1) :
    ∃ p, positions[y.index]? = some p ∧ start ≤ p ∧ p ≤ start + refLen c := by
  rw [iterateCigar_spec positions j start c hs hops] at hy
  simp only [List.mem_filterMap, Option.map_eq_some_iff] at hy
  obtain ⟨v, hv, t, ht, rfl⟩ := hy
  obtain ⟨k, p⟩ := v
  obtain ⟨_, hp⟩ := mem_varRefsFrom positions j k p hv
  refine ⟨p, hp, ?_, ?_⟩
  · rcases Nat.lt_or_ge p start with h | h
    · rw [locate_lt p 0 start 0 c h] at ht; cases ht
    · exact h
  · rcases Nat.lt_or_ge (start + refLen c) p with h | h
    · rw [locate_gt_end p c 0 start 0 h] at ht; cases ht
    · exact h

/-- … and the position one past the last aligned base is yielded only if the alignment ends in an insertion -/
theorem iterateCigar_not_at_end (positions : List Nat) (j start : Nat) (c : Cigar)
    (hs : positions.Pairwise (· < ·)) (hops : ∀ p ∈ c, p.1 ≤ 8)
    (hI : ∀ k l, c[k]? = some (1, l) → 0 < refLen (c.drop (k + 1))) (y : Yield)
    (hy : y ∈ (iterateCigar positions j start c).1) :
    positions[y.index]? ≠ some (start + refLen c) := by
  rw [iterateCigar_spec positions j start c hs hops] at hy
  simp only [List.mem_filterMap, Option.map_eq_some_iff] at hy
  obtain ⟨v, hv, t, ht, rfl⟩ := hy
  obtain ⟨k, p⟩ := v
  obtain ⟨_, hp⟩ := mem_varRefsFrom positions j k p hv
  intro hcon
  simp only [yieldOfLoc] at hcon
  rw [hp] at hcon; cases hcon
  rw [locate_at_end c 0 start 0 hI] at ht; cases ht

/-- `iterateCigar_spec`, no yield inside a reference skip: a variant whose position lies inside an N operation (and not
exactly where an insertion in front of the N sits) is never yielded -/
theorem iterateCigar_not_in_N (positions : List Nat) (j start : Nat) (a b : Cigar) (len : Nat)
    (hs : positions.Pairwise (· < ·)) (hops : ∀ p ∈ a ++ (3, len) :: b, p.1 ≤ 8) (p : Nat)
    (hin : start + refLen a ≤ p ∧ p < start + refLen a + len)
    (hI : ∀ k l, a[k]? = some (1, l) → start + refLen (a.take k) ≠ p) (y : Yield)
    (hy : y ∈ (iterateCigar positions j start (a ++ (3, len) :: b)).1) :
    positions[y.index]? ≠ some p := by
  rw [iterateCigar_spec positions j start _ hs hops] at hy
  simp only [List.mem_filterMap, Option.map_eq_some_iff] at hy
  obtain ⟨v, hv, t, ht, rfl⟩ := hy
  obtain ⟨k, p'⟩ := v
  obtain ⟨_, hp⟩ := mem_varRefsFrom positions j k p' hv
  intro hcon
  simp only [yieldOfLoc] at hcon
  rw [hp] at hcon; cases hcon
  rw [locate_in_N _ a b len 0 start 0 hin hI] at ht; cases ht

/-! ## `window_is_padded_allele` — SNV / MNP -/

/-- the haplotype that carries allele `a` of a length-preserving variant at `pos` -/
def hapSeq (R : Seq) (pos L : Nat) (a : Seq) : Seq := R.take pos ++ a ++ R.drop (pos + L)

/-- `window_is_padded_allele`, SNV/MNP (the full statement also covers insertions and deletions; those are not proved,
see notes/C06.md).  An error-free read: the CIGAR is `A ++ [mop m] ++ B` with `mop` ∈ {M,=,X}; the M block covers the
variant (`ref`/`alt` of equal length, the reference carries `ref` at `pos`); the block's query bases are a copy of the
haplotype carrying allele `h`; on either side the block reaches the end of the ±`oh` window, or the read ends there
(only S/H operations beyond) — i.e. no other non-reference allele and no other operation inside the window.
Then, at the split point the walker reports for this variant, `realign`'s window is
`left_pad ++ allele ++ right_pad` for REF and ALT, and the extracted query is the one of the carried allele — also when
the window is truncated by the read start/end. -/
theorem window_is_padded_allele_snv_mnp_partial (f14 : Bool) (R query : Seq) (pos : Nat) (ref alt : Seq) (h : Nat)
    (A B : Cigar) (mop m start oh : Nat) (hm : isMatch mop = true) (hoh : 0 < oh)
    (hL : alt.length = ref.length) (hL0 : 0 < ref.length)
    (hR : slice R pos ref.length = ref)
    (hcov : start + refLen A ≤ pos ∧ pos + ref.length ≤ start + refLen A + m)
    (hin : start + refLen A + m ≤ R.length)
    (hleft : oh ≤ pos - (start + refLen A) ∨ A.all isClip = true)
    (hright : oh ≤ start + refLen A + m - (pos + ref.length) ∨ B.all isClip = true)
    (hq : slice query (qLen A) m =
      slice (hapSeq R pos ref.length (if h = 0 then ref else alt)) (start + refLen A) m) :
    ∃ lp rp, window f14 ⟨pos, ref, [alt]⟩ query (A ++ (mop, m) :: B) A.length (pos - (start + refLen A))
        ((qLen A + (pos - (start + refLen A)) : Nat) : Int) R oh
      = .ok ⟨lp ++ (if h = 0 then ref else alt) ++ rp, [lp ++ ref ++ rp, lp ++ alt ++ rp]⟩ := by
  -- abbreviations
  generalize hs : start + refLen A = s at *
  generalize hd : pos - s = d at *
  have hdm : d < m := by omega
  have hposd : pos = s + d := by omega
  have hposR : pos ≤ R.length := by omega
  -- the two halves of the split and their prefix lengths
  have hc : (A ++ (mop, m) :: B)[A.length]? = some (mop, m) := getElem?_append_length A B (mop, m)
  have hleftc : splitLeft (A ++ (mop, m) :: B) A.length d = .ok ((if d > 0 then [(mop, d)] else []) ++ A.reverse) := by
    simp [splitLeft, hc, Nat.le_of_lt hdm]
  have hrightc : splitRight (A ++ (mop, m) :: B) A.length d = .ok ((if m - d > 0 then [(mop, m - d)] else []) ++ B) := by
    have : m - d > 0 := by omega
    simp [splitRight, hc, hdm, this, drop_append_length_succ]
  have hpl := prefix_block f14 mop d oh A.reverse hm hoh (by
    rcases hleft with h1 | h1
    · left; exact h1
    · right; rw [all_reverse]; exact h1)
  have hpr := prefix_block f14 mop (m - d) (ref.length + oh) B hm (by omega) (by
    rcases hright with h1 | h1
    · left; omega
    · right; exact h1)
  -- the window widths
  generalize hlw : min oh d = lw at *
  generalize hrw : min (ref.length + oh) (m - d) = rw at *
  have hlwd : lw ≤ d := by omega
  have hrwL : ref.length ≤ rw := by omega
  have hrwm : rw ≤ m - d := by omega
  have hA1 : ¬ pos < lw := by omega
  have hA2 : ¬ pos + rw > R.length := by omega
  refine ⟨slice R (pos - lw) lw, slice R (pos + ref.length) (rw - ref.length), ?_⟩
  simp only [window, hleftc, hpl, hrightc, hpr, hA1, hA2, if_false, List.map_cons, List.map_nil]
  -- integer slices → natural slices
  have i1 : ((qLen A + d : Nat) : Int) - (lw : Int) = ((qLen A + d - lw : Nat) : Int) := by omega
  have i2 : ((qLen A + d : Nat) : Int) + (rw : Int) = ((qLen A + d + rw : Nat) : Int) := by omega
  have i3 : (pos : Int) - (lw : Int) = ((pos - lw : Nat) : Int) := by omega
  have i4 : (pos : Int) + (ref.length : Int) = ((pos + ref.length : Nat) : Int) := by omega
  have i5 : (pos : Int) + (rw : Int) = ((pos + rw : Nat) : Int) := by omega
  rw [i1, i2, i3, i4, i5]
  simp only [pySlice_nat]
  -- left pad, right pad
  have e1 : pos - (pos - lw) = lw := by omega
  have e2 : pos + rw - (pos + ref.length) = rw - ref.length := by omega
  have e3 : pos + rw - (pos - lw) = (pos - (pos - lw)) + rw := by omega
  have e4 : qLen A + d + rw - (qLen A + d - lw) = (pos - (pos - lw)) + rw := by omega
  rw [e1, e2]
  -- padded REF = the reference slice
  have hRd := ref_decomp R ref pos hR
  have hpadref : slice R (pos - lw) (pos + rw - (pos - lw)) =
      slice R (pos - lw) lw ++ ref ++ slice R (pos + ref.length) (rw - ref.length) := by
    rw [e3]
    conv => lhs; rw [hRd]
    have := slice_hap R ref pos ref.length (pos - lw) rw (by omega) hposR hrwL
    rw [this, e1]
  -- the query slice = the haplotype slice
  have hqs : slice query (qLen A + d - lw) (qLen A + d + rw - (qLen A + d - lw)) =
      slice R (pos - lw) lw ++ (if h = 0 then ref else alt) ++ slice R (pos + ref.length) (rw - ref.length) := by
    rw [e4]
    have hal : (if h = 0 then ref else alt).length = ref.length := by split <;> simp [hL]
    have e5 : qLen A + d - lw = qLen A + (d - lw) := by omega
    rw [e5, ← slice_slice query (qLen A) m (d - lw) _ (by omega), hq,
      slice_slice _ s m (d - lw) _ (by omega)]
    have e6 : s + (d - lw) = pos - lw := by omega
    rw [e6]
    unfold hapSeq
    have := slice_hap R (if h = 0 then ref else alt) pos ref.length (pos - lw) rw (by omega) hposR (by omega)
    rw [this, e1, hal]
  rw [hpadref, hqs]

/-- consequence of the window lemma and `realign_sound`: for such a read `realign` returns the carried allele `h` -/
theorem realign_snv_mnp_correct (f14 : Bool) (R query : Seq) (pos : Nat) (ref alt : Seq) (h : Nat) (hh : h < 2)
    (A B : Cigar) (mop m start oh : Nat) (hm : isMatch mop = true) (hoh : 0 < oh)
    (hL : alt.length = ref.length) (hL0 : 0 < ref.length) (hne : ref ≠ alt) (hsym : alt.head? ≠ some '<')
    (hR : slice R pos ref.length = ref)
    (hcov : start + refLen A ≤ pos ∧ pos + ref.length ≤ start + refLen A + m)
    (hin : start + refLen A + m ≤ R.length)
    (hleft : oh ≤ pos - (start + refLen A) ∨ A.all isClip = true)
    (hright : oh ≤ start + refLen A + m - (pos + ref.length) ∨ B.all isClip = true)
    (hq : slice query (qLen A) m =
      slice (hapSeq R pos ref.length (if h = 0 then ref else alt)) (start + refLen A) m) :
    realign f14 lev ⟨pos, ref, [alt]⟩ none query (A ++ (mop, m) :: B) A.length (pos - (start + refLen A))
        ((qLen A + (pos - (start + refLen A)) : Nat) : Int) R oh = .ok (some h) := by
  obtain ⟨lp, rp, hw⟩ := window_is_padded_allele_snv_mnp_partial f14 R query pos ref alt h A B mop m start oh hm hoh hL hL0
    hR hcov hin hleft hright hq
  have hs : isSymbolic ⟨pos, ref, [alt]⟩ = false := by
    simp only [isSymbolic, List.any_cons, List.any_nil, Bool.or_false]
    simpa using hsym
  apply realign_sound_exact f14 _ query _ _ _ _ R oh _ hs hw h
  · have : h = 0 ∨ h = 1 := by omega
    rcases this with rfl | rfl <;> simp
  · intro k pk hk hkh
    have hcases : h = 0 ∨ h = 1 := by omega
    have hpad : ∀ k pk, [lp ++ ref ++ rp, lp ++ alt ++ rp][k]? = some pk → k = 0 ∧ pk = lp ++ ref ++ rp ∨ k = 1 ∧ pk = lp ++ alt ++ rp := by
      intro k pk hk
      match k with
      | 0 => left; simp at hk; exact ⟨rfl, by simp [← hk]⟩
      | 1 => right; simp at hk; exact ⟨rfl, by simp [← hk]⟩
      | k + 2 => simp at hk
    rcases hpad k pk hk with ⟨rfl, rfl⟩ | ⟨rfl, rfl⟩ <;> rcases hcases with rfl | rfl
    · exact absurd rfl hkh
    · simp only [List.append_assoc, Nat.succ_ne_zero, if_false, ne_eq, List.append_cancel_left_eq, List.append_cancel_right_eq]
      exact hne
    · simp only [List.append_assoc, if_true, ne_eq, List.append_cancel_left_eq, List.append_cancel_right_eq]
      exact fun e => hne e.symm
    · exact absurd rfl hkh

/-- … and the walker does report exactly that split point: a variant strictly inside an M block (at least one aligned
base before it) is yielded with `i` = index of the block, `consumed` = offset in the block, `query_pos` = query bases
before it. (`locate` is the walker's result by `iterateCigar_spec`.) -/
theorem walker_split_in_block (A B : Cigar) (mop m pos start : Nat) (hm : isMatch mop = true)
    (hin : start + refLen A < pos ∧ pos < start + refLen A + m) :
    locate pos 0 start 0 (A ++ (mop, m) :: B) =
      some (A.length, pos - (start + refLen A), qLen A + (pos - (start + refLen A))) := by
  have := locate_in_block A B mop m pos 0 start 0 hm hin
  simpa using this

/-! ## `noref_snv_correct` — the no-reference detector on SNVs -/

/-- `noref_snv_correct`: when every variant is an SNV (REF and ALT single, different bases; positions strictly
increasing), for every CIGAR over the operators 0–8 — soft/hard clips, insertions, deletions, reference skips, =/X
included — and a query as long as the CIGAR says, the no-reference detector (normalisation, conflict removal, queue,
three handlers, pop loop; as-is or repaired, `fx` arbitrary) raises no error and returns exactly `snvExpected`: each SNV
whose position lies in an M/=/X operation is called REF or ALT according to the query base aligned to it (no call for a
third base), with that base's quality; no call for SNVs in a deletion, in a skipped region or outside the alignment. -/
theorem noref_snv_correct (fx : Fixes) (variants : List Variant) (first start : Nat) (cigar : Cigar) (query : Seq)
    (quals : Option (List Nat)) (hsnv : ∀ v ∈ variants, SnvV v)
    (hsorted : variants.Pairwise (fun a b => a.pos < b.pos)) (hops : ∀ p ∈ cigar, p.1 ≤ 8)
    (hlen : qLen cigar ≤ query.length) (hquals : ∀ l, quals = some l → l.length = query.length) :
    detectNoRef fx variants first start cigar query quals =
      (snvExpected query quals start 0 ((enumFrom 0 variants).drop first) cigar, none) := by
  unfold detectNoRef
  have hnorm : variants.map normalize = variants := by
    conv => rhs; rw [← List.map_id variants]
    exact List.map_congr_left (fun v hv => normalize_snv v (hsnv v hv))
  have hno : nonOverlapping variants = List.range' 0 variants.length :=
    nonOverlapGo_snv variants [] 0 hsnv (by simp) hsorted
  have hvps : (List.range' 0 variants.length).filterMap (fun id => (variants[id]?).map (fun v => (id, v))) =
      enumFrom 0 variants := by
    have := filterMap_range'_enum ([] : List Variant) variants
    simpa using this
  simp only [hnorm, hno, hvps]
  have hsub : ((enumFrom 0 variants).drop first).Sublist (enumFrom 0 variants) := List.drop_sublist _ _
  have hall : ∀ p ∈ (enumFrom 0 variants).drop first, SnvV p.2 := by
    intro p hp
    obtain ⟨k, v⟩ := p
    exact hsnv v (mem_enumFrom_snd variants 0 k v (hsub.subset hp))
  have hsp : SortedP ((enumFrom 0 variants).drop first) :=
    List.Pairwise.sublist hsub (enumFrom_sortedP variants 0 hsorted)
  rw [noRefGo_snv fx query quals cigar hops hquals false start 0 _
    (fun p hp => hall p (mem_dropWhile_mem _ _ _ hp)) (sortedP_dropWhile _ hsp _) (by omega)]
  rw [snvExpected_dropWhile]

/-- what a call means: allele 0 ⇔ the aligned query base is the REF base, allele 1 ⇔ it is the ALT base -/
theorem snvCall_sound (query : Seq) (quals : Option (List Nat)) (id : Nat) (v : Variant) (q : Nat) (r a : Char)
    (hr : v.ref = [r]) (ha : v.alts = [[a]]) (k h qual : Nat)
    (hc : snvCall query quals id v q = some (k, h, qual)) :
    k = id ∧ qual = qualAt quals q ∧ ((h = 0 ∧ query[q]? = some r) ∨ (h = 1 ∧ query[q]? = some a)) := by
  unfold snvCall at hc
  cases hq : query[q]? with
  | none => simp [hq] at hc
  | some b =>
    simp only [hq, hr, ha] at hc
    by_cases h1 : r = b
    · subst h1; simp at hc; obtain ⟨rfl, rfl, rfl⟩ := hc; exact ⟨rfl, rfl, Or.inl ⟨rfl, rfl⟩⟩
    · by_cases h2 : a = b
      · subst h2; simp [h1] at hc; obtain ⟨rfl, rfl, rfl⟩ := hc; exact ⟨rfl, rfl, Or.inr ⟨rfl, rfl⟩⟩
      · simp [h1, h2] at hc

/-- … and an error-free read is called correctly: if the aligned base is the base of allele `h`, the call is `h` -/
theorem snvCall_complete (query : Seq) (quals : Option (List Nat)) (id : Nat) (v : Variant) (q : Nat) (r a : Char)
    (hr : v.ref = [r]) (ha : v.alts = [[a]]) (hne : r ≠ a) :
    (query[q]? = some r → snvCall query quals id v q = some (id, 0, qualAt quals q)) ∧
    (query[q]? = some a → snvCall query quals id v q = some (id, 1, qualAt quals q)) := by
  constructor
  · intro h; simp [snvCall, h, hr]
  · intro h
    have : ¬ r = a := hne
    simp [snvCall, h, hr, ha, this]

/-! ## non-vacuity: the hypotheses of the theorems above are satisfiable (concrete instances) -/

section NonVacuity
/-- reference `GGGAGGGT`, read carrying the ALT `C` of the SNV `A>C` at 3, CIGAR `2S 7M 1H` starting at 0 -/
private def Rf : Seq := ['G', 'G', 'G', 'A', 'G', 'G', 'G', 'T']
private def qry : Seq := ['T', 'T', 'G', 'G', 'G', 'C', 'G', 'G', 'G']

example : realign true lev ⟨3, ['A'], [['C']]⟩ none qry ([(4, 2)] ++ (0, 7) :: [(5, 1)]) [(4, 2)].length
    (3 - (0 + refLen [(4, 2)])) ((qLen [(4, 2)] + (3 - (0 + refLen [(4, 2)])) : Nat) : Int) Rf 2 = .ok (some 1) :=
  realign_snv_mnp_correct true Rf qry 3 ['A'] ['C'] 1 (by decide) [(4, 2)] [(5, 1)] 0 7 0 2 rfl (by decide) rfl (by decide)
    (by decide) (by decide) (by decide) ⟨by decide, by decide⟩ (by decide) (Or.inl (by decide)) (Or.inl (by decide)) (by decide)

/-- truncated window: the read starts one base before the variant (left pad of 1 instead of 2) -/
example : realign true lev ⟨3, ['A'], [['C']]⟩ none ['G', 'C', 'G', 'G', 'G'] ([] ++ (0, 5) :: []) ([] : Cigar).length
    (3 - (2 + refLen [])) ((qLen [] + (3 - (2 + refLen [])) : Nat) : Int) Rf 2 = .ok (some 1) :=
  realign_snv_mnp_correct true Rf ['G', 'C', 'G', 'G', 'G'] 3 ['A'] ['C'] 1 (by decide) [] [] 0 5 2 2 rfl (by decide) rfl
    (by decide) (by decide) (by decide) (by decide) ⟨by decide, by decide⟩ (by decide) (Or.inr (by decide)) (Or.inl (by decide))
    (by decide)

/-- a tie: the query `GG` is equally far from `GAG`-like paddings (here REF `A`, ALT `C`, query base `T`) -/
example : realign true lev ⟨3, ['A'], [['C']]⟩ none ['G', 'G', 'G', 'T', 'G', 'G', 'G'] [(0, 7)] 0 3 3 Rf 2 = .ok none :=
  realign_sound_tie true lev _ _ _ 0 3 3 Rf 2 ⟨['G', 'G', 'T', 'G', 'G'], [['G', 'G', 'A', 'G', 'G'], ['G', 'G', 'C', 'G', 'G']]⟩
    (by decide) (by rfl) _ _ rfl (by
      show lev ['G', 'G', 'T', 'G', 'G'] ['G', 'G', 'A', 'G', 'G'] = lev ['G', 'G', 'T', 'G', 'G'] ['G', 'G', 'C', 'G', 'G']
      have h1 : lev ['G', 'G', 'T', 'G', 'G'] ['G', 'G', 'A', 'G', 'G'] = 1 := by
        rw [← levFast_eq_lev ['G', 'G', 'T', 'G', 'G'] ['G', 'G', 'A', 'G', 'G']]; rfl
      have h2 : lev ['G', 'G', 'T', 'G', 'G'] ['G', 'G', 'C', 'G', 'G'] = 1 := by
        rw [← levFast_eq_lev ['G', 'G', 'T', 'G', 'G'] ['G', 'G', 'C', 'G', 'G']]; rfl
      rw [h1, h2])

example : cigarPrefixLength true [(4, 3), (0, 2), (1, 2), (2, 1), (0, 4), (3, 9), (0, 5)] 5
    = .ok (countRef (takeRef 5 (expand [(4, 3), (0, 2), (1, 2), (2, 1), (0, 4), (3, 9), (0, 5)])),
           countQuery (takeRef 5 (expand [(4, 3), (0, 2), (1, 2), (2, 1), (0, 4), (3, 9), (0, 5)]))) :=
  prefixLength_spec _ (by decide) (by decide) 5 (by decide)

example : iterateCigar [3, 10, 12, 14, 30] 0 5 [(4, 2), (0, 4), (1, 2), (0, 2), (2, 3), (3, 10), (0, 8)]
    = (([(0, 3), (1, 10), (2, 12), (3, 14), (4, 30)] : List VarRef).filterMap (fun v =>
        (locate v.2 0 5 0 [(4, 2), (0, 4), (1, 2), (0, 2), (2, 3), (3, 10), (0, 8)]).map (yieldOfLoc v)), none) :=
  iterateCigar_spec _ 0 5 _ (by decide) (by decide)

/-- what that walk yields: 10 in the second M (query 9), 12 in the D (query 10), 30 in the last M; 3 lies left of the read,
14 … 23 inside the N -/
example : iterateCigar [3, 10, 12, 14, 30] 0 5 [(4, 2), (0, 4), (1, 2), (0, 2), (2, 3), (3, 10), (0, 8)]
    = ([⟨1, 3, 1, 9⟩, ⟨2, 4, 1, 10⟩, ⟨4, 6, 6, 16⟩], none) := by decide
/-- hypotheses of `iterateCigar_not_in_N` / `_yield_sound` / `_within_span` on that read: 14 lies inside the N -/
example (y : Yield)
    (hy : y ∈ (iterateCigar [3, 10, 12, 14, 30] 0 5 ([(4, 2), (0, 4), (1, 2), (0, 2), (2, 3)] ++ (3, 10) :: [(0, 8)])).1) :
    [3, 10, 12, 14, 30][y.index]? ≠ some 14 :=
  iterateCigar_not_in_N _ 0 5 _ _ 10 (by decide) (by decide) 14 (by decide)
    (by
      intro k l h
      match k with
      | 0 => simp at h
      | 1 => simp at h
      | 2 => decide
      | 3 => simp at h
      | 4 => simp at h
      | k + 5 => simp at h) y hy

/-- `noref_snv_correct` on a concrete read: `2S 4M 1D 3M` at 1, SNVs at 3 (A>C, read has C) and 6 (G>T, read has G) -/
example : detectNoRef Fixes.asIs [⟨3, ['A'], [['C']]⟩, ⟨6, ['G'], [['T']]⟩] 0 1 [(4, 2), (0, 4), (2, 1), (0, 3)]
      ['T', 'T', 'G', 'G', 'C', 'G', 'G', 'G', 'T'] none
    = (snvExpected ['T', 'T', 'G', 'G', 'C', 'G', 'G', 'G', 'T'] none 1 0
        ((enumFrom 0 [(⟨3, ['A'], [['C']]⟩ : Variant), ⟨6, ['G'], [['T']]⟩]).drop 0) [(4, 2), (0, 4), (2, 1), (0, 3)], none) :=
  noref_snv_correct _ _ 0 1 _ _ none
    (by
      intro v hv
      simp only [List.mem_cons, List.not_mem_nil, or_false] at hv
      rcases hv with rfl | rfl
      · exact ⟨'A', 'C', rfl, rfl, by decide⟩
      · exact ⟨'G', 'T', rfl, rfl, by decide⟩)
    (by simp) (by decide) (by decide) (by simp)

example : snvExpected ['T', 'T', 'G', 'G', 'C', 'G', 'G', 'G', 'T'] none 1 0
      [(0, (⟨3, ['A'], [['C']]⟩ : Variant)), (1, ⟨6, ['G'], [['T']]⟩)] [(4, 2), (0, 4), (2, 1), (0, 3)]
    = [(0, 1, 30), (1, 0, 30)] := by decide

/-- defect F13 on the as-is model (`f13 = false`): a read carrying the REF `CTG` of the deletion `ACTG>A` (normalised:
`CTG>ε` at 4) gets no allele without a reference because the match handler compares query base 0 with every allele base;
the repaired model records REF -/
example : noRefGo Fixes.asIs ['G', 'G', 'G', 'A', 'C', 'T', 'G', 'T', 'T'] none false 0 0 [(0, ⟨4, ['C', 'T', 'G'], [[]]⟩)] [] [(0, 9)]
      = ([], none)
    ∧ noRefGo Fixes.all ['G', 'G', 'G', 'A', 'C', 'T', 'G', 'T', 'T'] none false 0 0 [(0, ⟨4, ['C', 'T', 'G'], [[]]⟩)] [] [(0, 9)]
      = ([(0, 0, 30)], none)
    ∧ normalize ⟨3, ['A', 'C', 'T', 'G'], [['A']]⟩ = ⟨4, ['C', 'T', 'G'], [[]]⟩ := by decide

/-- defect F16 on the as-is model: the 5-base insertion after 20 also "sees" the insertion variant `ε>CC` at 24 and calls it
REF from the wrong query bases; the repaired model calls ALT at the second insertion -/
example : noRefGo Fixes.asIs ['G', 'G', 'A', 'C', 'A', 'C', 'A', 'T', 'T', 'T', 'C', 'C', 'G', 'G'] none false 19 0
        [(0, ⟨24, [], [['C', 'C']]⟩)] [] [(0, 2), (1, 5), (0, 3), (1, 2), (0, 2)] = ([(0, 0, 30)], none)
    ∧ noRefGo Fixes.all ['G', 'G', 'A', 'C', 'A', 'C', 'A', 'T', 'T', 'T', 'C', 'C', 'G', 'G'] none false 19 0
        [(0, ⟨24, [], [['C', 'C']]⟩)] [] [(0, 2), (1, 5), (0, 3), (1, 2), (0, 2)] = ([(0, 1, 30)], none) := by decide

/-- defect F12 on the as-is model: the forward mate's SNV (position 10) is dropped from an FR pair -/
example : mergeGroup false [⟨false, false, 5, 30, [(10, 1, 30)]⟩, ⟨false, true, 40, 65, [(50, 1, 30)]⟩] 100000 = some [(50, 1, 30)]
    ∧ mergeGroup true [⟨false, false, 5, 30, [(10, 1, 30)]⟩, ⟨false, true, 40, 65, [(50, 1, 30)]⟩] 100000
      = some [(10, 1, 30), (50, 1, 30)] := by decide

/-- defect F15 on the as-is model: the read starts at 20 (its three soft-clipped bases are the insertion anchored at 19,
normalised `ε>TTT` at 20); as-is the variant is called REF, repaired nothing is recorded -/
example : noRefGo Fixes.asIs ['T', 'T', 'T', 'G', 'G', 'G'] none false 20 0 [(0, ⟨20, [], [['T', 'T', 'T']]⟩)] [] [(4, 3), (0, 3)]
      = ([(0, 0, 30)], none)
    ∧ noRefGo Fixes.all ['T', 'T', 'T', 'G', 'G', 'G'] none false 20 0 [(0, ⟨20, [], [['T', 'T', 'T']]⟩)] [] [(4, 3), (0, 3)]
      = ([], none) := by decide

end NonVacuity

/-! ## `window_is_padded_allele` — deletions, insertions, runs of M/=/X blocks -/

/-- `window_is_padded_allele`, all variant types.  An error-free read in canonical alignment: the CIGAR is
`A ++ W1 ++ [(op, len)] ++ W2 ++ B`, where `W1`, `W2` are runs of M/=/X operations (no other non-reference allele of the
read's haplotype near the variant) and `(op, len)` is the operation the walker finds the variant position `pos` in, at
offset `d`:
* an M/=/X block, when the carried allele `a` is as long as REF (REF itself — also of a deletion/insertion variant —,
  an SNV, an MNP);
* the deletion `(D, |REF|)` directly at `pos`, when the read carries the empty allele of a deletion variant;
* the insertion `(I, |a|)` directly at `pos`, when REF is empty and the read carries the inserted allele `a`.
The read's bases over `W1 ++ [(op, len)] ++ W2` are a copy of the haplotype `hapOf R pos |REF| a` (`hq`); the read
covers the variant (`hcov`: the window is not cut inside the variant); on either side the M/=/X run reaches the end of
the ±`oh` window, or the window ends there (`endsWindow`: only soft/hard clips up to the read start/end, or — with
the repaired `cigar_prefix_length`, `f14` — up to a reference skip): truncated window.  Then `realign`'s window is
`⟨lp ++ a ++ rp, [lp ++ x ++ rp | x ∈ REF :: ALTs]⟩`. -/
theorem window_is_padded_allele (f14 : Bool) (R query : Seq) (pos : Nat) (ref a : Seq) (alts : List Seq)
    (A W1 W2 B : Cigar) (op len d start oh : Nat) (hoh : 0 < oh)
    (hW1 : W1.all isMatchOp = true) (hW2 : W2.all isMatchOp = true)
    (hshape : (isMatch op = true ∧ d < len ∧ a.length = ref.length)
      ∨ (op = 2 ∧ a = [] ∧ len = ref.length ∧ d = 0 ∧ 0 < len)
      ∨ (op = 1 ∧ ref = [] ∧ len = a.length ∧ d = 0 ∧ 0 < len))
    (hpos : pos = start + refLen A + refLen W1 + d)
    (hR : slice R pos ref.length = ref)
    (hcov : pos + ref.length ≤ start + refLen A + refLen (W1 ++ (op, len) :: W2))
    (hin : start + refLen A + refLen (W1 ++ (op, len) :: W2) ≤ R.length)
    (hleft : oh ≤ refLen W1 + d ∨ endsWindow f14 A.reverse = true)
    (hright : pos + ref.length + oh ≤ start + refLen A + refLen (W1 ++ (op, len) :: W2) ∨ endsWindow f14 B = true)
    (hq : slice query (qLen A) (qLen (W1 ++ (op, len) :: W2)) =
      slice (hapOf R pos ref.length a) (start + refLen A) (qLen (W1 ++ (op, len) :: W2))) :
    ∃ lp rp, window f14 ⟨pos, ref, alts⟩ query (A ++ W1 ++ (op, len) :: (W2 ++ B)) (A ++ W1).length d
        ((qLen (A ++ W1) + d : Nat) : Int) R oh
      = .ok ⟨lp ++ a ++ rp, (ref :: alts).map (fun x => lp ++ x ++ rp)⟩ :=
  window_canonical f14 R query pos ref a alts A W1 W2 B op len d start oh hoh hW1 hW2 hshape hpos hR hcov hin hleft
    hright hq

/-- `window_is_padded_allele` for a DELETION carried by the read: the CIGAR has the D of the right length directly at
the (normalised) variant position, M/=/X runs around it. -/
theorem window_is_padded_allele_deletion (f14 : Bool) (R query : Seq) (pos : Nat) (ref : Seq) (alts : List Seq)
    (A W1 W2 B : Cigar) (start oh : Nat) (hoh : 0 < oh) (hL : 0 < ref.length)
    (hW1 : W1.all isMatchOp = true) (hW2 : W2.all isMatchOp = true)
    (hpos : pos = start + refLen A + refLen W1)
    (hR : slice R pos ref.length = ref)
    (hin : pos + ref.length + refLen W2 ≤ R.length)
    (hleft : oh ≤ refLen W1 ∨ endsWindow f14 A.reverse = true)
    (hright : oh ≤ refLen W2 ∨ endsWindow f14 B = true)
    (hq : slice query (qLen A) (qLen W1 + qLen W2) =
      slice (hapOf R pos ref.length []) (start + refLen A) (qLen W1 + qLen W2)) :
    ∃ lp rp, window f14 ⟨pos, ref, alts⟩ query (A ++ W1 ++ (2, ref.length) :: (W2 ++ B)) (A ++ W1).length 0
        ((qLen (A ++ W1) : Nat) : Int) R oh
      = .ok ⟨lp ++ rp, (ref :: alts).map (fun x => lp ++ x ++ rp)⟩ := by
  have hr2 : refLen (W1 ++ (2, ref.length) :: W2) = refLen W1 + (ref.length + refLen W2) := by
    simp [refLen_append, refLen, consumesRef]
  have hq2 : qLen (W1 ++ (2, ref.length) :: W2) = qLen W1 + qLen W2 := by
    simp [qLen_append, qLen, consumesQuery, isMatch]
  obtain ⟨lp, rp, hw⟩ := window_canonical f14 R query pos ref [] alts A W1 W2 B 2 ref.length 0 start oh hoh hW1 hW2
    (Or.inr (Or.inl ⟨rfl, rfl, rfl, rfl, hL⟩)) (by omega) hR (by omega) (by omega)
    (by rcases hleft with h | h; left; omega; right; exact h)
    (by rcases hright with h | h; left; omega; right; exact h)
    (by rw [hq2]; exact hq)
  exact ⟨lp, rp, by simpa using hw⟩

/-- `window_is_padded_allele` for an INSERTION carried by the read: REF is empty (normalised), the CIGAR has the I of
the allele's length directly at the variant position, M/=/X runs around it. -/
theorem window_is_padded_allele_insertion (f14 : Bool) (R query : Seq) (pos : Nat) (a : Seq) (alts : List Seq)
    (A W1 W2 B : Cigar) (start oh : Nat) (hoh : 0 < oh) (hL : 0 < a.length)
    (hW1 : W1.all isMatchOp = true) (hW2 : W2.all isMatchOp = true)
    (hpos : pos = start + refLen A + refLen W1)
    (hin : pos + refLen W2 ≤ R.length)
    (hleft : oh ≤ refLen W1 ∨ endsWindow f14 A.reverse = true)
    (hright : oh ≤ refLen W2 ∨ endsWindow f14 B = true)
    (hq : slice query (qLen A) (qLen W1 + (a.length + qLen W2)) =
      slice (hapOf R pos 0 a) (start + refLen A) (qLen W1 + (a.length + qLen W2))) :
    ∃ lp rp, window f14 ⟨pos, [], alts⟩ query (A ++ W1 ++ (1, a.length) :: (W2 ++ B)) (A ++ W1).length 0
        ((qLen (A ++ W1) : Nat) : Int) R oh
      = .ok ⟨lp ++ a ++ rp, (lp ++ rp) :: alts.map (fun x => lp ++ x ++ rp)⟩ := by
  have hr2 : refLen (W1 ++ (1, a.length) :: W2) = refLen W1 + refLen W2 := by
    simp [refLen_append, refLen, consumesRef, isMatch]
  have hq2 : qLen (W1 ++ (1, a.length) :: W2) = qLen W1 + (a.length + qLen W2) := by
    simp [qLen_append, qLen, consumesQuery]
  obtain ⟨lp, rp, hw⟩ := window_canonical f14 R query pos [] a alts A W1 W2 B 1 a.length 0 start oh hoh hW1 hW2
    (Or.inr (Or.inr ⟨rfl, rfl, rfl, rfl, hL⟩)) (by omega) (by simp [slice]) (by simp; omega) (by omega)
    (by rcases hleft with h | h; left; omega; right; exact h)
    (by rcases hright with h | h; left; simp; omega; right; exact h)
    (by rw [hq2]; exact hq)
  exact ⟨lp, rp, by simpa using hw⟩

/-- consequence of the window lemma and `realign_sound_exact`, all variant types, any number of ALT alleles: for such
a read, carrying allele number `h` (all other alleles differ from it, none symbolic), `realign` returns `h`. -/
theorem realign_canonical_correct (f14 : Bool) (R query : Seq) (pos : Nat) (ref a : Seq) (alts : List Seq) (h : Nat)
    (hh : (ref :: alts)[h]? = some a) (hdist : ∀ k b, (ref :: alts)[k]? = some b → k ≠ h → b ≠ a)
    (hsym : ∀ x ∈ alts, x.head? ≠ some '<')
    (A W1 W2 B : Cigar) (op len d start oh : Nat) (hoh : 0 < oh)
    (hW1 : W1.all isMatchOp = true) (hW2 : W2.all isMatchOp = true)
    (hshape : (isMatch op = true ∧ d < len ∧ a.length = ref.length)
      ∨ (op = 2 ∧ a = [] ∧ len = ref.length ∧ d = 0 ∧ 0 < len)
      ∨ (op = 1 ∧ ref = [] ∧ len = a.length ∧ d = 0 ∧ 0 < len))
    (hpos : pos = start + refLen A + refLen W1 + d)
    (hR : slice R pos ref.length = ref)
    (hcov : pos + ref.length ≤ start + refLen A + refLen (W1 ++ (op, len) :: W2))
    (hin : start + refLen A + refLen (W1 ++ (op, len) :: W2) ≤ R.length)
    (hleft : oh ≤ refLen W1 + d ∨ endsWindow f14 A.reverse = true)
    (hright : pos + ref.length + oh ≤ start + refLen A + refLen (W1 ++ (op, len) :: W2) ∨ endsWindow f14 B = true)
    (hq : slice query (qLen A) (qLen (W1 ++ (op, len) :: W2)) =
      slice (hapOf R pos ref.length a) (start + refLen A) (qLen (W1 ++ (op, len) :: W2))) :
    realign f14 lev ⟨pos, ref, alts⟩ none query (A ++ W1 ++ (op, len) :: (W2 ++ B)) (A ++ W1).length d
        ((qLen (A ++ W1) + d : Nat) : Int) R oh = .ok (some h) := by
  obtain ⟨lp, rp, hw⟩ := window_canonical f14 R query pos ref a alts A W1 W2 B op len d start oh hoh hW1 hW2 hshape hpos
    hR hcov hin hleft hright hq
  have hs : isSymbolic ⟨pos, ref, alts⟩ = false := by
    simp only [isSymbolic, List.any_eq_false]
    intro x hx
    simpa using hsym x hx
  apply realign_sound_exact f14 _ query _ _ _ _ R oh _ hs hw h
  · simp only [List.getElem?_map, hh, Option.map_some]
  · intro k pk hk hkh
    simp only [List.getElem?_map, Option.map_eq_some_iff] at hk
    obtain ⟨b, hb, rfl⟩ := hk
    have := hdist k b hb hkh
    simp only [List.append_assoc, ne_eq, List.append_cancel_left_eq, List.append_cancel_right_eq]
    exact this

/-- `realign_indel_correct`: a bi-allelic deletion (`alt = []`) or insertion (`ref = []`) variant, a read carrying
allele `h` in canonical alignment — REF: the variant position lies in an M/=/X block; ALT: the D / I of the right length
directly at the variant position — gets allele `h` from `realign` (with the Levenshtein distance). -/
theorem realign_indel_correct (f14 : Bool) (R query : Seq) (pos : Nat) (ref alt : Seq) (h : Nat)
    (hindel : (alt = [] ∧ 0 < ref.length) ∨ (ref = [] ∧ 0 < alt.length)) (hsym : alt.head? ≠ some '<')
    (A W1 W2 B : Cigar) (op len d start oh : Nat) (hoh : 0 < oh)
    (hW1 : W1.all isMatchOp = true) (hW2 : W2.all isMatchOp = true)
    (hshape : (h = 0 ∧ isMatch op = true ∧ d < len)
      ∨ (h = 1 ∧ alt = [] ∧ op = 2 ∧ len = ref.length ∧ d = 0)
      ∨ (h = 1 ∧ ref = [] ∧ op = 1 ∧ len = alt.length ∧ d = 0))
    (hpos : pos = start + refLen A + refLen W1 + d)
    (hR : slice R pos ref.length = ref)
    (hcov : pos + ref.length ≤ start + refLen A + refLen (W1 ++ (op, len) :: W2))
    (hin : start + refLen A + refLen (W1 ++ (op, len) :: W2) ≤ R.length)
    (hleft : oh ≤ refLen W1 + d ∨ endsWindow f14 A.reverse = true)
    (hright : pos + ref.length + oh ≤ start + refLen A + refLen (W1 ++ (op, len) :: W2) ∨ endsWindow f14 B = true)
    (hq : slice query (qLen A) (qLen (W1 ++ (op, len) :: W2)) =
      slice (hapOf R pos ref.length (if h = 0 then ref else alt)) (start + refLen A) (qLen (W1 ++ (op, len) :: W2))) :
    realign f14 lev ⟨pos, ref, [alt]⟩ none query (A ++ W1 ++ (op, len) :: (W2 ++ B)) (A ++ W1).length d
        ((qLen (A ++ W1) + d : Nat) : Int) R oh = .ok (some h) := by
  have hne : ref ≠ alt := by
    rcases hindel with ⟨rfl, h0⟩ | ⟨rfl, h0⟩
    · intro e; rw [e] at h0; simp at h0
    · intro e; rw [← e] at h0; simp at h0
  have hh2 : h = 0 ∨ h = 1 := by rcases hshape with ⟨e, _⟩ | ⟨e, _⟩ | ⟨e, _⟩ <;> simp [e]
  apply realign_canonical_correct f14 R query pos ref (if h = 0 then ref else alt) [alt] h
    (by rcases hh2 with rfl | rfl <;> simp)
    (by
      intro k b hk hkh
      match k, hk with
      | 0, hk =>
        simp at hk; subst hk
        rcases hh2 with rfl | rfl
        · exact absurd rfl hkh
        · simpa using hne
      | 1, hk =>
        simp at hk; subst hk
        rcases hh2 with rfl | rfl
        · simpa using fun e => hne e.symm
        · exact absurd rfl hkh
      | k + 2, hk => simp at hk)
    (by intro x hx; simp at hx; subst hx; exact hsym)
    A W1 W2 B op len d start oh hoh hW1 hW2
    (by
      rcases hshape with ⟨rfl, hm, hd⟩ | ⟨rfl, rfl, rfl, rfl, rfl⟩ | ⟨rfl, rfl, rfl, rfl, rfl⟩
      · exact Or.inl ⟨hm, hd, by simp⟩
      · refine Or.inr (Or.inl ⟨rfl, by simp, rfl, rfl, ?_⟩)
        rcases hindel with ⟨_, h0⟩ | ⟨e, h0⟩
        · exact h0
        · simp at h0
      · refine Or.inr (Or.inr ⟨rfl, rfl, by simp, rfl, ?_⟩)
        rcases hindel with ⟨e, h0⟩ | ⟨_, h0⟩
        · subst e; simp at h0
        · simpa using h0)
    hpos hR hcov hin hleft hright hq

/-- … and the walker does report exactly that split point when at least one base (the anchor) is matched in the M/=/X
run before the variant position: `i` = index of the operation, `consumed = d`, `query_pos` = query bases before it
(`locate` is the walker's result by `iterateCigar_spec`). -/
theorem walker_split_canonical (A W1 C : Cigar) (op len d pos start : Nat) (hW1 : W1.all isMatchOp = true)
    (hop : (isMatch op = true ∧ d < len) ∨ (op = 2 ∧ d = 0 ∧ 0 < len) ∨ (op = 1 ∧ d = 0))
    (hpos : pos = start + refLen A + refLen W1 + d) (hanch : 0 < refLen W1 + d) :
    locate pos 0 start 0 (A ++ W1 ++ (op, len) :: C) = some ((A ++ W1).length, d, qLen (A ++ W1) + d) :=
  locate_canonical A W1 C op len d pos start hW1 hop hpos hanch

/-! ### non-vacuity of the indel window theorems -/

section NonVacuityIndel
/-- reference `GGACTGTT`; deletion `CT>ε` at 3; insertion `ε>TT` at 3 -/
private def Rg : Seq := ['G', 'G', 'A', 'C', 'T', 'G', 'T', 'T']

/-- a read carrying the deletion, `2S 3M 2D 3M` at 0 -/
example : realign true lev ⟨3, ['C', 'T'], [[]]⟩ none ['T', 'T', 'G', 'G', 'A', 'G', 'T', 'T']
    ([(4, 2)] ++ [(0, 3)] ++ (2, 2) :: ([(0, 3)] ++ [])) ([(4, 2)] ++ [(0, 3)]).length 0
    ((qLen ([(4, 2)] ++ [(0, 3)]) + 0 : Nat) : Int) Rg 2 = .ok (some 1) :=
  realign_indel_correct true Rg _ 3 ['C', 'T'] [] 1 (Or.inl ⟨rfl, by decide⟩) (by decide)
    [(4, 2)] [(0, 3)] [(0, 3)] [] 2 2 0 0 2 (by decide) (by decide) (by decide)
    (Or.inr (Or.inl ⟨rfl, rfl, rfl, rfl, rfl⟩)) (by decide) (by decide) (by decide) (by decide)
    (Or.inl (by decide)) (Or.inl (by decide)) (by decide)

/-- a read carrying REF of that deletion, starting one base before it (`6M` at 2: left pad truncated to 1 base) -/
example : realign true lev ⟨3, ['C', 'T'], [[]]⟩ none ['A', 'C', 'T', 'G', 'T', 'T']
    ([] ++ [] ++ (0, 6) :: ([] ++ [])) (([] : Cigar) ++ []).length 1
    ((qLen (([] : Cigar) ++ []) + 1 : Nat) : Int) Rg 2 = .ok (some 0) :=
  realign_indel_correct true Rg _ 3 ['C', 'T'] [] 0 (Or.inl ⟨rfl, by decide⟩) (by decide)
    [] [] [] [] 0 6 1 2 2 (by decide) (by decide) (by decide)
    (Or.inl ⟨rfl, rfl, by decide⟩) (by decide) (by decide) (by decide) (by decide)
    (Or.inr (by decide)) (Or.inl (by decide)) (by decide)

/-- a read carrying the insertion, `3M 2I 2M 1H` at 0 -/
example : realign true lev ⟨3, [], [['T', 'T']]⟩ none ['G', 'G', 'A', 'T', 'T', 'C', 'T']
    ([] ++ [(0, 3)] ++ (1, 2) :: ([(0, 2)] ++ [(5, 1)])) (([] : Cigar) ++ [(0, 3)]).length 0
    ((qLen (([] : Cigar) ++ [(0, 3)]) + 0 : Nat) : Int) Rg 2 = .ok (some 1) :=
  realign_indel_correct true Rg _ 3 [] ['T', 'T'] 1 (Or.inr ⟨rfl, by decide⟩) (by decide)
    [] [(0, 3)] [(0, 2)] [(5, 1)] 1 2 0 0 2 (by decide) (by decide) (by decide)
    (Or.inr (Or.inr ⟨rfl, rfl, rfl, rfl, rfl⟩)) (by decide) (by decide) (by decide) (by decide)
    (Or.inl (by decide)) (Or.inl (by decide)) (by decide)

/-- the deletion read `3M 2D 1M 5N 4M`: the window is cut at the reference skip (repaired `cigar_prefix_length`) -/
example : realign true lev ⟨3, ['C', 'T'], [[]]⟩ none ['G', 'G', 'A', 'G', 'A', 'A', 'A', 'A']
    ([] ++ [(0, 3)] ++ (2, 2) :: ([(0, 1)] ++ [(3, 5), (0, 4)])) (([] : Cigar) ++ [(0, 3)]).length 0
    ((qLen (([] : Cigar) ++ [(0, 3)]) + 0 : Nat) : Int) Rg 2 = .ok (some 1) :=
  realign_indel_correct true Rg _ 3 ['C', 'T'] [] 1 (Or.inl ⟨rfl, by decide⟩) (by decide)
    [] [(0, 3)] [(0, 1)] [(3, 5), (0, 4)] 2 2 0 0 2 (by decide) (by decide) (by decide)
    (Or.inr (Or.inl ⟨rfl, rfl, rfl, rfl, rfl⟩)) (by decide) (by decide) (by decide) (by decide)
    (Or.inl (by decide)) (Or.inr (by decide)) (by decide)

/-- only clips up to the read end is a special case of `endsWindow` (the hypothesis of the SNV/MNP theorem) -/
example (f14 : Bool) (X : Cigar) (h : X.all isClip = true) : endsWindow f14 X = true := endsWindow_of_clips f14 X h

/-- the windows of the deletion read (`= X =` blocks on the left, read end after 1 base on the right) and of the
insertion read -/
example : ∃ lp rp, window true ⟨3, ['C', 'T'], [[]]⟩ ['G', 'G', 'A', 'G'] ([] ++ [(7, 1), (8, 1), (7, 1)] ++ (2, 2) :: ([(0, 1)] ++ [(4, 0)]))
      (([] : Cigar) ++ [(7, 1), (8, 1), (7, 1)]).length 0 ((qLen (([] : Cigar) ++ [(7, 1), (8, 1), (7, 1)]) : Nat) : Int) Rg 2
    = .ok ⟨lp ++ rp, (['C', 'T'] :: [[]]).map (fun x => lp ++ x ++ rp)⟩ :=
  window_is_padded_allele_deletion true Rg _ 3 ['C', 'T'] [[]] [] [(7, 1), (8, 1), (7, 1)] [(0, 1)] [(4, 0)] 0 2 (by decide)
    (by decide) (by decide) (by decide) (by decide) (by decide) (by decide) (Or.inl (by decide)) (Or.inr (by decide)) (by decide)

example : ∃ lp rp, window true ⟨3, [], [['T', 'T']]⟩ ['G', 'G', 'A', 'T', 'T', 'C', 'T'] ([] ++ [(0, 3)] ++ (1, ['T', 'T'].length) :: ([(0, 2)] ++ []))
      (([] : Cigar) ++ [(0, 3)]).length 0 ((qLen (([] : Cigar) ++ [(0, 3)]) : Nat) : Int) Rg 2
    = .ok ⟨lp ++ ['T', 'T'] ++ rp, (lp ++ rp) :: [['T', 'T']].map (fun x => lp ++ x ++ rp)⟩ :=
  window_is_padded_allele_insertion true Rg _ 3 ['T', 'T'] [['T', 'T']] [] [(0, 3)] [(0, 2)] [] 0 2 (by decide)
    (by decide) (by decide) (by decide) (by decide) (by decide) (Or.inl (by decide)) (Or.inl (by decide)) (by decide)

/-- the walker's split points on those reads -/
example : locate 3 0 0 0 ([(4, 2)] ++ [(0, 3)] ++ (2, 2) :: [(0, 3)]) = some (2, 0, 5) :=
  walker_split_canonical [(4, 2)] [(0, 3)] [(0, 3)] 2 2 0 3 0 (by decide) (Or.inr (Or.inl ⟨rfl, rfl, by decide⟩)) (by decide)
    (by decide)
example : (iterateCigar [3] 0 0 [(4, 2), (0, 3), (2, 2), (0, 3)]).1 = [⟨0, 2, 0, 5⟩]
    ∧ (iterateCigar [3] 0 0 [(0, 3), (1, 2), (0, 2), (5, 1)]).1 = [⟨0, 1, 0, 3⟩] := by decide
end NonVacuityIndel

/-! ## `noref_unshiftable_indel_correct` — the no-reference detector on an isolated deletion / insertion -/

/-- `noref_unshiftable_indel_correct` (repaired behaviour: `f13`, `f16` on; `f12`, `f14`, `f15` arbitrary).  One isolated
variant `v` whose normalisation is the deletion `ref > ε` or the insertion `ε > alt` at `pos`; a read (any query
qualities) whose CIGAR is `A ++ [(mop, m)] ++ …` with `A` arbitrary over the operators 0–8 (clips, skips, unrelated
indels, …) ending before the anchor base, `mop` ∈ {M, =, X}, and
* `h = 0`: the block `(mop, m)` contains the anchor base and the whole variant (for an insertion: the base on either
  side), and — for a deletion — the read's bases there are REF;
* `h = 1`, deletion: the block ends with the anchor base and is followed by the D of length `|ref|`;
* `h = 1`, insertion: the block ends with the anchor base and is followed by the I of length `|alt|` whose query bases
  are `alt`;
`B` (what follows) arbitrary over the operators 0–8.  Then the detector raises no error and records exactly the carried
allele `h` for the variant — quality: mean base quality of the matched REF bases of a deletion, else 30. -/
theorem noref_unshiftable_indel_correct (fx : Fixes) (h13 : fx.f13 = true) (h16 : fx.f16 = true)
    (v : Variant) (pos : Nat) (ref alt : Seq) (hnorm : normalize v = ⟨pos, ref, [alt]⟩)
    (hindel : (alt = [] ∧ 0 < ref.length) ∨ (ref = [] ∧ 0 < alt.length))
    (start : Nat) (A B : Cigar) (mop m : Nat) (cigar : Cigar) (query : Seq) (quals : Option (List Nat)) (h : Nat)
    (hA : ∀ p ∈ A, p.1 ≤ 8) (hB : ∀ p ∈ B, p.1 ≤ 8) (hm : isMatch mop = true)
    (hquals : ∀ l, quals = some l → l.length = query.length)
    (hanchor : start + refLen A < pos)
    (hshape :
      (h = 0 ∧ cigar = A ++ (mop, m) :: B ∧ pos < start + refLen A + m ∧ pos + ref.length ≤ start + refLen A + m
        ∧ slice query (qLen A + (pos - (start + refLen A))) ref.length = ref)
      ∨ (h = 1 ∧ alt = [] ∧ cigar = A ++ (mop, m) :: (2, ref.length) :: B ∧ start + refLen A + m = pos)
      ∨ (h = 1 ∧ ref = [] ∧ cigar = A ++ (mop, m) :: (1, alt.length) :: B ∧ start + refLen A + m = pos
        ∧ slice query (qLen A + m) alt.length = alt)) :
    detectNoRef fx [v] 0 start cigar query quals =
      ([(0, h, indelQuality quals h ref (qLen A + (pos - (start + refLen A))))], none) := by
  rw [detectNoRef_single fx v _ hnorm start (by simp only []; omega)]
  have hcr : consumesRef mop = true := by simp [consumesRef, hm]
  have hcq : consumesQuery mop = true := by simp [consumesQuery, hm]
  rcases hshape with ⟨rfl, rfl, hlt, hcov, href⟩ | ⟨rfl, rfl, rfl, hend⟩ | ⟨rfl, rfl, rfl, hend, hins⟩
  · -- REF
    obtain ⟨an, hs⟩ := noRefGo_skip fx h16 query quals 0 ⟨pos, ref, [alt]⟩ A ((mop, m) :: B) hA false start 0 hanchor
    rw [hs]
    rcases hindel with ⟨rfl, hL⟩ | ⟨rfl, hL⟩
    · rw [noRefGo_del_ref fx h13 query quals an (start + refLen A) (0 + qLen A) 0 pos ref mop m B hm hL (by omega) hcov
        (by simpa using href) hquals hB]
      simp [indelQuality, hL]
    · rw [noRefGo_ins_ref fx query quals an (start + refLen A) (0 + qLen A) 0 pos alt mop m B hm hL hanchor hlt hB]
      simp [indelQuality]
  · -- ALT, deletion
    have hL : 0 < ref.length := by
      rcases hindel with ⟨_, hL⟩ | ⟨e, hL⟩
      · exact hL
      · simp at hL
    obtain ⟨an, hs⟩ := noRefGo_skip fx h16 query quals 0 ⟨pos, ref, [[]]⟩ A ((mop, m) :: (2, ref.length) :: B) hA false
      start 0 hanchor
    obtain ⟨an2, hs2⟩ := noRefGo_step_skip fx h16 query quals an (start + refLen A) (0 + qLen A) 0 ⟨pos, ref, [[]]⟩ mop m
      ((2, ref.length) :: B) (by have := isMatch_le8 mop hm; exact this) (by simp only [hcr, if_true]; omega)
      (by intro e; subst e; simp [isMatch] at hm)
    have e : start + refLen A + (if consumesRef mop = true then m else 0) = pos := by simp only [hcr, if_true]; exact hend
    rw [hs, hs2, e, noRefGo_del_alt fx query quals an2 _ 0 pos ref B hL hB]
    simp [indelQuality]
  · -- ALT, insertion
    have hL : 0 < alt.length := by
      rcases hindel with ⟨e, hL⟩ | ⟨_, hL⟩
      · subst e; simp at hL
      · exact hL
    obtain ⟨an, hs⟩ := noRefGo_skip fx h16 query quals 0 ⟨pos, [], [alt]⟩ A ((mop, m) :: (1, alt.length) :: B) hA false
      start 0 hanchor
    obtain ⟨an2, hs2⟩ := noRefGo_step_skip fx h16 query quals an (start + refLen A) (0 + qLen A) 0 ⟨pos, [], [alt]⟩ mop m
      ((1, alt.length) :: B) (isMatch_le8 mop hm) (by simp only [hcr, if_true]; omega)
      (by intro e; subst e; simp [isMatch] at hm)
    have e : start + refLen A + (if consumesRef mop = true then m else 0) = pos := by simp only [hcr, if_true]; exact hend
    rw [hs, hs2, e, noRefGo_ins_alt fx h16 query quals an2 _ 0 pos alt B hL (by simpa [hcq] using hins) hB]
    simp [indelQuality]

/-- "unshiftable": a VCF deletion `a·del > a` / insertion `a > a·ins` whose last deleted / inserted base differs from the
anchor base `a` (so it cannot be moved to the left) is normalised to the position right after the anchor — the position
at which `noref_unshiftable_indel_correct` expects the D / I. -/
theorem normalize_unshiftable_indel (p : Nat) (a : Char) (s : Seq) (hne : s ≠ []) (hun : s.getLast? ≠ some a) :
    normalize ⟨p, a :: s, [[a]]⟩ = ⟨p + 1, s, [[]]⟩ ∧ normalize ⟨p, [a], [a :: s]⟩ = ⟨p + 1, [], [s]⟩ :=
  ⟨normalize_vcf_deletion p a s hne hun, normalize_vcf_insertion p a s hne hun⟩

section NonVacuityNoRefIndel
/-- deletion `ACT>A` at 2 (normalised `CT>ε` at 3), read `2S 3M 2D 3M` at 0 carrying it; qualities present -/
example : detectNoRef Fixes.all [⟨2, ['A', 'C', 'T'], [['A']]⟩] 0 0 ([(4, 2)] ++ (0, 3) :: (2, ['C', 'T'].length) :: [(0, 3)])
      ['T', 'T', 'G', 'G', 'A', 'G', 'T', 'T'] (some [9, 9, 20, 21, 22, 23, 24, 25])
    = ([(0, 1, indelQuality (some [9, 9, 20, 21, 22, 23, 24, 25]) 1 ['C', 'T'] (qLen [(4, 2)] + (3 - (0 + refLen [(4, 2)]))))], none) :=
  noref_unshiftable_indel_correct Fixes.all rfl rfl _ 3 ['C', 'T'] [] (by decide) (Or.inl ⟨rfl, by decide⟩) 0 [(4, 2)] [(0, 3)] 0 3 _ _ _ 1
    (by decide) (by decide) rfl (by simp) (by decide) (Or.inr (Or.inl ⟨rfl, rfl, rfl, by decide⟩))

/-- the same variant, a read carrying REF (`1I 7M` at 1): mean quality of the bases `C`, `T` -/
example : detectNoRef Fixes.all [⟨2, ['A', 'C', 'T'], [['A']]⟩] 0 1 ([(1, 1)] ++ (7, 7) :: [])
      ['T', 'G', 'A', 'C', 'T', 'G', 'T', 'T'] (some [9, 20, 21, 22, 25, 23, 24, 25])
    = ([(0, 0, indelQuality (some [9, 20, 21, 22, 25, 23, 24, 25]) 0 ['C', 'T'] (qLen [(1, 1)] + (3 - (1 + refLen [(1, 1)]))))], none) :=
  noref_unshiftable_indel_correct Fixes.all rfl rfl _ 3 ['C', 'T'] [] (by decide) (Or.inl ⟨rfl, by decide⟩) 1 [(1, 1)] [] 7 7 _ _ _ 0
    (by decide) (by decide) rfl (by simp) (by decide) (Or.inl ⟨rfl, rfl, by decide, by decide, by decide⟩)
example : indelQuality (some [9, 20, 21, 22, 25, 23, 24, 25]) 0 ['C', 'T'] (qLen [(1, 1)] + (3 - (1 + refLen [(1, 1)]))) = 23 := by
  decide

/-- insertion `A>ATT` at 2 (normalised `ε>TT` at 3): a read with the I (`3M 2I 2M 1H`), and a read matching through -/
example : detectNoRef Fixes.all [⟨2, ['A'], [['A', 'T', 'T']]⟩] 0 0 ([] ++ (0, 3) :: (1, ['T', 'T'].length) :: [(0, 2), (5, 1)])
      ['G', 'G', 'A', 'T', 'T', 'C', 'T'] none
    = ([(0, 1, indelQuality none 1 [] (qLen [] + (3 - (0 + refLen []))))], none) :=
  noref_unshiftable_indel_correct Fixes.all rfl rfl _ 3 [] ['T', 'T'] (by decide) (Or.inr ⟨rfl, by decide⟩) 0 [] [(0, 2), (5, 1)] 0 3 _ _
    _ 1 (by decide) (by decide) rfl (by simp) (by decide) (Or.inr (Or.inr ⟨rfl, rfl, rfl, by decide, by decide⟩))

example : detectNoRef Fixes.all [⟨2, ['A'], [['A', 'T', 'T']]⟩] 0 0 ([] ++ (0, 8) :: [])
      ['G', 'G', 'A', 'C', 'T', 'G', 'T', 'T'] none
    = ([(0, 0, indelQuality none 0 [] (qLen [] + (3 - (0 + refLen []))))], none) :=
  noref_unshiftable_indel_correct Fixes.all rfl rfl _ 3 [] ['T', 'T'] (by decide) (Or.inr ⟨rfl, by decide⟩) 0 [] [] 0 8 _ _
    _ 0 (by decide) (by decide) rfl (by simp) (by decide) (Or.inl ⟨rfl, rfl, by decide, by decide, by decide⟩)

example : normalize ⟨2, 'A' :: ['C', 'T'], [['A']]⟩ = ⟨2 + 1, ['C', 'T'], [[]]⟩
    ∧ normalize ⟨2, ['A'], ['A' :: ['C', 'T']]⟩ = ⟨2 + 1, [], [['C', 'T']]⟩ :=
  normalize_unshiftable_indel 2 'A' ['C', 'T'] (by decide) (by decide)
end NonVacuityNoRefIndel

/-! ## re-alignment with affine gap costs (`--affine-gap`) -/

/-- DP correctness: the three-table Gotoh DP of `edit_distance_affine_gap` (without its prefix/suffix shortcut) computes
the minimum cost over ALL alignments of the query (bases with their mismatch costs) and the other sequence, for every
gap-start / gap-extend cost — `affineSpec` enumerates the alignments column by column (`alisR`) and prices each
(`costR`: mismatch cost of the query base; a gap column costs `ge` directly after a gap column of the same kind, else
`gs`). -/
theorem affineDP_is_min_over_alignments (gs ge : Nat) (q : QSeq) (r : List Char) :
    affineDP gs ge q r = affineSpec gs ge q r :=
  affineDP_eq_affineSpec gs ge q r

/-- … spelt out: the value is attained by an alignment and is a lower bound for every alignment -/
theorem affineDP_attained_and_minimal (gs ge : Nat) (q : QSeq) (r : List Char) :
    (∃ cs ∈ alisR q.reverse r.reverse, costR gs ge cs q.reverse r.reverse = affineDP gs ge q r) ∧
    (∀ cs ∈ alisR q.reverse r.reverse, affineDP gs ge q r ≤ costR gs ge cs q.reverse r.reverse) := by
  rw [affineDP_eq_T]
  obtain ⟨t, ht⟩ := T_best_some gs ge q.reverse r.reverse
  rw [ht]
  exact ⟨T_best_attained gs ge _ _ t ht, fun cs hcs => T_best_le gs ge _ _ cs hcs t ht⟩

/-- DP correctness of the whole function: `edit_distance_affine_gap` — identical prefixes and suffixes skipped, then the
three-table DP — is the minimum cost over ALL alignments whenever extending a gap is not dearer than starting one
(`gap_extend ≤ gap_start`; defaults 7 ≤ 10).  (Equal end bases can be aligned to each other without loss: exchange
argument on the recurrences, `Tg_best_cons_same`; the front of the strings by the reversal symmetry of the cost,
`affineSpec_reverse`.)  For `gap_extend > gap_start` the shortcut is NOT minimal: see the example below. -/
theorem editDistanceAffine_is_min_over_alignments (gs ge : Nat) (hge : ge ≤ gs) (q : QSeq) (r : List Char) :
    editDistanceAffine gs ge q r = affineSpec gs ge q r :=
  editDistanceAffine_eq_affineSpec gs ge hge q r

/-- reversing both sequences does not change the minimum alignment cost -/
theorem affineSpec_reverse_invariant (gs ge : Nat) (q : QSeq) (r : List Char) :
    affineSpec gs ge q.reverse r.reverse = affineSpec gs ge q r :=
  affineSpec_reverse gs ge q r

/-- `edit_distance_affine_gap` (with the shortcut) is 0 exactly for a query equal to the other sequence, when the gap
start cost and all mismatch costs are positive (the defaults: 10 and 15) -/
theorem editDistanceAffine_zero_iff (gs ge : Nat) (hgs : 0 < gs) (q : QSeq) (r : List Char) (hmm : ∀ x ∈ q, 0 < x.2) :
    editDistanceAffine gs ge q r = 0 ↔ q.map Prod.fst = r := by
  constructor
  · exact editDistanceAffine_eq_zero gs ge hgs q r hmm
  · intro h; subst h; exact editDistanceAffine_self gs ge q

/-- `realign_sound_exact` for the affine branch: a window whose query IS padded allele `h` and differs from every other
padded allele is assigned `h` (distance 0 against a positive distance) -/
theorem realign_affine_sound_exact (f14 : Bool) (p : AffineCfg) (hgs : 0 < p.gs) (hmm : 0 < p.mm) (v : Variant)
    (query : Seq) (cigar : Cigar) (i consumed : Nat) (qp : Int) (reference : Seq) (oh : Nat) (w : Window)
    (hsym : isSymbolic v = false) (hw : window f14 v query cigar i consumed qp reference oh = .ok w)
    (h : Nat) (hh : w.padded[h]? = some w.query)
    (hne : ∀ k pk, w.padded[k]? = some pk → k ≠ h → pk ≠ w.query) :
    realign f14 (affineDist p) v none query cigar i consumed qp reference oh = .ok (some h) := by
  apply realign_sound_strict f14 (affineDist p) v query cigar i consumed qp reference oh w hsym hw h w.query hh
  intro k pk hk hkh
  rw [affineDist_self]
  exact affineDist_pos_of_ne p hgs hmm _ _ (fun e => hne k pk hk hkh e.symm)

/-- the affine analogue of `realign_canonical_correct`: an error-free read in canonical alignment over an isolated
variant (all variant types, any number of ALT alleles, windows cut by the read end or an N) gets the carried allele
from the affine re-alignment: cost 0 for the carried allele, a positive cost for every other one -/
theorem realign_affine_canonical_correct (f14 : Bool) (p : AffineCfg) (hgs : 0 < p.gs) (hmm : 0 < p.mm)
    (R query : Seq) (pos : Nat) (ref a : Seq) (alts : List Seq) (h : Nat)
    (hh : (ref :: alts)[h]? = some a) (hdist : ∀ k b, (ref :: alts)[k]? = some b → k ≠ h → b ≠ a)
    (hsym : ∀ x ∈ alts, x.head? ≠ some '<')
    (A W1 W2 B : Cigar) (op len d start oh : Nat) (hoh : 0 < oh)
    (hW1 : W1.all isMatchOp = true) (hW2 : W2.all isMatchOp = true)
    (hshape : (isMatch op = true ∧ d < len ∧ a.length = ref.length)
      ∨ (op = 2 ∧ a = [] ∧ len = ref.length ∧ d = 0 ∧ 0 < len)
      ∨ (op = 1 ∧ ref = [] ∧ len = a.length ∧ d = 0 ∧ 0 < len))
    (hpos : pos = start + refLen A + refLen W1 + d)
    (hR : slice R pos ref.length = ref)
    (hcov : pos + ref.length ≤ start + refLen A + refLen (W1 ++ (op, len) :: W2))
    (hin : start + refLen A + refLen (W1 ++ (op, len) :: W2) ≤ R.length)
    (hleft : oh ≤ refLen W1 + d ∨ endsWindow f14 A.reverse = true)
    (hright : pos + ref.length + oh ≤ start + refLen A + refLen (W1 ++ (op, len) :: W2) ∨ endsWindow f14 B = true)
    (hq : slice query (qLen A) (qLen (W1 ++ (op, len) :: W2)) =
      slice (hapOf R pos ref.length a) (start + refLen A) (qLen (W1 ++ (op, len) :: W2))) :
    realign f14 (affineDist p) ⟨pos, ref, alts⟩ none query (A ++ W1 ++ (op, len) :: (W2 ++ B)) (A ++ W1).length d
        ((qLen (A ++ W1) + d : Nat) : Int) R oh = .ok (some h) := by
  obtain ⟨lp, rp, hw⟩ := window_canonical f14 R query pos ref a alts A W1 W2 B op len d start oh hoh hW1 hW2 hshape hpos
    hR hcov hin hleft hright hq
  have hs : isSymbolic ⟨pos, ref, alts⟩ = false := by
    simp only [isSymbolic, List.any_eq_false]
    intro x hx
    simpa using hsym x hx
  apply realign_affine_sound_exact f14 p hgs hmm _ query _ _ _ _ R oh _ hs hw h
  · simp only [List.getElem?_map, hh, Option.map_some]
  · intro k pk hk hkh
    simp only [List.getElem?_map, Option.map_eq_some_iff] at hk
    obtain ⟨b, hb, rfl⟩ := hk
    have := hdist k b hb hkh
    simp only [List.append_assoc, ne_eq, List.append_cancel_left_eq, List.append_cancel_right_eq]
    exact this

/-- the allele of `realign` with qualities (`realignQ`, both branches) is the allele of `realign` with the branch's
distance — so every `realign_sound_*` theorem speaks about `realignQ` too -/
theorem realignQ_allele (f14 : Bool) (aff : Option AffineCfg) (v : Variant) (r : Option (List Nat)) (query : Seq)
    (cigar : Cigar) (i consumed : Nat) (qp : Int) (reference : Seq) (oh : Nat) :
    (realignQ f14 aff v r query cigar i consumed qp reference oh).map (·.map Prod.fst)
      = realign f14 (distOf aff) v r query cigar i consumed qp reference oh := by
  unfold realignQ realign
  by_cases hs : isSymbolic v = true
  · simp [hs, Except.map]
  · simp only [hs, if_false, Bool.false_eq_true]
    cases hw : window f14 v query cigar i consumed qp reference oh with
    | error e => rfl
    | ok w =>
      simp only
      cases hd : decideAllele (distances (distOf aff) r w) with
      | error e => rfl
      | ok o => cases o <;> rfl

/-- the quality of the affine branch, as coded: whenever an allele is decided among at least two compared alleles, the
recorded quality `distances[0][1] - distances[1][1]` (after sorting) is NEGATIVE (finding F42: the sign is reversed) -/
theorem realignQ_affine_quality_negative (f14 : Bool) (p : AffineCfg) (v : Variant) (r : Option (List Nat)) (query : Seq)
    (cigar : Cigar) (i consumed : Nat) (qp : Int) (reference : Seq) (oh : Nat) (w : Window) (a : Nat) (ql : Int)
    (hfs : p.fixSign = false)
    (hw : window f14 v query cigar i consumed qp reference oh = .ok w)
    (h2 : 2 ≤ (distances (affineDist p) r w).length)
    (h : realignQ f14 (some p) v r query cigar i consumed qp reference oh = .ok (some (a, ql))) : ql < 0 := by
  unfold realignQ at h
  split at h
  · cases h
  · rw [hw] at h
    simp only [distOf] at h
    have hlen : (sortDist (distances (affineDist p) r w)).length = (distances (affineDist p) r w).length :=
      (sortDist_perm _).length_eq
    unfold decideAllele at h
    generalize sortDist (distances (affineDist p) r w) = sd at h hlen
    match sd, hlen with
    | [], hl => simp at hl; omega
    | [x], hl => simp at hl; omega
    | x :: y :: rest, _ =>
      by_cases hlt : x.2 < y.2
      · simp only [hlt, if_true, qualityOf, hfs, Except.ok.injEq, Option.some.injEq, Prod.mk.injEq] at h
        simp at h
        omega
      · simp [hlt] at h

/-! ### non-vacuity (affine) -/

section NonVacuityAffine
/-- reference `GGACTGTT`; deletion `CT>ε` at 3 -/
private def Rh : Seq := ['G', 'G', 'A', 'C', 'T', 'G', 'T', 'T']

example : affineDP 10 7 [('A', 15), ('C', 15), ('G', 15)] ['A', 'G'] = 10 ∧
    affineSpec 10 7 [('A', 15), ('C', 15), ('G', 15)] ['A', 'G'] = 10 := by
  constructor
  · simp [affineDP, dpCols, nextCol, colGo, initCol, initGo, Cell.best, cmin3, cmin, cadd, gapCost]
  · rw [← affineDP_is_min_over_alignments]
    simp [affineDP, dpCols, nextCol, colGo, initCol, initGo, Cell.best, cmin3, cmin, cadd, gapCost]

/-- the shortcut is NOT sound when extending a gap is dearer than starting one (`gs = 1`, `ge = 5`): `A` against `AAA`
is 2 (`-A-`), the code skips the common prefix first and returns 6 -/
example : editDistanceAffine 1 5 [('A', 1)] ['A', 'A', 'A'] = 6 ∧ affineDP 1 5 [('A', 1)] ['A', 'A', 'A'] = 2 := by
  constructor <;>
    simp [editDistanceAffine, stripPre, stripSuf, affineDP, dpCols, nextCol, colGo, initCol, initGo, Cell.best, cmin3,
      cmin, cadd, gapCost]

example : editDistanceAffine 10 7 [('A', 15), ('C', 15), ('G', 15), ('A', 15)] ['A', 'G', 'A'] = 10 ∧
    affineSpec 10 7 [('A', 15), ('C', 15), ('G', 15), ('A', 15)] ['A', 'G', 'A'] = 10 := by
  have h := editDistanceAffine_is_min_over_alignments 10 7 (by decide) [('A', 15), ('C', 15), ('G', 15), ('A', 15)] ['A', 'G', 'A']
  have h1 : editDistanceAffine 10 7 [('A', 15), ('C', 15), ('G', 15), ('A', 15)] ['A', 'G', 'A'] = 10 := by
    simp [editDistanceAffine, stripPre, stripSuf, affineDP, dpCols, nextCol, colGo, initCol, initGo, Cell.best, cmin3, cmin,
      cadd, gapCost]
  exact ⟨h1, by rw [← h, h1]⟩

example : editDistanceAffine 10 7 [('A', 15), ('C', 15)] ['A', 'C'] = 0 :=
  (editDistanceAffine_zero_iff 10 7 (by decide) _ _ (by decide)).2 rfl

/-- a read carrying the deletion, `2S 3M 2D 3M` at 0, default affine costs -/
example : realign true (affineDist ⟨10, 7, 15, false⟩) ⟨3, ['C', 'T'], [[]]⟩ none ['T', 'T', 'G', 'G', 'A', 'G', 'T', 'T']
    ([(4, 2)] ++ [(0, 3)] ++ (2, 2) :: ([(0, 3)] ++ [])) ([(4, 2)] ++ [(0, 3)]).length 0
    ((qLen ([(4, 2)] ++ [(0, 3)]) + 0 : Nat) : Int) Rh 2 = .ok (some 1) :=
  realign_affine_canonical_correct true ⟨10, 7, 15, false⟩ (by decide) (by decide) Rh _ 3 ['C', 'T'] [] [[]] 1 rfl
    (by intro k b hk hkh; match k, hk with
      | 0, hk => simp at hk; subst hk; decide
      | 1, _ => exact absurd rfl hkh
      | k + 2, hk => simp at hk)
    (by decide) [(4, 2)] [(0, 3)] [(0, 3)] [] 2 2 0 0 2 (by decide) (by decide) (by decide)
    (Or.inr (Or.inl ⟨rfl, rfl, rfl, rfl, by decide⟩)) (by decide) (by decide) (by decide) (by decide)
    (Or.inl (by decide)) (Or.inl (by decide)) (by decide)
end NonVacuityAffine

/-! ## which alignments reach detection (`_usable_alignments`, `SampleBamReader.fetch`) and what a read is made of -/

/-- a primary alignment (not supplementary, not secondary, not flagged unmapped or duplicate) with mapping quality at
least the threshold passes the filter of `_usable_alignments` (as the code is: `skipNoSeq = false`) -/
theorem usable_primary_never_filtered (cfg : ReadCfg) (a : Aln) (hns : cfg.skipNoSeq = false)
    (hsupp : a.supplementary = false) (hsec : a.secondary = false) (hunm : a.unmapped = false)
    (hdup : a.duplicate = false) (hmq : cfg.mapqThreshold ≤ a.mapq) : usable cfg a = true := by
  rw [usable_iff]; simp [hsupp, hsec, hunm, hdup, hmq, hns]

/-- … and is delivered by `_usable_alignments` (one BAM, no regions): with `--ignore-read-groups` (`sample = none`)
always, else when its RG tag is one of the sample's read groups -/
theorem usable_stream_keeps_primary (cfg : ReadCfg) (s : Source) (sample : Option String) (a : Aln) (ha : a ∈ s.alns)
    (hus : usable cfg a = true)
    (hsm : sample = none ∨ ∃ sm ids g, sample = some sm ∧ s.groupsOf sm = some ids ∧ a.rg = some g ∧ ids.contains g = true) :
    Except.ok a ∈ usableStream cfg [s] sample none := by
  simp only [usableStream, Option.getD_none, usableGo, List.append_nil, mem_usableOfRegion, List.any_nil, fetchAll, hus,
    and_true, true_and]
  rcases hsm with rfl | ⟨sm, ids, g, rfl, hg, hrg, hc⟩
  · simp only [fetchSource, List.mem_map]
    exact ⟨a, List.mem_filter.2 ⟨ha, overlapsRegion_all a⟩, rfl⟩
  · simp only [fetchSource, hg, List.mem_filterMap]
    have hgm : g ∈ ids := by simpa using hc
    exact ⟨a, List.mem_filter.2 ⟨ha, overlapsRegion_all a⟩, by simp [rgTest, hrg, hgm]⟩

/-- the filter is an order-preserving selection: what reaches detection (one BAM, any one region) is a sublist of the
file's alignments -/
theorem usable_stream_sublist (cfg : ReadCfg) (s : Source) (sample : Option String) (r : Region) :
    (oks (usableStream cfg [s] sample (some [r]))).Sublist s.alns := by
  simp only [usableStream, Option.getD_some, usableGo, List.append_nil, fetchAll]
  exact List.Sublist.trans (oks_filter_sublist _ _) (fetchSource_sublist _ s sample r)

/-- every alignment that reaches detection — any number of BAM files, any regions — has passed the filter: it is not
secondary, not flagged unmapped, a duplicate only with `duplicates`, supplementary only with `use_supplementary`, and
its mapping quality is at least the threshold -/
theorem usable_stream_flags (cfg : ReadCfg) (sources : List Source) (sample : Option String)
    (regions : Option (List Region)) (a : Aln) (h : Except.ok a ∈ usableStream cfg sources sample regions) :
    a.secondary = false ∧ a.unmapped = false ∧ (a.duplicate = true → cfg.duplicates = true) ∧
    (a.supplementary = true → cfg.useSupplementary = true) ∧ cfg.mapqThreshold ≤ a.mapq := by
  have := (usable_iff cfg a).1 (mem_usableGo cfg sources sample [] _ a h)
  exact ⟨this.2.2.1, this.2.2.2.1, this.2.2.2.2.1, this.1, this.2.1⟩

/-- the filter is idempotent: run on its own output (one BAM, no regions, no error) it delivers the same alignments -/
theorem usable_stream_idempotent (cfg : ReadCfg) (s : Source) (sample : Option String)
    (hne : firstError (usableStream cfg [s] sample none) = none) :
    usableStream cfg [{ s with alns := oks (usableStream cfg [s] sample none) }] sample none
      = usableStream cfg [s] sample none := by
  have hall : ∀ (l : List (Except RErr Aln)), firstError l = none → l = (oks l).map .ok := by
    intro l
    induction l with
    | nil => intro _; rfl
    | cons x l ih =>
      intro h
      cases x with
      | error e => simp [firstError] at h
      | ok b => simp only [firstError] at h; simp only [oks, List.map_cons]; rw [← ih h]
  have hst := hall _ hne
  generalize hS : usableStream cfg [s] sample none = st at hst hne
  have hmem : ∀ a ∈ oks st, Except.ok a ∈ usableStream cfg [s] sample none := by
    intro a ha; rw [hS]; exact (mem_oks _ _).1 ha
  simp only [usableStream, Option.getD_none, usableGo, List.append_nil, fetchAll] at hmem ⊢
  conv => rhs; rw [hst]
  have hfil : ∀ (l : List Aln), (∀ a ∈ l, overlapsRegion a (0, none) = true) → l.filter (overlapsRegion · (0, none)) = l := by
    intro l hl; exact List.filter_eq_self.2 hl
  cases sample with
  | none =>
    simp only [fetchSource] at hmem ⊢
    rw [hfil _ (fun a _ => overlapsRegion_all a)]
    unfold usableOfRegion
    apply List.filter_eq_self.2
    intro x hx
    simp only [List.mem_map] at hx
    obtain ⟨a, ha, rfl⟩ := hx
    have := (mem_usableOfRegion _ _ _ _).1 (hmem a ha)
    simp [this.2.2]
  | some sm =>
    simp only [fetchSource] at hmem ⊢
    cases hg : s.groupsOf sm with
    | none =>
      exfalso
      rw [← hS] at hne
      simp [usableStream, usableGo, fetchAll, fetchSource, hg, usableOfRegion, firstError] at hne
    | some ids =>
      have hg' : Source.groupsOf { s with alns := oks st } sm = some ids := by
        simpa [Source.groupsOf] using hg
      simp only [hg, hg'] at hmem ⊢
      rw [hfil _ (fun a _ => overlapsRegion_all a)]
      have hfm : (oks st).filterMap (rgTest cfg.tolerateNoRG ids) = (oks st).map .ok := by
        have : ∀ l : List Aln, (∀ a ∈ l, rgTest cfg.tolerateNoRG ids a = some (.ok a)) →
            l.filterMap (rgTest cfg.tolerateNoRG ids) = l.map .ok := by
          intro l hl
          induction l with
          | nil => rfl
          | cons a l ih =>
            simp only [List.filterMap_cons, hl a (by simp), List.map_cons]
            rw [ih (fun b hb => hl b (List.mem_cons_of_mem _ hb))]
        apply this
        intro a ha
        have := ((mem_usableOfRegion _ _ _ _).1 (hmem a ha)).1
        simp only [List.mem_filterMap] at this
        obtain ⟨b, _, hb⟩ := this
        have hba : b = a := by
          unfold rgTest at hb
          cases h : b.rg with
          | none => simp [h] at hb
          | some g => simp [h] at hb; exact hb.2
        rw [hba] at hb; exact hb
      rw [hfm]
      unfold usableOfRegion
      apply List.filter_eq_self.2
      intro x hx
      simp only [List.mem_map] at hx
      obtain ⟨a, ha, rfl⟩ := hx
      have := (mem_usableOfRegion _ _ _ _).1 (hmem a ha)
      simp [this.2.2]

/-- a filtered alignment contributes nothing, part 1: `ReadSetReader.read` depends on the BAM files only through the
stream of alignments that pass the filter — two inputs with the same stream give the same reads -/
theorem filtered_alignment_contributes_nothing (cfg : ReadCfg) (sources sources' : List Source) (sample : Option String)
    (regions : Option (List Region)) (variants : List Variant) (reference : Option Seq)
    (h : usableStream cfg sources sample regions = usableStream cfg sources' sample regions) :
    readModel cfg sources sample regions variants reference = readModel cfg sources' sample regions variants reference := by
  simp only [readModel, h]

/-- a filtered alignment contributes nothing, part 2 (provenance): every allele of every read that
`ReadSetReader.read` returns was detected — by `detect_alleles_by_alignment` / `_detect_alleles` — on an alignment that
passed the filter and has the read's name and file; and the read carries the name of a primary alignment that passed
the filter -/
theorem read_alleles_from_usable_alignments (cfg : ReadCfg) (sources : List Source) (sample : Option String)
    (regions : Option (List Region)) (variants : List Variant) (reference : Option Seq) (reads : List ReadOut)
    (h : readModel cfg sources sample regions variants reference = .ok reads) (r : ReadOut) (hr : r ∈ reads) :
    (∃ a, Except.ok a ∈ usableStream cfg sources sample regions ∧ a.name = r.name ∧ a.sourceId = r.sourceId ∧
      a.supplementary = false) ∧
    ∀ y ∈ r.variants, ∃ a i det idx, Except.ok a ∈ usableStream cfg sources sample regions ∧ a.name = r.name ∧
      a.sourceId = r.sourceId ∧ detectAln cfg variants reference i a = .ok det ∧ (idx, y.2.1, y.2.2) ∈ det ∧
      y.1 = ((variants[idx]?).map (·.pos)).getD 0 := by
  unfold readModel at h
  split at h
  · cases h
  · rename_i areads hareads
    cases h
    simp only [groupReads, List.mem_filterMap] at hr
    obtain ⟨g, hg, hm⟩ := hr
    obtain ⟨⟨prim, hprim, hps, hpn, hpsrc⟩, hvars⟩ := mergeGroupQ_prov _ _ _ _ hm
    have hinv := groupBy_inv areads
    constructor
    · obtain ⟨a, i', det, ha, hn, hsid, hsu, _, _⟩ := toReadsGo_mem _ _ _ _ _ _ _ hareads prim (hinv.1 g hg prim hprim)
      exact ⟨a, ha, by rw [hpn, hn], by rw [hpsrc, hsid], by rw [← hsu, hps]⟩
    · intro y hy
      obtain ⟨aq, haq, hyaq⟩ := hvars y hy
      obtain ⟨a, i', det, ha, hn, hsid, _, hdet, hv⟩ := toReadsGo_mem _ _ _ _ _ _ _ hareads aq (hinv.1 g hg aq haq)
      have hk := hinv.2 g hg aq haq prim hprim
      rw [hv, List.mem_map] at hyaq
      obtain ⟨t, ht, rfl⟩ := hyaq
      exact ⟨a, i', det, t.1, ha, by rw [hpn, ← hk.2, hn], by rw [hpsrc, ← hk.1, hsid], hdet, ht, rfl⟩

/-! ### non-vacuity (filter) -/

section NonVacuityFilter
private instance {ε α} [DecidableEq ε] [DecidableEq α] : DecidableEq (Except ε α) := fun a b =>
  match a, b with
  | .ok x, .ok y => if h : x = y then isTrue (by rw [h]) else isFalse (by intro e; cases e; exact h rfl)
  | .error x, .error y => if h : x = y then isTrue (by rw [h]) else isFalse (by intro e; cases e; exact h rfl)
  | .ok _, .error _ => isFalse (by intro e; cases e)
  | .error _, .ok _ => isFalse (by intro e; cases e)

private def cfg0 : ReadCfg := ⟨20, false, false, 100000, 10, none, Fixes.all, false, false⟩
/-- a primary alignment `5M` at 2 carrying ALT `C` of the SNV `A>C` at 3, mapq 60, read group rg1 -/
private def good : Aln := ⟨"r1", 0, 60, some "rg1", 2, some [(0, 5)], some ['G', 'C', 'G', 'G', 'G'], none, "", -1, some (-1), 0⟩
/-- the same template as a SECONDARY alignment carrying REF -/
private def secondary : Aln := { good with flag := 256, query := some ['G', 'A', 'G', 'G', 'G'] }
private def lowmq : Aln := { good with name := "r2", mapq := 19 }
private def src0 : Source := ⟨[("rg1", some "S1"), ("rg2", some "S2")], [good, secondary, lowmq]⟩
private def src1 : Source := ⟨[("rg1", some "S1"), ("rg2", some "S2")], [good]⟩
private def snv : Variant := ⟨3, ['A'], [['C']]⟩
private def Rk : Seq := ['G', 'G', 'G', 'A', 'G', 'G', 'G', 'G', 'G']

example : usable cfg0 good = true :=
  usable_primary_never_filtered cfg0 good rfl (by decide) (by decide) (by decide) (by decide) (by decide)

example : Except.ok good ∈ usableStream cfg0 [src0] (some "S1") none :=
  usable_stream_keeps_primary cfg0 src0 (some "S1") good (by decide) (by decide)
    (Or.inr ⟨"S1", ["rg1"], "rg1", rfl, by decide, rfl, by decide⟩)

example : oks (usableStream cfg0 [src0] (some "S1") (some [(0, none)])) = [good] := by decide

example : secondary.secondary = true ∧ Except.ok secondary ∉ usableStream cfg0 [src0] none none := by
  refine ⟨by decide, fun h => ?_⟩
  have := (usable_stream_flags cfg0 [src0] none none secondary h).1
  revert this; decide

example : usableStream cfg0 [{ src0 with alns := oks (usableStream cfg0 [src0] (some "S1") none) }] (some "S1") none
    = usableStream cfg0 [src0] (some "S1") none :=
  usable_stream_idempotent cfg0 src0 (some "S1") (by decide)

/-- the secondary alignment carrying the other allele and the low-mapq alignment change nothing -/
example : readModel cfg0 [src0] (some "S1") none [snv] (some Rk) = readModel cfg0 [src1] (some "S1") none [snv] (some Rk) :=
  filtered_alignment_contributes_nothing cfg0 [src0] [src1] (some "S1") none [snv] (some Rk) (by decide)

example : readModel cfg0 [src0] (some "S1") none [snv] (some Rk) = .ok [⟨"r1", 0, 60, 2, "", -1, -1, [(3, 1, 30)]⟩] := by
  decide

example : realignQ true (some ⟨10, 7, 15, false⟩) snv none ['G', 'C', 'G', 'G', 'G'] [(0, 5)] 0 1 1 Rk 2
    = .ok (some (1, -15)) := by
  decide
end NonVacuityFilter

/-! ## a second deletion / insertion of the same haplotype inside the window (finding F11) -/

/-- the decision of `realign`, exactly: allele `k` is returned if and only if its padded sequence is strictly closer to
the window's query than every other padded allele (any distance function; no symbolic ALT, all alleles compared) -/
theorem realign_decision_iff (f14 : Bool) (dist : Seq → Seq → Nat) (v : Variant) (query : Seq) (cigar : Cigar)
    (i consumed : Nat) (qp : Int) (reference : Seq) (oh : Nat) (w : Window)
    (hsym : isSymbolic v = false) (hw : window f14 v query cigar i consumed qp reference oh = .ok w) (k : Nat) :
    realign f14 dist v none query cigar i consumed qp reference oh = .ok (some k) ↔
      ∃ pk, w.padded[k]? = some pk ∧ ∀ j pj, w.padded[j]? = some pj → j ≠ k → dist w.query pk < dist w.query pj := by
  constructor
  · exact realign_sound_only_strict f14 dist v query cigar i consumed qp reference oh w hw k
  · rintro ⟨pk, hk, hs⟩
    exact realign_sound_strict f14 dist v query cigar i consumed qp reference oh w hsym hw k pk hk hs

/-- `window_is_padded_allele` with a second indel: the CIGAR is `A ++ W1 ++ [(op, len)] ++ W2a ++ [(uop, L)] ++ W2b ++ B`
(`W1`, `W2a`, `W2b` runs of M/=/X operations), `(op, len)` the operation of the variant under re-alignment (an M/=/X
block / its deletion / its insertion; `r0` = reference bases from the variant position to the end of that operation),
`(uop, L)` a deletion (`uop = 2`) or insertion (`uop = 1`, bases `uq`) carried by the same haplotype that lies entirely
inside the right half of the window; the read's bases are a copy of that haplotype.  Then the window's query is the
padded carried allele WITH the second indel applied, while every padded allele has the reference there:
`query = lp ++ a ++ g ++ uq ++ t`, `padded = [lp ++ x ++ g ++ ur ++ t | x ∈ REF :: ALTs]` with `ur` the `L` deleted
reference bases (empty for an insertion) and `uq` the inserted bases (empty for a deletion). -/
theorem window_is_padded_allele_second_indel (f14 : Bool) (R query : Seq) (pos : Nat) (ref a uq : Seq) (alts : List Seq)
    (A W1 W2a W2b B : Cigar) (op len d uop L start oh r0 : Nat) (hoh : 0 < oh)
    (hW1 : W1.all isMatchOp = true) (hW2a : W2a.all isMatchOp = true) (hW2b : W2b.all isMatchOp = true)
    (hu : uop = 2 ∨ uop = 1) (huq : uq.length = if uop = 1 then L else 0)
    (hshape : (isMatch op = true ∧ d < len ∧ d + ref.length ≤ len ∧ a.length = ref.length ∧ r0 = len - d)
      ∨ (op = 2 ∧ a = [] ∧ len = ref.length ∧ d = 0 ∧ 0 < len ∧ r0 = len)
      ∨ (op = 1 ∧ ref = [] ∧ len = a.length ∧ d = 0 ∧ 0 < len ∧ r0 = 0))
    (hpos : pos = start + refLen A + refLen W1 + d)
    (hR : slice R pos ref.length = ref)
    (hin2 : r0 + refLen W2a + (if uop = 2 then L else 0) < ref.length + oh)
    (hin : pos + r0 + refLen W2a + (if uop = 2 then L else 0) + refLen W2b ≤ R.length)
    (hleft : oh ≤ refLen W1 + d ∨ endsWindow f14 A.reverse = true)
    (hright : ref.length + oh ≤ r0 + refLen W2a + (if uop = 2 then L else 0) + refLen W2b ∨ endsWindow f14 B = true)
    (hq : slice query (qLen A) (refLen W1 + d + (a.length + (r0 - ref.length + refLen W2a) + uq.length) + refLen W2b) =
      slice R (start + refLen A) (refLen W1 + d) ++ (a ++ slice R (pos + ref.length) (r0 - ref.length + refLen W2a) ++ uq)
        ++ slice R (pos + r0 + refLen W2a + (if uop = 2 then L else 0)) (refLen W2b)) :
    ∃ lp t, window f14 ⟨pos, ref, alts⟩ query (A ++ W1 ++ (op, len) :: (W2a ++ (uop, L) :: (W2b ++ B))) (A ++ W1).length d
        ((qLen (A ++ W1) + d : Nat) : Int) R oh
      = .ok ⟨lp ++ a ++ slice R (pos + ref.length) (r0 - ref.length + refLen W2a) ++ uq ++ t,
             (ref :: alts).map (fun x => lp ++ x ++ slice R (pos + ref.length) (r0 - ref.length + refLen W2a)
               ++ slice R (pos + r0 + refLen W2a) (if uop = 2 then L else 0) ++ t)⟩ := by
  obtain ⟨lw, m2, hw⟩ := window_second_indel_right f14 R query pos ref a uq alts A W1 W2a W2b B op len d uop L start oh r0
    hoh hW1 hW2a hW2b hu huq hshape hpos hR hin2 hin hleft hright hq
  exact ⟨_, _, hw⟩

/-- F11 as a criterion.  In the situation of `window_is_padded_allele_second_indel` (no symbolic ALT), with `g` the
reference bases between the variant and the second indel, `ur` the deleted reference bases and `uq` the inserted bases
of the second indel: `realign` (Levenshtein distance) returns allele `k` IF AND ONLY IF `x_k ++ g ++ ur` is strictly
closer to `a ++ g ++ uq` than `x_j ++ g ++ ur` for every other allele `j` — the paddings to the left and behind the
second indel cancel.  So the wrong allele `k ≠ h` results exactly when replacing the carried allele by `x_k` AND
undoing the second indel is cheaper than undoing the second indel alone; a tie gives no allele. -/
theorem realign_second_indel_criterion (f14 : Bool) (R query : Seq) (pos : Nat) (ref a uq : Seq) (alts : List Seq)
    (hsym : ∀ x ∈ alts, x.head? ≠ some '<')
    (A W1 W2a W2b B : Cigar) (op len d uop L start oh r0 : Nat) (hoh : 0 < oh)
    (hW1 : W1.all isMatchOp = true) (hW2a : W2a.all isMatchOp = true) (hW2b : W2b.all isMatchOp = true)
    (hu : uop = 2 ∨ uop = 1) (huq : uq.length = if uop = 1 then L else 0)
    (hshape : (isMatch op = true ∧ d < len ∧ d + ref.length ≤ len ∧ a.length = ref.length ∧ r0 = len - d)
      ∨ (op = 2 ∧ a = [] ∧ len = ref.length ∧ d = 0 ∧ 0 < len ∧ r0 = len)
      ∨ (op = 1 ∧ ref = [] ∧ len = a.length ∧ d = 0 ∧ 0 < len ∧ r0 = 0))
    (hpos : pos = start + refLen A + refLen W1 + d)
    (hR : slice R pos ref.length = ref)
    (hin2 : r0 + refLen W2a + (if uop = 2 then L else 0) < ref.length + oh)
    (hin : pos + r0 + refLen W2a + (if uop = 2 then L else 0) + refLen W2b ≤ R.length)
    (hleft : oh ≤ refLen W1 + d ∨ endsWindow f14 A.reverse = true)
    (hright : ref.length + oh ≤ r0 + refLen W2a + (if uop = 2 then L else 0) + refLen W2b ∨ endsWindow f14 B = true)
    (hq : slice query (qLen A) (refLen W1 + d + (a.length + (r0 - ref.length + refLen W2a) + uq.length) + refLen W2b) =
      slice R (start + refLen A) (refLen W1 + d) ++ (a ++ slice R (pos + ref.length) (r0 - ref.length + refLen W2a) ++ uq)
        ++ slice R (pos + r0 + refLen W2a + (if uop = 2 then L else 0)) (refLen W2b))
    (k : Nat) :
    realign f14 lev ⟨pos, ref, alts⟩ none query (A ++ W1 ++ (op, len) :: (W2a ++ (uop, L) :: (W2b ++ B))) (A ++ W1).length d
        ((qLen (A ++ W1) + d : Nat) : Int) R oh = .ok (some k) ↔
      ∃ xk, (ref :: alts)[k]? = some xk ∧ ∀ j xj, (ref :: alts)[j]? = some xj → j ≠ k →
        lev (a ++ slice R (pos + ref.length) (r0 - ref.length + refLen W2a) ++ uq)
            (xk ++ slice R (pos + ref.length) (r0 - ref.length + refLen W2a)
              ++ slice R (pos + r0 + refLen W2a) (if uop = 2 then L else 0))
        < lev (a ++ slice R (pos + ref.length) (r0 - ref.length + refLen W2a) ++ uq)
            (xj ++ slice R (pos + ref.length) (r0 - ref.length + refLen W2a)
              ++ slice R (pos + r0 + refLen W2a) (if uop = 2 then L else 0)) := by
  obtain ⟨lp, t, hw⟩ := window_is_padded_allele_second_indel f14 R query pos ref a uq alts A W1 W2a W2b B op len d uop L
    start oh r0 hoh hW1 hW2a hW2b hu huq hshape hpos hR hin2 hin hleft hright hq
  have hs : isSymbolic ⟨pos, ref, alts⟩ = false := by
    simp only [isSymbolic, List.any_eq_false]
    intro x hx
    simpa using hsym x hx
  rw [realign_decision_iff f14 lev _ query _ _ _ _ R oh _ hs hw k]
  generalize slice R (pos + ref.length) (r0 - ref.length + refLen W2a) = g
  generalize slice R (pos + r0 + refLen W2a) (if uop = 2 then L else 0) = ur
  have hcancel : ∀ x y : Seq, lev (lp ++ a ++ g ++ uq ++ t) (lp ++ x ++ g ++ y ++ t) = lev (a ++ g ++ uq) (x ++ g ++ y) := by
    intro x y
    have e1 : lp ++ a ++ g ++ uq ++ t = lp ++ ((a ++ g ++ uq) ++ t) := by simp [List.append_assoc]
    have e2 : lp ++ x ++ g ++ y ++ t = lp ++ ((x ++ g ++ y) ++ t) := by simp [List.append_assoc]
    rw [e1, e2, lev_append_left, lev_append_right]
  simp only [List.getElem?_map, Option.map_eq_some_iff]
  constructor
  · rintro ⟨pk, ⟨xk, hxk, rfl⟩, hall⟩
    refine ⟨xk, hxk, ?_⟩
    intro j xj hxj hjk
    have := hall j _ ⟨xj, hxj, rfl⟩ hjk
    rw [hcancel, hcancel] at this
    exact this
  · rintro ⟨xk, hxk, hall⟩
    refine ⟨_, ⟨xk, hxk, rfl⟩, ?_⟩
    rintro j pj ⟨xj, hxj, rfl⟩ hjk
    rw [hcancel, hcancel]
    exact hall j xj hxj hjk

/-! ### non-vacuity (second indel) -/

section NonVacuitySecond
/-- reference `GGACCTTGGGG…`; insertion `ε>TT` at 5 (after `GGACC`), the haplotype also deletes the `TT` at 5..6 directly
behind it ("twins": inserting `TT` and deleting the next `TT` is the reference again) -/
private def Rt : Seq := ['G', 'G', 'A', 'C', 'C', 'T', 'T', 'G', 'G', 'G', 'G', 'G', 'G']

/-- the read `5M 2I 2D 6M` carries the insertion (allele 1) and the deletion; the criterion says REF (allele 0) is
strictly closest — the WRONG allele (F11) -/
example : realign true lev ⟨5, [], [['T', 'T']]⟩ none ['G', 'G', 'A', 'C', 'C', 'T', 'T', 'G', 'G', 'G', 'G', 'G', 'G']
    ([] ++ [(0, 5)] ++ (1, 2) :: ([] ++ (2, 2) :: ([(0, 6)] ++ []))) ([] ++ [(0, 5)]).length 0
    ((qLen ([] ++ [(0, 5)]) + 0 : Nat) : Int) Rt 3 = .ok (some 0) := by
  rw [realign_second_indel_criterion true Rt _ 5 [] ['T', 'T'] [] [['T', 'T']] (by decide) [] [(0, 5)] [] [(0, 6)] []
    1 2 0 2 2 0 3 0 (by decide) (by decide) (by decide) (by decide) (Or.inl rfl) (by decide)
    (Or.inr (Or.inr ⟨rfl, rfl, rfl, rfl, by decide, rfl⟩)) (by decide) (by decide) (by decide) (by decide)
    (Or.inl (by decide)) (Or.inl (by decide)) (by decide) 0]
  refine ⟨[], rfl, ?_⟩
  intro j xj hj hne
  match j, hj with
  | 0, _ => exact absurd rfl hne
  | 1, hj => simp at hj; subst hj; rw [← levFast_eq_lev, ← levFast_eq_lev]; decide
  | j + 2, hj => simp at hj
end NonVacuitySecond

/-! ## Round 10: `create_read_from_group` on error-free mates / supplementary alignments

`usedBy f12 primary thr r` = the alignment `r` of the group is used: (repaired F12) it is a primary alignment (a mate), or it
has the primary's orientation and lies within the distance threshold. -/

/-- `merge_group_unanimous` (no assumption on the reads): the merged read exists; every call it carries was detected on a
used alignment of the group, and EVERY used alignment that has a call at that position has the SAME allele — two
alignments that disagree remove the position, so merging never decides between conflicting alleles. -/
theorem merge_group_unanimous (f12 : Bool) (group : List Aligned) (thr : Int) (primary : Aligned)
    (hp : (group.filter (fun r => !r.supplementary)).getLast? = some primary)
    (hn : (group.filter (fun r => !r.supplementary)).length ≤ 2) :
    ∃ out, mergeGroup f12 group thr = some out ∧
      (∀ x ∈ out, ∃ r ∈ group, usedBy f12 primary thr r = true ∧ x ∈ r.variants) ∧
      (∀ x ∈ out, ∀ r ∈ group, usedBy f12 primary thr r = true → ∀ y ∈ r.variants, y.1 = x.1 → y.2.1 = x.2.1) := by
  refine ⟨_, mergeGroup_eq f12 group thr primary hp hn, ?_, ?_⟩
  · intro x hx
    rw [mem_sortByPos, List.mem_filter] at hx
    rcases foldAdd_mem _ _ x hx.1 with h | ⟨r, hr, h⟩
    · cases h
    · rw [List.mem_filter] at hr
      exact ⟨r, hr.1, hr.2, h⟩
  · intro x hx r hr hu y hy hpos
    rw [mem_sortByPos, List.mem_filter] at hx
    apply Classical.byContradiction
    intro hne
    have := foldAdd_conflict ([], []) (group.filter (usedBy f12 primary thr)) List.Pairwise.nil r
      (List.mem_filter.2 ⟨hr, hu⟩) y hy x hx.1 hpos.symm (fun e => hne e.symm)
    have h2 := hx.2
    rw [hpos] at this
    simp [this] at h2

/-- `merge_group_errfree`: all alignments of the group are error-free alignments of ONE template, i.e. every call of every
alignment is the allele `truth position` its haplotype carries.  Then merging never produces a wrong allele, no position
is dropped as conflicting, and an allele present in one mate (or one used supplementary alignment) only is kept: every
call of every used alignment is in the merged read with the haplotype's allele. -/
theorem merge_group_errfree (f12 : Bool) (group : List Aligned) (thr : Int) (primary : Aligned) (truth : Nat → Nat)
    (hp : (group.filter (fun r => !r.supplementary)).getLast? = some primary)
    (hn : (group.filter (fun r => !r.supplementary)).length ≤ 2)
    (herr : ∀ r ∈ group, ∀ x ∈ r.variants, x.2.1 = truth x.1) :
    ∃ out, mergeGroup f12 group thr = some out ∧
      (∀ x ∈ out, x.2.1 = truth x.1) ∧
      (∀ r ∈ group, usedBy f12 primary thr r = true → ∀ x ∈ r.variants, ∃ q, (x.1, truth x.1, q) ∈ out) := by
  have hskip := foldAdd_skip_errfree truth ([], []) (group.filter (usedBy f12 primary thr)) (by intro x h; cases h)
    (fun r hr => herr r (List.mem_filter.1 hr).1)
  refine ⟨_, mergeGroup_eq f12 group thr primary hp hn, ?_, ?_⟩
  · intro x hx
    rw [mem_sortByPos, List.mem_filter] at hx
    rcases foldAdd_mem _ _ x hx.1 with h | ⟨r, hr, h⟩
    · cases h
    · exact herr r (List.mem_filter.1 hr).1 x h
  · intro r hr hu x hx
    obtain ⟨y, hy, hpos⟩ := foldAdd_covers ([], []) (group.filter (usedBy f12 primary thr)) r
      (List.mem_filter.2 ⟨hr, hu⟩) x hx
    have hyt : y.2.1 = truth y.1 := by
      rcases foldAdd_mem _ _ y hy with h | ⟨r', hr', h⟩
      · cases h
      · exact herr r' (List.mem_filter.1 hr').1 y h
    refine ⟨y.2.2, ?_⟩
    rw [mem_sortByPos, List.mem_filter, hskip]
    refine ⟨?_, by simp⟩
    have : y = (x.1, truth x.1, y.2.2) := by
      rw [← hpos, ← hyt]
    rw [← this]; exact hy

/-- … in particular (repaired F12) both mates of a pair always contribute, whatever their orientation and distance. -/
theorem merge_group_errfree_mates (group : List Aligned) (thr : Int) (primary : Aligned) (truth : Nat → Nat)
    (hp : (group.filter (fun r => !r.supplementary)).getLast? = some primary)
    (hn : (group.filter (fun r => !r.supplementary)).length ≤ 2)
    (herr : ∀ r ∈ group, ∀ x ∈ r.variants, x.2.1 = truth x.1) :
    ∃ out, mergeGroup true group thr = some out ∧ (∀ x ∈ out, x.2.1 = truth x.1) ∧
      (∀ r ∈ group, r.supplementary = false → ∀ x ∈ r.variants, ∃ q, (x.1, truth x.1, q) ∈ out) := by
  obtain ⟨out, h1, h2, h3⟩ := merge_group_errfree true group thr primary truth hp hn herr
  exact ⟨out, h1, h2, fun r hr hs => h3 r hr (by simp [usedBy, hs])⟩

/-! ### non-vacuity (merging) -/
section NonVacuityMerge
private def m1 : Aligned := ⟨false, false, 5, 30, [(10, 1, 30), (20, 0, 30)]⟩
private def m2 : Aligned := ⟨false, true, 40, 65, [(50, 1, 30)]⟩
private def sup : Aligned := ⟨true, true, 18, 35, [(20, 0, 25), (33, 1, 30)]⟩
private def truthEx (p : Nat) : Nat := if p = 20 then 0 else 1
/-- an FR pair plus a supplementary alignment in the last primary's orientation: hypotheses hold, all four positions kept -/
example : mergeGroup true [m1, m2, sup] 100000 = some [(10, 1, 30), (20, 0, 30), (33, 1, 30), (50, 1, 30)] := by decide
example : ∃ out, mergeGroup true [m1, m2, sup] 100000 = some out ∧ (∀ x ∈ out, x.2.1 = truthEx x.1) ∧
    (∀ r ∈ [m1, m2, sup], usedBy true m2 100000 r = true → ∀ x ∈ r.variants, ∃ q, (x.1, truthEx x.1, q) ∈ out) :=
  merge_group_errfree true [m1, m2, sup] 100000 m2 truthEx rfl (by decide) (by decide)
example : usedBy true m2 100000 sup = true ∧ usedBy true m2 100000 m1 = true := by decide
/-- conflicting mates (impossible for error-free ones): the position is dropped, not decided -/
example : mergeGroup true [m1, ⟨false, true, 15, 40, [(20, 1, 30)]⟩] 100000 = some [(10, 1, 30)] := by decide
end NonVacuityMerge

/-! ## Round 10: several variants in one no-reference call are independent

`detectNoRef` hands ONE walker (reference/query position, anchoring flag, queue of variants in progress) from variant to
variant.  With the repaired F16 (`f16 = true`; as-is an I operation of length `n` lets an insertion variant interfere with
the variants up to `n` bases to its right, unless a variant with a non-empty REF at the insertion's position ends the
queueing loop first — see the witness below) the variants do not influence each other: -/

/-- `noref_multi_variant_independent` (walker level, any start state): for variants with strictly increasing normalised
positions — SNVs, MNPs, insertions, deletions, multi-allelic, anything — over ANY CIGAR with operators 0–8, any query and
qualities, if no single-variant walk fails, the joint walk does not fail and yields, in variant order, exactly what the
walks that carry ONE variant alone yield: the state handed from one variant to the next is the state of a fresh walk. -/
theorem noref_multi_variant_independent (fx : Fixes) (h16 : fx.f16 = true) (query : Seq) (quals : Option (List Nat))
    (cigar : Cigar) (hops : ∀ p ∈ cigar, p.1 ≤ 8) (anch : Bool) (rp qp : Nat)
    (vps : List VP) (hs : vps.Pairwise (fun a b => a.2.pos < b.2.pos))
    (hV : ∀ vp ∈ vps, (noRefGo fx query quals anch rp qp [vp] [] cigar).2 = none) :
    noRefGo fx query quals anch rp qp vps [] cigar =
      (vps.flatMap (fun vp => (noRefGo fx query quals anch rp qp [vp] [] cigar).1), none) := by
  have := noRefGo_independent fx h16 query quals cigar hops anch rp qp vps hs [] (by simp) (by simp) hV
  simpa using this

/-- … the same for a queue of variants already in progress (well-formed progress counters): queue entries and variants
still to come are all independent of each other. -/
theorem noref_multi_variant_independent_queue (fx : Fixes) (h16 : fx.f16 = true) (query : Seq) (quals : Option (List Nat))
    (cigar : Cigar) (hops : ∀ p ∈ cigar, p.1 ≤ 8) (anch : Bool) (rp qp : Nat)
    (vps : List VP) (hs : vps.Pairwise (fun a b => a.2.pos < b.2.pos))
    (Q : List Entry) (hwf : ∀ e ∈ Q, EntryWF e)
    (hQ : ∀ e ∈ Q, (noRefGo fx query quals anch rp qp [] [e] cigar).2 = none)
    (hV : ∀ vp ∈ vps, (noRefGo fx query quals anch rp qp [vp] [] cigar).2 = none) :
    noRefGo fx query quals anch rp qp vps Q cigar =
      (Q.flatMap (fun e => (noRefGo fx query quals anch rp qp [] [e] cigar).1) ++
       vps.flatMap (fun vp => (noRefGo fx query quals anch rp qp [vp] [] cigar).1), none) :=
  noRefGo_independent fx h16 query quals cigar hops anch rp qp vps hs Q hwf hQ hV

/-- … and for `_detect_alleles` as called by `_alignments_to_reads` (`vps` = the normalised, conflict-free variants from
`first` on that do not lie before the alignment): the result is the concatenation of the single-variant results, so every
variant gets the call `noref_snv_correct` / `noref_unshiftable_indel_correct` establish for it alone (their walker lemmas
`noRefGo_snv`, `noRefGo_del_ref|alt`, `noRefGo_ins_ref|alt` hold for any variant index). -/
theorem noref_multi_variant_independent_detect (fx : Fixes) (h16 : fx.f16 = true) (variants : List Variant) (first start : Nat)
    (cigar : Cigar) (query : Seq) (quals : Option (List Nat)) (hops : ∀ p ∈ cigar, p.1 ≤ 8) (vps : List VP)
    (hvps : vps = (((nonOverlapping (variants.map normalize)).filterMap
      (fun id => ((variants.map normalize)[id]?).map (fun v => (id, v)))).drop first).dropWhile
        (fun p => p.2.pos < start))
    (hs : vps.Pairwise (fun a b => a.2.pos < b.2.pos))
    (hV : ∀ vp ∈ vps, (noRefGo fx query quals false start 0 [vp] [] cigar).2 = none) :
    detectNoRef fx variants first start cigar query quals =
      (vps.flatMap (fun vp => (noRefGo fx query quals false start 0 [vp] [] cigar).1), none) :=
  detectNoRef_independent fx h16 variants first start cigar query quals hops vps hvps hs hV

/-! ### non-vacuity (independence) -/
section NonVacuityMulti
/-- read `2S 6M 2D 3M 1I 4M` at 10 over an SNV at 12 (ALT), a deletion `GT>ε` at 16 (carried), an insertion `ε>A` at 21
(carried) and an SNV at 23 (REF): four variants in one M/D/M/I/M chain, hypotheses by evaluation -/
private def vpsEx : List VP :=
  [(0, ⟨12, ['C'], [['T']]⟩), (1, ⟨16, ['G', 'T'], [[]]⟩), (2, ⟨21, [], [['A']]⟩), (3, ⟨23, ['G'], [['C']]⟩)]
private def cigEx : Cigar := [(4, 2), (0, 6), (2, 2), (0, 3), (1, 1), (0, 4)]
private def qEx : Seq := "NNACTTACACGAACGT".toList
example : vpsEx.Pairwise (fun a b => a.2.pos < b.2.pos) ∧ (∀ p ∈ cigEx, p.1 ≤ 8) ∧
    (∀ vp ∈ vpsEx, (noRefGo Fixes.all qEx none false 10 0 [vp] [] cigEx).2 = none) := by decide
example : noRefGo Fixes.all qEx none false 10 0 vpsEx [] cigEx = ([(0, 1, 30), (1, 1, 30), (2, 1, 30), (3, 0, 30)], none) := by
  rw [noref_multi_variant_independent Fixes.all rfl qEx none cigEx (by decide) false 10 0 vpsEx (by decide) (by decide)]
  decide
/-- `f16` is needed: as-is an I operation of length 3 at 20 "sees" the insertion variant at 21 when that variant is walked
alone (and calls ALT from the inserted bases), but not in the joint walk, where the SNV at 20 ends the queueing loop -/
example : (noRefGo Fixes.asIs "ACGTAGTGACGT".toList none false 15 0 [(0, ⟨20, ['A'], [['C']]⟩), (1, ⟨21, [], [['T']]⟩)] []
      [(0, 5), (1, 3), (0, 4)]).1 ≠
    ([(0, ⟨20, ['A'], [['C']]⟩), (1, ⟨21, [], [['T']]⟩)] : List VP).flatMap (fun vp =>
      (noRefGo Fixes.asIs "ACGTAGTGACGT".toList none false 15 0 [vp] [] [(0, 5), (1, 3), (0, 4)]).1) := by decide
end NonVacuityMulti

/-! ## Round 10: a second deletion / insertion of the read's haplotype entirely inside the LEFT half of the window
(mirror of `window_is_padded_allele_second_indel`) -/

/-- CIGAR `A ++ W1a ++ [(uop, L)] ++ W1b ++ [(op, len)] ++ W2 ++ B`: the second indel lies `l0 = refLen W1b + d` reference
bases in front of the variant position, entirely inside the left half of the window.  The window's query is
`lp ++ uq ++ g ++ a ++ rp`, the padded alleles are `lp ++ ur ++ g ++ x ++ rp` (`g` = the `l0` reference bases between the
second indel and the variant, `ur` = the `L` deleted reference bases, `uq` = the inserted bases). -/
theorem window_is_padded_allele_second_indel_left (f14 : Bool) (R query : Seq) (pos : Nat) (ref a uq : Seq) (alts : List Seq)
    (A W1a W1b W2 B : Cigar) (op len d uop L start oh r0 : Nat) (hoh : 0 < oh)
    (hW1a : W1a.all isMatchOp = true) (hW1b : W1b.all isMatchOp = true) (hW2 : W2.all isMatchOp = true)
    (hu : uop = 2 ∨ uop = 1) (huq : uq.length = if uop = 1 then L else 0)
    (hshape : (isMatch op = true ∧ d < len ∧ d + ref.length ≤ len ∧ a.length = ref.length ∧ r0 = len - d)
      ∨ (op = 2 ∧ a = [] ∧ len = ref.length ∧ d = 0 ∧ 0 < len ∧ r0 = len)
      ∨ (op = 1 ∧ ref = [] ∧ len = a.length ∧ d = 0 ∧ 0 < len ∧ r0 = 0))
    (hpos : pos = start + refLen A + refLen W1a + (if uop = 2 then L else 0) + refLen W1b + d)
    (hR : slice R pos ref.length = ref)
    (hin2 : refLen W1b + d + (if uop = 2 then L else 0) < oh)
    (hin : pos + r0 + refLen W2 ≤ R.length)
    (hleft : oh ≤ refLen W1b + d + (if uop = 2 then L else 0) + refLen W1a ∨ endsWindow f14 A.reverse = true)
    (hright : ref.length + oh ≤ r0 + refLen W2 ∨ endsWindow f14 B = true)
    (hq : slice query (qLen A) (refLen W1a + (uq.length + (refLen W1b + d) + a.length) + (r0 - ref.length + refLen W2)) =
      slice R (start + refLen A) (refLen W1a) ++ (uq ++ slice R (pos - (refLen W1b + d)) (refLen W1b + d) ++ a)
        ++ slice R (pos + ref.length) (r0 - ref.length + refLen W2)) :
    ∃ lp rp, window f14 ⟨pos, ref, alts⟩ query (A ++ W1a ++ (uop, L) :: (W1b ++ (op, len) :: (W2 ++ B)))
        (A ++ W1a ++ (uop, L) :: W1b).length d ((qLen (A ++ W1a ++ (uop, L) :: W1b) + d : Nat) : Int) R oh
      = .ok ⟨lp ++ uq ++ slice R (pos - (refLen W1b + d)) (refLen W1b + d) ++ a ++ rp,
             (ref :: alts).map (fun x => lp ++ slice R (pos - (refLen W1b + d) - (if uop = 2 then L else 0)) (if uop = 2 then L else 0)
               ++ slice R (pos - (refLen W1b + d)) (refLen W1b + d) ++ x ++ rp)⟩ := by
  obtain ⟨m1, m2, hw⟩ := window_second_indel_left f14 R query pos ref a uq alts A W1a W1b W2 B op len d uop L start oh r0
    hoh hW1a hW1b hW2 hu huq hshape hpos hR hin2 hin hleft hright hq
  exact ⟨_, _, hw⟩

/-- F11 criterion, left half: `realign` returns `k` iff `ur ++ g ++ x_k` is strictly closer to `uq ++ g ++ a` than every
other `ur ++ g ++ x_j`. -/
theorem realign_second_indel_left_criterion (f14 : Bool) (R query : Seq) (pos : Nat) (ref a uq : Seq) (alts : List Seq)
    (hsym : ∀ x ∈ alts, x.head? ≠ some '<')
    (A W1a W1b W2 B : Cigar) (op len d uop L start oh r0 : Nat) (hoh : 0 < oh)
    (hW1a : W1a.all isMatchOp = true) (hW1b : W1b.all isMatchOp = true) (hW2 : W2.all isMatchOp = true)
    (hu : uop = 2 ∨ uop = 1) (huq : uq.length = if uop = 1 then L else 0)
    (hshape : (isMatch op = true ∧ d < len ∧ d + ref.length ≤ len ∧ a.length = ref.length ∧ r0 = len - d)
      ∨ (op = 2 ∧ a = [] ∧ len = ref.length ∧ d = 0 ∧ 0 < len ∧ r0 = len)
      ∨ (op = 1 ∧ ref = [] ∧ len = a.length ∧ d = 0 ∧ 0 < len ∧ r0 = 0))
    (hpos : pos = start + refLen A + refLen W1a + (if uop = 2 then L else 0) + refLen W1b + d)
    (hR : slice R pos ref.length = ref)
    (hin2 : refLen W1b + d + (if uop = 2 then L else 0) < oh)
    (hin : pos + r0 + refLen W2 ≤ R.length)
    (hleft : oh ≤ refLen W1b + d + (if uop = 2 then L else 0) + refLen W1a ∨ endsWindow f14 A.reverse = true)
    (hright : ref.length + oh ≤ r0 + refLen W2 ∨ endsWindow f14 B = true)
    (hq : slice query (qLen A) (refLen W1a + (uq.length + (refLen W1b + d) + a.length) + (r0 - ref.length + refLen W2)) =
      slice R (start + refLen A) (refLen W1a) ++ (uq ++ slice R (pos - (refLen W1b + d)) (refLen W1b + d) ++ a)
        ++ slice R (pos + ref.length) (r0 - ref.length + refLen W2))
    (k : Nat) :
    realign f14 lev ⟨pos, ref, alts⟩ none query (A ++ W1a ++ (uop, L) :: (W1b ++ (op, len) :: (W2 ++ B)))
        (A ++ W1a ++ (uop, L) :: W1b).length d ((qLen (A ++ W1a ++ (uop, L) :: W1b) + d : Nat) : Int) R oh = .ok (some k) ↔
      ∃ xk, (ref :: alts)[k]? = some xk ∧ ∀ j xj, (ref :: alts)[j]? = some xj → j ≠ k →
        lev (uq ++ slice R (pos - (refLen W1b + d)) (refLen W1b + d) ++ a)
            (slice R (pos - (refLen W1b + d) - (if uop = 2 then L else 0)) (if uop = 2 then L else 0)
              ++ slice R (pos - (refLen W1b + d)) (refLen W1b + d) ++ xk)
        < lev (uq ++ slice R (pos - (refLen W1b + d)) (refLen W1b + d) ++ a)
            (slice R (pos - (refLen W1b + d) - (if uop = 2 then L else 0)) (if uop = 2 then L else 0)
              ++ slice R (pos - (refLen W1b + d)) (refLen W1b + d) ++ xj) := by
  obtain ⟨lp, rp, hw⟩ := window_is_padded_allele_second_indel_left f14 R query pos ref a uq alts A W1a W1b W2 B op len d uop L
    start oh r0 hoh hW1a hW1b hW2 hu huq hshape hpos hR hin2 hin hleft hright hq
  have hs : isSymbolic ⟨pos, ref, alts⟩ = false := by
    simp only [isSymbolic, List.any_eq_false]
    intro x hx
    simpa using hsym x hx
  rw [realign_decision_iff f14 lev _ query _ _ _ _ R oh _ hs hw k]
  generalize slice R (pos - (refLen W1b + d)) (refLen W1b + d) = g
  generalize slice R (pos - (refLen W1b + d) - (if uop = 2 then L else 0)) (if uop = 2 then L else 0) = ur
  have hcancel : ∀ x : Seq, lev (lp ++ uq ++ g ++ a ++ rp) (lp ++ ur ++ g ++ x ++ rp) = lev (uq ++ g ++ a) (ur ++ g ++ x) := by
    intro x
    have e1 : lp ++ uq ++ g ++ a ++ rp = lp ++ ((uq ++ g ++ a) ++ rp) := by simp [List.append_assoc]
    have e2 : lp ++ ur ++ g ++ x ++ rp = lp ++ ((ur ++ g ++ x) ++ rp) := by simp [List.append_assoc]
    rw [e1, e2, lev_append_left, lev_append_right]
  simp only [List.getElem?_map, Option.map_eq_some_iff]
  constructor
  · rintro ⟨pk, ⟨xk, hxk, rfl⟩, hall⟩
    refine ⟨xk, hxk, ?_⟩
    intro j xj hxj hjk
    have := hall j _ ⟨xj, hxj, rfl⟩ hjk
    rw [hcancel, hcancel] at this
    exact this
  · rintro ⟨xk, hxk, hall⟩
    refine ⟨_, ⟨xk, hxk, rfl⟩, ?_⟩
    rintro j pj ⟨xj, hxj, rfl⟩ hjk
    rw [hcancel, hcancel]
    exact hall j xj hxj hjk

/-! ### non-vacuity (left half) -/
section NonVacuityLeft
/-- reference `GGTTACCGGGGGG…`: the haplotype deletes `TT` at 2..3 and carries the insertion `ε>TT` at 5 (twins, mirrored);
read `2M 2D 1M 2I 8M`, overhang 4: every hypothesis holds -/
private def Rl : Seq := ['G', 'G', 'T', 'T', 'A', 'C', 'C', 'G', 'G', 'G', 'G', 'G', 'G']
example : ∃ lp rp, window true ⟨5, [], [['T', 'T']]⟩ ['G', 'G', 'A', 'T', 'T', 'C', 'C', 'G', 'G', 'G', 'G', 'G', 'G']
    ([] ++ [(0, 2)] ++ (2, 2) :: ([(0, 1)] ++ (1, 2) :: ([(0, 8)] ++ []))) ([] ++ [(0, 2)] ++ (2, 2) :: [(0, 1)]).length 0
    ((qLen ([] ++ [(0, 2)] ++ (2, 2) :: [(0, 1)]) + 0 : Nat) : Int) Rl 4 = .ok ⟨lp ++ [] ++ slice Rl (5 - (refLen [(0, 1)] + 0)) (refLen [(0, 1)] + 0) ++ ['T', 'T'] ++ rp,
      ([] :: [['T', 'T']]).map (fun x => lp ++ slice Rl (5 - (refLen [(0, 1)] + 0) - (if 2 = 2 then 2 else 0)) (if 2 = 2 then 2 else 0)
        ++ slice Rl (5 - (refLen [(0, 1)] + 0)) (refLen [(0, 1)] + 0) ++ x ++ rp)⟩ :=
  window_is_padded_allele_second_indel_left true Rl _ 5 [] ['T', 'T'] [] [['T', 'T']] [] [(0, 2)] [(0, 1)] [(0, 8)] []
    1 2 0 2 2 0 4 0 (by decide) (by decide) (by decide) (by decide) (Or.inl rfl) (by decide)
    (Or.inr (Or.inr ⟨rfl, rfl, rfl, rfl, by decide, rfl⟩)) (by decide) (by decide) (by decide) (by decide)
    (Or.inl (by decide)) (Or.inl (by decide)) (by decide)
end NonVacuityLeft

/-! ## Round 10: a second deletion of the read's haplotype CUT by the right window boundary

The full statement aimed at (`realign_indel_window_correct`): "for an error-free read in canonical alignment over an indel
variant, with ANY operations around it, `realign` returns the carried allele".  That statement is FALSE as soon as a
second indel of the same haplotype reaches into the window (finding F11).  What holds, and is proved piecewise, is:
isolated (window inside M/=/X runs, or ended by S/H/N) ⇒ carried allele (`realign_indel_correct`); second indel entirely
inside the right half ⇒ criterion (`realign_second_indel_criterion`); entirely inside the left half ⇒ criterion
(`realign_second_indel_left_criterion`); second deletion cut by (or ending on) the right boundary ⇒ criterion below.
Missing: a deletion cut by the LEFT boundary, more than one extra indel. -/

/-- CIGAR `A ++ W1 ++ [(op, len)] ++ W2a ++ [(D, L)] ++ X`, the deletion starts inside the right half of the window and
reaches or passes its end (`X` arbitrary): the window's query ends where the deletion starts, the padded alleles go on
with the first `c = |ref| + oh - (r0 + refLen W2a)` deleted reference bases. -/
theorem window_is_padded_allele_second_del_cut (f14 : Bool) (R query : Seq) (pos : Nat) (ref a : Seq) (alts : List Seq)
    (A W1 W2a X : Cigar) (op len d L start oh r0 : Nat) (hoh : 0 < oh)
    (hW1 : W1.all isMatchOp = true) (hW2a : W2a.all isMatchOp = true)
    (hshape : (isMatch op = true ∧ d < len ∧ d + ref.length ≤ len ∧ a.length = ref.length ∧ r0 = len - d)
      ∨ (op = 2 ∧ a = [] ∧ len = ref.length ∧ d = 0 ∧ 0 < len ∧ r0 = len)
      ∨ (op = 1 ∧ ref = [] ∧ len = a.length ∧ d = 0 ∧ 0 < len ∧ r0 = 0))
    (hpos : pos = start + refLen A + refLen W1 + d)
    (hR : slice R pos ref.length = ref)
    (hin2 : r0 + refLen W2a < ref.length + oh) (hcut : ref.length + oh ≤ r0 + refLen W2a + L)
    (hin : pos + ref.length + oh ≤ R.length)
    (hleft : oh ≤ refLen W1 + d ∨ endsWindow f14 A.reverse = true)
    (hq : slice query (qLen A) (refLen W1 + d + (a.length + (r0 - ref.length + refLen W2a))) =
      slice R (start + refLen A) (refLen W1 + d) ++ (a ++ slice R (pos + ref.length) (r0 - ref.length + refLen W2a))) :
    ∃ lp, window f14 ⟨pos, ref, alts⟩ query (A ++ W1 ++ (op, len) :: (W2a ++ (2, L) :: X)) (A ++ W1).length d
        ((qLen (A ++ W1) + d : Nat) : Int) R oh
      = .ok ⟨lp ++ a ++ slice R (pos + ref.length) (r0 - ref.length + refLen W2a),
             (ref :: alts).map (fun x => lp ++ x ++ slice R (pos + ref.length) (r0 - ref.length + refLen W2a)
               ++ slice R (pos + r0 + refLen W2a) (ref.length + oh - (r0 + refLen W2a)))⟩ := by
  obtain ⟨lw, hw⟩ := window_second_del_cut_right f14 R query pos ref a alts A W1 W2a X op len d L start oh r0
    hoh hW1 hW2a hshape hpos hR hin2 hcut hin hleft hq
  exact ⟨_, hw⟩

/-- … and `realign` returns allele `k` iff `x_k ++ g ++ ur'` is strictly closer to `a ++ g` than every other
`x_j ++ g ++ ur'` (`g` = reference between variant and deletion, `ur'` = the deleted bases inside the window). -/
theorem realign_second_del_cut_criterion (f14 : Bool) (R query : Seq) (pos : Nat) (ref a : Seq) (alts : List Seq)
    (hsym : ∀ x ∈ alts, x.head? ≠ some '<')
    (A W1 W2a X : Cigar) (op len d L start oh r0 : Nat) (hoh : 0 < oh)
    (hW1 : W1.all isMatchOp = true) (hW2a : W2a.all isMatchOp = true)
    (hshape : (isMatch op = true ∧ d < len ∧ d + ref.length ≤ len ∧ a.length = ref.length ∧ r0 = len - d)
      ∨ (op = 2 ∧ a = [] ∧ len = ref.length ∧ d = 0 ∧ 0 < len ∧ r0 = len)
      ∨ (op = 1 ∧ ref = [] ∧ len = a.length ∧ d = 0 ∧ 0 < len ∧ r0 = 0))
    (hpos : pos = start + refLen A + refLen W1 + d)
    (hR : slice R pos ref.length = ref)
    (hin2 : r0 + refLen W2a < ref.length + oh) (hcut : ref.length + oh ≤ r0 + refLen W2a + L)
    (hin : pos + ref.length + oh ≤ R.length)
    (hleft : oh ≤ refLen W1 + d ∨ endsWindow f14 A.reverse = true)
    (hq : slice query (qLen A) (refLen W1 + d + (a.length + (r0 - ref.length + refLen W2a))) =
      slice R (start + refLen A) (refLen W1 + d) ++ (a ++ slice R (pos + ref.length) (r0 - ref.length + refLen W2a)))
    (k : Nat) :
    realign f14 lev ⟨pos, ref, alts⟩ none query (A ++ W1 ++ (op, len) :: (W2a ++ (2, L) :: X)) (A ++ W1).length d
        ((qLen (A ++ W1) + d : Nat) : Int) R oh = .ok (some k) ↔
      ∃ xk, (ref :: alts)[k]? = some xk ∧ ∀ j xj, (ref :: alts)[j]? = some xj → j ≠ k →
        lev (a ++ slice R (pos + ref.length) (r0 - ref.length + refLen W2a))
            (xk ++ slice R (pos + ref.length) (r0 - ref.length + refLen W2a)
              ++ slice R (pos + r0 + refLen W2a) (ref.length + oh - (r0 + refLen W2a)))
        < lev (a ++ slice R (pos + ref.length) (r0 - ref.length + refLen W2a))
            (xj ++ slice R (pos + ref.length) (r0 - ref.length + refLen W2a)
              ++ slice R (pos + r0 + refLen W2a) (ref.length + oh - (r0 + refLen W2a))) := by
  obtain ⟨lp, hw⟩ := window_is_padded_allele_second_del_cut f14 R query pos ref a alts A W1 W2a X op len d L
    start oh r0 hoh hW1 hW2a hshape hpos hR hin2 hcut hin hleft hq
  have hs : isSymbolic ⟨pos, ref, alts⟩ = false := by
    simp only [isSymbolic, List.any_eq_false]
    intro x hx
    simpa using hsym x hx
  rw [realign_decision_iff f14 lev _ query _ _ _ _ R oh _ hs hw k]
  generalize slice R (pos + ref.length) (r0 - ref.length + refLen W2a) = g
  generalize slice R (pos + r0 + refLen W2a) (ref.length + oh - (r0 + refLen W2a)) = ur
  have hcancel : ∀ x : Seq, lev (lp ++ a ++ g) (lp ++ x ++ g ++ ur) = lev (a ++ g) (x ++ g ++ ur) := by
    intro x
    have e1 : lp ++ a ++ g = lp ++ (a ++ g) := by simp [List.append_assoc]
    have e2 : lp ++ x ++ g ++ ur = lp ++ (x ++ g ++ ur) := by simp [List.append_assoc]
    rw [e1, e2, lev_append_left]
  simp only [List.getElem?_map, Option.map_eq_some_iff]
  constructor
  · rintro ⟨pk, ⟨xk, hxk, rfl⟩, hall⟩
    refine ⟨xk, hxk, ?_⟩
    intro j xj hxj hjk
    have := hall j _ ⟨xj, hxj, rfl⟩ hjk
    rw [hcancel, hcancel] at this
    exact this
  · rintro ⟨xk, hxk, hall⟩
    refine ⟨_, ⟨xk, hxk, rfl⟩, ?_⟩
    rintro j pj ⟨xj, hxj, rfl⟩ hjk
    rw [hcancel, hcancel]
    exact hall j xj hxj hjk

/-! ### non-vacuity (cut deletion) -/
section NonVacuityCut
/-- reference `GGACCTTGGGGGG`, insertion `ε>TT` at 5; the haplotype also deletes `TTGG` at 5..8, overhang 3: the deletion
is cut by the window (`c = 3`); read `5M 2I 4D 4M` -/
example : window true ⟨5, [], [['T', 'T']]⟩ ['G', 'G', 'A', 'C', 'C', 'T', 'T', 'G', 'G', 'G', 'G']
    ([] ++ [(0, 5)] ++ (1, 2) :: ([] ++ (2, 4) :: [(0, 4)])) ([] ++ [(0, 5)]).length 0
    ((qLen ([] ++ [(0, 5)]) + 0 : Nat) : Int) Rt 3 =
    .ok ⟨['A', 'C', 'C', 'T', 'T'], [['A', 'C', 'C', 'T', 'T', 'G'], ['A', 'C', 'C', 'T', 'T', 'T', 'T', 'G']]⟩ := by decide
example : ∃ lp, window true ⟨5, [], [['T', 'T']]⟩ ['G', 'G', 'A', 'C', 'C', 'T', 'T', 'G', 'G', 'G', 'G']
    ([] ++ [(0, 5)] ++ (1, 2) :: ([] ++ (2, 4) :: [(0, 4)])) ([] ++ [(0, 5)]).length 0
    ((qLen ([] ++ [(0, 5)]) + 0 : Nat) : Int) Rt 3 = .ok ⟨lp ++ ['T', 'T'] ++ slice Rt (5 + 0) (0 - 0 + refLen []),
      ([] :: [['T', 'T']]).map (fun x => lp ++ x ++ slice Rt (5 + 0) (0 - 0 + refLen []) ++ slice Rt (5 + 0 + refLen []) (0 + 3 - (0 + refLen [])))⟩ :=
  window_is_padded_allele_second_del_cut true Rt _ 5 [] ['T', 'T'] [['T', 'T']] [] [(0, 5)] [] [(0, 4)] 1 2 0 4 0 3 0
    (by decide) (by decide) (by decide) (Or.inr (Or.inr ⟨rfl, rfl, rfl, rfl, by decide, rfl⟩)) (by decide) (by decide)
    (by decide) (by decide) (by decide) (Or.inl (by decide)) (by decide)
end NonVacuityCut


end WhVerif.Props.C06

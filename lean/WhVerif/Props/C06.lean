import WhVerif.Model.C06
import WhVerif.Lemmas.C06Lev
import WhVerif.Lemmas.C06Realign
import WhVerif.Lemmas.C06Cigar
import WhVerif.Lemmas.C06Iter
import WhVerif.Lemmas.C06Locate
/-!
# C06 — allele detection never assigns the wrong allele to an error-free read: theorems about the model

`f14` / `fx` select the as-is or the repaired behaviour of the defects found by this property's check
(see `Model/C06.lean:Fixes`); theorems that do not mention a specific value hold for both.
-/
namespace WhVerif.Props.C06
open WhVerif.C06

/-! ## `realign_sound` — the decision of `realign` -/

/-- symbolic ALT alleles (`<DEL>` …) are never decided -/
theorem realign_symbolic (f14 : Bool) (dist : Seq → Seq → Nat) (v : Variant) (r : Option (List Nat)) (query : Seq)
    (cigar : Cigar) (i consumed : Nat) (qp : Int) (reference : Seq) (oh : Nat) (hsym : isSymbolic v = true) :
    realign f14 dist v r query cigar i consumed qp reference oh = .ok none := by
  simp [realign, hsym]

/-- `realign_sound`, part 1: if the window's query is strictly closer to padded allele `h` than to every other padded
allele, `realign` returns `h`. -/
theorem realign_sound_strict (f14 : Bool) (dist : Seq → Seq → Nat) (v : Variant) (query : Seq) (cigar : Cigar)
    (i consumed : Nat) (qp : Int) (reference : Seq) (oh : Nat) (w : Window)
    (hsym : isSymbolic v = false) (hw : window f14 v query cigar i consumed qp reference oh = .ok w)
    (h : Nat) (ph : Seq) (hh : w.padded[h]? = some ph)
    (hs : ∀ k pk, w.padded[k]? = some pk → k ≠ h → dist w.query ph < dist w.query pk) :
    realign f14 dist v none query cigar i consumed qp reference oh = .ok (some h) := by
  simp only [realign, hsym, hw]
  apply decideAllele_strict _ h (dist w.query ph)
  · exact (mem_distances_none dist w h _).2 ⟨ph, hh, rfl⟩
  · rw [distances_none]; exact enumFrom_map_nodup _ _ _
  · intro y hy hne
    obtain ⟨k, d⟩ := y
    obtain ⟨pk, hk, rfl⟩ := (mem_distances_none dist w k d).1 hy
    apply hs k pk hk
    intro hkh; subst hkh
    rw [hh] at hk; cases hk; exact hne rfl

/-- `realign_sound`, part 2 (never the other allele; a tie is "cannot decide"): whenever `realign` returns an allele,
that allele's padded sequence is strictly closer to the query than every other padded allele. -/
theorem realign_sound_only_strict (f14 : Bool) (dist : Seq → Seq → Nat) (v : Variant) (query : Seq) (cigar : Cigar)
    (i consumed : Nat) (qp : Int) (reference : Seq) (oh : Nat) (w : Window)
    (hw : window f14 v query cigar i consumed qp reference oh = .ok w) (h : Nat)
    (hr : realign f14 dist v none query cigar i consumed qp reference oh = .ok (some h)) :
    ∃ ph, w.padded[h]? = some ph ∧ ∀ k pk, w.padded[k]? = some pk → k ≠ h → dist w.query ph < dist w.query pk := by
  unfold realign at hr
  split at hr
  · simp at hr
  · rw [hw] at hr
    obtain ⟨d, hm, hall⟩ := decideAllele_some _ h hr
    obtain ⟨ph, hph, rfl⟩ := (mem_distances_none dist w h d).1 hm
    refine ⟨ph, hph, ?_⟩
    intro k pk hk hne
    rcases hall (k, dist w.query pk) ((mem_distances_none dist w k _).2 ⟨pk, hk, rfl⟩) with heq | hlt
    · simp only [Prod.mk.injEq] at heq; exact absurd heq.1 hne
    · exact hlt

/-- `realign_sound`, tie: a bi-allelic variant whose two padded alleles are equally far from the query gets no allele -/
theorem realign_sound_tie (f14 : Bool) (dist : Seq → Seq → Nat) (v : Variant) (query : Seq) (cigar : Cigar)
    (i consumed : Nat) (qp : Int) (reference : Seq) (oh : Nat) (w : Window)
    (hsym : isSymbolic v = false) (hw : window f14 v query cigar i consumed qp reference oh = .ok w)
    (pr pa : Seq) (hp : w.padded = [pr, pa]) (htie : dist w.query pr = dist w.query pa) :
    realign f14 dist v none query cigar i consumed qp reference oh = .ok none := by
  simp [realign, hsym, hw, distances, hp, enumFrom, decideAllele, sortDist, insertDist, htie]

/-- `realign_sound`, exact match: with the true Levenshtein distance, a query that *is* padded allele `h` and differs
from every other padded allele is assigned `h`. -/
theorem realign_sound_exact (f14 : Bool) (v : Variant) (query : Seq) (cigar : Cigar)
    (i consumed : Nat) (qp : Int) (reference : Seq) (oh : Nat) (w : Window)
    (hsym : isSymbolic v = false) (hw : window f14 v query cigar i consumed qp reference oh = .ok w)
    (h : Nat) (hh : w.padded[h]? = some w.query)
    (hne : ∀ k pk, w.padded[k]? = some pk → k ≠ h → pk ≠ w.query) :
    realign f14 lev v none query cigar i consumed qp reference oh = .ok (some h) := by
  apply realign_sound_strict f14 lev v query cigar i consumed qp reference oh w hsym hw h w.query hh
  intro k pk hk hkh
  rw [lev_self]
  exact lev_pos_of_ne _ _ (fun e => hne k pk hk hkh e.symm)

/-- the executable distance used by the driver is `lev` -/
theorem realign_levFast (f14 : Bool) (v : Variant) (r : Option (List Nat)) (query : Seq) (cigar : Cigar)
    (i consumed : Nat) (qp : Int) (reference : Seq) (oh : Nat) :
    realign f14 levFast v r query cigar i consumed qp reference oh = realign f14 lev v r query cigar i consumed qp reference oh := by
  have : (levFast : Seq → Seq → Nat) = lev := by funext s t; exact levFast_eq_lev s t
  rw [this]

/-! ## `prefixLength_spec` — `cigar_prefix_length` -/

/-- `prefixLength_spec` (repaired N behaviour): for `k > 0` wanted reference bases, `cigar_prefix_length` returns the
numbers of reference and query bases in the longest prefix of the alignment (written out column by column) that ends
right after its `k`-th reference base and does not reach an N; in particular it is truncated at the end of the read,
an insertion directly after the `k`-th base is not counted, clips are not counted. -/
theorem prefixLength_spec (c : Cigar) (hops : ∀ p ∈ c, prefixOp p.1 = true) (hlen : ∀ p ∈ c, 0 < p.2)
    (k : Nat) (hk : 0 < k) :
    cigarPrefixLength true c k = .ok (countRef (takeRef k (expand c)), countQuery (takeRef k (expand c))) := by
  have := prefixGo_spec c hops hlen 0 0 k hk
  simpa [cigarPrefixLength] using this

/-- the reported number of reference bases never exceeds the request -/
theorem prefixLength_le (k : Nat) (cols : List Nat) : countRef (takeRef k cols) ≤ k := by
  induction cols generalizing k with
  | nil => cases k <;> simp [takeRef, countRef]
  | cons x xs ih =>
    cases k with
    | zero => simp [takeRef, countRef]
    | succ k =>
      simp only [takeRef]
      split
      · simp [countRef]
      · split
        · rename_i h; have := ih k; simp [countRef, h] at this ⊢; omega
        · rename_i h; have := ih (k + 1); simp [countRef, h] at this ⊢; omega

/-- without a reference skip the as-is code and the repaired code agree -/
theorem prefixLength_asis_noN (c : Cigar) (hN : ∀ p ∈ c, p.1 ≠ 3) (k : Nat) :
    cigarPrefixLength false c k = cigarPrefixLength true c k := prefixGo_noN c hN k 0 0

/-- defect F14 on the as-is model: at an N the *requested* 6 reference bases are reported although only 2 are aligned -/
example : cigarPrefixLength false [(0, 2), (3, 5), (0, 3)] 6 = .ok (6, 2)
    ∧ cigarPrefixLength true [(0, 2), (3, 5), (0, 3)] 6 = .ok (2, 2) := by
  constructor <;> rfl

/-! ## `iterateCigar_spec` — `_iterate_cigar` -/

theorem mem_enumFrom' {α} (l : List α) (n k : Nat) (x : α) :
    (k, x) ∈ enumFrom n l ↔ n ≤ k ∧ l[k - n]? = some x := by
  induction l generalizing n with
  | nil => simp [enumFrom]
  | cons y ys ih =>
    simp only [enumFrom, List.mem_cons, Prod.mk.injEq, ih]
    constructor
    · rintro (⟨rfl, rfl⟩ | ⟨h1, h2⟩)
      · simp
      · refine ⟨by omega, ?_⟩
        have : k - n = (k - (n + 1)) + 1 := by omega
        rw [this]; simpa using h2
    · rintro ⟨h1, h2⟩
      by_cases hk : k = n
      · left; subst hk; simp at h2; exact ⟨rfl, h2.symm⟩
      · right; refine ⟨by omega, ?_⟩
        have : k - n = (k - (n + 1)) + 1 := by omega
        rw [this] at h2; simpa using h2

theorem enumFrom_sorted (l : List Nat) (n : Nat) (hs : l.Pairwise (· < ·)) : SortedV (enumFrom n l) := by
  induction l generalizing n with
  | nil => simp [enumFrom, SortedV]
  | cons x xs ih =>
    simp only [List.pairwise_cons] at hs
    simp only [enumFrom, SortedV, List.pairwise_cons]
    refine ⟨?_, ih (n + 1) hs.2⟩
    intro b hb
    obtain ⟨k, y⟩ := b
    have := ((mem_enumFrom' xs (n + 1) k y).1 hb).2
    exact hs.1 y (List.mem_of_getElem? this)

theorem enumFrom_drop {α} (l : List α) (n j : Nat) : (enumFrom n l).drop j = enumFrom (n + j) (l.drop j) := by
  induction j generalizing l n with
  | zero => simp
  | succ j ih =>
    cases l with
    | nil => simp [enumFrom]
    | cons x xs => simp only [enumFrom, List.drop_succ_cons, ih]; congr 1; omega

/-- `iterateCigar_spec`: for strictly increasing variant positions and CIGAR operators 0–8 the lock-step walk raises no
error and yields, for the variants from index `j` on, *in order and at most once each*, exactly the variants whose
position the alignment's coordinate map `locate` finds — in an M/=/X or D operation, or at the reference position of an
I — together with that operation index, the offset inside it and the query offset. -/
theorem iterateCigar_spec (positions : List Nat) (j start : Nat) (c : Cigar)
    (hs : positions.Pairwise (· < ·)) (hops : ∀ p ∈ c, p.1 ≤ 8) :
    iterateCigar positions j start c =
      ((varRefsFrom positions j).filterMap (fun v => (locate v.2 0 start 0 c).map (yieldOfLoc v)), none) := by
  have hsv : SortedV (varRefsFrom positions j) :=
    List.Pairwise.sublist (List.drop_sublist _ _) (enumFrom_sorted positions 0 hs)
  unfold iterateCigar
  rw [iterGo_eq_locateAll c hops 0 start 0 _ (sorted_dropWhile _ hsv _) (by
    have := dropWhile_sorted_ge _ hsv start
    simpa using this)]
  congr 1
  have hsplit := List.takeWhile_append_dropWhile (p := fun v : VarRef => decide (v.2 < start)) (l := varRefsFrom positions j)
  conv => rhs; rw [← hsplit, List.filterMap_append]
  have e : (List.takeWhile (fun v : VarRef => decide (v.2 < start)) (varRefsFrom positions j)).filterMap
      (fun v => (locate v.2 0 start 0 c).map (yieldOfLoc v)) = [] := by
    rw [List.filterMap_eq_nil_iff]
    intro v hv
    have := takeWhile_lt _ start v hv
    simp [locate_lt v.2 0 start 0 c this]
  rw [e]; rfl

/-- the variants a yield can refer to: index ≥ `j`, position = `positions[index]` -/
theorem mem_varRefsFrom (positions : List Nat) (j k p : Nat) (h : (k, p) ∈ varRefsFrom positions j) :
    j ≤ k ∧ positions[k]? = some p := by
  unfold varRefsFrom at h
  rw [enumFrom_drop] at h
  have := (mem_enumFrom' _ _ k p).1 h
  refine ⟨by omega, ?_⟩
  have h2 := this.2
  rw [List.getElem?_drop] at h2
  have e : j + (k - (0 + j)) = k := by omega
  rwa [e] at h2

/-- `iterateCigar_spec`, meaning of a yield: the split point `(i, consumed)` cuts the CIGAR into a left and a right part
that re-assemble the alignment column by column; the left part consumes exactly the reference bases from the read start
to the variant position and `query_pos` query bases (clips included); the operation at the split point is M/=/X, D or I. -/
theorem iterateCigar_yield_sound (positions : List Nat) (j start : Nat) (c : Cigar)
    (hs : positions.Pairwise (· < ·)) (hops : ∀ p ∈ c, p.1 ≤ 8) (y : Yield)
    (hy : y ∈ (iterateCigar positions j start c).1) :
    ∃ p op len L R, j ≤ y.index ∧ positions[y.index]? = some p
      ∧ c[y.i]? = some (op, len) ∧ (isMatch op = true ∨ op = 1 ∨ op = 2)
      ∧ splitLeft c y.i y.consumed = .ok L ∧ splitRight c y.i y.consumed = .ok R
      ∧ expand (L.reverse ++ R) = expand c
      ∧ start + refLen L = p ∧ qLen L = y.queryPos := by
  rw [iterateCigar_spec positions j start c hs hops] at hy
  simp only [List.mem_filterMap, Option.map_eq_some_iff] at hy
  obtain ⟨v, hv, t, ht, rfl⟩ := hy
  obtain ⟨k, p⟩ := v
  obtain ⟨i', cons, q⟩ := t
  obtain ⟨hjk, hp⟩ := mem_varRefsFrom positions j k p hv
  obtain ⟨op, len, _, hc, hop, h1, h2, hr, hq⟩ := locate_sound p c 0 start 0 i' cons q ht
  simp only [Nat.sub_zero] at hc hr hq
  have hle : cons ≤ len := by
    by_cases e : op = 1
    · have := h1 e; omega
    · have := h2 e; omega
  obtain ⟨L, R, hL, hR, hexp, hrl, hql⟩ := split_reassemble c i' cons op len hc hle
  refine ⟨p, op, len, L, R, hjk, hp, hc, hop, hL, hR, hexp, ?_, ?_⟩
  · simp only [yieldOfLoc] at *
    rw [hrl]
    rcases hop with hm | rfl | rfl
    · simp [consumesRef, hm]; omega
    · have := h1 rfl; subst this; simp [consumesRef, isMatch_1]; omega
    · simp [consumesRef]; omega
  · simp only [yieldOfLoc]
    rw [hql, hq]
    rcases hop with hm | rfl | rfl
    · simp [consumesQuery, hm]
    · have := h1 rfl; subst this; simp [consumesQuery, isMatch_1]
    · simp [consumesQuery, isMatch_2]

/-- `iterateCigar_spec`, no yield outside the aligned span: a yielded variant lies in `[start, start + refLen]` -/
theorem iterateCigar_within_span (positions : List Nat) (j start : Nat) (c : Cigar)
    (hs : positions.Pairwise (· < ·)) (hops : ∀ p ∈ c, p.1 ≤ 8) (y : Yield)
    (hy : y ∈ (iterateCigar positions j start c).1) :
    ∃ p, positions[y.index]? = some p ∧ start ≤ p ∧ p ≤ start + refLen c := by
  rw [iterateCigar_spec positions j start c hs hops] at hy
  simp only [List.mem_filterMap, Option.map_eq_some_iff] at hy
  obtain ⟨v, hv, t, ht, rfl⟩ := hy
  obtain ⟨k, p⟩ := v
  obtain ⟨_, hp⟩ := mem_varRefsFrom positions j k p hv
  refine ⟨p, hp, ?_, ?_⟩
  · rcases Nat.lt_or_ge p start with h | h
    · rw [locate_lt p 0 start 0 c h] at ht; cases ht
    · exact h
  · rcases Nat.lt_or_ge (start + refLen c) p with h | h
    · rw [locate_gt_end p c 0 start 0 h] at ht; cases ht
    · exact h

/-- … and the position one past the last aligned base is yielded only if the alignment ends in an insertion -/
theorem iterateCigar_not_at_end (positions : List Nat) (j start : Nat) (c : Cigar)
    (hs : positions.Pairwise (· < ·)) (hops : ∀ p ∈ c, p.1 ≤ 8)
    (hI : ∀ k l, c[k]? = some (1, l) → 0 < refLen (c.drop (k + 1))) (y : Yield)
    (hy : y ∈ (iterateCigar positions j start c).1) :
    positions[y.index]? ≠ some (start + refLen c) := by
  rw [iterateCigar_spec positions j start c hs hops] at hy
  simp only [List.mem_filterMap, Option.map_eq_some_iff] at hy
  obtain ⟨v, hv, t, ht, rfl⟩ := hy
  obtain ⟨k, p⟩ := v
  obtain ⟨_, hp⟩ := mem_varRefsFrom positions j k p hv
  intro hcon
  simp only [yieldOfLoc] at hcon
  rw [hp] at hcon; cases hcon
  rw [locate_at_end c 0 start 0 hI] at ht; cases ht

/-- `iterateCigar_spec`, no yield inside a reference skip: a variant whose position lies inside an N operation (and not
exactly where an insertion in front of the N sits) is never yielded -/
theorem iterateCigar_not_in_N (positions : List Nat) (j start : Nat) (a b : Cigar) (len : Nat)
    (hs : positions.Pairwise (· < ·)) (hops : ∀ p ∈ a ++ (3, len) :: b, p.1 ≤ 8) (p : Nat)
    (hin : start + refLen a ≤ p ∧ p < start + refLen a + len)
    (hI : ∀ k l, a[k]? = some (1, l) → start + refLen (a.take k) ≠ p) (y : Yield)
    (hy : y ∈ (iterateCigar positions j start (a ++ (3, len) :: b)).1) :
    positions[y.index]? ≠ some p := by
  rw [iterateCigar_spec positions j start _ hs hops] at hy
  simp only [List.mem_filterMap, Option.map_eq_some_iff] at hy
  obtain ⟨v, hv, t, ht, rfl⟩ := hy
  obtain ⟨k, p'⟩ := v
  obtain ⟨_, hp⟩ := mem_varRefsFrom positions j k p' hv
  intro hcon
  simp only [yieldOfLoc] at hcon
  rw [hp] at hcon; cases hcon
  rw [locate_in_N _ a b len 0 start 0 hin hI] at ht; cases ht

end WhVerif.Props.C06

import WhVerif.Props.C01
import WhVerif.Lemmas.C02Thm
import WhVerif.Lemmas.C02Compose
import WhVerif.Lemmas.C02Example
import WhVerif.Lemmas.C02PipelineExample
import WhVerif.Lemmas.C02Raw
import WhVerif.Lemmas.C02Bam
import WhVerif.Lemmas.C02Stage
import WhVerif.Lemmas.C02Align
/-!
# C02 — property theorems (composition over the solver model)

`ErrFree I hap src` (Spec/C02.lean) says that the instance handed to the solver consists of error-free copies
of the two true haplotypes `hap` / `1 - hap` of one heterozygous sample (`src r` = which haplotype read `r`
copies): this is the contract of the stages before the solver (allele detection C06, read selection C07), and it
is checked as a seam on every pipeline run of the harness.  Under it:
-/
namespace WhVerif.Props.C02
open WhVerif.C01 WhVerif.C02 WhVerif.Cost

variable {I : Inst} {hap : Nat → Nat} {src : Nat → Bool}

/-- solver stage contract: if SOME bipartition/transmission vector has cost 0, the solver reports cost 0 -/
theorem solver_reports_zero (I : Inst) (h : WF I) (β : List Bool) (τ : List Nat)
    (h1 : β.length = I.nreads) (h2 : τ.length = I.ncols) (h3 : ∀ t ∈ τ, t < I.ntrans)
    (hz : totalCost I β τ = some 0) : dpCost I = some 0 := by
  have hs := WhVerif.Props.C01.dp_optimal_spelled I h
  have hle := hs.1 β τ h1 h2 h3
  rw [hz] at hle
  cases hd : dpCost I with
  | none => rw [hd] at hle; simp [cle] at hle
  | some v => rw [hd] at hle; simp [cle] at hle; rw [hle]

/-- the true bipartition has cost 0 -/
theorem errfree_truth_cost_zero (h : ErrFree I hap src) :
    totalCost I ((List.range I.nreads).map src) (List.replicate I.ncols 0) = some 0 :=
  WhVerif.C02.errfree_truth_cost_zero h

/-- hence the exact solver reports cost 0 on error-free reads -/
theorem errfree_dpCost_zero (h : ErrFree I hap src) (hwf : WF I) : dpCost I = some 0 :=
  WhVerif.C02.errfree_dpCost_zero h hwf

/-- a zero-cost bipartition separates two reads sharing a variant iff they copy different haplotypes -/
theorem zero_cost_separates (h : ErrFree I hap src) {β : List Bool} {τ : List Nat}
    (hz : totalCost I β τ = some 0) (r1 r2 : Nat) (hl : Linked I r1 r2) :
    (β.getD r1 false = β.getD r2 false ↔ src r1 = src r2) :=
  WhVerif.C02.zero_cost_separates h hz r1 r2 hl

/-- on every read-connected component a zero-cost bipartition is the truth or its complement -/
theorem zero_cost_component (h : ErrFree I hap src) {β : List Bool} {τ : List Nat}
    (hz : totalCost I β τ = some 0) (r0 : Nat) :
    (∀ r, Connected I r0 r → β.getD r false = src r) ∨
    (∀ r, Connected I r0 r → β.getD r false = !src r) :=
  WhVerif.C02.zero_cost_component h hz r0

/-- no covered column is a tie, and its super-read alleles are the truth up to the swap -/
theorem zero_cost_no_tie (h : ErrFree I hap src) {β : List Bool} {τ : List Nat}
    (hz : totalCost I β τ = some 0) (c : Nat) (hc : c < I.ncols) (t : Nat) (r : Nat) (hcov : covers I r c) :
    getAlleles I c (restrict β (I.activeAt c)) t =
      some [if β.getD r false = src r then (hap c, 1 - hap c) else (1 - hap c, hap c)] :=
  WhVerif.C02.zero_cost_no_tie h hz c hc t r hcov

/-- **Composition (solver level).**  Error-free reads, sorted instance, ANY witness `(β, τ)` that achieves the
reported cost (C01's witness clause): for every read-connected component (represented by a read `r0`), every
column covered by a read of that component gets exactly the true alleles `(hap c, 1 - hap c)` — or, for the
whole component at once, the swapped pair.  One swap per component, no tie flags. -/
theorem pipeline_truth (h : ErrFree I hap src) (hwf : WF I) (β : List Bool) (τ : List Nat)
    (hw : totalCost I β τ = dpCost I) (r0 r c : Nat) (hconn : Connected I r0 r) (hcov : covers I r c)
    (hc : c < I.ncols) :
    getAlleles I c (restrict β (I.activeAt c)) (τ.getD c 0) =
      some [if β.getD r0 false = src r0 then (hap c, 1 - hap c) else (1 - hap c, hap c)] :=
  WhVerif.C02.pipeline_truth_solver h hwf β τ hw r0 r c hconn hcov hc

/-- non-vacuity: the example instance of Lemmas/C02Example.lean is error-free, sorted and connected -/
example : ErrFree exInst exHap exSrc ∧ WF exInst ∧ Connected exInst 0 2 := ⟨exErrFree, exInst_wf, exConnected⟩

/-! ## Composition across the stage models: solver (C01) → components (C03) → writer (C04) → reader (C09)

`Spec/C02Pipeline.lean` defines the composed stage function for the single-sample case: `superReads` (C01's
`getAlleles` per column under the backtraced `witness I`, column `c` at genomic position `pos[c]`), `components`
(C03's `findComponents` on the instance's reads translated by `toC03Read`), the writer input `target`/`cfg`
(tag PS or HP, repaired writer), `writtenRecords` (C04's `writeChrom`) and `pipeline` (C09's `readChrom` on the written
records).  `PipelineOk S` collects what the pipeline establishes by construction: strictly increasing column
positions (one per column), position-sorted single-sample input records. -/
section pipeline
open WhVerif.C02P

/-- the positions of two covered columns are connected by reads in the sense of C03 (`find_components`) iff the
covering reads are connected in the sense of C02 (chains of reads sharing a column) -/
theorem components_match_read_connectivity (h : ErrFree I hap src) (pos : List Nat) (hpos : pos.Pairwise (· < ·))
    (hlen : pos.length = I.ncols) (c1 r1 c2 r2 : Nat) (cov1 : covers I r1 c1) (cov2 : covers I r2 c2) :
    C03.Connected pos (c03Reads I pos) none none (posAt pos c1) (posAt pos c2) ↔ Connected I r1 r2 :=
  ⟨fun hc => conn_bridge h hpos hlen hc c1 r1 c2 r2 rfl (WhVerif.C02.covers_active h cov1).2 cov1 rfl
      (WhVerif.C02.covers_active h cov2).2 cov2,
   fun hc => conn_bridge_rev h hpos hlen hc c1 c2 cov1 cov2⟩

/-- **Composition, step 1 (solver + components).**  Error-free reads, sorted instance: neither stage raises; the
super reads have one entry per column at its position; every covered column gets the phase-set name
`1 + leftmost position of its read-connected component` (C03) and exactly the true alleles `(hap c, 1 - hap c)`,
exchanged or not for the whole component at once (`swap m`); uncovered columns get the tie flag on both
haplotypes; two covered columns get the same phase set iff their positions are connected by reads. -/
theorem pipeline_truth_components (h : ErrFree I hap src) (hwf : WF I) (pos : List Nat)
    (hpos : pos.Pairwise (· < ·)) (hlen : pos.length = I.ncols) :
    ∃ sr comps, superReads I pos = some sr ∧ components I pos = .ok comps ∧ sr.map (·.1) = pos ∧
      (∃ swap : Nat → Bool, ∀ c, c < I.ncols →
        (Covered I c → ∃ m, C03.psOf comps (posAt pos c) = some (m + 1) ∧ m ∈ pos ∧
            C03.Connected pos (c03Reads I pos) none none (posAt pos c) m ∧
            (∀ q, C03.Connected pos (c03Reads I pos) none none (posAt pos c) q → m ≤ q) ∧
            sr[c]? = some (posAt pos c, truthPair hap (swap m) c)) ∧
        (¬ Covered I c → sr[c]? = some (posAt pos c, 3, 3))) ∧
      (∀ c1 c2, c1 < I.ncols → c2 < I.ncols →
        (C03.psOf comps (posAt pos c1) = C03.psOf comps (posAt pos c2) ↔
          C03.Connected pos (c03Reads I pos) none none (posAt pos c1) (posAt pos c2))) := by
  obtain ⟨β, τ, hw, hz⟩ := witness_ok h hwf
  obtain ⟨comps, hcomps⟩ := components_ok h hpos hlen
  obtain ⟨swap, hswap⟩ := component_swap h hpos hlen hz hcomps
  have hget : ∀ c, c < I.ncols →
      ((List.range I.ncols).map fun c => (posAt pos c, (colAl I β τ c).1, (colAl I β τ c).2))[c]? =
        some (posAt pos c, colAl I β τ c) := by
    intro c hc; simp [List.getElem?_range hc]
  refine ⟨_, comps, superReads_eq h hw, hcomps, ?_, ⟨swap, fun c hc => ⟨?_, ?_⟩⟩, ?_⟩
  · rw [List.map_map, ← hlen]; exact range_map_posAt pos
  · rintro ⟨r, hcov⟩
    obtain ⟨m, hm, hmem, hconn, hmin⟩ := WhVerif.Props.C03.component_is_min _ _ _ _ _ hcomps (posAt pos c)
      (posAt_mem pos (by omega))
    refine ⟨m, by simp [C03.psOf, hm, C03.psName], hmem, hconn, hmin, ?_⟩
    rw [hget c hc, hswap c r hc hcov m hm]
  · intro hn
    rw [hget c hc, colAl_uncovered h β τ hc hn]
  · intro c1 c2 h1 h2
    have hiff := WhVerif.Props.C03.components_iff_connected _ _ _ _ _ hcomps (posAt pos c1) (posAt pos c2)
      (posAt_mem pos (by omega)) (posAt_mem pos (by omega))
    rw [← hiff]
    unfold C03.psOf C03.psName
    cases C03.compOf comps (posAt pos c1) <;> cases C03.compOf comps (posAt pos c2) <;> simp

/-- **Composition, end to end (solver → components → writer → reader).**  Error-free reads, sorted instance, tag PS
or HP (repaired writer): no stage raises and the reader returns one row per biallelic input record such that
1. for every phase set of the decoded output, the decoded haplotype alleles at ALL its phased variants are the truth
   `hap c | 1 - hap c` — or, for the whole set at once, the exchanged pair (`sw`); every phased variant is a covered
   column of the instance;
2. the phase-set name is `1 +` the leftmost position connected to the variant by reads (C03);
3. every covered column that has a biallelic record is phased;
4. two phased variants are in the same phase set iff their positions are connected by reads (C03). -/
theorem pipeline_truth_end_to_end (S : Stage) (h : ErrFree S.I hap src) (hwf : WF S.I) (hin : PipelineOk S) :
    ∃ rows, pipeline S = some rows ∧
      rows.map (·.pos) = (S.records.filter biallelic).map (·.pos) ∧
      (∀ b : Option Int, ∃ sw : Bool, ∀ row ∈ rows, ∀ ph, (rowPhase row).2 = some ph → ph.block = b →
          ∃ c, c < S.I.ncols ∧ row.pos = posAt S.pos c ∧ Covered S.I c ∧
            ph.alleles = [some (truthPair hap sw c).1, some (truthPair hap sw c).2]) ∧
      (∀ row ∈ rows, ∀ ph, (rowPhase row).2 = some ph → ∃ m : Nat, ph.block = some ((m : Int) + 1) ∧ m ∈ S.pos ∧
          C03.Connected S.pos (c03Reads S.I S.pos) none none row.pos m ∧
          ∀ q, C03.Connected S.pos (c03Reads S.I S.pos) none none row.pos q → m ≤ q) ∧
      (∀ row ∈ rows, ∀ c, c < S.I.ncols → row.pos = posAt S.pos c → Covered S.I c → (rowPhase row).2 ≠ none) ∧
      (∀ row1 ∈ rows, ∀ row2 ∈ rows, ∀ ph1 ph2, (rowPhase row1).2 = some ph1 → (rowPhase row2).2 = some ph2 →
          (ph1.block = ph2.block ↔ C03.Connected S.pos (c03Reads S.I S.pos) none none row1.pos row2.pos)) := by
  obtain ⟨comps, rows, swap, T, hcomps, _, hpipe, hrows, hcov, hsome⟩ := stage_rows S h hwf hin
  -- every decoded phase is the expected statement of a covered column
  have key : ∀ row ∈ rows, ∀ ph, (rowPhase row).2 = some ph → ∃ c m, c < S.I.ncols ∧ row.pos = posAt S.pos c ∧
      Covered S.I c ∧ C03.compOf comps row.pos = some m ∧ ph = truthPhase hap (swap m) m c := by
    intro row hrow ph hph
    rw [row_written hrows hrow] at hph
    obtain ⟨c, hc, hp, hcv⟩ := hsome _ _ hph
    obtain ⟨m, hm, hw⟩ := hcov c hc hcv
    rw [← hp, hph] at hw
    exact ⟨c, m, hc, hp, hcv, by rw [hp]; exact hm, Option.some.inj hw⟩
  have hposmem : ∀ {p c}, c < S.I.ncols → p = posAt S.pos c → p ∈ S.pos := by
    intro p c hc hp; rw [hp]; exact posAt_mem S.pos (by have := hin.pos_len; omega)
  refine ⟨rows, hpipe, ?_, ?_, ?_, ?_, ?_⟩
  · have := congrArg (List.map Prod.fst) hrows
    rw [List.map_map, List.map_map] at this
    exact this
  · intro b
    refine ⟨swap ((b.getD 0) - 1).toNat, ?_⟩
    intro row hrow ph hph hb
    obtain ⟨c, m, hc, hp, hcv, _, rfl⟩ := key row hrow ph hph
    refine ⟨c, hc, hp, hcv, ?_⟩
    have : ((b.getD 0) - 1).toNat = m := by
      rw [← hb]; simp only [truthPhase, Option.getD_some]; omega
    rw [this]; rfl
  · intro row hrow ph hph
    obtain ⟨c, m, hc, hp, _, hm, rfl⟩ := key row hrow ph hph
    obtain ⟨m', hm', hmem, hconn, hmin⟩ := WhVerif.Props.C03.component_is_min _ _ _ _ _ hcomps row.pos
      (hposmem hc hp)
    have : m' = m := Option.some.inj (hm'.symm.trans hm)
    subst this
    exact ⟨m', rfl, hmem, hconn, hmin⟩
  · intro row hrow c hc hp hcv
    obtain ⟨m, _, hw⟩ := hcov c hc hcv
    rw [row_written hrows hrow, hp, hw]
    exact fun hh => by cases hh
  · intro row1 h1 row2 h2 ph1 ph2 hp1 hp2
    obtain ⟨c1, m1, hc1, hq1, _, hm1, rfl⟩ := key row1 h1 ph1 hp1
    obtain ⟨c2, m2, hc2, hq2, _, hm2, rfl⟩ := key row2 h2 ph2 hp2
    rw [← WhVerif.Props.C03.components_iff_connected _ _ _ _ _ hcomps row1.pos row2.pos (hposmem hc1 hq1)
      (hposmem hc2 hq2), hm1, hm2]
    simp only [truthPhase, Option.some.injEq]
    omega

/-- non-vacuity of both composition theorems: the 3-read example instance at positions 10, 20, 30 satisfies every
hypothesis, and the composed stage function evaluates on it (tag PS and tag HP) to one phase set named 11 carrying the
truth `0|1, 1|0, 0|1` -/
example (tag : WhVerif.C04.Tag) : ErrFree (exStage tag).I exHap exSrc ∧ WF (exStage tag).I ∧ PipelineOk (exStage tag) ∧
    (pipeline (exStage tag)).map (·.map rowPhase) =
      some [(10, some ⟨some 11, [some 0, some 1]⟩), (20, some ⟨some 11, [some 1, some 0]⟩),
            (30, some ⟨some 11, [some 0, some 1]⟩)] :=
  ⟨exErrFree, exInst_wf, exStage_ok tag, exPipeline tag⟩

example : ∃ sr comps, superReads exInst [10, 20, 30] = some sr ∧ components exInst [10, 20, 30] = .ok comps :=
  let ⟨sr, comps, h1, h2, _⟩ := pipeline_truth_components exErrFree exInst_wf [10, 20, 30] (by simp) rfl
  ⟨sr, comps, h1, h2⟩

end pipeline


/-! ## Seams A → B → C inside Lean: from the reads the pipeline holds to the solver's precondition

`Spec/C02Raw.lean`: the pipeline's reads are lists of `(position, allele, quality)`.  Stage A (allele detection) yields
the candidate reads; its contract for error-free data is `RawErrFree cands hapAt src` (every candidate is an error-free
copy of one true haplotype — a statement about each read by itself).  Stage B (read selection) keeps candidates number
`sel[0], sel[1], …` unchanged.  Stage C: `ColumnIterator` converts the kept reads and the accessible positions into the
column instance (`C01.mkInst`, proved faithful under C01).  `ErrFree`, which was the hypothesis of everything above, is now
a consequence. -/

/-- **pipeline_truth_from_raw_reads**.  Candidates satisfying stage A's contract, ANY selection of them, and a successful
    conversion of the selected reads over ANY column positions (with the trusted heterozygous genotype table of one sample):
    the solver's instance is `ErrFree` and `WF`, the solver reports cost 0, and every witness achieving the reported cost
    gives, on every read-connected component, exactly the true alleles with one swap — at the true haplotype of the column's
    genomic position `positions[c]`. -/
theorem pipeline_truth_from_raw_reads (cands : List RawRead) (hapAt : Nat → Nat) (srcC : Nat → Bool)
    (hA : RawErrFree cands hapAt srcC) (sel : List Nat) (hB : ∀ i ∈ sel, i < cands.length)
    (positions recomb : List Nat) (I : Inst)
    (hC : mkInst positions (selectReads cands sel) 1 [] (hetGeno positions.length) recomb = some I)
    (hpos : ∀ p ∈ positions, hapAt p ≤ 1) :
    let hap := fun c => hapAt (positions.getD c 0)
    let src := fun k => srcC (sel.getD k 0)
    ErrFree I hap src ∧ WF I ∧ dpCost I = some 0 ∧
    ∀ (β : List Bool) (τ : List Nat), totalCost I β τ = dpCost I →
      ∀ r0 r c, Connected I r0 r → covers I r c → c < I.ncols →
        getAlleles I c (restrict β (I.activeAt c)) (τ.getD c 0) =
          some [if β.getD r0 false = src r0 then (hap c, 1 - hap c) else (1 - hap c, hap c)] := by
  intro hap src
  have hef : ErrFree I hap src := errfree_of_raw hC hpos (rawErrFree_select hA sel hB)
  have hwf : WF I := mkInst_wf hC
  exact ⟨hef, hwf, WhVerif.C02.errfree_dpCost_zero hef hwf,
    fun β τ hw r0 r c hconn hcov hc => WhVerif.C02.pipeline_truth_solver hef hwf β τ hw r0 r c hconn hcov hc⟩

/-- **checked_precondition_sound**.  What the check evaluates on the traced solver input of every run (driver op
    `c02.errfree` = `rawPreconditionB`) is sufficient for the hypotheses of the solver theorems. -/
theorem checked_precondition_sound (positions : List Nat) (raws : List RawRead) (nind : Nat) (trios : List (Nat × Nat × Nat))
    (geno : List (List (List (Option Nat)))) (recomb : List Nat) (hapAt : Nat → Nat) (src : Nat → Bool)
    (h : rawPreconditionB positions raws nind trios geno recomb hapAt src = true) :
    ∃ I, mkInst positions raws nind trios geno recomb = some I ∧
      ErrFree I (fun c => hapAt (positions.getD c 0)) src ∧ WF I :=
  rawPreconditionB_sound h

/-- non-vacuity: four candidates over the positions 100 < 200 < 300 < 400 (truth 0,1,1,0 on haplotype 0), selection keeps
    numbers 0, 2, 3 (the dropped candidate was the only one covering 400 together with 300: the column structure changes),
    columns = positions of the kept reads -/
def exCands : List RawRead :=
  [⟨0, [(100, 0, 30), (200, 1, 30)]⟩, ⟨0, [(200, 0, 20), (300, 0, 20)]⟩, ⟨0, [(200, 1, 10), (300, 1, 10)]⟩,
   ⟨0, [(300, 0, 7), (400, 1, 7)]⟩]
def exTruth : Nat → Nat := hapAtOf [(100, 0), (200, 1), (300, 1), (400, 0)]
def exSrcC : Nat → Bool := fun k => k == 1 || k == 3

example : RawErrFree exCands exTruth exSrcC := (rawErrFreeB_iff _ _ _).mp (by decide)
example : (mkInst [100, 200, 300, 400] (selectReads exCands [0, 2, 3]) 1 [] (hetGeno 4) []).isSome = true := by decide
example : rawPreconditionB [100, 200, 300, 400] (selectReads exCands [0, 2, 3]) 1 [] (hetGeno 4) [] exTruth
    (fun k => exSrcC ([0, 2, 3].getD k 0)) = true := by decide
example : ∃ I, mkInst [100, 200, 300, 400] (selectReads exCands [0, 2, 3]) 1 [] (hetGeno 4) [] = some I ∧ dpCost I = some 0 := by
  cases h : mkInst [100, 200, 300, 400] (selectReads exCands [0, 2, 3]) 1 [] (hetGeno 4) [] with
  | none => exact absurd h (by decide)
  | some I =>
    exact ⟨I, rfl, (pipeline_truth_from_raw_reads exCands exTruth exSrcC ((rawErrFreeB_iff _ _ _).mp (by decide)) [0, 2, 3]
      (by decide) [100, 200, 300, 400] [] I h (by decide)).2.2.1⟩

/-! ## Round 10: the seams closed on the model side — real selection model (C07) and allele detection (C06) composed in

`Model/C02Stage.lean` composes `C06.readModel` (alignments → reads), `readset.sort()`, the `len(read) >= 2` filter and
`C07.sampleStage` (the selection of /repo) on reads that carry their alleles, and hands the kept reads to `C01.mkInst`.
`Spec/C02Align.lean` says what an error-free alignment of an SNV haplotype is. -/
section stages
open WhVerif.C02S WhVerif.C02A WhVerif.C06 WhVerif.C07

/-- **pipeline_truth_with_read_selection** (closes `seam-select` on the model side).  The sample's sorted read set `rs`, its
    candidates (`len(read) >= 2`) satisfying stage A's contract, and the REAL selection model (`C07.sampleStage` through `stageP`:
    any cap — also 0 —, any preferred source ids, any tie choices of the queue): the reads handed on are unchanged candidates
    (`selectReads` of the candidates at strictly increasing, duplicate-free indices), each a read of `rs` with ≥ 2 variants, and
    the conclusion of `pipeline_truth_from_raw_reads` holds — there is no free selection left. -/
theorem pipeline_truth_with_read_selection (rs : List ReadOut) (hapAt : Nat → Nat) (srcC : Nat → Bool)
    (hA : RawErrFree ((candidatesP rs).map toRaw) hapAt srcC)
    (cap : Nat) (prefIds choices : List Nat) (o : StageOut) (hB : stageP rs cap prefIds choices = .ok o)
    (positions recomb : List Nat) (I : Inst)
    (hC : mkInst positions (o.selected.map toRaw) 1 [] (hetGeno positions.length) recomb = some I)
    (hpos : ∀ p ∈ positions, hapAt p ≤ 1) :
    (∃ so, sampleStage (rs.map toSRead) cap prefIds choices = .ok so ∧ o.selIdx = so.selIdx ∧
      so.cands = o.cands.map toSRead ∧ so.selected = o.selected.map toSRead) ∧
    o.cands = candidatesP rs ∧ o.selIdx.Nodup ∧ o.selIdx.Pairwise (· ≤ ·) ∧
    (∀ r ∈ o.selected, r ∈ rs ∧ 2 ≤ r.variants.length) ∧
    o.selected.map toRaw = selectReads (o.cands.map toRaw) o.selIdx ∧
    (let hap := fun c => hapAt (positions.getD c 0)
     let src := fun k => srcC (o.selIdx.getD k 0)
     ErrFree I hap src ∧ WF I ∧ dpCost I = some 0 ∧
     ∀ (β : List Bool) (τ : List Nat), totalCost I β τ = dpCost I →
       ∀ r0 r c, Connected I r0 r → covers I r c → c < I.ncols →
         getAlleles I c (restrict β (I.activeAt c)) (τ.getD c 0) =
           some [if β.getD r0 false = src r0 then (hap c, 1 - hap c) else (1 - hap c, hap c)]) := by
  have sp := stageP_spec hB
  have hraw : o.selected.map toRaw = selectReads ((candidatesP rs).map toRaw) o.selIdx := by
    rw [sp.selected]; exact toRaw_select _ _ sp.bound
  obtain ⟨so, hso, h1, h2, h3⟩ := sp.so
  refine ⟨⟨so, hso, h1, by rw [sp.cands]; exact h2, h3⟩, sp.cands, sp.nodup, sp.sorted, ?_, by rw [sp.cands]; exact hraw, ?_⟩
  · intro r hr
    rw [sp.selected] at hr
    exact (mem_candidatesP rs r).1 (selected_mem sp.bound r hr)
  · rw [hraw] at hC
    exact pipeline_truth_from_raw_reads _ hapAt srcC hA o.selIdx (by simpa using sp.bound) positions recomb I hC hpos

/-- non-vacuity: the four candidates of `exCands` as pipeline reads plus a one-variant read; cap 1 keeps candidates 0 and 3, cap 2 keeps 0, 1, 3 (the column structure changes) -/
def exReads : List ReadOut :=
  [⟨"a", 0, 60, 100, "", -1, -1, [(100, 0, 30), (200, 1, 30)]⟩, ⟨"s", 0, 60, 150, "", -1, -1, [(200, 1, 30)]⟩,
   ⟨"b", 0, 60, 200, "", -1, -1, [(200, 0, 20), (300, 0, 20)]⟩, ⟨"c", 0, 60, 200, "", -1, -1, [(200, 1, 10), (300, 1, 10)]⟩,
   ⟨"d", 0, 60, 300, "", -1, -1, [(300, 0, 7), (400, 1, 7)]⟩]

example : ((candidatesP exReads).map toRaw).map (·.variants) = exCands.map (·.variants) := by decide
example : (match stageP exReads 15 [] [] with | .ok o => some (o.selIdx, o.selected.map (·.name)) | .error _ => none)
    = some ([0, 1, 2, 3], ["a", "b", "c", "d"]) := by decide
def exStageView (cap : Nat) : Option (List Nat × Bool) :=
  match stageP exReads cap [] [] with
  | .ok o => some (o.selIdx, (mkInst [100, 200, 300, 400] (o.selected.map toRaw) 1 [] (hetGeno 4) []).isSome)
  | .error _ => none
example : exStageView 1 = some ([0, 3], true) ∧ exStageView 2 = some ([0, 1, 3], true) := by decide

/-- **errfree_alignments_give_rawerrfree** (stage A for SNV inputs, no-reference detector — `_detect_alleles` +
    `_alignments_to_reads` + `_group_reads`/`create_read_from_group`, as-is or repaired: `cfg` arbitrary).  SNV-only variant list
    (single different REF/ALT bases, strictly increasing positions), a biallelic truth, and every alignment that passes the
    filter an error-free alignment (M/=/X blocks carry the haplotype's bases; clips, skips, any other operator allowed) of the
    haplotype of its template: `ReadSetReader.read` raises nothing that is not raised by the stream itself and every read it
    returns satisfies stage A's contract `RawErrFree` — and so do the sorted read set and its candidates, whatever the
    hash order of `ReadSet::sort`. -/
theorem errfree_alignments_give_rawerrfree (cfg : ReadCfg) (sources : List Source) (sample : Option String) (R : Seq)
    (vs : List Variant) (hapAt : Nat → Nat) (hsrc : Nat × String → Bool) (hin : SnvInput vs) (h01 : ∀ p, hapAt p ≤ 1)
    (hal : AlnsErrFree cfg sources sample R vs hapAt hsrc) (reads : List ReadOut)
    (h : readModel cfg sources sample none vs none = .ok reads) :
    RawErrFree (reads.map toRaw) hapAt (srcOf hsrc reads) ∧
    ∀ rank, RawErrFree ((candidatesP (sortReads rank reads)).map toRaw) hapAt (srcOf hsrc (candidatesP (sortReads rank reads))) := by
  have hall := readModel_errfree cfg sources sample R vs hapAt hsrc hin (fun v _ => h01 v.pos) hal reads h
  refine ⟨rawErrFree_of_mem hapAt reads (fun r => hsrc (r.sourceId, r.name)) hall, fun rank => ?_⟩
  apply rawErrFree_of_mem hapAt _ (fun r => hsrc (r.sourceId, r.name))
  intro r hr
  exact hall r ((mem_sortReads rank r reads).1 ((mem_candidatesP _ r).1 hr).1)

/-- **pipeline_truth_from_alignments** (alignment-level hypothesis → truth up to one swap per component).  SNV input, biallelic
    truth, every alignment passing the filter an error-free alignment of its template's haplotype; the composed stage model
    (`samplePipeline`: C06 reader without reference → `ReadSet::sort` with ANY hash order → `len >= 2` filter → C07 selection with
    ANY cap / preferred ids / tie choices → `accessible_positions`) returns the solver input `out`; `PedigreeDPTable`'s conversion
    succeeds on it: the instance is `ErrFree` and `WF`, the solver reports cost 0 and every witness achieving it carries, on every
    read-connected component, exactly the true alleles up to one swap. -/
theorem pipeline_truth_from_alignments (cfg : ReadCfg) (sources : List Source) (sample : Option String) (R : Seq)
    (vs : List Variant) (hapAt : Nat → Nat) (hsrc : Nat × String → Bool) (hin : SnvInput vs) (h01 : ∀ p, hapAt p ≤ 1)
    (hal : AlnsErrFree cfg sources sample R vs hapAt hsrc)
    (rank : ReadOut → Nat) (cap : Nat) (prefIds choices : List Nat) (out : PipeOut)
    (hP : samplePipeline cfg sources sample vs none rank cap prefIds choices = .ok out)
    (recomb : List Nat) (I : Inst)
    (hC : mkInst out.positions out.raws 1 [] (hetGeno out.positions.length) recomb = some I) :
    let hap := fun c => hapAt (out.positions.getD c 0)
    let src := srcOf hsrc out.stage.selected
    (∀ r ∈ out.stage.selected, r ∈ out.reads ∧ 2 ≤ r.variants.length) ∧
    ErrFree I hap src ∧ WF I ∧ dpCost I = some 0 ∧
    ∀ (β : List Bool) (τ : List Nat), totalCost I β τ = dpCost I →
      ∀ r0 r c, Connected I r0 r → covers I r c → c < I.ncols →
        getAlleles I c (restrict β (I.activeAt c)) (τ.getD c 0) =
          some [if β.getD r0 false = src r0 then (hap c, 1 - hap c) else (1 - hap c, hap c)] := by
  intro hap src
  unfold samplePipeline at hP
  split at hP
  · cases hP
  · rename_i rs hrs
    split at hP
    · cases hP
    · rename_i o ho
      cases hP
      simp only at hC
      have hall : ∀ r ∈ rs, RawReadOk hapAt (hsrc (r.sourceId, r.name)) (toRaw r) := by
        unfold readSorted at hrs
        split at hrs
        · cases hrs; intro r hr; cases hr
        · cases hrs
        · rename_i reads hreads
          cases hrs
          intro r hr
          exact readModel_errfree cfg sources sample R vs hapAt hsrc hin (fun v _ => h01 v.pos) hal reads hreads r
            ((mem_sortReads rank r reads).1 hr)
      have sp := stageP_spec ho
      have hsel : ∀ r ∈ o.selected, r ∈ rs ∧ 2 ≤ r.variants.length := by
        intro r hr
        rw [sp.selected] at hr
        exact (mem_candidatesP rs r).1 (selected_mem sp.bound r hr)
      have hraw : RawErrFree (o.selected.map toRaw) hapAt (srcOf hsrc o.selected) :=
        rawErrFree_of_mem hapAt o.selected (fun r => hsrc (r.sourceId, r.name)) (fun r hr => hall r (hsel r hr).1)
      have hef : ErrFree I hap src := errfree_of_raw hC (fun p _ => h01 p) hraw
      have hwf : WF I := mkInst_wf hC
      exact ⟨hsel, hef, hwf, WhVerif.C02.errfree_dpCost_zero hef hwf,
        fun β τ hw r0 r c hconn hcov hc => WhVerif.C02.pipeline_truth_solver hef hwf β τ hw r0 r c hconn hcov hc⟩

/-- With a reference (`detect_alleles_by_alignment`, the path the CLI check runs) the per-read statement is NOT proved:
    full statement = `errfree_alignments_give_rawerrfree` with `reference = some R`.  Proved part: ONE re-alignment call of an
    error-free read on an SNV under the hypotheses of C06's `realign_snv_mnp_correct` (the M/=/X block around the variant reaches
    the ±overhang window or the read ends there in clips) returns the carried allele WITH the quality 30 (> 0), i.e. an entry that
    satisfies `RawReadOk`.  Missing: lifting over `_iterate_cigar`'s yields for all variants of a read (variant at the first base of
    a block, windows reaching over an N or into the neighbouring SNV) and then the same chain as above. -/
theorem errfree_alignments_give_rawerrfree_realign_partial (f14 : Bool) (R query : Seq) (pos : Nat) (r a : Char) (h : Nat) (hh : h < 2)
    (A B : Cigar) (mop m start oh : Nat) (hm : isMatch mop = true) (hoh : 0 < oh) (hne : r ≠ a) (hsym : a ≠ '<')
    (hR : slice R pos 1 = [r])
    (hcov : start + refLen A ≤ pos ∧ pos + 1 ≤ start + refLen A + m) (hin : start + refLen A + m ≤ R.length)
    (hleft : oh ≤ pos - (start + refLen A) ∨ A.all isClip = true)
    (hright : oh ≤ start + refLen A + m - (pos + 1) ∨ B.all isClip = true)
    (hq : slice query (qLen A) m = slice (WhVerif.Props.C06.hapSeq R pos 1 (if h = 0 then [r] else [a])) (start + refLen A) m) :
    realignQ f14 none ⟨pos, [r], [[a]]⟩ none query (A ++ (mop, m) :: B) A.length (pos - (start + refLen A))
        ((qLen A + (pos - (start + refLen A)) : Nat) : Int) R oh = .ok (some (h, 30)) := by
  have hcorr := WhVerif.Props.C06.realign_snv_mnp_correct f14 R query pos [r] [a] h hh A B mop m start oh hm hoh rfl (by simp)
    (by simpa using hne) (by simpa using hsym) hR hcov hin hleft hright hq
  have key := WhVerif.Props.C06.realignQ_allele f14 none ⟨pos, [r], [[a]]⟩ none query (A ++ (mop, m) :: B) A.length
    (pos - (start + refLen A)) ((qLen A + (pos - (start + refLen A)) : Nat) : Int) R oh
  rw [show distOf none = (levFast : Seq → Seq → Nat) from rfl, WhVerif.Props.C06.realign_levFast, hcorr] at key
  have hq30 : ∀ x, realignQ f14 none ⟨pos, [r], [[a]]⟩ none query (A ++ (mop, m) :: B) A.length (pos - (start + refLen A))
      ((qLen A + (pos - (start + refLen A)) : Nat) : Int) R oh = .ok (some x) → x.2 = 30 := by
    intro x hx
    unfold realignQ at hx
    split at hx
    · cases hx
    · split at hx
      · cases hx
      · dsimp only at hx
        split at hx
        · cases hx
        · cases hx
        · cases hx; rfl
  cases hres : realignQ f14 none ⟨pos, [r], [[a]]⟩ none query (A ++ (mop, m) :: B) A.length (pos - (start + refLen A))
      ((qLen A + (pos - (start + refLen A)) : Nat) : Int) R oh with
  | error e => rw [hres] at key; cases key
  | ok o =>
    rw [hres] at key
    cases o with
    | none => cases key
    | some x =>
      have h2 := hq30 x hres
      obtain ⟨x1, x2⟩ := x
      simp only [Except.map, Option.map_some, Except.ok.injEq, Option.some.injEq] at key
      simp only at h2
      rw [key, h2]

/-! ### non-vacuity of the alignment-level theorems: reference `GGGAGGTGGG`, SNVs `A>C` at 3 and `T>G` at 6, truth `0|1`, `1|0`;
read `r1` (`6M` at 2) copies haplotype 0, read `r2` (`2S7M` at 1, with base qualities) copies haplotype 1 -/
section NonVacuityAlign
private instance {ε α} [DecidableEq ε] [DecidableEq α] : DecidableEq (Except ε α) := fun a b =>
  match a, b with
  | .ok x, .ok y => if h : x = y then isTrue (by rw [h]) else isFalse (by intro e; cases e; exact h rfl)
  | .error x, .error y => if h : x = y then isTrue (by rw [h]) else isFalse (by intro e; cases e; exact h rfl)
  | .ok _, .error _ => isFalse (by intro e; cases e)
  | .error _, .ok _ => isFalse (by intro e; cases e)

def exR : Seq := ['G', 'G', 'G', 'A', 'G', 'G', 'T', 'G', 'G', 'G']
def exVs : List Variant := [⟨3, ['A'], [['C']]⟩, ⟨6, ['T'], [['G']]⟩]
def exHapAt (p : Nat) : Nat := if p = 6 then 1 else 0
def exHsrc (k : Nat × String) : Bool := k.2 == "r2"
def exCfg : ReadCfg := ⟨20, false, false, 100000, 10, none, Fixes.all, false, false⟩
def exA1 : Aln := ⟨"r1", 0, 60, some "rg1", 2, some [(0, 6)], some ['G', 'A', 'G', 'G', 'G', 'G'], none, "", -1, some (-1), 0⟩
def exA2 : Aln := ⟨"r2", 0, 60, some "rg1", 1, some [(4, 2), (0, 7)], some ['T', 'T', 'G', 'G', 'C', 'G', 'G', 'T', 'G'],
  some [25, 25, 25, 25, 25, 25, 25, 25, 25], "", -1, some (-1), 0⟩
def exSrc : Source := ⟨[("rg1", some "S1")], [exA2, exA1]⟩

theorem exSnvInput : SnvInput exVs := by
  refine ⟨?_, by decide⟩
  intro v hv
  simp only [exVs, List.mem_cons, List.mem_nil_iff, or_false] at hv
  rcases hv with rfl | rfl
  · exact ⟨'A', 'C', rfl, rfl, by decide⟩
  · exact ⟨'T', 'G', rfl, rfl, by decide⟩

theorem exHapAt_le (p : Nat) : exHapAt p ≤ 1 := by unfold exHapAt; split <;> omega

theorem exAlns : AlnsErrFree exCfg [exSrc] (some "S1") exR exVs exHapAt exHsrc := by
  intro a ha
  have hst : oks (usableStream exCfg [exSrc] (some "S1") none) = [exA2, exA1] := by decide
  have hm : a ∈ oks (usableStream exCfg [exSrc] (some "S1") none) := (mem_oks _ _).2 ha
  rw [hst] at hm
  simp only [List.mem_cons, List.mem_nil_iff, or_false] at hm
  rcases hm with rfl | rfl
  · exact ⟨_, _, rfl, rfl, by decide, by decide, (fun l hl => by cases hl; exact ⟨rfl, by decide⟩),
      (errFreeAlnB_iff _ _ _ _ _).mp (by decide)⟩
  · exact ⟨_, _, rfl, rfl, by decide, by decide, (fun l hl => by cases hl),
      (errFreeAlnB_iff _ _ _ _ _).mp (by decide)⟩

def exPipeView : Bool :=
  match samplePipeline exCfg [exSrc] (some "S1") exVs none (fun _ => 0) 15 [] [] with
  | .ok out => out.stage.selected.map (fun r => (r.name, r.variants)) == [("r1", [(3, 0, 30), (6, 1, 30)]), ("r2", [(3, 1, 25), (6, 0, 25)])]
      && out.positions == [3, 6] && (mkInst out.positions out.raws 1 [] (hetGeno out.positions.length) []).isSome
  | .error _ => false

def exReadOk : Bool := match readModel exCfg [exSrc] (some "S1") none exVs none with | .ok _ => true | .error _ => false

/-- the composed model on the example: both reads are kept, `r1` carries `0, 1` and `r2` carries `1, 0` (quality = base quality
25), the columns are 3 and 6, `PedigreeDPTable`'s conversion succeeds -/
example : exPipeView = true := by decide +kernel

example : ∃ reads, readModel exCfg [exSrc] (some "S1") none exVs none = .ok reads ∧
    RawErrFree (reads.map toRaw) exHapAt (srcOf exHsrc reads) := by
  have hok : exReadOk = true := by decide +kernel
  unfold exReadOk at hok
  split at hok
  · rename_i reads h
    exact ⟨reads, h, (errfree_alignments_give_rawerrfree exCfg [exSrc] (some "S1") exR exVs exHapAt exHsrc exSnvInput exHapAt_le
      exAlns reads h).1⟩
  · cases hok

/-- the re-alignment call of the partial theorem on read `r2` and the SNV at 3 (overhang 2): allele 1, quality 30 -/
example : realignQ true none ⟨3, ['A'], [['C']]⟩ none ['T', 'T', 'G', 'G', 'C', 'G', 'G', 'T', 'G'] ([(4, 2)] ++ (0, 7) :: [])
    [(4, 2)].length (3 - (1 + refLen [(4, 2)])) ((qLen [(4, 2)] + (3 - (1 + refLen [(4, 2)])) : Nat) : Int) exR 2 = .ok (some (1, 30)) :=
  errfree_alignments_give_rawerrfree_realign_partial true exR _ 3 'A' 'C' 1 (by decide) [(4, 2)] [] 0 7 1 2 rfl (by decide) (by decide)
    (by decide) (by decide) ⟨by decide, by decide⟩ (by decide) (Or.inl (by decide)) (Or.inl (by decide)) (by decide)

end NonVacuityAlign

end stages

/-! ## The role of positive weights (round 10, seed C02-j)

`ErrFree` (field `entries`) and `RawErrFree` (`RawReadOk`) demand `0 < weight` for every allele observation; every theorem above
that concludes "truth up to one swap per read-connected component" uses it.  The weight is what the solver pays to contradict an
observation: a weight-0 observation carries no phase information, but the read still LINKS the columns it covers
(`covers`/`Linked`/`Connected` and C03's `find_components` do not look at weights).  With the documented behaviour the
weight is the constant 30 with a reference and the base quality without. -/
section weights

/-- made explicit: the hypothesis of the solver theorems includes positive weights on every observation -/
theorem errfree_weights_positive (h : ErrFree I hap src) (r : Nat) (hr : r < I.nreads) :
    ∀ e ∈ (I.read r).entries, 1 ≤ e.2.2 := fun e he => (h.entries r hr e he).2.2.2.1

/-- … and so does stage A's contract on the raw reads -/
theorem rawErrFree_weights_positive (raws : List RawRead) (hapAt : Nat → Nat) (srcC : Nat → Bool)
    (h : RawErrFree raws hapAt srcC) (k : Nat) (hk : k < raws.length) :
    ∀ v ∈ (raws.getD k default).variants, 1 ≤ v.2.2 := fun v hv => ((h k hk).2 v hv).1

/-- two islands (columns 0–1 and 2–3), each covered by a weight-30 read of either haplotype, joined ONLY by read 4, an
    error-free copy of haplotype 0 over columns 1–2 whose observations have weight 0 (base quality 0).  Truth: haplotype 0 carries
    0 everywhere. -/
def zwInst : Inst :=
  { ncols := 4
    reads := [ { ind := 0, first := 0, last := 1, entries := [(0, 0, 30), (1, 0, 30)] },
               { ind := 0, first := 0, last := 1, entries := [(0, 1, 30), (1, 1, 30)] },
               { ind := 0, first := 1, last := 2, entries := [(1, 0, 0), (2, 0, 0)] },
               { ind := 0, first := 2, last := 3, entries := [(2, 0, 30), (3, 0, 30)] },
               { ind := 0, first := 2, last := 3, entries := [(2, 1, 30), (3, 1, 30)] } ]
    nind := 1
    trios := []
    geno := [ [[none, some 0, none], [none, some 0, none], [none, some 0, none], [none, some 0, none]] ]
    recomb := [0, 10, 10, 10] }

theorem zwInst_wf : WF zwInst := by
  constructor
  intro r1 r2 h1 h2
  have hall : ∀ r2, r2 < 5 → ∀ r1, r1 ≤ r2 → (zwInst.read r1).first ≤ (zwInst.read r2).first := by decide
  exact hall r2 h2 r1 h1

/-- **zero_weight_link_witness**.  Without positive weights the conclusion fails: every read of `zwInst` carries the allele of
    its true haplotype (reads 0, 2, 3 copy haplotype 0, reads 1, 4 haplotype 1; only the weights of read 2 are 0), all reads are
    connected (read 0 — read 2 — read 3), yet BOTH relative orientations of the two islands have cost 0 = the optimum: the true
    bipartition and the one with the right island exchanged; the second one phases column 2 as `1|0` next to column 0 as `0|1`
    within the one read-connected component (one phase set for `find_components`) — not the truth and not its swap. -/
theorem zero_weight_link_witness :
    WF zwInst ∧ dpCost zwInst = some 0 ∧
    (∀ r, r < zwInst.nreads → ∀ e ∈ (zwInst.read r).entries,
        e.2.1 = (if [false, true, false, false, true].getD r false then 1 - 0 else 0)) ∧
    Connected zwInst 0 3 ∧ Connected zwInst 0 4 ∧
    totalCost zwInst [false, true, false, false, true] [0, 0, 0, 0] = some 0 ∧
    totalCost zwInst [false, true, false, true, false] [0, 0, 0, 0] = some 0 ∧
    getAlleles zwInst 0 (restrict [false, true, false, true, false] (zwInst.activeAt 0)) 0 = some [(0, 1)] ∧
    getAlleles zwInst 2 (restrict [false, true, false, true, false] (zwInst.activeAt 2)) 0 = some [(1, 0)] ∧
    getAlleles zwInst 2 (restrict [false, true, false, false, true] (zwInst.activeAt 2)) 0 = some [(0, 1)] := by
  have c03 : Connected zwInst 0 3 :=
    .step (r2 := 2) (.step (r2 := 0) (.refl 0 (by decide)) (by decide) ⟨1, by decide, by decide⟩) (by decide)
      ⟨2, by decide, by decide⟩
  refine ⟨zwInst_wf, by decide +kernel, by decide, c03, .step c03 (by decide) ⟨2, by decide, by decide⟩,
    by decide +kernel, by decide +kernel, by decide +kernel, by decide +kernel, by decide +kernel⟩

/-- the same instance with weight 30 on read 2 is `ErrFree`, and then `zero_cost_separates` excludes the second bipartition:
    its cost is not 0 -/
def zwInstPos : Inst := { zwInst with reads := zwInst.reads.set 2 { ind := 0, first := 1, last := 2, entries := [(1, 0, 30), (2, 0, 30)] } }
theorem zwInstPos_errfree : ErrFree zwInstPos (fun _ => 0) (fun r => [false, true, false, false, true].getD r false) := by
  constructor <;> decide
example : totalCost zwInstPos [false, true, false, true, false] [0, 0, 0, 0] ≠ some 0 := fun hz => by
  have := zero_cost_separates zwInstPos_errfree hz 2 3 ⟨2, by decide, by decide⟩
  revert this; decide

end weights

/-! ## The premise "the reads given for a sample": which alignments are a sample's reads (round 8)

`whatshap phase` takes any number of alignment files; read-group ids are only unique within ONE file (per-sample BAMs all
use `@RG ID:1`).  Model: `Model/C02Bam.lean` (every file has its own table sample -> read-group ids). -/
section reads_of_a_sample
open WhVerif.C02Bam

/-- the reads taken for `sample` are exactly the alignments (with the index of their file) whose `RG` tag names, in the header
    of the alignment's OWN file, a read group of `sample` — whatever other files say about that id -/
theorem fetched_reads_are_the_samples (files : List BamFile) (sample : String) (rs : List (Nat × Aln))
    (h : fetch files sample = some rs) (j : Nat) (a : Aln) :
    (j, a) ∈ rs ↔ ∃ f, files[j]? = some f ∧ a ∈ f.alns ∧ OwnedBy f a sample := by
  unfold fetch at h
  split at h
  · cases h
    rw [mem_fetchFrom]
    constructor
    · rintro ⟨k, f, hk, rfl, h⟩
      exact ⟨f, by simpa using hk, h⟩
    · rintro ⟨f, hj, h⟩
      exact ⟨j, f, hj, by omega, h⟩
  · cases h

/-- the run is refused (`SampleNotFoundError`) exactly when no header names the sample -/
theorem fetch_none_iff (files : List BamFile) (sample : String) :
    fetch files sample = none ↔ ∀ f ∈ files, ∀ g ∈ f.rgs, g.sm ≠ some sample := by
  unfold fetch
  split <;> rename_i h
  · simp only [List.any_eq_true, hasSample, beq_iff_eq] at h
    obtain ⟨f, hf, g, hg, hsm⟩ := h
    simp only [reduceCtorEq, false_iff]
    intro hall
    exact hall f hf g hg hsm
  · simp only [true_iff]
    intro f hf g hg hsm
    apply h
    simp only [List.any_eq_true, hasSample, beq_iff_eq]
    exact ⟨f, hf, g, hg, hsm⟩

/-- with read-group ids unique within each header, no alignment is taken as a read of two different samples -/
theorem fetched_reads_disjoint (files : List BamFile) (s s' : String) (hne : s ≠ s')
    (huniq : ∀ f ∈ files, ∀ g ∈ f.rgs, ∀ g' ∈ f.rgs, g.id = g'.id → g = g')
    (rs rs' : List (Nat × Aln)) (h : fetch files s = some rs) (h' : fetch files s' = some rs') :
    ∀ x ∈ rs, x ∉ rs' := by
  rintro ⟨j, a⟩ hx hx'
  obtain ⟨f, hf, _, g, hg, hsm, hid⟩ := (fetched_reads_are_the_samples files s rs h j a).mp hx
  obtain ⟨f', hf', _, g', hg', hsm', hid'⟩ := (fetched_reads_are_the_samples files s' rs' h' j a).mp hx'
  have : f = f' := by simpa [hf] using hf'
  subst this
  have hmem : f ∈ files := List.mem_of_getElem? hf
  have : g = g' := huniq f hmem g hg g' hg' (by rw [hid, hid'])
  subst this
  exact hne (by simpa [hsm] using hsm')

/-- two per-sample files that both call their read group "1" -/
def exFiles : List BamFile :=
  [⟨[⟨"1", some "A"⟩], [⟨"a1", "1"⟩, ⟨"a2", "1"⟩]⟩, ⟨[⟨"1", some "B"⟩, ⟨"2", none⟩], [⟨"b1", "1"⟩]⟩]

example : fetch exFiles "A" = some [(0, ⟨"a1", "1"⟩), (0, ⟨"a2", "1"⟩)] := by decide
example : fetch exFiles "B" = some [(1, ⟨"b1", "1"⟩)] := by decide
example : fetch exFiles "C" = none := by decide
example : ∀ f ∈ exFiles, ∀ g ∈ f.rgs, ∀ g' ∈ f.rgs, g.id = g'.id → g = g' := by decide

end reads_of_a_sample

end WhVerif.Props.C02

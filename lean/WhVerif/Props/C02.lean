import WhVerif.Props.C01
import WhVerif.Lemmas.C02Thm
import WhVerif.Lemmas.C02Example
/-!
# C02 — property theorems (composition over the solver model)

`ErrFree I hap src` (Spec/C02.lean) says that the instance handed to the solver consists of error-free copies
of the two true haplotypes `hap` / `1 - hap` of one heterozygous sample (`src r` = which haplotype read `r`
copies): this is the contract of the stages before the solver (allele detection C06, read selection C07), and it
is checked as a seam on every pipeline run of the harness.  Under it:
-/
namespace WhVerif.Props.C02
open WhVerif.C01 WhVerif.C02 WhVerif.Cost

variable {I : Inst} {hap : Nat → Nat} {src : Nat → Bool}

/-- solver stage contract: if SOME bipartition/transmission vector has cost 0, the solver reports cost 0 -/
theorem solver_reports_zero (I : Inst) (h : WF I) (β : List Bool) (τ : List Nat)
    (h1 : β.length = I.nreads) (h2 : τ.length = I.ncols) (h3 : ∀ t ∈ τ, t < I.ntrans)
    (hz : totalCost I β τ = some 0) : dpCost I = some 0 := by
  have hs := WhVerif.Props.C01.dp_optimal_spelled I h
  have hle := hs.1 β τ h1 h2 h3
  rw [hz] at hle
  cases hd : dpCost I with
  | none => rw [hd] at hle; simp [cle] at hle
  | some v => rw [hd] at hle; simp [cle] at hle; rw [hle]

/-- the true bipartition has cost 0 -/
theorem errfree_truth_cost_zero (h : ErrFree I hap src) :
    totalCost I ((List.range I.nreads).map src) (List.replicate I.ncols 0) = some 0 :=
  WhVerif.C02.errfree_truth_cost_zero h

/-- hence the exact solver reports cost 0 on error-free reads -/
theorem errfree_dpCost_zero (h : ErrFree I hap src) (hwf : WF I) : dpCost I = some 0 :=
  WhVerif.C02.errfree_dpCost_zero h hwf

/-- a zero-cost bipartition separates two reads sharing a variant iff they copy different haplotypes -/
theorem zero_cost_separates (h : ErrFree I hap src) {β : List Bool} {τ : List Nat}
    (hz : totalCost I β τ = some 0) (r1 r2 : Nat) (hl : Linked I r1 r2) :
    (β.getD r1 false = β.getD r2 false ↔ src r1 = src r2) :=
  WhVerif.C02.zero_cost_separates h hz r1 r2 hl

/-- on every read-connected component a zero-cost bipartition is the truth or its complement -/
theorem zero_cost_component (h : ErrFree I hap src) {β : List Bool} {τ : List Nat}
    (hz : totalCost I β τ = some 0) (r0 : Nat) :
    (∀ r, Connected I r0 r → β.getD r false = src r) ∨
    (∀ r, Connected I r0 r → β.getD r false = !src r) :=
  WhVerif.C02.zero_cost_component h hz r0

/-- no covered column is a tie, and its super-read alleles are the truth up to the swap -/
theorem zero_cost_no_tie (h : ErrFree I hap src) {β : List Bool} {τ : List Nat}
    (hz : totalCost I β τ = some 0) (c : Nat) (hc : c < I.ncols) (t : Nat) (r : Nat) (hcov : covers I r c) :
    getAlleles I c (restrict β (I.activeAt c)) t =
      some [if β.getD r false = src r then (hap c, 1 - hap c) else (1 - hap c, hap c)] :=
  WhVerif.C02.zero_cost_no_tie h hz c hc t r hcov

/-- **Composition (solver level).**  Error-free reads, sorted instance, ANY witness `(β, τ)` that achieves the
reported cost (C01's witness clause): for every read-connected component (represented by a read `r0`), every
column covered by a read of that component gets exactly the true alleles `(hap c, 1 - hap c)` — or, for the
whole component at once, the swapped pair.  One swap per component, no tie flags. -/
theorem pipeline_truth (h : ErrFree I hap src) (hwf : WF I) (β : List Bool) (τ : List Nat)
    (hw : totalCost I β τ = dpCost I) (r0 r c : Nat) (hconn : Connected I r0 r) (hcov : covers I r c)
    (hc : c < I.ncols) :
    getAlleles I c (restrict β (I.activeAt c)) (τ.getD c 0) =
      some [if β.getD r0 false = src r0 then (hap c, 1 - hap c) else (1 - hap c, hap c)] := by
  have hz : totalCost I β τ = some 0 := by rw [hw]; exact WhVerif.C02.errfree_dpCost_zero h hwf
  rw [WhVerif.C02.zero_cost_no_tie h hz c hc (τ.getD c 0) r hcov]
  have hr := WhVerif.C02.zero_cost_connected h hz hconn
  have : (β.getD r false = src r) ↔ (β.getD r0 false = src r0) := by
    rw [hr]
    cases src r <;> cases src r0 <;> cases β.getD r0 false <;> simp
  by_cases h0 : β.getD r0 false = src r0
  · rw [if_pos h0, if_pos (this.mpr h0)]
  · rw [if_neg h0, if_neg (fun hh => h0 (this.mp hh))]

/-- non-vacuity: the example instance of Lemmas/C02Example.lean is error-free, sorted and connected -/
example : ErrFree exInst exHap exSrc ∧ WF exInst ∧ Connected exInst 0 2 := ⟨exErrFree, exInst_wf, exConnected⟩

end WhVerif.Props.C02

import WhVerif.Props.C01
/-!
# C02 — property theorems (composition over the solver model)

The theorems about zero-cost solutions of error-free instances are being added in Lemmas/C02*.lean; this file
re-exports them.  For now: the solver stage contract used by the composition.
-/
namespace WhVerif.Props.C02
open WhVerif.C01 WhVerif.Cost

/-- solver stage contract: if SOME bipartition/transmission vector has cost 0, the solver reports cost 0 -/
theorem solver_reports_zero (I : Inst) (h : WF I) (β : List Bool) (τ : List Nat)
    (h1 : β.length = I.nreads) (h2 : τ.length = I.ncols) (h3 : ∀ t ∈ τ, t < I.ntrans)
    (hz : totalCost I β τ = some 0) : dpCost I = some 0 := by
  have hs := WhVerif.Props.C01.dp_optimal_spelled I h
  have hle := hs.1 β τ h1 h2 h3
  rw [hz] at hle
  cases hd : dpCost I with
  | none => rw [hd] at hle; simp [cle] at hle
  | some v => rw [hd] at hle; simp [cle] at hle; rw [hle]

end WhVerif.Props.C02

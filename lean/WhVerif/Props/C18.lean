import WhVerif.Lemmas.C18Abs
import WhVerif.Lemmas.C18UF
/-!
# C18 — priority queue and component finder match their abstract models on all histories

Model: `WhVerif/Model/C18.lean`; specifications (`Inv`, `AStep`, `ARun`, `replay`, `Allowed`, `Conn`, …):
`WhVerif/Spec/C18.lean`.
-/
namespace WhVerif.Props.C18
open WhVerif.C18

/-! ## A. `_vector_score_lower` is a strict total order (so "not lower" is a total preorder `≥`) -/

theorem scoreLower_irrefl (a : Score) : scoreLower a a = false := WhVerif.C18.scoreLower_irrefl a

theorem scoreLower_trans (a b c : Score) (h1 : scoreLower a b = true) (h2 : scoreLower b c = true) :
    scoreLower a c = true := WhVerif.C18.scoreLower_trans a b c h1 h2

theorem scoreLower_asymm (a b : Score) (h : scoreLower a b = true) : scoreLower b a = false :=
  WhVerif.C18.scoreLower_asymm a b h

theorem scoreLower_trichotomy (a b : Score) : scoreLower a b = true ∨ a = b ∨ scoreLower b a = true :=
  WhVerif.C18.scoreLower_trichotomy a b

/-- `a ≥ b` and `b ≥ c` give `a ≥ c` where `x ≥ y` is `scoreLower x y = false` -/
theorem scoreGe_trans (a b c : Score) (h1 : scoreLower a b = false) (h2 : scoreLower b c = false) :
    scoreLower a c = false := WhVerif.C18.scoreLower_negtrans a b c h1 h2

theorem scoreGe_total (a b : Score) : scoreLower a b = false ∨ scoreLower b a = false :=
  WhVerif.C18.scoreLower_total a b

/-- `≥` is antisymmetric: a genuine total order, ties are equal score vectors -/
theorem scoreGe_antisymm (a b : Score) (h1 : scoreLower a b = false) (h2 : scoreLower b a = false) :
    a = b := by
  rcases WhVerif.C18.scoreLower_trichotomy a b with h | h | h
  · simp [h] at h1
  · exact h
  · simp [h] at h2

example : scoreLower [1, 2] [1, 3] = true ∧ scoreLower [1, 3] [2] = true ∧ scoreLower [1, 2] [2] = true := by decide
example : scoreLower [1] [1, 0] = true ∧ scoreLower [1, 0] [1] = false := by decide
example : scoreLower [3, 1] [2, 9] = false ∧ scoreLower [2, 9] [2] = false := by decide

/-! ## B. the heap refines the abstract map -/

theorem inv_empty : Inv ({} : PQ) := WhVerif.C18.inv_empty

/-- every operation (also the misuse answers, which leave the state unchanged) preserves the invariant -/
theorem step_preserves_inv (q : PQ) (hinv : Inv q) (op : Op) : Inv (step q op).1 :=
  (step_refines hinv op).1

theorem push_preserves_inv (q : PQ) (hinv : Inv q) (s : Score) (item : Nat) (hnew : q.contains item = false) :
    Inv (q.push s item) := by
  have := (step_refines hinv (.push s item)).1
  simpa [step, hnew] using this

theorem pop_preserves_inv (q q' : PQ) (e : Entry) (hinv : Inv q) (h : q.pop = some (e, q')) : Inv q' := by
  have := (step_refines hinv .pop).1
  simpa [step, h] using this

theorem changeScore_preserves_inv (q q' : PQ) (hinv : Inv q) (item : Nat) (s : Score)
    (h : q.changeScore item s = some q') : Inv q' := by
  have := (step_refines hinv (.change item s)).1
  simpa [step, h] using this

/-- misuse answers leave the state unchanged -/
theorem misuse_unchanged (q : PQ) (op : Op) (h : (step q op).2 = .misuse) : (step q op).1 = q := by
  cases op with
  | push s item => simp only [step] at h ⊢; split <;> simp_all
  | pop => simp only [step] at h ⊢; split <;> simp_all
  | change item s => simp only [step] at h ⊢; split <;> simp_all
  | get item => rfl
  | len => rfl
  | isEmpty => rfl

/-- the invariant holds after every history from the empty queue -/
theorem inv_reachable (ops : List Op) : Inv (exec {} ops) := exec_inv WhVerif.C18.inv_empty ops

/-- `pop` returns a queued entry of maximal score and removes exactly it; empty queue = `none` -/
theorem pop_returns_max (q : PQ) (hinv : Inv q) :
    match q.pop with
    | none => q.entries = []
    | some (e, q') => q.entries.Perm ((e.item, e.score) :: q'.entries) ∧
        ∀ p ∈ q.entries, scoreLower e.score p.2 = false := by
  obtain ⟨ho, hp⟩ := (inv_iff q).mp hinv
  cases hpop : q.pop with
  | none =>
    have := (pop_none_iff q).mp hpop
    simp [PQ.entries, Array.eq_empty_of_size_eq_zero this]
  | some r =>
    obtain ⟨e, q'⟩ := r
    obtain ⟨_, _, hperm, hmax, _⟩ := pop_some hpop ho hp
    exact ⟨hperm, hmax⟩

/-- one step from a state satisfying the invariant is a step of the abstract queue on the heap's entries -/
theorem step_refines_map (q : PQ) (hinv : Inv q) (op : Op) :
    AStep q.entries op (step q op).1.entries (step q op).2 := (step_refines hinv op).2

/-- **refinement**: for every history from the empty queue, the list of answers is a list of answers of
the abstract queue (finite map item ↦ score; `pop` removes some entry of maximal score). -/
theorem pq_refines_map (ops : List Op) : ARun [] ops (run {} ops) :=
  run_refines WhVerif.C18.inv_empty ops

/-- the same from any state satisfying the invariant -/
theorem pq_refines_map_from (q : PQ) (hinv : Inv q) (ops : List Op) : ARun q.entries ops (run q ops) :=
  run_refines hinv ops

/-- the abstract queue keeps its keys distinct -/
theorem astep_keys_nodup (M M' : AMap) (op : Op) (o : Out) (hn : M.keys.Nodup) (h : AStep M op M' o) :
    M'.keys.Nodup := (astep_replay hn (.refl M) h).1

/-- **explicit form**: the `k`-th answer of any history from the empty queue is the answer `Allowed` by
the finite map `replay [] …` of the items queued with the scores last assigned (computed from the
operations and the earlier answers only): `pop` answers an entry of that map with maximal score (or
`empty` iff the map is empty), `get`/`len`/`isEmpty` report exactly that map, `push`/`change` answer
`misuse` iff the item is already / not queued. -/
theorem pq_answers_allowed (ops : List Op) (k : Nat) (hk : k < ops.length) :
    (replay [] (ops.take k) ((run {} ops).take k)).keys.Nodup ∧
    Allowed (replay [] (ops.take k) ((run {} ops).take k)) ops[k]
      ((run {} ops)[k]'(by rw [run_length]; exact hk)) :=
  arun_allowed (pq_refines_map ops) (by simp [AMap.keys]) (.refl _) k hk

/-- the heap's entries after a history are the replayed map -/
theorem entries_eq_replay (ops : List Op) :
    (exec {} ops).entries.Perm (replay [] ops (run {} ops)) := by
  suffices h : ∀ (q : PQ) (N : AMap), Inv q → q.entries.keys.Nodup → q.entries.Perm N →
      (exec q ops).entries.Perm (replay N ops (run q ops)) by
    exact h {} [] WhVerif.C18.inv_empty (by simp [PQ.entries, AMap.keys]) (by simp [PQ.entries])
  induction ops with
  | nil => intro q N _ _ h; exact h
  | cons op ops ih =>
    intro q N hinv hn hperm
    obtain ⟨hinv', hstep⟩ := step_refines hinv op
    obtain ⟨hn', hperm', _⟩ := astep_replay hn hperm hstep
    exact ih _ _ hinv' hn' hperm'

/-- in a history suffix consisting only of pops, successive popped scores are non-increasing -/
theorem pop_nonincreasing (ops : List Op) (k : Nat) :
    ((run {} (ops ++ List.replicate k .pop)).drop ops.length).Pairwise
      (fun o1 o2 => ∀ s1 i1 s2 i2, o1 = .popped s1 i1 → o2 = .popped s2 i2 → scoreLower s1 s2 = false) := by
  rw [run_append, List.drop_left' (run_length _ _)]
  exact arun_pops_pairwise (run_refines (inv_reachable ops) _)

/-- two successive pops: the second score is not greater than the first -/
theorem pop_pop_nonincreasing (q q1 q2 : PQ) (e1 e2 : Entry) (hinv : Inv q)
    (h1 : q.pop = some (e1, q1)) (h2 : q1.pop = some (e2, q2)) : scoreLower e1.score e2.score = false := by
  have a := pop_returns_max q hinv
  have b := pop_returns_max q1 (pop_preserves_inv q q1 e1 hinv h1)
  rw [h1] at a; rw [h2] at b
  exact a.2 _ (a.1.mem_iff.mpr (List.mem_cons_of_mem _ (b.1.mem_iff.mpr (List.mem_cons_self ..))))

/-- lookups report exactly the queued items: `get_score_by_item`, `len`, `is_empty`, `in` -/
theorem reports_exactly_queued (q : PQ) (hinv : Inv q) (item : Nat) :
    q.getScore item = q.entries.lookup item ∧ q.len = q.entries.length ∧
      q.isEmpty = q.entries.isEmpty ∧ (q.contains item = true ↔ item ∈ q.entries.keys) ∧
      q.entries.keys.Nodup := by
  obtain ⟨ho, hp⟩ := (inv_iff q).mp hinv
  have hn : q.entries.keys.Nodup := entries_keys_nodup hp
  refine ⟨?_, by simp [PQ.len, PQ.entries], ?_, ?_, hn⟩
  · cases hg : q.getScore item with
    | none => rw [lookup_of_not_mem (getScore_none hp hg)]
    | some s => rw [lookup_of_mem hn (getScore_some hp hg)]
  · rw [Bool.eq_iff_iff]; simp [PQ.isEmpty, PQ.entries]
  · rw [mem_keys_iff hp, PQ.contains, Option.isSome_iff_exists]

/-- draining a queue yields exactly its entries (as a multiset), used by C07 -/
theorem drain_is_permutation (q : PQ) (hinv : Inv q) :
    (run q (List.replicate q.len .pop)).Perm (q.entries.map (fun p => Out.popped p.2 p.1)) := by
  have h := run_refines hinv (List.replicate q.len .pop)
  have hl : q.len = q.entries.length := by simp [PQ.len, PQ.entries]
  rw [hl] at h ⊢
  exact arun_drain h

/-! ### non-vacuity -/

/-- a concrete 4-entry heap with equal scores, tuple scores of different lengths -/
def exQ : PQ := exec {} [.push [1, 2] 7, .push [3] 4, .push [1, 2] 5, .push [1, 2, 0] 9, .change 7 [0]]

example : exQ.heap.size = 4 ∧ exQ.contains 9 = true ∧ exQ.contains 3 = false := by decide +kernel
example : Inv exQ := inv_reachable _
example : exQ.pop.map (·.1) = some ⟨[3], 4⟩ := by decide +kernel
example : (exQ.changeScore 5 [9]).isSome = true := by decide +kernel
example : ((exQ.pop.bind (·.2.pop)).map (·.1)) = some ⟨[1, 2, 0], 9⟩ := by decide +kernel
example : AStep [] (.push [1] 1) [(1, [1])] .unit ∧ AMap.keys [] = [] := ⟨.push (by simp [AMap.keys]) (.refl _), rfl⟩
example : (step exQ (.push [0] 4)).2 = .misuse ∧ (step exQ (.change 3 [0])).2 = .misuse := by decide +kernel
example : run {} [.push [1] 1, .push [2] 2, .change 1 [3], .pop, .get 1, .get 2, .len, .pop, .pop, .isEmpty]
    = [.unit, .unit, .unit, .popped [3] 1, .score none, .score (some [2]), .len 1, .popped [2] 2, .empty,
       .isEmpty true] := by decide +kernel

/-! ## C. the component finder (union-find, smaller value becomes root, path compression) -/

/-- initially there are no parent links -/
theorem parent_lt_init (values : List Nat) : (UF.init values).ParentLt := (uinv_init values).parentLt

/-- `parent_lt` (every stored parent is strictly smaller than the node and is itself a key) is preserved
by `_find_node` (path compression) … -/
theorem parent_lt_find (u u' : UF) (v r : Nat) (hpl : u.ParentLt) (h : u.findNode v = some (u', r)) :
    u'.ParentLt := (findNode_spec hpl h).2.2.2.2.1

/-- … and by `merge` -/
theorem parent_lt_merge (u u' : UF) (x y : Nat) (hpl : u.ParentLt) (h : u.merge x y = some u') :
    u'.ParentLt := merge_parentLt hpl h

/-- consequence of `parent_lt`: the fuel `nodes.length` of the model's root loop is never exhausted —
climbing from a key reaches a real root (`parent = None`), which is a key not greater than the start;
more fuel gives the same answer. This is the termination of the first `while` loop of `_find_node`. -/
theorem root_reaches_real_root (u : UF) (v : Nat) (hpl : u.ParentLt) (hk : u.isKey v) :
    u.RootOf v (u.root v) ∧ u.parentOf (u.root v) = some none ∧ u.root v ≤ v ∧
      ∀ k, u.rootFuel (u.nodes.length + k) v = u.root v := by
  have h := root_spec hpl hk
  refine ⟨h, rootOf_isRoot h, rootOf_le hpl h, fun k => ?_⟩
  exact rootFuel_stable hpl hk _ (by have := cnt_lt_length hk; omega)

/-- the compression loop is not cut short by its fuel either (second `while` loop of `_find_node`) -/
theorem compression_fuel_suffices (u : UF) (v k : Nat) (hpl : u.ParentLt) (hk : u.isKey v) :
    u.compressFuel (u.root v) (u.nodes.length + k) v = u.compressFuel (u.root v) u.nodes.length v :=
  compressFuel_stable' hpl (root_spec hpl hk) k

/-- path compression changes no root (hence no class), no key set -/
theorem compression_preserves_classes (u u' : UF) (v r : Nat) (hpl : u.ParentLt)
    (h : u.findNode v = some (u', r)) :
    r = u.root v ∧ (∀ w, u'.root w = u.root w) ∧ (∀ w, u'.isKey w ↔ u.isKey w) := by
  obtain ⟨_, e, _, k, _, _, _, rt⟩ := findNode_spec hpl h
  exact ⟨e, rt, k⟩

/-- the invariant holds initially and after every history of merges and finds, w.r.t. the pairs
successfully merged so far -/
theorem uf_inv_reachable (values : List Nat) (ops : List UOp) :
    UInv values (UF.mergedPairs (UF.init values) ops) (UF.exec (UF.init values) ops) := by
  simpa using uinv_exec (uinv_init values) ops

theorem uf_inv_merge (values : List Nat) (pairs : List (Nat × Nat)) (u u' : UF) (x y : Nat)
    (hi : UInv values pairs u) (h : u.merge x y = some u') : UInv values (pairs ++ [(x, y)]) u' :=
  uinv_merge hi h

/-- `find x` is the minimum of `x`'s connected component in the graph of merged pairs -/
theorem find_eq_min_of_class (values : List Nat) (pairs : List (Nat × Nat)) (u u' : UF) (x r : Nat)
    (hi : UInv values pairs u) (h : u.find x = some (u', r)) :
    r ∈ values ∧ Conn pairs x r ∧ ∀ y, y ∈ values → Conn pairs x y → r ≤ y := by
  obtain ⟨_, hr, _, hc, hmin, _⟩ := find_spec hi h
  exact ⟨hr, hc, hmin⟩

/-- the same after any history from `ComponentFinder(values)`; `find` raises iff `x` is not a value -/
theorem find_eq_min_of_class_history (values : List Nat) (ops : List UOp) (x : Nat) :
    match (UF.exec (UF.init values) ops).find x with
    | none => x ∉ values
    | some (_, r) => x ∈ values ∧ r ∈ values ∧ Conn (UF.mergedPairs (UF.init values) ops) x r ∧
        ∀ y, y ∈ values → Conn (UF.mergedPairs (UF.init values) ops) x y → r ≤ y := by
  have hi := uf_inv_reachable values ops
  cases h : (UF.exec (UF.init values) ops).find x with
  | none => exact (find_none_iff hi).mp h
  | some p =>
    obtain ⟨u', r⟩ := p
    obtain ⟨hx, hr, _, hc, hmin, _⟩ := find_spec hi h
    exact ⟨hx, hr, hc, hmin⟩

/-- **history form**: in every history of merges and finds from `ComponentFinder(values)`, the `k`-th
answer, if the operation is `find x`, is the minimum of the class of `x` w.r.t. the pairs merged before
(`none` = KeyError iff `x` is not a value). -/
theorem uf_history_finds (values : List Nat) (ops : List UOp) (k : Nat) (hk : k < ops.length) (x : Nat)
    (hop : ops[k] = .find x) :
    match (UF.run (UF.init values) ops)[k]'(by rw [ufrun_length]; exact hk) with
    | none => x ∉ values
    | some none => False
    | some (some r) => x ∈ values ∧ r ∈ values ∧
        Conn (UF.mergedPairs (UF.init values) (ops.take k)) x r ∧
        ∀ y, y ∈ values → Conn (UF.mergedPairs (UF.init values) (ops.take k)) x y → r ≤ y := by
  rw [ufrun_getElem _ _ k hk, hop]
  have := find_eq_min_of_class_history values (ops.take k) x
  simp only [UF.step]
  cases h : (UF.exec (UF.init values) (ops.take k)).find x with
  | none => simpa [h] using this
  | some p => obtain ⟨u', r⟩ := p; simpa [h] using this

/-- two elements share a representative iff they are connected (finds in sequence, with compression) -/
theorem same_rep_iff_connected (values : List Nat) (pairs : List (Nat × Nat)) (u u1 u2 : UF)
    (x y rx ry : Nat) (hi : UInv values pairs u) (h1 : u.find x = some (u1, rx))
    (h2 : u1.find y = some (u2, ry)) : rx = ry ↔ Conn pairs x y := by
  obtain ⟨hx, _, ex, _, _, hi1⟩ := find_spec hi h1
  obtain ⟨hy, _, ey, _, _, _⟩ := find_spec hi1 h2
  rw [conn_iff_root hi1 hx hy, ← ey]
  obtain ⟨_, _, _, _, _, _, _, rt⟩ := findNode_spec hi.parentLt h1
  rw [rt x, ← ex]

/-- `merge` raises exactly when `x = y` (the `assert`) or a value is unknown (`KeyError`) -/
theorem merge_raises_iff (values : List Nat) (pairs : List (Nat × Nat)) (u : UF) (x y : Nat)
    (hi : UInv values pairs u) : u.merge x y = none ↔ (x = y ∨ x ∉ values ∨ y ∉ values) :=
  merge_none_iff hi

/-! ### non-vacuity -/

def exOps : List UOp := [.merge 5 8, .merge 9 1, .find 9, .merge 8 9, .merge 3 3, .merge 3 7, .find 8, .find 3]
def exU : UF := UF.exec (UF.init [5, 3, 8, 1, 9, 3]) exOps

example : UF.run (UF.init [5, 3, 8, 1, 9, 3]) exOps =
    [some none, some none, some (some 1), some none, none, none, some (some 1), some (some 3)] := by decide
example : UF.mergedPairs (UF.init [5, 3, 8, 1, 9, 3]) exOps = [(5, 8), (9, 1), (8, 9)] := by decide
example : exU.ParentLt ∧ exU.isKey 8 ∧ exU.parentOf 5 = some (some 1) :=
  ⟨(uf_inv_reachable _ _).parentLt, by unfold UF.isKey; decide, by decide⟩
example : UInv [5, 3, 8, 1, 9, 3] [(5, 8), (9, 1), (8, 9)] exU := uf_inv_reachable _ exOps
example : (exU.find 8).map (·.2) = some 1 ∧ (exU.merge 3 9).isSome = true := by decide

end WhVerif.Props.C18

import WhVerif.Lemmas.C18Abs
/-!
# C18 — priority queue and component finder match their abstract models on all histories

Model: `WhVerif/Model/C18.lean`; specifications (`Inv`, `AStep`, `ARun`, `replay`, `Allowed`, `Conn`, …):
`WhVerif/Spec/C18.lean`.
-/
namespace WhVerif.Props.C18
open WhVerif.C18

/-! ## A. `_vector_score_lower` is a strict total order (so "not lower" is a total preorder `≥`) -/

theorem scoreLower_irrefl (a : Score) : scoreLower a a = false := WhVerif.C18.scoreLower_irrefl a

theorem scoreLower_trans (a b c : Score) (h1 : scoreLower a b = true) (h2 : scoreLower b c = true) :
    scoreLower a c = true := WhVerif.C18.scoreLower_trans a b c h1 h2

theorem scoreLower_asymm (a b : Score) (h : scoreLower a b = true) : scoreLower b a = false :=
  WhVerif.C18.scoreLower_asymm a b h

theorem scoreLower_trichotomy (a b : Score) : scoreLower a b = true ∨ a = b ∨ scoreLower b a = true :=
  WhVerif.C18.scoreLower_trichotomy a b

/-- `a ≥ b` and `b ≥ c` give `a ≥ c` where `x ≥ y` is `scoreLower x y = false` -/
theorem scoreGe_trans (a b c : Score) (h1 : scoreLower a b = false) (h2 : scoreLower b c = false) :
    scoreLower a c = false := WhVerif.C18.scoreLower_negtrans a b c h1 h2

theorem scoreGe_total (a b : Score) : scoreLower a b = false ∨ scoreLower b a = false :=
  WhVerif.C18.scoreLower_total a b

/-- `≥` is antisymmetric: a genuine total order, ties are equal score vectors -/
theorem scoreGe_antisymm (a b : Score) (h1 : scoreLower a b = false) (h2 : scoreLower b a = false) :
    a = b := by
  rcases WhVerif.C18.scoreLower_trichotomy a b with h | h | h
  · simp [h] at h1
  · exact h
  · simp [h] at h2

example : scoreLower [1, 2] [1, 3] = true ∧ scoreLower [1, 3] [2] = true ∧ scoreLower [1, 2] [2] = true := by decide
example : scoreLower [1] [1, 0] = true ∧ scoreLower [1, 0] [1] = false := by decide
example : scoreLower [3, 1] [2, 9] = false ∧ scoreLower [2, 9] [2] = false := by decide

/-! ## B. the heap refines the abstract map -/

theorem inv_empty : Inv ({} : PQ) := WhVerif.C18.inv_empty

/-- every operation (also the misuse answers, which leave the state unchanged) preserves the invariant -/
theorem step_preserves_inv (q : PQ) (hinv : Inv q) (op : Op) : Inv (step q op).1 :=
  (step_refines hinv op).1

theorem push_preserves_inv (q : PQ) (hinv : Inv q) (s : Score) (item : Nat) (hnew : q.contains item = false) :
    Inv (q.push s item) := by
  have := (step_refines hinv (.push s item)).1
  simpa [step, hnew] using this

theorem pop_preserves_inv (q q' : PQ) (e : Entry) (hinv : Inv q) (h : q.pop = some (e, q')) : Inv q' := by
  have := (step_refines hinv .pop).1
  simpa [step, h] using this

theorem changeScore_preserves_inv (q q' : PQ) (hinv : Inv q) (item : Nat) (s : Score)
    (h : q.changeScore item s = some q') : Inv q' := by
  have := (step_refines hinv (.change item s)).1
  simpa [step, h] using this

/-- misuse answers leave the state unchanged -/
theorem misuse_unchanged (q : PQ) (op : Op) (h : (step q op).2 = .misuse) : (step q op).1 = q := by
  cases op with
  | push s item => simp only [step] at h ⊢; split <;> simp_all
  | pop => simp only [step] at h ⊢; split <;> simp_all
  | change item s => simp only [step] at h ⊢; split <;> simp_all
  | get item => rfl
  | len => rfl
  | isEmpty => rfl

/-- the invariant holds after every history from the empty queue -/
theorem inv_reachable (ops : List Op) : Inv (exec {} ops) := exec_inv WhVerif.C18.inv_empty ops

/-- `pop` returns a queued entry of maximal score and removes exactly it; empty queue = `none` -/
theorem pop_returns_max (q : PQ) (hinv : Inv q) :
    match q.pop with
    | none => q.entries = []
    | some (e, q') => q.entries.Perm ((e.item, e.score) :: q'.entries) ∧
        ∀ p ∈ q.entries, scoreLower e.score p.2 = false := by
  obtain ⟨ho, hp⟩ := (inv_iff q).mp hinv
  cases hpop : q.pop with
  | none =>
    have := (pop_none_iff q).mp hpop
    simp [PQ.entries, Array.eq_empty_of_size_eq_zero this]
  | some r =>
    obtain ⟨e, q'⟩ := r
    obtain ⟨_, _, hperm, hmax, _⟩ := pop_some hpop ho hp
    exact ⟨hperm, hmax⟩

/-- one step from a state satisfying the invariant is a step of the abstract queue on the heap's entries -/
theorem step_refines_map (q : PQ) (hinv : Inv q) (op : Op) :
    AStep q.entries op (step q op).1.entries (step q op).2 := (step_refines hinv op).2

/-- **refinement**: for every history from the empty queue, the list of answers is a list of answers of
the abstract queue (finite map item ↦ score; `pop` removes some entry of maximal score). -/
theorem pq_refines_map (ops : List Op) : ARun [] ops (run {} ops) :=
  run_refines WhVerif.C18.inv_empty ops

/-- the same from any state satisfying the invariant -/
theorem pq_refines_map_from (q : PQ) (hinv : Inv q) (ops : List Op) : ARun q.entries ops (run q ops) :=
  run_refines hinv ops

/-- the abstract queue keeps its keys distinct -/
theorem astep_keys_nodup (M M' : AMap) (op : Op) (o : Out) (hn : M.keys.Nodup) (h : AStep M op M' o) :
    M'.keys.Nodup := (astep_replay hn (.refl M) h).1

/-- **explicit form**: the `k`-th answer of any history from the empty queue is the answer `Allowed` by
the finite map `replay [] …` of the items queued with the scores last assigned (computed from the
operations and the earlier answers only): `pop` answers an entry of that map with maximal score (or
`empty` iff the map is empty), `get`/`len`/`isEmpty` report exactly that map, `push`/`change` answer
`misuse` iff the item is already / not queued. -/
theorem pq_answers_allowed (ops : List Op) (k : Nat) (hk : k < ops.length) :
    (replay [] (ops.take k) ((run {} ops).take k)).keys.Nodup ∧
    Allowed (replay [] (ops.take k) ((run {} ops).take k)) ops[k]
      ((run {} ops)[k]'(by rw [run_length]; exact hk)) :=
  arun_allowed (pq_refines_map ops) (by simp [AMap.keys]) (.refl _) k hk

/-- the heap's entries after a history are the replayed map -/
theorem entries_eq_replay (ops : List Op) :
    (exec {} ops).entries.Perm (replay [] ops (run {} ops)) := by
  suffices h : ∀ (q : PQ) (N : AMap), Inv q → q.entries.keys.Nodup → q.entries.Perm N →
      (exec q ops).entries.Perm (replay N ops (run q ops)) by
    exact h {} [] WhVerif.C18.inv_empty (by simp [PQ.entries, AMap.keys]) (by simp [PQ.entries])
  induction ops with
  | nil => intro q N _ _ h; exact h
  | cons op ops ih =>
    intro q N hinv hn hperm
    obtain ⟨hinv', hstep⟩ := step_refines hinv op
    obtain ⟨hn', hperm', _⟩ := astep_replay hn hperm hstep
    exact ih _ _ hinv' hn' hperm'

/-- in a history suffix consisting only of pops, successive popped scores are non-increasing -/
theorem pop_nonincreasing (ops : List Op) (k : Nat) :
    ((run {} (ops ++ List.replicate k .pop)).drop ops.length).Pairwise
      (fun o1 o2 => ∀ s1 i1 s2 i2, o1 = .popped s1 i1 → o2 = .popped s2 i2 → scoreLower s1 s2 = false) := by
  rw [run_append, List.drop_left' (run_length _ _)]
  exact arun_pops_pairwise (run_refines (inv_reachable ops) _)

/-- two successive pops: the second score is not greater than the first -/
theorem pop_pop_nonincreasing (q q1 q2 : PQ) (e1 e2 : Entry) (hinv : Inv q)
    (h1 : q.pop = some (e1, q1)) (h2 : q1.pop = some (e2, q2)) : scoreLower e1.score e2.score = false := by
  have a := pop_returns_max q hinv
  have b := pop_returns_max q1 (pop_preserves_inv q q1 e1 hinv h1)
  rw [h1] at a; rw [h2] at b
  exact a.2 _ (a.1.mem_iff.mpr (List.mem_cons_of_mem _ (b.1.mem_iff.mpr (List.mem_cons_self ..))))

/-- lookups report exactly the queued items: `get_score_by_item`, `len`, `is_empty`, `in` -/
theorem reports_exactly_queued (q : PQ) (hinv : Inv q) (item : Nat) :
    q.getScore item = q.entries.lookup item ∧ q.len = q.entries.length ∧
      q.isEmpty = q.entries.isEmpty ∧ (q.contains item = true ↔ item ∈ q.entries.keys) ∧
      q.entries.keys.Nodup := by
  obtain ⟨ho, hp⟩ := (inv_iff q).mp hinv
  have hn : q.entries.keys.Nodup := entries_keys_nodup hp
  refine ⟨?_, by simp [PQ.len, PQ.entries], ?_, ?_, hn⟩
  · cases hg : q.getScore item with
    | none => rw [lookup_of_not_mem (getScore_none hp hg)]
    | some s => rw [lookup_of_mem hn (getScore_some hp hg)]
  · rw [Bool.eq_iff_iff]; simp [PQ.isEmpty, PQ.entries]
  · rw [mem_keys_iff hp, PQ.contains, Option.isSome_iff_exists]

/-- draining a queue yields exactly its entries (as a multiset), used by C07 -/
theorem drain_is_permutation (q : PQ) (hinv : Inv q) :
    (run q (List.replicate q.len .pop)).Perm (q.entries.map (fun p => Out.popped p.2 p.1)) := by
  have h := run_refines hinv (List.replicate q.len .pop)
  have hl : q.len = q.entries.length := by simp [PQ.len, PQ.entries]
  rw [hl] at h ⊢
  exact arun_drain h

/-! ### non-vacuity -/

/-- a concrete 4-entry heap with equal scores, tuple scores of different lengths -/
def exQ : PQ := exec {} [.push [1, 2] 7, .push [3] 4, .push [1, 2] 5, .push [1, 2, 0] 9, .change 7 [0]]

example : exQ.heap.size = 4 ∧ exQ.contains 9 = true ∧ exQ.contains 3 = false := by decide +kernel
example : Inv exQ := inv_reachable _
example : exQ.pop.map (·.1) = some ⟨[3], 4⟩ := by decide +kernel
example : (exQ.changeScore 5 [9]).isSome = true := by decide +kernel
example : (step exQ (.push [0] 4)).2 = .misuse ∧ (step exQ (.change 3 [0])).2 = .misuse := by decide +kernel
example : run {} [.push [1] 1, .push [2] 2, .change 1 [3], .pop, .get 1, .get 2, .len, .pop, .pop, .isEmpty]
    = [.unit, .unit, .unit, .popped [3] 1, .score none, .score (some [2]), .len 1, .popped [2] 2, .empty,
       .isEmpty true] := by decide +kernel

end WhVerif.Props.C18

import WhVerif.Model.C18
namespace WhVerif.Props.C18
open WhVerif.C18
theorem scoreLower_irrefl (a : Score) : scoreLower a a = false := by
  induction a with
  | nil => rfl
  | cons x xs ih => simp [scoreLower, ih]
end WhVerif.Props.C18

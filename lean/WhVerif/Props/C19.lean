import WhVerif.Model.C19
import WhVerif.Model.C19Edit
import WhVerif.Spec.C19
import WhVerif.Lemmas.C19Lev
import WhVerif.Lemmas.C19Edit
/-!
# C19 — property theorems (edit distance part)
-/
namespace WhVerif.Props.C19
open WhVerif.C19 WhVerif.C19.Spec

/-- `edit_distance(s, t)` (unbanded, `maxdiff = -1`) is the Levenshtein distance, for all byte strings:
prefix/suffix trimming and the single-row DP included. -/
theorem edit_distance_eq_lev (s t : List Nat) : editDistance s t (-1) = lev s t := by
  obtain ⟨h1, h2, _, h4⟩ := trimmed_spec s t
  unfold editDistance
  simp only [ne_eq, not_true_eq_false, false_and, if_false, if_true]
  rw [dpU_spec _ _ _ _ h1 h2]
  exact h4

/-- the banded variant, for every band `maxdiff ≠ -1` (every `maxdiff < -1` behaves like an empty band):
the exact distance whenever it is at most the band, a value larger than the band otherwise. -/
theorem banded_exact_or_larger (s t : List Nat) (maxdiff : Int) (hb : maxdiff ≠ -1) :
    ((lev s t : Int) ≤ maxdiff → editDistance s t maxdiff = lev s t) ∧
    (maxdiff < (lev s t : Int) → maxdiff < (editDistance s t maxdiff : Int)) := by
  obtain ⟨h1, h2, h3, h4⟩ := trimmed_spec s t
  have habs := absDiff_le_lev s t
  unfold editDistance
  by_cases hfar : (absDiff s.length t.length : Int) > maxdiff
  · rw [if_pos ⟨hb, hfar⟩]
    exact ⟨fun h => by omega, fun _ => by omega⟩
  · rw [if_neg (fun h => hfar h.2), if_neg hb]
    have he : (maxdiff.toNat : Int) = maxdiff := Int.toNat_of_nonneg (by omega)
    have hd : absDiff s.length t.length ≤ maxdiff.toNat := by omega
    unfold absDiff at hd
    obtain ⟨b1, b2⟩ := dpB_spec _ _ _ _ maxdiff.toNat h1 h2 (by split at hd <;> omega) (by split at hd <;> omega)
    rw [h4] at b1 b2
    exact ⟨fun h => b1 (by omega), fun h => by have := b2 (by omega); omega⟩

example : lev [1, 2, 3] [1, 3] = 1 := by simp [lev]

/-- `lev` is 0 exactly on equal strings -/
theorem lev_eq_zero_iff (s t : List Nat) : lev s t = 0 ↔ s = t := lev_eq_zero_iff' s t

/-- consequently `edit_distance(s, t) == 0` iff the strings are equal -/
theorem edit_distance_eq_zero_iff (s t : List Nat) : editDistance s t (-1) = 0 ↔ s = t := by
  rw [edit_distance_eq_lev]; exact lev_eq_zero_iff' s t

/-- the spec does not depend on the direction of the recursion: `lev` (recursion on the heads) satisfies
the recursion on the last characters, the one the row DP uses -/
theorem lev_snoc_rec (a b : Nat) (s t : List Nat) :
    lev (s ++ [a]) (t ++ [b]) =
      min (lev s t + (if a = b then 0 else 1)) (min (lev s (t ++ [b]) + 1) (lev (s ++ [a]) t + 1)) :=
  lev_snoc_snoc a b s t

/-- `lev` is symmetric and bounded by the lengths -/
theorem lev_bounds (s t : List Nat) :
    lev s t = lev t s ∧ absDiff s.length t.length ≤ lev s t ∧ lev s t ≤ max s.length t.length :=
  ⟨lev_symm s t, absDiff_le_lev s t, lev_le_max s t⟩

end WhVerif.Props.C19

import WhVerif.Model.C19
import WhVerif.Model.C19Edit
import WhVerif.Spec.C19
import WhVerif.Lemmas.C19Lev
import WhVerif.Lemmas.C19Edit
import WhVerif.Lemmas.C19Index
import WhVerif.Lemmas.C19Geno
import WhVerif.Model.C19Word
import WhVerif.Lemmas.C19Word
import WhVerif.Lemmas.C19Ctor
import WhVerif.Model.C19Heap
/-!
# C19 — property theorems

Part 1: edit distance (`whatshap/align.pyx`).  Part 2: genotype index (`src/genotype.cpp`, `src/binomial.cpp`,
`whatshap/core.pyx:Genotype`).  All quantifiers are unbounded unless a hypothesis says otherwise.
-/
namespace WhVerif.Props.C19
open WhVerif.C19 WhVerif.C19.Spec

/-- `edit_distance(s, t)` (unbanded, `maxdiff = -1`) is the Levenshtein distance, for all byte strings:
prefix/suffix trimming and the single-row DP included. -/
theorem edit_distance_eq_lev (s t : List Nat) : editDistance s t (-1) = lev s t := by
  obtain ⟨h1, h2, _, h4⟩ := trimmed_spec s t
  unfold editDistance
  simp only [ne_eq, not_true_eq_false, false_and, if_false, if_true]
  rw [dpU_spec _ _ _ _ h1 h2]
  exact h4

/-- the banded variant, for every band `maxdiff ≠ -1` (every `maxdiff < -1` behaves like an empty band):
the exact distance whenever it is at most the band, a value larger than the band otherwise. -/
theorem banded_exact_or_larger (s t : List Nat) (maxdiff : Int) (hb : maxdiff ≠ -1) :
    ((lev s t : Int) ≤ maxdiff → editDistance s t maxdiff = lev s t) ∧
    (maxdiff < (lev s t : Int) → maxdiff < (editDistance s t maxdiff : Int)) := by
  obtain ⟨h1, h2, h3, h4⟩ := trimmed_spec s t
  have habs := absDiff_le_lev s t
  unfold editDistance
  by_cases hfar : (absDiff s.length t.length : Int) > maxdiff
  · rw [if_pos ⟨hb, hfar⟩]
    exact ⟨fun h => by omega, fun _ => by omega⟩
  · rw [if_neg (fun h => hfar h.2), if_neg hb]
    have he : (maxdiff.toNat : Int) = maxdiff := Int.toNat_of_nonneg (by omega)
    have hd : absDiff s.length t.length ≤ maxdiff.toNat := by omega
    unfold absDiff at hd
    obtain ⟨b1, b2⟩ := dpB_spec _ _ _ _ maxdiff.toNat h1 h2 (by split at hd <;> omega) (by split at hd <;> omega)
    rw [h4] at b1 b2
    exact ⟨fun h => b1 (by omega), fun h => by have := b2 (by omega); omega⟩

example : lev [1, 2, 3] [1, 3] = 1 := by simp [lev]
example : (1 : Int) ≠ -1 ∧ (0 : Int) ≠ -1 := by decide
-- both branches are inhabited: distance 1 within band 1 (exact), distance 2 outside band 1 (reported larger)
example : editDistance [1, 2, 3] [1, 3] 1 = 1 ∧ editDistance [1, 2, 3, 4] [1, 3, 3, 5, 4] 1 = 2 := by decide

/-- `lev` is 0 exactly on equal strings -/
theorem lev_eq_zero_iff (s t : List Nat) : lev s t = 0 ↔ s = t := lev_eq_zero_iff' s t

/-- consequently `edit_distance(s, t) == 0` iff the strings are equal -/
theorem edit_distance_eq_zero_iff (s t : List Nat) : editDistance s t (-1) = 0 ↔ s = t := by
  rw [edit_distance_eq_lev]; exact lev_eq_zero_iff' s t

/-- the spec does not depend on the direction of the recursion: `lev` (recursion on the heads) satisfies
the recursion on the last characters, the one the row DP uses -/
theorem lev_snoc_rec (a b : Nat) (s t : List Nat) :
    lev (s ++ [a]) (t ++ [b]) =
      min (lev s t + (if a = b then 0 else 1)) (min (lev s (t ++ [b]) + 1) (lev (s ++ [a]) t + 1)) :=
  lev_snoc_snoc a b s t

/-- `lev` is symmetric and bounded by the lengths -/
theorem lev_bounds (s t : List Nat) :
    lev s t = lev t s ∧ absDiff s.length t.length ≤ lev s t ∧ lev s t ≤ max s.length t.length :=
  ⟨lev_symm s t, absDiff_le_lev s t, lev_le_max s t⟩

/-! ## Part 2: genotype index -/

/-- the multiply/divide loop of `binomial_coefficient` computes the binomial coefficient -/
theorem binom_eq_choose (n k : Nat) : binom n k = Nat.choose n k := binom_eq n k

/-- … including the guards on C `int`s (`get_index` calls it with `k = -1` for allele 0) -/
theorem binomInt_eq_choose (n k : Int) :
    binomInt n k = if k < 0 ∨ n < 0 ∨ n < k then 0 else (Nat.choose n.toNat k.toNat : Int) := binomInt_eq n k

/-- no 32-bit overflow within the supported limits: `get_index` calls `binomial_coefficient(n, ·)` with
`n = k + allele - 1 ≤ 14 + 15 - 1`, `convert_index_to_alleles` with `n = pth + allele_index - 1 ≤ 14 + 16 - 1 = 29`;
for every such `n` the largest value `result` holds between `*=` and `/=` is below 2³¹ -/
theorem binom_no_overflow (n k : Nat) (hn : n ≤ 29) : binomPeak n k < 2 ^ 31 := by
  have table : ∀ n, n < 30 → ∀ k, k < 30 → binomPeak n k < 2 ^ 31 := by decide
  by_cases hk : k < 30
  · exact table n (by omega) k hk
  · unfold binomPeak; rw [if_pos (by omega)]; decide

/-- **index round trip**: for every ascending allele list (any ploidy, any alleles),
`convert_index_to_alleles(get_index(g), ploidy) = g` -/
theorem index_roundtrip (g : List Nat) (hg : g.Pairwise (· ≤ ·)) :
    indexToAlleles (getIndexL g) g.length = g := by
  rw [getIndexL_eq]
  exact loop_roundtrip g.length g (idx g) rfl hg (mem_le_idx g.length g rfl hg)

example : [0, 1, 1, 3].Pairwise (· ≤ ·) := by decide

/-- genotypes over `a` alleles have indices below `C(p + a - 1, p)` … -/
theorem index_lt_count (g : List Nat) (a : Nat) (hg : g.Pairwise (· ≤ ·)) (ha : ∀ y ∈ g, y < a) :
    getIndexL g < Nat.choose (g.length + a - 1) g.length := by
  rw [getIndexL_eq]
  cases a with
  | zero =>
    cases g with
    | nil => simp [idx_nil]
    | cons y ys => exact absurd (ha y (by simp)) (by omega)
  | succ a =>
    have := idx_lt g.length g a rfl hg (fun y hy => by have := ha y hy; omega)
    simpa using this

example : [0, 1, 1, 3].Pairwise (· ≤ ·) ∧ ∀ y ∈ [0, 1, 1, 3], y < 4 := by decide

/-- … and **every** index below that count is taken, by the genotype `convert_index_to_alleles` returns
(ascending, of the right ploidy, over the same `a` alleles): no gaps -/
theorem index_no_gaps (p a i : Nat) (hi : i < Nat.choose (p + a - 1) p) :
    (indexToAlleles i p).length = p ∧ (indexToAlleles i p).Pairwise (· ≤ ·) ∧
    (∀ y ∈ indexToAlleles i p, y < a) ∧ getIndexL (indexToAlleles i p) = i := by
  have hM : i < Nat.choose (p + i) p := by
    cases p with
    | zero => simpa using hi
    | succ p => have := succ_le_choose (p + 1) i (by omega); omega
  obtain ⟨h1, h2, _, h4⟩ := loop_inverse p i i hM
  unfold indexToAlleles
  refine ⟨h1, h2, ?_, by rw [getIndexL_eq]; exact h4⟩
  intro y hy
  by_cases hya : y < a
  · exact hya
  · exfalso
    cases p with
    | zero => simp [indexToAllelesLoop] at hy
    | succ p =>
      obtain ⟨g', x, hgx⟩ := exists_snoc _ p h1
      rw [hgx] at h2 h4 hy h1
      have hl' : g'.length = p := by simp at h1; omega
      rw [asc_snoc] at h2
      rw [idx_snoc, hl'] at h4
      have hyx : y ≤ x := by
        rcases List.mem_append.mp hy with h | h
        · exact h2.2 y h
        · simp at h; omega
      have : Nat.choose (p + 1 + a - 1) (p + 1) ≤ Nat.choose (p + x) (p + 1) := Nat.choose_le_choose _ (by omega)
      omega

example : (5 : Nat) < Nat.choose (3 + 3 - 1) 3 := by decide

/-- **the index is the rank in VCF order**: listing the genotypes of ploidy `p` over `a` alleles in the order
the VCF specification prescribes is the same as listing `convert_index_to_alleles(i, p)` for
`i = 0, 1, …, C(p+a-1, p) - 1` -/
theorem vcf_order_eq_indices (p a : Nat) :
    Spec.vcfOrder p a = (List.range (Nat.choose (p + a - 1) p)).map (fun i => indexToAlleles i p) := by
  induction p generalizing a with
  | zero => simp [Spec.vcfOrder, indexToAlleles, indexToAllelesLoop]
  | succ p ihp =>
    induction a with
    | zero =>
      have : Nat.choose (p + 1 + 0 - 1) (p + 1) = 0 := Nat.choose_eq_zero_of_lt (by omega)
      rw [this]; simp [Spec.vcfOrder]
    | succ a iha =>
      have hsplit : Spec.vcfOrder (p + 1) (a + 1) =
          Spec.vcfOrder (p + 1) a ++ (Spec.vcfOrder p (a + 1)).map (fun g => g ++ [a]) := by
        simp only [Spec.vcfOrder, List.range_succ, List.flatMap_append, List.flatMap_singleton]
      have hP : Nat.choose (p + 1 + (a + 1) - 1) (p + 1) =
          Nat.choose (p + 1 + a - 1) (p + 1) + Nat.choose (p + (a + 1) - 1) p := by
        have e1 : p + 1 + (a + 1) - 1 = (p + a) + 1 := by omega
        have e2 : p + 1 + a - 1 = p + a := by omega
        have e3 : p + (a + 1) - 1 = p + a := by omega
        rw [e1, e2, e3, pascal]; omega
      rw [hsplit, iha, ihp (a + 1), hP, List.range_add, List.map_append, List.map_map, List.map_map]
      congr 1
      apply List.map_congr_left
      intro j hj
      have hj' : j < Nat.choose (p + (a + 1) - 1) p := by simpa using hj
      obtain ⟨n1, n2, n3, n4⟩ := index_no_gaps p (a + 1) j hj'
      simp only [Function.comp]
      -- g' ++ [a] is ascending with index C(p+a, p+1) + j
      have hasc : (indexToAlleles j p ++ [a]).Pairwise (· ≤ ·) := by
        exact (asc_snoc _ _).mpr ⟨n2, fun y hy => by have := n3 y hy; omega⟩
      have hidx : getIndexL (indexToAlleles j p ++ [a]) = Nat.choose (p + 1 + a - 1) (p + 1) + j := by
        rw [getIndexL_eq, idx_snoc, n1, ← getIndexL_eq, n4]
        have e2 : p + 1 + a - 1 = p + a := by omega
        rw [e2]; omega
      have := index_roundtrip _ hasc
      rw [hidx] at this
      simpa [n1] using this.symm

/-- the count itself: `C(p + a - 1, p)` is the number of multisets of size `p` over `a` alleles (Pascal's rule) -/
theorem count_eq_multichoose (p a : Nat) : Spec.multichoose p a = Nat.choose (p + a - 1) p := multichoose_eq p a

/-- the index is injective on genotypes of one ploidy -/
theorem index_injective (g h : List Nat) (hg : g.Pairwise (· ≤ ·)) (hh : h.Pairwise (· ≤ ·))
    (hl : g.length = h.length) (hi : getIndexL g = getIndexL h) : g = h := by
  rw [← index_roundtrip g hg, ← index_roundtrip h hh, hl, hi]

/-- indices of genotypes within the limits (ploidy ≤ 14, alleles < 16) fit 32 bits (`uint32_t index`) -/
theorem index_fits (g : List Nat) (hg : g.Pairwise (· ≤ ·)) (hp : g.length ≤ 14) (ha : ∀ y ∈ g, y < 16) :
    getIndexL g < 2 ^ 31 := by
  have h := index_lt_count g 16 hg ha
  have table : ∀ p, p < 15 → Nat.choose (p + 16 - 1) p < 2 ^ 31 := by decide
  exact Nat.lt_trans h (table g.length (by omega))

example : [15, 15, 15].Pairwise (· ≤ ·) ∧ [15, 15, 15].length ≤ 14 ∧ ∀ y ∈ [15, 15, 15], y < 16 := by decide
example : getIndexL [0, 1, 2] = 5 ∧ getIndexL (List.replicate 14 15) = 77558759 := by decide
example : indexToAlleles 5 3 = [0, 1, 2] := index_roundtrip [0, 1, 2] (by decide)

/-! ### the `Genotype` object: constructor, `==`, `<`, save/restore -/

/-- within the limits the constructor succeeds, stores the sorted alleles (a permutation of the input:
the same multiset), and index → alleles gives them back -/
theorem geno_index_roundtrip (l : List Nat) (hp : l.length < 15) (ha : ∀ a ∈ l, a < 16) :
    ∃ g, Genotype.ofAlleles l = .ok g ∧ g.getPloidy = l.length ∧ g.asVector = (sortAsc l).reverse ∧
      (sortAsc l).Perm l ∧ indexToAlleles g.getIndex g.getPloidy = sortAsc l := by
  obtain ⟨g, h1, h2, h3, h4⟩ := ofAlleles_ok l hp ha
  refine ⟨g, h1, h2, h4, sortAsc_perm l, ?_⟩
  unfold Genotype.getIndex
  rw [h3, h2, ← sortAsc_length l]
  exact index_roundtrip _ (sortAsc_asc l)

example : [2, 0, 1].length < 15 ∧ ∀ a ∈ [2, 0, 1], a < 16 := by decide

/-- **save/restore**: `__setstate__(__getstate__(g))` rebuilds exactly `g` (state = (index, ploidy)) -/
theorem save_restore (l : List Nat) (hp : l.length < 15) (ha : ∀ a ∈ l, a < 16) :
    ∃ g, Genotype.ofAlleles l = .ok g ∧ g.getState = (g.getIndex, g.getPloidy) ∧
      Genotype.setState g.getState = .ok g := by
  obtain ⟨g, h1, h2, h3, h4⟩ := ofAlleles_ok l hp ha
  refine ⟨g, h1, rfl, ?_⟩
  have hs : indexToAlleles g.getIndex g.getPloidy = sortAsc l := by
    unfold Genotype.getIndex
    rw [h3, h2, ← sortAsc_length l]
    exact index_roundtrip _ (sortAsc_asc l)
  unfold Genotype.setState Genotype.getState
  simp only [hs]
  -- the constructor only looks at the sorted list and the length
  unfold Genotype.ofAlleles at h1 ⊢
  rw [sortAsc_of_asc _ (sortAsc_asc l), sortAsc_length]
  exact h1

/-- **`==` agrees with the index** (and with the multiset): for two genotypes of the same ploidy,
`g1 == g2` iff their indices are equal iff the inputs are permutations of each other -/
theorem eq_iff_index_eq (l1 l2 : List Nat) (hp1 : l1.length < 15) (ha1 : ∀ a ∈ l1, a < 16)
    (hp2 : l2.length < 15) (ha2 : ∀ a ∈ l2, a < 16) (hl : l1.length = l2.length) :
    ∃ g1 g2, Genotype.ofAlleles l1 = .ok g1 ∧ Genotype.ofAlleles l2 = .ok g2 ∧
      (g1.eq g2 = true ↔ g1.getIndex = g2.getIndex) ∧ (g1.eq g2 = true ↔ l1.Perm l2) ∧
      (g1.ne g2 = !g1.eq g2) := by
  obtain ⟨g1, a1, a2, a3, _⟩ := ofAlleles_ok l1 hp1 ha1
  obtain ⟨g2, b1, b2, b3, _⟩ := ofAlleles_ok l2 hp2 ha2
  have heq : g1.eq g2 = true ↔ g1 = g2 := by
    unfold Genotype.eq
    rw [beq_iff_eq, xor_eq_zero_iff]
    constructor
    · intro h; cases g1; cases g2; simp_all
    · intro h; rw [h]
  have hsort : g1 = g2 ↔ sortAsc l1 = sortAsc l2 := by
    constructor
    · intro h; rw [← a3, ← b3, h]
    · intro h
      have : Genotype.ofAlleles l1 = Genotype.ofAlleles l2 := by
        unfold Genotype.ofAlleles; rw [h, hl]
      rw [a1, b1] at this
      exact Except.ok.inj this
  refine ⟨g1, g2, a1, b1, ?_, ?_, ?_⟩
  · rw [heq, hsort]
    unfold Genotype.getIndex
    rw [a3, b3]
    constructor
    · intro h; rw [h]
    · intro h
      exact index_injective _ _ (sortAsc_asc l1) (sortAsc_asc l2) (by rw [sortAsc_length, sortAsc_length, hl]) h
  · rw [heq, hsort]
    constructor
    · intro h
      exact ((sortAsc_perm l1).symm.trans (h ▸ List.Perm.refl _)).trans (sortAsc_perm l2)
    · intro h
      have hp : (sortAsc l1).Perm (sortAsc l2) := ((sortAsc_perm l1).trans h).trans (sortAsc_perm l2).symm
      exact List.Perm.eq_of_pairwise (fun a b _ _ h1 h2 => Nat.le_antisymm h1 h2) (sortAsc_asc l1) (sortAsc_asc l2) hp
  · unfold Genotype.ne Genotype.eq
    cases h : (g1.gt ^^^ g2.gt) == 0 <;> simp [bne, h]

example : [2, 0, 1].length < 15 ∧ (∀ a ∈ [2, 0, 1], a < 16) ∧ [1, 2, 0].length < 15 ∧ (∀ a ∈ [1, 2, 0], a < 16) ∧
    [2, 0, 1].length = [1, 2, 0].length := by decide

/-- **`<` agrees with the index** (it is the index order, also across ploidies), and on one ploidy it is a
strict total order compatible with `==`: exactly one of `g1 < g2`, `g1 == g2`, `g2 < g1` holds -/
theorem lt_iff_index_lt (l1 l2 : List Nat) (hp1 : l1.length < 15) (ha1 : ∀ a ∈ l1, a < 16)
    (hp2 : l2.length < 15) (ha2 : ∀ a ∈ l2, a < 16) (hl : l1.length = l2.length) :
    ∃ g1 g2, Genotype.ofAlleles l1 = .ok g1 ∧ Genotype.ofAlleles l2 = .ok g2 ∧
      (g1.lt g2 = true ↔ g1.getIndex < g2.getIndex) ∧
      ((g1.lt g2 = true ∧ g1.eq g2 = false ∧ g2.lt g1 = false) ∨
       (g1.lt g2 = false ∧ g1.eq g2 = true ∧ g2.lt g1 = false) ∨
       (g1.lt g2 = false ∧ g1.eq g2 = false ∧ g2.lt g1 = true)) := by
  obtain ⟨g1, g2, a1, b1, e1, _, _⟩ := eq_iff_index_eq l1 l2 hp1 ha1 hp2 ha2 hl
  refine ⟨g1, g2, a1, b1, by simp [Genotype.lt], ?_⟩
  have h12 : g1.lt g2 = decide (g1.getIndex < g2.getIndex) := rfl
  have h21 : g2.lt g1 = decide (g2.getIndex < g1.getIndex) := rfl
  rw [h12, h21]
  rcases Nat.lt_trichotomy g1.getIndex g2.getIndex with h | h | h
  · left
    have : ¬ g1.eq g2 = true := fun he => by have := e1.mp he; omega
    simp [h, this]; omega
  · right; left
    have := e1.mpr h
    simp [this]; omega
  · right; right
    have : ¬ g1.eq g2 = true := fun he => by have := e1.mp he; omega
    simp [h, this]; omega


/-! ## Part 3: the machine level – `Genotype(index, ploidy)`, the 64-bit word, fixed-width arithmetic

`Model/C19Word.lean` models what the C++ executes (`int`/`uint32_t` wrap-around, the narrowing of the `uint64_t`
index, the guards of `set_position`/`get_position`, the constructor from an index).  The supported range is what the
code itself enforces: the vector constructor accepts ploidy `≤ 14 = MAX_PLOIDY - 1` and alleles `≤ 15 = MAX_ALLELES - 1`;
the index constructor has no ploidy check and also accepts ploidy 15. -/

/-- `binomial_coefficient` on `int` with wrap-around is exact for `n ≤ 29` … -/
theorem binom32_exact_within_limits (n k : Int) (hn : n ≤ 29) : binom32 n k = binomInt n k :=
  binom32_eq_binomInt n k hn

/-- … and the bound is sharp for the next call the index constructor can make at ploidy 15 (`C(30, 15)` wraps) -/
example : binom32 29 14 = 77558760 ∧ binom32 30 15 = -131213633 ∧ binomInt 30 15 = 155117520 := by decide

/-- **`get_index()` never wraps**: on every 64-bit word the `uint32_t`/`int` computation equals the unbounded one
(so `operator<` as executed is `lt`) -/
theorem get_index_never_wraps (g : Genotype) : g.getIndexW = g.getIndex ∧ ∀ h : Genotype, g.ltW h = g.lt h := by
  refine ⟨getIndexW_eq g, fun h => ?_⟩
  unfold Genotype.ltW Genotype.lt
  rw [getIndexW_eq, getIndexW_eq]

/-- **`convert_index_to_alleles` never wraps** for an index below the count of genotypes of ploidy `p` over `a`
alleles when `p + a ≤ 30` (ploidy ≤ 14 with 16 alleles, ploidy 15 with 15 alleles) -/
theorem convert_never_wraps_below_count (i p a : Nat) (hpa : p + a ≤ 30) (hi : i < Nat.choose (p + a - 1) p) :
    convertW i p = indexToAlleles i p := convertW_eq i p a hpa hi

example : (77558759 : Nat) < Nat.choose (14 + 16 - 1) 14 := by rw [← binom_eq]; decide

/-- **index ↦ genotype ↦ index** through the code's own two directions: for `1 ≤ p ≤ 15`, `a ≤ 16`, `p + a ≤ 30` and
every `i < C(p+a-1, p)`, `Genotype(i, p)` succeeds, `get_index()` of it (as executed) is `i`, its ploidy is `p`, its
alleles are descending and `< a`; for `p ≤ 14` the vector constructor applied to `as_vector()` rebuilds the same word
(this is `PhredGenotypeLikelihoods.genotypes()`) -/
theorem ctor_index_roundtrip (i p a : Nat) (hp1 : 1 ≤ p) (hp : p ≤ 15) (ha : a ≤ 16) (hpa : p + a ≤ 30)
    (hi : i < Nat.choose (p + a - 1) p) :
    ∃ g, Genotype.ofIndex i p = .ok g ∧ g.getIndexW = i ∧ g.getPloidy = p ∧ g.asVector.length = p ∧
      (∀ y ∈ g.asVector, y < a) ∧ g.asVector.Pairwise (· ≥ ·) ∧ g.allelesAsc = indexToAlleles i p ∧
      (p ≤ 14 → Genotype.ofAlleles g.asVector = .ok g) := by
  obtain ⟨g, h1, h2, h3, h4, h5, h6, h7⟩ := ofIndex_ok i p a hp1 hp ha hpa hi
  have hasc : (indexToAlleles i p).Pairwise (· ≤ ·) := (index_no_gaps p a i hi).2.1
  refine ⟨g, h1, ?_, h2, by rw [asVector_length, h2], ?_, ?_, h3, ?_⟩
  · rw [getIndexW_eq]; unfold Genotype.getIndex; rw [h3, getIndexL_eq, h6]
  · intro y hy; rw [h4] at hy; exact h5 y (List.mem_reverse.mp hy)
  · rw [h4, List.pairwise_reverse]; exact hasc.imp (fun h => h)
  · intro hp14
    rw [h4, ofAlleles_perm _ _ (List.reverse_perm _)]
    exact h7 hp14

example : (1 : Nat) ≤ 14 ∧ 14 ≤ 15 ∧ 16 ≤ 16 ∧ 14 + 16 ≤ 30 := by decide

/-- **genotype ↦ index ↦ genotype**: for every allele vector within the range of the vector constructor
(1 ≤ ploidy ≤ 14, alleles ≤ 15, any order), `Genotype(g.get_index(), g.get_ploidy())` is exactly the word `g` -/
theorem ctor_genotype_roundtrip (l : List Nat) (hp1 : 1 ≤ l.length) (hp : l.length ≤ 14) (ha : ∀ a ∈ l, a < 16) :
    ∃ g, Genotype.ofAlleles l = .ok g ∧ Genotype.ofIndex g.getIndexW g.getPloidy = .ok g := by
  obtain ⟨g, h1, h2, h3, _⟩ := ofAlleles_ok l (by omega) ha
  refine ⟨g, h1, ?_⟩
  have hidx : g.getIndexW = idx (sortAsc l) := by
    rw [getIndexW_eq]; unfold Genotype.getIndex; rw [h3, getIndexL_eq]
  have hlt : idx (sortAsc l) < Nat.choose (l.length + 16 - 1) l.length := by
    have := idx_lt l.length (sortAsc l) 15 (sortAsc_length l) (sortAsc_asc l)
      (fun y hy => by have := ha y ((mem_sortAsc l y).mp hy); omega)
    simpa using this
  obtain ⟨g', k1, _, _, _, _, _, k7⟩ := ofIndex_ok (idx (sortAsc l)) l.length 16 hp1 (by omega) (by omega) (by omega) hlt
  have hrt : indexToAlleles (idx (sortAsc l)) l.length = sortAsc l := by
    have := index_roundtrip (sortAsc l) (sortAsc_asc l)
    rwa [getIndexL_eq, sortAsc_length] at this
  have := k7 hp
  rw [hrt, ofAlleles_perm _ _ (sortAsc_perm l), h1] at this
  rw [hidx, h2, k1, ← Except.ok.inj this]

example : (1 : Nat) ≤ [2, 0, 1].length ∧ [2, 0, 1].length ≤ 14 ∧ ∀ a ∈ [2, 0, 1], a < 16 := by decide

/-- a concrete instance: `Genotype(5, 3)` is the word `0x3000000000000012` = 0/1/2 -/
theorem ofIndex_5_3 : Genotype.ofIndex 5 3 = .ok ⟨0x3000000000000012⟩ := by
  obtain ⟨g, h1, h2⟩ := ctor_genotype_roundtrip [2, 0, 1] (by decide) (by decide) (by decide)
  have e : Genotype.ofAlleles [2, 0, 1] = .ok ⟨0x3000000000000012⟩ := by decide
  rw [e] at h1; cases h1
  have e2 : (⟨0x3000000000000012⟩ : Genotype).getIndexW = 5 := by decide
  have e3 : (⟨0x3000000000000012⟩ : Genotype).getPloidy = 3 := by decide
  rw [e2, e3] at h2; exact h2

/-- the `__setstate__` path as executed equals the unbounded one below the count -/
theorem set_state_never_wraps (i p a : Nat) (hpa : p + a ≤ 30) (hi : i < Nat.choose (p + a - 1) p) :
    Genotype.setStateW i p = Genotype.setState (i, p) := by
  unfold Genotype.setStateW Genotype.setState
  rw [convertW_eq i p a hpa hi]

/-- **the packed word**: within the range, nibble 15 holds the ploidy, nibble `q < ploidy` the `q`-th largest allele,
the nibbles between are 0, the word fits 64 bits, and a 64-bit word is determined by its 16 nibbles -/
theorem word_layout (l : List Nat) (hp : l.length < 15) (ha : ∀ a ∈ l, a < 16) :
    ∃ g, Genotype.ofAlleles l = .ok g ∧ g.getPosition 15 = l.length ∧
      (∀ q, q < l.length → g.getPosition q = (sortAsc l).getD (l.length - 1 - q) 0) ∧
      (∀ q, l.length ≤ q → q < 15 → g.getPosition q = 0) ∧ g.gt < 2 ^ 64 ∧
      (∀ h : Genotype, h.gt < 2 ^ 64 → (∀ q, q ≤ 15 → h.getPosition q = g.getPosition q) → h = g) := by
  have hsl := sortAsc_length l
  obtain ⟨g0, hg0, hof⟩ := ofAlleles_eq_packed l hp ha
  obtain ⟨g0', hg0', hpl, hpos, hzero, _, _, _⟩ := pack_ok (sortAsc l) (by omega)
    (fun a h => ha a ((mem_sortAsc l a).mp h)) (sortAsc_asc l)
  rw [hsl] at hg0' hpl hpos hzero
  have : g0' = g0 := by rw [hg0] at hg0'; exact (Except.ok.inj hg0').symm
  subst this
  have hlt : (packed (sortAsc l) g0').gt < 2 ^ 64 := by
    unfold packed
    exact setPosition_lt _ _ _ (packLoop_lt l.length (by omega) _ 0 ⟨0⟩ g0' (by decide) hg0) (by decide) (by omega)
  exact ⟨_, hof, hpl, hpos, hzero, hlt, fun h hh hq => word_ext h _ hh hlt hq⟩

example : Genotype.ofAlleles [2, 0, 1] = .ok ⟨0x3000000000000012⟩ := by decide

/-- **the packed representation is injective on the range** – also across ploidies: two allele vectors give the same
word iff they are the same multiset; `==` (xor of the words) decides exactly that -/
theorem packed_word_injective (l1 l2 : List Nat) (hp1 : l1.length < 15) (ha1 : ∀ a ∈ l1, a < 16)
    (hp2 : l2.length < 15) (ha2 : ∀ a ∈ l2, a < 16) :
    ∃ g1 g2, Genotype.ofAlleles l1 = .ok g1 ∧ Genotype.ofAlleles l2 = .ok g2 ∧
      (g1.gt = g2.gt ↔ l1.Perm l2) ∧ (g1.eq g2 = true ↔ l1.Perm l2) := by
  obtain ⟨g1, a1, a2, a3, _⟩ := ofAlleles_ok l1 hp1 ha1
  obtain ⟨g2, b1, b2, b3, _⟩ := ofAlleles_ok l2 hp2 ha2
  have key : g1.gt = g2.gt ↔ l1.Perm l2 := by
    constructor
    · intro h
      have hg : g1 = g2 := by cases g1; cases g2; simp_all
      have hs : sortAsc l1 = sortAsc l2 := by rw [← a3, ← b3, hg]
      exact ((sortAsc_perm l1).symm.trans (hs ▸ List.Perm.refl _)).trans (sortAsc_perm l2)
    · intro h
      have := ofAlleles_perm l1 l2 h
      rw [a1, b1] at this
      rw [Except.ok.inj this]
  refine ⟨g1, g2, a1, b1, key, ?_⟩
  unfold Genotype.eq
  rw [beq_iff_eq, xor_eq_zero_iff]
  exact key

example : [2, 0, 1].length < 15 ∧ (∀ a ∈ [2, 0, 1], a < 16) ∧ [1, 2].length < 15 ∧ (∀ a ∈ [1, 2], a < 16) := by decide

/-- **`<` is the order the class comment documents**: on one ploidy, `g1 < g2` (as executed) iff `as_vector()` of `g1`
is lexicographically smaller than that of `g2` – the largest allele decides first ("first all genotypes which only
use the first allele, then all genotypes with the first two alleles, …") -/
theorem lt_is_documented_order (l1 l2 : List Nat) (hp1 : l1.length < 15) (ha1 : ∀ a ∈ l1, a < 16)
    (hp2 : l2.length < 15) (ha2 : ∀ a ∈ l2, a < 16) (hl : l1.length = l2.length) :
    ∃ g1 g2, Genotype.ofAlleles l1 = .ok g1 ∧ Genotype.ofAlleles l2 = .ok g2 ∧
      g1.ltW g2 = lexLt g1.asVector g2.asVector := by
  obtain ⟨g1, a1, a2, a3, a4⟩ := ofAlleles_ok l1 hp1 ha1
  obtain ⟨g2, b1, b2, b3, b4⟩ := ofAlleles_ok l2 hp2 ha2
  refine ⟨g1, g2, a1, b1, ?_⟩
  unfold Genotype.ltW
  rw [getIndexW_eq, getIndexW_eq, a4, b4]
  unfold Genotype.getIndex
  rw [a3, b3, getIndexL_eq, getIndexL_eq]
  have := idx_lt_iff_lex l1.length (sortAsc l1) (sortAsc l2) (sortAsc_length l1) (by rw [sortAsc_length, hl])
    (sortAsc_asc l1) (sortAsc_asc l2)
  cases h : lexLt (sortAsc l1).reverse (sortAsc l2).reverse
  · rw [h] at this; simpa using this
  · rw [h] at this; simpa using this

example : lexLt [2, 1, 1] [2, 2, 0] = true ∧ getIndexL [1, 1, 2] = 6 ∧ getIndexL [0, 2, 2] = 7 := by decide

/-- the small observers agree with the multiset: `is_none`, `is_homozygous`, `is_diploid_and_biallelic`, `toString` -/
theorem observers_agree_with_multiset (l : List Nat) (hp : l.length < 15) (ha : ∀ a ∈ l, a < 16) :
    ∃ g, Genotype.ofAlleles l = .ok g ∧ (g.isNone = true ↔ l = []) ∧
      (g.isHomozygous = true ↔ l ≠ [] ∧ ∀ x ∈ l, ∀ y ∈ l, x = y) ∧
      (g.isDiploidAndBiallelic = true ↔ l.length = 2 ∧ ∀ x ∈ l, x ≤ 1) ∧
      g.toStringL = if l = [] then none else some (sortAsc l) := by
  obtain ⟨g, h1, h2, h3, h4⟩ := ofAlleles_ok l hp ha
  have hmem : ∀ x, x ∈ g.asVector ↔ x ∈ l := by
    intro x; rw [h4, List.mem_reverse, mem_sortAsc]
  have hnil : l = [] ↔ l.length = 0 := List.length_eq_zero_iff.symm
  refine ⟨g, h1, ?_, ?_, ?_, ?_⟩
  · unfold Genotype.isNone; rw [h2, hnil]; simp
  · rw [isHomozygous_iff, h2]
    constructor
    · rintro ⟨hne, hall⟩
      refine ⟨fun h => hne (hnil.mp h), fun x hx y hy => ?_⟩
      rw [hall x ((hmem x).mpr hx), hall y ((hmem y).mpr hy)]
    · rintro ⟨hne, hall⟩
      have hne' : l.length ≠ 0 := fun h => hne (hnil.mpr h)
      refine ⟨hne', fun x hx => ?_⟩
      have h0 : g.getPosition 0 ∈ g.asVector := by
        unfold Genotype.asVector
        exact List.mem_map.mpr ⟨0, by rw [h2]; simp; omega, rfl⟩
      exact hall x ((hmem x).mp hx) _ ((hmem _).mp h0)
  · rw [isDiploidAndBiallelic_iff, h2]
    constructor
    · rintro ⟨h, hall⟩; exact ⟨h, fun x hx => hall x ((hmem x).mpr hx)⟩
    · rintro ⟨h, hall⟩; exact ⟨h, fun x hx => hall x ((hmem x).mp hx)⟩
  · rw [toStringL_eq, h2, h3]
    by_cases h : l = []
    · subst h; simp
    · have : ¬ l.length = 0 := fun h' => h (hnil.mpr h')
      simp [h, this]

example : [1, 1].length < 15 ∧ ∀ a ∈ [1, 1], a < 16 := by decide

/-! ### outside the range -/

/-- **beyond the count** (1 ≤ ploidy ≤ 14): every 32-bit index `≥ C(p+15, p)` is rejected with "Maximum alleles
exceeded" – although the binomials of larger alleles wrap around, no such index is silently mapped to a genotype -/
theorem index_ctor_rejects_beyond_count (i p : Nat) (hp1 : 1 ≤ p) (hp : p ≤ 14) (hi : Nat.choose (p + 15) p ≤ i)
    (hi2 : i < 4294967296) : Genotype.ofIndex i p = .error .alleles := ofIndex_beyond i p hp1 hp hi hi2

example : Nat.choose (1 + 15) 1 ≤ 16 ∧ (16 : Nat) < 4294967296 := by decide

/-- … but the `uint64_t` index is **narrowed** to 32 bits first: `i + k·2³²` builds the genotype of `i` -/
theorem index_ctor_narrows_index (i k p : Nat) :
    Genotype.ofIndex (i + 4294967296 * k) p = Genotype.ofIndex i p ∧ convertW (i + 4294967296 * k) p = convertW i p := by
  refine ⟨ofIndex_narrowing i k p, ?_⟩
  unfold convertW
  rw [Nat.add_mul_mod_self_left]

example : Genotype.ofIndex (5 + 4294967296 * 1) 3 = .ok ⟨0x3000000000000012⟩ := by
  rw [(index_ctor_narrows_index 5 1 3).1]; exact ofIndex_5_3

/-- ploidy 0: `ploidy - 1` wraps and the final loop runs into `get_position(16)` ("Invalid get position") -/
theorem index_ctor_ploidy_zero (i : Nat) : Genotype.ofIndex i 0 = .error .getPos := ofIndex_ploidy_zero i

/-- ploidy ≥ 16 is never accepted -/
theorem index_ctor_rejects_ploidy_ge_16 (i p : Nat) (hp : 16 ≤ p) :
    Genotype.ofIndex i p = .error .alleles ∨ Genotype.ofIndex i p = .error .setPos ∨
      Genotype.ofIndex i p = .error .setAllele := ofIndex_ploidy_ge_16 i p hp

example : (16 : Nat) ≤ 16 ∧ (16 : Nat) ≤ 17 := by decide

/-- **F55 in the model**: the advertised maximum ploidy (`get_max_genotype_ploidy() = MAX_PLOIDY = 15`) is accepted
by the index constructor only; the vector constructor (the only one Python reaches directly) rejects every vector
of 15 alleles -/
theorem ploidy_15_only_by_index :
    getMaxGenotypePloidy = 15 ∧ (∀ l : List Nat, l.length = 15 → Genotype.ofAlleles l = .error .ploidy) ∧
      (∀ i, i < Nat.choose (15 + 15 - 1) 15 → ∃ g, Genotype.ofIndex i 15 = .ok g ∧ g.getPloidy = 15 ∧ g.getIndexW = i) := by
  refine ⟨rfl, ?_, ?_⟩
  · intro l hl
    unfold Genotype.ofAlleles
    simp only []
    rw [if_pos (by rw [hl]; decide)]
  · intro i hi
    obtain ⟨g, h1, h2, h3, _⟩ := ctor_index_roundtrip i 15 15 (by omega) (by omega) (by omega) (by omega) hi
    exact ⟨g, h1, h3, h2⟩

/-- after `fixes/F55.patch` the advertised maximum is true: every vector of at most `MAX_PLOIDY - 1` alleles `< 16` is accepted -/
theorem repaired_max_ploidy_constructible (l : List Nat) (hp : l.length ≤ getMaxGenotypePloidyRepaired)
    (ha : ∀ a ∈ l, a < getMaxGenotypeAlleles) : ∃ g, Genotype.ofAlleles l = .ok g ∧ g.getPloidy = l.length := by
  have hp' : l.length < 15 := by
    have : getMaxGenotypePloidyRepaired = 14 := rfl
    omega
  obtain ⟨g, h1, h2, _⟩ := ofAlleles_ok l hp' ha
  exact ⟨g, h1, h2⟩

example : (List.replicate 14 15).length ≤ getMaxGenotypePloidyRepaired ∧ ∀ a ∈ List.replicate 14 15, a < getMaxGenotypeAlleles := by decide

/-- the fuel of the model's final loop is never exhausted (`get_position(16)` throws after at most 16 rounds) -/
theorem final_loop_fuel_suffices (g : Genotype) (bound fuel : Nat) (hf : 17 ≤ fuel) :
    checkLoopC g bound fuel 0 = checkLoopC g bound 17 0 :=
  checkLoopC_fuel g bound 16 0 fuel 17 (by omega) (by omega) (by omega)

/-! ## Part 4: several objects alive at once (`Model/C19Heap.lean`): `__deepcopy__` makes a real copy, `__setstate__` changes
only the object it is called on.  `Genotype` is mutable (`__setstate__` replaces the wrapped C++ object in place), so "state
save/restore agrees with the index" needs both. -/

/-- **`copy.deepcopy(g)` is a NEW object with the same genotype**: `Genotype.__new__(Genotype, self.as_vector())` appends a
cell (it does not hand out the old one) and that cell holds exactly the word of `g` (the descending `as_vector()` is sorted
again by the constructor); all existing cells are untouched. -/
theorem deepcopy_is_fresh_equal_object (h : Heap) (src : Nat) (l : List Nat) (g : Genotype)
    (hp : l.length < 15) (ha : ∀ a ∈ l, a < 16) (hg : Genotype.ofAlleles l = .ok g) (hs : h[src]? = some g) :
    h.deepcopy src = .ok (h ++ [g]) := by
  obtain ⟨g', h1, _, _, h4⟩ := ofAlleles_ok l hp ha
  have hgg : g' = g := by rw [hg] at h1; exact (Except.ok.inj h1).symm
  subst hgg
  have hperm : ((sortAsc l).reverse).Perm l := (List.reverse_perm _).trans (sortAsc_perm l)
  unfold Heap.deepcopy
  rw [hs]
  simp only []
  unfold Heap.alloc
  rw [h4, ofAlleles_perm _ _ hperm, hg]

example : Heap.deepcopy [⟨0x2000000000000001⟩] 0 = Except.ok [⟨0x2000000000000001⟩, ⟨0x2000000000000001⟩] := by decide

/-- **`__setstate__` changes the object it is called on and no other** (frame): the number of objects stays, every other
cell keeps its word (hence its index, alleles, state, equality), the target holds the restored genotype. -/
theorem restore_changes_only_its_object (h : Heap) (dst : Nat) (st : Nat × Nat) (h' : Heap)
    (hr : h.restore dst st = .ok h') :
    h'.length = h.length ∧ (∀ k, k ≠ dst → h'[k]? = h[k]?) ∧
      (dst < h.length → ∃ g, Genotype.setState st = .ok g ∧ h'[dst]? = some g) := by
  unfold Heap.restore at hr
  split at hr
  · rename_i g hg
    have : h' = h.set dst g := (Except.ok.inj hr).symm
    subst this
    refine ⟨List.length_set, ?_, ?_⟩
    · intro k hk
      exact List.getElem?_set_ne (Ne.symm hk)
    · intro hd
      exact ⟨g, hg, by simp [hd]⟩
  · cases hr

example : Heap.restore [⟨0x2000000000000001⟩, ⟨0x2000000000000001⟩] 1 (2, 2) = Except.ok [⟨0x2000000000000001⟩, ⟨0x2000000000000011⟩] := by decide +kernel

/-- **a scratch deep copy can be overwritten without touching the original**: take `c = copy.deepcopy(g)` and restore the
saved state of ANY other genotype `m` into `c`.  Then `c` is that genotype, while `g` (and every other object) still has its
own word, so its index, allele multiset and `__getstate__` are what they were, and the state saved from `g` before still
restores exactly `g`. -/
theorem deepcopy_then_restore_leaves_original (h : Heap) (src : Nat) (l m : List Nat) (g : Genotype)
    (hp : l.length < 15) (ha : ∀ a ∈ l, a < 16) (hg : Genotype.ofAlleles l = .ok g) (hs : h[src]? = some g)
    (hpm : m.length < 15) (ham : ∀ a ∈ m, a < 16) :
    ∃ c h1 h2, Genotype.ofAlleles m = .ok c ∧ h.deepcopy src = .ok h1 ∧ h1.restore h.length c.getState = .ok h2 ∧
      h2.length = h.length + 1 ∧ (∀ k, k < h.length → h2[k]? = h[k]?) ∧ h2[src]? = some g ∧ h2[h.length]? = some c ∧
      Genotype.setState g.getState = .ok g := by
  obtain ⟨c, hc, _, hcs⟩ := save_restore m hpm ham
  obtain ⟨g', hg', _, hgs⟩ := save_restore l hp ha
  have hgg : g' = g := by rw [hg] at hg'; exact (Except.ok.inj hg').symm
  subst hgg
  have hd := deepcopy_is_fresh_equal_object h src l g' hp ha hg hs
  have hr : (h ++ [g']).restore h.length c.getState = .ok ((h ++ [g']).set h.length c) := by
    unfold Heap.restore; rw [hcs]
  have hsrc : src < h.length := by
    rcases Nat.lt_or_ge src h.length with hlt | hge
    · exact hlt
    · rw [List.getElem?_eq_none hge] at hs; cases hs
  obtain ⟨f1, f2, _⟩ := restore_changes_only_its_object _ _ _ _ hr
  have keep : ∀ k, k < h.length → ((h ++ [g']).set h.length c)[k]? = h[k]? := by
    intro k hk
    rw [f2 k (by omega), List.getElem?_append_left hk]
  refine ⟨c, h ++ [g'], (h ++ [g']).set h.length c, hc, hd, hr, ?_, keep, ?_, ?_, hgs⟩
  · rw [f1]; simp
  · rw [keep src hsrc, hs]
  · simp

example : ∃ g, Genotype.ofAlleles [1, 0] = .ok g ∧ ([g] : Heap)[0]? = some g ∧ [1, 0].length < 15 ∧ (∀ a ∈ [1, 0], a < 16) ∧
    [1, 1].length < 15 ∧ ∀ a ∈ [1, 1], a < 16 := ⟨⟨0x2000000000000001⟩, by decide, by decide, by decide, by decide, by decide, by decide⟩

end WhVerif.Props.C19

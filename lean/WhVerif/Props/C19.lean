import WhVerif.Model.C19
import WhVerif.Model.C19Edit
import WhVerif.Spec.C19
import WhVerif.Lemmas.C19Lev
import WhVerif.Lemmas.C19Edit
import WhVerif.Lemmas.C19Index
import WhVerif.Lemmas.C19Geno
/-!
# C19 — property theorems

Part 1: edit distance (`whatshap/align.pyx`).  Part 2: genotype index (`src/genotype.cpp`, `src/binomial.cpp`,
`whatshap/core.pyx:Genotype`).  All quantifiers are unbounded unless a hypothesis says otherwise.
-/
namespace WhVerif.Props.C19
open WhVerif.C19 WhVerif.C19.Spec

/-- `edit_distance(s, t)` (unbanded, `maxdiff = -1`) is the Levenshtein distance, for all byte strings:
prefix/suffix trimming and the single-row DP included. -/
theorem edit_distance_eq_lev (s t : List Nat) : editDistance s t (-1) = lev s t := by
  obtain ⟨h1, h2, _, h4⟩ := trimmed_spec s t
  unfold editDistance
  simp only [ne_eq, not_true_eq_false, false_and, if_false, if_true]
  rw [dpU_spec _ _ _ _ h1 h2]
  exact h4

/-- the banded variant, for every band `maxdiff ≠ -1` (every `maxdiff < -1` behaves like an empty band):
the exact distance whenever it is at most the band, a value larger than the band otherwise. -/
theorem banded_exact_or_larger (s t : List Nat) (maxdiff : Int) (hb : maxdiff ≠ -1) :
    ((lev s t : Int) ≤ maxdiff → editDistance s t maxdiff = lev s t) ∧
    (maxdiff < (lev s t : Int) → maxdiff < (editDistance s t maxdiff : Int)) := by
  obtain ⟨h1, h2, h3, h4⟩ := trimmed_spec s t
  have habs := absDiff_le_lev s t
  unfold editDistance
  by_cases hfar : (absDiff s.length t.length : Int) > maxdiff
  · rw [if_pos ⟨hb, hfar⟩]
    exact ⟨fun h => by omega, fun _ => by omega⟩
  · rw [if_neg (fun h => hfar h.2), if_neg hb]
    have he : (maxdiff.toNat : Int) = maxdiff := Int.toNat_of_nonneg (by omega)
    have hd : absDiff s.length t.length ≤ maxdiff.toNat := by omega
    unfold absDiff at hd
    obtain ⟨b1, b2⟩ := dpB_spec _ _ _ _ maxdiff.toNat h1 h2 (by split at hd <;> omega) (by split at hd <;> omega)
    rw [h4] at b1 b2
    exact ⟨fun h => b1 (by omega), fun h => by have := b2 (by omega); omega⟩

example : lev [1, 2, 3] [1, 3] = 1 := by simp [lev]
example : (1 : Int) ≠ -1 ∧ (0 : Int) ≠ -1 := by decide
-- both branches are inhabited: distance 1 within band 1 (exact), distance 2 outside band 1 (reported larger)
example : editDistance [1, 2, 3] [1, 3] 1 = 1 ∧ editDistance [1, 2, 3, 4] [1, 3, 3, 5, 4] 1 = 2 := by decide

/-- `lev` is 0 exactly on equal strings -/
theorem lev_eq_zero_iff (s t : List Nat) : lev s t = 0 ↔ s = t := lev_eq_zero_iff' s t

/-- consequently `edit_distance(s, t) == 0` iff the strings are equal -/
theorem edit_distance_eq_zero_iff (s t : List Nat) : editDistance s t (-1) = 0 ↔ s = t := by
  rw [edit_distance_eq_lev]; exact lev_eq_zero_iff' s t

/-- the spec does not depend on the direction of the recursion: `lev` (recursion on the heads) satisfies
the recursion on the last characters, the one the row DP uses -/
theorem lev_snoc_rec (a b : Nat) (s t : List Nat) :
    lev (s ++ [a]) (t ++ [b]) =
      min (lev s t + (if a = b then 0 else 1)) (min (lev s (t ++ [b]) + 1) (lev (s ++ [a]) t + 1)) :=
  lev_snoc_snoc a b s t

/-- `lev` is symmetric and bounded by the lengths -/
theorem lev_bounds (s t : List Nat) :
    lev s t = lev t s ∧ absDiff s.length t.length ≤ lev s t ∧ lev s t ≤ max s.length t.length :=
  ⟨lev_symm s t, absDiff_le_lev s t, lev_le_max s t⟩

/-! ## Part 2: genotype index -/

/-- the multiply/divide loop of `binomial_coefficient` computes the binomial coefficient -/
theorem binom_eq_choose (n k : Nat) : binom n k = Nat.choose n k := binom_eq n k

/-- … including the guards on C `int`s (`get_index` calls it with `k = -1` for allele 0) -/
theorem binomInt_eq_choose (n k : Int) :
    binomInt n k = if k < 0 ∨ n < 0 ∨ n < k then 0 else (Nat.choose n.toNat k.toNat : Int) := binomInt_eq n k

/-- no 32-bit overflow within the supported limits: `get_index` calls `binomial_coefficient(n, ·)` with
`n = k + allele - 1 ≤ 14 + 15 - 1`, `convert_index_to_alleles` with `n = pth + allele_index - 1 ≤ 14 + 16 - 1 = 29`;
for every such `n` the largest value `result` holds between `*=` and `/=` is below 2³¹ -/
theorem binom_no_overflow (n k : Nat) (hn : n ≤ 29) : binomPeak n k < 2 ^ 31 := by
  have table : ∀ n, n < 30 → ∀ k, k < 30 → binomPeak n k < 2 ^ 31 := by decide
  by_cases hk : k < 30
  · exact table n (by omega) k hk
  · unfold binomPeak; rw [if_pos (by omega)]; decide

/-- **index round trip**: for every ascending allele list (any ploidy, any alleles),
`convert_index_to_alleles(get_index(g), ploidy) = g` -/
theorem index_roundtrip (g : List Nat) (hg : g.Pairwise (· ≤ ·)) :
    indexToAlleles (getIndexL g) g.length = g := by
  rw [getIndexL_eq]
  exact loop_roundtrip g.length g (idx g) rfl hg (mem_le_idx g.length g rfl hg)

example : [0, 1, 1, 3].Pairwise (· ≤ ·) := by decide

/-- genotypes over `a` alleles have indices below `C(p + a - 1, p)` … -/
theorem index_lt_count (g : List Nat) (a : Nat) (hg : g.Pairwise (· ≤ ·)) (ha : ∀ y ∈ g, y < a) :
    getIndexL g < Nat.choose (g.length + a - 1) g.length := by
  rw [getIndexL_eq]
  cases a with
  | zero =>
    cases g with
    | nil => simp [idx_nil]
    | cons y ys => exact absurd (ha y (by simp)) (by omega)
  | succ a =>
    have := idx_lt g.length g a rfl hg (fun y hy => by have := ha y hy; omega)
    simpa using this

example : [0, 1, 1, 3].Pairwise (· ≤ ·) ∧ ∀ y ∈ [0, 1, 1, 3], y < 4 := by decide

/-- … and **every** index below that count is taken, by the genotype `convert_index_to_alleles` returns
(ascending, of the right ploidy, over the same `a` alleles): no gaps -/
theorem index_no_gaps (p a i : Nat) (hi : i < Nat.choose (p + a - 1) p) :
    (indexToAlleles i p).length = p ∧ (indexToAlleles i p).Pairwise (· ≤ ·) ∧
    (∀ y ∈ indexToAlleles i p, y < a) ∧ getIndexL (indexToAlleles i p) = i := by
  have hM : i < Nat.choose (p + i) p := by
    cases p with
    | zero => simpa using hi
    | succ p => have := succ_le_choose (p + 1) i (by omega); omega
  obtain ⟨h1, h2, _, h4⟩ := loop_inverse p i i hM
  unfold indexToAlleles
  refine ⟨h1, h2, ?_, by rw [getIndexL_eq]; exact h4⟩
  intro y hy
  by_cases hya : y < a
  · exact hya
  · exfalso
    cases p with
    | zero => simp [indexToAllelesLoop] at hy
    | succ p =>
      obtain ⟨g', x, hgx⟩ := exists_snoc _ p h1
      rw [hgx] at h2 h4 hy h1
      have hl' : g'.length = p := by simp at h1; omega
      rw [asc_snoc] at h2
      rw [idx_snoc, hl'] at h4
      have hyx : y ≤ x := by
        rcases List.mem_append.mp hy with h | h
        · exact h2.2 y h
        · simp at h; omega
      have : Nat.choose (p + 1 + a - 1) (p + 1) ≤ Nat.choose (p + x) (p + 1) := Nat.choose_le_choose _ (by omega)
      omega

example : (5 : Nat) < Nat.choose (3 + 3 - 1) 3 := by decide

/-- **the index is the rank in VCF order**: listing the genotypes of ploidy `p` over `a` alleles in the order
the VCF specification prescribes is the same as listing `convert_index_to_alleles(i, p)` for
`i = 0, 1, …, C(p+a-1, p) - 1` -/
theorem vcf_order_eq_indices (p a : Nat) :
    Spec.vcfOrder p a = (List.range (Nat.choose (p + a - 1) p)).map (fun i => indexToAlleles i p) := by
  induction p generalizing a with
  | zero => simp [Spec.vcfOrder, indexToAlleles, indexToAllelesLoop]
  | succ p ihp =>
    induction a with
    | zero =>
      have : Nat.choose (p + 1 + 0 - 1) (p + 1) = 0 := Nat.choose_eq_zero_of_lt (by omega)
      rw [this]; simp [Spec.vcfOrder]
    | succ a iha =>
      have hsplit : Spec.vcfOrder (p + 1) (a + 1) =
          Spec.vcfOrder (p + 1) a ++ (Spec.vcfOrder p (a + 1)).map (fun g => g ++ [a]) := by
        simp only [Spec.vcfOrder, List.range_succ, List.flatMap_append, List.flatMap_singleton]
      have hP : Nat.choose (p + 1 + (a + 1) - 1) (p + 1) =
          Nat.choose (p + 1 + a - 1) (p + 1) + Nat.choose (p + (a + 1) - 1) p := by
        have e1 : p + 1 + (a + 1) - 1 = (p + a) + 1 := by omega
        have e2 : p + 1 + a - 1 = p + a := by omega
        have e3 : p + (a + 1) - 1 = p + a := by omega
        rw [e1, e2, e3, pascal]; omega
      rw [hsplit, iha, ihp (a + 1), hP, List.range_add, List.map_append, List.map_map, List.map_map]
      congr 1
      apply List.map_congr_left
      intro j hj
      have hj' : j < Nat.choose (p + (a + 1) - 1) p := by simpa using hj
      obtain ⟨n1, n2, n3, n4⟩ := index_no_gaps p (a + 1) j hj'
      simp only [Function.comp]
      -- g' ++ [a] is ascending with index C(p+a, p+1) + j
      have hasc : (indexToAlleles j p ++ [a]).Pairwise (· ≤ ·) := by
        exact (asc_snoc _ _).mpr ⟨n2, fun y hy => by have := n3 y hy; omega⟩
      have hidx : getIndexL (indexToAlleles j p ++ [a]) = Nat.choose (p + 1 + a - 1) (p + 1) + j := by
        rw [getIndexL_eq, idx_snoc, n1, ← getIndexL_eq, n4]
        have e2 : p + 1 + a - 1 = p + a := by omega
        rw [e2]; omega
      have := index_roundtrip _ hasc
      rw [hidx] at this
      simpa [n1] using this.symm

/-- the count itself: `C(p + a - 1, p)` is the number of multisets of size `p` over `a` alleles (Pascal's rule) -/
theorem count_eq_multichoose (p a : Nat) : Spec.multichoose p a = Nat.choose (p + a - 1) p := multichoose_eq p a

/-- the index is injective on genotypes of one ploidy -/
theorem index_injective (g h : List Nat) (hg : g.Pairwise (· ≤ ·)) (hh : h.Pairwise (· ≤ ·))
    (hl : g.length = h.length) (hi : getIndexL g = getIndexL h) : g = h := by
  rw [← index_roundtrip g hg, ← index_roundtrip h hh, hl, hi]

/-- indices of genotypes within the limits (ploidy ≤ 14, alleles < 16) fit 32 bits (`uint32_t index`) -/
theorem index_fits (g : List Nat) (hg : g.Pairwise (· ≤ ·)) (hp : g.length ≤ 14) (ha : ∀ y ∈ g, y < 16) :
    getIndexL g < 2 ^ 31 := by
  have h := index_lt_count g 16 hg ha
  have table : ∀ p, p < 15 → Nat.choose (p + 16 - 1) p < 2 ^ 31 := by decide
  exact Nat.lt_trans h (table g.length (by omega))

example : [15, 15, 15].Pairwise (· ≤ ·) ∧ [15, 15, 15].length ≤ 14 ∧ ∀ y ∈ [15, 15, 15], y < 16 := by decide
example : getIndexL [0, 1, 2] = 5 ∧ getIndexL (List.replicate 14 15) = 77558759 := by decide
example : indexToAlleles 5 3 = [0, 1, 2] := index_roundtrip [0, 1, 2] (by decide)

/-! ### the `Genotype` object: constructor, `==`, `<`, save/restore -/

/-- within the limits the constructor succeeds, stores the sorted alleles (a permutation of the input:
the same multiset), and index → alleles gives them back -/
theorem geno_index_roundtrip (l : List Nat) (hp : l.length < 15) (ha : ∀ a ∈ l, a < 16) :
    ∃ g, Genotype.ofAlleles l = .ok g ∧ g.getPloidy = l.length ∧ g.asVector = (sortAsc l).reverse ∧
      (sortAsc l).Perm l ∧ indexToAlleles g.getIndex g.getPloidy = sortAsc l := by
  obtain ⟨g, h1, h2, h3, h4⟩ := ofAlleles_ok l hp ha
  refine ⟨g, h1, h2, h4, sortAsc_perm l, ?_⟩
  unfold Genotype.getIndex
  rw [h3, h2, ← sortAsc_length l]
  exact index_roundtrip _ (sortAsc_asc l)

example : [2, 0, 1].length < 15 ∧ ∀ a ∈ [2, 0, 1], a < 16 := by decide

/-- **save/restore**: `__setstate__(__getstate__(g))` rebuilds exactly `g` (state = (index, ploidy)) -/
theorem save_restore (l : List Nat) (hp : l.length < 15) (ha : ∀ a ∈ l, a < 16) :
    ∃ g, Genotype.ofAlleles l = .ok g ∧ g.getState = (g.getIndex, g.getPloidy) ∧
      Genotype.setState g.getState = .ok g := by
  obtain ⟨g, h1, h2, h3, h4⟩ := ofAlleles_ok l hp ha
  refine ⟨g, h1, rfl, ?_⟩
  have hs : indexToAlleles g.getIndex g.getPloidy = sortAsc l := by
    unfold Genotype.getIndex
    rw [h3, h2, ← sortAsc_length l]
    exact index_roundtrip _ (sortAsc_asc l)
  unfold Genotype.setState Genotype.getState
  simp only [hs]
  -- the constructor only looks at the sorted list and the length
  unfold Genotype.ofAlleles at h1 ⊢
  rw [sortAsc_of_asc _ (sortAsc_asc l), sortAsc_length]
  exact h1

/-- **`==` agrees with the index** (and with the multiset): for two genotypes of the same ploidy,
`g1 == g2` iff their indices are equal iff the inputs are permutations of each other -/
theorem eq_iff_index_eq (l1 l2 : List Nat) (hp1 : l1.length < 15) (ha1 : ∀ a ∈ l1, a < 16)
    (hp2 : l2.length < 15) (ha2 : ∀ a ∈ l2, a < 16) (hl : l1.length = l2.length) :
    ∃ g1 g2, Genotype.ofAlleles l1 = .ok g1 ∧ Genotype.ofAlleles l2 = .ok g2 ∧
      (g1.eq g2 = true ↔ g1.getIndex = g2.getIndex) ∧ (g1.eq g2 = true ↔ l1.Perm l2) ∧
      (g1.ne g2 = !g1.eq g2) := by
  obtain ⟨g1, a1, a2, a3, _⟩ := ofAlleles_ok l1 hp1 ha1
  obtain ⟨g2, b1, b2, b3, _⟩ := ofAlleles_ok l2 hp2 ha2
  have heq : g1.eq g2 = true ↔ g1 = g2 := by
    unfold Genotype.eq
    rw [beq_iff_eq, xor_eq_zero_iff]
    constructor
    · intro h; cases g1; cases g2; simp_all
    · intro h; rw [h]
  have hsort : g1 = g2 ↔ sortAsc l1 = sortAsc l2 := by
    constructor
    · intro h; rw [← a3, ← b3, h]
    · intro h
      have : Genotype.ofAlleles l1 = Genotype.ofAlleles l2 := by
        unfold Genotype.ofAlleles; rw [h, hl]
      rw [a1, b1] at this
      exact Except.ok.inj this
  refine ⟨g1, g2, a1, b1, ?_, ?_, ?_⟩
  · rw [heq, hsort]
    unfold Genotype.getIndex
    rw [a3, b3]
    constructor
    · intro h; rw [h]
    · intro h
      exact index_injective _ _ (sortAsc_asc l1) (sortAsc_asc l2) (by rw [sortAsc_length, sortAsc_length, hl]) h
  · rw [heq, hsort]
    constructor
    · intro h
      exact ((sortAsc_perm l1).symm.trans (h ▸ List.Perm.refl _)).trans (sortAsc_perm l2)
    · intro h
      have hp : (sortAsc l1).Perm (sortAsc l2) := ((sortAsc_perm l1).trans h).trans (sortAsc_perm l2).symm
      exact List.Perm.eq_of_pairwise (fun a b _ _ h1 h2 => Nat.le_antisymm h1 h2) (sortAsc_asc l1) (sortAsc_asc l2) hp
  · unfold Genotype.ne Genotype.eq
    cases h : (g1.gt ^^^ g2.gt) == 0 <;> simp [bne, h]

example : [2, 0, 1].length < 15 ∧ (∀ a ∈ [2, 0, 1], a < 16) ∧ [1, 2, 0].length < 15 ∧ (∀ a ∈ [1, 2, 0], a < 16) ∧
    [2, 0, 1].length = [1, 2, 0].length := by decide

/-- **`<` agrees with the index** (it is the index order, also across ploidies), and on one ploidy it is a
strict total order compatible with `==`: exactly one of `g1 < g2`, `g1 == g2`, `g2 < g1` holds -/
theorem lt_iff_index_lt (l1 l2 : List Nat) (hp1 : l1.length < 15) (ha1 : ∀ a ∈ l1, a < 16)
    (hp2 : l2.length < 15) (ha2 : ∀ a ∈ l2, a < 16) (hl : l1.length = l2.length) :
    ∃ g1 g2, Genotype.ofAlleles l1 = .ok g1 ∧ Genotype.ofAlleles l2 = .ok g2 ∧
      (g1.lt g2 = true ↔ g1.getIndex < g2.getIndex) ∧
      ((g1.lt g2 = true ∧ g1.eq g2 = false ∧ g2.lt g1 = false) ∨
       (g1.lt g2 = false ∧ g1.eq g2 = true ∧ g2.lt g1 = false) ∨
       (g1.lt g2 = false ∧ g1.eq g2 = false ∧ g2.lt g1 = true)) := by
  obtain ⟨g1, g2, a1, b1, e1, _, _⟩ := eq_iff_index_eq l1 l2 hp1 ha1 hp2 ha2 hl
  refine ⟨g1, g2, a1, b1, by simp [Genotype.lt], ?_⟩
  have h12 : g1.lt g2 = decide (g1.getIndex < g2.getIndex) := rfl
  have h21 : g2.lt g1 = decide (g2.getIndex < g1.getIndex) := rfl
  rw [h12, h21]
  rcases Nat.lt_trichotomy g1.getIndex g2.getIndex with h | h | h
  · left
    have : ¬ g1.eq g2 = true := fun he => by have := e1.mp he; omega
    simp [h, this]; omega
  · right; left
    have := e1.mpr h
    simp [this]; omega
  · right; right
    have : ¬ g1.eq g2 = true := fun he => by have := e1.mp he; omega
    simp [h, this]; omega

end WhVerif.Props.C19

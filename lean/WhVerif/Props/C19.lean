import WhVerif.Model.C19
import WhVerif.Model.C19Edit
import WhVerif.Spec.C19
namespace WhVerif.Props.C19
open WhVerif.C19
theorem placeholder_lev_nil (t : List Nat) : Spec.lev [] t = t.length := by
  unfold Spec.lev; rfl
end WhVerif.Props.C19
